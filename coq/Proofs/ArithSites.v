(* Arithmetic sites: the arithmetic expressions of the Python source that the model mirrors, named as pure
   terms ([m_*]) and shown to be what the model functions compute.  xlate/pyxlate.py translates the same
   expressions from /repo's current source on every run (coq/Gen/SrcGuards.v, [a_*]) and ties each to its
   [m_*] term (coq/Gen/GuardTie.v); the lemmas below are the other half of the tie: a successful run of the
   model function returns exactly the [m_*] term. *)
From Coq Require Import Bool List String.
From Demes Require Import Base.Num Base.Py Model.MDM Model.SizeAt Model.MsOpt Model.ToMs Model.FromMs
  Proofs.SizeAtProofs.
Import ListNotations.
Local Open Scope string_scope.
Local Open Scope list_scope.

Section ArithSites.
  Context {N : NumOps}.

  (* Epoch.time_span:  self.start_time - self.end_time *)
  Definition m_time_span (s e : num) : num := nsub s e.

  (* Deme.size_at *)
  Definition m_size_dt (s e t : num) : num := ndiv (nsub s t) (m_time_span s e).
  Definition m_size_r (ss es : num) : num := nlog (ndiv es ss).
  Definition m_size_exp (ss r dt : num) : num := nmul ss (nexp (nmul r dt)).
  Definition m_size_lin (ss es dt : num) : num := nadd ss (nmul (nsub es ss) dt).

  (* the final  lo = min(start_size, end_size); hi = max(start_size, end_size); return min(max(N, lo), hi) *)
  Definition m_size_lo (ss es : num) : num := pymin ss es.
  Definition m_size_hi (ss es : num) : num := pymax ss es.
  Definition m_size_clamp (ss es x : num) : num := pymin (pymax x (m_size_lo ss es)) (m_size_hi ss es).

  Lemma clamp_size_site e x : clamp_size e x = m_size_clamp (e_ssize e) (e_esize e) x.
  Proof. reflexivity. Qed.

  Lemma pdiv_ok a b v : pdiv a b = Ok v -> v = ndiv a b.
  Proof. unfold pdiv. destruct (neqb b n0); [discriminate|]. intro H; injection H as <-; reflexivity. Qed.
  Lemma plog_ok x v : plog x = Ok v -> nisnan x = false -> v = nlog x.
  Proof. unfold plog. intros H Hn. rewrite Hn in H. destruct (nle x n0); [discriminate|]. injection H as <-; reflexivity. Qed.
  Lemma pexp_ok x v : pexp x = Ok v -> v = nexp x.
  Proof. unfold pexp. destruct (_ && _); [discriminate|]. intro H; injection H as <-; reflexivity. Qed.

  (* the exponential branch of size_at returns start_size * exp(r * dt) with the source's r and dt,
     passed through the final clamp *)
  Lemma size_exp_site e t v :
    e_sf e = "exponential" -> isclose0 t (e_end e) = false -> neqb (e_ssize e) (e_esize e) = false ->
    nisnan (ndiv (e_esize e) (e_ssize e)) = false ->
    size_in_epoch e t = Ok v ->
    v = m_size_clamp (e_ssize e) (e_esize e)
          (m_size_exp (e_ssize e) (m_size_r (e_ssize e) (e_esize e)) (m_size_dt (e_start e) (e_end e) t)).
  Proof.
    intros Hsf Hc Hn Hq. rewrite (size_formula_exp e t Hsf Hc Hn).
    destruct (pdiv (nsub (e_start e) t) (nsub (e_start e) (e_end e))) as [dt|] eqn:Edt; cbn [bind]; [|discriminate].
    destruct (pdiv (e_esize e) (e_ssize e)) as [q|] eqn:Eq; cbn [bind]; [|discriminate].
    apply pdiv_ok in Edt. apply pdiv_ok in Eq. subst q.
    destruct (plog (ndiv (e_esize e) (e_ssize e))) as [r|] eqn:Er; cbn [bind]; [|discriminate].
    apply plog_ok in Er; [|exact Hq].
    destruct (pexp (nmul r dt)) as [x|] eqn:Ex; cbn [bind]; [|discriminate].
    apply pexp_ok in Ex. intro H; injection H as <-. subst. reflexivity.
  Qed.

  Lemma size_lin_site e t v :
    e_sf e = "linear" -> isclose0 t (e_end e) = false -> neqb (e_ssize e) (e_esize e) = false ->
    size_in_epoch e t = Ok v ->
    v = m_size_clamp (e_ssize e) (e_esize e)
          (m_size_lin (e_ssize e) (e_esize e) (m_size_dt (e_start e) (e_end e) t)).
  Proof.
    intros Hsf Hc Hn. rewrite (size_formula_lin e t Hsf Hc Hn).
    destruct (pdiv (nsub (e_start e) t) (nsub (e_start e) (e_end e))) as [dt|] eqn:Edt; cbn [bind]; [|discriminate].
    apply pdiv_ok in Edt. intro H; injection H as <-. subst. reflexivity.
  Qed.

  (* to_ms.get_growth_rate *)
  Definition m_4N0 (N0 : num) : num := nmul n4 N0.
  Definition m_growth_dt (s e N0 : num) : num := ndiv (m_time_span s e) (m_4N0 N0).
  Definition m_growth_ret (ss es dt : num) : num := ndiv (nsub n0 (nlog (ndiv ss es))) dt.

  Lemma growth_rate_site N0 e r :
    nneq (e_esize e) (e_ssize e) = true -> nisnan (ndiv (e_ssize e) (e_esize e)) = false ->
    growth_rate (m_4N0 N0) e = Ok r ->
    r = m_growth_ret (e_ssize e) (e_esize e) (m_growth_dt (e_start e) (e_end e) N0).
  Proof.
    intros Hd Hq. unfold growth_rate.
    destruct (raise_if _ _) as [[]|]; cbn [bind]; [|discriminate].
    rewrite Hd.
    destruct (pdiv (nsub (e_start e) (e_end e)) (m_4N0 N0)) as [dt|] eqn:Edt; cbn [bind]; [|discriminate].
    destruct (pdiv (e_ssize e) (e_esize e)) as [q|] eqn:Eq; cbn [bind]; [|discriminate].
    apply pdiv_ok in Edt. apply pdiv_ok in Eq. subst q.
    destruct (plog (ndiv (e_ssize e) (e_esize e))) as [l|] eqn:El; cbn [bind]; [|discriminate].
    apply plog_ok in El; [|exact Hq].
    destruct (pdiv (nneg l) dt) as [x|] eqn:Ex; cbn [bind]; [|discriminate].
    apply pdiv_ok in Ex. intro H; injection H as <-. subst. reflexivity.
  Qed.

  (* to_ms: -en size, conditional split proportions, migration rates, final scaling of the event times *)
  Definition m_en_size (sz N0 : num) : num := ndiv sz N0.
  Definition m_anc_prop (pk : num) (rest : list num) : num := ndiv pk (pysum rest).
  Definition m_split_keep (p : num) : num := nsub n1 p.
  Definition m_ms_rate (N0 r : num) : num := nmul (m_4N0 N0) r.

  (* the first size event of a deme's walk: when the size differs from the epoch's end size an -en with
     end_size / N0 is emitted at the epoch's end *)
  Lemma size_events_en_site N0 j e rest size growth evs :
    nneq size (e_esize e) = true ->
    size_events N0 (m_4N0 N0) j (e :: rest) size growth = Ok evs ->
    exists ev tl, evs = ev :: tl /\ mk_n (e_end e) j (m_en_size (e_esize e) N0) = Ok ev.
  Proof.
    intros Hd. cbn [size_events]. rewrite Hd.
    destruct (pdiv (e_esize e) N0) as [x|] eqn:Ex; cbn [bind]; [|discriminate].
    apply pdiv_ok in Ex. subst x. fold (m_en_size (e_esize e) N0).
    destruct (mk_n (e_end e) j (m_en_size (e_esize e) N0)) as [ev|] eqn:Eev; cbn [bind]; [|discriminate].
    destruct (growth_rate (m_4N0 N0) e) as [a|]; cbn [bind]; [|discriminate].
    destruct (if nneq n0 a then _ else _) as [r2|]; cbn [bind]; [|discriminate].
    destruct (size_events N0 (m_4N0 N0) j rest (e_ssize e) _) as [r'|]; cbn [bind]; [|discriminate].
    intro H; injection H as <-. exists ev. eexists. split; [reflexivity|reflexivity].
  Qed.

  (* one step of the ancestry chain: the proportion is p_k / sum(p_k..) and a non-last ancestor's split keeps 1 - it *)
  Lemma ancestry_events_site names d self k a b rest num evs n' :
    ancestry_events names d self k (a :: b :: rest) num = Ok (evs, n') ->
    exists pk anc_id e1 e2 tl,
      nth_error (d_props d) k = Some pk /\ id_of names a = Ok anc_id /\
      mk_s (d_start d) self (m_split_keep (m_anc_prop pk (drop k (d_props d)))) = Ok e1 /\
      mk_j (d_start d) (S num) anc_id = Ok e2 /\ evs = e1 :: e2 :: tl.
  Proof.
    cbn [ancestry_events].
    destruct (id_of names a) as [anc_id|]; cbn [bind]; [|discriminate].
    destruct (nth_error (d_props d) k) as [pk|]; cbn [bind]; [|discriminate].
    destruct (pdiv pk (pysum (drop k (d_props d)))) as [prop|] eqn:Ep; cbn [bind]; [|discriminate].
    apply pdiv_ok in Ep. subst prop.
    destruct (mk_s (d_start d) self _) as [e1|] eqn:E1; cbn [bind]; [|discriminate].
    destruct (mk_j (d_start d) (S num) anc_id) as [e2|] eqn:E2; cbn [bind]; [|discriminate].
    match goal with |- bind ?X _ = _ -> _ => destruct X as [r|] end; cbn [bind]; [|discriminate].
    intro H; injection H as <- <-.
    exists pk, anc_id, e1, e2, (fst r). repeat split; try reflexivity; assumption.
  Qed.

  (* from_ms (build_graph): growth rates alpha / (4 N0), sizes x * N0, migration rates / (4 N0), times 4 N0 t *)
  Definition m_from_growth (a N0 : num) : num := ndiv a (m_4N0 N0).
  Definition m_from_size (x N0 : num) : num := nmul x N0.
  Definition m_from_time (N0 t : num) : num := nmul (m_4N0 N0) t.
End ArithSites.
