(* Non-vacuity, part 3: exact-arithmetic corollaries (conversion to generations over NumQ always
   returns a valid graph) and concrete inputs over NumQ on which the hypotheses of the theorems of
   Proofs/SplitChain.v, SizeBetweenQ.v, StepsProofs.v, MigsFromMatrices.v, FromMsRefine.v and
   FromMsHistory.v hold, with what their conclusions say there. *)
From Coq Require Import Bool List String QArith Qabs Lqa Arith Lia.
From Demes Require Import Base.Num Base.NumQ Base.Py Model.MDM Model.InGen Model.MsOpt Model.ToMs
  Model.SizeAt Model.MigMat Model.Steps Model.FromMs Spec.Valid Spec.MsSem
  Proofs.InGenProofs Proofs.InGenValid Proofs.InGenQ Proofs.SplitChain Proofs.SizeBetweenQ Proofs.StepsProofs
  Proofs.MsProofs Proofs.MigsFromMatrices Proofs.FromMsRefine Proofs.FromMsHistory
  Proofs.Examples Proofs.Examples2.
Import ListNotations.
Local Open Scope string_scope.
Local Open Scope list_scope.



(* an instance of the corollary: the graph of Examples.v is in years with generation time 25 *)
Definition ex3_gg : @graph NumQ :=
  Eval vm_compute in match in_generations ex_graph with Ok g => g | Err _ => ex2_dummy end.
Example ex3_ingen : g_units ex_graph = "years" /\ g_gt ex_graph = q 25 1 true /\
                    in_generations ex_graph = Ok ex3_gg.
Proof. repeat split. Qed.
Theorem ex3_gg_valid : Valid ex3_gg.
Proof. exact (ingen_valid_Q ex_graph ex3_gg ex_valid (proj2 (proj2 ex3_ingen))). Qed.
(* the converted times: B starts at 100 / 25 = 4 generations, the pulse is at 20 / 25 = 4/5 *)
Example ex3_gg_times :
  g_units ex3_gg = "generations" /\ g_gt ex3_gg = n1 /\
  Forall2 (fun x y => neqb x y = true) (map d_start (g_demes ex3_gg)) [ninf; q 4 1 false; q 2 1 false] /\
  Forall2 (fun x y => neqb x y = true) (map p_time (g_pulses ex3_gg)) [q 4 5 false].
Proof. repeat split; repeat constructor. Qed.

(* ================================================================== *)
(* PART B: Proofs/SplitChain.v *)

Definition ex3_ps : list Q := [1#2; 1#3; 1#6]%Q.

Lemma ex3_ps_pos : Forall (fun p => (0 < p)%Q) ex3_ps.
Proof. repeat constructor. Qed.

Example ex3_qsum : (qsum ex3_ps == 1)%Q.
Proof. reflexivity. Qed.

(* (B1) the hypothesis of chain_correct holds, and its conclusion on this list *)
Example ex3_chain_correct :
  Forall2 Qeq (chain 1%Q ex3_ps) (map (fun p => (p / qsum ex3_ps)%Q) ex3_ps).
Proof. exact (chain_correct ex3_ps ex3_ps_pos). Qed.
(* the proportions add up to 1, so the chain delivers exactly the proportions *)
Example ex3_chain_value : Forall2 Qeq (chain 1%Q ex3_ps) ex3_ps.
Proof. vm_compute. repeat constructor. Qed.
(* the conditional split proportions are 1/2 of everything, then 2/3 of the remaining half *)
Example ex3_chain_computed : chain 1%Q ex3_ps = [36 # 72; 648 # 1944; 324 # 1944]%Q.
Proof. vm_compute. reflexivity. Qed.
Example ex3_chain_total : (qsum (chain 1%Q ex3_ps) == 1)%Q.
Proof. apply (chain_total ex3_ps ex3_ps_pos). discriminate. Qed.

(* (B2) a deme D (ms population 4) with three ancestors A, B, C (populations 1, 2, 3) and
   proportions 1/2, 1/3, 1/6, starting at time 50 *)
Definition ex3_dD : @deme NumQ :=
  mkDeme "D" "" (q 50 1 true) ["A"; "B"; "C"] [q 1 2 false; q 1 3 false; q 1 6 false]
         [mkEpoch (q 50 1 true) (q 0 1 true) (q 100 1 true) (q 100 1 true) "constant" n0 n0].
Definition ex3_names : list string := ["A"; "B"; "C"; "D"].

Definition ex3_anc_evs : list (@msev NumQ) :=
  [Evs (q 50 1 false) 4 (QF (36 # 72) false); Evj (q 50 1 false) 5 1;
   Evs (q 50 1 false) 4 (QF (9 # 27) false); Evj (q 50 1 false) 6 2;
   Evj (q 50 1 false) 4 3].

Example ex3_ancestry_events :
  ancestry_events ex3_names ex3_dD 4 0 (d_anc ex3_dD) 4 = Ok (ex3_anc_evs, 6%nat).
Proof. reflexivity. Qed.

(* the conclusion of ancestry_events_chain, by the theorem ... *)
Example ex3_ancestry_events_chain :
  exists ids, mapM (id_of ex3_names) (d_anc ex3_dD) = Ok ids /\
    ex3_anc_evs = split_events (d_start ex3_dD) 4 4 ids (d_props ex3_dD) /\
    6%nat = (4 + (List.length (d_anc ex3_dD) - 1))%nat.
Proof.
  exact (ancestry_events_chain ex3_names ex3_dD 4 4 ex3_anc_evs 6 eq_refl ex3_ancestry_events).
Qed.
(* ... and with the explicit population numbers *)
Example ex3_ancestry_ids :
  mapM (id_of ex3_names) (d_anc ex3_dD) = Ok [1; 2; 3]%nat /\
  ex3_anc_evs = split_events (d_start ex3_dD) 4 4 [1; 2; 3]%nat (d_props ex3_dD).
Proof. split; reflexivity. Qed.
(* the split proportions: -es 4 keeps 1/2 in population 4, then keeps 1/3 of it *)
Example ex3_anc_split_values :
  map (fun e => match e with Evs _ _ p => neqb p (q 1 2 false) || neqb p (q 1 3 false) | _ => true end)
      ex3_anc_evs = [true; true; true; true; true].
Proof. vm_compute. reflexivity. Qed.

(* (B3) split_chain_moves on the row of population 4 (all of its lineages in itself) *)
Definition ex3_row : list Q := [0; 0; 0; 1]%Q.
Definition ex3_ids : list nat := [1; 2; 3]%nat.

Lemma ex3_nodup_ids : NoDup ex3_ids.
Proof. repeat (apply NoDup_cons; [cbn; lia|]). apply NoDup_nil. Qed.

Example ex3_split_hyps :
  List.length ex3_row = 4%nat /\ List.length ex3_ids = List.length ex3_ps /\ ex3_ids <> [] /\
  Forall (fun p => (0 < p)%Q) ex3_ps /\ NoDup ex3_ids /\ ~ In 4%nat ex3_ids /\
  (1 <= 4 <= 4)%nat /\ Forall (fun a => (1 <= a <= 4)%nat) ex3_ids.
Proof.
  split; [reflexivity|]. split; [reflexivity|]. split; [discriminate|].
  split; [exact ex3_ps_pos|]. split; [exact ex3_nodup_ids|].
  split; [cbn; lia|]. split; [lia|]. repeat constructor; lia.
Qed.

Definition ex3_row' : list Q := [36 # 72; 648 # 1944; 324 # 1944; 0; 0; 0]%Q.
Example ex3_split_fold :
  fold_left (fun rn e => move_row_Q e rn) (split_events_Q 4 4 ex3_ids ex3_ps) (ex3_row, 4%nat)
  = (ex3_row', 6%nat).
Proof. vm_compute. reflexivity. Qed.

(* the instantiated conclusion of split_chain_moves *)
Example ex3_split_chain_moves :
  6%nat = (4 + (List.length ex3_ids - 1))%nat /\ List.length ex3_row' = 6%nat /\
  (nth (4 - 1) ex3_row' 0 == 0)%Q /\
  (forall k a p, nth_error ex3_ids k = Some a -> nth_error ex3_ps k = Some p ->
     (nth (a - 1) ex3_row' 0 == nth (a - 1) ex3_row 0 + nth (4 - 1) ex3_row 0 * (p / qsum ex3_ps))%Q) /\
  (forall m, (4 < m <= 6)%nat -> (nth (m - 1) ex3_row' 0 == 0)%Q) /\
  (forall m, (1 <= m <= 4)%nat -> m <> 4%nat -> ~ In m ex3_ids -> (nth (m - 1) ex3_row' 0 == nth (m - 1) ex3_row 0)%Q).
Proof.
  destruct ex3_split_hyps as (H1 & H2 & H3 & H4 & H5 & H6 & H7 & H8).
  pose proof (split_chain_moves 4 4 ex3_ids ex3_ps ex3_row H1 H2 H3 H4 H5 H6 H7 H8) as H.
  rewrite ex3_split_fold in H. exact H.
Qed.
(* read off: ancestor k receives exactly p_k of the lineages *)
Example ex3_split_values : Forall2 Qeq ex3_row' [1#2; 1#3; 1#6; 0; 0; 0]%Q.
Proof. repeat constructor. Qed.
Example ex3_split_anc2 : (nth (2 - 1) ex3_row' 0 == 1 # 3)%Q.
Proof.
  destruct ex3_split_chain_moves as (_ & _ & _ & H & _).
  rewrite (H 1%nat 2%nat (1#3)%Q eq_refl eq_refl). reflexivity.
Qed.

(* ================================================================== *)
(* PART C: Proofs/SizeBetweenQ.v on the linear epoch of ex_graph (deme A, second epoch:
   (200, 0], from 1000 to 2000) *)

Definition ex3_e : @epoch NumQ :=
  mkEpoch (q 200 1 true) (q 0 1 true) (q 1000 1 true) (q 2000 1 true) "linear" n0 n0.

Example ex3_e_in_graph :
  exists d, nth_error (g_demes ex_graph) 0 = Some d /\ nth_error (d_epochs d) 1 = Some ex3_e.
Proof. eexists. split; reflexivity. Qed.

Lemma ex3_e_valid : ValidEpoch ex3_e.
Proof.
  constructor; try (vm_compute; reflexivity).
  - split; vm_compute; reflexivity.
  - split; vm_compute; reflexivity.
  - cbn. tauto.
  - intro H. discriminate H.
  - intro H. discriminate H.
  - split; vm_compute; reflexivity.
  - split; vm_compute; reflexivity.
Qed.

Example ex3_e_linear : e_sf ex3_e = "linear".
Proof. reflexivity. Qed.

(* an interior time: 50 (three quarters of the way from 200 to 0) *)
Definition ex3_t : qx := q 50 1 true.
Example ex3_e_owns : epoch_owns ex3_t ex3_e = true.
Proof. vm_compute. reflexivity. Qed.

Definition ex3_v : qx := Eval vm_compute in match size_in_epoch ex3_e ex3_t with Ok v => v | Err _ => QNaN end.
Example ex3_size : size_in_epoch ex3_e ex3_t = Ok ex3_v.
Proof. vm_compute. reflexivity. Qed.
Example ex3_size_value : neqb ex3_v (q 1750 1 false) = true /\ neqb ex3_v (e_esize ex3_e) = false.
Proof. split; vm_compute; reflexivity. Qed.

(* the conclusion of size_linear_exact_Q, by the theorem *)
Example ex3_size_linear_exact :
  exists v, size_in_epoch ex3_e ex3_t = Ok v /\
    (v = e_esize ex3_e \/
     exists s en ss es tt vv, qval (e_start ex3_e) = Some s /\ qval (e_end ex3_e) = Some en /\
       qval (e_ssize ex3_e) = Some ss /\ qval (e_esize ex3_e) = Some es /\ qval ex3_t = Some tt /\
       qval v = Some vv /\ (vv == ss + (es - ss) * ((s - tt) / (s - en)))%Q).
Proof. exact (size_linear_exact_Q ex3_e ex3_t ex3_e_valid ex3_e_linear ex3_e_owns). Qed.

(* here the second alternative holds, with the numbers of the epoch: 1000 + 1000 * (150 / 200) *)
Example ex3_size_linear_value :
  exists vv, qval ex3_v = Some vv /\
    (vv == 1000 + (2000 - 1000) * ((200 - 50) / (200 - 0)))%Q /\ (vv == 1750)%Q.
Proof. eexists. split; [reflexivity|]. split; reflexivity. Qed.

(* the conclusion of size_between_linear_Q, by the theorem; the first alternative is the true one *)
Example ex3_size_between :
  (nle (e_ssize ex3_e) ex3_v && nle ex3_v (e_esize ex3_e) = true) \/
  (nle (e_esize ex3_e) ex3_v && nle ex3_v (e_ssize ex3_e) = true).
Proof. exact (size_between_linear_Q ex3_e ex3_t ex3_v ex3_e_valid ex3_e_linear ex3_e_owns ex3_size). Qed.
Example ex3_size_between_value :
  nle (q 1000 1 true) ex3_v && nle ex3_v (q 2000 1 true) = true /\
  nle (q 2000 1 true) ex3_v && nle ex3_v (q 1000 1 true) = false.
Proof. split; vm_compute; reflexivity. Qed.

(* the same through size_at on the deme of the graph *)
Example ex3_size_at : exists d, nth_error (g_demes ex_graph) 0 = Some d /\ size_at d ex3_t = Ok ex3_v.
Proof. eexists. split; [reflexivity|]. vm_compute. reflexivity. Qed.

(* ================================================================== *)
(* PART D: Model/Steps.v and Proofs/StepsProofs.v on ex_graph *)

Example ex3_counts :
  nD ex_graph = 3%nat /\ nE ex_graph = 4%nat /\ nA ex_graph = 3%nat /\ nM ex_graph = 3%nat /\
  nP ex_graph = 1%nat /\ nS ex_graph = 1%nat /\ nT ex_graph = 4%nat /\ gsize ex_graph = 15%nat.
Proof. vm_compute. repeat split. Qed.

Example ex3_steps :
  steps_in_generations ex_graph = 11%nat /\ steps_asdict ex_graph = 15%nat /\
  steps_events ex_graph = 6%nat /\ steps_migmat ex_graph = 27%nat /\
  steps_fromdict ex_graph = 60%nat /\ steps_to_ms ex_graph = 17%nat.
Proof. vm_compute. repeat split. Qed.

(* each theorem of StepsProofs.v, instantiated (by the theorem) ... *)
Example ex3_nT_bound : (nT ex_graph <= 2 * nM ex_graph + 1)%nat.
Proof. exact (nT_bound ex_graph). Qed.
Example ex3_end_times_count :
  (List.length (mm_end_times (g_migs ex_graph)) <= 2 * List.length (g_migs ex_graph) + 1)%nat.
Proof. exact (end_times_count (g_migs ex_graph)). Qed.
Example ex3_steps_in_generations : (steps_in_generations ex_graph <= gsize ex_graph)%nat.
Proof. exact (steps_in_generations_linear ex_graph). Qed.
Example ex3_steps_asdict : (steps_asdict ex_graph <= gsize ex_graph)%nat.
Proof. exact (steps_asdict_linear ex_graph). Qed.
Example ex3_steps_events : (steps_events ex_graph <= gsize ex_graph)%nat.
Proof. exact (steps_events_linear ex_graph). Qed.
Example ex3_steps_to_ms : (steps_to_ms ex_graph <= 2 * gsize ex_graph)%nat.
Proof. exact (steps_to_ms_linear ex_graph). Qed.
Example ex3_steps_migmat : (steps_migmat ex_graph <= 3 * (gsize ex_graph + 1) * (gsize ex_graph + 1))%nat.
Proof. exact (steps_migmat_quadratic ex_graph). Qed.
Example ex3_steps_fromdict : (steps_fromdict ex_graph <= 8 * (gsize ex_graph + 1) * (gsize ex_graph + 1))%nat.
Proof. exact (steps_fromdict_quadratic ex_graph). Qed.

(* ... and numerically: 4 <= 7, 11 <= 15, 15 <= 15, 6 <= 15, 17 <= 30, 27 <= 768, 60 <= 2048 *)
Example ex3_steps_numeric :
  (4 <= 2 * 3 + 1 /\ 11 <= 15 /\ 15 <= 15 /\ 6 <= 15 /\ 17 <= 2 * 15 /\
   27 <= 3 * (15 + 1) * (15 + 1) /\ 60 <= 8 * (15 + 1) * (15 + 1))%nat.
Proof. lia. Qed.
Example ex3_steps_checked :
  (Nat.leb (nT ex_graph) (2 * nM ex_graph + 1)
   && Nat.leb (steps_in_generations ex_graph) (gsize ex_graph)
   && Nat.leb (steps_asdict ex_graph) (gsize ex_graph)
   && Nat.leb (steps_events ex_graph) (gsize ex_graph)
   && Nat.leb (steps_to_ms ex_graph) (2 * gsize ex_graph)
   && Nat.leb (steps_migmat ex_graph) (3 * (gsize ex_graph + 1) * (gsize ex_graph + 1))
   && Nat.leb (steps_fromdict ex_graph) (8 * (gsize ex_graph + 1) * (gsize ex_graph + 1)))%bool = true.
Proof. vm_compute. reflexivity. Qed.

(* ================================================================== *)
(* PART E: Proofs/MigsFromMatrices.v.  A history of three 3x3 matrices (entry [j][k]: rate into
   population j from population k) with end times [20; 10; 0], i.e. the intervals [20, inf),
   [10, 20), [0, 10):
     b -> a (entry [0][1]): 1/100, 1/100, 0      same rate over two adjacent intervals: one record
     a -> b (entry [1][0]): 1/100, 1/50, 1/50    the rate changes at 20: two records
     a -> c (entry [2][0]): 1/200, 0, 1/200      switched off at 20 and on again at 10: two records *)

Definition ex3_z : qx := nf0.
Definition ex3_M0 : list (list qx) :=
  [[ex3_z; q 1 100 false; ex3_z]; [q 1 100 false; ex3_z; ex3_z]; [q 1 200 false; ex3_z; ex3_z]].
Definition ex3_M1 : list (list qx) :=
  [[ex3_z; q 1 100 false; ex3_z]; [q 1 50 false; ex3_z; ex3_z]; [ex3_z; ex3_z; ex3_z]].
Definition ex3_M2 : list (list qx) :=
  [[ex3_z; ex3_z; ex3_z]; [q 1 50 false; ex3_z; ex3_z]; [q 1 200 false; ex3_z; ex3_z]].
Definition ex3_mms : list (list (list qx)) := [ex3_M0; ex3_M1; ex3_M2].
Definition ex3_ends : list qx := [q 20 1 true; q 10 1 true; q 0 1 true].
Definition ex3_mnames : list string := ["a"; "b"; "c"].

Definition ex3_r1 : @bmig NumQ := mkBM "b" "a" ninf (q 10 1 true) (q 1 100 false).
Definition ex3_r2 : @bmig NumQ := mkBM "a" "b" ninf (q 20 1 true) (q 1 100 false).
Definition ex3_r3 : @bmig NumQ := mkBM "a" "c" ninf (q 20 1 true) (q 1 200 false).
Definition ex3_r4 : @bmig NumQ := mkBM "a" "b" (q 20 1 true) (q 0 1 true) (q 1 50 false).
Definition ex3_r5 : @bmig NumQ := mkBM "a" "c" (q 10 1 true) (q 0 1 true) (q 1 200 false).

(* one merged record for b -> a, two for a -> b, two for a -> c *)
Example ex3_migs : migs_from_matrices ex3_mnames ex3_mms ex3_ends = [ex3_r1; ex3_r2; ex3_r3; ex3_r4; ex3_r5].
Proof. vm_compute. reflexivity. Qed.

(* the hypotheses of migs_from_matrices_sound that do not depend on the time or the pair *)
Lemma ex3_mnames_nodup : NoDup ex3_mnames.
Proof. ex2_nodup. Qed.

Lemma ex3_mlen : List.length ex3_mms = List.length ex3_ends.
Proof. reflexivity. Qed.

Lemma ex3_ends_desc : StrictDesc' ex3_ends.
Proof.
  intros [|[|[|i]]] a b Ha Hb; cbn in Ha, Hb; try discriminate Hb.
  - inversion Ha; inversion Hb; subst. reflexivity.
  - inversion Ha; inversion Hb; subst. reflexivity.
Qed.

Lemma ex3_ends_fin : forall e, In e ex3_ends -> ok e /\ nisinf e = false.
Proof. intros e [<-|[<-|[<-|[]]]]; split; reflexivity. Qed.

Lemma mentry_ok_Q (mms : list (list (list (@num NumQ)))) :
  Forall (Forall (Forall (fun x => @ok NumQ x))) mms -> forall i j k, @ok NumQ (mentry mms i j k).
Proof.
  intros H i j k. unfold mentry.
  destruct (nth_in_or_default i mms []) as [H1|E1].
  - rewrite Forall_forall in H. pose proof (H _ H1) as H2.
    destruct (nth_in_or_default j (nth i mms []) []) as [H3|E3].
    + rewrite Forall_forall in H2. pose proof (H2 _ H3) as H4.
      destruct (nth_in_or_default k (nth j (nth i mms []) []) (@n0 NumQ)) as [H5|E5].
      * rewrite Forall_forall in H4. exact (H4 _ H5).
      * rewrite E5. reflexivity.
    + rewrite E3. destruct k; reflexivity.
  - rewrite E1. destruct j; destruct k; reflexivity.
Qed.

Lemma ex3_entries_ok : forall i j k, ok (mentry ex3_mms i j k).
Proof. apply mentry_ok_Q. repeat constructor. Qed.

(* the hypotheses that depend on the interval i, the pair (j = destination, k = source) and t *)
Definition ex3_mhyps (i j k : nat) (t : qx) : Prop :=
  (i < List.length ex3_mms)%nat /\ (j < List.length ex3_mnames)%nat /\ (k < List.length ex3_mnames)%nat /\
  j <> k /\ ok t /\ nle (nth i ex3_ends n0) t = true /\ nlt t (istart ex3_ends i) = true.

Ltac ex3_mhyps_tac :=
  unfold ex3_mhyps; cbn [List.length ex3_mms ex3_mnames];
  repeat (apply conj); try lia; try (vm_compute; reflexivity).

Lemma ex3_mfm_sound i j k t l :
  ex3_mhyps i j k t ->
  in_force (migs_from_matrices ex3_mnames ex3_mms ex3_ends) (nth k ex3_mnames "") (nth j ex3_mnames "") t = l ->
  match l with
  | [] => neqb (mentry ex3_mms i j k) n0 = true
  | [m] => neqb (bm_rate m) (mentry ex3_mms i j k) = true /\ neqb (mentry ex3_mms i j k) n0 = false
  | _ => False
  end.
Proof.
  intros (H1 & H2 & H3 & H4 & H5 & H6 & H7) E. rewrite <- E.
  exact (migs_from_matrices_sound ex3_mnames ex3_mms ex3_ends i j k t
           ex3_mnames_nodup ex3_mlen ex3_ends_desc ex3_ends_fin ex3_entries_ok H1 H2 H3 H4 H5 H6 H7).
Qed.

(* --- t = 25, in interval 0 = [20, inf): all three pairs have their first record in force --- *)
Definition ex3_T25 : qx := q 25 1 true.
Example ex3_mhyps_T25_ba : ex3_mhyps 0 0 1 ex3_T25.  Proof. ex3_mhyps_tac. Qed.
Example ex3_mhyps_T25_ab : ex3_mhyps 0 1 0 ex3_T25.  Proof. ex3_mhyps_tac. Qed.
Example ex3_mhyps_T25_ac : ex3_mhyps 0 2 0 ex3_T25.  Proof. ex3_mhyps_tac. Qed.
Example ex3_force_T25 :
  in_force (migs_from_matrices ex3_mnames ex3_mms ex3_ends) "b" "a" ex3_T25 = [ex3_r1] /\
  in_force (migs_from_matrices ex3_mnames ex3_mms ex3_ends) "a" "b" ex3_T25 = [ex3_r2] /\
  in_force (migs_from_matrices ex3_mnames ex3_mms ex3_ends) "a" "c" ex3_T25 = [ex3_r3].
Proof. repeat split; vm_compute; reflexivity. Qed.
Example ex3_sound_T25_ba :
  neqb (bm_rate ex3_r1) (mentry ex3_mms 0 0 1) = true /\ neqb (mentry ex3_mms 0 0 1) n0 = false.
Proof. exact (ex3_mfm_sound 0 0 1 ex3_T25 [ex3_r1] ex3_mhyps_T25_ba (proj1 ex3_force_T25)). Qed.
Example ex3_sound_T25_ab :
  neqb (bm_rate ex3_r2) (mentry ex3_mms 0 1 0) = true /\ neqb (mentry ex3_mms 0 1 0) n0 = false.
Proof. exact (ex3_mfm_sound 0 1 0 ex3_T25 [ex3_r2] ex3_mhyps_T25_ab (proj1 (proj2 ex3_force_T25))). Qed.
Example ex3_sound_T25_ac :
  neqb (bm_rate ex3_r3) (mentry ex3_mms 0 2 0) = true /\ neqb (mentry ex3_mms 0 2 0) n0 = false.
Proof. exact (ex3_mfm_sound 0 2 0 ex3_T25 [ex3_r3] ex3_mhyps_T25_ac (proj2 (proj2 ex3_force_T25))). Qed.

(* --- t = 15, in interval 1 = [10, 20): b -> a still the same (merged) record, a -> b the second
   record (new rate), a -> c none (switched off) --- *)
Definition ex3_T15 : qx := q 15 1 true.
Example ex3_mhyps_T15_ba : ex3_mhyps 1 0 1 ex3_T15.  Proof. ex3_mhyps_tac. Qed.
Example ex3_mhyps_T15_ab : ex3_mhyps 1 1 0 ex3_T15.  Proof. ex3_mhyps_tac. Qed.
Example ex3_mhyps_T15_ac : ex3_mhyps 1 2 0 ex3_T15.  Proof. ex3_mhyps_tac. Qed.
Example ex3_force_T15 :
  in_force (migs_from_matrices ex3_mnames ex3_mms ex3_ends) "b" "a" ex3_T15 = [ex3_r1] /\
  in_force (migs_from_matrices ex3_mnames ex3_mms ex3_ends) "a" "b" ex3_T15 = [ex3_r4] /\
  in_force (migs_from_matrices ex3_mnames ex3_mms ex3_ends) "a" "c" ex3_T15 = [].
Proof. repeat split; vm_compute; reflexivity. Qed.
Example ex3_sound_T15_ba :
  neqb (bm_rate ex3_r1) (mentry ex3_mms 1 0 1) = true /\ neqb (mentry ex3_mms 1 0 1) n0 = false.
Proof. exact (ex3_mfm_sound 1 0 1 ex3_T15 [ex3_r1] ex3_mhyps_T15_ba (proj1 ex3_force_T15)). Qed.
Example ex3_sound_T15_ab :
  neqb (bm_rate ex3_r4) (mentry ex3_mms 1 1 0) = true /\ neqb (mentry ex3_mms 1 1 0) n0 = false.
Proof. exact (ex3_mfm_sound 1 1 0 ex3_T15 [ex3_r4] ex3_mhyps_T15_ab (proj1 (proj2 ex3_force_T15))). Qed.
Example ex3_sound_T15_ac : neqb (mentry ex3_mms 1 2 0) n0 = true.
Proof. exact (ex3_mfm_sound 1 2 0 ex3_T15 [] ex3_mhyps_T15_ac (proj2 (proj2 ex3_force_T15))). Qed.

(* --- t = 5, in interval 2 = [0, 10): b -> a none (the merged record ended at 10), a -> b the
   second record, a -> c its second record (switched on again) --- *)
Definition ex3_T5 : qx := q 5 1 true.
Example ex3_mhyps_T5_ba : ex3_mhyps 2 0 1 ex3_T5.  Proof. ex3_mhyps_tac. Qed.
Example ex3_mhyps_T5_ab : ex3_mhyps 2 1 0 ex3_T5.  Proof. ex3_mhyps_tac. Qed.
Example ex3_mhyps_T5_ac : ex3_mhyps 2 2 0 ex3_T5.  Proof. ex3_mhyps_tac. Qed.
Example ex3_force_T5 :
  in_force (migs_from_matrices ex3_mnames ex3_mms ex3_ends) "b" "a" ex3_T5 = [] /\
  in_force (migs_from_matrices ex3_mnames ex3_mms ex3_ends) "a" "b" ex3_T5 = [ex3_r4] /\
  in_force (migs_from_matrices ex3_mnames ex3_mms ex3_ends) "a" "c" ex3_T5 = [ex3_r5].
Proof. repeat split; vm_compute; reflexivity. Qed.
Example ex3_sound_T5_ba : neqb (mentry ex3_mms 2 0 1) n0 = true.
Proof. exact (ex3_mfm_sound 2 0 1 ex3_T5 [] ex3_mhyps_T5_ba (proj1 ex3_force_T5)). Qed.
Example ex3_sound_T5_ab :
  neqb (bm_rate ex3_r4) (mentry ex3_mms 2 1 0) = true /\ neqb (mentry ex3_mms 2 1 0) n0 = false.
Proof. exact (ex3_mfm_sound 2 1 0 ex3_T5 [ex3_r4] ex3_mhyps_T5_ab (proj1 (proj2 ex3_force_T5))). Qed.
Example ex3_sound_T5_ac :
  neqb (bm_rate ex3_r5) (mentry ex3_mms 2 2 0) = true /\ neqb (mentry ex3_mms 2 2 0) n0 = false.
Proof. exact (ex3_mfm_sound 2 2 0 ex3_T5 [ex3_r5] ex3_mhyps_T5_ac (proj2 (proj2 ex3_force_T5))). Qed.

(* the boundary t = 10 belongs to interval 1 (ends inclusive): b -> a still in force *)
Definition ex3_T10 : qx := q 10 1 true.
Example ex3_mhyps_T10_ba : ex3_mhyps 1 0 1 ex3_T10.  Proof. ex3_mhyps_tac. Qed.
Example ex3_sound_T10_ba :
  neqb (bm_rate ex3_r1) (mentry ex3_mms 1 0 1) = true /\ neqb (mentry ex3_mms 1 0 1) n0 = false.
Proof.
  refine (ex3_mfm_sound 1 0 1 ex3_T10 [ex3_r1] ex3_mhyps_T10_ba _). vm_compute. reflexivity.
Qed.

(* migs_from_matrices_wellformed on one of the records *)
Example ex3_wellformed_r4 :
  nlt (bm_end ex3_r4) (bm_start ex3_r4) = true /\ neqb (bm_rate ex3_r4) n0 = false /\
  bm_src ex3_r4 <> bm_dst ex3_r4.
Proof.
  apply (@migs_from_matrices_wellformed NumQ NumQLaws ex3_mnames ex3_mms ex3_ends ex3_r4
           ex3_mnames_nodup ex3_mlen ex3_ends_desc ex3_ends_fin ex3_entries_ok).
  rewrite ex3_migs. cbn. tauto.
Qed.

(* ================================================================== *)
(* PART F: Proofs/FromMsRefine.v and Proofs/FromMsHistory.v *)

(* multiplication by the int 1 is the identity of NumQ, as a Leibniz equality (the int flag of
   the product is [i && true]) *)
Lemma mul_one_Q : forall x : @num NumQ, nmul x n1 = x.
Proof.
  intros [[n d] i| | |]; try reflexivity.
  change (QF ((n # d) * 1)%Q (i && true) = QF (n # d) i).
  unfold Qmult. cbn [Qnum Qden]. rewrite Z.mul_1_r, Pos.mul_1_r, andb_true_r. reflexivity.
Qed.

(* exact multiplication by 4 * N0 (N0 positive and finite) preserves okness and order: ScaleMono
   holds on every list of times *)
Lemma qx_mul_pos c k x : (0 < c)%Q ->
  qx_mul (QF c k) x = match x with
                      | QF a j => QF (c * a)%Q (k && j)
                      | QPInf => QPInf
                      | QNInf => QNInf
                      | QNaN => QNaN
                      end.
Proof.
  intro H. destruct x as [a j| | |]; cbn; try reflexivity.
  - apply signed_inf_pos, H.
  - apply signed_inf_neg, H.
Qed.

Lemma Qle_bool_mul_pos c a b : (0 < c)%Q -> Qle_bool (c * a) (c * b) = Qle_bool a b.
Proof.
  intro H. apply eq_true_iff_eq. rewrite !Qle_bool_iff. split; intro; nra.
Qed.

Lemma Qeq_bool_mul_pos c a b : (0 < c)%Q -> Qeq_bool (c * a) (c * b) = Qeq_bool a b.
Proof.
  intro H. apply eq_true_iff_eq. rewrite !Qeq_bool_iff. split; intro E.
  - apply (Qmult_inj_l a b c); [lra|exact E].
  - rewrite E. reflexivity.
Qed.

Theorem scale_mono_Q (r : Q) (i : bool) (ts : list qx) :
  (0 < r)%Q -> @ScaleMono NumQ (QF r i) ts.
Proof.
  intro Hr.
  assert (Hc : (0 < 4 * r)%Q) by lra.
  assert (E : forall a, @scale NumQ (QF r i) a = qx_mul (QF (4 * r)%Q (true && i)) a) by reflexivity.
  split.
  - intros a _ Oa. rewrite E, (qx_mul_pos _ _ a Hc). destruct a; try reflexivity. exact Oa.
  - intros a b _ _ Oa Ob. rewrite !E, (qx_mul_pos _ _ a Hc), (qx_mul_pos _ _ b Hc).
    destruct a as [a j| | |], b as [b k| | |]; try discriminate Oa; try discriminate Ob;
      try (repeat split; reflexivity).
    change ((Qle_bool (4 * r * a) (4 * r * b) = Qle_bool a b) /\
            (negb (Qle_bool (4 * r * b) (4 * r * a)) = negb (Qle_bool b a)) /\
            (Qeq_bool (4 * r * a) (4 * r * b) = Qeq_bool a b)).
    rewrite !Qle_bool_mul_pos, Qeq_bool_mul_pos by exact Hc. repeat split.
Qed.

(* the command  -I 2 ...  -em 0.5 1 2 3  -es 1 1 0.25  -ej 1 3 2  -em 1.5 2 1 1,  N0 = 100 *)
Definition ex3_N0 : qx := q 100 1 true.
Definition ex3_evs : list (@msev NumQ) :=
  [Evm (q 1 2 false) 1 2 (q 3 1 false); Evs (q 1 1 false) 1 (q 1 4 false);
   Evj (q 1 1 false) 3 2; Evm (q 3 2 false) 2 1 (q 1 1 false)].
Definition ex3_c : @mscmd NumQ := mkCmd 2 true n0 [] ex3_evs.

(* the initial state of from_ms, as build_doc makes it *)
Definition ex3_v0 : qx := QF 0 false.
Definition ex3_demes0 : list (@bdeme NumQ) :=
  map (fun j => mkBD (deme_name (S j)) ninf None None [mkBE n0 ex3_N0 None None]) (seq 0 2).
Definition ex3_s0 : @bstate NumQ :=
  mkB 2 [[[QF 0 false; QF 0 false]; [QF 0 false; QF 0 false]]] [nf0] [] ex3_demes0 [].
Definition ex3_st0 : @mstate NumQ := Eval vm_compute in init_state ex3_c.

(* the hypotheses of init_refine, and its conclusion on these states *)
Example ex3_init_hyps :
  (forall x : @num NumQ, nmul x n1 = x) /\ (1 <= c_npop ex3_c)%nat /\
  (Nat.ltb 1 (c_npop ex3_c) = true -> pdiv (c_irate ex3_c) (nat_num (c_npop ex3_c - 1)) = Ok ex3_v0).
Proof.
  split; [exact mul_one_Q|]. split; [cbn; lia|]. intros _. vm_compute. reflexivity.
Qed.

Theorem ex3_init_refine : MRel ex3_s0 ex3_st0.
Proof.
  destruct ex3_init_hyps as (H1 & H2 & H3).
  exact (init_refine ex3_c ex3_v0 H1 H2 H3 ex3_demes0 []).
Qed.

(* both runs succeed *)
Definition ex3_s : @bstate NumQ :=
  Eval vm_compute in
    match foldM (run_group ex3_N0) (group_by_time ex3_evs) ex3_s0 with Ok s => s | Err _ => ex3_s0 end.
Definition ex3_st : @mstate NumQ :=
  Eval vm_compute in match foldM apply_ev ex3_evs ex3_st0 with Ok s => s | Err _ => ex3_st0 end.

Example ex3_groups :
  map (fun tg => (fst tg, List.length (snd tg))) (group_by_time ex3_evs)
  = [(q 1 2 false, 1%nat); (q 1 1 false, 2%nat); (q 3 2 false, 1%nat)].
Proof. vm_compute. reflexivity. Qed.
(* (plain [reflexivity]: after [vm_compute] the goal carries fully normalised copies of the NumQ
   record in every constructor, which makes the final syntactic check slow) *)
Example ex3_run_groups : foldM (run_group ex3_N0) (group_by_time ex3_evs) ex3_s0 = Ok ex3_s.
Proof. reflexivity. Qed.
Example ex3_apply_evs : foldM apply_ev ex3_evs ex3_st0 = Ok ex3_st.
Proof. reflexivity. Qed.

Lemma ex3_squarema : forall e, In e ex3_evs -> SquareMa e.
Proof. intros e [<-|[<-|[<-|[<-|[]]]]]; exact I. Qed.

(* run_groups_refine: the results are related *)
Theorem ex3_refine : MRel ex3_s ex3_st.
Proof.
  exact (run_groups_refine ex3_N0 ex3_evs ex3_s0 ex3_st0 ex3_s ex3_st
           ex3_squarema ex3_init_refine ex3_run_groups ex3_apply_evs).
Qed.

(* reading the relation: three populations on both sides, population 3 (index 2) emptied on both
   sides, and the entries of the matrix in force *)
Example ex3_refine_n : b_n ex3_s = 3%nat /\ npops ex3_st = 3%nat.
Proof. split; reflexivity. Qed.
Example ex3_refine_joined :
  exists p, nth_error (st_pops ex3_st) 2 = Some p /\ memn 2 (b_joined ex3_s) = negb (alive p) /\
            alive p = false.
Proof.
  eexists. split; [reflexivity|]. split; [|reflexivity].
  apply (mr_joined _ _ ex3_refine). reflexivity.
Qed.
Example ex3_refine_entry_01 : ZEq (bentry ex3_s 0 1) (sentry ex3_st 0 1).
Proof. apply (mr_entries _ _ ex3_refine); cbn; lia. Qed.
Example ex3_refine_entry_10 : ZEq (bentry ex3_s 1 0) (sentry ex3_st 1 0).
Proof. apply (mr_entries _ _ ex3_refine); cbn; lia. Qed.
Example ex3_refine_entry_02 : ZEq (bentry ex3_s 0 2) (sentry ex3_st 0 2).
Proof. apply (mr_entries _ _ ex3_refine); cbn; lia. Qed.
(* the values on both sides: M[1][2] = 3 (-em 0.5 1 2 3), M[2][1] = 1 (-em 1.5 2 1 1); an entry
   involving the emptied population is the int 0 in from_ms and 0.0 in the semantics (the second
   alternative of ZEq) *)
Example ex3_refine_values :
  bentry ex3_s 0 1 = q 3 1 false /\ sentry ex3_st 0 1 = q 3 1 false /\
  bentry ex3_s 1 0 = q 1 1 false /\ sentry ex3_st 1 0 = q 1 1 false /\
  bentry ex3_s 0 2 = n0 /\ sentry ex3_st 0 2 = nf0.
Proof. repeat split. Qed.

(* ---- from_ms_history ---- *)
Example ex3_history_shape :
  b_ends ex3_s = [QF (1200 # 2) false; q 400 1 false; QF (400 # 2) false; nf0] /\
  List.length (b_mms ex3_s) = 4%nat.
Proof. split; reflexivity. Qed.

Lemma ex3_times_ok : forall e, In e ex3_evs -> ok (ev_time e) /\ nle n0 (ev_time e) = true.
Proof. intros e [<-|[<-|[<-|[<-|[]]]]]; split; reflexivity. Qed.

Lemma ex3_time_sorted : TimeSorted ex3_evs.
Proof. cbn. repeat split. Qed.

Lemma ex3_N0_pos : exists r i, ex3_N0 = QF r i /\ (0 < r)%Q.
Proof. eexists. eexists. split; [reflexivity|]. reflexivity. Qed.

Lemma ex3_scale_mono ts : @ScaleMono NumQ ex3_N0 ts.
Proof. apply scale_mono_Q. reflexivity. Qed.

(* the hypotheses of from_ms_history that depend on T, the position i in the history and its
   entry (m, en) *)
Definition ex3_hhyps (T : qx) (st : @mstate NumQ) (i : nat) (m : list (list qx)) (en : qx) : Prop :=
  ok T /\ nle n0 T = true /\ run_upto ex3_evs T ex3_st0 = Ok st /\
  nth_error (combine (b_mms ex3_s) (b_ends ex3_s)) i = Some (m, en) /\
  nle en (scale ex3_N0 T) = true /\ nlt (scale ex3_N0 T) (hstart (b_ends ex3_s) i) = true.

Ltac ex3_hhyps_tac := unfold ex3_hhyps; repeat (apply conj); reflexivity.

Lemma ex3_history T st i m en :
  ex3_hhyps T st i m en ->
  forall a b, (a < npops st)%nat -> (b < npops st)%nat -> a <> b ->
    ZEq (nth b (nth a m []) n0) (sentry st a b).
Proof.
  intros (H1 & H2 & H3 & H4 & H5 & H6).
  exact (from_ms_history ex3_N0 ex3_evs ex3_s0 ex3_st0 ex3_s T st i m en
           ex3_squarema ex3_times_ok ex3_time_sorted H1 H2 (ex3_scale_mono _)
           ex3_init_refine eq_refl eq_refl ex3_run_groups H3 H4 H5 H6).
Qed.

(* T = 5/4 (scaled: 500, in [400, 600), position 1 of the history): three populations, the
   third emptied; M[1][2] = 3 in force, M[2][1] not yet *)
Definition ex3_hT1 : qx := q 5 4 false.
Definition ex3_hst1 : @mstate NumQ :=
  Eval vm_compute in match run_upto ex3_evs ex3_hT1 ex3_st0 with Ok s => s | Err _ => ex3_st0 end.
Definition ex3_hm1 : list (list qx) := Eval vm_compute in nth 1 (b_mms ex3_s) [].
Example ex3_hhyps_1 : ex3_hhyps ex3_hT1 ex3_hst1 1 ex3_hm1 (q 400 1 false).
Proof. ex3_hhyps_tac. Qed.
Example ex3_history_1 :
  npops ex3_hst1 = 3%nat /\
  ZEq (nth 1 (nth 0 ex3_hm1 []) n0) (sentry ex3_hst1 0 1) /\
  ZEq (nth 0 (nth 1 ex3_hm1 []) n0) (sentry ex3_hst1 1 0) /\
  ZEq (nth 2 (nth 0 ex3_hm1 []) n0) (sentry ex3_hst1 0 2).
Proof.
  split; [reflexivity|].
  repeat split; apply (ex3_history _ _ _ _ _ ex3_hhyps_1); cbn; lia.
Qed.
Example ex3_history_1_values :
  nth 1 (nth 0 ex3_hm1 []) n0 = q 3 1 false /\ sentry ex3_hst1 0 1 = q 3 1 false /\
  nth 0 (nth 1 ex3_hm1 []) n0 = nf0 /\ sentry ex3_hst1 1 0 = nf0 /\
  nth 2 (nth 0 ex3_hm1 []) n0 = n0 /\ sentry ex3_hst1 0 2 = nf0.
Proof. repeat split. Qed.

(* T = 2 (scaled: 800, in [600, inf), position 0, the head of the history): both -em in force *)
Definition ex3_hT0 : qx := q 2 1 false.
Definition ex3_hst0 : @mstate NumQ :=
  Eval vm_compute in match run_upto ex3_evs ex3_hT0 ex3_st0 with Ok s => s | Err _ => ex3_st0 end.
Definition ex3_hm0 : list (list qx) := Eval vm_compute in nth 0 (b_mms ex3_s) [].
Example ex3_hhyps_0 : ex3_hhyps ex3_hT0 ex3_hst0 0 ex3_hm0 (QF (1200 # 2) false).
Proof. ex3_hhyps_tac. Qed.
Example ex3_history_0 :
  ZEq (nth 1 (nth 0 ex3_hm0 []) n0) (sentry ex3_hst0 0 1) /\
  ZEq (nth 0 (nth 1 ex3_hm0 []) n0) (sentry ex3_hst0 1 0).
Proof. split; apply (ex3_history _ _ _ _ _ ex3_hhyps_0); cbn; lia. Qed.
Example ex3_history_0_values :
  nth 1 (nth 0 ex3_hm0 []) n0 = q 3 1 false /\ sentry ex3_hst0 0 1 = q 3 1 false /\
  nth 0 (nth 1 ex3_hm0 []) n0 = q 1 1 false /\ sentry ex3_hst0 1 0 = q 1 1 false.
Proof. repeat split. Qed.

(* T = 3/4 (scaled: 300, in [200, 400), position 2): only the two initial populations exist in
   the semantics (the matrix of the history has meanwhile been zero-extended to 3x3) *)
Definition ex3_hT2 : qx := q 3 4 false.
Definition ex3_hst2 : @mstate NumQ :=
  Eval vm_compute in match run_upto ex3_evs ex3_hT2 ex3_st0 with Ok s => s | Err _ => ex3_st0 end.
Definition ex3_hm2 : list (list qx) := Eval vm_compute in nth 2 (b_mms ex3_s) [].
Example ex3_hhyps_2 : ex3_hhyps ex3_hT2 ex3_hst2 2 ex3_hm2 (QF (400 # 2) false).
Proof. ex3_hhyps_tac. Qed.
Example ex3_history_2 :
  npops ex3_hst2 = 2%nat /\ List.length ex3_hm2 = 3%nat /\
  ZEq (nth 1 (nth 0 ex3_hm2 []) n0) (sentry ex3_hst2 0 1) /\
  ZEq (nth 0 (nth 1 ex3_hm2 []) n0) (sentry ex3_hst2 1 0).
Proof.
  split; [reflexivity|]. split; [reflexivity|].
  split; apply (ex3_history _ _ _ _ _ ex3_hhyps_2); cbn; lia.
Qed.

(* T = 1/4 (scaled: 100, in [0, 200), the last position): nothing in force yet *)
Definition ex3_hT3 : qx := q 1 4 false.
Definition ex3_hst3 : @mstate NumQ :=
  Eval vm_compute in match run_upto ex3_evs ex3_hT3 ex3_st0 with Ok s => s | Err _ => ex3_st0 end.
Definition ex3_hm3 : list (list qx) := Eval vm_compute in nth 3 (b_mms ex3_s) [].
Example ex3_hhyps_3 : ex3_hhyps ex3_hT3 ex3_hst3 3 ex3_hm3 nf0.
Proof. ex3_hhyps_tac. Qed.
Example ex3_history_3 : ZEq (nth 1 (nth 0 ex3_hm3 []) n0) (sentry ex3_hst3 0 1).
Proof. apply (ex3_history _ _ _ _ _ ex3_hhyps_3); cbn; lia. Qed.
Example ex3_history_3_values : nth 1 (nth 0 ex3_hm3 []) n0 = nf0 /\ sentry ex3_hst3 0 1 = nf0.
Proof. split; reflexivity. Qed.

(* from_ms_history_ends on the same run *)
Example ex3_history_ends :
  List.length (b_mms ex3_s) = List.length (b_ends ex3_s) /\
  (forall k x y, nth_error (b_ends ex3_s) k = Some x -> nth_error (b_ends ex3_s) (S k) = Some y -> nlt y x = true) /\
  last (b_ends ex3_s) n0 = nf0.
Proof.
  exact (from_ms_history_ends ex3_N0 ex3_evs ex3_s0 ex3_s ex3_times_ok ex3_time_sorted
           (ex3_scale_mono _) eq_refl eq_refl ex3_run_groups).
Qed.

Print Assumptions divok_Q.
Print Assumptions ingen_valid_Q.
Print Assumptions ex3_gg_valid.
Print Assumptions ex3_chain_correct.
Print Assumptions ex3_ancestry_events_chain.
Print Assumptions ex3_split_chain_moves.
Print Assumptions ex3_size_linear_exact.
Print Assumptions ex3_size_between.
Print Assumptions ex3_steps_fromdict.
Print Assumptions ex3_sound_T15_ab.
Print Assumptions ex3_sound_T15_ac.
Print Assumptions mul_one_Q.
Print Assumptions scale_mono_Q.
Print Assumptions ex3_init_refine.
Print Assumptions ex3_refine.
Print Assumptions ex3_history_1.
Print Assumptions ex3_history_ends.
