(* C08 — the interpreter inside demes.from_ms (Model/FromMs.v: step / run_group over the
   same-time groups) REFINES the ms semantics of Spec/MsSem.v (apply_ev) as far as the
   population count, the set of populations emptied by -ej, and the migration matrix in force
   are concerned: after the same events, the matrix from_ms holds at the head of its history is,
   entry by entry, what the ms semantics holds (entries involving an emptied population read
   as zero on both sides).  Grouping by equal times, the copies of the matrix pushed when time
   advances, and the bookkeeping of lineage movements do not disturb this. *)
From Coq Require Import Bool List String QArith Lqa Lia Arith.
From Demes Require Import Base.Num Base.Py Model.MDM Model.MsOpt Model.FromMs Spec.MsSem.
From Demes Require Import Proofs.ResolveInv Proofs.MsProofs.
Import ListNotations.
Local Open Scope string_scope.
Local Open Scope list_scope.

(* ---------- list facts about mapi / upd / nth ---------- *)
Section ListFacts.
  Local Open Scope nat_scope.
  Context {A B : Type}.

  Lemma mapi_length (f : nat -> A -> B) l : forall k, List.length (mapi k f l) = List.length l.
  Proof. induction l as [|x l IH]; intro k; cbn; [reflexivity|]. now rewrite IH. Qed.

  Lemma nth_mapi (f : nat -> A -> B) l : forall k i d d',
    i < List.length l -> nth i (mapi k f l) d = f (k + i) (nth i l d').
  Proof.
    induction l as [|x l IH]; intros k i d d' Hi; cbn in Hi; [lia|].
    destruct i as [|i]; cbn.
    - now rewrite Nat.add_0_r.
    - rewrite (IH (S k) i d d') by lia. f_equal. lia.
  Qed.

  Lemma nth_map' (f : A -> B) l : forall i d d',
    i < List.length l -> nth i (map f l) d = f (nth i l d').
  Proof.
    induction l as [|x l IH]; intros i d d' Hi; cbn in Hi; [lia|].
    destruct i as [|i]; cbn; [reflexivity|]. apply IH. lia.
  Qed.

  Lemma upd_length (f : A -> A) l : forall i, List.length (upd i f l) = List.length l.
  Proof.
    induction l as [|x l IH]; intro i; destruct i; cbn; try reflexivity. now rewrite IH.
  Qed.

  Lemma nth_upd (f : A -> A) l : forall i k d,
    k < List.length l -> nth k (upd i f l) d = if Nat.eqb k i then f (nth k l d) else nth k l d.
  Proof.
    induction l as [|x l IH]; intros i k d Hk; cbn in Hk; [lia|].
    destruct i as [|i], k as [|k]; cbn; try reflexivity.
    apply IH. lia.
  Qed.

  Lemma nth_error_upd (f : A -> A) l : forall i k,
    nth_error (upd i f l) k = if Nat.eqb k i then option_map f (nth_error l k) else nth_error l k.
  Proof.
    induction l as [|x l IH]; intros i k.
    - destruct i, k; cbn; try reflexivity. now destruct (Nat.eqb k i).
    - destruct i as [|i], k as [|k]; cbn; try reflexivity. apply IH.
  Qed.
End ListFacts.

Lemma foldM_app {A S} (f : S -> A -> res S) l1 : forall l2 s,
  foldM f (l1 ++ l2) s = (s' <- foldM f l1 s ;; foldM f l2 s').
Proof.
  induction l1 as [|a l1 IH]; intros l2 s; cbn; [reflexivity|].
  destruct (f s a) as [s1|e]; cbn; [apply IH|reflexivity].
Qed.

Ltac b2p := repeat match goal with
  | H : _ || _ = false |- _ => apply orb_false_iff in H; destruct H
  | H : negb _ = false |- _ => apply negb_false_iff in H
  | H : negb _ = true |- _ => apply negb_true_iff in H
  | H : _ && _ = true |- _ => apply andb_true_iff in H; destruct H
  | H : Nat.leb _ _ = true |- _ => apply Nat.leb_le in H
  | H : Nat.ltb _ _ = false |- _ => apply Nat.ltb_ge in H
  | H : Nat.ltb _ _ = true |- _ => apply Nat.ltb_lt in H
  | H : Nat.eqb _ _ = false |- _ => apply Nat.eqb_neq in H
  | H : Nat.eqb _ _ = true |- _ => apply Nat.eqb_eq in H
  end.

Section FromMsRefine.
  Context {N : NumOps} {L : NumLaws N}.
  Local Open Scope nat_scope.

  (* the two spellings of zero the two sides use (int 0 in from_ms, 0.0 in the semantics) *)
  Definition IsZ (x : num) : Prop := x = n0 \/ x = nf0.
  Definition ZEq (x y : num) : Prop := x = y \/ (IsZ x /\ IsZ y).

  Definition cur_matrix (s : bstate) : list (list num) := match b_mms s with m :: _ => m | [] => [] end.
  Definition bentry (s : bstate) (i j : nat) : num := nth j (nth i (cur_matrix s) []) n0.
  Definition sentry (st : mstate) (i j : nat) : num := nth j (nth i (norm_mig st) []) nf0.
  Definition square (n : nat) (m : list (list num)) : Prop :=
    List.length m = n /\ Forall (fun r => List.length r = n) m.

  (* REPAIRED (one field added: mr_jrange).  As originally written,
       Record MRel (s : bstate) (st : mstate) : Prop := {
         mr_n : b_n s = npops st;
         mr_bshape : Forall (square (b_n s)) (b_mms s) /\ b_mms s <> [];
         mr_sshape : square (npops st) (st_mig st);
         mr_joined : forall i p, nth_error (st_pops st) i = Some p -> memn i (b_joined s) = negb (alive p);
         mr_entries : forall i j, (i < b_n s)%nat -> (j < b_n s)%nat -> i <> j -> ZEq (bentry s i j) (sentry st i j) }.
     step_refine is FALSE for -es: the original relation says nothing about members of b_joined
     that are not (yet) population indices.  Counter-example: s related to st with b_joined s = [b_n s];
     Evs t 1 p is accepted on both sides, the new population (index b_n s) is alive in the semantics,
     but memn (b_n s) (b_joined s') = true, so mr_joined fails for s'.  from_ms only ever puts pid
     results (< b_n) into b_joined, so the extra field holds in every reachable state: it holds
     initially (init_refine) and is preserved (step_refine, run_groups_refine prove it as part of MRel). *)
  Record MRel (s : bstate) (st : mstate) : Prop := {
    mr_n : b_n s = npops st;
    mr_bshape : Forall (square (b_n s)) (b_mms s) /\ b_mms s <> [];
    mr_sshape : square (npops st) (st_mig st);
    mr_joined : forall i p, nth_error (st_pops st) i = Some p -> memn i (b_joined s) = negb (alive p);
    mr_jrange : forall i, memn i (b_joined s) = true -> (i < b_n s)%nat;
    mr_entries : forall i j, (i < b_n s)%nat -> (j < b_n s)%nat -> i <> j -> ZEq (bentry s i j) (sentry st i j) }.

  (* -ma / -ema matrices come from the command-line parser as np rows of np numbers *)
  Definition SquareMa (e : msev) : Prop :=
    match e with Evma _ _ m _ => exists k, square k m | _ => True end.

  (* ---------- working form of the relation ---------- *)
  Definition ent (d : num) (m : list (list num)) (i j : nat) : num := nth j (nth i m []) d.
  Definition alive_at (pops : list mpop) (i : nat) : bool :=
    match nth_error pops i with Some p => alive p | None => false end.
  Definition BShape (s : bstate) : Prop := Forall (square (b_n s)) (b_mms s) /\ b_mms s <> [].

  Lemma ZEq_0f : ZEq n0 nf0. Proof. right. split; [now left|now right]. Qed.

  Lemma square_row n m i : square n m -> i < n -> List.length (nth i m []) = n.
  Proof.
    intros [Hl Hr] Hi. rewrite Forall_forall in Hr. apply Hr. apply nth_In. lia.
  Qed.

  Lemma ent_indep d d' n m i j : square n m -> i < n -> j < n -> ent d m i j = ent d' m i j.
  Proof.
    intros Hs Hi Hj. unfold ent. apply nth_indep. rewrite (square_row n m i); auto.
  Qed.

  Lemma sentry_eq st i j :
    i < List.length (st_mig st) -> j < List.length (nth i (st_mig st) []) -> i <> j ->
    sentry st i j = if alive_at (st_pops st) i && alive_at (st_pops st) j
                    then ent nf0 (st_mig st) i j else nf0.
  Proof.
    intros Hi Hj Hne. unfold sentry, norm_mig.
    rewrite (nth_mapi _ _ 0 i [] []) by exact Hi.
    rewrite (nth_mapi _ _ 0 j nf0 nf0) by exact Hj.
    cbn. apply Nat.eqb_neq in Hne. rewrite Hne. unfold alive_at, ent.
    destruct (nth_error (st_pops st) i) as [pi|]; [|reflexivity].
    destruct (nth_error (st_pops st) j) as [pj|]; [reflexivity|].
    now destruct (alive pi).
  Qed.

  Record MRel2 (s : bstate) (st : mstate) : Prop := {
    m2_n : b_n s = npops st;
    m2_bshape : BShape s;
    m2_sshape : square (npops st) (st_mig st);
    m2_joined : forall i, i < b_n s -> memn i (b_joined s) = negb (alive_at (st_pops st) i);
    m2_jrange : forall i, memn i (b_joined s) = true -> i < b_n s;
    m2_entries : forall i j, i < b_n s -> j < b_n s -> i <> j ->
      ZEq (ent n0 (cur_matrix s) i j)
          (if alive_at (st_pops st) i && alive_at (st_pops st) j then ent nf0 (st_mig st) i j else nf0) }.

  Lemma MRel_iff s st : MRel s st <-> MRel2 s st.
  Proof.
    split; intros [Hn Hb Hs Hj Hr He]; constructor; auto.
    - intros i Hi. unfold alive_at.
      destruct (nth_error (st_pops st) i) as [p|] eqn:E; [now apply Hj|].
      apply nth_error_None in E. unfold npops in Hn. lia.
    - intros i j Hi Hj' Hne. specialize (He i j Hi Hj' Hne).
      rewrite sentry_eq in He; auto.
      + destruct Hs as [Hl _]. lia.
      + rewrite (square_row (npops st)); auto; lia.
    - intros i p E. assert (i < b_n s) as Hi.
      { rewrite Hn. unfold npops. apply nth_error_Some. congruence. }
      rewrite Hj by exact Hi. unfold alive_at. now rewrite E.
    - intros i j Hi Hj' Hne. unfold bentry. rewrite sentry_eq; auto.
      + now apply He.
      + destruct Hs as [Hl _]. lia.
      + rewrite (square_row (npops st)); auto; lia.
  Qed.

  (* ---------- frame lemmas ---------- *)
  Lemma MRel_frame s s' st :
    b_n s' = b_n s -> b_mms s' = b_mms s -> b_joined s' = b_joined s -> MRel s st -> MRel s' st.
  Proof.
    intros En Em Ej [Hn Hb Hs Hj Hr He].
    constructor; unfold bentry, cur_matrix in *; rewrite ?En, ?Em, ?Ej; auto.
  Qed.

  Lemma finish_group_frame time gs : forall s s',
    finish_group time s gs = Ok s' ->
    b_n s' = b_n s /\ b_mms s' = b_mms s /\ b_joined s' = b_joined s.
  Proof.
    intros s s' H. unfold finish_group in H.
    refine (foldM_inv _ (fun x => b_n x = b_n s /\ b_mms x = b_mms s /\ b_joined x = b_joined s)
              _ _ _ _ _ H); [|auto].
    clear. intros x [[j k] p] x' Hx Hf.
    destruct (filter _ _); [injection Hf as <-; exact Hx|].
    destruct (neqb _ n0 && memn _ _).
    - mbind Hf ds Hds. injection Hf as <-. exact Hx.
    - injection Hf as <-. exact Hx.
  Qed.

  Lemma matrix_at_props s time :
    BShape s ->
    b_n (matrix_at s time) = b_n s /\ b_joined (matrix_at s time) = b_joined s /\
    BShape (matrix_at s time) /\ cur_matrix (matrix_at s time) = cur_matrix s.
  Proof.
    intros [Hf Hne]. unfold matrix_at, BShape, cur_matrix.
    destruct (b_mms s) as [|m rest] eqn:Em; [congruence|].
    destruct (b_ends s) as [|e ends]; [rewrite Em; repeat split; auto|].
    destruct (ngt time e); cbn; [|rewrite Em; repeat split; auto].
    repeat split; auto; [|discriminate].
    inversion Hf; subst. constructor; auto.
  Qed.

  Lemma edit_matrix_props f s :
    BShape s -> (forall m, square (b_n s) m -> square (b_n s) (f m)) ->
    b_n (edit_matrix f s) = b_n s /\ b_joined (edit_matrix f s) = b_joined s /\
    BShape (edit_matrix f s) /\ cur_matrix (edit_matrix f s) = f (cur_matrix s).
  Proof.
    intros [Hf Hne] Hsq. unfold edit_matrix, BShape, cur_matrix.
    destruct (b_mms s) as [|m rest] eqn:Em; [congruence|]. cbn.
    repeat split; auto; [|discriminate].
    inversion Hf; subst. constructor; auto.
  Qed.

  Lemma edit_at_props f s time :
    BShape s -> (forall m, square (b_n s) m -> square (b_n s) (f m)) ->
    let s' := edit_matrix f (matrix_at s time) in
    b_n s' = b_n s /\ b_joined s' = b_joined s /\ BShape s' /\ cur_matrix s' = f (cur_matrix s).
  Proof.
    intros Hb Hsq. destruct (matrix_at_props s time Hb) as (En & Ej & Hb1 & Ec).
    destruct (edit_matrix_props f (matrix_at s time) Hb1) as (En2 & Ej2 & Hb2 & Ec2).
    { rewrite En. exact Hsq. }
    cbv zeta. rewrite En2, Ej2, Ec2, En, Ej, Ec.
    split; [reflexivity|split; [reflexivity|split; [exact Hb2|reflexivity]]].
  Qed.

  Lemma pid_inv s i p : pid s i = Ok p ->
    p = i - 1 /\ 1 <= i /\ i <= b_n s /\ memn p (b_joined s) = false.
  Proof.
    unfold pid. intro H. mraise H H1. mraise H H2. injection H as <-. b2p. auto.
  Qed.

  Lemma pdiv_inv a b v : pdiv a b = Ok v -> v = ndiv a b.
  Proof. unfold pdiv. destruct (neqb b n0); [discriminate|]. congruence. Qed.

  (* ---------- alive_at under the population updates ---------- *)
  Lemma alive_at_upd f pops i k :
    (forall p, alive (f p) = alive p) -> alive_at (upd i f pops) k = alive_at pops k.
  Proof.
    intro Hf. unfold alive_at. rewrite nth_error_upd.
    destruct (Nat.eqb k i); [|reflexivity].
    destruct (nth_error pops k); cbn; auto.
  Qed.

  Lemma alive_at_map f pops k :
    (forall p, alive (f p) = alive p) -> alive_at (map f pops) k = alive_at pops k.
  Proof.
    intro Hf. unfold alive_at. rewrite nth_error_map.
    destruct (nth_error pops k); cbn; auto.
  Qed.

  Lemma MRel2_pops s st ds pops' :
    MRel2 s st -> List.length pops' = List.length (st_pops st) ->
    (forall i, alive_at pops' i = alive_at (st_pops st) i) ->
    MRel2 (with_demes s ds) (mkSt pops' (st_mig st)).
  Proof.
    intros [Hn Hb Hs Hj Hr He] Hl Ha.
    constructor; unfold npops, BShape, cur_matrix in *; cbn; rewrite ?Hl; auto.
    - intros i Hi. rewrite Ha. exact (Hj i Hi).
    - intros i j Hi Hj' Hne. rewrite !Ha. exact (He i j Hi Hj' Hne).
  Qed.

  (* ---------- squares ---------- *)
  Lemma square_mapi2 n (F : nat -> list num -> list num) m :
    (forall i row, List.length (F i row) = List.length row) ->
    square n m -> square n (mapi 0 F m).
  Proof.
    intros HF [Hl Hr]. split; [now rewrite mapi_length|].
    clear Hl. generalize 0. induction Hr as [|r m Hr0 _ IH]; intro k; cbn; constructor; auto.
    now rewrite HF.
  Qed.

  Lemma square_upd n (F : list num -> list num) i m :
    (forall row, List.length (F row) = List.length row) ->
    square n m -> square n (upd i F m).
  Proof.
    intros HF [Hl Hr]. split; [now rewrite upd_length|].
    clear Hl. revert i. induction Hr as [|r m Hr0 Hr1 IH]; intro i; destruct i; cbn; constructor; auto.
    now rewrite HF.
  Qed.

  Lemma ent_mapi d (F : nat -> list num -> list num) m i j :
    i < List.length m -> ent d (mapi 0 F m) i j = nth j (F i (nth i m [])) d.
  Proof. intro Hi. unfold ent. now rewrite (nth_mapi _ _ 0 i [] []) by exact Hi. Qed.

  Lemma cur_square s : BShape s -> square (b_n s) (cur_matrix s).
  Proof.
    intros [Hf Hne]. unfold cur_matrix. destruct (b_mms s); [congruence|]. now inversion Hf.
  Qed.

  Lemma square_mapi_gen {A} n (F : nat -> A -> list num) (l : list A) :
    List.length l = n -> (forall i x, In x l -> List.length (F i x) = n) -> forall k, square n (mapi k F l).
  Proof.
    intros Hl HF k. split; [now rewrite mapi_length|].
    clear Hl. revert k. induction l as [|x l IH]; intro k; cbn; constructor.
    - apply HF. now left.
    - apply IH. intros i y Hy. apply HF. now right.
  Qed.

  Lemma nth_repeat' {A} (z d : A) k j : j < k -> nth j (repeat z k) d = z.
  Proof. revert j. induction k as [|k IH]; intros j Hj; [lia|]. destruct j; cbn; auto. apply IH. lia. Qed.

  Lemma alive_at_repeat p n i : i < n -> alive_at (repeat p n) i = alive p.
  Proof.
    intro Hi. unfold alive_at.
    assert (nth_error (repeat p n) i = Some p) as ->; [|reflexivity].
    revert i Hi. induction n as [|n IH]; intros i Hi; [lia|]. destruct i; cbn; auto. apply IH. lia.
  Qed.

  (* the initial states are related (n populations, island-model rate r of -I) *)
  Theorem init_refine (c : mscmd) (v : num) :
    (forall x : num, nmul x n1 = x) ->
    (1 <= c_npop c)%nat ->
    (Nat.ltb 1 (c_npop c) = true -> pdiv (c_irate c) (nat_num (c_npop c - 1)) = Ok v) ->
    let n := c_npop c in
    let m0 := if Nat.ltb 1 n
              then mapi 0 (fun k (_ : unit) => mapi 0 (fun j (_ : unit) =>
                      nmul v (if Nat.eqb j k then n0 else n1)) (repeat tt n)) (repeat tt n)
              else [[nf0]] in
    forall demes0 pulses0, MRel (mkB n [m0] [nf0] [] demes0 pulses0) (init_state c).
  Proof.
    intros Hmul Hn Hv n m0 demes0 pulses0. apply MRel_iff.
    assert (square n m0) as Hsq0.
    { subst m0. destruct (Nat.ltb_spec 1 n) as [H1|H1].
      - apply square_mapi_gen; [apply repeat_length|].
        intros i x _. rewrite mapi_length. apply repeat_length.
      - assert (n = 1) as -> by (subst n; lia). split; [reflexivity|]. constructor; auto. }
    assert (npops (init_state c) = n) as Hnp.
    { unfold npops, init_state. cbn. apply repeat_length. }
    assert (square n (st_mig (init_state c))) as Hsq1.
    { unfold init_state. cbn [st_mig]. apply square_mapi_gen; [apply repeat_length|].
      intros i x Hx. apply repeat_spec in Hx. subst x. rewrite mapi_length. apply repeat_length. }
    constructor; unfold BShape; cbn [b_n b_mms b_joined]; rewrite ?Hnp; auto.
    - split; [|discriminate]. constructor; auto.
    - intros i Hi. unfold init_state. cbn [st_pops]. now rewrite alive_at_repeat.
    - discriminate.
    - intros i j Hi Hj Hne. unfold cur_matrix. cbn [b_mms].
      unfold init_state at 1 2. cbn [st_pops]. rewrite !alive_at_repeat by assumption. cbn [alive mp_joined andb].
      assert (1 < n) as H1 by lia.
      assert (Nat.ltb 1 n = true) as E1 by now apply Nat.ltb_lt.
      specialize (Hv E1). apply pdiv_inv in Hv.
      subst m0. rewrite E1. unfold init_state. cbn [st_mig]. fold n.
      assert (Nat.leb 2 n = true) as -> by now apply Nat.leb_le.
      unfold ent.
      rewrite (nth_mapi _ _ 0 i [] tt) by now rewrite repeat_length.
      rewrite (nth_mapi _ _ 0 j n0 tt) by now rewrite repeat_length.
      rewrite (nth_mapi _ _ 0 i [] []) by now rewrite repeat_length.
      rewrite nth_repeat' by assumption.
      rewrite (nth_mapi _ _ 0 j nf0 tt) by now rewrite repeat_length.
      cbn [Nat.add].
      assert (Nat.eqb j i = false) as -> by (apply Nat.eqb_neq; lia).
      assert (Nat.eqb i j = false) as -> by (apply Nat.eqb_neq; lia).
      rewrite Hmul. left. exact Hv.
  Qed.

  (* ---------- one event, case by case ---------- *)
  Lemma alive_regrow t a p : alive (if alive p then regrow t a p else p) = alive p.
  Proof. destruct (alive p) eqn:E; exact E. Qed.
  Lemma alive_resize t x k p : alive (if alive p then resize t x k p else p) = alive p.
  Proof. destruct (alive p) eqn:E; exact E. Qed.

  Lemma joined_alive s st i : MRel2 s st -> i < b_n s ->
    memn i (b_joined s) = false -> alive_at (st_pops st) i = true.
  Proof.
    intros HR Hi Hm. rewrite (m2_joined _ _ HR i Hi) in Hm. now destruct (alive_at (st_pops st) i).
  Qed.

  Lemma any_true joined n i j :
    i < n -> j < n -> i <> j -> memn i joined = false -> memn j joined = false ->
    existsb (fun j => negb (memn j joined) &&
                      existsb (fun k => negb (Nat.eqb j k) && negb (memn k joined)) (seq 0 n)) (seq 0 n) = true.
  Proof.
    intros Hi Hj Hne Mi Mj. apply existsb_exists. exists i. split; [apply in_seq; lia|].
    rewrite Mi. cbn [negb andb]. apply existsb_exists. exists j. split; [apply in_seq; lia|].
    rewrite Mj. apply Nat.eqb_neq in Hne. now rewrite Hne.
  Qed.

  Lemma ent_upd2 d n m i j f a b : square n m -> a < n -> b < n ->
    ent d (upd i (upd j f) m) a b = if Nat.eqb a i && Nat.eqb b j then f (ent d m a b) else ent d m a b.
  Proof.
    intros Hs Ha Hb. unfold ent. destruct Hs as [Hl Hr].
    rewrite nth_upd by lia. destruct (Nat.eqb a i); [|reflexivity].
    rewrite nth_upd; [reflexivity|]. rewrite (square_row n m a); auto. now split.
  Qed.

  Lemma step_EvM N0 time s gs t x s' gs' st st' :
    MRel2 s st -> step N0 time (s, gs) (EvM t x) = Ok (s', gs') -> apply_ev st (EvM t x) = Ok st' ->
    MRel2 s' st'.
  Proof.
    intros HR Hs Ha. unfold step in Hs. unfold apply_ev in Ha.
    mbind Hs v Hv. injection Hs as <- <-. injection Ha as <-.
    pose proof HR as [Hn Hb Hss Hj Hr He].
    pose proof (cur_square s Hb) as Hc.
    match goal with |- MRel2 (edit_matrix ?F _) _ =>
      destruct (edit_at_props F s time Hb) as (En & Ej & Hb' & Ec) end.
    { intros m Hm. apply square_mapi2; [|exact Hm].
      intros i row. destruct (memn i (b_joined s)); [reflexivity|apply mapi_length]. }
    constructor; unfold npops in *; cbn [st_pops st_mig]; rewrite ?En, ?Ej, ?Ec; auto.
    - apply square_mapi2; [|exact Hss]. intros i row. apply mapi_length.
    - intros i j Hi Hj' Hne.
      rewrite ent_mapi by (destruct Hc; lia).
      pose proof (Hj i Hi) as Mi. pose proof (Hj j Hj') as Mj. specialize (He i j Hi Hj' Hne).
      assert (List.length (nth i (cur_matrix s) []) = b_n s) as Lr by (apply square_row; auto).
      assert (List.length (nth i (st_mig st) []) = b_n s) as Lr'.
      { rewrite Hn. apply square_row; auto. lia. }
      destruct (alive_at (st_pops st) i) eqn:Ai; cbn [negb] in Mi; rewrite Mi.
      + rewrite (nth_mapi _ _ 0 j n0 n0) by lia. cbn [Nat.add].
        destruct (alive_at (st_pops st) j) eqn:Aj; cbn [negb andb] in *; rewrite Mj.
        * apply Nat.eqb_neq in Hne. rewrite Hne. cbn [negb andb].
          rewrite ent_mapi by (destruct Hss; lia).
          rewrite (nth_mapi _ _ 0 j nf0 nf0) by lia. cbn [Nat.add]. rewrite Hne.
          rewrite (any_true (b_joined s) (b_n s) i j) in Hv; auto; [|now apply Nat.eqb_neq].
          apply pdiv_inv in Hv. rewrite Hv, Hn. now left.
        * rewrite andb_false_r. exact He.
      + cbn [andb] in *. exact He.
  Qed.

  Lemma step_Evm N0 time s gs t i j x s' gs' st st' :
    MRel2 s st -> step N0 time (s, gs) (Evm t i j x) = Ok (s', gs') ->
    apply_ev st (Evm t i j x) = Ok st' -> MRel2 s' st'.
  Proof.
    intros HR Hs Ha. unfold step in Hs. unfold apply_ev in Ha.
    mbind Hs pi Hpi. mbind Hs pj Hpj. mraise Hs Hij. injection Hs as <- <-.
    mraise Ha Hc. injection Ha as <-.
    apply pid_inv in Hpi. destruct Hpi as (-> & Hi1 & Hi2 & Mi).
    apply pid_inv in Hpj. destruct Hpj as (-> & Hj1 & Hj2 & Mj).
    pose proof HR as [Hn Hb Hss Hj Hr He].
    pose proof (cur_square s Hb) as Hcs.
    match goal with |- MRel2 (edit_matrix ?F _) _ =>
      destruct (edit_at_props F s time Hb) as (En & Ej & Hb' & Ec) end.
    { intros m Hm. apply square_upd; [|exact Hm]. intro row. apply upd_length. }
    constructor; unfold npops in *; cbn [st_pops st_mig]; rewrite ?En, ?Ej, ?Ec; auto.
    - apply square_upd; [|exact Hss]. intro row. apply upd_length.
    - intros a b Ha Hb0 Hne.
      rewrite (ent_upd2 n0 (b_n s)) by auto.
      rewrite (ent_upd2 nf0 (b_n s)) by (rewrite ?Hn; auto; lia).
      destruct (Nat.eqb a (i - 1) && Nat.eqb b (j - 1)) eqn:E; [|now apply He].
      b2p. subst a b.
      rewrite (joined_alive s st (i - 1) HR) by (auto; lia).
      rewrite (joined_alive s st (j - 1) HR) by (auto; lia). now left.
  Qed.

  Lemma concat_length_sq k (m : list (list num)) :
    Forall (fun r => List.length r = k) m -> List.length (List.concat m) = List.length m * k.
  Proof.
    induction 1 as [|r m Hr _ IH]; cbn; [reflexivity|]. rewrite app_length, IH, Hr. reflexivity.
  Qed.

  Lemma step_Evma N0 time s gs t np m ini s' gs' st st' :
    SquareMa (Evma t np m ini) ->
    MRel2 s st -> step N0 time (s, gs) (Evma t np m ini) = Ok (s', gs') ->
    apply_ev st (Evma t np m ini) = Ok st' -> MRel2 s' st'.
  Proof.
    intros [k Hk] HR Hs Ha. unfold step in Hs. unfold apply_ev in Ha.
    mraise Hs H1. mraise Hs H2. injection Hs as <- <-.
    mraise Ha H3. injection Ha as <-.
    pose proof HR as [Hn Hb Hss Hj Hr He].
    b2p. subst np. rewrite H1 in H2. clear H1.
    assert (k = b_n s) as ->.
    { destruct Hk as [Hl Hf]. rewrite (concat_length_sq k) in H2 by exact Hf. rewrite Hl in H2. nia. }
    pose proof (cur_square s Hb) as Hcs.
    match goal with |- MRel2 (edit_matrix ?F _) _ =>
      destruct (edit_at_props F s time Hb) as (En & Ej & Hb' & Ec) end.
    { intros _ _. apply square_mapi2; [|exact Hk]. intros i row. apply mapi_length. }
    constructor; unfold npops in *; cbn [st_pops st_mig]; rewrite ?En, ?Ej, ?Ec; auto.
    - apply square_mapi2; [|exact Hss]. intros i row. apply mapi_length.
    - intros a b Ha Hb0 Hne.
      pose proof (Hj a Ha) as Ma. pose proof (Hj b Hb0) as Mb. specialize (He a b Ha Hb0 Hne).
      rewrite ent_mapi by (destruct Hk; lia).
      rewrite (nth_mapi _ _ 0 b n0 n0) by (rewrite (square_row (b_n s)); auto).
      rewrite ent_mapi by (destruct Hss; lia).
      rewrite (nth_mapi _ _ 0 b nf0 nf0) by (rewrite (square_row (b_n s)); rewrite ?Hn; auto; lia).
      cbn [Nat.add]. apply Nat.eqb_neq in Hne. rewrite Hne, Ma, Mb.
      destruct (alive_at (st_pops st) a), (alive_at (st_pops st) b); cbn [negb andb orb];
        try apply ZEq_0f.
      left. apply (ent_indep n0 nf0 (b_n s)); auto.
  Qed.

  Definition ext (z : num) (n : nat) (m : list (list num)) : list (list num) :=
    map (fun row => row ++ [z]) m ++ [repeat z (S n)].

  Lemma square_ext z n m : square n m -> square (S n) (ext z n m).
  Proof.
    intros [Hl Hf]. unfold ext. split.
    - rewrite app_length, map_length. cbn. lia.
    - apply Forall_app. split.
      + apply Forall_map. eapply Forall_impl; [|exact Hf]. intros r Hr. cbn beta in Hr.
        rewrite app_length. cbn. lia.
      + constructor; auto. apply repeat_length.
  Qed.

  Lemma ent_ext z d n m i j : square n m -> i <= n -> j <= n ->
    ent d (ext z n m) i j = if Nat.ltb i n && Nat.ltb j n then ent d m i j else z.
  Proof.
    intros Hs Hi Hj. pose proof Hs as [Hl Hf]. unfold ent, ext.
    destruct (Nat.ltb_spec i n) as [Hi'|Hi'].
    - rewrite app_nth1 by (rewrite map_length; lia).
      rewrite (nth_map' _ _ i [] []) by lia.
      pose proof (square_row n m i Hs Hi') as Lr.
      destruct (Nat.ltb_spec j n) as [Hj'|Hj']; cbn [andb].
      + now rewrite app_nth1 by lia.
      + rewrite app_nth2 by lia. replace (j - List.length (nth i m [])) with 0 by lia. reflexivity.
    - cbn [andb]. rewrite app_nth2 by (rewrite map_length; lia).
      rewrite map_length. replace (i - List.length m) with 0 by lia. cbn [nth].
      apply nth_repeat'. lia.
  Qed.

  Lemma alive_at_snoc pops p i :
    alive_at (pops ++ [p]) i =
    if Nat.ltb i (List.length pops) then alive_at pops i
    else if Nat.eqb i (List.length pops) then alive p else false.
  Proof.
    unfold alive_at. destruct (Nat.ltb_spec i (List.length pops)) as [H|H].
    - now rewrite nth_error_app1.
    - rewrite nth_error_app2 by lia. destruct (Nat.eqb_spec i (List.length pops)) as [->|H'].
      + now rewrite Nat.sub_diag.
      + destruct (i - List.length pops) as [|k] eqn:E; [lia|]. cbn. now destruct k.
  Qed.

  Lemma step_Evs N0 time s gs t i p s' gs' st st' :
    MRel2 s st -> step N0 time (s, gs) (Evs t i p) = Ok (s', gs') ->
    apply_ev st (Evs t i p) = Ok st' -> MRel2 s' st'.
  Proof.
    intros HR Hs Ha. unfold step in Hs. unfold apply_ev in Ha.
    mbind Hs pp Hpp. injection Hs as <- <-.
    mraise Ha Hc. injection Ha as <-.
    pose proof HR as [Hn Hb Hss Hj Hr He].
    pose proof (cur_square s Hb) as Hcs.
    fold (ext nf0 (npops st) (st_mig st)).
    constructor; unfold npops, BShape, cur_matrix in *; cbn [st_pops st_mig b_n b_mms b_joined].
    - rewrite app_length. cbn. lia.
    - destruct Hb as [Hf Hne]. split.
      + apply Forall_map. eapply Forall_impl; [|exact Hf]. intros m Hm. now apply (square_ext n0).
      + destruct (b_mms s); [congruence|discriminate].
    - rewrite app_length. cbn [List.length]. rewrite Nat.add_1_r. now apply square_ext.
    - intros a Ha. rewrite alive_at_snoc. rewrite <- Hn.
      destruct (Nat.ltb_spec a (b_n s)) as [H|H]; [now apply Hj|].
      assert (a = b_n s) as -> by lia. rewrite Nat.eqb_refl. cbn.
      destruct (memn (b_n s) (b_joined s)) eqn:E; [|reflexivity]. apply Hr in E. lia.
    - intros a Ha. apply Hr in Ha. lia.
    - intros a b Ha Hb0 Hne. rewrite !alive_at_snoc. rewrite <- Hn.
      destruct Hb as [Hf Hne0]. destruct (b_mms s) as [|m0 rest]; [congruence|]. cbn [map].
      change (map (fun row : list num => row ++ [n0]) m0 ++ [n0 :: repeat n0 (b_n s)])
        with (ext n0 (b_n s) m0).
      change (map (fun row : list num => row ++ [nf0]) (st_mig st) ++ [nf0 :: repeat nf0 (b_n s)])
        with (ext nf0 (b_n s) (st_mig st)).
      rewrite (ent_ext n0 n0 (b_n s)) by (auto; lia).
      rewrite (ent_ext nf0 nf0 (b_n s)) by (rewrite ?Hn; auto; lia).
      destruct (Nat.ltb_spec a (b_n s)) as [Ha'|Ha']; cbn [andb].
      + destruct (Nat.ltb_spec b (b_n s)) as [Hb'|Hb']; [now apply He|].
        match goal with |- ZEq n0 (if ?c then nf0 else nf0) => destruct c end; apply ZEq_0f.
      + match goal with |- ZEq n0 (if ?c then nf0 else nf0) => destruct c end; apply ZEq_0f.
  Qed.

  Lemma alive_at_kill t pops p k :
    alive_at (upd p (fun q => mkPop (mp_size q) (mp_alpha q) (mp_t q) (mp_born q) (Some t)) pops) k =
    if Nat.eqb k p then false else alive_at pops k.
  Proof.
    unfold alive_at. rewrite nth_error_upd. destruct (Nat.eqb k p); [|reflexivity].
    now destruct (nth_error pops k).
  Qed.

  Lemma step_Evj N0 time s gs t i j s' gs' st st' :
    MRel2 s st -> step N0 time (s, gs) (Evj t i j) = Ok (s', gs') ->
    apply_ev st (Evj t i j) = Ok st' -> MRel2 s' st'.
  Proof.
    intros HR Hs Ha. unfold step in Hs. unfold apply_ev in Ha.
    mbind Hs pi Hpi. mbind Hs pj Hpj. mbind Hs ds Hds. injection Hs as <- <-.
    mraise Ha Hc. injection Ha as <-.
    apply pid_inv in Hpi. destruct Hpi as (-> & Hi1 & Hi2 & Mi).
    apply pid_inv in Hpj. destruct Hpj as (-> & Hj1 & Hj2 & Mj).
    pose proof HR as [Hn Hb Hss Hj Hr He].
    pose proof (cur_square s Hb) as Hcs.
    match goal with |- MRel2 (mkB (b_n (edit_matrix ?F _)) _ _ _ _ _) _ =>
      destruct (edit_at_props F (with_demes s ds) time Hb) as (En & Ej & Hb' & Ec) end.
    { intros m Hm. apply square_mapi2; [|exact Hm]. intros r row. apply mapi_length. }
    change (b_n (with_demes s ds)) with (b_n s) in *.
    change (b_joined (with_demes s ds)) with (b_joined s) in *.
    change (cur_matrix (with_demes s ds)) with (cur_matrix s) in *.
    constructor; unfold npops, BShape, cur_matrix in *;
      cbn [st_pops st_mig b_n b_mms b_joined]; rewrite ?En, ?Ej, ?Ec; auto.
    - now rewrite upd_length.
    - rewrite En in Hb'. exact Hb'.
    - now rewrite upd_length.
    - intros a Ha. rewrite alive_at_kill. unfold memn. cbn [existsb]. fold (memn a (b_joined s)).
      destruct (Nat.eqb a (i - 1)); [reflexivity|]. now apply Hj.
    - intros a. unfold memn. cbn [existsb]. fold (memn a (b_joined s)).
      destruct (Nat.eqb_spec a (i - 1)) as [->|Hne]; [intros _; lia|]. apply Hr.
    - intros a b Ha Hb0 Hne. rewrite !alive_at_kill.
      rewrite ent_mapi by (destruct Hcs; lia).
      rewrite (nth_mapi _ _ 0 b n0 n0) by (rewrite (square_row (b_n s)); auto).
      cbn [Nat.add].
      destruct (Nat.eqb_spec a (i - 1)) as [->|Ha'].
      + cbn [andb orb negb]. assert (Nat.eqb b (i - 1) = false) as -> by (apply Nat.eqb_neq; lia).
        cbn. apply ZEq_0f.
      + destruct (Nat.eqb_spec b (i - 1)) as [->|Hbq].
        * cbn. rewrite andb_false_r. apply ZEq_0f.
        * cbn [andb orb negb]. now apply He.
  Qed.

  (* one event *)
  Theorem step_refine N0 time s gs e s' gs' st st' :
    SquareMa e -> MRel s st ->
    step N0 time (s, gs) e = Ok (s', gs') -> apply_ev st e = Ok st' ->
    MRel s' st'.
  Proof.
    intros Hsq HR Hs Ha. apply MRel_iff. apply MRel_iff in HR.
    destruct e as [t a|t i a|t x|t i x timed|t x|t i j x|t np m ini|t i p|t i j].
    - unfold step in Hs. unfold apply_ev in Ha.
      mbind Hs g Hg. mbind Hs ds Hds. injection Hs as <- <-. injection Ha as <-.
      apply MRel2_pops; auto; [apply map_length|].
      intro k. apply alive_at_map. intro p. apply alive_regrow.
    - unfold step in Hs. unfold apply_ev in Ha.
      mbind Hs p Hp. mbind Hs g Hg. mbind Hs ds Hds. injection Hs as <- <-.
      mraise Ha Hc. injection Ha as <-.
      apply MRel2_pops; auto; [apply upd_length|].
      intro k. apply alive_at_upd. reflexivity.
    - unfold step in Hs. unfold apply_ev in Ha.
      mbind Hs ds Hds. injection Hs as <- <-. injection Ha as <-.
      apply MRel2_pops; auto; [apply map_length|].
      intro k. apply alive_at_map. intro p. apply alive_resize.
    - unfold step in Hs. unfold apply_ev in Ha.
      mbind Hs p Hp. mbind Hs ds Hds. injection Hs as <- <-.
      mraise Ha Hc. injection Ha as <-.
      apply MRel2_pops; auto; [apply upd_length|].
      intro k. apply alive_at_upd. reflexivity.
    - eapply step_EvM; eauto.
    - eapply step_Evm; eauto.
    - eapply step_Evma; eauto.
    - eapply step_Evs; eauto.
    - eapply step_Evj; eauto.
  Qed.

  Lemma steps_refine N0 time evs : forall s gs st s' gs' st',
    (forall e, In e evs -> SquareMa e) -> MRel s st ->
    foldM (step N0 time) evs (s, gs) = Ok (s', gs') -> foldM apply_ev evs st = Ok st' ->
    MRel s' st'.
  Proof.
    induction evs as [|e evs IH]; intros s gs st s' gs' st' Hsq HR Hs Ha; cbn in Hs, Ha.
    - injection Hs as <- <-. injection Ha as <-. exact HR.
    - mbind Hs sg1 H1. mbind Ha st1 H2. destruct sg1 as [s1 gs1].
      eapply IH; [| |exact Hs|exact Ha].
      + intros x Hx. apply Hsq. now right.
      + eapply step_refine; eauto. apply Hsq. now left.
  Qed.

  Lemma run_group_refine N0 s tg st s' st' :
    (forall e, In e (snd tg) -> SquareMa e) -> MRel s st ->
    run_group N0 s tg = Ok s' -> foldM apply_ev (snd tg) st = Ok st' -> MRel s' st'.
  Proof.
    destruct tg as [t evs]. cbn [snd]. intros Hsq HR Hs Ha. unfold run_group in Hs.
    mbind Hs r Hr. destruct r as [s1 gs1]. cbn [fst snd] in Hs.
    apply finish_group_frame in Hs. destruct Hs as (En & Em & Ej).
    eapply MRel_frame; eauto. eapply steps_refine; eauto.
  Qed.

  Lemma groups_refine N0 groups : forall s0 st0 s st,
    (forall e, In e (List.concat (map snd groups)) -> SquareMa e) -> MRel s0 st0 ->
    foldM (run_group N0) groups s0 = Ok s ->
    foldM apply_ev (List.concat (map snd groups)) st0 = Ok st ->
    MRel s st.
  Proof.
    induction groups as [|tg groups IH]; intros s0 st0 s st Hsq HR Hs Ha; cbn in Hs, Ha.
    - injection Hs as <-. injection Ha as <-. exact HR.
    - mbind Hs s1 H1. rewrite foldM_app in Ha. mbind Ha st1 H2.
      eapply IH; [| |exact Hs|exact Ha].
      + intros e He. apply Hsq. cbn. apply in_or_app. now right.
      + eapply run_group_refine; eauto.
        intros e He. apply Hsq. cbn. apply in_or_app. now left.
  Qed.

  (* any event list, grouped by equal times as from_ms does *)
  Theorem run_groups_refine N0 evs s0 st0 s st :
    (forall e, In e evs -> SquareMa e) -> MRel s0 st0 ->
    foldM (run_group N0) (group_by_time evs) s0 = Ok s ->
    foldM apply_ev evs st0 = Ok st ->
    MRel s st.
  Proof.
    intros Hsq HR Hs Ha.
    apply (groups_refine N0 (group_by_time evs) s0 st0 s st); auto;
      rewrite group_by_time_concat; auto.
  Qed.
End FromMsRefine.

Print Assumptions init_refine.
Print Assumptions step_refine.
Print Assumptions run_groups_refine.
