(* C06 / C03 (completeness on explicit documents): the fully-resolved dictionary of a valid
   graph is accepted by resolution and resolves to the same dictionary. *)
From Coq Require Import Bool List String QArith Lqa Arith Lia.
From Demes Require Import Base.Num Base.Py Model.MDM Model.Codec Model.MigMat Model.Resolve
  Spec.Valid Proofs.MigMatProofs.
Import ListNotations.
Local Open Scope string_scope.
Local Open Scope list_scope.

Section FixedPoint.
  Context {N : NumOps} {L : NumLaws N}.

  (* the numbers inside metadata play no role; strings in a valid graph are what they are *)
  Theorem coerce_idem v : coerce (coerce v) = coerce v.
  Proof.
    revert v. fix IH 1. intros [ | b | x | s | l | kv | ]; cbn; try reflexivity.
    - f_equal. induction l as [|a l IHl]; cbn; [reflexivity|].
      f_equal; [apply IH | apply IHl].
    - f_equal. induction kv as [|[k a] kv IHl]; cbn; [reflexivity|].
      f_equal; [f_equal; apply IH | apply IHl].
  Qed.

  (* g' is g up to the representation of epoch start times (value-equal) and coerced metadata *)
  Definition SameGraph (g g' : graph) : Prop :=
    g_desc g' = g_desc g /\ g_units g' = g_units g /\ g_gt g' = g_gt g /\ g_doi g' = g_doi g /\
    g_meta g' = coerce (g_meta g) /\ g_migs g' = g_migs g /\ g_pulses g' = g_pulses g /\
    g_index g' = g_index g /\
    Forall2 (fun d d' =>
               d_name d' = d_name d /\ d_desc d' = d_desc d /\ d_start d' = d_start d /\
               d_anc d' = d_anc d /\ d_props d' = d_props d /\
               Forall2 (fun e e' =>
                          neqb (e_start e') (e_start e) = true /\ e_end e' = e_end e /\
                          e_ssize e' = e_ssize e /\ e_esize e' = e_esize e /\ e_sf e' = e_sf e /\
                          e_self e' = e_self e /\ e_clone e' = e_clone e)
                       (d_epochs d) (d_epochs d'))
            (g_demes g) (g_demes g').

  (* ------------------------------------------------------------------ *)
  (* monad plumbing *)

  Lemma bind_ok {A B} (m : res A) a (k : A -> res B) r : m = Ok a -> k a = r -> bind m k = r.
  Proof. intros -> <-. reflexivity. Qed.

  Lemma raise_if_false b e : b = false -> raise_if b e = Ok tt.
  Proof. intros ->. reflexivity. Qed.

  Lemma mapM_map_ok {A B C} (f : B -> res C) (g : A -> B) (h : A -> C) l :
    (forall x, In x l -> f (g x) = Ok (h x)) -> mapM f (map g l) = Ok (map h l).
  Proof.
    induction l as [|a l IH]; intro H; [reflexivity|]. cbn.
    rewrite (H a (or_introl eq_refl)). cbn. rewrite IH; [reflexivity|].
    intros x Hx. apply H. now right.
  Qed.

  Lemma map_id_ext {A} (h : A -> A) l : (forall x, h x = x) -> map h l = l.
  Proof. intro H. induction l as [|a l IH]; cbn; [reflexivity|]. now rewrite H, IH. Qed.

  Lemma forM_map_ok {A B} (f : B -> res unit) (g : A -> B) l :
    (forall x, In x l -> f (g x) = Ok tt) -> forM_ f (map g l) = Ok tt.
  Proof.
    intro H. apply forM_ok. intros y Hy. apply in_map_iff in Hy.
    destruct Hy as (x & <- & Hx). now apply H.
  Qed.

  Lemma forM_app_ok {A} (f : A -> res unit) l1 l2 :
    forM_ f l1 = Ok tt -> forM_ f l2 = Ok tt -> forM_ f (l1 ++ l2) = Ok tt.
  Proof.
    induction l1 as [|a l1 IH]; cbn; intros H1 H2; [exact H2|].
    destruct (f a) as [[]|]; cbn in *; [auto|discriminate].
  Qed.

  (* ------------------------------------------------------------------ *)
  (* number facts *)

  Lemma iof_num x : ok x -> int_or_float (JNum x) = Ok x.
  Proof. unfold ok. intro H. cbn. now rewrite H. Qed.

  Lemma mem_true s l : In s l -> mem s l = true.
  Proof.
    intro H. unfold mem. apply existsb_exists. exists s. split; [exact H|apply String.eqb_refl].
  Qed.

  Lemma mem_false s l : ~ In s l -> mem s l = false.
  Proof.
    intro H. unfold mem. destruct (existsb (String.eqb s) l) eqn:E; [|reflexivity].
    apply existsb_exists in E. destruct E as (x & Hx & He). apply String.eqb_eq in He.
    subst x. contradiction.
  Qed.

  Lemma nodupb_true l : NoDup l -> nodupb l = true.
  Proof.
    induction 1 as [|x l Hx ND IH]; cbn; [reflexivity|].
    rewrite (mem_false _ _ Hx), IH. reflexivity.
  Qed.

  (* ------------------------------------------------------------------ *)
  (* the rebuilt graph, explicitly *)

  Fixpoint rechain (s : num) (es : list epoch) : list epoch :=
    match es with
    | [] => []
    | e :: es' => mkEpoch s (e_end e) (e_ssize e) (e_esize e) (e_sf e) (e_self e) (e_clone e)
                  :: rechain (e_end e) es'
    end.

  Definition redeme (d : deme) : deme :=
    mkDeme (d_name d) (d_desc d) (d_start d) (d_anc d) (d_props d)
           (rechain (d_start d) (d_epochs d)).

  (* graph under construction: header of [h], demes, migrations, pulses, canonical index *)
  Definition GR (h : graph) ds ms ps : graph :=
    mkGraph (g_desc h) (g_units h) (g_gt h) (g_doi h) (g_meta h) ds ms ps (index_from 0 ds).

  Definition fd (name : string) (ds : list deme) : option deme :=
    find (fun d => String.eqb (d_name d) name) ds.

  Lemma rechain_ends s es : map e_end (rechain s es) = map e_end es.
  Proof. revert s. induction es as [|e es IH]; intro s; cbn; [reflexivity|]. now rewrite IH. Qed.

  Lemma d_end_map d :
    d_end d = match rev (map e_end (d_epochs d)) with x :: _ => Ok x | [] => Err IndexErr end.
  Proof. unfold d_end. rewrite <- map_rev. destruct (rev (d_epochs d)); reflexivity. Qed.

  Lemma d_end_redeme d : d_end (redeme d) = d_end d.
  Proof. rewrite !d_end_map. cbn. now rewrite rechain_ends. Qed.

  Lemma fd_redeme name ds : fd name (map redeme ds) = option_map redeme (fd name ds).
  Proof.
    unfold fd. induction ds as [|d ds IH]; cbn; [reflexivity|].
    destruct (String.eqb (d_name d) name); [reflexivity|exact IH].
  Qed.

  Lemma assoc_index_from name ds : forall i,
    match fd name ds with
    | Some d => exists k, assoc name (index_from i ds) = Some (i + k)%nat /\ nth_error ds k = Some d
    | None => assoc name (index_from i ds) = None
    end.
  Proof.
    unfold fd. induction ds as [|d ds IH]; intro i; cbn; [reflexivity|].
    rewrite (String.eqb_sym name (d_name d)).
    destruct (String.eqb (d_name d) name).
    - exists 0%nat. split; [f_equal; lia|reflexivity].
    - specialize (IH (S i)). destruct (find _ ds) as [d0|].
      + destruct IH as (k & H1 & H2). exists (S k). split; [rewrite H1; f_equal; lia|exact H2].
      + exact IH.
  Qed.

  Lemma lookup_GR h ds ms ps name :
    lookup (GR h ds ms ps) name = match fd name ds with Some d => Ok d | None => Err KeyErr end.
  Proof.
    unfold lookup, GR. cbn. pose proof (assoc_index_from name ds 0) as H.
    destruct (fd name ds) as [d|].
    - destruct H as (k & H1 & H2). rewrite H1. cbn. now rewrite H2.
    - now rewrite H.
  Qed.

  Lemma contains_GR h ds ms ps name :
    contains (GR h ds ms ps) name = match fd name ds with Some _ => true | None => false end.
  Proof.
    unfold contains, GR. cbn. pose proof (assoc_index_from name ds 0) as H.
    destruct (fd name ds) as [d|].
    - destruct H as (k & -> & _). reflexivity.
    - now rewrite H.
  Qed.

  Lemma fd_none name ds : ~ In name (map d_name ds) -> fd name ds = None.
  Proof.
    intro H. unfold fd. apply find_none_all. intros x Hx.
    destruct (String.eqb (d_name x) name) eqn:E; [|reflexivity].
    apply String.eqb_eq in E. exfalso. apply H. subst name. now apply in_map.
  Qed.

  Lemma fd_in name ds d : fd name ds = Some d -> In d ds /\ d_name d = name.
  Proof.
    unfold fd. intro H. apply find_some in H. destruct H as [H1 H2].
    apply String.eqb_eq in H2. auto.
  Qed.

  Lemma fd_some ds : NoDup (map d_name ds) -> forall d, In d ds -> fd (d_name d) ds = Some d.
  Proof.
    unfold fd. induction ds as [|a ds IH]; intros ND d Hd; [destruct Hd|].
    cbn in ND. inversion ND as [|? ? Hn ND']; subst. cbn.
    destruct Hd as [->|Hd]; [now rewrite String.eqb_refl|].
    destruct (String.eqb (d_name a) (d_name d)) eqn:E.
    - apply String.eqb_eq in E. exfalso. apply Hn. rewrite E. now apply in_map.
    - now apply IH.
  Qed.

  Lemma index_from_app ds d : forall i,
    index_from i (ds ++ [d]) = index_from i ds ++ [(d_name d, (i + List.length ds)%nat)].
  Proof.
    induction ds as [|a ds IH]; intro i; cbn.
    - do 2 f_equal. lia.
    - rewrite IH. do 4 f_equal. lia.
  Qed.

  Lemma index_from_names ds ds' : map d_name ds = map d_name ds' ->
    forall i, index_from i ds = index_from i ds'.
  Proof.
    revert ds'. induction ds as [|a ds IH]; intros [|b ds'] H i; try discriminate; [reflexivity|].
    cbn in *. injection H as H1 H2. rewrite H1. f_equal. now apply IH.
  Qed.

  Lemma redeme_names ds : map d_name (map redeme ds) = map d_name ds.
  Proof. rewrite map_map. reflexivity. Qed.

  (* ------------------------------------------------------------------ *)
  (* epochs *)

  Lemma make_epoch_ok s e :
    ValidEpoch e -> neqb (e_start e) s = true ->
    make_epoch s (JNum (e_end e)) (JNum (e_ssize e)) (JNum (e_esize e)) (Some (JStr (e_sf e)))
               (JNum (e_self e)) (JNum (e_clone e))
    = Ok (mkEpoch s (e_end e) (e_ssize e) (e_esize e) (e_sf e) (e_self e) (e_clone e)).
  Proof.
    intros [V1 V2 V3 [V4 V4'] [V5 V5'] V6 V7 V8 [V9 V9'] [V10 V10']] Hs.
    destruct e as [st en ss es sf sr cr]; cbn in *.
    assert (ok s) by (apply eq_true in Hs; tauto).
    assert (ok st) by (apply eq_true in Hs; tauto).
    assert (ok en) by (apply le_true in V1; tauto).
    assert (ok ss) by (apply lt_true in V4; tauto).
    assert (ok es) by (apply lt_true in V5; tauto).
    assert (ok sr) by (apply le_true in V9; tauto).
    assert (ok cr) by (apply le_true in V10; tauto).
    assert (E1 : nlt s n0 = false) by nord.
    assert (E2 : nlt en n0 = false) by nord.
    assert (E3 : nle ss n0 = false) by nord.
    assert (E4 : nle es n0 = false) by nord.
    assert (E5 : nle s en = false) by nord.
    assert (E6 : nisinf s && nneq ss es = false).
    { destruct (nisinf s) eqn:Ei; [|reflexivity]. cbn. unfold nneq.
      rewrite V8; [reflexivity|]. nord. }
    assert (E7 : String.eqb sf "constant" && nneq ss es = false).
    { destruct (String.eqb sf "constant") eqn:Ec; [|reflexivity]. cbn. unfold nneq.
      apply String.eqb_eq in Ec. now rewrite V7. }
    assert (E8 : mem sf size_functions = true) by (apply mem_true; exact V6).
    unfold make_epoch, non_negative, positive, finite, unit_interval.
    rewrite E1; cbn [bind raise_if]. rewrite iof_num by assumption; cbn [bind].
    rewrite E2, V2; cbn [bind raise_if]. rewrite iof_num by assumption; cbn [bind].
    rewrite E3, V4'; cbn [bind raise_if]. rewrite iof_num by assumption; cbn [bind].
    rewrite E4, V5', E8; cbn [bind raise_if negb]. rewrite iof_num by assumption; cbn [bind].
    rewrite V9, V9'; cbn [bind raise_if negb andb]. rewrite iof_num by assumption; cbn [bind].
    rewrite V10, V10'; cbn [bind raise_if negb andb].
    rewrite E5, E6, E7. reflexivity.
  Qed.

  Definition next_start (d : deme) : num :=
    match rev (d_epochs d) with [] => d_start d | prev :: _ => e_end prev end.

  Definition with_epochs (d : deme) (es : list epoch) : deme :=
    mkDeme (d_name d) (d_desc d) (d_start d) (d_anc d) (d_props d) es.

  Lemma add_epoch_ok d e :
    ValidEpoch e -> neqb (e_start e) (next_start d) = true ->
    add_epoch d (JNum (e_end e)) (Some (JNum (e_ssize e))) (Some (JNum (e_esize e)))
              (Some (JStr (e_sf e))) (JNum (e_self e)) (JNum (e_clone e))
    = Ok (with_epochs d (d_epochs d ++ [mkEpoch (next_start d) (e_end e) (e_ssize e) (e_esize e)
                                                (e_sf e) (e_self e) (e_clone e)])).
  Proof.
    intros V Hs. unfold add_epoch, next_start in *.
    destruct (rev (d_epochs d)) as [|prev r]; cbn [bind];
      rewrite (make_epoch_ok _ _ V Hs); reflexivity.
  Qed.

  Definition epoch_step (edef : list (string * jv)) (nE : nat) (st : deme * nat) (ev : jv)
    : res (deme * nat) :=
    let '(d, j) := st in
    ekv <- dict_of ev ;;
    check_allowed ekv epoch_fields ;;;
    en <- (match field ekv edef "end_time" with
           | Some v => Ok v
           | None => if Nat.eqb (S j) nE then Ok (JNum n0) else Err KeyErr
           end) ;;
    d' <- add_epoch d en (field_nn ekv edef "start_size") (field_nn ekv edef "end_size")
                    (field_nn ekv edef "size_function")
                    (jdefault (field ekv edef "selfing_rate") (JNum n0))
                    (jdefault (field ekv edef "cloning_rate") (JNum n0)) ;;
    Ok (d', S j).

  Lemma epoch_step_ok nE d j e :
    ValidEpoch e -> neqb (e_start e) (next_start d) = true ->
    epoch_step [] nE (d, j) (jv_of_epoch e)
    = Ok (with_epochs d (d_epochs d ++ [mkEpoch (next_start d) (e_end e) (e_ssize e) (e_esize e)
                                                (e_sf e) (e_self e) (e_clone e)]), S j).
  Proof.
    intros V Hs. unfold epoch_step, jv_of_epoch. cbn -[add_epoch].
    rewrite (add_epoch_ok _ _ V Hs). reflexivity.
  Qed.

  Lemma next_start_snoc d l x : next_start (with_epochs d (l ++ [x])) = e_end x.
  Proof. unfold next_start. cbn [d_epochs with_epochs]. now rewrite rev_unit. Qed.

  Lemma epoch_fold nE : forall es d j,
    Chain (next_start d) es -> (forall e, In e es -> ValidEpoch e) ->
    foldM (epoch_step [] nE) (map jv_of_epoch es) (d, j)
    = Ok (with_epochs d (d_epochs d ++ rechain (next_start d) es), (j + List.length es)%nat).
  Proof.
    induction es as [|e es IH]; intros d j HC HV.
    - cbn. rewrite app_nil_r, Nat.add_0_r. destruct d; reflexivity.
    - cbn [map foldM]. destruct HC as [Hs HC].
      rewrite (epoch_step_ok nE d j e (HV e (or_introl eq_refl)) Hs). cbn [bind].
      rewrite IH.
      + rewrite next_start_snoc.
        cbn [with_epochs d_epochs d_name d_desc d_start d_anc d_props rechain List.length e_end].
        rewrite <- app_assoc. cbn [app]. do 2 f_equal. lia.
      + rewrite next_start_snoc. exact HC.
      + intros e' He'. apply HV. now right.
  Qed.

  (* ------------------------------------------------------------------ *)
  (* demes *)

  Lemma add_deme_ok h earlier d :
    NoDup (map d_name earlier) ->
    (forall a, In a earlier -> is_identifier (d_name a) = true) ->
    ValidDeme earlier d ->
    add_deme (GR h (map redeme earlier) [] []) (JStr (d_name d)) (JStr (d_desc d))
             (Some (JNum (d_start d))) (Some (jstrs (d_anc d))) (Some (jnums (d_props d)))
    = Ok (GR h (map redeme earlier ++ [with_epochs d []]) [] []).
  Proof.
    intros ND ID V. destruct V as [V1 V2 V3 V4 V5 V6 V7 V8 V9 _ _ _].
    destruct d as [name desc start anc props eps].
    cbn [d_name d_desc d_start d_anc d_props d_epochs] in *.
    assert (FA : forall a, In a anc -> exists ad, fd a earlier = Some ad /\ Alive ad start /\
                                                    is_identifier a = true).
    { intros a Ha. destruct (V5 a Ha) as (ad & Hin & Hn & Hal). exists ad. subst a.
      repeat split; [now apply fd_some|exact Hal|now apply ID]. }
    assert (okst : ok start) by (apply lt_true in V3; tauto).
    unfold add_deme. cbn [bind jstrs jnums list_of].
    rewrite contains_GR, fd_redeme, (fd_none _ _ V2). cbn [option_map raise_if bind].
    eapply bind_ok.
    { apply forM_map_ok. intros a Ha. destruct (FA a Ha) as (ad & Hf & _).
      rewrite contains_GR, fd_redeme, Hf. reflexivity. }
    cbn [is_number negb raise_if bind].
    eapply bind_ok.
    { apply raise_if_false. destruct anc as [|a anc]; [|reflexivity].
      cbn. rewrite (proj1 V6 eq_refl). reflexivity. }
    rewrite map_map, (map_id_ext _ anc) by reflexivity.
    eapply bind_ok.
    { apply forM_ok. intros a Ha. destruct (FA a Ha) as (ad & Hf & (ea & He & A1 & A2) & _).
      rewrite lookup_GR, fd_redeme, Hf. cbn [option_map bind].
      rewrite d_end_redeme. unfold DEnd in He. rewrite He. cbn [bind redeme d_start].
      unfold ngt, nge. rewrite A1, A2. reflexivity. }
    unfold deme_name_of. cbn [str_of bind]. rewrite V1. cbn [negb raise_if bind].
    rewrite (iof_num _ okst). cbn [bind].
    eapply bind_ok.
    { unfold positive. apply raise_if_false. nord. }
    eapply bind_ok.
    { apply (mapM_map_ok deme_name_of JStr (fun x => x)). intros a Ha.
      destruct (FA a Ha) as (ad & _ & _ & Hi). unfold deme_name_of. cbn. rewrite Hi. reflexivity. }
    rewrite map_id.
    rewrite (nodupb_true _ V4). cbn [negb raise_if bind].
    rewrite mem_false.
    2:{ intro Hin. destruct (FA _ Hin) as (ad & Hf & _). apply fd_in in Hf. destruct Hf as [Hf1 Hf2].
        apply V2. rewrite <- Hf2. now apply in_map. }
    cbn [raise_if bind].
    eapply bind_ok.
    { apply (mapM_map_ok int_or_float JNum (fun x => x)). intros x Hx. apply iof_num.
      destruct (V8 x Hx) as [Hp _]. apply lt_true in Hp. tauto. }
    rewrite map_id.
    eapply bind_ok.
    { apply raise_if_false. destruct props as [|p props]; [reflexivity|].
      rewrite V9 by discriminate. reflexivity. }
    eapply bind_ok.
    { apply forM_ok. intros p Hp. destruct (V8 p Hp) as [P1 P2].
      unfold unit_interval, positive.
      assert (ok p) by (apply lt_true in P1; tauto).
      assert (E1 : nle n0 p = true) by nord.
      assert (E2 : nle p n0 = false) by nord.
      rewrite E1, P2, E2. reflexivity. }
    rewrite <- V7, Nat.eqb_refl. cbn [negb raise_if bind].
    unfold GR, with_epochs.
    cbn [d_name d_desc d_start d_anc d_props g_desc g_units g_gt g_doi g_meta g_demes g_migs
         g_pulses g_index].
    rewrite index_from_app. reflexivity.
  Qed.

  Lemma all_dicts_ok {A} (f : A -> jv) l :
    (forall x, is_dict (f x) = true) ->
    forM_ (fun e => raise_if (negb (is_dict e)) TypeErr) (map f l) = Ok tt.
  Proof. intro H. apply forM_map_ok. intros x _. now rewrite H. Qed.

  Lemma resolve_deme_ok h earlier d :
    NoDup (map d_name earlier) ->
    (forall a, In a earlier -> is_identifier (d_name a) = true) ->
    ValidDeme earlier d ->
    resolve_deme [] [] (GR h (map redeme earlier) [] []) (jv_of_deme d)
    = Ok (GR h (map redeme (earlier ++ [d])) [] []).
  Proof.
    intros ND ID V. unfold resolve_deme, jv_of_deme.
    eapply bind_ok; [reflexivity|].
    eapply bind_ok; [reflexivity|].
    eapply bind_ok; [reflexivity|].
    eapply bind_ok; [exact (add_deme_ok h earlier d ND ID V)|].
    eapply bind_ok; [reflexivity|].
    eapply bind_ok; [reflexivity|].
    eapply bind_ok; [reflexivity|].
    eapply bind_ok; [reflexivity|].
    eapply bind_ok; [reflexivity|].
    eapply bind_ok.
    { cbn -[forM_]. rewrite all_dicts_ok; [reflexivity|]. intros x; reflexivity. }
    eapply bind_ok.
    { apply raise_if_false. pose proof (vd_epochs_ne _ _ V) as Hne.
      destruct (d_epochs d); [congruence|reflexivity]. }
    eapply bind_ok.
    { cbn [GR g_demes]. rewrite rev_unit. reflexivity. }
    eapply bind_ok.
    { exact (epoch_fold _ (d_epochs d) (with_epochs d []) 0%nat (vd_chain _ _ V) (vd_epochs _ _ V)). }
    unfold set_last_deme, GR.
    cbn [fst g_desc g_units g_gt g_doi g_meta g_demes g_migs g_pulses g_index].
    rewrite removelast_last, map_app. cbn [map]. f_equal. f_equal.
    apply index_from_names. rewrite !map_app. reflexivity.
  Qed.

  Lemma NoDup_snoc {A} (l : list A) x : NoDup l -> ~ In x l -> NoDup (l ++ [x]).
  Proof.
    induction 1 as [|a l Ha ND IH]; intro Hx; cbn.
    - constructor; [intros []|constructor].
    - constructor.
      + intro Hin. apply in_app_or in Hin. destruct Hin as [Hin|[->|[]]]; [contradiction|].
        apply Hx. now left.
      + apply IH. intro Hin. apply Hx. now right.
  Qed.

  Lemma demes_fold h : forall rest earlier,
    NoDup (map d_name earlier) ->
    (forall a, In a earlier -> is_identifier (d_name a) = true) ->
    ValidDemes earlier rest ->
    foldM (resolve_deme [] []) (map jv_of_deme rest) (GR h (map redeme earlier) [] [])
    = Ok (GR h (map redeme (earlier ++ rest)) [] []).
  Proof.
    induction rest as [|d rest IH]; intros earlier ND ID V.
    - cbn. now rewrite app_nil_r.
    - cbn [map foldM]. destruct V as [Vd Vr].
      rewrite (resolve_deme_ok h earlier d ND ID Vd). cbn [bind].
      rewrite IH; [now rewrite <- app_assoc| | |exact Vr].
      + rewrite map_app. apply NoDup_snoc; [exact ND|exact (vd_fresh _ _ Vd)].
      + intros a Ha. apply in_app_or in Ha. destruct Ha as [Ha|[<-|[]]]; [now apply ID|].
        exact (vd_name _ _ Vd).
  Qed.

  Lemma valid_demes_ident : forall rest earlier,
    ValidDemes earlier rest -> forall d, In d rest -> is_identifier (d_name d) = true.
  Proof.
    induction rest as [|a rest IH]; intros earlier V d Hd; [destruct Hd|].
    destruct V as [Va Vr]. destruct Hd as [<-|Hd]; [exact (vd_name _ _ Va)|].
    exact (IH _ Vr d Hd).
  Qed.

  (* ------------------------------------------------------------------ *)
  (* migrations *)

  Lemma ti_ok h ds ms ps n1' n2' a b lo hi t :
    fd n1' ds = Some a -> fd n2' ds = Some b -> Coexist a b lo hi -> Within lo hi t ->
    time_intersection (GR h (map redeme ds) ms ps) n1' n2' (Some (JNum t)) = Ok (lo, hi).
  Proof.
    intros Ha Hb (ea & eb & Ea & Eb & -> & ->) [W1 W2]. unfold time_intersection.
    rewrite !lookup_GR, !fd_redeme, Ha, Hb. cbn [option_map bind].
    rewrite !d_end_redeme. unfold DEnd in *. rewrite Ea, Eb.
    cbn [bind is_number negb raise_if redeme d_start]. unfold pymax, pymin.
    rewrite W1, W2. reflexivity.
  Qed.

  Lemma add_asym_ok h g pre m :
    (forall a, In a (g_demes g) -> is_identifier (d_name a) = true) ->
    ValidMig g m ->
    (forall o, In o pre -> m_src o = m_src m -> m_dst o = m_dst m ->
               nlt (m_end o) (m_start m) = true -> nlt (m_end m) (m_start o) = true -> False) ->
    add_asym (GR h (map redeme (g_demes g)) pre []) (JStr (m_src m)) (JStr (m_dst m))
             (JNum (m_rate m)) (Some (JNum (m_start m))) (Some (JNum (m_end m)))
    = Ok (GR h (map redeme (g_demes g)) (pre ++ [m]) []).
  Proof.
    intros ID [M1 M2 M3 M4 M5 [M6 M6']] NO.
    destruct M2 as (s & d & lo & hi & Fs & Fd & Co & Ws & We).
    unfold find_deme in Fs, Fd. fold (fd (m_src m) (g_demes g)) in Fs.
    fold (fd (m_dst m) (g_demes g)) in Fd.
    destruct m as [src dst st en r]. cbn [m_src m_dst m_start m_end m_rate] in *.
    assert (Is : is_identifier src = true).
    { apply fd_in in Fs. destruct Fs as [F1 <-]. now apply ID. }
    assert (Id : is_identifier dst = true).
    { apply fd_in in Fd. destruct Fd as [F1 <-]. now apply ID. }
    assert (ok st) by (apply lt_true in M3; tauto).
    assert (ok en) by (apply lt_true in M3; tauto).
    assert (ok r) by (apply le_true in M6; tauto).
    assert (E1 : nlt st n0 = false) by nord.
    assert (E2 : nlt en n0 = false) by nord.
    unfold add_asym. cbn [forM_].
    rewrite !contains_GR, !fd_redeme, Fs, Fd. cbn [option_map negb raise_if bind str_of].
    rewrite (ti_ok _ _ _ _ _ _ _ _ _ _ _ Fs Fd Co Ws). cbn [bind].
    rewrite (ti_ok _ _ _ _ _ _ _ _ _ _ _ Fs Fd Co We). cbn [bind].
    unfold deme_name_of. cbn [str_of bind]. rewrite Is, Id. cbn [negb raise_if bind].
    unfold non_negative, finite, unit_interval.
    rewrite (iof_num st) by assumption. cbn [bind]. rewrite E1. cbn [raise_if bind].
    rewrite (iof_num en) by assumption. cbn [bind]. rewrite E2, M4. cbn [raise_if bind].
    rewrite (iof_num r) by assumption. cbn [bind]. rewrite M6, M6'. cbn [andb negb raise_if bind].
    rewrite (proj2 (String.eqb_neq src dst) M1). cbn [raise_if bind].
    unfold ngt. rewrite M3. cbn [negb raise_if bind].
    eapply bind_ok.
    { apply raise_if_false. cbn [GR g_migs].
      destruct (existsb _ pre) eqn:E; [|reflexivity]. exfalso.
      apply existsb_exists in E. destruct E as (o & Ho & Hc).
      apply andb_true_iff in Hc. destruct Hc as [Hc C4].
      apply andb_true_iff in Hc. destruct Hc as [Hc C3].
      apply andb_true_iff in Hc. destruct Hc as [C1 C2].
      apply String.eqb_eq in C1, C2. exact (NO o Ho C1 C2 C3 C4). }
    reflexivity.
  Qed.

  Lemma resolve_migration_ok h g pre m :
    (forall a, In a (g_demes g) -> is_identifier (d_name a) = true) ->
    ValidMig g m ->
    (forall o, In o pre -> m_src o = m_src m -> m_dst o = m_dst m ->
               nlt (m_end o) (m_start m) = true -> nlt (m_end m) (m_start o) = true -> False) ->
    resolve_migration [] (GR h (map redeme (g_demes g)) pre []) (jv_of_mig m)
    = Ok (GR h (map redeme (g_demes g)) (pre ++ [m]) []).
  Proof.
    intros ID VM NO. unfold resolve_migration, jv_of_mig.
    eapply bind_ok; [reflexivity|].
    eapply bind_ok; [reflexivity|].
    eapply bind_ok; [reflexivity|].
    exact (add_asym_ok h g pre m ID VM NO).
  Qed.

  Lemma no_overlap_prefix g pre m rest :
    (forall x, In x (pre ++ m :: rest) -> ValidMig g x) ->
    NoOverlap (pre ++ m :: rest) ->
    forall o, In o pre -> m_src o = m_src m -> m_dst o = m_dst m ->
              nlt (m_end o) (m_start m) = true -> nlt (m_end m) (m_start o) = true -> False.
  Proof.
    intros VM NO o Ho Hs Hd C1 C2.
    destruct (In_nth_error _ _ Ho) as (i & Hi).
    assert (Hlt : (i < List.length pre)%nat) by (apply nth_error_Some; congruence).
    assert (Vo : ValidMig g o) by (apply VM; apply in_or_app; now left).
    assert (Vm : ValidMig g m) by (apply VM; apply in_or_app; right; now left).
    pose proof (vm_order _ _ Vo) as Oo. pose proof (vm_order _ _ Vm) as Om.
    assert (ok (m_end o)) by (apply lt_true in Oo; tauto).
    assert (ok (m_end m)) by (apply lt_true in Om; tauto).
    set (t := if nlt (m_end o) (m_end m) then m_end m else m_end o).
    apply (NO i (List.length pre) o m t).
    - lia.
    - rewrite nth_error_app1 by exact Hlt. exact Hi.
    - rewrite nth_error_app2 by lia. rewrite Nat.sub_diag. reflexivity.
    - exact Hs.
    - exact Hd.
    - unfold t. destruct (nlt (m_end o) (m_end m)); assumption.
    - unfold Active, t. destruct (nlt (m_end o) (m_end m)) eqn:E; split; try assumption; nord.
    - unfold Active, t. destruct (nlt (m_end o) (m_end m)) eqn:E; split; try assumption; nord.
  Qed.

  Lemma migs_fold h g : forall rest pre,
    (forall a, In a (g_demes g) -> is_identifier (d_name a) = true) ->
    (forall x, In x (pre ++ rest) -> ValidMig g x) ->
    NoOverlap (pre ++ rest) ->
    foldM (resolve_migration []) (map jv_of_mig rest) (GR h (map redeme (g_demes g)) pre [])
    = Ok (GR h (map redeme (g_demes g)) (pre ++ rest) []).
  Proof.
    induction rest as [|m rest IH]; intros pre ID VM NO.
    - cbn. now rewrite app_nil_r.
    - cbn [map foldM].
      rewrite (resolve_migration_ok h g pre m ID).
      + cbn [bind]. replace (pre ++ m :: rest) with ((pre ++ [m]) ++ rest) in *
          by (rewrite <- app_assoc; reflexivity).
        now apply IH.
      + apply VM. apply in_or_app. right. now left.
      + exact (no_overlap_prefix g pre m rest VM NO).
  Qed.

  (* ------------------------------------------------------------------ *)
  (* pulses *)

  Lemma add_pulse_ok h g ms pre p :
    (forall a, In a (g_demes g) -> is_identifier (d_name a) = true) ->
    ValidPulse g p ->
    add_pulse (GR h (map redeme (g_demes g)) ms pre) (jstrs (p_srcs p)) (JStr (p_dst p))
              (JNum (p_time p)) (jnums (p_props p))
    = Ok (GR h (map redeme (g_demes g)) ms (pre ++ [p])).
  Proof.
    intros ID [P1 P2 P3 P4 P5 P6 [P7 P7'] P8 P9].
    destruct P8 as (dd & ed & Fd & Ed & Nd).
    unfold find_deme in *. fold (fd (p_dst p) (g_demes g)) in *.
    destruct p as [srcs dst t props]. cbn [p_srcs p_dst p_time p_props] in *.
    assert (FS : forall s, In s srcs -> exists sd d lo hi,
                   fd s (g_demes g) = Some sd /\ fd dst (g_demes g) = Some d /\
                   Coexist sd d lo hi /\ Within lo hi t /\ neqb t (d_start sd) = false).
    { intros s Hs. exact (P9 s Hs). }
    assert (IS : forall s, In s srcs -> is_identifier s = true).
    { intros s Hs. destruct (FS s Hs) as (sd & _ & _ & _ & F & _). apply fd_in in F.
      destruct F as [F1 <-]. now apply ID. }
    assert (Id : is_identifier dst = true).
    { apply fd_in in Fd. destruct Fd as [F1 <-]. now apply ID. }
    assert (okt : ok t) by (apply lt_true in P7; tauto).
    unfold add_pulse. cbn [jstrs list_of bind].
    eapply bind_ok.
    { apply forM_app_ok.
      - apply forM_map_ok. intros s Hs. destruct (FS s Hs) as (sd & _ & _ & _ & F & _).
        rewrite contains_GR, fd_redeme, F. reflexivity.
      - cbn [forM_]. rewrite contains_GR, fd_redeme, Fd. reflexivity. }
    cbn [str_of bind].
    eapply bind_ok.
    { apply (mapM_map_ok str_of JStr (fun x => x)). reflexivity. }
    rewrite map_id.
    eapply bind_ok.
    { apply forM_ok. intros s Hs. destruct (FS s Hs) as (sd & d & lo & hi & F1 & F2 & Co & W & _).
      rewrite (ti_ok _ _ _ _ _ _ _ _ _ _ _ F1 F2 Co W). reflexivity. }
    cbn [is_number negb andb raise_if bind].
    rewrite lookup_GR, fd_redeme, Fd. cbn [option_map bind].
    rewrite d_end_redeme. unfold DEnd in Ed. rewrite Ed. cbn [bind]. rewrite Nd.
    cbn [raise_if bind].
    eapply bind_ok.
    { apply forM_ok. intros s Hs. destruct (FS s Hs) as (sd & _ & _ & _ & F1 & _ & _ & _ & Ne).
      rewrite lookup_GR, fd_redeme, F1. cbn [option_map bind redeme d_start]. now rewrite Ne. }
    eapply bind_ok.
    { apply (mapM_map_ok deme_name_of JStr (fun x => x)). intros s Hs.
      unfold deme_name_of. cbn [str_of bind]. now rewrite (IS s Hs). }
    rewrite map_id.
    eapply bind_ok.
    { apply raise_if_false. destruct srcs; [congruence|reflexivity]. }
    unfold deme_name_of. cbn [str_of bind]. rewrite Id. cbn [negb raise_if bind].
    rewrite (iof_num _ okt). cbn [bind]. unfold positive, finite.
    assert (E1 : nle t n0 = false) by nord. rewrite E1, P7'. cbn [raise_if bind].
    eapply bind_ok.
    { unfold nums_with. cbn [jnums list_of bind].
      apply (mapM_map_ok _ JNum (fun x => x)). intros x Hx. destruct (P5 x Hx) as [X1 X2].
      assert (ok x) by (apply lt_true in X1; tauto).
      rewrite iof_num by assumption. cbn [bind]. unfold unit_interval_lo. now rewrite X1, X2. }
    rewrite map_id.
    rewrite (mem_false _ _ P3), (nodupb_true _ P2), <- P4, Nat.eqb_refl. unfold ngt. rewrite P6.
    reflexivity.
  Qed.

  Lemma resolve_pulse_ok h g ms pre p :
    (forall a, In a (g_demes g) -> is_identifier (d_name a) = true) ->
    ValidPulse g p ->
    resolve_pulse [] (GR h (map redeme (g_demes g)) ms pre) (jv_of_pulse p)
    = Ok (GR h (map redeme (g_demes g)) ms (pre ++ [p])).
  Proof.
    intros ID VP. unfold resolve_pulse, jv_of_pulse.
    eapply bind_ok; [reflexivity|].
    eapply bind_ok; [reflexivity|].
    eapply bind_ok; [reflexivity|].
    eapply bind_ok; [reflexivity|].
    eapply bind_ok; [reflexivity|].
    eapply bind_ok; [reflexivity|].
    exact (add_pulse_ok h g ms pre p ID VP).
  Qed.

  Lemma pulses_fold h g ms : forall rest pre,
    (forall a, In a (g_demes g) -> is_identifier (d_name a) = true) ->
    (forall x, In x rest -> ValidPulse g x) ->
    foldM (resolve_pulse []) (map jv_of_pulse rest) (GR h (map redeme (g_demes g)) ms pre)
    = Ok (GR h (map redeme (g_demes g)) ms (pre ++ rest)).
  Proof.
    induction rest as [|p rest IH]; intros pre ID VP.
    - cbn. now rewrite app_nil_r.
    - cbn [map foldM]. rewrite (resolve_pulse_ok h g ms pre p ID (VP p (or_introl eq_refl))).
      cbn [bind]. rewrite IH; [now rewrite <- app_assoc|exact ID|].
      intros x Hx. apply VP. now right.
  Qed.

  Lemma sort_sorted l : PulsesSorted l -> sort_pulses l = l.
  Proof.
    induction l as [|p l IH]; intro H; [reflexivity|].
    unfold sort_pulses in *. cbn [fold_right].
    destruct l as [|q l'].
    - reflexivity.
    - destruct H as [H1 H2]. rewrite (IH H2). cbn [insert_pulse]. now rewrite H1.
  Qed.

  (* ------------------------------------------------------------------ *)
  (* header, rates, and the theorem *)

  Definition header (g : graph) : graph :=
    mkGraph (g_desc g) (g_units g) (g_gt g) (g_doi g) (coerce (g_meta g)) [] [] [] [].

  Lemma make_graph_ok g :
    Valid g ->
    make_graph (JStr (g_desc g)) (JStr (g_units g)) (jstrs (g_doi g)) (JNum (g_gt g))
               (coerce (g_meta g)) = Ok (header g).
  Proof.
    intros [V1 [V2 V2'] V3 V4 V5 _ _ _ _ _ _ _ _].
    assert (okg : ok (g_gt g)) by (apply lt_true in V2; tauto).
    assert (E1 : nle (g_gt g) n0 = false) by nord.
    unfold make_graph. cbn [str_of bind].
    rewrite (proj2 (String.eqb_neq _ _) V1). cbn [raise_if bind].
    rewrite (iof_num _ okg). cbn [bind]. unfold positive, finite. rewrite E1, V2'.
    cbn [raise_if bind jstrs list_of].
    eapply bind_ok.
    { apply (mapM_map_ok _ JStr (fun x => x)). intros s Hs. cbn [str_of bind].
      rewrite (proj2 (String.eqb_neq _ _) (V4 s Hs)). reflexivity. }
    rewrite map_id.
    eapply bind_ok.
    { apply raise_if_false. destruct (g_meta g); try discriminate V5. reflexivity. }
    rewrite andb_false_r. cbn [raise_if bind].
    eapply bind_ok.
    { apply raise_if_false. destruct (String.eqb (g_units g) "generations") eqn:E; [|reflexivity].
      apply String.eqb_eq in E. unfold nneq. now rewrite (V3 E). }
    reflexivity.
  Qed.

  Lemma rates_ok h g :
    Valid g -> check_migration_rates (GR h (map redeme (g_demes g)) (g_migs g) []) = Ok tt.
  Proof.
    intro V. apply check_rates_ok.
    - destruct (valid_migs_ok g V) as [K1 K2 K3]. constructor.
      + unfold deme_names in *. cbn [GR g_demes]. now rewrite redeme_names.
      + unfold deme_names in *. cbn [GR g_demes g_migs]. rewrite redeme_names. exact K2.
      + exact K3.
    - pose proof (v_ingress _ V) as IO. unfold IngressOK in *. cbn [GR g_demes].
      intros d t Hd okt T1 T2. apply in_map_iff in Hd. destruct Hd as (d0 & <- & Hd0).
      specialize (IO d0 t Hd0 okt T1 T2). cbn zeta in IO.
      unfold ingress in *. cbn [GR g_demes g_migs redeme d_name]. rewrite map_map.
      exact IO.
  Qed.

  Lemma valid_demes_each : forall rest earlier,
    ValidDemes earlier rest -> forall d, In d rest -> exists e', ValidDeme e' d.
  Proof.
    induction rest as [|a rest IH]; intros earlier V d Hd; [destruct Hd|].
    destruct V as [Va Vr]. destruct Hd as [<-|Hd]; [now exists earlier|].
    exact (IH _ Vr d Hd).
  Qed.

  Lemma same_epochs : forall es s,
    Chain s es ->
    Forall2 (fun e e' =>
               neqb (e_start e') (e_start e) = true /\ e_end e' = e_end e /\
               e_ssize e' = e_ssize e /\ e_esize e' = e_esize e /\ e_sf e' = e_sf e /\
               e_self e' = e_self e /\ e_clone e' = e_clone e) es (rechain s es).
  Proof.
    induction es as [|e es IH]; intros s HC; cbn [rechain]; constructor.
    - destruct HC as [H _]. cbn. repeat split. nord.
    - destruct HC as [_ H]. now apply IH.
  Qed.

  Lemma epochs_jv : forall es s, map jv_of_epoch (rechain s es) = map jv_of_epoch es.
  Proof. induction es as [|e es IH]; intro s; cbn; [reflexivity|]. now rewrite IH. Qed.

  Lemma deme_jv d : jv_of_deme (redeme d) = jv_of_deme d.
  Proof. unfold jv_of_deme, redeme. cbn. now rewrite epochs_jv. Qed.

  (* resolving the fully-resolved dictionary of a valid graph succeeds, infers nothing,
     rejects nothing, and gives back the same dictionary *)
  Theorem asdict_fixed g :
    Valid g -> exists g', fromdict (asdict g) = Ok g' /\ SameGraph g g' /\ asdict g' = asdict g.
  Proof.
    intro V.
    assert (ID : forall a, In a (g_demes g) -> is_identifier (d_name a) = true)
      by (exact (valid_demes_ident _ _ (v_demes _ V))).
    exists (GR (header g) (map redeme (g_demes g)) (g_migs g) (g_pulses g)).
    split; [|split].
    - unfold fromdict, asdict.
      eapply bind_ok; [reflexivity|].
      eapply bind_ok; [reflexivity|].
      eapply bind_ok; [reflexivity|].
      eapply bind_ok; [reflexivity|].
      eapply bind_ok; [reflexivity|]. eapply bind_ok; [reflexivity|].
      eapply bind_ok; [reflexivity|]. eapply bind_ok; [reflexivity|].
      eapply bind_ok; [reflexivity|]. eapply bind_ok; [reflexivity|].
      eapply bind_ok; [reflexivity|]. eapply bind_ok; [reflexivity|].
      eapply bind_ok; [reflexivity|].
      eapply bind_ok; [exact (make_graph_ok g V)|].
      eapply bind_ok.
      { unfold dict_list. cbn -[forM_]. rewrite all_dicts_ok; [reflexivity|]. intro; reflexivity. }
      eapply bind_ok.
      { apply raise_if_false. pose proof (v_demes_ne _ V). destruct (g_demes g); [congruence|].
        reflexivity. }
      eapply bind_ok.
      { exact (demes_fold (header g) (g_demes g) [] (NoDup_nil _) (fun a (H : In a []) => match H with end)
                          (v_demes _ V)). }
      eapply bind_ok.
      { unfold dict_list. cbn -[forM_]. rewrite all_dicts_ok; [reflexivity|]. intro; reflexivity. }
      eapply bind_ok.
      { exact (migs_fold (header g) g (g_migs g) [] ID (v_migs _ V) (v_overlap _ V)). }
      eapply bind_ok; [exact (rates_ok (header g) g V)|].
      eapply bind_ok.
      { unfold dict_list. cbn -[forM_]. rewrite all_dicts_ok; [reflexivity|]. intro; reflexivity. }
      eapply bind_ok.
      { exact (pulses_fold (header g) g _ (g_pulses g) [] ID (v_pulses _ V)). }
      cbn [GR g_desc g_units g_gt g_doi g_meta g_demes g_migs g_pulses g_index app].
      rewrite (sort_sorted _ (v_pulse_order _ V)). reflexivity.
    - unfold SameGraph, GR, header.
      cbn [g_desc g_units g_gt g_doi g_meta g_demes g_migs g_pulses g_index].
      repeat (split; [reflexivity|]). split.
      + rewrite (v_index _ V). apply index_from_names. apply redeme_names.
      + pose proof (valid_demes_each _ _ (v_demes _ V)) as VE. clear ID.
        induction (g_demes g) as [|d ds IH]; cbn [map]; constructor.
        * destruct (VE d (or_introl eq_refl)) as (e' & Vd).
          cbn [redeme d_name d_desc d_start d_anc d_props d_epochs].
          repeat (split; [reflexivity|]). apply same_epochs. exact (vd_chain _ _ Vd).
        * apply IH. intros x Hx. apply VE. now right.
    - unfold asdict, GR, header.
      cbn [g_desc g_units g_gt g_doi g_meta g_demes g_migs g_pulses g_index].
      rewrite coerce_idem, map_map. rewrite (map_ext _ _ deme_jv). reflexivity.
  Qed.
End FixedPoint.

Print Assumptions coerce_idem.
Print Assumptions asdict_fixed.
