(* DivOk: "a finite number divided by a number that is not numerically zero is a number" — the
   arithmetic premise of OkEv_of_valid (Proofs/FromMsGrowth.v) — proved for the exact-rational
   instance NumQ, and the theorem instantiated there. *)
From Coq Require Import QArith Qabs Lqa Bool List.
From Demes Require Import Base.Num Base.NumQ Base.Py Model.MsOpt Model.FromMs Spec.MsSem Proofs.FromMsGrowth.

Definition DivOk {N : NumOps} : Prop :=
  forall a b, ok a -> nisinf a = false -> ok b -> neqb b n0 = false -> ok (ndiv a b).

Theorem divok_Q : @DivOk NumQ.
Proof.
  intros [a i| | |] [b j| | |] Ha Ia Hb Zb; unfold ok in *; cbn in *;
    try discriminate; try reflexivity.
  rewrite Zb. reflexivity.
Qed.

Theorem OkEv_of_valid_Q : forall (N0 : @num NumQ) e,
  ok (nmul n4 N0) -> neqb (nmul n4 N0) n0 = false ->
  OkEv0 e -> valid_ev e = Ok tt -> OkEv N0 e.
Proof.
  intros N0 e. apply OkEv_of_valid. exact divok_Q.
Qed.

(* Non-vacuity: the premise and the conclusion compute on an example. *)
Example divok_Q_ex : ok (ndiv (QF (3#2) false) (nmul n4 (QF 1000 true))).
Proof. apply divok_Q; vm_compute; reflexivity. Qed.

Print Assumptions divok_Q.
Print Assumptions OkEv_of_valid_Q.
