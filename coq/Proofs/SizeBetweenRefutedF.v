(* SizeBetweenRefutedF: on IEEE binary64 (instance NumF, Coq's primitive floats) the clause "inside
   an epoch Deme.size_at lies between the epoch's start and end sizes" FAILS, in the last place,
   for LINEAR epochs.

   Mechanism.  For a time t just above the epoch's end (not math.isclose to it, since abs_tol = 0
   and the end is 0) the interpolation weight dt = (s - t) / (s - e) rounds to exactly 1.0, so
   size_at returns  fl (ss + fl (es - ss))  with two roundings.  That double-rounded value need
   not be es: here it is the float just BELOW es = min (ss, es), so the result is outside
   [min (ss, es), max (ss, es)].

   Over exact reals the clause is a theorem: Proofs/SizeBetweenR.v proves
       size_between_linear_R : ValidEpoch e -> e_sf e = "linear" -> epoch_owns t e = true ->
         size_in_epoch e t = Ok v -> ss <= v <= es \/ es <= v <= ss
   and size_at_between_R (for a deme all of whose epochs are ValidEpoch).  Here the very same
   hypotheses (ValidEpoch, linear, ownership, size_at = Ok v) are established for a concrete
   binary64 witness and the conclusion is shown false: v < es and v < ss.  Everything is evaluated
   by vm_compute on primitive floats.

   Witness (found by running demes-python): one linear epoch, start_time 1000, end_time 0,
     start_size ss = 0x1.4fb8dff19c1c8p+9  (671.4443342220557)
     end_size   es = 0x1.008009326459ap+6  (64.1250350831746)
     selfing_rate = cloning_rate = 0;
   query time  t = 0x1.79ca10c924223p-67  (the double nearest to 1e-20), and a second one
               t = 0x1p-1074               (5e-324, the float next to the epoch's end 0).
   Result      v = 0x1.0080093264598p+6  (64.12503508317457) = es - 2 ulp  <  es < ss.
   All the values claimed from the Python run are confirmed by Coq's evaluation (no literal had
   to be adjusted).

   Float literals are written in hexadecimal where the decimal form is not exactly a binary64
   value (so that no "inexact-float" warning is emitted). *)
From Coq Require Import Bool List String QArith Lqa Floats.
From Demes Require Import Base.Num Base.NumF Base.Py Model.MDM Model.SizeAt Spec.Valid.
Import ListNotations.
Local Open Scope string_scope.
Local Open Scope list_scope.

(* ------------------------------------------------------------------ *)
(* The witness. *)

Definition w_ss : PrimFloat.float := 0x1.4fb8dff19c1c8p+9%float.   (* 671.4443342220557 *)
Definition w_es : PrimFloat.float := 0x1.008009326459ap+6%float.   (* 64.1250350831746 *)
Definition w_t  : PrimFloat.float := 0x1.79ca10c924223p-67%float.  (* 1e-20 *)
Definition w_v  : PrimFloat.float := 0x1.0080093264598p+6%float.   (* 64.12503508317457 *)

Definition w_epoch : @epoch NumF :=
  mkEpoch 1000%float 0%float w_ss w_es "linear" 0%float 0%float.

Definition w_deme : @deme NumF := mkDeme "A" "" 1000%float [] [] [w_epoch].

(* the interpolation weight computed by size_in_epoch *)
Definition weight (e : @epoch NumF) (t : PrimFloat.float) : res PrimFloat.float :=
  @pdiv NumF (nsub (e_start e) t) (nsub (e_start e) (e_end e)).

(* ------------------------------------------------------------------ *)
(* The epoch satisfies the validity predicate assumed by size_between_linear_R /
   size_at_between_R (Spec/Valid.v, ValidEpoch): 0 <= end, end finite, end < start, both sizes
   positive and finite, a known size function, rates in [0, 1]. *)
Theorem w_epoch_valid : @ValidEpoch NumF w_epoch.
Proof.
  constructor.
  - vm_compute. reflexivity.
  - vm_compute. reflexivity.
  - vm_compute. reflexivity.
  - split; vm_compute; reflexivity.
  - split; vm_compute; reflexivity.
  - cbn. right. right. left. reflexivity.
  - cbn. intro H. discriminate H.
  - vm_compute. intro H. discriminate H.
  - split; vm_compute; reflexivity.
  - split; vm_compute; reflexivity.
Qed.

Theorem w_deme_epochs_valid : forall e, In e (d_epochs w_deme) -> @ValidEpoch NumF e.
Proof.
  intros e [H|[]]. subst e. exact w_epoch_valid.
Qed.

Example w_epoch_in : In w_epoch (d_epochs w_deme).
Proof. left. reflexivity. Qed.

Example w_epoch_linear : e_sf w_epoch = "linear".
Proof. reflexivity. Qed.

(* sizes differ, and the end size is the smaller one: min (ss, es) = es *)
Example w_sizes : @neqb NumF (e_ssize w_epoch) (e_esize w_epoch) = false /\
                  @nlt NumF (e_esize w_epoch) (e_ssize w_epoch) = true.
Proof. vm_compute. split; reflexivity. Qed.

(* ------------------------------------------------------------------ *)
(* First witness: t = 1e-20. *)

(* start_time > t >= end_time *)
Example w_owns : @epoch_owns NumF w_t w_epoch = true.
Proof. vm_compute. reflexivity. Qed.

(* t is strictly inside the epoch and positive *)
Example w_t_inside : @nlt NumF (e_end w_epoch) w_t = true /\ @nlt NumF w_t (e_start w_epoch) = true.
Proof. vm_compute. split; reflexivity. Qed.

(* t is NOT math.isclose to the epoch's end (rel_tol 1e-9, abs_tol 0) *)
Example w_not_close : @isclose0 NumF w_t (e_end w_epoch) = false.
Proof. vm_compute. reflexivity. Qed.

(* the weight (s - t) / (s - e) is exactly 1.0 *)
Example w_weight : weight w_epoch w_t = Ok 1%float.
Proof. vm_compute. reflexivity. Qed.

(* already the numerator: 1000 - 1e-20 rounds to 1000 *)
Example w_numerator : (1000 - w_t)%float = 1000%float.
Proof. vm_compute. reflexivity. Qed.

(* ss + (es - ss) is not es: double rounding *)
Example w_double_rounding :
  (w_ss + (w_es - w_ss))%float = w_v /\ PrimFloat.ltb w_v w_es = true /\
  next_down (next_down w_es) = w_v.
Proof. vm_compute. repeat split. Qed.

Example w_size_in_epoch : @size_in_epoch NumF w_epoch w_t = Ok w_v.
Proof. vm_compute. reflexivity. Qed.

Example w_size_at : @size_at NumF w_deme w_t = Ok w_v.
Proof. vm_compute. reflexivity. Qed.

(* the result is strictly below BOTH sizes *)
Example w_below : @nlt NumF w_v (e_esize w_epoch) = true /\ @nlt NumF w_v (e_ssize w_epoch) = true.
Proof. vm_compute. split; reflexivity. Qed.

(* hence the boolean conclusion of size_between_linear_R is false *)
Example w_not_between :
  (@nle NumF (e_ssize w_epoch) w_v && @nle NumF w_v (e_esize w_epoch) = false) /\
  (@nle NumF (e_esize w_epoch) w_v && @nle NumF w_v (e_ssize w_epoch) = false).
Proof. vm_compute. split; reflexivity. Qed.

(* ------------------------------------------------------------------ *)
(* Second witness: t = 5e-324, the float next to the epoch's end. *)

Definition w_t2 : PrimFloat.float := 0x1p-1074%float.

Example w2_adjacent : next_up (e_end w_epoch) = w_t2.
Proof. vm_compute. reflexivity. Qed.

Example w2_owns : @epoch_owns NumF w_t2 w_epoch = true.
Proof. vm_compute. reflexivity. Qed.

Example w2_not_close : @isclose0 NumF w_t2 (e_end w_epoch) = false.
Proof. vm_compute. reflexivity. Qed.

Example w2_weight : weight w_epoch w_t2 = Ok 1%float.
Proof. vm_compute. reflexivity. Qed.

Example w2_size_at : @size_at NumF w_deme w_t2 = Ok w_v.
Proof. vm_compute. reflexivity. Qed.

(* ------------------------------------------------------------------ *)
(* The refutation: all the hypotheses of size_between_linear_R / size_at_between_R, and the
   negation of their conclusion. *)

Theorem size_between_linear_refuted_F :
  exists (d : @deme NumF) (e : @epoch NumF) (t v : @num NumF),
    In e (d_epochs d) /\ @ValidEpoch NumF e /\ e_sf e = "linear" /\
    @epoch_owns NumF t e = true /\ @isclose0 NumF t (e_end e) = false /\
    @size_at NumF d t = Ok v /\
    @nlt NumF v (e_esize e) = true /\ @nlt NumF v (e_ssize e) = true.
Proof.
  exists w_deme, w_epoch, w_t, w_v.
  split; [exact w_epoch_in|]. split; [exact w_epoch_valid|]. split; [exact w_epoch_linear|].
  split; [exact w_owns|]. split; [exact w_not_close|]. split; [exact w_size_at|].
  exact w_below.
Qed.

(* the same with the nearest neighbour of the end time *)
Theorem size_between_linear_refuted_next_F :
  exists (d : @deme NumF) (e : @epoch NumF) (t v : @num NumF),
    In e (d_epochs d) /\ @ValidEpoch NumF e /\ e_sf e = "linear" /\
    t = next_up (e_end e) /\
    @epoch_owns NumF t e = true /\ @isclose0 NumF t (e_end e) = false /\
    @size_at NumF d t = Ok v /\
    @nlt NumF v (e_esize e) = true /\ @nlt NumF v (e_ssize e) = true.
Proof.
  exists w_deme, w_epoch, w_t2, w_v.
  split; [exact w_epoch_in|]. split; [exact w_epoch_valid|]. split; [exact w_epoch_linear|].
  split; [symmetry; exact w2_adjacent|].
  split; [exact w2_owns|]. split; [exact w2_not_close|]. split; [exact w2_size_at|].
  exact w_below.
Qed.

(* In the exact shape of the real-number theorems: their statements, transported to NumF, are
   false.  size_between_linear_R at NumF: *)
Theorem size_between_linear_statement_false_F :
  ~ (forall (e : @epoch NumF) (t v : @num NumF),
       @ValidEpoch NumF e -> e_sf e = "linear" -> @epoch_owns NumF t e = true ->
       @size_in_epoch NumF e t = Ok v ->
       (@nle NumF (e_ssize e) v && @nle NumF v (e_esize e) = true) \/
       (@nle NumF (e_esize e) v && @nle NumF v (e_ssize e) = true)).
Proof.
  intro H.
  destruct (H w_epoch w_t w_v w_epoch_valid w_epoch_linear w_owns w_size_in_epoch) as [C|C];
    vm_compute in C; discriminate C.
Qed.

(* size_at_between_R at NumF: *)
Theorem size_at_between_statement_false_F :
  ~ (forall (d : @deme NumF) (t v : @num NumF),
       (forall e, In e (d_epochs d) -> @ValidEpoch NumF e) ->
       @size_at NumF d t = Ok v ->
       v = @n0 NumF
       \/ (exists e es', d_epochs d = e :: es' /\ v = e_ssize e /\ @nisinf NumF t = true)
       \/ (exists e, In e (d_epochs d) /\ @epoch_owns NumF t e = true /\
             ((@nle NumF (e_ssize e) v && @nle NumF v (e_esize e) = true) \/
              (@nle NumF (e_esize e) v && @nle NumF v (e_ssize e) = true)))).
Proof.
  intro H.
  destruct (H w_deme w_t w_v w_deme_epochs_valid w_size_at)
    as [C | [(e & es' & _ & _ & C) | (e & Hin & _ & C)]].
  - apply (f_equal (fun x => PrimFloat.eqb x w_v)) in C. vm_compute in C. discriminate C.
  - vm_compute in C. discriminate C.
  - destruct Hin as [<-|[]]. destruct C as [C|C]; vm_compute in C; discriminate C.
Qed.

Print Assumptions w_epoch_valid.
Print Assumptions size_between_linear_refuted_F.
Print Assumptions size_between_linear_refuted_next_F.
Print Assumptions size_between_linear_statement_false_F.
Print Assumptions size_at_between_statement_false_F.
