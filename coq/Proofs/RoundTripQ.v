(* C09 over exact rational arithmetic.  Every arithmetic hypothesis of ms_round_trip_rates
   (Proofs/MsRoundTrip.v, record RoundTripArith) holds over the instance NumQ (Base/NumQ.v) when
   N0 is a positive finite number, T a non-negative finite number: over NumQ the theorem has no
   arithmetic hypothesis left (ms_round_trip_rates_Q).  The finiteness and non-negativity of the
   event times and of the rates are derived from the validity of the graph. *)
From Coq Require Import Bool List String QArith Qabs Lqa Lia Arith Permutation.
From Demes Require Import Base.Num Base.NumQ Base.Py Model.MDM Model.InGen Model.MigMat Model.MsOpt
  Model.ToMs Model.FromMs Spec.Valid Spec.MsSem Proofs.ResolveInv Proofs.InGenProofs Proofs.InGenQ
  Proofs.MsProofs Proofs.MsRates Proofs.FromMsRefine Proofs.FromMsHistory Proofs.FromMsRates
  Proofs.MsRoundTrip Proofs.Examples2 Proofs.Examples3.
Import ListNotations.
Local Open Scope string_scope.
Local Open Scope list_scope.

(* ====================================================================================== *)
(* 1. Counts, division by a count, division by 4*N0                                       *)

(* the count k over NumQ is the rational k (an int) *)
Lemma nat_num_Q k : exists q, @nat_num NumQ k = QF q true /\ (q == inject_Z (Z.of_nat k))%Q.
Proof.
  induction k as [|k [q [E Hq]]].
  - exists 0%Q. split; reflexivity.
  - exists (q + 1)%Q. split.
    + change (@nat_num NumQ (S k)) with (qx_add (@nat_num NumQ k) (QF 1 true)). rewrite E. reflexivity.
    + rewrite Hq, Nat2Z.inj_succ. unfold Z.succ. rewrite inject_Z_plus. reflexivity.
Qed.

Lemma nat_num_Q_pos k : (1 <= k)%nat -> exists q, @nat_num NumQ k = QF q true /\ (0 < q)%Q.
Proof.
  intro Hk. destruct (nat_num_Q k) as (q & E & Hq). exists q. split; [exact E|].
  rewrite Hq. change 0%Q with (inject_Z 0). rewrite <- Zlt_Qlt. lia.
Qed.

Theorem divlaw_Q : @DivLaw NumQ.
Proof.
  intros x k Ox Hk. destruct (nat_num_Q k) as (q & E & _). rewrite E in *.
  change (Qeq_bool q 0 = false) in Hk.
  destruct x as [a i| | |]; try discriminate Ox.
  - change (qx_isnan (if Qeq_bool q 0 then QNaN else QF (a / q) false) = false). now rewrite Hk.
  - change (qx_isnan (qx_signed_inf q) = false). unfold qx_signed_inf. rewrite Hk.
    destruct (Qlt_bool 0 q); reflexivity.
  - change (qx_isnan (qx_signed_inf (- q)) = false). unfold qx_signed_inf.
    destruct (Qeq_bool (- q) 0) eqn:E2.
    + apply Qeq_bool_iff in E2. apply Qeq_bool_false in Hk. exfalso. apply Hk. lra.
    + destruct (Qlt_bool 0 (- q)); reflexivity.
Qed.

Theorem zero_div_Q : forall k, (1 <= k)%nat -> neqb (ndiv (@n0 NumQ) (nat_num k)) n0 = true.
Proof.
  intros k Hk. destruct (nat_num_Q_pos k Hk) as (q & E & Hq). rewrite E.
  change (@ndiv NumQ) with qx_div. change (@n0 NumQ) with (QF 0 true).
  rewrite (qx_div_pos q true _ Hq).
  change (Qeq_bool (0 / q) 0 = true). apply Qeq_bool_iff. field. lra.
Qed.

(* dv divides by nmul n4 N0 = QF (4*r) _ *)
Lemma dv_Q r i x : (0 < r)%Q ->
  @dv NumQ (QF r i) x = match x with
                        | QF a _ => QF (a / (4 * r)) false
                        | QPInf => QPInf
                        | QNInf => QNInf
                        | QNaN => QNaN
                        end.
Proof.
  intro Hr. change (@dv NumQ (QF r i) x) with (qx_div x (QF (4 * r) (true && i))).
  apply qx_div_pos. lra.
Qed.

Lemma Qle_bool_div_pos c a b : (0 < c)%Q -> Qle_bool (a / c) (b / c) = Qle_bool a b.
Proof.
  intro H. apply eq_true_iff_eq. rewrite !Qle_bool_iff.
  assert (Ea : (a == c * (a / c))%Q) by (field; lra).
  assert (Eb : (b == c * (b / c))%Q) by (field; lra).
  split; intro X.
  - rewrite Ea, Eb. nra.
  - rewrite Ea, Eb in X. nra.
Qed.

Lemma Qeq_bool_div_pos c a b : (0 < c)%Q -> Qeq_bool (a / c) (b / c) = Qeq_bool a b.
Proof.
  intro H. apply eq_true_iff_eq. rewrite !Qeq_bool_iff. split; intro E.
  - assert (Ea : (a == c * (a / c))%Q) by (field; lra).
    assert (Eb : (b == c * (b / c))%Q) by (field; lra).
    rewrite Ea, Eb, E. reflexivity.
  - rewrite E. reflexivity.
Qed.

(* exact division by the positive rational 4*r maps numbers to numbers and preserves <=, <, == *)
Theorem div_mono_Q (r : Q) (i : bool) (ts : list qx) : (0 < r)%Q -> @DivMono NumQ (QF r i) ts.
Proof.
  intro Hr. assert (Hc : (0 < 4 * r)%Q) by lra. split.
  - intros a _ Oa. rewrite (dv_Q r i a Hr). destruct a; try reflexivity. exact Oa.
  - intros a b _ _ Oa Ob. rewrite (dv_Q r i a Hr), (dv_Q r i b Hr).
    destruct a as [a j| | |], b as [b k| | |]; try discriminate Oa; try discriminate Ob;
      try (repeat split; reflexivity).
    change ((Qle_bool (a / (4 * r)) (b / (4 * r)) = Qle_bool a b) /\
            (negb (Qle_bool (b / (4 * r)) (a / (4 * r))) = negb (Qle_bool b a)) /\
            (Qeq_bool (a / (4 * r)) (b / (4 * r)) = Qeq_bool a b)).
    rewrite !Qle_bool_div_pos, Qeq_bool_div_pos by exact Hc. repeat split.
Qed.

(* ====================================================================================== *)
(* 2. RoundTripArith over NumQ                                                            *)

(* a finite number; a finite non-negative number *)
Definition finQ (x : qx) : Prop := exists q j, x = QF q j.
Definition finnnQ (x : qx) : Prop := exists q j, x = QF q j /\ (0 <= q)%Q.

Lemma scale_Q r i x : (0 < r)%Q ->
  @scale NumQ (QF r i) x = match x with
                           | QF a j => QF (4 * r * a) (true && i && j)
                           | QPInf => QPInf
                           | QNInf => QNInf
                           | QNaN => QNaN
                           end.
Proof.
  intro Hr. change (@scale NumQ (QF r i) x) with (qx_mul (QF (4 * r) (true && i)) x).
  apply qx_mul_pos. lra.
Qed.

Lemma dv_nonneg_Q r i t : (0 < r)%Q -> finnnQ t -> nle (@n0 NumQ) (dv (QF r i) t) = true.
Proof.
  intros Hr (q & j & -> & Hq). rewrite (dv_Q r i _ Hr).
  change (Qle_bool 0 (q / (4 * r)) = true). apply Qle_bool_iff.
  apply Qle_shift_div_l; lra.
Qed.

Lemma scale_dv_Q r i t : (0 < r)%Q -> finnnQ t ->
  nle (@n0 NumQ) (scale (QF r i) (dv (QF r i) t)) = true /\
  nisinf (scale (QF r i) (dv (QF r i) t)) = false.
Proof.
  intros Hr (q & j & -> & Hq). rewrite (dv_Q r i _ Hr), (scale_Q r i _ Hr). split; [|reflexivity].
  change (Qle_bool 0 (4 * r * (q / (4 * r))) = true). apply Qle_bool_iff.
  assert (E : (4 * r * (q / (4 * r)) == q)%Q) by (field; lra). rewrite E. exact Hq.
Qed.

Theorem round_trip_arith_Q (r : Q) (i : bool) (T : qx) (times rates : list qx) :
  (0 < r)%Q -> finnnQ T -> (forall t, In t times -> finnnQ t) -> (forall x, In x rates -> finQ x) ->
  @RoundTripArith NumQ (QF r i) T times rates.
Proof.
  intros Hr HT Ht HR. constructor.
  - exact mul_one_Q.
  - exact divlaw_Q.
  - exact zero_div_Q.
  - apply div_mono_Q, Hr.
  - apply scale_mono_Q, Hr.
  - intros t Hin. apply dv_nonneg_Q; auto.
  - intros t Hin. apply scale_dv_Q; auto.
  - apply dv_nonneg_Q; auto.
  - apply scale_dv_Q; auto.
  - apply scale_dv_Q; auto.
  - intros x Hx. destruct (HR x Hx) as (q & j & ->). reflexivity.
Qed.

(* ====================================================================================== *)
(* 3. The times to_ms emits are times of the graph; in a valid graph they are finite and
      not negative (any NumOps)                                                           *)
Section Times.
  Context {N : NumOps} {L : NumLaws N}.

  (* the times of g that to_ms turns into events: epoch ends, pulse times, start times of the
     demes that have ancestors, finite migration start times, migration end times *)
  Definition GTime (g : graph) (t : num) : Prop :=
    (exists d ep, In d (g_demes g) /\ In ep (d_epochs d) /\ t = e_end ep) \/
    (exists p, In p (g_pulses g) /\ t = p_time p) \/
    (exists d, In d (g_demes g) /\ d_anc d <> [] /\ t = d_start d) \/
    (exists m, In m (g_migs g) /\ nisinf (m_start m) = false /\ t = m_start m) \/
    (exists m, In m (g_migs g) /\ t = m_end m).

  Lemma gtime_fin g t : Valid g -> GTime g t -> ok t /\ nle n0 t = true /\ nisinf t = false.
  Proof.
    intros V [(d & ep & Hd & Hep & ->)|[(p & Hp & ->)|[(d & Hd & Hne & ->)|[(m & Hm & Hf & ->)|(m & Hm & ->)]]]].
    - destruct (ValidDemes_in _ _ _ (v_demes _ V) Hd) as [e' Vd].
      pose proof (vd_epochs _ _ Vd ep Hep) as Ve.
      pose proof (ve_end_nonneg _ Ve) as H1. pose proof (ve_end_fin _ Ve) as H2.
      split; [apply le_true in H1; tauto|]. split; assumption.
    - destruct (vp_time _ _ (v_pulses _ V p Hp)) as [H1 H2].
      assert (ok (p_time p)) as O by (apply lt_true in H1; tauto).
      split; [exact O|]. split; [|exact H2]. pose proof ok_0. nord.
    - destruct (ValidDemes_in _ _ _ (v_demes _ V) Hd) as [e' Vd].
      pose proof (vd_start _ _ Vd) as H1.
      assert (ok (d_start d)) as O by (apply lt_true in H1; tauto).
      split; [exact O|]. split; [pose proof ok_0; nord|].
      destruct (nisinf (d_start d)) eqn:E; [|reflexivity].
      exfalso. apply Hne. now apply (vd_root _ _ Vd).
    - pose proof (v_migs _ V m Hm) as Vm.
      pose proof (vm_order _ _ Vm) as H1. pose proof (vm_end_nonneg _ _ Vm) as H2.
      assert (ok (m_start m) /\ ok (m_end m)) as [O1 O2] by (apply lt_true in H1; tauto).
      split; [exact O1|]. split; [pose proof ok_0; nord|exact Hf].
    - pose proof (v_migs _ V m Hm) as Vm.
      pose proof (vm_end_nonneg _ _ Vm) as H2.
      split; [apply le_true in H2; tauto|]. split; [exact H2|exact (vm_end_fin _ _ Vm)].
  Qed.

  Lemma unscaled_times g0 g N0 n evs :
    in_generations g0 = Ok g -> to_ms_unscaled g0 N0 = Ok (n, evs) ->
    forall e, In e evs -> exists t, ev_time e = nfloat t /\ GTime g t.
  Proof.
    intros Hg H. unfold to_ms_unscaled in H. rewrite Hg in H. cbn [bind] in H. cbv zeta in H.
    mbind H sz Hsz. mbind H sj Hsj. mbind H off Hoff. mbind H on Hon.
    injection H as <- <-.
    set (names := map d_name (g_demes g)) in *.
    set (n := List.length (g_demes g)) in *.
    change (foldM (sz_step N0 (nmul n4 N0)) (g_demes g) ([], 1%nat) = Ok sz) in Hsz.
    apply sz_fold in Hsz. destruct Hsz as (esz & Esz & Psz). cbn [fst snd app] in Esz, Psz.
    set (dps := sort_dp (map DP_pulse (rev (g_pulses g)) ++ map DP_deme (g_demes g))) in *.
    change (foldM (sj_step names) dps ([], n) = Ok sj) in Hsj.
    assert (forall x, In x dps -> In x (map DP_pulse (rev (g_pulses g)) ++ map DP_deme (g_demes g))) as Hdps.
    { intros x Hx. unfold dps in Hx. rewrite sort_dp_g in Hx.
      apply (Permutation_in _ (gsort_perm dp_time _)). exact Hx. }
    set (Q := fun e : msev => exists t, ev_time e = nfloat t /\ GTime g t).
    assert (forall e, In e (fst sj) -> Q e) as Qsj.
    { refine (foldM_inv_in (sj_step names) (fun acc => forall e, In e (fst acc) -> Q e) dps _ ([], n) sj _ Hsj).
      2:{ intros e []. }
      intros s x s' Hx Hs X. apply Hdps in Hx. apply in_app_or in Hx.
      destruct x as [d|p]; cbn [sj_step] in X.
      - assert (In d (g_demes g)) as Hd.
        { destruct Hx as [Hx|Hx]; apply in_map_iff in Hx; destruct Hx as (y & E & Hy);
            [discriminate|]. now injection E as <-. }
        mbind X self Hself. mbind X r Hr. injection X as <-. destruct r as [evs c']. cbn [fst snd] in *.
        intros e He. apply in_app_or in He. destruct He as [He|He]; [now apply Hs|].
        assert (d_anc d <> []) as Hne.
        { intro E. rewrite E in Hr. cbn in Hr. injection Hr as <- _. destruct He. }
        destruct (anc_events_spec _ _ _ _ _ _ _ _ Hr) as (_ & F1 & _).
        specialize (F1 e He). exists (d_start d). split.
        + destruct e; try contradiction; cbn [ev_time]; [exact F1|exact (proj1 F1)].
        + right. right. left. exists d. auto.
      - assert (In p (g_pulses g)) as Hp.
        { destruct Hx as [Hx|Hx]; apply in_map_iff in Hx; destruct Hx as (y & E & Hy);
            [|discriminate]. injection E as <-. now apply in_rev. }
        cbv zeta in X. mraise X Hc. mbind X dst Hdst. mbind X p0 Hp0. mbind X s0 Hs0.
        mbind X e1 He1. mbind X src Hsrc. mbind X e2 He2. injection X as <-. cbn [fst snd] in *.
        apply mk_s_inv in He1. apply mk_j_inv in He2. subst e1 e2.
        intros e He. apply in_app_or in He. destruct He as [He|[<-|[<-|[]]]]; [now apply Hs| |];
          exists (p_time p); (split; [reflexivity|]); right; left; exists p; auto. }
    change (foldM (off_step g names) (g_migs g) [] = Ok off) in Hoff.
    assert (forall e, In e off -> Q e) as Qoff.
    { refine (foldM_inv_in (off_step g names) (fun acc => forall e, In e acc -> Q e) (g_migs g) _ [] off _ Hoff).
      2:{ intros e []. }
      intros s m s' Hm Hs X. unfold off_step in X. mbind X dd Hdd. mbind X sd Hsd.
      destruct (nisinf (m_start m)) eqn:Ei; cbn [negb andb] in X.
      - now injection X as <-.
      - match type of X with (if ?c then _ else _) = _ => destruct c end.
        + mbind X a Ha. mbind X b Hb. mbind X e He. injection X as <-. apply mk_m_inv in He. subst e.
          intros e He. apply in_app_or in He. destruct He as [He|[<-|[]]]; [now apply Hs|].
          exists (m_start m). split; [reflexivity|]. right. right. right. left. exists m. auto.
        + now injection X as <-. }
    change (foldM (on_step names (nmul n4 N0)) (g_migs g) [] = Ok on) in Hon.
    apply on_fold_spec in Hon. destruct Hon as (Fon & _ & _).
    intros e He. apply (Permutation_in _ (sort_events_perm _)) in He.
    apply in_app_or in He. destruct He as [He|He].
    - rewrite Esz in He. destruct (Psz e He) as (_ & d & ep & Hd & Hep & Ht).
      exists (e_end ep). split; [exact Ht|]. left. exists d, ep. auto.
    - apply in_app_or in He. destruct He as [He|He]; [now apply Qsj|].
      apply in_app_or in He. destruct He as [He|He]; [now apply Qoff|].
      destruct (Fon e He) as [[]|(m & a & b & Hm & _ & _ & ->)].
      exists (m_end m). split; [reflexivity|]. right. right. right. right. exists m. auto.
  Qed.
End Times.

(* ====================================================================================== *)
(* 4. The round-trip theorem over NumQ, without arithmetic hypotheses                     *)

Lemma fin_nonneg_Q (t : qx) :
  @ok NumQ t -> nle (@n0 NumQ) t = true -> nisinf t = false -> finnnQ t.
Proof.
  intros O H F. destruct t as [q j| | |]; try discriminate O; try discriminate F.
  exists q, j. split; [reflexivity|]. apply Qle_bool_iff. exact H.
Qed.

Lemma finnnQ_float t : finnnQ t -> finnnQ (nfloat t).
Proof. intros (q & j & -> & H). exists q, false. split; [reflexivity|exact H]. Qed.

(* the event times of to_ms_unscaled on a valid graph are finite and not negative *)
Lemma unscaled_times_Q (g0 g : @graph NumQ) N0 n evs :
  in_generations g0 = Ok g -> Valid g -> to_ms_unscaled g0 N0 = Ok (n, evs) ->
  forall t, In t (map ev_time evs) -> finnnQ t.
Proof.
  intros Hg V H t Ht. apply in_map_iff in Ht. destruct Ht as (e & <- & He).
  destruct (unscaled_times g0 g N0 n evs Hg H e He) as (t & -> & Gt).
  destruct (gtime_fin g t V Gt) as (O & H0 & F).
  apply finnnQ_float, fin_nonneg_Q; assumption.
Qed.

(* the migration rates of a valid graph are finite *)
Lemma valid_rates_Q (g : @graph NumQ) :
  Valid g -> forall x, In x (map m_rate (g_migs g)) -> finQ x.
Proof.
  intros V x Hx. apply in_map_iff in Hx. destruct Hx as (m & <- & Hm).
  destruct (vm_rate _ _ (v_migs _ V m Hm)) as [H1 H2].
  destruct (m_rate m) as [q j| | |]; try discriminate H1; try discriminate H2.
  exists q, j. reflexivity.
Qed.

(* RoundTripArith, for the events to_ms emits for a valid graph *)
Theorem round_trip_arith_valid_Q (g0 g : @graph NumQ) r k T n evs :
  (0 < r)%Q -> finnnQ T ->
  in_generations g0 = Ok g -> Valid g -> to_ms_unscaled g0 (QF r k) = Ok (n, evs) ->
  @RoundTripArith NumQ (QF r k) T (map ev_time evs) (map m_rate (g_migs g)).
Proof.
  intros Hr HT Hg V H. apply round_trip_arith_Q; auto.
  - eapply unscaled_times_Q; eauto.
  - apply valid_rates_Q, V.
Qed.

(* C09 over exact arithmetic.  The statement of ms_round_trip_rates with N0 = QF r k, 0 < r, and
   T a finite non-negative number (which gives "ok T" and "0 <= T"); the premise RoundTripArith is
   gone: the event times and the rates are finite and not negative because g is valid. *)
Theorem ms_round_trip_rates_Q (g0 g : @graph NumQ) (r : Q) (k : bool) n evs evs' h T i j di dj :
  (0 < r)%Q -> finnnQ T ->
  let N0 : qx := QF r k in
  in_generations g0 = Ok g -> Valid g ->
  to_ms_unscaled g0 N0 = Ok (n, evs) ->
  to_ms_events g0 N0 = Ok (n, evs') ->
  build_graph (mkCmd n true n0 [] evs') N0 = Ok h ->
  nth_error (g_demes g) i = Some di -> nth_error (g_demes g) j = Some dj -> i <> j ->
  nlt T (d_start di) = true -> nlt T (d_start dj) = true ->
  let T' := dv N0 T in
  let back := gmigs_in_force h (deme_name (S j)) (deme_name (S i)) (scale N0 T') in
  match active_mig g (d_name dj) (d_name di) T with
  | Some m =>
      let x := nfloat (nmul (nmul n4 N0) (m_rate m)) in
      if neqb x n0 then back = []
      else exists m' y, back = [m'] /\ neqb y x = true /\ m_rate m' = ndiv y (nmul n4 N0)
  | None => back = []
  end.
Proof.
  intros Hr HT N0 Hg V Hun Hev Hbg Hdi Hdj Hij HTi HTj.
  assert (@ok NumQ T /\ nle (@n0 NumQ) T = true) as [OT HT0].
  { destruct HT as (q & jT & -> & Hq). split; [reflexivity|]. apply Qle_bool_iff. exact Hq. }
  exact (@ms_round_trip_rates NumQ NumQLaws g0 g N0 n evs evs' h T i j di dj Hg V Hun Hev
           (round_trip_arith_valid_Q g0 g r k T n evs Hr HT Hg V Hun)
           Hbg Hdi Hdj Hij OT HT0 HTi HTj).
Qed.

(* Read in rational numbers: the migration of the pair in force at T has a finite rate a; if
   a = 0 no migration of the pair comes back, otherwise exactly one comes back and its rate is a:
   (4*N0*a)/(4*N0) = a in exact arithmetic. *)
Theorem ms_round_trip_rate_exact_Q (g0 g : @graph NumQ) (r : Q) (k : bool) n evs evs' h T i j di dj m :
  (0 < r)%Q -> finnnQ T ->
  let N0 : qx := QF r k in
  in_generations g0 = Ok g -> Valid g ->
  to_ms_unscaled g0 N0 = Ok (n, evs) ->
  to_ms_events g0 N0 = Ok (n, evs') ->
  build_graph (mkCmd n true n0 [] evs') N0 = Ok h ->
  nth_error (g_demes g) i = Some di -> nth_error (g_demes g) j = Some dj -> i <> j ->
  nlt T (d_start di) = true -> nlt T (d_start dj) = true ->
  active_mig g (d_name dj) (d_name di) T = Some m ->
  let back := gmigs_in_force h (deme_name (S j)) (deme_name (S i)) (scale N0 (dv N0 T)) in
  exists a ja, m_rate m = QF a ja /\
    ((a == 0)%Q -> back = []) /\
    (~ (a == 0)%Q -> exists m' a', back = [m'] /\ m_rate m' = QF a' false /\ (a' == a)%Q).
Proof.
  intros Hr HT N0 Hg V Hun Hev Hbg Hdi Hdj Hij HTi HTj Hact back.
  pose proof (ms_round_trip_rates_Q g0 g r k n evs evs' h T i j di dj Hr HT Hg V Hun Hev Hbg
                Hdi Hdj Hij HTi HTj) as H.
  cbv zeta in H. fold N0 in H. fold back in H. rewrite Hact in H.
  assert (In m (g_migs g)) as Hm by (unfold active_mig in Hact; apply find_some in Hact; tauto).
  destruct (valid_rates_Q g V (m_rate m) (in_map _ _ _ Hm)) as (a & ja & Ea).
  exists a, ja. split; [exact Ea|]. rewrite Ea in H.
  change (@nfloat NumQ (@nmul NumQ (@nmul NumQ (@n4 NumQ) N0) (QF a ja)))
    with (QF (4 * r * a)%Q false) in H.
  change (@neqb NumQ (QF (4 * r * a)%Q false) (@n0 NumQ)) with (Qeq_bool (4 * r * a)%Q 0%Q) in H.
  split.
  - intro Za. assert (Qeq_bool (4 * r * a)%Q 0%Q = true) as E by (apply Qeq_bool_iff; rewrite Za; ring).
    rewrite E in H. exact H.
  - intro Za. assert (Qeq_bool (4 * r * a)%Q 0%Q = false) as E.
    { destruct (Qeq_bool (4 * r * a)%Q 0%Q) eqn:E; [|reflexivity]. apply Qeq_bool_iff in E.
      exfalso. apply Za. nra. }
    rewrite E in H. destruct H as (m' & y & Hb & Hy & Hrate).
    destruct y as [b jb| | |]; try discriminate Hy.
    change (Qeq_bool b (4 * r * a)%Q = true) in Hy. apply Qeq_bool_iff in Hy.
    exists m', (b / (4 * r))%Q. split; [exact Hb|]. split.
    + rewrite Hrate.
      change (qx_div (QF b jb) (QF (4 * r)%Q (true && k)) = QF (b / (4 * r))%Q false).
      apply (qx_div_pos (4 * r)%Q (true && k) (QF b jb)). lra.
    + rewrite Hy. field. lra.
Qed.

(* ====================================================================================== *)
(* 5. A concrete instance: the graph of Proofs/Examples2.v (demes A, B, C; two adjacent
      migrations A -> B, (80, 40] at rate 1/1000 and (40, 10] at rate 1/500), N0 = 100      *)

Definition rt_ms : nat * list (@msev NumQ) :=
  Eval vm_compute in match to_ms_events ex2_g ex2_N0 with Ok x => x | Err _ => (0%nat, []) end.
Definition rt_evs' : list (@msev NumQ) := Eval vm_compute in snd rt_ms.
Example rt_to_ms_events : to_ms_events ex2_g ex2_N0 = Ok (ex2_n, rt_evs').
Proof. vm_compute. reflexivity. Qed.

(* the graph from_ms builds back from the command *)
Definition rt_h : @graph NumQ :=
  Eval vm_compute in match build_graph (mkCmd ex2_n true n0 [] rt_evs') ex2_N0 with
                     | Ok g => g | Err _ => ex2_dummy end.
Example rt_build_graph : build_graph (mkCmd ex2_n true n0 [] rt_evs') ex2_N0 = Ok rt_h.
Proof. vm_compute. reflexivity. Qed.

Lemma rt_N0_pos : (0 < 100 # 1)%Q.
Proof. reflexivity. Qed.

(* the hypotheses of ms_round_trip_rates_Q that depend on T and the pair *)
Definition rt_hyps (T : qx) (i j : nat) (di dj : @deme NumQ) : Prop :=
  finnnQ T /\ nth_error (g_demes ex2_gg) i = Some di /\ nth_error (g_demes ex2_gg) j = Some dj /\
  i <> j /\ nlt T (d_start di) = true /\ nlt T (d_start dj) = true.

Definition rt_back (T : qx) (i j : nat) : list (@mig NumQ) :=
  gmigs_in_force rt_h (deme_name (S j)) (deme_name (S i)) (scale ex2_N0 (dv ex2_N0 T)).

Lemma rt_round_trip T i j di dj :
  rt_hyps T i j di dj ->
  match active_mig ex2_gg (d_name dj) (d_name di) T with
  | Some m =>
      let x := nfloat (nmul (nmul n4 ex2_N0) (m_rate m)) in
      if neqb x n0 then rt_back T i j = []
      else exists m' y, rt_back T i j = [m'] /\ neqb y x = true /\ m_rate m' = ndiv y (nmul n4 ex2_N0)
  | None => rt_back T i j = []
  end.
Proof.
  intros (H1 & H2 & H3 & H4 & H5 & H6).
  exact (ms_round_trip_rates_Q ex2_g ex2_gg (100 # 1) true ex2_n ex2_evs rt_evs' rt_h T i j di dj
           rt_N0_pos H1 ex2_ingen ex2_gg_valid ex2_to_ms rt_to_ms_events rt_build_graph
           H2 H3 H4 H5 H6).
Qed.

Lemma rt_round_trip_exact T i j di dj m :
  rt_hyps T i j di dj -> active_mig ex2_gg (d_name dj) (d_name di) T = Some m ->
  exists a ja, m_rate m = QF a ja /\
    ((a == 0)%Q -> rt_back T i j = []) /\
    (~ (a == 0)%Q -> exists m' a', rt_back T i j = [m'] /\ m_rate m' = QF a' false /\ (a' == a)%Q).
Proof.
  intros (H1 & H2 & H3 & H4 & H5 & H6) Hact.
  exact (ms_round_trip_rate_exact_Q ex2_g ex2_gg (100 # 1) true ex2_n ex2_evs rt_evs' rt_h T i j di dj m
           rt_N0_pos H1 ex2_ingen ex2_gg_valid ex2_to_ms rt_to_ms_events rt_build_graph
           H2 H3 H4 H5 H6 Hact).
Qed.

Ltac rt_hyps_tac :=
  unfold rt_hyps; repeat (apply conj); try (vm_compute; reflexivity); try discriminate;
  try (eexists; eexists; split; [reflexivity|discriminate]).

(* --- T = 60, pair A -> B (i = 1, j = 0): the first migration (rate 1/1000) is in force --- *)
Example rt_hyps_T60 : rt_hyps ex2_T60 1 0 ex2_dB ex2_dA.
Proof. rt_hyps_tac. Qed.

(* the conclusion of ms_round_trip_rates_Q, by the theorem *)
Example rt_round_trip_T60 :
  let x := nfloat (nmul (nmul n4 ex2_N0) (m_rate ex2_m1)) in
  exists m' y, rt_back ex2_T60 1 0 = [m'] /\ neqb y x = true /\ m_rate m' = ndiv y (nmul n4 ex2_N0).
Proof.
  pose proof (rt_round_trip _ _ _ _ _ rt_hyps_T60) as H. rewrite ex2_active_T60 in H. exact H.
Qed.
(* the rate that comes back is the original one, by the theorem ... *)
Example rt_exact_T60 :
  exists m' a', rt_back ex2_T60 1 0 = [m'] /\ m_rate m' = QF a' false /\ (a' == 1 # 1000)%Q.
Proof.
  destruct (rt_round_trip_exact _ _ _ _ _ _ rt_hyps_T60 ex2_active_T60) as (a & ja & Ea & _ & H).
  injection Ea as <- _. apply H. discriminate.
Qed.
(* ... and by computation: the record of rt_h for (80, 40], as from_ms spells it *)
Example rt_value_T60 :
  rt_back ex2_T60 1 0 = [mkMig "deme1" "deme2" (QF (32000 # 400) false) (QF (16000 # 400) false)
                               (QF (400 # 400000) false)] /\
  neqb (QF (400 # 400000) false) (m_rate ex2_m1) = true.
Proof. split; vm_compute; reflexivity. Qed.

(* --- T = 20, same pair: the second migration (rate 1/500) is in force --- *)
Example rt_hyps_T20 : rt_hyps ex2_T20 1 0 ex2_dB ex2_dA.
Proof. rt_hyps_tac. Qed.
Example rt_round_trip_T20 :
  let x := nfloat (nmul (nmul n4 ex2_N0) (m_rate ex2_m2)) in
  exists m' y, rt_back ex2_T20 1 0 = [m'] /\ neqb y x = true /\ m_rate m' = ndiv y (nmul n4 ex2_N0).
Proof.
  pose proof (rt_round_trip _ _ _ _ _ rt_hyps_T20) as H. rewrite ex2_active_T20 in H. exact H.
Qed.
Example rt_exact_T20 :
  exists m' a', rt_back ex2_T20 1 0 = [m'] /\ m_rate m' = QF a' false /\ (a' == 1 # 500)%Q.
Proof.
  destruct (rt_round_trip_exact _ _ _ _ _ _ rt_hyps_T20 ex2_active_T20) as (a & ja & Ea & _ & H).
  injection Ea as <- _. apply H. discriminate.
Qed.
Example rt_value_T20 :
  rt_back ex2_T20 1 0 = [mkMig "deme1" "deme2" (QF (16000 # 400) false) (QF (4000 # 400) false)
                               (QF (400 # 200000) false)] /\
  neqb (QF (400 # 200000) false) (m_rate ex2_m2) = true.
Proof. split; vm_compute; reflexivity. Qed.

(* --- T = 90, same pair: no migration in force in ex2_gg, none comes back --- *)
Example rt_hyps_T90 : rt_hyps ex2_T90 1 0 ex2_dB ex2_dA.
Proof. rt_hyps_tac. Qed.
Example rt_round_trip_T90 : rt_back ex2_T90 1 0 = [].
Proof.
  pose proof (rt_round_trip _ _ _ _ _ rt_hyps_T90) as H. rewrite ex2_active_T90 in H. exact H.
Qed.

Print Assumptions divlaw_Q.
Print Assumptions zero_div_Q.
Print Assumptions div_mono_Q.
Print Assumptions round_trip_arith_Q.
Print Assumptions gtime_fin.
Print Assumptions unscaled_times.
Print Assumptions round_trip_arith_valid_Q.
Print Assumptions ms_round_trip_rates_Q.
Print Assumptions ms_round_trip_rate_exact_Q.
Print Assumptions rt_round_trip_T60.
Print Assumptions rt_exact_T60.
Print Assumptions rt_round_trip_T20.
Print Assumptions rt_exact_T20.
Print Assumptions rt_round_trip_T90.
