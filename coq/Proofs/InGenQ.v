(* C11 — in exact rational arithmetic (the NumQ instance) division by a positive finite generation
   time behaves like division of real numbers (DivOK), hence conversion to generations ALWAYS
   returns a valid graph: the failures F12a-c are rounding, overflow and underflow of binary64. *)
From Coq Require Import Bool List String QArith Qabs Lqa Arith Lia.
From Demes Require Import Base.Num Base.NumQ Base.Py Model.MDM Model.InGen Spec.Valid
  Proofs.InGenProofs Proofs.InGenValid.
Import ListNotations.
Local Open Scope string_scope.
Local Open Scope list_scope.
(* ================================================================== *)
(* PART A: exact division by a positive finite generation time behaves like division of real
   numbers, hence conversion to generations preserves validity over NumQ. *)

Local Open Scope Q_scope.

Lemma signed_inf_pos r : 0 < r -> qx_signed_inf r = QPInf.
Proof.
  intro H. unfold qx_signed_inf.
  destruct (Qeq_bool r 0) eqn:E; [apply Qeq_bool_iff in E; lra|].
  destruct (Qlt_bool 0 r) eqn:E2; [reflexivity|]. apply Qlt_bool_false in E2. lra.
Qed.

Lemma signed_inf_neg r : 0 < r -> qx_signed_inf (- r) = QNInf.
Proof.
  intro H. unfold qx_signed_inf.
  destruct (Qeq_bool (- r) 0) eqn:E; [apply Qeq_bool_iff in E; lra|].
  destruct (Qlt_bool 0 (- r)) eqn:E2; [|reflexivity]. apply Qlt_bool_true in E2. lra.
Qed.

(* division by a positive finite number, case by case *)
Lemma qx_div_pos r i x : 0 < r ->
  qx_div x (QF r i) = match x with
                      | QF a _ => QF (a / r) false
                      | QPInf => QPInf
                      | QNInf => QNInf
                      | QNaN => QNaN
                      end.
Proof.
  intro H. destruct x as [a j| | |]; cbn.
  - destruct (Qeq_bool r 0) eqn:E; [apply Qeq_bool_iff in E; lra|reflexivity].
  - apply signed_inf_pos, H.
  - apply signed_inf_neg, H.
  - reflexivity.
Qed.

Lemma sq_lt_inv a b : sq a < sq b -> a < b.
Proof.
  intro H. destruct (Qlt_le_dec a b) as [L|L]; [assumption|].
  apply sq_le in L. lra.
Qed.

Lemma sq_eq_inv a b : sq a == sq b -> a == b.
Proof.
  intro H. destruct (Qeq_dec a b) as [E|E]; [assumption|].
  apply sq_inj in E. contradiction.
Qed.

Lemma Qdiv_lt_pos a b r : 0 < r -> a < b -> a / r < b / r.
Proof.
  intros Hr H. unfold Qdiv. apply Qmult_lt_compat_r; [|assumption].
  apply Qinv_lt_0_compat, Hr.
Qed.

Theorem divok_Q (r : Q) (isint : bool) (ts : list qx) :
  0 < r -> @DivOK NumQ NumQLaws (QF r isint) ts.
Proof.
  intro Hr. constructor.
  - (* dk_ok *)
    intros x _ Ox. change (@ndiv NumQ) with qx_div. rewrite (qx_div_pos r isint x Hr).
    destruct x; [reflexivity|reflexivity|reflexivity|exact Ox].
  - (* dk_mono *)
    intros x y _ _ Ox Oy H. change (@ndiv NumQ) with qx_div.
    rewrite (qx_div_pos r isint x Hr), (qx_div_pos r isint y Hr).
    destruct x as [a i| | |], y as [b j| | |]; try discriminate Ox; try discriminate Oy;
      try exact H.
    change (sq (a / r) < sq (b / r)). change (sq a < sq b) in H.
    apply sq_lt, Qdiv_lt_pos; [assumption|]. apply sq_lt_inv, H.
    + change (sq (a / r) < 1). apply sq_range.
    + change (sq a < -1) in H. pose proof (sq_range a). lra.
    + change (1 < sq b) in H. pose proof (sq_range b). lra.
    + change (-1 < sq (b / r)). apply sq_range.
  - (* dk_eq *)
    intros x y _ _ Ox Oy H. change (@ndiv NumQ) with qx_div.
    rewrite (qx_div_pos r isint x Hr), (qx_div_pos r isint y Hr).
    destruct x as [a i| | |], y as [b j| | |]; try discriminate Ox; try discriminate Oy;
      try exact H.
    change (sq (a / r) == sq (b / r)). change (sq a == sq b) in H.
    apply sq_eq. apply sq_eq_inv in H. rewrite H. reflexivity.
    + change (sq a == 1) in H. pose proof (sq_range a). lra.
    + change (sq a == -1) in H. pose proof (sq_range a). lra.
    + change (1 == sq b) in H. pose proof (sq_range b). lra.
    + change (-1 == sq b) in H. pose proof (sq_range b). lra.
  - (* dk_fin *)
    intros x _ H. change (@ndiv NumQ) with qx_div. rewrite (qx_div_pos r isint x Hr).
    destruct x; try discriminate H; reflexivity.
  - (* dk_inf *)
    intros x _ H P. change (@ndiv NumQ) with qx_div. rewrite (qx_div_pos r isint x Hr).
    destruct x; try discriminate H; try discriminate P. split; reflexivity.
  - (* dk_zero *)
    intros x _ H. change (@ndiv NumQ) with qx_div. rewrite (qx_div_pos r isint x Hr).
    destruct x as [a i| | |]; try discriminate H.
    change (Qeq_bool a 0 = true) in H. apply Qeq_bool_iff in H.
    change (Qeq_bool (a / r) 0 = true). apply Qeq_bool_iff. rewrite H. field. lra.
Qed.

(* a positive finite NumQ number is QF r _ with 0 < r *)
Lemma pos_fin_Q (x : qx) : @pos_fin NumQ x -> exists r i, x = QF r i /\ 0 < r.
Proof.
  intros [H1 H2]. destruct x as [a i| | |]; try discriminate H1; try discriminate H2.
  exists a, i. split; [reflexivity|]. apply Qlt_bool_true. exact H1.
Qed.

Theorem ingen_valid_Q (g h : @graph NumQ) :
  @Valid NumQ g -> in_generations g = Ok h -> @Valid NumQ h.
Proof.
  intros HV H.
  destruct (pos_fin_Q _ (v_gt g HV)) as (r & i & E & Hr).
  apply (@ingen_valid NumQ NumQLaws g h HV); [|exact H].
  rewrite E. apply divok_Q, Hr.
Qed.

Local Close Scope Q_scope.

Print Assumptions divok_Q.
Print Assumptions ingen_valid_Q.
