(* C16 / C04 (data level): strict JSON data, "Infinity" strings, nulls; dump then load. *)
From Coq Require Import Bool List String QArith Lqa Arith Lia.
From Demes Require Import Base.Num Base.Py Model.MDM Model.Codec Model.MigMat Model.Resolve
  Model.Simplify Model.IO Spec.Valid Proofs.MigMatProofs Proofs.FixedPoint.
Import ListNotations.
Local Open Scope string_scope.
Local Open Scope list_scope.

Local Arguments String.eqb : simpl never.

Section IOProofs.
  Context {N : NumOps} {L : NumLaws N}.

  (* no infinite / NaN number anywhere inside a value *)
  Fixpoint finite_jv (v : jv) : bool :=
    match v with
    | JNum x => negb (nisinf x) && negb (nisnan x)
    | JList l => forallb finite_jv l
    | JDict kv => forallb (fun p => finite_jv (snd p)) kv
    | _ => true
    end.
  (* ... anywhere outside the top-level metadata *)
  Definition strict_outside_meta (d : jv) : bool :=
    match d with
    | JDict kv => forallb (fun p => String.eqb (fst p) "metadata" || finite_jv (snd p)) kv
    | _ => finite_jv d
    end.

  (* ------------------------------------------------------------------ *)
  (* dictionaries *)
  Lemma assoc_in {A} k (kv : list (string * A)) v : assoc k kv = Some v -> In (k, v) kv.
  Proof.
    induction kv as [|[k' w] kv IH]; cbn; [discriminate|].
    destruct (String.eqb k k') eqn:E.
    - apply String.eqb_eq in E. subst. intros [= ->]. now left.
    - intro H. right. auto.
  Qed.

  Lemma assoc_none {A} k (kv : list (string * A)) : assoc k kv = None <-> ~ In k (map fst kv).
  Proof.
    induction kv as [|[k' w] kv IH]; cbn; [tauto|].
    destruct (String.eqb k k') eqn:E.
    - apply String.eqb_eq in E. subst. split; [discriminate|]. intro H. exfalso. apply H. now left.
    - apply String.eqb_neq in E. rewrite IH. split; intro H; [intros [H1|H1]; [congruence|tauto]|tauto].
  Qed.

  Lemma in_assoc {A} k (kv : list (string * A)) v :
    NoDup (map fst kv) -> In (k, v) kv -> assoc k kv = Some v.
  Proof.
    induction kv as [|[k' w] kv IH]; cbn; [tauto|]. intros ND [H|H].
    - injection H as -> ->. now rewrite String.eqb_refl.
    - inversion ND as [|? ? Hn ND']; subst. destruct (String.eqb k k') eqn:E.
      + apply String.eqb_eq in E. subst. exfalso. apply Hn. apply in_map_iff. now exists (k', v).
      + auto.
  Qed.

  Lemma dr_fst k v kv : map fst (dict_replace k v kv) = map fst kv.
  Proof.
    induction kv as [|[k' w] kv IH]; cbn; [reflexivity|].
    destruct (String.eqb k k'); cbn; [reflexivity|]. now rewrite IH.
  Qed.

  Lemma dr_same k v kv : assoc k kv = Some v -> dict_replace k v kv = kv.
  Proof.
    induction kv as [|[k' w] kv IH]; cbn; [reflexivity|].
    destruct (String.eqb k k'); [now intros [= ->]|]. intro H. now rewrite IH.
  Qed.

  Lemma dr_none k v kv : assoc k kv = None -> dict_replace k v kv = kv.
  Proof.
    induction kv as [|[k' w] kv IH]; cbn; [reflexivity|].
    destruct (String.eqb k k'); [discriminate|]. intro H. now rewrite IH.
  Qed.

  Lemma dr_dr k v w kv : dict_replace k v (dict_replace k w kv) = dict_replace k v kv.
  Proof.
    induction kv as [|[k' u] kv IH]; cbn; [reflexivity|].
    destruct (String.eqb k k') eqn:E; cbn; rewrite E; [reflexivity|]. now rewrite IH.
  Qed.

  Lemma dr_comm k k' v w kv : k <> k' ->
    dict_replace k v (dict_replace k' w kv) = dict_replace k' w (dict_replace k v kv).
  Proof.
    intro Hne. induction kv as [|[k2 u] kv IH]; cbn; [reflexivity|].
    destruct (String.eqb k' k2) eqn:E'; destruct (String.eqb k k2) eqn:E; cbn; rewrite ?E, ?E'; try reflexivity.
    - apply String.eqb_eq in E, E'. congruence.
    - now rewrite IH.
  Qed.

  Lemma assoc_dr_same k v w kv : assoc k kv = Some w -> assoc k (dict_replace k v kv) = Some v.
  Proof.
    induction kv as [|[k' u] kv IH]; cbn; [discriminate|].
    destruct (String.eqb k k') eqn:E; cbn; rewrite E; auto.
  Qed.

  Lemma assoc_dr_other k k' v kv : k <> k' -> assoc k' (dict_replace k v kv) = assoc k' kv.
  Proof.
    intro Hne. induction kv as [|[k2 u] kv IH]; cbn; [reflexivity|].
    destruct (String.eqb k k2) eqn:E; cbn; [|now rewrite IH].
    apply String.eqb_eq in E. subst k2. apply String.eqb_neq in Hne.
    rewrite String.eqb_sym in Hne. now rewrite Hne.
  Qed.

  Lemma in_dr k v kv p :
    NoDup (map fst kv) -> In p (dict_replace k v kv) -> p = (k, v) \/ (In p kv /\ fst p <> k).
  Proof.
    induction kv as [|[k' u] kv IH]; cbn; [tauto|]. intros ND H.
    inversion ND as [|? ? Hn ND']; subst.
    destruct (String.eqb k k') eqn:E.
    - apply String.eqb_eq in E. subst k'. destruct H as [H|H]; [now left|].
      right. split; [now right|]. intros Hk. apply Hn. apply in_map_iff. exists p. auto.
    - apply String.eqb_neq in E. destruct H as [H|H].
      + right. subst p. split; [now left|]. cbn. congruence.
      + destruct (IH ND' H) as [H1|[H1 H2]]; [now left|]. right. split; [now right|exact H2].
  Qed.

  Lemma mapM_length {A B} (f : A -> res B) l l' : mapM f l = Ok l' -> List.length l' = List.length l.
  Proof.
    revert l'. induction l as [|a l IH]; cbn; intros l' H; [now injection H as <-|].
    destruct (f a); cbn in H; [|discriminate]. destruct (mapM f l); cbn in H; [|discriminate].
    injection H as <-. cbn. f_equal. now apply IH.
  Qed.

  (* elementwise forward / backward conversion *)
  Lemma mapM_inv {A B} (f : A -> res B) (g : B -> res A) (P : B -> Prop) (U : Prop) l :
    (forall x, In x l -> exists y, f x = Ok y /\ P y /\ (U -> g y = Ok x)) ->
    exists l', mapM f l = Ok l' /\ Forall P l' /\ (U -> mapM g l' = Ok l).
  Proof.
    induction l as [|a l IH]; intro H.
    - exists []. repeat split; constructor.
    - destruct (H a (or_introl eq_refl)) as (y & H1 & H2 & H3).
      destruct IH as (l' & I1 & I2 & I3); [intros x Hx; apply H; now right|].
      exists (y :: l'). cbn. rewrite H1, I1. cbn. repeat split; [now constructor|].
      intro HU. rewrite (H3 HU), (I3 HU). reflexivity.
  Qed.

  (* ------------------------------------------------------------------ *)
  (* values made of strings, lists, dictionaries and numbers satisfying P (no null, no bool) *)
  Definition fin (x : num) : bool := negb (nisinf x) && negb (nisnan x).
  Definition anyn (x : num) : bool := true.

  Fixpoint gen (P : num -> bool) (v : jv) : bool :=
    match v with
    | JNum x => P x
    | JStr _ => true
    | JList l => forallb (gen P) l
    | JDict kv => forallb (fun p => gen P (snd p)) kv
    | _ => false
    end.

  Lemma gen_mono (P Q : num -> bool) : (forall x, P x = true -> Q x = true) ->
    forall v, gen P v = true -> gen Q v = true.
  Proof.
    intro PQ. fix IH 1. intros [ | b | x | s | l | kv | ]; cbn; auto.
    - induction l as [|a l IHl]; cbn; [reflexivity|]. intro H. apply andb_true_iff in H.
      destruct H as [H1 H2]. rewrite (IH a H1). cbn. auto.
    - induction kv as [|[k a] kv IHl]; cbn; [reflexivity|]. intro H. apply andb_true_iff in H.
      destruct H as [H1 H2]. rewrite (IH a H1). cbn. auto.
  Qed.

  Lemma gen_finite : forall v, gen fin v = true -> finite_jv v = true.
  Proof.
    fix IH 1. intros [ | b | x | s | l | kv | ]; cbn; auto.
    - induction l as [|a l IHl]; cbn; [reflexivity|]. intro H. apply andb_true_iff in H.
      destruct H as [H1 H2]. rewrite (IH a H1). cbn. auto.
    - induction kv as [|[k a] kv IHl]; cbn; [reflexivity|]. intro H. apply andb_true_iff in H.
      destruct H as [H1 H2]. rewrite (IH a H1). cbn. auto.
  Qed.

  Lemma gen_no_nulls P : forall fuel v, gen P v = true -> no_nulls fuel v = true.
  Proof.
    induction fuel as [|fuel IH]; [reflexivity|]. intros [ | b | x | s | l | kv | ]; cbn; auto.
    intro H. apply forallb_forall. intros [k a] Hp. cbn.
    rewrite forallb_forall in H. specialize (H _ Hp). cbn in H.
    destruct a as [ | b | x | s | l | kv' | ]; try reflexivity; try discriminate.
    - cbn in H. apply forallb_forall. intros e He. rewrite forallb_forall in H. specialize (H _ He).
      destruct e; try reflexivity; try discriminate. now apply IH.
    - now apply IH.
  Qed.

  Lemma gen_strs P l : gen P (jstrs l) = true.
  Proof. unfold jstrs. cbn. induction l; cbn; auto. Qed.
  Lemma gen_nums P l : (forall x, In x l -> P x = true) -> gen P (jnums l) = true.
  Proof.
    unfold jnums. cbn. induction l as [|a l IH]; cbn; [reflexivity|]. intro H.
    rewrite (H a (or_introl eq_refl)). cbn. apply IH. intros x Hx. apply H. now right.
  Qed.
  Lemma gen_list P {A} (f : A -> jv) l : (forall x, In x l -> gen P (f x) = true) ->
    gen P (JList (map f l)) = true.
  Proof.
    cbn. induction l as [|a l IH]; cbn; [reflexivity|]. intro H.
    rewrite (H a (or_introl eq_refl)). cbn. apply IH. intros x Hx. apply H. now right.
  Qed.

  (* numbers *)
  Lemma fin_pos x : pos_fin x -> fin x = true.
  Proof. intros [H1 H2]. unfold fin. rewrite H2. apply lt_true in H1. destruct H1 as (_ & H & _). now rewrite H. Qed.
  Lemma fin_unit x : in_unit x -> fin x = true.
  Proof.
    intros [H1 H2]. unfold fin. assert (ok x) as Hx by (apply le_true in H1; tauto).
    rewrite Hx. assert (nisinf x = false) as -> by nord. reflexivity.
  Qed.
  Lemma fin_unit_lo x : in_unit_lo x -> fin x = true.
  Proof.
    intros [H1 H2]. unfold fin. assert (ok x) as Hx by (apply le_true in H2; tauto).
    rewrite Hx. assert (nisinf x = false) as -> by nord. reflexivity.
  Qed.
  Lemma fin_nonneg x : nle n0 x = true -> nisinf x = false -> fin x = true.
  Proof. intros H1 H2. unfold fin. rewrite H2. apply le_true in H1. destruct H1 as (_ & H & _). now rewrite H. Qed.

  (* the positive infinity has one representation (true of binary64 and of NumQ) *)
  Definition InfUnique : Prop := forall x, nisinf x = true -> nlt n0 x = true -> x = ninf.

  (* ------------------------------------------------------------------ *)
  (* a dictionary whose only possibly infinite entry is a positive number under "start_time" *)
  Definition allfin (kv : list (string * jv)) : bool := forallb (fun p => gen fin (snd p)) kv.

  Fixpoint SOK (kv : list (string * jv)) : Prop :=
    match kv with
    | [] => True
    | (k, v) :: kv' =>
        if String.eqb "start_time" k
        then (exists x, v = JNum x /\ nlt n0 x = true) /\ allfin kv' = true
        else gen fin v = true /\ SOK kv'
    end.

  Lemma SOK_cases kv : SOK kv ->
    (assoc "start_time" kv = None /\ allfin kv = true) \/
    (exists x, assoc "start_time" kv = Some (JNum x) /\ nlt n0 x = true /\
               (nisinf x = false -> allfin kv = true) /\
               forall s, allfin (dict_replace "start_time" (JStr s) kv) = true).
  Proof.
    induction kv as [|[k v] kv IH]; cbn; [now left|].
    destruct (String.eqb "start_time" k) eqn:E.
    - intros [(x & -> & Hx) Hf]. right. exists x. repeat split; auto.
      intro Hi. cbn. unfold fin. rewrite Hi. apply lt_true in Hx. destruct Hx as (_ & Hx & _).
      rewrite Hx. exact Hf.
    - intros [Hv Hs]. destruct (IH Hs) as [[H1 H2]|(x & H1 & H2 & H3 & H4)].
      + left. split; [exact H1|]. cbn. now rewrite Hv.
      + right. exists x. repeat split; auto.
        * intro Hi. cbn. rewrite Hv. cbn. auto.
        * intro s. cbn. rewrite Hv. cbn. auto.
  Qed.

  Lemma SOK_any kv : SOK kv -> forallb (fun p => gen anyn (snd p)) kv = true.
  Proof.
    induction kv as [|[k v] kv IH]; cbn; [reflexivity|].
    destruct (String.eqb "start_time" k).
    - intros [(x & -> & Hx) Hf]. cbn. unfold allfin in Hf. rewrite forallb_forall in Hf. apply forallb_forall.
      intros p Hp. apply (gen_mono fin); [reflexivity|]. now apply Hf.
    - intros [Hv Hs]. rewrite (gen_mono fin anyn); auto.
  Qed.

  Lemma stringify_start_ok kv : SOK kv ->
    exists v', stringify_start (JDict kv) = Ok v' /\ gen fin v' = true /\
               (InfUnique -> unstringify_start v' = Ok (JDict kv)).
  Proof.
    intro H. destruct (SOK_cases kv H) as [[H1 H2]|(x & H1 & H2 & H3 & H4)].
    - exists (JDict kv). cbn. rewrite H1. auto.
    - cbn. rewrite H1. destruct (nisinf x) eqn:Ei.
      + eexists. split; [reflexivity|]. split; [apply H4|]. intro U. cbn.
        rewrite (assoc_dr_same _ _ _ _ H1). cbn. rewrite dr_dr.
        rewrite dr_same; [reflexivity|]. rewrite H1. now rewrite (U x Ei H2).
      + exists (JDict kv). split; [reflexivity|]. split; [now apply H3|]. intro U. cbn. now rewrite H1.
  Qed.

  (* ------------------------------------------------------------------ *)
  (* documents: unique keys, "demes" / "migrations" lists of such dictionaries, the rest finite *)
  Definition SOKv (v : jv) : Prop := exists kv, v = JDict kv /\ SOK kv.

  Definition Tentry (p : string * jv) : Prop :=
    if String.eqb (fst p) "metadata" then True
    else if String.eqb (fst p) "demes" || String.eqb (fst p) "migrations"
         then exists l, snd p = JList l /\ Forall SOKv l
         else gen fin (snd p) = true.

  Record TOK (kv : list (string * jv)) : Prop := {
    t_nodup : NoDup (map fst kv);
    t_entries : Forall Tentry kv;
    t_demes : In "demes" (map fst kv);
    t_nodefaults : ~ In "defaults" (map fst kv) }.

  Definition strictG (P : num -> bool) (kv : list (string * jv)) : bool :=
    forallb (fun p => String.eqb (fst p) "metadata" || gen P (snd p)) kv.

  Lemma strictG_strict kv : strictG fin kv = true -> strict_outside_meta (JDict kv) = true.
  Proof.
    unfold strictG. cbn. rewrite !forallb_forall. intros H p Hp. specialize (H p Hp).
    destruct (String.eqb (fst p) "metadata"); [reflexivity|]. cbn in *. now apply gen_finite.
  Qed.

  Lemma SOKv_convert l : Forall SOKv l ->
    exists l', mapM stringify_start l = Ok l' /\ Forall (fun y => gen fin y = true) l' /\
               (InfUnique -> mapM unstringify_start l' = Ok l).
  Proof.
    intro H. apply mapM_inv. intros x Hx. rewrite Forall_forall in H.
    destruct (H x Hx) as (kv & -> & Hs). now apply stringify_start_ok.
  Qed.

  Lemma gen_list_of P l : Forall (fun y => gen P y = true) l -> gen P (JList l) = true.
  Proof. cbn. intro H. apply forallb_forall. now apply Forall_forall. Qed.

  Lemma Tentry_list k kv v : Forall Tentry kv -> assoc k kv = Some v ->
    k = "demes" \/ k = "migrations" -> exists l, v = JList l /\ Forall SOKv l.
  Proof.
    intros HF Ha Hk. apply assoc_in in Ha. rewrite Forall_forall in HF. specialize (HF _ Ha).
    unfold Tentry in HF. cbn in HF. destruct Hk as [-> | ->]; exact HF.
  Qed.

  Lemma stringify_TOK kv : TOK kv ->
    exists kv', stringify_infinities (JDict kv) = Ok (JDict kv') /\ strictG fin kv' = true /\
                (InfUnique -> unstringify_infinities (JDict kv') = Ok (JDict kv)).
  Proof.
    intros [ND HF HD HN].
    destruct (assoc "demes" kv) as [vd|] eqn:Ed; [|apply assoc_none in Ed; contradiction].
    destruct (Tentry_list _ _ _ HF Ed (or_introl eq_refl)) as (l1 & -> & Hl1).
    destruct (SOKv_convert l1 Hl1) as (l1' & S1 & G1 & U1).
    apply assoc_none in HN.
    assert (forall p, In p kv -> fst p <> "demes" -> fst p <> "migrations" ->
                      String.eqb (fst p) "metadata" || gen fin (snd p) = true) as Hrest.
    { intros p Hp H1 H2. rewrite Forall_forall in HF. specialize (HF p Hp). unfold Tentry in HF.
      destruct (String.eqb (fst p) "metadata"); [reflexivity|].
      apply String.eqb_neq in H1, H2. rewrite H1, H2 in HF. exact HF. }
    assert ("demes" <> "migrations") as Hdm by discriminate.
    assert ("migrations" <> "demes") as Hmd by discriminate.
    destruct (assoc "migrations" kv) as [vm|] eqn:Em.
    - destruct (Tentry_list _ _ _ HF Em (or_intror eq_refl)) as (l2 & -> & Hl2).
      destruct (SOKv_convert l2 Hl2) as (l2' & S2 & G2 & U2).
      exists (dict_replace "migrations" (JList l2') (dict_replace "demes" (JList l1') kv)).
      split; [|split].
      + unfold stringify_infinities, map_field. rewrite Ed, S1. cbn [bind].
        rewrite (assoc_dr_other _ _ _ _ Hdm), Em, S2. reflexivity.
      + apply forallb_forall. intros p Hp.
        apply in_dr in Hp; [|now rewrite dr_fst].
        destruct Hp as [-> | [Hp Hk]]; [cbn; apply gen_list_of in G2; cbn in G2; now rewrite G2|].
        apply in_dr in Hp; [|exact ND].
        destruct Hp as [-> | [Hp Hk']]; [cbn; apply gen_list_of in G1; cbn in G1; now rewrite G1|].
        now apply Hrest.
      + intro U. unfold unstringify_infinities, map_field.
        rewrite (assoc_dr_other _ _ _ _ Hmd), (assoc_dr_same _ _ _ _ Ed), (U1 U). cbn [bind].
        rewrite (dr_comm "demes" "migrations") by exact Hdm. rewrite dr_dr.
        rewrite (dr_same "demes" _ kv Ed).
        rewrite (assoc_dr_same _ _ _ _ Em), (U2 U). cbn [bind]. rewrite dr_dr, (dr_same _ _ _ Em).
        rewrite HN. reflexivity.
    - exists (dict_replace "demes" (JList l1') kv). split; [|split].
      + unfold stringify_infinities, map_field. rewrite Ed, S1. cbn [bind].
        rewrite (assoc_dr_other _ _ _ _ Hdm), Em. reflexivity.
      + apply forallb_forall. intros p Hp. apply in_dr in Hp; [|exact ND].
        destruct Hp as [-> | [Hp Hk']]; [cbn; apply gen_list_of in G1; cbn in G1; now rewrite G1|].
        apply Hrest; auto. intro Hk. apply assoc_none in Em. apply Em. apply in_map_iff. now exists p.
      + intro U. unfold unstringify_infinities, map_field.
        rewrite (assoc_dr_same _ _ _ _ Ed), (U1 U). cbn [bind]. rewrite dr_dr, (dr_same _ _ _ Ed).
        rewrite Em. cbn [bind]. rewrite HN. reflexivity.
  Qed.

  (* ------------------------------------------------------------------ *)
  (* the fully-resolved dictionary of a valid graph is such a document *)
  Ltac seqb :=
    repeat match goal with
    | |- context [String.eqb ?a ?b] =>
        let r := eval vm_compute in (String.eqb a b) in
        match r with
        | true => change (String.eqb a b) with true
        | false => change (String.eqb a b) with false
        end
    end.

  Lemma epoch_fin e : ValidEpoch e -> gen fin (jv_of_epoch e) = true.
  Proof.
    intro V. cbn.
    rewrite (fin_nonneg _ (ve_end_nonneg _ V) (ve_end_fin _ V)), (fin_pos _ (ve_ssize _ V)),
      (fin_pos _ (ve_esize _ V)), (fin_unit _ (ve_self _ V)), (fin_unit _ (ve_clone _ V)).
    reflexivity.
  Qed.

  Lemma deme_SOK e d : ValidDeme e d -> SOKv (jv_of_deme d).
  Proof.
    intro V. eexists. split; [reflexivity|]. cbn [SOK]. seqb. cbn [gen].
    split; [reflexivity|]. split; [reflexivity|]. split; [exists (d_start d); split; [reflexivity|exact (vd_start _ _ V)]|].
    unfold allfin. cbn [forallb snd]. rewrite gen_strs, gen_nums, gen_list; [reflexivity| |].
    - intros x Hx. apply epoch_fin. exact (vd_epochs _ _ V x Hx).
    - intros x Hx. apply fin_unit_lo. exact (vd_props _ _ V x Hx).
  Qed.

  Lemma mig_start_pos g m : ValidMig g m -> nlt n0 (m_start m) = true.
  Proof.
    intro V. pose proof (vm_order _ _ V) as H1. pose proof (vm_end_nonneg _ _ V) as H2.
    assert (ok (m_start m)) by (apply lt_true in H1; tauto). nord.
  Qed.

  Lemma mig_SOK g m : ValidMig g m -> SOKv (jv_of_mig m).
  Proof.
    intro V. eexists. split; [reflexivity|]. cbn [SOK]. seqb. cbn [gen].
    split; [reflexivity|]. split; [reflexivity|].
    split; [exists (m_start m); split; [reflexivity|exact (mig_start_pos _ _ V)]|].
    unfold allfin. cbn [forallb snd gen].
    rewrite (fin_nonneg _ (vm_end_nonneg _ _ V) (vm_end_fin _ _ V)), (fin_unit _ (vm_rate _ _ V)).
    reflexivity.
  Qed.

  Lemma pulse_fin g p : ValidPulse g p -> gen fin (jv_of_pulse p) = true.
  Proof.
    intro V. cbn [jv_of_pulse gen forallb snd].
    rewrite gen_strs, (fin_pos _ (vp_time _ _ V)), gen_nums; [reflexivity|].
    intros x Hx. apply fin_unit_lo. exact (vp_props _ _ V x Hx).
  Qed.

  Fixpoint nodup_s (l : list string) : bool :=
    match l with [] => true | x :: l' => negb (existsb (String.eqb x) l') && nodup_s l' end.
  Lemma nodup_s_ok l : nodup_s l = true -> NoDup l.
  Proof.
    induction l as [|x l IH]; cbn; [constructor|]. intro H. apply andb_true_iff in H.
    destruct H as [H1 H2]. constructor; [|auto]. intro Hin. apply negb_true_iff in H1.
    assert (existsb (String.eqb x) l = true); [|congruence].
    apply existsb_exists. exists x. split; [exact Hin|apply String.eqb_refl].
  Qed.
  Definition keys_ok (l : list string) : bool :=
    nodup_s l && existsb (String.eqb "demes") l && negb (existsb (String.eqb "defaults") l).
  Lemma keys_ok_spec l : keys_ok l = true -> NoDup l /\ In "demes" l /\ ~ In "defaults" l.
  Proof.
    unfold keys_ok. intro H. apply andb_true_iff in H. destruct H as [H H3].
    apply andb_true_iff in H. destruct H as [H1 H2]. split; [now apply nodup_s_ok|]. split.
    - apply existsb_exists in H2. destruct H2 as (x & Hx & E). apply String.eqb_eq in E. now subst.
    - intro Hin. apply negb_true_iff in H3.
      assert (existsb (String.eqb "defaults") l = true); [|congruence].
      apply existsb_exists. exists "defaults". split; [exact Hin|apply String.eqb_refl].
  Qed.

  Lemma Tentry_fin k v : k <> "demes" -> k <> "migrations" -> gen fin v = true -> Tentry (k, v).
  Proof.
    intros H1 H2 H. unfold Tentry. cbn. destruct (String.eqb k "metadata"); [exact I|].
    apply String.eqb_neq in H1, H2. now rewrite H1, H2.
  Qed.

  Lemma asdict_TOK g : Valid g -> exists kv, asdict g = JDict kv /\ TOK kv.
  Proof.
    intro V. eexists. split; [reflexivity|].
    pose proof (valid_demes_each _ _ (v_demes _ V)) as VD.
    destruct (keys_ok_spec
      ["description"; "time_units"; "generation_time"; "doi"; "metadata"; "demes"; "migrations"; "pulses"]
      eq_refl) as (K1 & K2 & K3).
    constructor; [exact K1| |exact K2|exact K3].
    repeat (apply Forall_cons); [| | | | | | | |apply Forall_nil].
    - apply Tentry_fin; [discriminate|discriminate|reflexivity].
    - apply Tentry_fin; [discriminate|discriminate|reflexivity].
    - apply Tentry_fin; [discriminate|discriminate|]. cbn. exact (fin_pos _ (v_gt _ V)).
    - apply Tentry_fin; [discriminate|discriminate|]. apply gen_strs.
    - exact I.
    - unfold Tentry. cbn [fst snd]. seqb. cbn. eexists. split; [reflexivity|].
      apply Forall_forall. intros x Hx. apply in_map_iff in Hx. destruct Hx as (d & <- & Hd).
      destruct (VD d Hd) as (e & Ve). exact (deme_SOK e d Ve).
    - unfold Tentry. cbn [fst snd]. seqb. cbn. eexists. split; [reflexivity|].
      apply Forall_forall. intros x Hx. apply in_map_iff in Hx. destruct Hx as (m & <- & Hm).
      exact (mig_SOK g m (v_migs _ V m Hm)).
    - apply Tentry_fin; [discriminate|discriminate|]. apply gen_list.
      intros p Hp. exact (pulse_fin g p (v_pulses _ V p Hp)).
  Qed.

  (* 1. the data handed to the JSON encoder for a valid graph contains no non-finite number
        outside metadata (json.dump(allow_nan=False) turns one inside metadata into an error) *)
  Theorem stringify_strict g :
    Valid g -> exists d, stringify_infinities (asdict g) = Ok d /\ strict_outside_meta d = true.
  Proof.
    intro V. destruct (asdict_TOK g V) as (kv & -> & T).
    destruct (stringify_TOK kv T) as (kv' & H1 & H2 & _).
    exists (JDict kv'). split; [exact H1|now apply strictG_strict].
  Qed.

  (* 2. reading back undoes the conversion, on both dictionary forms *)
  (* As first stated (without [InfUnique]) this is not provable for abstract numbers: reading back
     yields [JNum ninf] where the document had [JNum (d_start d)], and NumLaws does not make the
     positive infinity unique (a NumOps with two +inf values is a counter-model).
     Original:  Valid g -> stringify_infinities (asdict g) = Ok d ->
                unstringify_infinities d = Ok (asdict g). *)
  Theorem unstringify_stringify g d :
    InfUnique ->
    Valid g -> stringify_infinities (asdict g) = Ok d -> unstringify_infinities d = Ok (asdict g).
  Proof.
    intros U V H. destruct (asdict_TOK g V) as (kv & E & T). rewrite E in *.
    destruct (stringify_TOK kv T) as (kv' & H1 & _ & H3).
    rewrite H1 in H. injection H as <-. exact (H3 U).
  Qed.

  (* ------------------------------------------------------------------ *)
  (* the simplified dictionary *)
  Definition NS (p : string * jv) : Prop := fst p <> "start_time" /\ gen fin (snd p) = true.

  Lemma allfin_app a b : allfin (a ++ b) = allfin a && allfin b.
  Proof. unfold allfin. apply forallb_app. Qed.

  Lemma NS_allfin a : Forall NS a -> allfin a = true.
  Proof.
    intro H. apply forallb_forall. intros p Hp. rewrite Forall_forall in H. exact (proj2 (H p Hp)).
  Qed.

  Lemma SOK_app_NS a b : Forall NS a -> SOK b -> SOK (a ++ b).
  Proof.
    induction a as [|[k v] a IH]; cbn; [auto|]. intros H Hb. inversion H as [|? ? [H1 H2] H3]; subst.
    cbn in H1, H2. destruct (String.eqb "start_time" k) eqn:E.
    - apply String.eqb_eq in E. congruence.
    - split; [exact H2|]. now apply IH.
  Qed.

  Lemma SOK_NS a : Forall NS a -> SOK a.
  Proof. intro H. rewrite <- (app_nil_r a). apply SOK_app_NS; [exact H|exact I]. Qed.

  Lemma SOK_start x b : nlt n0 x = true -> Forall NS b -> SOK (("start_time", JNum x) :: b).
  Proof.
    intros Hx Hb. cbn. rewrite String.eqb_refl. split; [now exists x|now apply NS_allfin].
  Qed.

  Lemma NS1 k v : k <> "start_time" -> gen fin v = true -> Forall NS [(k, v)].
  Proof. intros H1 H2. constructor; [split; assumption|constructor]. Qed.

  Lemma NS_opt k o : k <> "start_time" -> (forall x, o = Some x -> fin x = true) ->
    Forall NS (opt_field k o).
  Proof. intros Hk H. destruct o as [x|]; cbn; [|constructor]. apply NS1; [exact Hk|]. cbn. now apply H. Qed.

  Lemma NS_str k s : k <> "start_time" -> Forall NS (nonempty_str k s).
  Proof. intro Hk. unfold nonempty_str. destruct (String.eqb s ""); [constructor|]. now apply NS1. Qed.

  Lemma NS_list k l : k <> "start_time" -> gen fin (JList l) = true -> Forall NS (nonempty_list k l).
  Proof. intros Hk H. destruct l; [constructor|]. now apply NS1. Qed.

  Lemma gen_list_map P {A} (f : A -> jv) l : (forall x, In x l -> gen P (f x) = true) ->
    forallb (gen P) (map f l) = true.
  Proof. exact (gen_list P f l). Qed.

  Lemma simp_epoch_fin e : ValidEpoch e -> gen fin (simp_epoch e) = true.
  Proof.
    intro V. unfold simp_epoch. change (gen fin (JDict ?kv)) with (allfin kv).
    rewrite !allfin_app.
    apply andb_true_iff; split; [|apply andb_true_iff; split; [|apply andb_true_iff; split;
      [|apply andb_true_iff; split]]].
    - cbn. now rewrite (fin_nonneg _ (ve_end_nonneg _ V) (ve_end_fin _ V)), (fin_pos _ (ve_ssize _ V)).
    - destruct (neqb (e_ssize e) (e_esize e)); [reflexivity|]. cbn. now rewrite (fin_pos _ (ve_esize _ V)).
    - destruct (String.eqb (e_sf e) _); reflexivity.
    - destruct (neqb (e_self e) n0); [reflexivity|]. cbn. now rewrite (fin_unit _ (ve_self _ V)).
    - destruct (neqb (e_clone e) n0); [reflexivity|]. cbn. now rewrite (fin_unit _ (ve_clone _ V)).
  Qed.

  Lemma simp_deme_SOK g e d v : ValidDeme e d -> simp_deme g d = Ok v -> SOKv v.
  Proof.
    intros V H. unfold simp_deme in H.
    match type of H with bind ?m _ = _ => destruct m as [b|] end; cbn [bind] in H; [|discriminate].
    injection H as <-. eexists. split; [reflexivity|].
    apply (SOK_app_NS [_]); [apply NS1; [discriminate|reflexivity]|].
    apply SOK_app_NS; [apply NS_str; discriminate|].
    assert (Forall NS (nonempty_list "ancestors" (map JStr (d_anc d)) ++
      (if match d_anc d with
          | [] => false
          | [_] => match d_props d with [] => false | [p] => neqb p n1 | p :: _ :: _ => false end
          | _ :: _ :: _ => false
          end then [] else nonempty_list "proportions" (map JNum (d_props d))) ++
      [("epochs", JList (map simp_epoch (d_epochs d)))])) as Hrest.
    { apply Forall_app. split; [apply NS_list; [discriminate|exact (gen_strs fin (d_anc d))]|].
      apply Forall_app. split.
      - match goal with |- Forall NS (if ?c then _ else _) => destruct c end; [constructor|].
        apply NS_list; [discriminate|]. apply (gen_nums fin).
        intros x Hx. apply fin_unit_lo. exact (vd_props _ _ V x Hx).
      - apply NS1; [discriminate|]. apply gen_list. intros x Hx. apply simp_epoch_fin.
        exact (vd_epochs _ _ V x Hx). }
    destruct b.
    - cbn [app]. now apply SOK_NS.
    - cbn [app]. apply SOK_start; [exact (vd_start _ _ V)|exact Hrest].
  Qed.

  (* keys of the simplified migration entries *)
  Definition Kok (k : key) : Prop :=
    let '(r, s, e) := k in
    fin r = true /\ (forall x, s = Some x -> nlt n0 x = true) /\ (forall x, e = Some x -> fin x = true).
  Definition key_of_sym (s : symmig) : key := (sy_rate s, sy_start s, sy_end s).

  Lemma sym_SOK s : Kok (key_of_sym s) -> SOKv (jv_of_sym s).
  Proof.
    intros (H1 & H2 & H3). eexists. split; [reflexivity|].
    apply (SOK_app_NS [_; _]).
    { constructor; [split; [discriminate|apply gen_strs]|]. apply NS1; [discriminate|exact H1]. }
    assert (Forall NS (opt_field "end_time" (sy_end s))) as He by (apply NS_opt; [discriminate|exact H3]).
    destruct (sy_start s) as [x|]; cbn [opt_field app].
    - apply SOK_start; [now apply H2|exact He].
    - now apply SOK_NS.
  Qed.

  Lemma smig_SOK m : Kok (key_of m) -> SOKv (jv_of_smig m).
  Proof.
    intros (H1 & H2 & H3). eexists. split; [reflexivity|].
    apply (SOK_app_NS [_; _]).
    { constructor; [split; [discriminate|reflexivity]|]. apply NS1; [discriminate|reflexivity]. }
    assert (Forall NS (opt_field "end_time" (sm_end m) ++ [("rate", JNum (sm_rate m))])) as He.
    { apply Forall_app. split; [apply NS_opt; [discriminate|exact H3]|]. apply NS1; [discriminate|exact H1]. }
    destruct (sm_start m) as [x|]; cbn [opt_field app].
    - apply SOK_start; [now apply H2|exact He].
    - now apply SOK_NS.
  Qed.

  Lemma strip_Kok g m sm : ValidMig g m -> strip_bounds g m = Ok sm -> Kok (key_of sm).
  Proof.
    intros V H. unfold strip_bounds in H.
    destruct (lookup g (m_src m)); cbn [bind] in H; [|discriminate].
    destruct (lookup g (m_dst m)); cbn [bind] in H; [|discriminate].
    destruct (d_end a); cbn [bind] in H; [|discriminate].
    destruct (d_end a0); cbn [bind] in H; [|discriminate].
    injection H as <-. unfold key_of, Kok. cbn. split; [exact (fin_unit _ (vm_rate _ _ V))|]. split.
    - intros x Hx. destruct (neqb (m_start m) _); [discriminate|]. injection Hx as <-.
      exact (mig_start_pos _ _ V).
    - intros x Hx. destruct (neqb (m_end m) _); [discriminate|]. injection Hx as <-.
      exact (fin_nonneg _ (vm_end_nonneg _ _ V) (vm_end_fin _ _ V)).
  Qed.

  Lemma mapM_Forall {A B} (f : A -> res B) (P : B -> Prop) l :
    (forall a b, In a l -> f a = Ok b -> P b) -> forall l', mapM f l = Ok l' -> Forall P l'.
  Proof.
    induction l as [|a l IH]; cbn; intros H l' E; [injection E as <-; constructor|].
    destruct (f a) as [b|] eqn:Ea; cbn in E; [|discriminate].
    destruct (mapM f l) as [bs|]; cbn in E; [|discriminate]. injection E as <-.
    constructor; [eapply H; eauto|]. apply IH; auto. intros; eapply H; eauto.
  Qed.

  Lemma foldM_inv {A S} (f : S -> A -> res S) (I : S -> Prop) l :
    (forall s a s', In a l -> I s -> f s a = Ok s' -> I s') ->
    forall s s', I s -> foldM f l s = Ok s' -> I s'.
  Proof.
    induction l as [|a l IH]; cbn; intros H s s' Hs E; [now injection E as <-|].
    destruct (f s a) as [s1|] eqn:E1; cbn in E; [|discriminate].
    apply (IH (fun s a s' Ha => H s a s' (or_intror Ha)) s1 s'); [|exact E].
    exact (H s a s1 (or_introl eq_refl) Hs E1).
  Qed.

  Lemma remove_first_Forall {A} (eqb : A -> A -> bool) (P : A -> Prop) x l :
    forall l', remove_first eqb x l = Ok l' -> Forall P l -> Forall P l'.
  Proof.
    induction l as [|y l IH]; cbn; intros l' E H; [discriminate|].
    inversion H as [|? ? Hy Hl]; subst. destruct (eqb y x); [now injection E as <-|].
    destruct (remove_first eqb x l) as [r|]; cbn in E; [|discriminate]. injection E as <-.
    constructor; auto.
  Qed.

  Definition SInv (s : sstate) : Prop :=
    Forall (fun y => Kok (key_of_sym y)) (st_sym s) /\ Forall (fun m => Kok (key_of m)) (st_asym s).

  Lemma try_set_inv k st ds st' : Kok k -> try_set k st ds = Ok st' -> SInv (fst st) -> SInv (fst st').
  Proof.
    intros Hk E HI. destruct st as [s c]. destruct k as [[r ks] ke]. unfold try_set in E.
    destruct (forallb _ (perms2 ds)); [|now injection E as <-].
    match type of E with bind ?m _ = _ => destruct m as [s1|] eqn:E1 end; cbn [bind] in E; [|discriminate].
    injection E as <-. cbn [fst].
    assert (SInv s1) as [I1 I2].
    { revert E1. apply foldM_inv; [|exact HI]. intros s0 p s0' _ [J1 J2] E0.
      destruct (remove_first smig_eqb _ (st_asym s0)) as [a|] eqn:Ea; cbn [bind] in E0; [|discriminate].
      destruct (remove_first pair_eqb p (st_pairs s0)); cbn [bind] in E0; [|discriminate].
      injection E0 as <-. split; cbn; [exact J1|]. exact (remove_first_Forall _ _ _ _ _ Ea J2). }
    split; cbn; [|exact I2]. apply Forall_app. split; [exact I1|]. constructor; [exact Hk|constructor].
  Qed.

  Lemma search_inv k : Kok k -> forall fuel all i s s',
    search fuel k all i s = Ok s' -> SInv s -> SInv s'.
  Proof.
    intro Hk. induction fuel as [|fuel IH]; intros all i s s' E HI; cbn [search] in E; [discriminate|].
    destruct (Nat.leb 2 (List.length all) && Nat.leb 2 i); [|now injection E as <-].
    destruct (foldM (try_set k) (combinations all i) (s, false)) as [[s1 c]|] eqn:E1; cbn [bind] in E;
      [|discriminate].
    assert (SInv s1) as H1.
    { change s1 with (fst (s1, c)). revert E1.
      apply (foldM_inv (try_set k) (fun st => SInv (fst st))); [|exact HI].
      intros st a st' _ J E0. exact (try_set_inv k st a st' Hk E0 J). }
    destruct c; eapply IH; eauto.
  Qed.

  Lemma add_rate_set_keys k p rs :
    Kok k -> Forall (fun kp => Kok (fst kp)) rs -> Forall (fun kp => Kok (fst kp)) (add_rate_set k p rs).
  Proof.
    intros Hk. induction rs as [|[k' ps] rs IH]; cbn; intro H.
    - constructor; [exact Hk|constructor].
    - inversion H as [|? ? H1 H2]; subst. destruct (key_eqb k' k); constructor; auto.
  Qed.

  Lemma simplify_migrations_Kok g sym asym :
    (forall m, In m (g_migs g) -> ValidMig g m) -> simplify_migrations g = Ok (sym, asym) ->
    Forall (fun y => Kok (key_of_sym y)) sym /\ Forall (fun m => Kok (key_of m)) asym.
  Proof.
    intros V E. unfold simplify_migrations in E.
    destruct (mapM (strip_bounds g) (g_migs g)) as [stripped|] eqn:Es; cbn [bind] in E; [|discriminate].
    assert (Forall (fun m => Kok (key_of m)) stripped) as Hs.
    { revert Es. apply mapM_Forall. intros m sm Hm. apply strip_Kok. now apply V. }
    match type of E with bind (foldM _ ?rs _) _ = _ => assert (Forall (fun kp => Kok (fst kp)) rs) as Hrs end.
    { assert (forall l rs, Forall (fun m => Kok (key_of m)) l -> Forall (fun kp : key * list (string * string) => Kok (fst kp)) rs ->
                Forall (fun kp => Kok (fst kp))
                  (fold_left (fun rs m => add_rate_set (key_of m) (sm_src m, sm_dst m) rs) l rs)) as G.
      { induction l as [|m l IH]; cbn; intros rs Hl Hr; [exact Hr|].
        inversion Hl; subst. apply IH; [assumption|]. now apply add_rate_set_keys. }
      apply G; [exact Hs|constructor]. }
    match type of E with bind ?m _ = _ => destruct m as [r|] eqn:Er end; cbn [bind] in E; [|discriminate].
    injection E as ->. revert Er.
    apply (foldM_inv _ (fun sa : list symmig * list smig =>
             Forall (fun y => Kok (key_of_sym y)) (fst sa) /\ Forall (fun m => Kok (key_of m)) (snd sa)));
      [|split; [constructor|exact Hs]].
    intros sa [k pairs] sa' Hin HI E0. rewrite Forall_forall in Hrs. specialize (Hrs _ Hin). cbn in Hrs.
    destruct (Nat.eqb (List.length pairs) 1); [now injection E0 as <-|].
    match type of E0 with bind ?m _ = _ => destruct m as [s|] eqn:Esr end; cbn [bind] in E0; [|discriminate].
    injection E0 as <-. cbn [fst snd]. exact (search_inv k Hrs _ _ _ _ _ Esr HI).
  Qed.

  Lemma Tentry_str k s : k <> "demes" -> k <> "migrations" -> Forall Tentry (nonempty_str k s).
  Proof.
    intros H1 H2. unfold nonempty_str. destruct (String.eqb s ""); [constructor|].
    constructor; [|constructor]. now apply Tentry_fin.
  Qed.
  Lemma Tentry_nlist k l : k <> "demes" -> k <> "migrations" -> gen fin (JList l) = true ->
    Forall Tentry (nonempty_list k l).
  Proof.
    intros H1 H2 H. destruct l; [constructor|]. constructor; [|constructor]. now apply Tentry_fin.
  Qed.
  Lemma Tentry_SOK k l : k = "demes" \/ k = "migrations" -> Forall SOKv l -> Tentry (k, JList l).
  Proof. intros [-> | ->] H; unfold Tentry; cbn [fst snd]; seqb; cbn; eauto. Qed.

  Lemma simp_TOK g doc : Valid g -> asdict_simplified g = Ok doc -> exists kv, doc = JDict kv /\ TOK kv.
  Proof.
    intros V E. unfold asdict_simplified in E.
    pose proof (valid_demes_each _ _ (v_demes _ V)) as VD.
    destruct (mapM (simp_deme g) (g_demes g)) as [demes|] eqn:Ed; cbn [bind] in E; [|discriminate].
    assert (Forall SOKv demes) as Hd.
    { revert Ed. apply mapM_Forall. intros d v Hin Hv. destruct (VD d Hin) as (e & Ve).
      exact (simp_deme_SOK g e d v Ve Hv). }
    match type of E with bind ?m _ = _ => destruct m as [migs|] eqn:Em end; cbn [bind] in E; [|discriminate].
    injection E as <-. eexists. split; [reflexivity|].
    assert (migs = [] \/ exists l, migs = [("migrations", JList l)] /\ Forall SOKv l) as Hm.
    { destruct (g_migs g) as [|m0 ms] eqn:Eg; [left; now injection Em as <-|]. right.
      destruct (simplify_migrations g) as [[sym asym]|] eqn:Es; cbn [bind] in Em; [|discriminate].
      injection Em as <-. eexists. split; [reflexivity|].
      destruct (simplify_migrations_Kok g sym asym) as [K1 K2]; [exact (v_migs _ V)|exact Es|].
      cbn [fst snd]. apply Forall_app. split; apply Forall_forall; intros x Hx;
        apply in_map_iff in Hx; destruct Hx as (y & <- & Hy).
      - apply sym_SOK. rewrite Forall_forall in K1. now apply K1.
      - apply smig_SOK. rewrite Forall_forall in K2. now apply K2. }
    clear Em Ed.
    match goal with |- TOK ?KV => assert (keys_ok (map fst KV) = true) as K end.
    { rewrite !map_app. unfold nonempty_str, nonempty_list, meta_nonempty.
      destruct (String.eqb (g_desc g) ""), (map JStr (g_doi g)), (g_meta g) as [ | | | | |[|]| ],
        (map jv_of_pulse (g_pulses g)); destruct Hm as [-> | (lm & -> & _)]; reflexivity. }
    destruct (keys_ok_spec _ K) as (K1 & K2 & K3).
    constructor; [exact K1| |exact K2|exact K3].
    apply Forall_app. split; [apply Tentry_str; discriminate|].
    apply (Forall_app Tentry [_; _]). split.
    { constructor; [apply Tentry_fin; [discriminate|discriminate|reflexivity]|].
      constructor; [|constructor]. apply Tentry_fin; [discriminate|discriminate|].
      exact (fin_pos _ (v_gt _ V)). }
    apply Forall_app. split; [apply Tentry_nlist; [discriminate|discriminate|exact (gen_strs fin (g_doi g))]|].
    apply Forall_app. split.
    { unfold meta_nonempty. destruct (g_meta g) as [ | | | | |[|]| ]; repeat constructor. }
    apply (Forall_app Tentry [_]). split; [constructor; [|constructor]; apply Tentry_SOK; auto|].
    apply Forall_app. split.
    { destruct Hm as [-> | (l & -> & Hl)]; [constructor|]. constructor; [|constructor]. apply Tentry_SOK; auto. }
    apply Tentry_nlist; [discriminate|discriminate|]. apply gen_list.
    intros p Hp. exact (pulse_fin g p (v_pulses _ V p Hp)).
  Qed.

  Theorem stringify_strict_simplified g doc :
    Valid g -> asdict_simplified g = Ok doc ->
    exists d, stringify_infinities doc = Ok d /\ strict_outside_meta d = true.
  Proof.
    intros V E. destruct (simp_TOK g doc V E) as (kv & -> & T).
    destruct (stringify_TOK kv T) as (kv' & H1 & H2 & _).
    exists (JDict kv'). split; [exact H1|now apply strictG_strict].
  Qed.

  (* Original (without [InfUnique]; see [unstringify_stringify]):
       Valid g -> asdict_simplified g = Ok doc -> stringify_infinities doc = Ok d ->
       unstringify_infinities d = Ok doc. *)
  Theorem unstringify_stringify_simplified g doc d :
    InfUnique ->
    Valid g -> asdict_simplified g = Ok doc -> stringify_infinities doc = Ok d ->
    unstringify_infinities d = Ok doc.
  Proof.
    intros U V E H. destruct (simp_TOK g doc V E) as (kv & -> & T).
    destruct (stringify_TOK kv T) as (kv' & H1 & _ & H3).
    rewrite H1 in H. injection H as <-. exact (H3 U).
  Qed.

  (* a YAML document has no "Infinity" strings to convert: reading it is the identity *)
  Theorem unstringify_asdict g : Valid g -> unstringify_infinities (asdict g) = Ok (asdict g).
  Proof.
    intros _. unfold asdict, unstringify_infinities, map_field.
    cbn [assoc]. seqb. cbv iota.
    rewrite (mapM_map_ok unstringify_start jv_of_deme jv_of_deme) by (intros; reflexivity).
    cbn [bind dict_replace]. seqb. cbv iota. cbn [assoc]. seqb. cbv iota.
    rewrite (mapM_map_ok unstringify_start jv_of_mig jv_of_mig) by (intros; reflexivity).
    cbn [bind dict_replace]. seqb. cbv iota. cbn [assoc]. seqb. cbv iota. reflexivity.
  Qed.

  (* 3. the string is converted only in deme and migration start_time and the two defaults:
        every other entry of the document is returned unchanged *)
  Lemma map_field_spec k r f kv kv' : map_field k r f kv = Ok kv' ->
    map fst kv' = map fst kv /\ forall k', k' <> k -> assoc k' kv' = assoc k' kv.
  Proof.
    unfold map_field. destruct (assoc k kv) as [[ | | | |l| | ]|]; try discriminate.
    - destruct (mapM f l) as [l'|]; cbn [bind]; [|discriminate]. intros [= <-].
      split; [apply dr_fst|]. intros k' Hk. apply assoc_dr_other. congruence.
    - destruct r; [discriminate|]. intros [= <-]. auto.
  Qed.

  Theorem unstringify_only_there d d' :
    unstringify_infinities d = Ok d' ->
    exists kv kv', d = JDict kv /\ d' = JDict kv' /\ map fst kv' = map fst kv /\
      forall k, k <> "demes" -> k <> "migrations" -> k <> "defaults" -> assoc k kv' = assoc k kv.
  Proof.
    destruct d as [ | | | | |kv| ]; try discriminate. unfold unstringify_infinities.
    destruct (map_field "demes" true unstringify_start kv) as [kv1|] eqn:E1; cbn [bind]; [|discriminate].
    destruct (map_field "migrations" false unstringify_start kv1) as [kv2|] eqn:E2; cbn [bind]; [|discriminate].
    apply map_field_spec in E1, E2. destruct E1 as [F1 A1], E2 as [F2 A2].
    match goal with |- bind ?m _ = _ -> _ => destruct m as [kv3|] eqn:E3 end; cbn [bind]; [|discriminate].
    intros [= <-]. exists kv, kv3. split; [reflexivity|]. split; [reflexivity|].
    assert (map fst kv3 = map fst kv2 /\ forall k, k <> "defaults" -> assoc k kv3 = assoc k kv2) as [F3 A3].
    { destruct (assoc "defaults" kv2) as [[ | | | | |dv| ]|]; try discriminate;
        try (injection E3 as <-; split; [reflexivity|intros; reflexivity]).
      match type of E3 with bind ?m _ = _ => destruct m as [dv1|] end; cbn [bind] in E3; [|discriminate].
      match type of E3 with bind ?m _ = _ => destruct m as [dv2|] end; cbn [bind] in E3; [|discriminate].
      injection E3 as <-. split; [apply dr_fst|]. intros k Hk. apply assoc_dr_other. congruence. }
    split; [congruence|]. intros k H1 H2 H3. rewrite A3, A2, A1; auto.
  Qed.

  Theorem unstringify_start_only v v' :
    unstringify_start v = Ok v' ->
    exists kv kv', v = JDict kv /\ v' = JDict kv' /\ map fst kv' = map fst kv /\
      forall k, k <> "start_time" -> assoc k kv' = assoc k kv.
  Proof.
    destruct v as [ | | | | |kv| ]; try discriminate. unfold unstringify_start.
    assert (exists kv', JDict kv = JDict kv' /\ map fst kv' = map fst kv /\
              forall k, k <> "start_time" -> assoc k kv' = assoc k kv) as Hid
      by (exists kv; auto).
    destruct (assoc "start_time" kv) as [[ | | |s| | | ]|]; intros [= <-];
      try (destruct Hid as (kv' & H1 & H2); exists kv, kv'; split; [reflexivity|]; split; assumption).
    destruct (String.eqb s INFINITY_STR).
    - exists kv, (dict_replace "start_time" (JNum ninf) kv). split; [reflexivity|]. split; [reflexivity|].
      split; [apply dr_fst|]. intros k Hk. apply assoc_dr_other. congruence.
    - destruct Hid as (kv' & H1 & H2); exists kv, kv'; split; [reflexivity|]; split; assumption.
  Qed.

  (* 4. nulls: a null that is a value of a dictionary, or an element of a list that is a value of a
        dictionary, anywhere outside top-level metadata (nested through dictionaries and lists of
        dictionaries) is refused by the null check itself *)
  Inductive NullAt : jv -> Prop :=
  | NullVal kv k : assoc k kv = Some JNull -> NullAt (JDict kv)
  | NullElem kv k l : assoc k kv = Some (JList l) -> In JNull l -> NullAt (JDict kv)
  | NullSub kv k v : assoc k kv = Some v -> NullAt v -> NullAt (JDict kv)
  | NullSubList kv k l v : assoc k kv = Some (JList l) -> In v l -> NullAt v -> NullAt (JDict kv).

  Lemma jdepth_dict kv p : In p kv -> (jdepth (snd p) < jdepth (JDict kv))%nat.
  Proof.
    cbn. induction kv as [|q kv IH]; cbn; [tauto|]. intros [->|H]; [lia|]. specialize (IH H). lia.
  Qed.
  Lemma jdepth_list l e : In e l -> (jdepth e < jdepth (JList l))%nat.
  Proof.
    cbn. induction l as [|q l IH]; cbn; [tauto|]. intros [->|H]; [lia|]. specialize (IH H). lia.
  Qed.
  Lemma jdepth_pos v : (1 <= jdepth v)%nat.
  Proof. destruct v; cbn; lia. Qed.

  Lemma forallb_false_in {A} (f : A -> bool) l x : In x l -> f x = false -> forallb f l = false.
  Proof.
    intros Hin Hf. destruct (forallb f l) eqn:E; [|reflexivity].
    rewrite forallb_forall in E. rewrite (E x Hin) in Hf. discriminate.
  Qed.

  Lemma NullAt_dict v : NullAt v -> exists kv, v = JDict kv.
  Proof. intros []; eauto. Qed.

  Lemma NullAt_no_nulls v : NullAt v -> forall fuel, (jdepth v <= fuel)%nat -> no_nulls fuel v = false.
  Proof.
    induction 1 as [kv k Ha | kv k l Ha Hl | kv k v Ha Hv IH | kv k l v Ha Hl Hv IH]; intros fuel Hf;
      (destruct fuel as [|fuel]; [pose proof (jdepth_pos (JDict kv)); lia|]);
      apply assoc_in in Ha; pose proof (jdepth_dict kv _ Ha) as Hd; cbn [snd] in Hd;
      cbn [no_nulls]; apply (forallb_false_in _ _ _ Ha); cbn [snd].
    - reflexivity.
    - now apply (forallb_false_in _ _ JNull).
    - destruct (NullAt_dict v Hv) as (kv0 & ->). apply IH. lia.
    - apply (forallb_false_in _ _ v Hl). destruct (NullAt_dict v Hv) as (kv0 & ->). apply IH.
      pose proof (jdepth_list l _ Hl). lia.
  Qed.

  Theorem null_refused kv :
    NoDup (map fst kv) ->
    NullAt (JDict (filter (fun p => negb (String.eqb (fst p) "metadata")) kv)) ->
    no_null_values (JDict kv) = Err ValueErr.
  Proof.
    intros _ H. unfold no_null_values. rewrite (NullAt_no_nulls _ H); [reflexivity|lia].
  Qed.

  Lemma filter_idem {A} (f : A -> bool) l : filter f (filter f l) = filter f l.
  Proof.
    induction l as [|a l IH]; cbn; [reflexivity|]. destruct (f a) eqn:E; cbn; [rewrite E, IH|]; auto.
  Qed.

  (* nulls inside metadata do not stop the null check *)
  Theorem null_metadata_kept kv m :
    NoDup (map fst kv) -> assoc "metadata" kv = Some m ->
    no_null_values (JDict kv) =
    no_null_values (JDict (filter (fun p => negb (String.eqb (fst p) "metadata")) kv)).
  Proof. intros _ _. unfold no_null_values. rewrite filter_idem. reflexivity. Qed.

  (* the null check accepts a document without null / bool outside metadata *)
  Lemma no_null_ok P kv : strictG P kv = true -> no_null_values (JDict kv) = Ok tt.
  Proof.
    intro H. unfold no_null_values. apply raise_if_false. apply negb_false_iff.
    apply (gen_no_nulls P). cbn [gen]. apply forallb_forall. intros p Hp. apply filter_In in Hp.
    destruct Hp as [Hp Hk]. unfold strictG in H. rewrite forallb_forall in H. specialize (H p Hp).
    apply negb_true_iff in Hk. rewrite Hk in H. exact H.
  Qed.

  Lemma TOK_any kv : TOK kv -> strictG anyn kv = true.
  Proof.
    intros [_ HF _ _]. apply forallb_forall. intros p Hp. rewrite Forall_forall in HF.
    specialize (HF p Hp). unfold Tentry in HF.
    destruct (String.eqb (fst p) "metadata"); [reflexivity|]. cbn [orb].
    destruct (String.eqb (fst p) "demes" || String.eqb (fst p) "migrations").
    - destruct HF as (l & -> & Hl). cbn [gen]. apply forallb_forall. intros x Hx.
      rewrite Forall_forall in Hl. destruct (Hl x Hx) as (kv0 & -> & Hs). cbn [gen]. now apply SOK_any.
    - apply (gen_mono fin); [reflexivity|exact HF].
  Qed.

  (* 5. dump then load at the level of data, fully-resolved form, both formats *)
  (* Original: without the first hypothesis.  For JSON the loaded document has [JNum ninf] where
     [asdict g] has the (infinite) root start times, so [d_start d' = d_start d] in [SameGraph]
     needs the positive infinity to be unique (see [unstringify_stringify]); YAML needs nothing. *)
  Theorem roundtrip_resolved g json :
    (json = true -> InfUnique) ->
    Valid g -> exists d g', dump_pre json false g = Ok d /\ load_post d = Ok g' /\ SameGraph g g' /\
                            asdict g' = asdict g.
  Proof.
    intros U V. destruct (asdict_fixed g V) as (g' & F & S & A).
    destruct (asdict_TOK g V) as (kv & E & T).
    destruct json.
    - destruct (stringify_TOK kv T) as (kv' & H1 & H2 & H3).
      exists (JDict kv'), g'. split; [|split; [|split; [exact S|exact A]]].
      + unfold dump_pre. cbn [bind]. now rewrite E.
      + unfold load_post, load_asdict_post. rewrite (no_null_ok fin kv' H2). cbn [bind].
        rewrite (H3 (U eq_refl)). cbn [bind]. now rewrite <- E.
    - exists (asdict g), g'. split; [reflexivity|]. split; [|split; [exact S|exact A]].
      unfold load_post, load_asdict_post. rewrite E at 1. rewrite (no_null_ok anyn kv (TOK_any kv T)).
      cbn [bind]. rewrite (unstringify_asdict g V). exact F.
  Qed.
End IOProofs.

Print Assumptions stringify_strict.
Print Assumptions stringify_strict_simplified.
Print Assumptions unstringify_stringify.
Print Assumptions unstringify_stringify_simplified.
Print Assumptions unstringify_asdict.
Print Assumptions unstringify_only_there.
Print Assumptions unstringify_start_only.
Print Assumptions null_refused.
Print Assumptions null_metadata_kept.
Print Assumptions roundtrip_resolved.

(* non-vacuity of the added hypothesis: the computable instance has a single positive infinity *)
From Demes Require Base.NumQ.
Lemma InfUnique_NumQ : @InfUnique Base.NumQ.NumQ.
Proof. intros [q i| | |]; cbn; intros H1 H2; try discriminate; reflexivity. Qed.
Print Assumptions InfUnique_NumQ.
