(* C04 / C16: the simplified round trip, and nulls anywhere.
   Auxiliary files (in dependency order): Proofs/IOShape.v, Proofs/IOShapeResolve.v. *)
From Coq Require Import Bool List String QArith Lqa Arith Lia Permutation.
From Demes Require Import Base.Num Base.Py Model.MDM Model.Codec Model.MigMat Model.Resolve
  Model.Simplify Model.IO Spec.Valid Proofs.MigMatProofs Proofs.FixedPoint Proofs.ResolveMigs
  Proofs.SimplifyDemes Proofs.SimplifyProofs Proofs.IOProofs Proofs.ResolveInv
  Proofs.IOShape Proofs.IOShapeResolve.
Import ListNotations.
Local Open Scope string_scope.
Local Open Scope list_scope.

Section IOMore.
  Context {N : NumOps} {L : NumLaws N} {SL : SumLaws N L}.

  (* ------------------------------------------------------------------ *)
  (* a document of the shape the dumpers produce has no "Infinity" string to convert *)
  Lemma unstringify_start_SOK kv : SOK kv -> unstringify_start (JDict kv) = Ok (JDict kv).
  Proof.
    intro H. cbn. destruct (SOK_cases kv H) as [[H1 _]|(x & H1 & _)]; now rewrite H1.
  Qed.

  Lemma mapM_unstringify_SOK l : Forall SOKv l -> mapM unstringify_start l = Ok l.
  Proof.
    induction 1 as [|v l (kv & -> & Hs) _ IH]; [reflexivity|].
    cbn [mapM]. rewrite (unstringify_start_SOK kv Hs). cbn [bind]. rewrite IH. reflexivity.
  Qed.

  Lemma unstringify_TOK kv : TOK kv -> unstringify_infinities (JDict kv) = Ok (JDict kv).
  Proof.
    intros [ND HF HD HN].
    destruct (assoc "demes" kv) as [vd|] eqn:Ed; [|apply assoc_none in Ed; contradiction].
    destruct (Tentry_list _ _ _ HF Ed (or_introl eq_refl)) as (l1 & -> & Hl1).
    apply assoc_none in HN.
    unfold unstringify_infinities, map_field. rewrite Ed, (mapM_unstringify_SOK l1 Hl1). cbn [bind].
    rewrite (dr_same _ _ _ Ed).
    destruct (assoc "migrations" kv) as [vm|] eqn:Em.
    - destruct (Tentry_list _ _ _ HF Em (or_intror eq_refl)) as (l2 & -> & Hl2).
      rewrite (mapM_unstringify_SOK l2 Hl2). cbn [bind]. rewrite (dr_same _ _ _ Em), HN. reflexivity.
    - cbn [bind]. rewrite HN. reflexivity.
  Qed.

  (* the YAML analogue of [unstringify_stringify_simplified] *)
  Theorem unstringify_asdict_simplified g doc :
    Valid g -> asdict_simplified g = Ok doc -> unstringify_infinities doc = Ok doc.
  Proof. intros V E. destruct (simp_TOK g doc V E) as (kv & -> & T). exact (unstringify_TOK kv T). Qed.

  (* dump (simplified) then load, both formats, at the level of data *)
  Theorem roundtrip_simplified g json :
    SumOne -> SumOK -> (json = true -> InfUnique) -> Valid g ->
    exists d g', dump_pre json true g = Ok d /\ load_post d = Ok g' /\ GraphVEq g g'.
  Proof.
    intros S1 SO U V. destruct (simplify_resolves g S1 SO V) as (doc & g' & E & F & G).
    destruct (simp_TOK g doc V E) as (kv & -> & T). destruct json.
    - destruct (stringify_TOK kv T) as (kv' & H1 & H2 & H3).
      exists (JDict kv'), g'. split; [|split; [|exact G]].
      + unfold dump_pre. rewrite E. cbn [bind]. exact H1.
      + unfold load_post, load_asdict_post. rewrite (no_null_ok fin kv' H2). cbn [bind].
        rewrite (H3 (U eq_refl)). cbn [bind]. exact F.
    - exists (JDict kv), g'. split; [|split; [|exact G]].
      + unfold dump_pre. rewrite E. reflexivity.
      + unfold load_post, load_asdict_post. rewrite (no_null_ok anyn kv (TOK_any kv T)). cbn [bind].
        rewrite (unstringify_TOK kv T). cbn [bind]. exact F.
  Qed.

  (* ------------------------------------------------------------------ *)
  (* a JNull anywhere outside the top-level metadata, however deeply nested in dictionaries and lists *)
  Inductive HasNull : jv -> Prop :=
  | HN_here : HasNull JNull
  | HN_list l v : In v l -> HasNull v -> HasNull (JList l)
  | HN_dict kv k v : In (k, v) kv -> HasNull v -> HasNull (JDict kv).

  (* every dictionary inside the value has pairwise distinct keys (as every parsed YAML / JSON
     document and every Python dict has) *)
  Inductive UniqueKeys : jv -> Prop :=
  | UK_scalar v : is_list v = false -> is_dict v = false -> UniqueKeys v
  | UK_list l : (forall e, In e l -> UniqueKeys e) -> UniqueKeys (JList l)
  | UK_dict kv : NoDup (map fst kv) -> (forall k w, In (k, w) kv -> UniqueKeys w) -> UniqueKeys (JDict kv).

  Lemma HasNull_visible v : HasNull v -> UniqueKeys v -> HasNullV v.
  Proof.
    induction 1 as [|l v Hin Hv IH|kv k v Hin Hv IH]; intro U.
    - constructor.
    - inversion U as [? Hl _|? Hu|]; subst; [discriminate Hl|].
      exact (HV_list l v Hin (IH (Hu v Hin))).
    - inversion U as [? _ Hd| |? ND Hu]; subst; [discriminate Hd|].
      exact (HV_dict kv k v (in_assoc k kv v ND Hin) (IH (Hu k v Hin))).
  Qed.

  (* the general form: a null at a position that lookups can reach (list elements, and dictionary
     entries not shadowed by an earlier equal key) outside the top-level metadata.  Either the null
     walker refuses the document, or (for nulls hidden inside a list nested in a list, which the
     walker does not enter) resolution's type checks do. *)
  Theorem null_visible_refused kv :
    (exists k v, assoc k kv = Some v /\ k <> "metadata" /\ HasNullV v) ->
    exists e, load_post (JDict kv) = Err e.
  Proof.
    intros (k & v & Ha & Hk & HN).
    destruct (load_post (JDict kv)) as [g|e] eqn:E; [exfalso|eauto].
    unfold load_post, load_asdict_post in E. mbind E d Hd. mbind Hd u Hnn.
    destruct (unstringify_Tr kv d Hd) as (kv' & -> & T).
    destruct (T k v Ha) as (v' & Ha' & Hw).
    pose proof (Hw (fromdict_walkable kv' g k v' E Ha' Hk)) as W.
    unfold no_null_values in Hnn. apply raise_if_ok in Hnn. apply negb_false_iff in Hnn.
    set (body := filter (fun p => negb (String.eqb (fst p) "metadata")) kv) in Hnn.
    assert (In (k, v) body) as Hin.
    { apply filter_In. split; [exact (assoc_in _ _ _ Ha)|]. cbn [fst].
      apply negb_true_iff. now apply String.eqb_neq. }
    pose proof (jdepth_dict body _ Hin) as Hdep. cbn [snd] in Hdep.
    rewrite (chk_in_false _ body k v Hin) in Hnn; [discriminate|].
    apply (walker_complete v HN W). lia.
  Qed.

  (* every loader refuses such a document: either the null walker, or (for nulls hidden inside a list
     nested in a list, which the walker does not enter) resolution's type checks *)
  (* ORIGINAL STATEMENT (false: see [null_anywhere_original_false] below, proved for NumQ):
       Theorem null_anywhere_refused kv :
         NoDup (map fst kv) ->
         (exists k v, In (k, v) kv /\ k <> "metadata" /\ HasNull v) ->
         exists e, load_post (JDict kv) = Err e.
     The model's dictionaries are association lists and only the top level is required to have
     distinct keys.  A nested dictionary may repeat a key; the second entry is invisible to every
     lookup of fromdict (assoc returns the first), so a null hidden in a list nested in a list under
     the repeated key is seen neither by the walker (it does not enter lists in lists) nor by
     resolution.  Counter-example: a deme  {name: a, epochs: [{start_size: 1}], epochs: [[null]]}.
     Python dictionaries and parsed YAML / JSON mappings cannot repeat a key, so the statement is
     given with the hypothesis [UniqueKeys v] on the value that contains the null (implied by
     [UniqueKeys (JDict kv)], see [null_anywhere_refused_doc]). *)
  Theorem null_anywhere_refused kv :
    NoDup (map fst kv) ->
    (exists k v, In (k, v) kv /\ k <> "metadata" /\ UniqueKeys v /\ HasNull v) ->
    exists e, load_post (JDict kv) = Err e.
  Proof.
    intros ND (k & v & Hin & Hk & U & HN). apply null_visible_refused.
    exists k, v. split; [exact (in_assoc k kv v ND Hin)|]. split; [exact Hk|].
    exact (HasNull_visible v HN U).
  Qed.

  (* the same for a document all of whose dictionaries have distinct keys *)
  Corollary null_anywhere_refused_doc kv :
    UniqueKeys (JDict kv) ->
    (exists k v, In (k, v) kv /\ k <> "metadata" /\ HasNull v) ->
    exists e, load_post (JDict kv) = Err e.
  Proof.
    intros U (k & v & Hin & Hk & HN).
    inversion U as [? _ Hd| |? ND Hu]; subst; [discriminate Hd|].
    apply (null_anywhere_refused kv ND). exists k, v. eauto.
  Qed.
End IOMore.

Print Assumptions roundtrip_simplified.
Print Assumptions unstringify_asdict_simplified.
Print Assumptions null_visible_refused.
Print Assumptions null_anywhere_refused.
Print Assumptions null_anywhere_refused_doc.

(* the original statement of [null_anywhere_refused] fails on the computable instance *)
From Demes Require Base.NumQ.
Definition cex_value : @jv Base.NumQ.NumQ :=
  JList [JDict [("name", JStr "a");
                ("epochs", JList [JDict [("start_size", @JNum Base.NumQ.NumQ (Base.NumQ.QF 1 true))]]);
                ("epochs", JList [JList [JNull]])]].
Definition cex_doc : list (string * @jv Base.NumQ.NumQ) :=
  [("time_units", JStr "generations"); ("demes", cex_value)].
Example null_anywhere_original_false :
  exists g,
    NoDup (map fst cex_doc) /\ In ("demes", cex_value) cex_doc /\ ("demes" <> "metadata")%string /\
    HasNull cex_value /\ load_post (JDict cex_doc) = Ok g.
Proof.
  eexists.
  split; [repeat constructor; cbn; intuition discriminate|].
  split; [right; left; reflexivity|]. split; [discriminate|]. split.
  - eapply HN_list; [left; reflexivity|]. eapply HN_dict; [right; right; left; reflexivity|].
    eapply HN_list; [left; reflexivity|]. eapply HN_list; [left; reflexivity|]. constructor.
  - vm_compute. reflexivity.
Qed.
Print Assumptions null_anywhere_original_false.
