(* The subset search of asdict_simplified is NOT polynomial in the number of demes:
   when the largest clique of a rate set is small, every larger sublist of the demes is
   examined.  search_cost (Model/Cost.v) counts the examined candidates; here:
   - search_cost_erases*: search_cost computes exactly what search computes;
   - combinations_length: |combinations l k| = binomial |l| k;
   - search_cost_lower: without a clique of size >= j the cost is >= sum_{m=j}^{n} C(n,m);
   - sum_binomial_ge: sum_{m=3}^{n} C(n,m) + 1 + n + C(n,2) = 2^n;
   - ring_cost_exponential: for a ring of n >= 4 demes the cost is >= 2^n - 1 - n - C(n,2);
   - computed examples on NumQ for rings of 6, 8, 10 demes. *)
From Coq Require Import Bool List Ascii String Arith Lia FinFun.
From Demes Require Import Base.Num Base.Py Model.MDM Model.Resolve Model.Simplify Model.Cost
  Proofs.SimplifyLists.
Import ListNotations.
Local Open Scope string_scope.
Local Open Scope list_scope.

(* ------------------------------------------------------------------ *)
(* binomial coefficients *)

Lemma binomial_0_r n : binomial n 0 = 1.
Proof. destruct n; reflexivity. Qed.

Lemma binomial_SS n k : binomial (S n) (S k) = binomial n k + binomial n (S k).
Proof. reflexivity. Qed.

Lemma binomial_gt : forall n k, n < k -> binomial n k = 0.
Proof.
  induction n as [|n IH]; intros k H; destruct k as [|k]; try lia; [reflexivity|].
  rewrite binomial_SS, !IH by lia. reflexivity.
Qed.

Lemma binomial_1 n : binomial n 1 = n.
Proof.
  induction n as [|n IH]; [reflexivity|].
  rewrite binomial_SS, IH, binomial_0_r. lia.
Qed.

Lemma binomial_diag n : binomial n n = 1.
Proof.
  induction n as [|n IH]; [reflexivity|].
  rewrite binomial_SS, IH, binomial_gt by lia. lia.
Qed.

Theorem combinations_length {A} (l : list A) : forall k,
  List.length (combinations l k) = binomial (List.length l) k.
Proof.
  induction l as [|x l IH]; intros k; destruct k as [|k]; try reflexivity.
  cbn [combinations List.length]. rewrite app_length, map_length, !IH, binomial_SS. reflexivity.
Qed.

Lemma binomial_sum_S n j d :
  binomial_sum n j (S d) = binomial n (j + d) + binomial_sum n j d.
Proof. reflexivity. Qed.

Lemma binomial_sum_split n j a : forall b,
  binomial_sum n j (a + b) = binomial_sum n j a + binomial_sum n (j + a) b.
Proof.
  induction b as [|b IH].
  - rewrite Nat.add_0_r. cbn. lia.
  - rewrite Nat.add_succ_r, !binomial_sum_S, IH.
    replace (j + (a + b)) with (j + a + b) by lia. lia.
Qed.

Lemma binomial_sum_pascal n : forall d,
  binomial_sum (S n) 0 (S d) = binomial_sum n 0 (S d) + binomial_sum n 0 d.
Proof.
  induction d as [|d IH].
  - cbn [binomial_sum Nat.add]. rewrite !binomial_0_r. reflexivity.
  - rewrite (binomial_sum_S (S n) 0 (S d)), IH.
    rewrite (binomial_sum_S n 0 (S d)), (binomial_sum_S n 0 d).
    cbn [Nat.add]. rewrite binomial_SS. lia.
Qed.

(* sum_{m=0}^{n} C(n,m) = 2^n *)
Lemma binomial_sum_all n : binomial_sum n 0 (S n) = 2 ^ n.
Proof.
  induction n as [|n IH]; [reflexivity|].
  rewrite binomial_sum_pascal, (binomial_sum_S n 0 (S n)), IH.
  cbn [Nat.add]. rewrite binomial_gt by lia. rewrite Nat.pow_succ_r'. lia.
Qed.

Theorem sum_binomial_ge n : 3 <= n ->
  binomial_from n 3 + 1 + n + binomial n 2 = 2 ^ n.
Proof.
  intro H. unfold binomial_from. rewrite <- binomial_sum_all.
  replace (S n) with (3 + (n + 1 - 3)) by lia.
  rewrite binomial_sum_split.
  cbn [binomial_sum Nat.add]. rewrite binomial_0_r, binomial_1. lia.
Qed.

(* the same with the closed form: binomial n 2 = n (n - 1) / 2 *)
Lemma binomial_2 n : 2 * binomial n 2 = n * (n - 1).
Proof.
  induction n as [|n IH]; [reflexivity|].
  rewrite binomial_SS, binomial_1. destruct n as [|n]; [reflexivity|].
  replace (S (S n) - 1) with (S n) by lia. replace (S n - 1) with n in IH by lia. nia.
Qed.

(* ------------------------------------------------------------------ *)
(* search_cost vs search *)

Section CostProofs.
  Context {N : NumOps}.

  Lemma search_cost_erases_gen : forall fuel k all i s,
    match search_cost fuel k all i s with
    | Ok (s', _) => search fuel k all i s = Ok s'
    | Err e => search fuel k all i s = Err e
    end.
  Proof.
    induction fuel as [|fuel IH]; intros k all i s; cbn [search search_cost]; [reflexivity|].
    destruct (Nat.leb 2 (List.length all) && Nat.leb 2 i); [|reflexivity].
    destruct (foldM (try_set k) (combinations all i) (s, false)) as [[s1 b]|e]; cbn [bind];
      [|reflexivity].
    destruct b.
    - specialize (IH k (collapse (st_pairs s1))
                     (Nat.min i (List.length (collapse (st_pairs s1)))) s1).
      destruct (search_cost fuel k (collapse (st_pairs s1))
                  (Nat.min i (List.length (collapse (st_pairs s1)))) s1) as [[s2 c]|e];
        cbn [bind fst]; exact IH.
    - specialize (IH k all (i - 1) s1).
      destruct (search_cost fuel k all (i - 1) s1) as [[s2 c]|e]; cbn [bind fst]; exact IH.
  Qed.

  Theorem search_cost_erases fuel k all i s s' c :
    search_cost fuel k all i s = Ok (s', c) -> search fuel k all i s = Ok s'.
  Proof. intro H. pose proof (search_cost_erases_gen fuel k all i s) as G. now rewrite H in G. Qed.

  Theorem search_cost_erases_err fuel k all i s e :
    search_cost fuel k all i s = Err e -> search fuel k all i s = Err e.
  Proof. intro H. pose proof (search_cost_erases_gen fuel k all i s) as G. now rewrite H in G. Qed.

  Theorem search_cost_complete fuel k all i s s' :
    search fuel k all i s = Ok s' -> exists c, search_cost fuel k all i s = Ok (s', c).
  Proof.
    intro H. pose proof (search_cost_erases_gen fuel k all i s) as G.
    destruct (search_cost fuel k all i s) as [[s2 c]|e]; [|congruence].
    exists c. congruence.
  Qed.

  Theorem search_cost_complete_err fuel k all i s e :
    search fuel k all i s = Err e -> search_cost fuel k all i s = Err e.
  Proof.
    intro H. pose proof (search_cost_erases_gen fuel k all i s) as G.
    destruct (search_cost fuel k all i s) as [[s2 c]|e']; congruence.
  Qed.

  (* ------------------------------------------------------------------ *)
  (* the lower bound *)

  Lemma try_set_no_clique k s b ds :
    clique (st_pairs s) ds = false -> try_set k (s, b) ds = Ok (s, b).
  Proof. unfold clique, try_set. intros ->. reflexivity. Qed.

  Lemma fold_no_clique k s : forall l b,
    (forall ds, In ds l -> clique (st_pairs s) ds = false) ->
    foldM (try_set k) l (s, b) = Ok (s, b).
  Proof.
    induction l as [|ds l IH]; intros b H; [reflexivity|].
    cbn [foldM]. rewrite try_set_no_clique by (apply H; now left). cbn [bind].
    apply IH. intros ds' Hd. apply H. now right.
  Qed.

  (* running from size i down to size j without finding a clique costs
     sum_{m=j}^{i} C(|all|, m) *)
  Lemma search_cost_lower_gen k all j s :
    2 <= j ->
    (forall m ds, j <= m <= List.length all -> In ds (combinations all m) ->
                  clique (st_pairs s) ds = false) ->
    forall d fuel i s' c,
      i + 1 = j + d -> i <= List.length all ->
      search_cost fuel k all i s = Ok (s', c) ->
      binomial_sum (List.length all) j d <= c.
  Proof.
    intros Hj Hno. induction d as [|d IH]; intros fuel i s' c Hi Hle H; [cbn; lia|].
    destruct fuel as [|fuel]; [discriminate|].
    cbn [search_cost] in H.
    assert (E1 : Nat.leb 2 (List.length all) = true) by (apply Nat.leb_le; lia).
    assert (E2 : Nat.leb 2 i = true) by (apply Nat.leb_le; lia).
    rewrite E1, E2 in H. cbn [andb] in H.
    rewrite fold_no_clique in H by (intros ds Hd; apply (Hno i); [lia|exact Hd]).
    cbn [bind] in H.
    destruct (search_cost fuel k all (i - 1) s) as [[s2 c2]|e] eqn:E; cbn [bind fst snd] in H;
      [|discriminate].
    injection H as _ <-.
    rewrite binomial_sum_S, combinations_length.
    replace (j + d) with i by lia.
    assert (binomial_sum (List.length all) j d <= c2); [|lia].
    eapply (IH fuel (i - 1)); [lia|lia|exact E].
  Qed.

  (* NoDup all is not needed *)
  Theorem search_cost_lower fuel k all j s s' c :
    2 <= j ->
    (forall m ds, j <= m <= List.length all -> In ds (combinations all m) ->
                  clique (st_pairs s) ds = false) ->
    search_cost fuel k all (List.length all) s = Ok (s', c) ->
    binomial_from (List.length all) j <= c.
  Proof.
    intros Hj Hno H. unfold binomial_from.
    destruct (le_lt_dec j (List.length all)) as [Hle|Hlt].
    - eapply (search_cost_lower_gen k all j s Hj Hno _ fuel (List.length all)); [lia|lia|exact H].
    - replace (List.length all + 1 - j) with 0 by lia. cbn. lia.
  Qed.

  (* ------------------------------------------------------------------ *)
  (* the ring *)

  Lemma unary_inj : forall i j, unary i = unary j -> i = j.
  Proof.
    induction i as [|i IH]; intros [|j] H; cbn in H; try discriminate; [reflexivity|].
    injection H as H. f_equal. auto.
  Qed.

  Lemma name_of_inj i j : name_of i = name_of j -> i = j.
  Proof. unfold name_of. intro H. injection H as H. now apply unary_inj. Qed.

  Lemma names_length n : List.length (names n) = n.
  Proof. unfold names. now rewrite map_length, seq_length. Qed.

  Lemma names_nodup n : NoDup (names n).
  Proof.
    unfold names. apply Injective_map_NoDup; [|apply seq_NoDup].
    intros i j. apply name_of_inj.
  Qed.

  Lemma names_in n a : In a (names n) -> exists x, a = name_of x /\ x < n.
  Proof.
    unfold names. intro H. apply in_map_iff in H. destruct H as (x & <- & Hx).
    apply in_seq in Hx. exists x. split; [reflexivity|lia].
  Qed.

  Lemma ring_pairs_adj n x y :
    In (name_of x, name_of y) (ring_pairs n) ->
    (y = S x \/ (S x = n /\ y = 0)) \/ (x = S y \/ (S y = n /\ x = 0)).
  Proof.
    unfold ring_pairs. intro H. apply in_flat_map in H. destruct H as (i & Hi & H).
    apply in_seq in Hi.
    assert (M : (S i = n /\ Nat.modulo (S i) n = 0) \/ (S i < n /\ Nat.modulo (S i) n = S i)).
    { destruct (Nat.eq_dec (S i) n) as [E|E].
      - left. split; [exact E|]. rewrite E. apply Nat.mod_same. lia.
      - right. split; [lia|]. apply Nat.mod_small. lia. }
    destruct H as [H|[H|[]]]; injection H as H1 H2;
      apply unary_inj in H1; apply unary_inj in H2; lia.
  Qed.

  Lemma perms2_first3 {A} (a b c : A) rest :
    In (a, b) (perms2 (a :: b :: c :: rest)) /\
    In (a, c) (perms2 (a :: b :: c :: rest)) /\
    In (b, c) (perms2 (a :: b :: c :: rest)).
  Proof.
    unfold perms2. cbn [List.length seq flat_map nth_error remove_nth map].
    repeat split.
    - apply in_or_app. left. now left.
    - apply in_or_app. left. right. now left.
    - apply in_or_app. right. apply in_or_app. left. right. now left.
  Qed.

  (* three distinct nodes of a ring with n >= 4 are never pairwise adjacent *)
  Theorem ring_no_clique n m ds :
    4 <= n -> 3 <= m -> In ds (combinations (names n) m) ->
    clique (ring_pairs n) ds = false.
  Proof.
    intros Hn Hm Hin.
    destruct (combinations_spec _ _ _ Hin) as (Hlen & Hsub & Hnd).
    specialize (Hnd (names_nodup n)).
    destruct ds as [|a [|b [|c rest]]]; cbn in Hlen; try lia.
    destruct (clique (ring_pairs n) (a :: b :: c :: rest)) eqn:E; [exfalso|reflexivity].
    unfold clique in E. rewrite forallb_forall in E.
    destruct (perms2_first3 a b c rest) as (P1 & P2 & P3).
    apply E, mem_pair_in in P1. apply E, mem_pair_in in P2. apply E, mem_pair_in in P3.
    destruct (names_in n a) as (x & -> & Hx); [apply Hsub; cbn; auto|].
    destruct (names_in n b) as (y & -> & Hy); [apply Hsub; cbn; auto|].
    destruct (names_in n c) as (z & -> & Hz); [apply Hsub; cbn; auto|].
    apply ring_pairs_adj in P1, P2, P3.
    assert (x <> y).
    { intros ->. inversion Hnd as [|? ? Hni _]; subst. apply Hni. now left. }
    assert (x <> z).
    { intros ->. inversion Hnd as [|? ? Hni _]; subst. apply Hni. right. now left. }
    assert (y <> z).
    { intros ->. inversion Hnd as [|? ? _ Hnd2]; subst.
      inversion Hnd2 as [|? ? Hni _]; subst. apply Hni. now left. }
    lia.
  Qed.

  Theorem ring_cost_lower fuel k n syms asym s' c :
    4 <= n ->
    search_cost fuel k (names n) n (mkS syms asym (ring_pairs n)) = Ok (s', c) ->
    binomial_from n 3 <= c.
  Proof.
    intros Hn H.
    pose proof (search_cost_lower fuel k (names n) 3 (mkS syms asym (ring_pairs n)) s' c) as G.
    rewrite names_length in G. apply G; [lia| |exact H].
    intros m ds Hm Hd. cbn [st_pairs]. apply (ring_no_clique n m); [lia|lia|exact Hd].
  Qed.

  Theorem ring_cost_exponential fuel k n syms asym s' c :
    4 <= n ->
    search_cost fuel k (names n) n (mkS syms asym (ring_pairs n)) = Ok (s', c) ->
    2 ^ n <= c + 1 + n + binomial n 2.
  Proof.
    intros Hn H. pose proof (ring_cost_lower fuel k n syms asym s' c Hn H).
    rewrite <- (sum_binomial_ge n) by lia. lia.
  Qed.

End CostProofs.

Print Assumptions search_cost_erases.
Print Assumptions search_cost_erases_err.
Print Assumptions search_cost_complete.
Print Assumptions search_cost_complete_err.
Print Assumptions combinations_length.
Print Assumptions search_cost_lower.
Print Assumptions sum_binomial_ge.
Print Assumptions ring_no_clique.
Print Assumptions ring_cost_lower.
Print Assumptions ring_cost_exponential.

(* ------------------------------------------------------------------ *)
(* computed instances (exact-rational numbers): rings of 6, 8 and 10 demes, run exactly as
   simplify_migrations runs the search: all = collapse pairs, i = |all|,
   fuel = |all| + |pairs| + 1 *)
From Demes Require Import Base.NumQ.

Definition ring_key : @key NumQ := (n1, None, None).
Definition ring_asym (n : nat) : list (@smig NumQ) :=
  map (fun p => mkSmig (fst p) (snd p) n1 None None) (ring_pairs n).
(* (examined candidates, symmetric groups produced, directional migrations left) *)
Definition ring_run (n : nat) : option (nat * nat * nat) :=
  let pairs := ring_pairs n in
  let all := collapse pairs in
  match search_cost (List.length all + List.length pairs + 1) ring_key all (List.length all)
                    (mkS [] (ring_asym n) pairs) with
  | Ok (s, c) => Some (c, List.length (st_sym s), List.length (st_asym s))
  | Err _ => None
  end.

Example ring_all_6 : collapse (ring_pairs 6) = names 6. Proof. vm_compute. reflexivity. Qed.
Example ring_all_8 : collapse (ring_pairs 8) = names 8. Proof. vm_compute. reflexivity. Qed.
Example ring_all_10 : collapse (ring_pairs 10) = names 10. Proof. vm_compute. reflexivity. Qed.

Eval vm_compute in (ring_run 6, ring_run 8, ring_run 10).

(* cost = 2^n - 1 - n: every sublist of size >= 2 is examined; the n edges are merged as
   n two-deme groups only at the very end *)
Example ring_cost_6 : ring_run 6 = Some (57, 6, 0). Proof. vm_compute. reflexivity. Qed.
Example ring_cost_8 : ring_run 8 = Some (247, 8, 0). Proof. vm_compute. reflexivity. Qed.
Example ring_cost_10 : ring_run 10 = Some (1013, 10, 0). Proof. vm_compute. reflexivity. Qed.

(* the bound of ring_cost_exponential on these numbers *)
Example ring_bound_6 : 2 ^ 6 <= 57 + 1 + 6 + binomial 6 2. Proof. vm_compute. lia. Qed.
Example ring_bound_8 : 2 ^ 8 <= 247 + 1 + 8 + binomial 8 2. Proof. vm_compute. lia. Qed.
Example ring_bound_10 : 2 ^ 10 <= 1013 + 1 + 10 + binomial 10 2. Proof. vm_compute. lia. Qed.
(* and the exact value 2^n - 1 - n *)
Example ring_exact : (57 + 1 + 6 = 2 ^ 6 /\ 247 + 1 + 8 = 2 ^ 8 /\ 1013 + 1 + 10 = 2 ^ 10).
Proof. vm_compute. auto. Qed.

Print Assumptions ring_cost_6.
Print Assumptions ring_cost_8.
Print Assumptions ring_cost_10.
