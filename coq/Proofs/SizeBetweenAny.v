(* C13 -- between-ness of Deme.size_at for EVERY number instance (binary64 included), with no
   arithmetic hypothesis.  Deme.size_at ends with
       lo = min(epoch.start_size, epoch.end_size); hi = max(epoch.start_size, epoch.end_size)
       return min(max(N, lo), hi)
   (the repair of finding F24: binary64 rounding of the interpolation formula could leave the
   interval of the two sizes in the last place).  Whatever the arithmetic computed for N, the
   returned value -- unless it is NaN -- lies between the two sizes of the owning epoch.  Only the
   order laws (NumLaws) are used; nothing is assumed about nadd / nmul / ndiv / nexp / nlog. *)
From Coq Require Import Bool List String QArith Lqa.
From Demes Require Import Base.Num Base.Py Model.MDM Model.SizeAt Spec.Valid Proofs.SizeAtProofs.
Import ListNotations.
Local Open Scope string_scope.
Local Open Scope list_scope.

Section SizeBetweenAny.
  Context {N : NumOps} {L : NumLaws N}.

  (* min / max of two non-NaN numbers: non-NaN, ordered, and one of the two *)
  Lemma pymin_ok a b : ok a -> ok b ->
    ok (pymin a b) /\ rk (pymin a b) <= rk a /\ rk (pymin a b) <= rk b /\
    (pymin a b = a \/ pymin a b = b).
  Proof.
    intros Ha Hb. unfold pymin. destruct (nlt b a) eqn:E.
    - repeat split; auto; nord.
    - repeat split; auto; nord.
  Qed.

  Lemma pymax_ok a b : ok a -> ok b ->
    ok (pymax a b) /\ rk a <= rk (pymax a b) /\ rk b <= rk (pymax a b) /\
    (pymax a b = a \/ pymax a b = b).
  Proof.
    intros Ha Hb. unfold pymax. destruct (nlt a b) eqn:E.
    - repeat split; auto; nord.
    - repeat split; auto; nord.
  Qed.

  (* min(max(x, lo), hi) with non-NaN lo <= hi is, unless NaN, between lo and hi *)
  Lemma clamp_between_gen lo hi x :
    ok lo -> ok hi -> rk lo <= rk hi -> ok (pymin (pymax x lo) hi) ->
    nle lo (pymin (pymax x lo) hi) = true /\ nle (pymin (pymax x lo) hi) hi = true.
  Proof.
    intros Hlo Hhi Hle. unfold pymin, pymax.
    destruct (nlt x lo) eqn:A.
    - destruct (nlt hi lo) eqn:B; intros _; split; nord.
    - destruct (nlt hi x) eqn:B; intro Hx; split; nord.
  Qed.

  Lemma pos_fin_ok x : pos_fin x -> ok x.
  Proof. intros [H _]. apply lt_true in H. tauto. Qed.

  Theorem clamp_size_between e x :
    ok (e_ssize e) -> ok (e_esize e) -> ok (clamp_size e x) ->
    nle (pymin (e_ssize e) (e_esize e)) (clamp_size e x) = true /\
    nle (clamp_size e x) (pymax (e_ssize e) (e_esize e)) = true.
  Proof.
    intros Hs He Hv. unfold clamp_size in *.
    destruct (pymin_ok _ _ Hs He) as (A1 & A2 & A3 & _).
    destruct (pymax_ok _ _ Hs He) as (B1 & B2 & B3 & _).
    apply clamp_between_gen; auto. lra.
  Qed.

  (* every successful return of size_in_epoch went through the clamp *)
  Lemma size_in_epoch_clamped e t v :
    size_in_epoch e t = Ok v -> exists x, v = clamp_size e x.
  Proof.
    unfold size_in_epoch.
    destruct (isclose0 t (e_end e) || String.eqb (e_sf e) "constant" || neqb (e_ssize e) (e_esize e)).
    { intro H; injection H as <-. eauto. }
    destruct (String.eqb (e_sf e) "exponential").
    { destruct (pdiv (nsub (e_start e) t) (nsub (e_start e) (e_end e))) as [dt|]; cbn [bind]; [|discriminate].
      destruct (pdiv (e_esize e) (e_ssize e)) as [q|]; cbn [bind]; [|discriminate].
      destruct (plog q) as [r|]; cbn [bind]; [|discriminate].
      destruct (pexp (nmul r dt)) as [y|]; cbn [bind]; [|discriminate].
      intro H; injection H as <-. eauto. }
    destruct (String.eqb (e_sf e) "linear"); [|discriminate].
    destruct (pdiv (nsub (e_start e) t) (nsub (e_start e) (e_end e))) as [dt|]; cbn [bind]; [|discriminate].
    intro H; injection H as <-. eauto.
  Qed.

  (* THE property the clamp buys: for every time t (owned or not) and every number instance, a
     non-NaN answer of size_in_epoch lies between min and max of the epoch's two sizes.
     [ok v] only excludes a NaN answer (Python: min(max(nan, lo), hi) is nan); of ValidEpoch only
     "both sizes are non-NaN" is used. *)
  Theorem size_in_epoch_between e t v :
    ValidEpoch e -> size_in_epoch e t = Ok v -> ok v ->
    nle (pymin (e_ssize e) (e_esize e)) v = true /\ nle v (pymax (e_ssize e) (e_esize e)) = true.
  Proof.
    intros V Hsz Hv. destruct (size_in_epoch_clamped _ _ _ Hsz) as [x ->].
    apply clamp_size_between; auto; apply pos_fin_ok; [exact (ve_ssize _ V) | exact (ve_esize _ V)].
  Qed.

  (* the same in the "between the start size and the end size, in one of the two orders" form of
     size_in_epoch_between_R *)
  Corollary size_in_epoch_between_sizes e t v :
    ValidEpoch e -> size_in_epoch e t = Ok v -> ok v ->
    (nle (e_ssize e) v && nle v (e_esize e) = true) \/
    (nle (e_esize e) v && nle v (e_ssize e) = true).
  Proof.
    intros V Hsz Hv. destruct (size_in_epoch_between e t v V Hsz Hv) as [H1 H2].
    pose proof (pos_fin_ok _ (ve_ssize _ V)) as Hs. pose proof (pos_fin_ok _ (ve_esize _ V)) as He.
    unfold pymin, pymax in H1, H2.
    destruct (nlt (e_esize e) (e_ssize e)) eqn:A; destruct (nlt (e_ssize e) (e_esize e)) eqn:B.
    - exfalso. nord.
    - right. apply andb_true_iff; split; assumption.
    - left. apply andb_true_iff; split; assumption.
    - left. apply andb_true_iff; split; nord.
  Qed.

  (* lifted to the whole deme, in the style of size_at_between_R *)
  Theorem size_at_between d t v :
    (forall e, In e (d_epochs d) -> ValidEpoch e) ->
    size_at d t = Ok v -> ok v ->
    v = n0
    \/ (exists e es', d_epochs d = e :: es' /\ v = e_ssize e /\
          nisinf t = true /\ nisinf (d_start d) = true)
    \/ (exists e, In e (d_epochs d) /\ epoch_owns t e = true /\
          nle (pymin (e_ssize e) (e_esize e)) v = true /\
          nle v (pymax (e_ssize e) (e_esize e)) = true).
  Proof.
    intros V Hsz Hv. unfold size_at in Hsz.
    destruct (nisinf t && nisinf (d_start d)) eqn:Hinf.
    - apply andb_true_iff in Hinf. destruct Hinf as [Hi Hj].
      destruct (d_epochs d) as [|e es'] eqn:Ed; [discriminate|].
      injection Hsz as <-. right. left. exists e, es'. auto.
    - destruct (find (epoch_owns t) (d_epochs d)) as [e|] eqn:Hf.
      + apply find_some in Hf. destruct Hf as [Hin Hown].
        right. right. exists e. split; [assumption|]. split; [assumption|].
        exact (size_in_epoch_between e t v (V e Hin) Hsz Hv).
      + injection Hsz as <-. left. reflexivity.
  Qed.
End SizeBetweenAny.

Print Assumptions size_in_epoch_between.
Print Assumptions size_in_epoch_between_sizes.
Print Assumptions size_at_between.
