(* C15 / C01: rename_demes with its validity checks (new names must be identifiers and unique). *)
From Coq Require Import Bool List String QArith Lqa Arith Lia.
From Demes Require Import Base.Num Base.Py Model.MDM Model.Rename Spec.Valid Proofs.RenameProofs.
Import ListNotations.
Local Open Scope string_scope.
Local Open Scope list_scope.

Section RenameChecked.
  Context {N : NumOps} {L : NumLaws N}.

  (* ---------------------------------------------------------------- *)
  (* dict_set / build_index lengths *)

  Lemma dict_set_length {A} k (v : A) d :
    List.length (dict_set k v d) =
    match assoc k d with Some _ => List.length d | None => S (List.length d) end.
  Proof.
    induction d as [|[k' v'] d IH]; simpl; [reflexivity|].
    destruct (String.eqb k k'); simpl; [reflexivity|].
    rewrite IH. destruct (assoc k d); reflexivity.
  Qed.

  Lemma assoc_dict_set {A} x k (v : A) d :
    assoc x (dict_set k v d) = if String.eqb x k then Some v else assoc x d.
  Proof.
    induction d as [|[k' v'] d IH]; simpl.
    - reflexivity.
    - destruct (String.eqb_spec k k') as [E|E]; simpl.
      + subst k'. destruct (String.eqb x k); reflexivity.
      + destruct (String.eqb_spec x k') as [E'|E'].
        * subst k'. destruct (String.eqb_spec x k) as [E2|E2]; [congruence|reflexivity].
        * exact IH.
  Qed.

  Lemma build_index_length_le ds : forall i acc,
    (List.length (build_index i ds acc) <= List.length acc + List.length ds)%nat.
  Proof.
    induction ds as [|d ds IH]; simpl; intros i acc; [lia|].
    specialize (IH (S i) (dict_set (d_name d) i acc)).
    rewrite dict_set_length in IH. destruct (assoc (d_name d) acc); lia.
  Qed.

  Lemma build_index_length_nodup ds : forall i acc,
    List.length (build_index i ds acc) = (List.length acc + List.length ds)%nat ->
    NoDup (map d_name ds) /\ (forall d, In d ds -> assoc (d_name d) acc = None).
  Proof.
    induction ds as [|d ds IH]; simpl; intros i acc H.
    - split; [constructor|intros d []].
    - pose proof (build_index_length_le ds (S i) (dict_set (d_name d) i acc)) as Hle.
      pose proof (dict_set_length (d_name d) i acc) as Hlen.
      destruct (assoc (d_name d) acc) as [j|] eqn:Ea; [lia|].
      destruct (IH (S i) (dict_set (d_name d) i acc)) as [Hnd Hacc]; [lia|].
      assert (Hd : forall d', In d' ds -> d_name d' <> d_name d /\ assoc (d_name d') acc = None).
      { intros d' Hd'. specialize (Hacc d' Hd'). rewrite assoc_dict_set in Hacc.
        destruct (String.eqb_spec (d_name d') (d_name d)) as [E|E]; [discriminate|].
        split; assumption. }
      split.
      + constructor; [|exact Hnd]. intro Hin. apply in_map_iff in Hin.
        destruct Hin as (d' & En & Hd'). apply (proj1 (Hd d' Hd')). exact En.
      + intros d' [Hd'|Hd']; [subst d'; exact Ea|apply (Hd d' Hd')].
  Qed.

  Lemma index_from_length ds : forall i, List.length (index_from i ds) = List.length ds.
  Proof. induction ds as [|d ds IH]; simpl; intro i; [reflexivity|]. rewrite IH. reflexivity. Qed.

  Lemma build_index_length_iff ds :
    List.length (build_index 0 ds []) = List.length ds <-> NoDup (map d_name ds).
  Proof.
    split; intro H.
    - apply (build_index_length_nodup ds 0%nat []). simpl. exact H.
    - rewrite build_index_spec by exact H. apply index_from_length.
  Qed.

  (* NoDup of the images gives injectivity *)
  Lemma NoDup_map_InjOn f (l : list string) : NoDup (map f l) -> InjOn f l.
  Proof.
    induction l as [|x l IH]; simpl; intros Hn a b Ha Hb E; [contradiction|].
    inversion Hn as [|y l' Hnin Hnd]; subst.
    destruct Ha as [Ha|Ha]; destruct Hb as [Hb|Hb].
    - congruence.
    - subst a. exfalso. apply Hnin. rewrite E. apply in_map. exact Hb.
    - subst b. exfalso. apply Hnin. rewrite <- E. apply in_map. exact Ha.
    - apply (IH Hnd); assumption.
  Qed.

  (* the identifier check loop *)
  Lemma forM_ident_iff (l : list deme) :
    forM_ (fun d => raise_if (negb (is_identifier (d_name d))) ValueErr) l = Ok tt <->
    (forall d, In d l -> is_identifier (d_name d) = true).
  Proof.
    induction l as [|d l IH]; simpl.
    - split; [intros _ d []|reflexivity].
    - destruct (is_identifier (d_name d)) eqn:E; simpl.
      + rewrite IH. split.
        * intros H d' [Hd'|Hd']; [subst d'; exact E|apply H, Hd'].
        * intros H d' Hd'. apply H. right. exact Hd'.
      + split; [discriminate|]. intro H. specialize (H d (or_introl eq_refl)). congruence.
  Qed.

  Lemma rename_names_map names g :
    map d_name (map (deme_rename names) (g_demes g)) = map (rn names) (names_of g).
  Proof. unfold names_of. rewrite !map_map. reflexivity. Qed.

  (* an injective renaming onto identifiers passes the checks *)
  Theorem rename_demes_ok names g :
    Valid g -> GoodMap names g -> rename_demes names g = Ok (rename_core names g).
  Proof.
    intros V G. unfold rename_demes.
    assert (H1 : forM_ (fun d => raise_if (negb (is_identifier (d_name d))) ValueErr)
                       (g_demes (rename_core names g)) = Ok tt).
    { apply forM_ident_iff. simpl. intros d Hd. apply in_map_iff in Hd.
      destruct Hd as (d0 & Ed & Hd0). subst d. simpl. apply (gm_ident _ _ G).
      unfold names_of. apply in_map. exact Hd0. }
    rewrite H1. unfold bind at 1.
    assert (H2 : List.length (g_index (rename_core names g))
                 = List.length (g_demes (rename_core names g))).
    { simpl. apply build_index_length_iff. apply rename_nodup; assumption. }
    rewrite H2, Nat.eqb_refl. reflexivity.
  Qed.

  (* conversely, whenever rename_demes returns a graph, the map was injective on the deme names
     and onto identifiers, for ANY name map *)
  Theorem rename_demes_good names g h :
    Valid g -> rename_demes names g = Ok h -> GoodMap names g /\ h = rename_core names g.
  Proof.
    intros V H. unfold rename_demes in H.
    destruct (forM_ (fun d => raise_if (negb (is_identifier (d_name d))) ValueErr)
                    (g_demes (rename_core names g))) as [[]|e] eqn:H1; [|discriminate].
    unfold bind at 1 in H.
    destruct (Nat.eqb (List.length (g_index (rename_core names g)))
                      (List.length (g_demes (rename_core names g)))) eqn:H2;
      simpl in H; [|discriminate].
    split; [|congruence].
    apply Nat.eqb_eq in H2. simpl in H2. apply build_index_length_iff in H2.
    rewrite rename_names_map in H2.
    constructor.
    - apply NoDup_map_InjOn. exact H2.
    - intros a Ha. unfold names_of in Ha. apply in_map_iff in Ha.
      destruct Ha as (d & En & Hd). subst a.
      pose proof (proj1 (forM_ident_iff _) H1 (deme_rename names d)) as Hid.
      simpl in Hid. apply Hid. apply in_map. exact Hd.
  Qed.

  (* hence every graph that rename_demes returns for a valid graph is valid *)
  Theorem rename_demes_valid names g h : Valid g -> rename_demes names g = Ok h -> Valid h.
  Proof.
    intros V H. destruct (rename_demes_good _ _ _ V H) as [G E]. subst h.
    apply rename_valid; assumption.
  Qed.
End RenameChecked.

Print Assumptions rename_demes_ok.
Print Assumptions rename_demes_good.
Print Assumptions rename_demes_valid.
