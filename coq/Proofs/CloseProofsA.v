(* C10 (part A): closeness is reflexive and symmetric, and sound. *)
From Coq Require Import Bool List String QArith Lqa Arith Lia Btauto.
From Demes Require Import Base.Num Base.Py Model.MDM Model.Close Spec.Valid.
Import ListNotations.
Local Open Scope string_scope.
Local Open Scope list_scope.

Section CloseProofsA.
  Context {N : NumOps} {L : NumLaws N} {AL : ArithLaws N L}.

  (* all numbers that closeness looks at are non-NaN (true of every valid graph
     whose pulse-proportion sums are numbers) *)
  Definition EpochNums (e : epoch) : Prop :=
    ok (e_start e) /\ ok (e_end e) /\ ok (e_ssize e) /\ ok (e_esize e) /\ ok (e_self e) /\ ok (e_clone e).
  Definition GraphNums (g : graph) : Prop :=
    ok (g_gt g) /\
    (forall d, In d (g_demes g) -> ok (d_start d) /\ (forall p, In p (d_props d) -> ok p) /\
                                   (forall e, In e (d_epochs d) -> EpochNums e)) /\
    (forall m, In m (g_migs g) -> ok (m_start m) /\ ok (m_end m) /\ ok (m_rate m)) /\
    (forall p, In p (g_pulses g) -> ok (p_time p) /\ ok (pysum (p_props p)) /\
                                    (forall x, In x (p_props p) -> ok x)).

  (* ---------- generic list / sort lemmas ---------- *)
  Lemma insert_sorted_length {A} (lt : A -> A -> bool) x l :
    List.length (insert_sorted lt x l) = S (List.length l).
  Proof.
    induction l as [|y l IH]; simpl; [reflexivity|].
    destruct (lt x y); simpl; [reflexivity|]. now rewrite IH.
  Qed.

  Lemma sort_stable_length {A} (lt : A -> A -> bool) l :
    List.length (sort_stable lt l) = List.length l.
  Proof.
    induction l as [|y l IH]; simpl; [reflexivity|].
    rewrite insert_sorted_length. now rewrite IH.
  Qed.

  Lemma insert_sorted_In {A} (lt : A -> A -> bool) x l y :
    In y (insert_sorted lt x l) <-> x = y \/ In y l.
  Proof.
    induction l as [|z l IH]; simpl; [tauto|].
    destruct (lt x z); simpl; [tauto|]. rewrite IH. tauto.
  Qed.

  Lemma sort_stable_In {A} (lt : A -> A -> bool) l y :
    In y (sort_stable lt l) <-> In y l.
  Proof.
    induction l as [|z l IH]; simpl; [tauto|].
    rewrite insert_sorted_In, IH. tauto.
  Qed.

  Lemma forall2b_sym {A B} (f : A -> B -> bool) (g : B -> A -> bool) :
    (forall x y, f x y = g y x) ->
    forall l1 l2, forall2b f l1 l2 = forall2b g l2 l1.
  Proof.
    intros Hfg l1; induction l1 as [|x l1 IH]; intros [|y l2]; simpl; try reflexivity.
    now rewrite Hfg, IH.
  Qed.

  Lemma forall2b_refl {A} (f : A -> A -> bool) l :
    (forall x, In x l -> f x x = true) -> forall2b f l l = true.
  Proof.
    induction l as [|x l IH]; intros H; simpl; [reflexivity|].
    rewrite H by (left; reflexivity). simpl. apply IH. intros y Hy. apply H. now right.
  Qed.

  Lemma forallb_mem_refl l : forallb (fun s => mem_str s l) l = true.
  Proof.
    apply forallb_forall. intros s Hs. unfold mem_str. apply existsb_exists.
    exists s. split; [assumption|apply String.eqb_refl].
  Qed.

  (* ---------- isclose ---------- *)
  Lemma neqb_sym a b : neqb a b = neqb b a.
  Proof.
    destruct (neqb a b) eqn:E1, (neqb b a) eqn:E2; try reflexivity.
    - apply eq_true in E1 as (Ha & Hb & Hr).
      assert (E : neqb b a = true) by (apply eq_iff; auto; symmetry; exact Hr). congruence.
    - apply eq_true in E2 as (Hb & Ha & Hr).
      assert (E : neqb a b = true) by (apply eq_iff; auto; symmetry; exact Hr). congruence.
  Qed.

  Theorem isclose_refl x rel abs : ok x -> isclose x x rel abs = true.
  Proof. intro Hx. unfold isclose. now rewrite (eq_refl_ok x Hx). Qed.

  Theorem isclose_sym a b rel abs : isclose a b rel abs = isclose b a rel abs.
  Proof.
    unfold isclose. rewrite (neqb_sym a b). destruct (neqb b a); [reflexivity|].
    rewrite (orb_comm (nisinf a) (nisinf b)). destruct (nisinf b || nisinf a); [reflexivity|].
    cbv zeta. rewrite !(abs_sub_sym (nfloat a) (nfloat b)).
    rewrite (orb_comm (nle _ (nabs (nmul rel (nfloat b))))). reflexivity.
  Qed.

  (* ---------- reflexivity of the components ---------- *)
  Lemma close_epoch_refl rel abs e : EpochNums e -> close_epoch rel abs e e = true.
  Proof.
    intros (H1 & H2 & H3 & H4 & H5 & H6). unfold close_epoch.
    rewrite !isclose_refl by assumption. now rewrite String.eqb_refl.
  Qed.

  Lemma close_props_refl an ap rel abs :
    (forall p, In p ap -> ok p) -> close_props an ap an ap rel abs = true.
  Proof.
    intros H. unfold close_props. rewrite !Nat.eqb_refl. simpl.
    apply forall2b_refl. intros [s x] Hin. apply sort_stable_In in Hin.
    apply in_combine_r in Hin. simpl. rewrite String.eqb_refl. simpl.
    apply isclose_refl. now apply H.
  Qed.

  Lemma close_deme_refl rel abs d :
    ok (d_start d) -> (forall p, In p (d_props d) -> ok p) ->
    (forall e, In e (d_epochs d) -> EpochNums e) -> close_deme rel abs d d = true.
  Proof.
    intros H1 H2 H3. unfold close_deme.
    rewrite String.eqb_refl, (isclose_refl _ _ _ H1), (close_props_refl _ _ _ _ H2), Nat.eqb_refl.
    simpl. apply forall2b_refl. intros e He. apply close_epoch_refl. now apply H3.
  Qed.

  Lemma close_mig_refl rel abs m :
    ok (m_start m) -> ok (m_end m) -> ok (m_rate m) -> close_mig rel abs m m = true.
  Proof.
    intros H1 H2 H3. unfold close_mig. rewrite !String.eqb_refl.
    now rewrite !isclose_refl by assumption.
  Qed.

  Lemma close_pulse_refl rel abs p :
    ok (p_time p) -> ok (pysum (p_props p)) -> (forall x, In x (p_props p) -> ok x) ->
    close_pulse rel abs p p = true.
  Proof.
    intros H1 H2 H3. unfold close_pulse.
    rewrite !Nat.eqb_refl, forallb_mem_refl, String.eqb_refl.
    rewrite (isclose_refl _ _ _ H1), (isclose_refl _ _ _ H2), (close_props_refl _ _ _ _ H3).
    reflexivity.
  Qed.

  (* ---------- symmetry of the components ---------- *)
  Lemma close_epoch_sym rel abs a b : close_epoch rel abs a b = close_epoch rel abs b a.
  Proof.
    unfold close_epoch.
    rewrite (isclose_sym (e_start a)), (isclose_sym (e_end a)), (isclose_sym (e_ssize a)),
      (isclose_sym (e_esize a)), (isclose_sym (e_self a)), (isclose_sym (e_clone a)),
      (String.eqb_sym (e_sf a)).
    reflexivity.
  Qed.

  Lemma close_props_sym an ap bn bp rel abs :
    close_props an ap bn bp rel abs = close_props bn bp an ap rel abs.
  Proof.
    unfold close_props.
    rewrite (Nat.eqb_sym (List.length an)), (Nat.eqb_sym (List.length ap)).
    destruct (negb _ || negb _); [reflexivity|].
    cbv zeta. apply forall2b_sym. intros x y.
    now rewrite (String.eqb_sym (fst x)), (isclose_sym (snd x)).
  Qed.

  Lemma close_deme_sym rel abs a b : close_deme rel abs a b = close_deme rel abs b a.
  Proof.
    unfold close_deme.
    rewrite (String.eqb_sym (d_name a)), (isclose_sym (d_start a)),
      (close_props_sym (d_anc a)), (Nat.eqb_sym (List.length (d_epochs a))),
      (forall2b_sym _ _ (close_epoch_sym rel abs) (d_epochs a) (d_epochs b)).
    reflexivity.
  Qed.

  Lemma close_mig_sym rel abs a b : close_mig rel abs a b = close_mig rel abs b a.
  Proof.
    unfold close_mig.
    rewrite (String.eqb_sym (m_src a)), (String.eqb_sym (m_dst a)),
      (isclose_sym (m_start a)), (isclose_sym (m_end a)), (isclose_sym (m_rate a)).
    reflexivity.
  Qed.

  Lemma close_pulse_sym rel abs a b : close_pulse rel abs a b = close_pulse rel abs b a.
  Proof.
    unfold close_pulse.
    rewrite (Nat.eqb_sym (List.length (p_srcs a))), (String.eqb_sym (p_dst a)),
      (isclose_sym (p_time a)), (Nat.eqb_sym (List.length (p_props a))),
      (isclose_sym (pysum (p_props a))), (close_props_sym (p_srcs a)).
    btauto.
  Qed.

  (* 1. reflexive *)
  Theorem close_refl rel abs g : GraphNums g -> close_graph rel abs g g = true.
  Proof.
    intros (Hgt & Hd & Hm & Hp). unfold close_graph.
    rewrite String.eqb_refl, (eq_refl_ok _ Hgt), !Nat.eqb_refl. simpl.
    rewrite !andb_true_r.
    rewrite (forall2b_refl (close_deme rel abs)).
    2:{ intros d Hin. apply sort_stable_In in Hin. destruct (Hd d Hin) as (H1 & H2 & H3).
        now apply close_deme_refl. }
    rewrite (forall2b_refl (close_mig rel abs)).
    2:{ intros m Hin. apply sort_stable_In in Hin. destruct (Hm m Hin) as (H1 & H2 & H3).
        now apply close_mig_refl. }
    simpl. apply forall2b_refl.
    intros p Hin. destruct (Hp p Hin) as (H1 & H2 & H3). now apply close_pulse_refl.
  Qed.

  (* 2. symmetric *)
  Theorem close_sym rel abs a b : close_graph rel abs a b = close_graph rel abs b a.
  Proof.
    unfold close_graph.
    rewrite (String.eqb_sym (g_units a)), (neqb_sym (g_gt a)),
      (Nat.eqb_sym (List.length (g_demes a))), (Nat.eqb_sym (List.length (g_migs a))),
      (Nat.eqb_sym (List.length (g_pulses a))),
      (forall2b_sym _ _ (close_deme_sym rel abs) (sort_stable deme_lt (g_demes a))),
      (forall2b_sym _ _ (close_mig_sym rel abs) (sort_stable mig_lt (g_migs a))),
      (forall2b_sym _ _ (close_pulse_sym rel abs) (g_pulses a)).
    reflexivity.
  Qed.

  (* 3. sound: a positive answer means every semantic attribute is pairwise close *)
  Fixpoint Forall2b {A B} (f : A -> B -> bool) (l1 : list A) (l2 : list B) : Prop :=
    match l1, l2 with
    | [], [] => True
    | x :: l1', y :: l2' => f x y = true /\ Forall2b f l1' l2'
    | _, _ => False
    end.
  Lemma forall2b_Forall2b {A B} (f : A -> B -> bool) l1 l2 :
    List.length l1 = List.length l2 -> forall2b f l1 l2 = true -> Forall2b f l1 l2.
  Proof.
    revert l2; induction l1 as [|x l1 IH]; intros [|y l2] Hl H; simpl in *; try discriminate.
    - exact I.
    - apply andb_true_iff in H as [H1 H2]. split; [assumption|]. apply IH; [congruence|assumption].
  Qed.


  Theorem close_deme_sound rel abs a b :
    close_deme rel abs a b = true ->
    d_name a = d_name b /\ isclose (d_start a) (d_start b) rel abs = true /\
    close_props (d_anc a) (d_props a) (d_anc b) (d_props b) rel abs = true /\
    List.length (d_epochs a) = List.length (d_epochs b) /\
    Forall2b (close_epoch rel abs) (d_epochs a) (d_epochs b).
  Proof.
    unfold close_deme. rewrite !andb_true_iff. intros ((((H1 & H2) & H3) & H4) & H5).
    apply String.eqb_eq in H1. apply Nat.eqb_eq in H4.
    repeat split; try assumption. now apply forall2b_Forall2b.
  Qed.

  Theorem close_epoch_sound rel abs a b :
    close_epoch rel abs a b = true ->
    isclose (e_start a) (e_start b) rel abs = true /\ isclose (e_end a) (e_end b) rel abs = true /\
    isclose (e_ssize a) (e_ssize b) rel abs = true /\ isclose (e_esize a) (e_esize b) rel abs = true /\
    e_sf a = e_sf b /\
    isclose (e_self a) (e_self b) rel abs = true /\ isclose (e_clone a) (e_clone b) rel abs = true.
  Proof.
    unfold close_epoch. rewrite !andb_true_iff.
    intros ((((((H1 & H2) & H3) & H4) & H5) & H6) & H7).
    apply String.eqb_eq in H5. repeat split; assumption.
  Qed.

  Theorem close_props_sound an ap bn bp rel abs :
    close_props an ap bn bp rel abs = true ->
    List.length an = List.length bn /\ List.length ap = List.length bp /\
    Forall2b (fun x y => String.eqb (fst x) (fst y) && isclose (snd x) (snd y) rel abs)
             (sort_stable name_lt (combine an ap)) (sort_stable name_lt (combine bn bp)).
  Proof.
    unfold close_props.
    destruct (Nat.eqb (List.length an) (List.length bn)) eqn:E1; simpl; [|discriminate].
    destruct (Nat.eqb (List.length ap) (List.length bp)) eqn:E2; simpl; [|discriminate].
    apply Nat.eqb_eq in E1. apply Nat.eqb_eq in E2. intros H.
    split; [assumption|]. split; [assumption|].
    apply forall2b_Forall2b; [|assumption].
    rewrite !sort_stable_length, !combine_length. congruence.
  Qed.

  Theorem close_graph_sound rel abs a b :
    close_graph rel abs a b = true ->
    g_units a = g_units b /\ neqb (g_gt a) (g_gt b) = true /\
    Forall2b (close_deme rel abs) (sort_stable deme_lt (g_demes a)) (sort_stable deme_lt (g_demes b)) /\
    Forall2b (close_mig rel abs) (sort_stable mig_lt (g_migs a)) (sort_stable mig_lt (g_migs b)) /\
    Forall2b (close_pulse rel abs) (g_pulses a) (g_pulses b).
  Proof.
    unfold close_graph. rewrite !andb_true_iff.
    intros (((((((H1 & H2) & H3) & H4) & H5) & H6) & H7) & H8).
    apply String.eqb_eq in H1. apply Nat.eqb_eq in H3. apply Nat.eqb_eq in H5.
    apply Nat.eqb_eq in H7.
    split; [assumption|]. split; [assumption|].
    split; [|split]; apply forall2b_Forall2b; try assumption;
      rewrite !sort_stable_length; assumption.
  Qed.

  Lemma Forall2b_deme_names rel abs l1 l2 :
    Forall2b (close_deme rel abs) l1 l2 -> map d_name l1 = map d_name l2.
  Proof.
    revert l2; induction l1 as [|x l1 IH]; intros [|y l2] H; simpl in *; try tauto.
    destruct H as [H1 H2]. apply close_deme_sound in H1 as (Hn & _).
    f_equal; [assumption|]. now apply IH.
  Qed.

  Lemma In_map_sort {A B} (f : A -> B) (lt : A -> A -> bool) l n :
    In n (map f (sort_stable lt l)) <-> In n (map f l).
  Proof.
    rewrite !in_map_iff. split; intros (x & Hx & Hin); exists x; split; try assumption;
      now apply (sort_stable_In lt l x).
  Qed.

  (* the set of deme names is the same *)
  Theorem close_same_names rel abs a b :
    close_graph rel abs a b = true ->
    forall n, In n (map d_name (g_demes a)) <-> In n (map d_name (g_demes b)).
  Proof.
    intros H n. apply close_graph_sound in H as (_ & _ & Hd & _).
    apply Forall2b_deme_names in Hd.
    rewrite <- (In_map_sort d_name deme_lt (g_demes a)), <- (In_map_sort d_name deme_lt (g_demes b)).
    rewrite Hd. tauto.
  Qed.
End CloseProofsA.

Print Assumptions isclose_refl.
Print Assumptions isclose_sym.
Print Assumptions close_refl.
Print Assumptions close_sym.
Print Assumptions close_deme_sound.
Print Assumptions close_epoch_sound.
Print Assumptions close_props_sound.
Print Assumptions close_graph_sound.
Print Assumptions close_same_names.
