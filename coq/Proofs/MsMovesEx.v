(* Non-vacuity example for Proofs/MsMoves.v (kept apart so that Props/C07.v does not depend on the examples). *)
From Coq Require Import Bool List String QArith Qabs Lqa Lia Arith Permutation.
From Demes Require Import Base.Num Base.NumQ Base.Py Model.MDM Model.InGen Model.MigMat Model.MsOpt
  Model.ToMs Spec.Valid Spec.MsSem Spec.SemEquiv Proofs.MigMatProofs Proofs.ResolveInv
  Proofs.InGenProofs Proofs.MsProofs Proofs.MsRates Proofs.MsGrowth Proofs.SplitChain.
Import ListNotations.
Local Open Scope string_scope.
Local Open Scope list_scope.
Local Open Scope nat_scope.

From Demes Require Import Proofs.MsMoves.
(* ================= Non-vacuity: a graph where two pulses and two deme starts coincide ================= *)
From Demes Require Import Model.Codec Model.Resolve Model.Validb Proofs.ValidbProofs Proofs.Examples.

(* A root; B from A at 100; at time 50: C = 3/4 A + 1/4 B and E from B start, and the pulses
   A -> B (1/10) and B -> A (1/2) happen; an earlier pulse A -> B at 30 has already created
   (and emptied) an extra ms population when time 50 is reached. *)
Definition mv_doc : @jv NumQ :=
  JDict [
    ("time_units", JStr "generations");
    ("demes", JList [
       JDict [("name", JStr "A");
              ("epochs", JList [JDict [("start_size", JI 1000); ("end_time", JI 0)]])];
       JDict [("name", JStr "B"); ("ancestors", JList [JStr "A"]); ("start_time", JI 100);
              ("epochs", JList [JDict [("start_size", JI 500); ("end_time", JI 0)]])];
       JDict [("name", JStr "C"); ("ancestors", JList [JStr "A"; JStr "B"]);
              ("proportions", JList [JF 3 4; JF 1 4]); ("start_time", JI 50);
              ("epochs", JList [JDict [("start_size", JI 200); ("end_time", JI 0)]])];
       JDict [("name", JStr "E"); ("ancestors", JList [JStr "B"]); ("start_time", JI 50);
              ("epochs", JList [JDict [("start_size", JI 300); ("end_time", JI 0)]])]]);
    ("pulses", JList [
       JDict [("sources", JList [JStr "A"]); ("dest", JStr "B"); ("time", JI 50);
              ("proportions", JList [JF 1 10])];
       JDict [("sources", JList [JStr "B"]); ("dest", JStr "A"); ("time", JI 50);
              ("proportions", JList [JF 1 2])];
       JDict [("sources", JList [JStr "A"]); ("dest", JStr "B"); ("time", JI 30);
              ("proportions", JList [JF 1 5])]])
  ].
Definition mv_dummy : @graph NumQ := mkGraph "" "" n0 [] JNull [] [] [] [].
Definition mv_g : @graph NumQ :=
  Eval vm_compute in match fromdict mv_doc with Ok g => g | Err _ => mv_dummy end.
Example mv_resolves : fromdict mv_doc = Ok mv_g.
Proof. vm_compute. reflexivity. Qed.
Definition mv_gg : @graph NumQ :=
  Eval vm_compute in match in_generations mv_g with Ok g => g | Err _ => mv_dummy end.
Example mv_ingen : in_generations mv_g = Ok mv_gg.
Proof. vm_compute. reflexivity. Qed.
Example mv_gg_validb : validb mv_gg = true.
Proof. vm_compute. reflexivity. Qed.
Theorem mv_gg_valid : Valid mv_gg.
Proof. apply validb_sound. exact mv_gg_validb. Qed.
Definition mv_N0 : qx := q 100 1 true.
Definition mv_ms : nat * list (@msev NumQ) :=
  Eval vm_compute in match to_ms_unscaled mv_g mv_N0 with Ok r => r | Err _ => (0%nat, []) end.
Example mv_to_ms : to_ms_unscaled mv_g mv_N0 = Ok (fst mv_ms, snd mv_ms).
Proof. vm_compute. reflexivity. Qed.
Definition mv_b : qx := q 50 1 true.
Definition mv_Pm : list (list (@num NumQ)) :=
  Eval vm_compute in
    match ms_moves (fun x y => neqb x y) (mkCmd (fst mv_ms) true n0 [] (snd mv_ms)) mv_b with
    | Ok P => P | Err _ => [] end.
Example mv_ms_moves :
  ms_moves (fun x y => neqb x y) (mkCmd (fst mv_ms) true n0 [] (snd mv_ms)) mv_b = Ok mv_Pm.
Proof. vm_compute. reflexivity. Qed.
Example mv_exact : ExactProps mv_gg.
Proof.
  intros d Hd Hne. cbn in Hd.
  destruct Hd as [<-|[<-|[<-|[<-|[]]]]]; cbn in Hne |- *; try congruence; vm_compute; reflexivity.
Qed.

(* the hypotheses of to_ms_moves hold here; 4 demes, 8 ms populations at time 50 (one created by
   the pulse at 30, three by the events at 50), and the rows are not trivial *)
Example mv_moves :
  forall i, i < 4 ->
    (forall j, j < 4 ->
       qx_eqb (nth j (nth i mv_Pm []) nf0) (nth j (nth i (gmoves (fun x y => neqb x y) mv_gg mv_b) []) nf0) = true) /\
    (forall j, 4 <= j -> j < List.length (nth i mv_Pm []) -> qx_eqb (nth j (nth i mv_Pm []) nf0) nf0 = true).
Proof.
  exact (proj2 (to_ms_moves mv_g mv_gg mv_N0 (fst mv_ms) (snd mv_ms) mv_b mv_Pm
                  mv_ingen mv_gg_valid mv_exact mv_to_ms eq_refl eq_refl mv_ms_moves)).
Qed.
Example mv_shape :
  List.length (nth 0 mv_Pm []) = 8 /\
  neqb (nth 0 (nth 0 mv_Pm []) nf0) (q 11 20 false) = true /\
  neqb (nth 1 (nth 0 mv_Pm []) nf0) (q 9 20 false) = true /\
  neqb (nth 0 (nth 2 mv_Pm []) nf0) (q 3 4 false) = true /\
  neqb (nth 1 (nth 3 mv_Pm []) nf0) (q 1 1 false) = true.
Proof. vm_compute. repeat split. Qed.

Print Assumptions mv_moves.
