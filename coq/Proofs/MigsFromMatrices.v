(* C08 — Builder._add_migrations_from_matrices (Model/FromMs.v: migs_from_matrices) turns the
   history of migration matrices of from_ms into migration records; it is the inverse of
   migration_matrices: at every time t of interval i the record in force for an ordered pair
   carries (numerically) the entry of matrix i, and no record is in force when that entry is
   zero — whatever the merging of adjacent intervals with equal rates. *)
From Coq Require Import Bool List String QArith Lqa Lia Arith.
From Demes Require Import Base.Num Base.Py Model.MDM Model.MsOpt Model.FromMs Spec.MsSem.
Import ListNotations.
Local Open Scope string_scope.
Local Open Scope list_scope.

(* ---------- generic list lemmas ---------- *)
Section ListAux.
  Context {A : Type}.

  Lemma find_snoc (f : A -> bool) l x :
    find f (l ++ [x]) = match find f l with Some y => Some y | None => if f x then Some x else None end.
  Proof. induction l as [|a l IH]; simpl; [reflexivity|]. destruct (f a); auto. Qed.

  Lemma find_filter_neg (f : A -> bool) l : find f (filter (fun x => negb (f x)) l) = None.
  Proof.
    induction l as [|a l IH]; simpl; [reflexivity|].
    destruct (f a) eqn:E; simpl; [exact IH|]. rewrite E. exact IH.
  Qed.

  Lemma find_filter_other (f g : A -> bool) l :
    (forall x, f x = true -> g x = true) -> find f (filter g l) = find f l.
  Proof.
    intro H. induction l as [|a l IH]; simpl; [reflexivity|].
    destruct (f a) eqn:E.
    - rewrite (H _ E). simpl. rewrite E. reflexivity.
    - destruct (g a); simpl; [rewrite E|]; exact IH.
  Qed.

  Lemma nth_error_upd_same (f : A -> A) l : forall i x,
    nth_error l i = Some x -> nth_error (upd i f l) i = Some (f x).
  Proof.
    induction l as [|a l IH]; intros [|i] x H; simpl in *; try discriminate.
    - congruence.
    - auto.
  Qed.

  Lemma nth_error_upd_other (f : A -> A) l : forall i i',
    i <> i' -> nth_error (upd i f l) i' = nth_error l i'.
  Proof.
    induction l as [|a l IH]; intros [|i] [|i'] H; simpl; try reflexivity.
    - congruence.
    - apply IH. congruence.
  Qed.

  Lemma Forall_upd (P : A -> Prop) (f : A -> A) l : forall i,
    Forall P l -> (forall x, nth_error l i = Some x -> P x -> P (f x)) -> Forall P (upd i f l).
  Proof.
    induction l as [|a l IH]; intros [|i] HF H; simpl; auto.
    - inversion HF; subst. constructor; auto.
    - inversion HF; subst. constructor; auto.
  Qed.

  Lemma filter_nil_In (p : A -> bool) l x : filter p l = [] -> In x l -> p x = false.
  Proof.
    induction l as [|a l IH]; simpl; intros H HI; [contradiction|].
    destruct (p a) eqn:E; [discriminate|]. destruct HI as [->|HI]; auto.
  Qed.

  (* U1 *)
  Lemma filter_upd_ff (p : A -> bool) (f : A -> A) l : forall i x,
    nth_error l i = Some x -> p x = false -> p (f x) = false -> filter p (upd i f l) = filter p l.
  Proof.
    induction l as [|a l IH]; intros [|i] x H H1 H2; simpl in *; try discriminate.
    - inversion H; subst. rewrite H1, H2. reflexivity.
    - rewrite (IH _ _ H H1 H2). reflexivity.
  Qed.

  (* U2 *)
  Lemma filter_upd_nil_t (p : A -> bool) (f : A -> A) l : forall i x,
    filter p l = [] -> nth_error l i = Some x -> p (f x) = true -> filter p (upd i f l) = [f x].
  Proof.
    induction l as [|a l IH]; intros [|i] x Hn H H2; simpl in *; try discriminate.
    - inversion H; subst. rewrite H2. destruct (p x); [discriminate|]. rewrite Hn. reflexivity.
    - destruct (p a); [discriminate|]. eauto.
  Qed.

  (* U3 *)
  Lemma filter_upd_F2 (R : A -> A -> Prop) (p : A -> bool) (f : A -> A) l :
    (forall a, R a a) -> forall i x,
    nth_error l i = Some x -> p (f x) = p x -> R x (f x) ->
    Forall2 R (filter p l) (filter p (upd i f l)).
  Proof.
    intro Hr.
    assert (Hrefl : forall l0 : list A, Forall2 R l0 l0) by (induction l0; constructor; auto).
    induction l as [|a l IH]; intros [|i] x H H1 H2; simpl in *; try discriminate.
    - inversion H; subst. rewrite H1. destruct (p x); [constructor|]; auto.
    - destruct (p a); [constructor|]; eauto.
  Qed.

  Lemma firstn_S_snoc (l : list A) d : forall p, (p < List.length l)%nat ->
    firstn (S p) l = firstn p l ++ [nth p l d].
  Proof.
    induction l as [|a l IH]; intros [|p] H; simpl in *; try lia; try reflexivity.
    f_equal. apply IH. lia.
  Qed.

  Lemma NoDup_app_intro (l1 l2 : list A) :
    NoDup l1 -> NoDup l2 -> (forall x, In x l1 -> ~ In x l2) -> NoDup (l1 ++ l2).
  Proof.
    induction l1 as [|a l1 IH]; simpl; intros H1 H2 H; [assumption|].
    inversion H1; subst. constructor.
    - rewrite in_app_iff. intros [HI|HI]; [contradiction|]. exact (H a (or_introl eq_refl) HI).
    - apply IH; auto.
  Qed.

End ListAux.

Section ListAux2.
  Context {A B : Type}.
  Lemma NoDup_flat_map_key (key : B -> A) (f : A -> list B) l :
    NoDup l -> (forall x, NoDup (f x)) -> (forall x y, In y (f x) -> key y = x) ->
    NoDup (flat_map f l).
  Proof.
    intros Hl Hf Hk. induction Hl as [|a l Ha Hl IH]; simpl; [constructor|].
    apply NoDup_app_intro; auto.
    intros y Hy Hy'. apply in_flat_map in Hy'. destruct Hy' as (x & Hx & Hyx).
    apply Hk in Hy. apply Hk in Hyx. congruence.
  Qed.
End ListAux2.

Section MigsFromMatrices.
  Context {N : NumOps} {L : NumLaws N}.

  Definition StrictDesc' (l : list num) : Prop :=
    forall i a b, nth_error l i = Some a -> nth_error l (S i) = Some b -> nlt b a = true.
  (* interval i is [ends[i], start_i) with start_0 = inf, start_i = ends[i-1] *)
  Definition istart (ends : list num) (i : nat) : num :=
    match i with O => ninf | S i' => nth i' ends n0 end.

  Definition bm_active (m : bmig) (t : num) : bool := nlt t (bm_start m) && nle (bm_end m) t.
  Definition in_force (migs : list bmig) (src dst : string) (t : num) : list bmig :=
    filter (fun m => String.eqb (bm_src m) src && String.eqb (bm_dst m) dst && bm_active m t) migs.

  Definition mentry (mms : list (list (list num))) (i j k : nat) : num :=
    nth k (nth j (nth i mms []) []) n0.

  (* ---------- the two loops, named ---------- *)
  Definition cfind (j k : nat) (current : list cur) : option cur :=
    find (fun c => Nat.eqb (cu_j c) j && Nat.eqb (cu_k c) k) current.
  Definition lower (en : num) (mg : bmig) : bmig :=
    mkBM (bm_src mg) (bm_dst mg) (bm_start mg) en (bm_rate mg).

  Definition cell_step (names : list string) (start en : num) (m : list (list num))
      (co : list cur * list bmig) (jk : nat * nat) : list cur * list bmig :=
    let '(current, out) := co in
    let '(j, k) := jk in
    let rate := nth k (nth j m []) n0 in
    match find (fun c => Nat.eqb (cu_j c) j && Nat.eqb (cu_k c) k) current with
    | None =>
        if nneq rate n0 then
          (current ++ [mkCur j k (List.length out)],
           out ++ [mkBM (nth k names "") (nth j names "") start en rate])
        else (current, out)
    | Some c =>
        let drop := filter (fun c' => negb (Nat.eqb (cu_j c') j && Nat.eqb (cu_k c') k)) current in
        if neqb rate n0 then (drop, out)
        else
          match nth_error out (cu_idx c) with
          | Some mg =>
              if neqb (bm_rate mg) rate then
                (current, upd (cu_idx c) (fun mg => mkBM (bm_src mg) (bm_dst mg) (bm_start mg) en (bm_rate mg)) out)
              else
                (drop ++ [mkCur j k (List.length out)],
                 out ++ [mkBM (nth k names "") (nth j names "") start en rate])
          | None => (current, out)
          end
    end.

  Definition cells (n : nat) : list (nat * nat) :=
    flat_map (fun j => flat_map (fun k => if Nat.eqb j k then [] else [(j, k)]) (seq 0 n)) (seq 0 n).

  Definition outer_step (names : list string) (acc : num * list cur * list bmig)
      (me : list (list num) * num) : num * list cur * list bmig :=
    let '(start, current, out) := acc in
    let '(m, en) := me in
    let '(current', out') :=
      fold_left (cell_step names start en m) (cells (List.length names)) (current, out) in
    (en, current', out').

  Lemma migs_from_matrices_unfold names mms ends :
    migs_from_matrices names mms ends =
    let '(_, _, out) := fold_left (outer_step names) (combine mms ends) (ninf, [], []) in out.
  Proof. reflexivity. Qed.

  (* ---------- cells ---------- *)
  Lemma in_cells n j k : In (j, k) (cells n) <-> (j < n /\ k < n /\ j <> k)%nat.
  Proof.
    unfold cells. rewrite in_flat_map. split.
    - intros (j' & Hj' & H). apply in_flat_map in H. destruct H as (k' & Hk' & H).
      apply in_seq in Hj'. apply in_seq in Hk'.
      destruct (Nat.eqb j' k') eqn:E; simpl in H; [contradiction|].
      destruct H as [H|[]]. inversion H; subst. apply Nat.eqb_neq in E. lia.
    - intros (Hj & Hk & Hjk). exists j. split; [apply in_seq; lia|].
      apply in_flat_map. exists k. split; [apply in_seq; lia|].
      apply Nat.eqb_neq in Hjk. rewrite Hjk. left. reflexivity.
  Qed.

  Lemma NoDup_cells n : NoDup (cells n).
  Proof.
    unfold cells. apply (NoDup_flat_map_key fst).
    - apply seq_NoDup.
    - intro j. apply (NoDup_flat_map_key snd).
      + apply seq_NoDup.
      + intro k. destruct (Nat.eqb j k); repeat constructor; simpl; tauto.
      + intros k y H. destruct (Nat.eqb j k); simpl in H; [contradiction|].
        destruct H as [<-|[]]. reflexivity.
    - intros j y H. apply in_flat_map in H. destruct H as (k & _ & H).
      destruct (Nat.eqb j k); simpl in H; [contradiction|]. destruct H as [<-|[]]. reflexivity.
  Qed.

  (* ---------- cursor list ---------- *)
  Lemma cfind_key j k l c : cfind j k l = Some c -> cu_j c = j /\ cu_k c = k.
  Proof.
    unfold cfind. intro H. apply find_some in H. destruct H as [_ H].
    apply andb_true_iff in H. destruct H as [H1 H2].
    apply Nat.eqb_eq in H1. apply Nat.eqb_eq in H2. auto.
  Qed.

  Lemma key_other j k j' k' c :
    (j', k') <> (j, k) ->
    Nat.eqb (cu_j c) j' && Nat.eqb (cu_k c) k' = true ->
    negb (Nat.eqb (cu_j c) j && Nat.eqb (cu_k c) k) = true.
  Proof.
    intros Hne H. apply andb_true_iff in H. destruct H as [H1 H2].
    apply Nat.eqb_eq in H1. apply Nat.eqb_eq in H2.
    apply negb_true_iff. apply andb_false_iff.
    destruct (Nat.eqb (cu_j c) j) eqn:E1; [|auto]. right.
    destruct (Nat.eqb (cu_k c) k) eqn:E2; [|auto].
    apply Nat.eqb_eq in E1. apply Nat.eqb_eq in E2. exfalso. apply Hne. congruence.
  Qed.

  Definition cdrop (j k : nat) (current : list cur) : list cur :=
    filter (fun c' => negb (Nat.eqb (cu_j c') j && Nat.eqb (cu_k c') k)) current.

  Lemma cfind_drop_same j k l : cfind j k (cdrop j k l) = None.
  Proof. unfold cfind, cdrop. apply (find_filter_neg (fun c => Nat.eqb (cu_j c) j && Nat.eqb (cu_k c) k)). Qed.

  Lemma cfind_drop_other j k j' k' l : (j', k') <> (j, k) -> cfind j' k' (cdrop j k l) = cfind j' k' l.
  Proof.
    intro H. unfold cfind, cdrop. apply find_filter_other. intros c Hc. eapply key_other; eauto.
  Qed.

  Lemma cfind_snoc_same j k l x : cfind j k l = None -> cfind j k (l ++ [mkCur j k x]) = Some (mkCur j k x).
  Proof.
    unfold cfind. intro H. rewrite find_snoc, H. simpl. rewrite !Nat.eqb_refl. reflexivity.
  Qed.

  Lemma cfind_snoc_other j k j' k' l x : (j', k') <> (j, k) -> cfind j' k' (l ++ [mkCur j k x]) = cfind j' k' l.
  Proof.
    unfold cfind. intro H. rewrite find_snoc. destruct (find _ l); [reflexivity|]. simpl.
    destruct (Nat.eqb j j') eqn:E1; simpl; [|reflexivity].
    destruct (Nat.eqb k k') eqn:E2; simpl; [|reflexivity].
    apply Nat.eqb_eq in E1. apply Nat.eqb_eq in E2. exfalso. apply H. congruence.
  Qed.

  (* the four possible effects of one cell step *)
  Inductive step_case (names : list string) (start en rate : num) (j k : nat)
      (current : list cur) (out : list bmig) (current' : list cur) (out' : list bmig) : Prop :=
  | SC_none : neqb rate n0 = true -> out' = out -> cfind j k current' = None ->
      step_case names start en rate j k current out current' out'
  | SC_broken c : cfind j k current = Some c -> nth_error out (cu_idx c) = None ->
      step_case names start en rate j k current out current' out'
  | SC_new : neqb rate n0 = false ->
      out' = out ++ [mkBM (nth k names "") (nth j names "") start en rate] ->
      cfind j k current' = Some (mkCur j k (List.length out)) ->
      step_case names start en rate j k current out current' out'
  | SC_ext c mg : cfind j k current = Some c -> nth_error out (cu_idx c) = Some mg ->
      neqb (bm_rate mg) rate = true -> neqb rate n0 = false ->
      current' = current -> out' = upd (cu_idx c) (lower en) out ->
      step_case names start en rate j k current out current' out'.

  Lemma cell_step_cases names start en m j k current out current' out' :
    cell_step names start en m (current, out) (j, k) = (current', out') ->
    step_case names start en (nth k (nth j m []) n0) j k current out current' out' /\
    (forall j' k', (j', k') <> (j, k) -> cfind j' k' current' = cfind j' k' current).
  Proof.
    unfold cell_step.
    change (find (fun c => Nat.eqb (cu_j c) j && Nat.eqb (cu_k c) k) current) with (cfind j k current).
    change (filter (fun c' => negb (Nat.eqb (cu_j c') j && Nat.eqb (cu_k c') k)) current) with (cdrop j k current).
    set (rate := nth k (nth j m []) n0).
    destruct (cfind j k current) as [c|] eqn:Ef.
    - destruct (neqb rate n0) eqn:Ez.
      + intro H; inversion H; subst. split.
        * apply SC_none; auto. apply cfind_drop_same.
        * intros. apply cfind_drop_other; auto.
      + destruct (nth_error out (cu_idx c)) as [mg|] eqn:En.
        * destruct (neqb (bm_rate mg) rate) eqn:Er.
          -- intro H; inversion H; subst. split; [|auto]. eapply SC_ext; eauto.
          -- intro H; inversion H; subst. split.
             ++ apply SC_new; auto. apply cfind_snoc_same. apply cfind_drop_same.
             ++ intros. rewrite cfind_snoc_other by auto. apply cfind_drop_other; auto.
        * intro H; inversion H; subst. split; [|auto]. eapply SC_broken; eauto.
    - unfold nneq. destruct (neqb rate n0) eqn:Ez; simpl.
      + intro H; inversion H; subst. split; [|auto]. apply SC_none; auto.
      + intro H; inversion H; subst. split.
        * apply SC_new; auto. apply cfind_snoc_same; auto.
        * intros. apply cfind_snoc_other; auto.
  Qed.

  (* ---------- in_force ---------- *)
  Definition pm (s d : string) (t : num) (m : bmig) : bool :=
    String.eqb (bm_src m) s && String.eqb (bm_dst m) d && bm_active m t.

  Lemma in_force_pm l s d t : in_force l s d t = filter (pm s d t) l.
  Proof. reflexivity. Qed.

  Lemma in_force_snoc l r s d t :
    in_force (l ++ [r]) s d t = in_force l s d t ++ (if pm s d t r then [r] else []).
  Proof. unfold in_force. rewrite filter_app. reflexivity. Qed.

  Lemma pm_names_ne s d s' d' t m :
    bm_src m = s' -> bm_dst m = d' -> ~ (s' = s /\ d' = d) -> pm s d t m = false.
  Proof.
    intros Hs Hd Hne. unfold pm. rewrite Hs, Hd.
    destruct (String.eqb s' s) eqn:E1; simpl; [|reflexivity].
    destruct (String.eqb d' d) eqn:E2; simpl; [|reflexivity].
    apply String.eqb_eq in E1. apply String.eqb_eq in E2. tauto.
  Qed.

  Lemma pm_names_eq s d t m :
    bm_src m = s -> bm_dst m = d -> pm s d t m = nlt t (bm_start m) && nle (bm_end m) t.
  Proof. intros Hs Hd. unfold pm. rewrite Hs, Hd, !String.eqb_refl. reflexivity. Qed.

  Definition spec_ok (l : list bmig) (e : num) : Prop :=
    match l with
    | [] => neqb e n0 = true
    | [m] => neqb (bm_rate m) e = true /\ neqb e n0 = false
    | _ => False
    end.

  Lemma spec_ok_F2 l l' e :
    Forall2 (fun a b => bm_rate b = bm_rate a) l l' -> spec_ok l e -> spec_ok l' e.
  Proof.
    intros H. destruct H as [|a b l l' Hab H]; [auto|].
    destruct H as [|a2 b2 l l' Hab2 H]; simpl; [rewrite Hab; auto|tauto].
  Qed.

  Definition wf_mig (m : bmig) : Prop :=
    nlt (bm_end m) (bm_start m) = true /\ neqb (bm_rate m) n0 = false /\ bm_src m <> bm_dst m.

  (* ---------- the invariant ---------- *)
  Section Inv.
    Variables (names : list string) (mms : list (list (list num))) (ends : list num).
    Hypothesis Hnd : NoDup names.
    Hypothesis Hlen : List.length mms = List.length ends.
    Hypothesis Hdesc : StrictDesc' ends.
    Hypothesis Hends : forall e, In e ends -> ok e /\ nisinf e = false.
    Hypothesis Hentries : forall i' j' k', ok (mentry mms i' j' k').

    Definition nm (i : nat) : string := nth i names "".
    Definition valid (j k : nat) : Prop := (j < List.length names /\ k < List.length names /\ j <> k)%nat.

    Lemma nm_inj a b : (a < List.length names)%nat -> (b < List.length names)%nat -> nm a = nm b -> a = b.
    Proof. intros Ha Hb H. eapply (proj1 (NoDup_nth names "")); eauto. Qed.

    Lemma names_ne j k j0 k0 : valid j k -> valid j0 k0 -> (j, k) <> (j0, k0) ->
      ~ (nm k0 = nm k /\ nm j0 = nm j).
    Proof.
      intros (Hj & Hk & _) (Hj0 & Hk0 & _) Hne [H1 H2].
      apply nm_inj in H1; [|assumption|assumption]. apply nm_inj in H2; [|assumption|assumption].
      apply Hne. congruence.
    Qed.

    (* ends *)
    Lemma ends_ok p : (p < List.length ends)%nat -> ok (nth p ends n0) /\ nisinf (nth p ends n0) = false.
    Proof. intro H. apply Hends. apply nth_In. exact H. Qed.

    Lemma ends_adj p : (S p < List.length ends)%nat -> nlt (nth (S p) ends n0) (nth p ends n0) = true.
    Proof.
      intro H. apply (Hdesc p); apply nth_error_nth'; lia.
    Qed.

    Lemma ends_lt_start p : (p < List.length ends)%nat -> nlt (nth p ends n0) (istart ends p) = true.
    Proof.
      intro H. destruct p as [|p]; simpl.
      - destruct (ends_ok 0 H) as [Ho Hi]. pose proof ok_inf. nord.
      - apply ends_adj. exact H.
    Qed.

    Lemma ends_mono d : forall i, (i + d < List.length ends)%nat ->
      nle (nth (i + d) ends n0) (nth i ends n0) = true.
    Proof.
      induction d as [|d IH]; intros i H.
      - rewrite Nat.add_0_r. destruct (ends_ok i) as [Ho _]; [lia|]. nord.
      - replace (i + S d)%nat with (S (i + d)) by lia.
        assert (H1 : nle (nth (i + d) ends n0) (nth i ends n0) = true) by (apply IH; lia).
        assert (H2 := ends_adj (i + d)). 
        assert (H3 : nlt (nth (S (i + d)) ends n0) (nth (i + d) ends n0) = true) by (apply H2; lia).
        clear H2. nord.
    Qed.

    Lemma start_le i p : (i < p)%nat -> (p <= List.length ends)%nat ->
      nle (istart ends p) (nth i ends n0) = true.
    Proof.
      intros H1 H2. destruct p as [|p]; [lia|]. simpl.
      replace p with (i + (p - i))%nat by lia. apply ends_mono. lia.
    Qed.

    Record PairInv (p j k : nat) (current : list cur) (out : list bmig) : Prop := {
      P1 : forall i t, (i < p)%nat -> nle (nth i ends n0) t = true -> nlt t (istart ends i) = true ->
           spec_ok (in_force out (nm k) (nm j) t) (mentry mms i j k);
      P2 : forall t, nlt t (istart ends p) = true -> in_force out (nm k) (nm j) t = [];
      P3 : forall c, cfind j k current = Some c ->
           exists mg, nth_error out (cu_idx c) = Some mg /\ bm_src mg = nm k /\ bm_dst mg = nm j /\
                      bm_end mg = istart ends p /\ nlt (bm_end mg) (bm_start mg) = true /\
                      exists p', p = S p' /\ neqb (bm_rate mg) (mentry mms p' j k) = true }.

    Lemma PairInv_transfer q j k current out current' out' :
      (forall t, in_force out' (nm k) (nm j) t = in_force out (nm k) (nm j) t) ->
      cfind j k current' = cfind j k current ->
      (forall idx mg, nth_error out idx = Some mg -> bm_src mg = nm k -> bm_dst mg = nm j ->
                      nth_error out' idx = Some mg) ->
      PairInv q j k current out -> PairInv q j k current' out'.
    Proof.
      intros Hf Hc Hn [H1 H2 H3]. constructor.
      - intros. rewrite Hf. auto.
      - intros. rewrite Hf. auto.
      - intros c Hfc. rewrite Hc in Hfc. destruct (H3 c Hfc) as (mg & Hmg & Hs & Hd & Hrest).
        exists mg. split; [eapply Hn; eauto|]. auto.
    Qed.

    (* a cell step leaves the other pairs alone *)
    Lemma step_other p j0 k0 j k current out current' out' q :
      valid j0 k0 -> valid j k -> (j, k) <> (j0, k0) ->
      PairInv p j0 k0 current out ->
      cell_step names (istart ends p) (nth p ends n0) (nth p mms []) (current, out) (j0, k0) = (current', out') ->
      PairInv q j k current out -> PairInv q j k current' out'.
    Proof.
      intros Hv0 Hv Hne [_ _ H3] Hstep. apply cell_step_cases in Hstep. destruct Hstep as [Hcase Hoth].
      pose proof (names_ne j k j0 k0 Hv Hv0 Hne) as Hnn.
      destruct Hcase as [Hz Ho Hc | c Hc Hn | Hz Ho Hc | c mg Hc Hn Hr Hz Hcur Ho].
      - subst out'. apply PairInv_transfer; auto.
      - destruct (H3 c Hc) as (mg & Hmg & _). congruence.
      - subst out'. apply PairInv_transfer; auto.
        + intro t. rewrite in_force_snoc.
          rewrite (pm_names_ne (nm k) (nm j) (nm k0) (nm j0)); [apply app_nil_r|reflexivity|reflexivity|exact Hnn].
        + intros idx mg Hmg _ _. rewrite nth_error_app1; [exact Hmg|].
          apply nth_error_Some. congruence.
      - subst current' out'.
        destruct (H3 c Hc) as (mg' & Hmg' & Hs & Hd & _).
        rewrite Hn in Hmg'. inversion Hmg'; subst mg'. clear Hmg'.
        apply PairInv_transfer; auto.
        + intro t. rewrite !in_force_pm. apply (filter_upd_ff _ _ _ _ mg); [exact Hn| |].
          * eapply pm_names_ne; eauto.
          * eapply pm_names_ne; [exact Hs|exact Hd|exact Hnn].
        + intros idx mg1 Hmg1 Hs1 Hd1. destruct (Nat.eq_dec (cu_idx c) idx) as [E|E].
          * exfalso. subst idx. rewrite Hn in Hmg1. inversion Hmg1; subst mg1.
            apply Hnn. split; congruence.
          * rewrite nth_error_upd_other by exact E. exact Hmg1.
    Qed.

    (* the step of a pair's own cell advances its invariant *)
    Lemma step_own p j k current out current' out' :
      (p < List.length ends)%nat -> valid j k ->
      PairInv p j k current out ->
      cell_step names (istart ends p) (nth p ends n0) (nth p mms []) (current, out) (j, k) = (current', out') ->
      PairInv (S p) j k current' out'.
    Proof.
      intros Hp Hv [H1 H2 H3] Hstep. apply cell_step_cases in Hstep. destruct Hstep as [Hcase _].
      change (nth k (nth j (nth p mms []) []) n0) with (mentry mms p j k) in Hcase.
      pose proof (Hentries p j k) as Hok.
      pose proof (ends_lt_start p Hp) as Hlt.
      destruct Hcase as [Hz Ho Hc | c Hc Hn | Hz Ho Hc | c mg Hc Hn Hr Hz Hcur Ho].
      - (* nothing in force in the new interval *)
        subst out'. constructor.
        + intros i t Hi Hle Hlt'. destruct (Nat.eq_dec i p) as [->|Hne].
          * rewrite H2 by exact Hlt'. exact Hz.
          * apply H1; auto. lia.
        + intros t Ht. apply H2. simpl in Ht. nord.
        + intros c Hc'. congruence.
      - destruct (H3 c Hc) as (mg & Hmg & _). congruence.
      - (* a new record *)
        subst out'. constructor.
        + intros i t Hi Hle Hlt'. rewrite in_force_snoc. rewrite pm_names_eq by reflexivity.
          simpl bm_start; simpl bm_end.
          destruct (Nat.eq_dec i p) as [->|Hne].
          * rewrite H2 by exact Hlt'. rewrite Hlt', Hle. simpl.
            split; [apply eq_refl_ok; exact Hok | exact Hz].
          * assert (Hi' : (i < p)%nat) by lia.
            assert (Hsl : nle (istart ends p) (nth i ends n0) = true) by (apply start_le; lia).
            assert (Hf : nlt t (istart ends p) = false) by nord.
            rewrite Hf. simpl. rewrite app_nil_r. apply H1; auto.
        + intros t Ht. simpl in Ht. rewrite in_force_snoc, pm_names_eq by reflexivity.
          simpl bm_start; simpl bm_end.
          assert (Hf : nle (nth p ends n0) t = false) by nord.
          assert (Ht' : nlt t (istart ends p) = true) by nord.
          rewrite Hf, andb_false_r, H2 by exact Ht'. reflexivity.
        + intros c Hc'. rewrite Hc in Hc'. inversion Hc'; subst c. simpl cu_idx.
          eexists. split; [rewrite nth_error_app2 by lia; rewrite Nat.sub_diag; reflexivity|].
          simpl. repeat split; try reflexivity; try exact Hlt.
          exists p. split; [reflexivity|]. apply eq_refl_ok; exact Hok.
      - (* the open record is extended *)
        subst current' out'.
        destruct (H3 c Hc) as (mg' & Hmg' & Hs & Hd & He & Hse & p' & Hp' & Hrate).
        rewrite Hn in Hmg'. inversion Hmg'; subst mg'. clear Hmg'.
        rewrite He in Hse.
        constructor.
        + intros i t Hi Hle Hlt'. rewrite !in_force_pm. destruct (Nat.eq_dec i p) as [->|Hne].
          * rewrite (filter_upd_nil_t _ _ _ _ mg); [ | apply H2; exact Hlt' | exact Hn | ].
            -- simpl. split; [exact Hr | exact Hz].
            -- rewrite pm_names_eq by assumption. simpl bm_start; simpl bm_end.
               rewrite Hle, andb_true_r. nord.
          * assert (Hi' : (i < p)%nat) by lia.
            assert (Hsl : nle (istart ends p) (nth i ends n0) = true) by (apply start_le; lia).
            eapply spec_ok_F2; [|apply (H1 i t Hi' Hle Hlt')].
            rewrite !in_force_pm.
            apply (filter_upd_F2 (fun a b : bmig => bm_rate b = bm_rate a) _ _ _ (fun a => eq_refl) _ mg);
              [exact Hn| |reflexivity].
            rewrite !pm_names_eq by assumption. simpl bm_start; simpl bm_end. rewrite He.
            assert (E1 : nle (nth p ends n0) t = true) by nord.
            assert (E2 : nle (istart ends p) t = true) by nord.
            rewrite E1, E2. reflexivity.
        + intros t Ht. simpl in Ht. rewrite in_force_pm.
          assert (Ht' : nlt t (istart ends p) = true) by nord.
          rewrite (filter_upd_ff _ _ _ _ mg); [apply H2; exact Ht' | exact Hn | | ].
          * apply (filter_nil_In _ out); [apply H2; exact Ht'|]. eapply nth_error_In; eauto.
          * rewrite pm_names_eq by assumption. simpl bm_start; simpl bm_end.
            assert (Hf : nle (nth p ends n0) t = false) by nord.
            rewrite Hf. apply andb_false_r.
        + intros c' Hc'. rewrite Hc in Hc'. inversion Hc'; subst c'.
          exists (lower (nth p ends n0) mg). split; [apply nth_error_upd_same; exact Hn|].
          simpl. repeat split; auto.
          * nord.
          * exists p. split; [reflexivity|exact Hr].
    Qed.

    Lemma step_wf p j k current out current' out' :
      (p < List.length ends)%nat -> valid j k ->
      PairInv p j k current out -> Forall wf_mig out ->
      cell_step names (istart ends p) (nth p ends n0) (nth p mms []) (current, out) (j, k) = (current', out') ->
      Forall wf_mig out'.
    Proof.
      intros Hp Hv [_ _ H3] Hwf Hstep. apply cell_step_cases in Hstep. destruct Hstep as [Hcase _].
      pose proof (ends_lt_start p Hp) as Hlt.
      destruct Hcase as [Hz Ho Hc | c Hc Hn | Hz Ho Hc | c mg Hc Hn Hr Hz Hcur Ho].
      - subst; auto.
      - destruct (H3 c Hc) as (mg & Hmg & _). congruence.
      - subst out'. apply Forall_app. split; [exact Hwf|]. constructor; [|constructor].
        unfold wf_mig; simpl. repeat split; auto.
        destruct Hv as (Hj & Hk & Hjk). intro E. apply Hjk. symmetry. apply nm_inj; auto.
      - subst out'. apply Forall_upd; [exact Hwf|].
        intros x Hx (W1 & W2 & W3).
        destruct (H3 c Hc) as (mg' & Hmg' & _ & _ & He & Hse & _).
        rewrite Hx in Hmg'. inversion Hmg'; subst mg'.
        unfold wf_mig; simpl. repeat split; auto. rewrite He in Hse. nord.
    Qed.

    (* ---------- inner loop ---------- *)
    Lemma inner_fold p (Hp : (p < List.length ends)%nat) cs : forall current out,
      NoDup cs -> (forall j k, In (j, k) cs -> valid j k) ->
      Forall wf_mig out ->
      (forall j k, In (j, k) cs -> PairInv p j k current out) ->
      forall current' out',
      fold_left (cell_step names (istart ends p) (nth p ends n0) (nth p mms [])) cs (current, out)
        = (current', out') ->
      Forall wf_mig out' /\
      (forall j k, In (j, k) cs -> PairInv (S p) j k current' out') /\
      (forall q j k, valid j k -> ~ In (j, k) cs -> PairInv q j k current out -> PairInv q j k current' out').
    Proof.
      induction cs as [|[j0 k0] cs IH]; intros current out Hnd' Hval Hwf Hinv current' out' Hfold;
        cbn [fold_left] in Hfold.
      - inversion Hfold; subst. split; [exact Hwf|]. split; [intros j k []|auto].
      - destruct (cell_step names (istart ends p) (nth p ends n0) (nth p mms []) (current, out) (j0, k0))
          as [current1 out1] eqn:Hstep.
        apply NoDup_cons_iff in Hnd'. destruct Hnd' as [Hnotin Hnd'].
        assert (Hv0 : valid j0 k0) by (apply Hval; left; reflexivity).
        assert (Hi0 : PairInv p j0 k0 current out) by (apply Hinv; left; reflexivity).
        assert (Hother : forall q j k, valid j k -> (j, k) <> (j0, k0) ->
                   PairInv q j k current out -> PairInv q j k current1 out1).
        { intros q j k Hv Hne Hq.
          exact (step_other p j0 k0 j k current out current1 out1 q Hv0 Hv Hne Hi0 Hstep Hq). }
        destruct (IH current1 out1 Hnd') with (current' := current') (out' := out') as (W & A & B).
        + intros j k H. apply Hval. right. exact H.
        + eapply step_wf; eauto.
        + intros j k H. apply Hother.
          * apply Hval. right. exact H.
          * intro E. apply Hnotin. rewrite <- E. exact H.
          * apply Hinv. right. exact H.
        + exact Hfold.
        + split; [exact W|]. split.
          * intros j k [E|H]; [|apply A; exact H].
            inversion E; subst j k. apply B; auto. eapply step_own; eauto.
          * intros q j k Hv Hn Hq. apply B; auto.
            -- intro H. apply Hn. right. exact H.
            -- apply Hother; auto. intro E. apply Hn. left. symmetry. exact E.
    Qed.

    (* ---------- outer loop ---------- *)
    Definition OuterInv (p : nat) (st : num * list cur * list bmig) : Prop :=
      fst (fst st) = istart ends p /\ Forall wf_mig (snd st) /\
      forall j k, valid j k -> PairInv p j k (snd (fst st)) (snd st).

    Lemma outer_step_inv p st : (p < List.length ends)%nat -> OuterInv p st ->
      OuterInv (S p) (outer_step names st (nth p mms [], nth p ends n0)).
    Proof.
      intros Hp. destruct st as [[start current] out]. intros (Hs & Hwf & Hinv). simpl in Hs, Hwf, Hinv.
      subst start. unfold outer_step.
      destruct (fold_left (cell_step names (istart ends p) (nth p ends n0) (nth p mms []))
                  (cells (List.length names)) (current, out)) as [current' out'] eqn:Hfold.
      destruct (inner_fold p Hp (cells (List.length names)) current out) with (current' := current') (out' := out')
        as (W & A & _).
      - apply NoDup_cells.
      - intros j k H. apply in_cells in H. exact H.
      - exact Hwf.
      - intros j k H. apply Hinv. apply in_cells in H. exact H.
      - exact Hfold.
      - split; [reflexivity|]. split; [exact W|]. simpl. intros j k Hv. apply A. apply in_cells. exact Hv.
    Qed.

    Lemma outer_fold p : (p <= List.length ends)%nat ->
      OuterInv p (fold_left (outer_step names) (firstn p (combine mms ends)) (ninf, [], [])).
    Proof.
      induction p as [|p IH]; intro Hp.
      - simpl. split; [reflexivity|]. split; [constructor|]. simpl. intros j k _. constructor.
        + intros i t Hi. lia.
        + reflexivity.
        + intros c Hc. discriminate.
      - rewrite (firstn_S_snoc _ ([], n0)) by (rewrite combine_length; lia).
        rewrite fold_left_app. simpl. rewrite combine_nth by exact Hlen.
        apply outer_step_inv; [lia|]. apply IH. lia.
    Qed.

    Lemma final_inv :
      OuterInv (List.length ends) (fold_left (outer_step names) (combine mms ends) (ninf, [], [])).
    Proof.
      pose proof (outer_fold (List.length ends) (le_n _)) as H.
      rewrite firstn_all2 in H by (rewrite combine_length; lia). exact H.
    Qed.
  End Inv.

  Theorem migs_from_matrices_sound names mms ends i j k t :
    NoDup names -> List.length mms = List.length ends ->
    StrictDesc' ends -> (forall e, In e ends -> ok e /\ nisinf e = false) ->
    (forall i' j' k', ok (mentry mms i' j' k')) ->
    (i < List.length mms)%nat -> (j < List.length names)%nat -> (k < List.length names)%nat -> j <> k ->
    ok t -> nle (nth i ends n0) t = true -> nlt t (istart ends i) = true ->
    match in_force (migs_from_matrices names mms ends) (nth k names "") (nth j names "") t with
    | [] => neqb (mentry mms i j k) n0 = true
    | [m] => neqb (bm_rate m) (mentry mms i j k) = true /\ neqb (mentry mms i j k) n0 = false
    | _ => False
    end.
  Proof.
    intros Hnd Hlen Hdesc Hends Hent Hi Hj Hk Hjk Ht Hle Hlt.
    rewrite migs_from_matrices_unfold.
    pose proof (final_inv names mms ends Hnd Hlen Hdesc Hends Hent) as H.
    destruct (fold_left (outer_step names) (combine mms ends) (ninf, [], [])) as [[s c] o].
    destruct H as (_ & _ & H). simpl in H.
    assert (Hv : valid names j k) by (unfold valid; auto).
    destruct (H j k Hv) as [H1 _ _].
    apply (H1 i t); auto. lia.
  Qed.

  (* every record has a non-empty interval and a non-zero rate *)
  Theorem migs_from_matrices_wellformed names mms ends m :
    NoDup names -> List.length mms = List.length ends ->
    StrictDesc' ends -> (forall e, In e ends -> ok e /\ nisinf e = false) ->
    (forall i' j' k', ok (mentry mms i' j' k')) ->
    In m (migs_from_matrices names mms ends) ->
    nlt (bm_end m) (bm_start m) = true /\ neqb (bm_rate m) n0 = false /\ bm_src m <> bm_dst m.
  Proof.
    intros Hnd Hlen Hdesc Hends Hent Hin.
    rewrite migs_from_matrices_unfold in Hin.
    pose proof (final_inv names mms ends Hnd Hlen Hdesc Hends Hent) as H.
    destruct (fold_left (outer_step names) (combine mms ends) (ninf, [], [])) as [[s c] o].
    destruct H as (_ & H & _). simpl in H.
    rewrite Forall_forall in H. exact (H m Hin).
  Qed.
End MigsFromMatrices.

Print Assumptions migs_from_matrices_sound.
Print Assumptions migs_from_matrices_wellformed.
