(* C01, pulses: every pulse that resolve_pulse appends is valid; the final
   stable sort keeps them and lists them oldest first. *)
From Coq Require Import Bool List String QArith Lqa Arith Lia.
From Demes Require Import Base.Num Base.Py Model.MDM Model.Codec Model.MigMat Model.Resolve
  Spec.Valid Proofs.MigMatProofs Proofs.ResolveInv Proofs.ResolveMigs.
Import ListNotations.
Local Open Scope string_scope.
Local Open Scope list_scope.

Section ResolvePulses.
  Context {N : NumOps} {L : NumLaws N}.

  Lemma ValidPulse_ext g g' p : g_demes g' = g_demes g -> ValidPulse g p -> ValidPulse g' p.
  Proof.
    intros E V. destruct V. constructor; auto; unfold find_deme in *; rewrite E; auto.
  Qed.

  Lemma map_JStr_inj (a b : list string) : map JStr a = map JStr b -> a = b.
  Proof.
    revert b. induction a as [|x a IH]; intros [|y b] H; cbn in H; try discriminate; auto.
    injection H as -> H. f_equal. auto.
  Qed.

  Definition PInv (g0 g : graph) : Prop :=
    same_demes g0 g /\ g_migs g = g_migs g0 /\
    forall p, In p (g_pulses g) -> ValidPulse g0 p.

  Lemma add_pulse_spec g0 g so de ti pr g' :
    Idx g0 -> PInv g0 g -> add_pulse g so de ti pr = Ok g' -> PInv g0 g'.
  Proof.
    intros I0 (Sd & Hm & VP) H.
    pose proof (same_demes_idx _ _ Sd I0) as Ix.
    unfold add_pulse in H.
    mbind H srcl Hsrcl. mbind H u0 Hc. mbind H d Hd. mbind H srcs Hsrcs.
    mbind H u1 Hti. mraise H Htn. mbind H dd Hdd. mbind H de' Hde. mbind H t0 Ht0.
    mraise H Hneq. mbind H u2 Hsts. mbind H sn Hsn. mraise H Hsn0. mbind H dn Hdn.
    mbind H t Ht. mbind H u3 Hpos. mbind H u4 Hfin. mbind H prs Hprs.
    mraise H Hmem. mraise H Hnd. mraise H Hlen. mraise H Hsum. injection H as <-.
    apply str_of_spec in Hd. subst de.
    apply deme_name_of_spec in Hdn. destruct Hdn as [Ed _]. injection Ed as <-.
    apply mapM_strs in Hsrcs. apply mapM_names in Hsn. destruct Hsn as [Hsn _].
    rewrite Hsrcs in Hsn. apply map_JStr_inj in Hsn. subst srcs.
    apply iof_spec in Ht. destruct Ht as (Ot & Et & Nt).
    assert (t0 = Some t) as ->.
    { destruct ti; cbn in *; try discriminate; injection Ht0 as <-; congruence. }
    set (p := mkPulse sn d t prs).
    assert (ValidPulse g p) as Vp.
    { constructor; cbn.
      - intros ->. discriminate.
      - apply nodupb_spec. now apply negb_false_iff in Hnd.
      - now apply mem_not_in.
      - apply negb_false_iff in Hlen. apply Nat.eqb_eq in Hlen. auto.
      - intros x Hx. destruct (nums_with_spec _ _ _ Hprs x Hx) as [_ X].
        eapply unit_interval_lo_spec; eauto.
      - exact Hsum.
      - split; [eapply positive_spec|eapply finite_spec]; eauto.
      - exists dd, de'. split; [eapply lookup_find; eauto|]. split; auto.
      - intros s Hs.
        pose proof (forM_inv _ _ _ Hti s Hs) as X. cbv beta in X. mbind X lh Hlh.
        destruct lh as [lo hi].
        destruct (time_intersection_spec _ _ _ _ _ _ Ix Hlh)
          as (sd & d2 & F1 & F2 & Co & _ & W).
        rewrite Et in W.
        pose proof (forM_inv _ _ _ Hsts s Hs) as Y. cbv beta in Y. mbind Y sd' Hsd'.
        apply raise_if_ok in Y. apply (lookup_find _ _ _ Ix) in Hsd'.
        rewrite F1 in Hsd'. injection Hsd' as <-.
        exists sd, d2, lo, hi. auto. }
    destruct Sd as (S1 & S2 & S3).
    split; [|split].
    - repeat split; assumption.
    - exact Hm.
    - intros x Hx. cbn in Hx. apply in_app_or in Hx.
      destruct Hx as [Hx|[<-|[]]]; auto. apply (ValidPulse_ext g); auto.
  Qed.

  Lemma resolve_pulse_spec pdef g0 g pv g' :
    Idx g0 -> PInv g0 g -> resolve_pulse pdef g pv = Ok g' -> PInv g0 g'.
  Proof.
    intros I0 P H. unfold resolve_pulse in H.
    mbind H kv Hkv. mbind H u Hca. mbind H so Hso. mbind H de Hde. mbind H ti Hti.
    mbind H pr Hpr. eapply add_pulse_spec; eauto.
  Qed.

  (* ------------------------------------------------------------------ *)
  (* the sort *)

  Lemma insert_pulse_in p l x : In x (insert_pulse p l) <-> x = p \/ In x l.
  Proof.
    induction l as [|q l IH]; cbn.
    - intuition.
    - destruct (nle (p_time q) (p_time p)); cbn; [intuition|]. rewrite IH. intuition.
  Qed.

  Lemma sort_pulses_in l x : In x (sort_pulses l) <-> In x l.
  Proof.
    induction l as [|p l IH]; cbn; [tauto|].
    rewrite insert_pulse_in, IH. intuition.
  Qed.

  Lemma insert_sorted p l :
    ok (p_time p) -> (forall q, In q l -> ok (p_time q)) ->
    PulsesSorted l -> PulsesSorted (insert_pulse p l).
  Proof.
    intros Op. induction l as [|q l IH]; intros Hok Hs.
    - exact Logic.I.
    - assert (ok (p_time q)) as Oq by (apply Hok; now left).
      assert (forall q', In q' l -> ok (p_time q')) as Hok' by (intros; apply Hok; now right).
      cbn [insert_pulse]. destruct (nle (p_time q) (p_time p)) eqn:E.
      + split; auto.
      + destruct l as [|q2 l'].
        * cbn. split; auto. nord.
        * destruct Hs as [Hq Hs]. specialize (IH Hok' Hs).
          cbn [insert_pulse] in *. destruct (nle (p_time q2) (p_time p)) eqn:E2.
          -- split; auto. nord.
          -- split; auto.
  Qed.

  Lemma sort_pulses_sorted l :
    (forall q, In q l -> ok (p_time q)) -> PulsesSorted (sort_pulses l).
  Proof.
    induction l as [|p l IH]; intro Hok; [exact Logic.I|].
    cbn. apply insert_sorted.
    - apply Hok. now left.
    - intros q Hq. apply (proj1 (sort_pulses_in _ _)) in Hq. apply Hok. now right.
    - apply IH. intros q Hq. apply Hok. now right.
  Qed.
End ResolvePulses.
