(* C10 (part B): closeness ignores descriptions, DOIs, metadata, migration order, deme order and
   the order of a deme's ancestors. *)
From Coq Require Import Bool List String Ascii QArith Lqa Arith Lia Permutation NArith Sorted.
From Demes Require Import Base.Num Base.Py Model.MDM Model.Close Spec.Valid.
Import ListNotations.
Local Open Scope string_scope.
Local Open Scope list_scope.

(* ---------- generic: insertion sort with a strict order total on a universe U ---------- *)
Section SortCanon.
  Context {A : Type} (lt : A -> A -> bool) (U : list A).
  Hypothesis lt_irr : forall x, In x U -> lt x x = false.
  Hypothesis lt_tr : forall x y z, In x U -> In y U -> In z U ->
                                   lt x y = true -> lt y z = true -> lt x z = true.
  Hypothesis lt_tri : forall x y, In x U -> In y U -> lt x y = true \/ x = y \/ lt y x = true.

  (* x is "at most" y *)
  Let le (x y : A) : Prop := lt y x = false.

  Lemma insert_sorted_perm x l : Permutation (insert_sorted lt x l) (x :: l).
  Proof.
    induction l as [|y l IH]; simpl; [reflexivity|].
    destruct (lt x y); [reflexivity|].
    rewrite IH. apply perm_swap.
  Qed.

  Lemma sort_stable_perm l : Permutation (sort_stable lt l) l.
  Proof.
    induction l as [|x l IH]; simpl; [reflexivity|].
    unfold sort_stable in *; simpl. rewrite insert_sorted_perm. now constructor.
  Qed.

  Lemma insert_sorted_sorted x l :
    In x U -> incl l U -> StronglySorted le l -> StronglySorted le (insert_sorted lt x l).
  Proof.
    intros Hx Hl Hs. induction Hs as [|y l Hs IH Hy]; simpl.
    - constructor; constructor.
    - assert (HyU : In y U) by (apply Hl; left; reflexivity).
      assert (HlU : incl l U) by (intros z Hz; apply Hl; right; exact Hz).
      destruct (lt x y) eqn:E.
      + constructor; [constructor; assumption|].
        constructor.
        * unfold le. destruct (lt y x) eqn:E2; [|reflexivity].
          rewrite <- (lt_irr x Hx). symmetry. apply (lt_tr x y x); assumption.
        * rewrite Forall_forall in *. intros z Hz. unfold le.
          destruct (lt z x) eqn:E2; [|reflexivity].
          rewrite <- (Hy z Hz). symmetry. apply (lt_tr z x y); auto.
      + constructor; [apply IH; assumption|].
        apply (Permutation_Forall (Permutation_sym (insert_sorted_perm x l))).
        constructor; assumption.
  Qed.

  Lemma sort_stable_sorted l : incl l U -> StronglySorted le (sort_stable lt l).
  Proof.
    induction l as [|x l IH]; intro Hl; unfold sort_stable in *; simpl.
    - constructor.
    - apply insert_sorted_sorted.
      + apply Hl; left; reflexivity.
      + intros z Hz. apply Hl. right.
        apply (Permutation_in z (sort_stable_perm l)). exact Hz.
      + apply IH. intros z Hz; apply Hl; right; exact Hz.
  Qed.

  Lemma sorted_perm_eq l1 : forall l2,
    incl l1 U -> incl l2 U -> StronglySorted le l1 -> StronglySorted le l2 ->
    Permutation l1 l2 -> l1 = l2.
  Proof.
    induction l1 as [|x l1 IH]; intros l2 H1 H2 S1 S2 P.
    - apply Permutation_nil in P. now subst.
    - destruct l2 as [|y l2]; [apply Permutation_sym, Permutation_nil in P; discriminate|].
      inversion S1 as [|? ? S1' F1]; subst. inversion S2 as [|? ? S2' F2]; subst.
      assert (Hx : In x U) by (apply H1; left; reflexivity).
      assert (Hy : In y U) by (apply H2; left; reflexivity).
      assert (Exy : x = y).
      { rewrite Forall_forall in F1, F2.
        assert (In y (x :: l1)) as [E|I1] by (apply (Permutation_in y (Permutation_sym P)); left; reflexivity);
          [exact E|].
        assert (In x (y :: l2)) as [E|I2] by (apply (Permutation_in x P); left; reflexivity);
          [now symmetry|].
        pose proof (F1 y I1) as L1. pose proof (F2 x I2) as L2. unfold le in *.
        destruct (lt_tri x y Hx Hy) as [T|[T|T]]; [congruence|exact T|congruence]. }
      subst y. f_equal. apply IH; auto.
      + intros z Hz; apply H1; right; exact Hz.
      + intros z Hz; apply H2; right; exact Hz.
      + apply Permutation_cons_inv in P. exact P.
  Qed.

  Lemma sort_perm_eq_U l l' :
    incl l U -> Permutation l l' -> sort_stable lt l = sort_stable lt l'.
  Proof.
    intros Hl P.
    assert (Hl' : incl l' U).
    { intros z Hz. apply Hl. apply (Permutation_in z (Permutation_sym P)). exact Hz. }
    apply sorted_perm_eq.
    - intros z Hz. apply Hl. apply (Permutation_in z (sort_stable_perm l)). exact Hz.
    - intros z Hz. apply Hl'. apply (Permutation_in z (sort_stable_perm l')). exact Hz.
    - apply sort_stable_sorted; exact Hl.
    - apply sort_stable_sorted; exact Hl'.
    - rewrite sort_stable_perm, sort_stable_perm. exact P.
  Qed.
End SortCanon.

Lemma NoDup_map_inj_in {A B} (f : A -> B) (l : list A) x y :
  NoDup (map f l) -> In x l -> In y l -> f x = f y -> x = y.
Proof.
  induction l as [|a l IH]; simpl; intros ND Hx Hy E; [contradiction|].
  inversion ND as [|? ? Hn ND']; subst.
  destruct Hx as [->|Hx], Hy as [->|Hy]; auto.
  - exfalso. apply Hn. rewrite E. apply in_map. exact Hy.
  - exfalso. apply Hn. rewrite <- E. apply in_map. exact Hx.
Qed.

(* ---------- String.ltb is a strict total order ---------- *)
Lemma ascii_compare_refl a : Ascii.compare a a = Eq.
Proof. unfold Ascii.compare. apply N.compare_refl. Qed.

Lemma str_compare_refl s : String.compare s s = Eq.
Proof. induction s as [|a s IH]; simpl; [reflexivity|]. rewrite ascii_compare_refl. exact IH. Qed.

Lemma str_compare_lt_trans s1 : forall s2 s3,
  String.compare s1 s2 = Lt -> String.compare s2 s3 = Lt -> String.compare s1 s3 = Lt.
Proof.
  induction s1 as [|a s1 IH]; intros [|b s2] [|c s3]; simpl; try congruence.
  destruct (Ascii.compare a b) eqn:E1; try discriminate;
    destruct (Ascii.compare b c) eqn:E2; try discriminate; intros H1 H2.
  - apply Ascii.compare_eq_iff in E1, E2. subst. rewrite ascii_compare_refl. eapply IH; eauto.
  - apply Ascii.compare_eq_iff in E1. subst. rewrite E2. reflexivity.
  - apply Ascii.compare_eq_iff in E2. subst. rewrite E1. reflexivity.
  - unfold Ascii.compare in *. rewrite N.compare_lt_iff in *.
    assert (E : (N_of_ascii a ?= N_of_ascii c)%N = Lt) by (rewrite N.compare_lt_iff; lia).
    rewrite E. reflexivity.
Qed.

Lemma ltb_lt s t : String.ltb s t = true <-> String.compare s t = Lt.
Proof. unfold String.ltb. destruct (String.compare s t); split; congruence. Qed.

Lemma ltb_irrefl s : String.ltb s s = false.
Proof. unfold String.ltb. rewrite str_compare_refl. reflexivity. Qed.

Lemma ltb_trans s t u : String.ltb s t = true -> String.ltb t u = true -> String.ltb s u = true.
Proof. rewrite !ltb_lt. apply str_compare_lt_trans. Qed.

Lemma ltb_tri s t : String.ltb s t = true \/ s = t \/ String.ltb t s = true.
Proof.
  rewrite !ltb_lt. rewrite (String.compare_antisym t s).
  destruct (String.compare s t) eqn:E; simpl; auto.
  right; left. now apply String.compare_eq_iff.
Qed.

Lemma ltb_asym s t : String.ltb s t = true -> String.ltb t s = false.
Proof.
  intro H. destruct (String.ltb t s) eqn:E; [|reflexivity].
  pose proof (ltb_trans _ _ _ H E) as X. rewrite ltb_irrefl in X. discriminate.
Qed.

Section CloseProofsB.
  Context {N : NumOps} {L : NumLaws N}.

  (* generic: sorting with a strict order that is total on the elements is canonical *)
  Theorem sort_perm_eq {A} (lt : A -> A -> bool) (l l' : list A) :
    (forall x, In x l -> lt x x = false) ->
    (forall x y z, In x l -> In y l -> In z l -> lt x y = true -> lt y z = true -> lt x z = true) ->
    (forall x y, In x l -> In y l -> lt x y = true \/ x = y \/ lt y x = true) ->
    Permutation l l' -> sort_stable lt l = sort_stable lt l'.
  Proof.
    intros H1 H2 H3 P. apply (sort_perm_eq_U lt l H1 H2 H3); [apply incl_refl|exact P].
  Qed.

  (* non-semantic fields *)
  Theorem close_ignores_text rel abs a b desc doi meta :
    close_graph rel abs
      (mkGraph desc (g_units a) (g_gt a) doi meta (g_demes a) (g_migs a) (g_pulses a) (g_index a)) b
    = close_graph rel abs a b.
  Proof. reflexivity. Qed.

  Theorem close_ignores_deme_desc rel abs a b s :
    close_deme rel abs (mkDeme (d_name a) s (d_start a) (d_anc a) (d_props a) (d_epochs a)) b
    = close_deme rel abs a b.
  Proof. reflexivity. Qed.

  (* deme order: any permutation of the deme list (names pairwise distinct) *)
  Lemma sort_deme_perm ds ds' :
    NoDup (map d_name ds) -> Permutation ds ds' ->
    sort_stable deme_lt ds = sort_stable deme_lt ds'.
  Proof.
    intros ND P. apply sort_perm_eq; [| | |exact P]; unfold deme_lt.
    - intros x _. apply ltb_irrefl.
    - intros x y z _ _ _. apply ltb_trans.
    - intros x y Hx Hy.
      destruct (ltb_tri (d_name x) (d_name y)) as [T|[T|T]]; auto.
      right; left. eapply NoDup_map_inj_in; eauto.
  Qed.

  Theorem close_deme_order rel abs a b ds' :
    NoDup (map d_name (g_demes a)) -> Permutation (g_demes a) ds' ->
    close_graph rel abs
      (mkGraph (g_desc a) (g_units a) (g_gt a) (g_doi a) (g_meta a) ds' (g_migs a) (g_pulses a) (g_index a)) b
    = close_graph rel abs a b.
  Proof.
    intros ND P. unfold close_graph; simpl.
    rewrite <- (sort_deme_perm _ _ ND P), <- (Permutation_length P). reflexivity.
  Qed.

  (* ---- migrations ---- *)
  Definition okm (m : mig) : Prop := ok (m_start m) /\ ok (m_end m) /\ ok (m_rate m).

  Definition mlt (a b : mig) : Prop :=
    String.ltb (m_src a) (m_src b) = true \/ (m_src a = m_src b /\
    (String.ltb (m_dst a) (m_dst b) = true \/ (m_dst a = m_dst b /\
    (rk (m_start a) < rk (m_start b) \/ (rk (m_start a) == rk (m_start b) /\
    (rk (m_end a) < rk (m_end b) \/ (rk (m_end a) == rk (m_end b) /\
     rk (m_rate a) < rk (m_rate b)))))))).

  Lemma nlt_spec x y : ok x -> ok y ->
    (nlt x y = true /\ rk x < rk y) \/ (nlt x y = false /\ rk y <= rk x).
  Proof.
    intros Hx Hy. destruct (nlt x y) eqn:E.
    - left; split; auto. apply lt_true in E; tauto.
    - right; split; auto. apply lt_false in E; auto.
  Qed.
  Lemma neqb_spec x y : ok x -> ok y ->
    (neqb x y = true /\ rk x == rk y) \/ (neqb x y = false /\ ~ rk x == rk y).
  Proof.
    intros Hx Hy. destruct (neqb x y) eqn:E.
    - left; split; auto. apply eq_true in E; tauto.
    - right; split; auto. apply eq_false in E; auto.
  Qed.

  Lemma mig_lt_spec a b : okm a -> okm b -> (mig_lt a b = true <-> mlt a b).
  Proof.
    intros (Hs1 & He1 & Hr1) (Hs2 & He2 & Hr2). unfold mig_lt, mlt.
    destruct (String.ltb (m_src a) (m_src b)) eqn:S1; [tauto|].
    destruct (String.eqb (m_src a) (m_src b)) eqn:S2; simpl;
      [apply String.eqb_eq in S2|apply String.eqb_neq in S2; split; [discriminate|intros [X|[X _]]; [discriminate|contradiction]]].
    destruct (String.ltb (m_dst a) (m_dst b)) eqn:D1; [tauto|].
    destruct (String.eqb (m_dst a) (m_dst b)) eqn:D2; simpl;
      [apply String.eqb_eq in D2|apply String.eqb_neq in D2; split; [discriminate|intros [X|[_ [X|[X _]]]]; [discriminate|discriminate|contradiction]]].
    destruct (nlt_spec _ _ Hs1 Hs2) as [[-> Q1]|[-> Q1]]; [tauto|].
    destruct (neqb_spec _ _ Hs1 Hs2) as [[-> Q2]|[-> Q2]]; simpl;
      [|split; [discriminate|intros [X|[_ [X|[_ X]]]]; [discriminate|discriminate|lra]]].
    destruct (nlt_spec _ _ He1 He2) as [[-> Q3]|[-> Q3]]; [tauto|].
    destruct (neqb_spec _ _ He1 He2) as [[-> Q4]|[-> Q4]]; simpl;
      [|split; [discriminate|intros [X|[_ [X|[_ X]]]]; [discriminate|discriminate|lra]]].
    destruct (nlt_spec _ _ Hr1 Hr2) as [[-> Q5]|[-> Q5]]; [tauto|].
    split; [discriminate|intros [X|[_ [X|[_ X]]]]; [discriminate|discriminate|lra]].
  Qed.

  Lemma mlt_irrefl a : ~ mlt a a.
  Proof.
    unfold mlt. rewrite !ltb_irrefl. intros [X|[_ [X|[_ X]]]]; [discriminate|discriminate|lra].
  Qed.

  Lemma mlt_trans a b c : mlt a b -> mlt b c -> mlt a c.
  Proof.
    unfold mlt. intros [H1|[E1 H1]] [H2|[E2 H2]].
    - left; eapply ltb_trans; eauto.
    - left; rewrite <- E2; exact H1.
    - left; rewrite E1; exact H2.
    - right; split; [congruence|].
      destruct H1 as [H1|[F1 H1]], H2 as [H2|[F2 H2]].
      + left; eapply ltb_trans; eauto.
      + left; rewrite <- F2; exact H1.
      + left; rewrite F1; exact H2.
      + right; split; [congruence|]. lra.
  Qed.

  Lemma mlt_tri a b :
    mlt a b \/ mlt b a \/
    (m_src a = m_src b /\ m_dst a = m_dst b /\
     rk (m_start a) == rk (m_start b) /\ rk (m_end a) == rk (m_end b)).
  Proof.
    unfold mlt.
    destruct (ltb_tri (m_src a) (m_src b)) as [T|[T|T]]; [tauto| |tauto].
    destruct (ltb_tri (m_dst a) (m_dst b)) as [T2|[T2|T2]]; [tauto| |symmetry in T; tauto].
    assert (T' := eq_sym T). assert (T2' := eq_sym T2).
    destruct (Qlt_le_dec (rk (m_start a)) (rk (m_start b))) as [C|C]; [tauto|].
    destruct (Qlt_le_dec (rk (m_start b)) (rk (m_start a))) as [C2|C2]; [tauto|].
    assert (rk (m_start a) == rk (m_start b)) by lra.
    assert (rk (m_start b) == rk (m_start a)) by lra.
    destruct (Qlt_le_dec (rk (m_end a)) (rk (m_end b))) as [C3|C3]; [tauto|].
    destruct (Qlt_le_dec (rk (m_end b)) (rk (m_end a))) as [C4|C4]; [tauto|].
    assert (rk (m_end a) == rk (m_end b)) by lra.
    tauto.
  Qed.

  Lemma sort_mig_perm ms ms' :
    (forall m, In m ms -> nlt (m_end m) (m_start m) = true /\ ok (m_rate m)) ->
    NoOverlap ms -> Permutation ms ms' ->
    sort_stable mig_lt ms = sort_stable mig_lt ms'.
  Proof.
    intros Hok NO P.
    assert (OK : forall m, In m ms -> okm m).
    { intros m Hm. destruct (Hok m Hm) as [H1 H2]. apply lt_true in H1. unfold okm; tauto. }
    apply sort_perm_eq; [| | |exact P].
    - intros x Hx. destruct (mig_lt x x) eqn:E; [|reflexivity].
      apply mig_lt_spec in E; auto. exfalso; exact (mlt_irrefl x E).
    - intros x y z Hx Hy Hz H1 H2.
      apply mig_lt_spec in H1; auto. apply mig_lt_spec in H2; auto.
      apply mig_lt_spec; auto. eapply mlt_trans; eauto.
    - intros x y Hx Hy.
      destruct (mlt_tri x y) as [T|[T|(E1 & E2 & E3 & E4)]].
      + left. apply mig_lt_spec; auto.
      + right; right. apply mig_lt_spec; auto.
      + right; left.
        destruct (In_nth_error _ _ Hx) as [i Hi]. destruct (In_nth_error _ _ Hy) as [j Hj].
        destruct (Nat.eq_dec i j) as [->|Hij]; [congruence|].
        exfalso. destruct (Hok x Hx) as [Lx _]. destruct (Hok y Hy) as [Ly _].
        destruct (OK x Hx) as (Sx & Ex & _). destruct (OK y Hy) as (Sy & Ey & _).
        apply (NO i j x y (m_end x) Hij Hi Hj E1 E2 Ex); unfold Active; split.
        * exact Lx.
        * apply le_iff; auto. lra.
        * apply lt_true in Lx. apply lt_iff; auto. lra.
        * apply le_iff; auto. lra.
  Qed.

  (* migration order: any permutation, for a graph whose migrations do not overlap *)
  Theorem close_mig_order rel abs a b ms' :
    (forall m, In m (g_migs a) -> nlt (m_end m) (m_start m) = true /\ ok (m_rate m)) ->
    NoOverlap (g_migs a) -> NoDup (g_migs a) -> Permutation (g_migs a) ms' ->
    close_graph rel abs
      (mkGraph (g_desc a) (g_units a) (g_gt a) (g_doi a) (g_meta a) (g_demes a) ms' (g_pulses a) (g_index a)) b
    = close_graph rel abs a b.
  Proof.
    intros Hok NO _ P. unfold close_graph; simpl.
    rewrite <- (sort_mig_perm _ _ Hok NO P), <- (Permutation_length P). reflexivity.
  Qed.

  (* order of a deme's ancestors (with their proportions): any permutation of the pairs *)
  Lemma map_fst_combine {X Y} (l1 : list X) : forall (l2 : list Y),
    List.length l1 = List.length l2 -> map fst (combine l1 l2) = l1.
  Proof.
    induction l1 as [|x l1 IH]; intros [|y l2]; simpl; try discriminate; auto.
    intro H. f_equal. apply IH. congruence.
  Qed.
  Lemma map_snd_combine {X Y} (l1 : list X) : forall (l2 : list Y),
    List.length l1 = List.length l2 -> map snd (combine l1 l2) = l2.
  Proof.
    induction l1 as [|x l1 IH]; intros [|y l2]; simpl; try discriminate; auto.
    intro H. f_equal. apply IH. congruence.
  Qed.

  Theorem close_props_perm an ap an' ap' bn bp rel abs :
    List.length an = List.length ap -> List.length an' = List.length ap' ->
    NoDup an -> Permutation (combine an ap) (combine an' ap') ->
    close_props an' ap' bn bp rel abs = close_props an ap bn bp rel abs.
  Proof.
    intros H1 H2 ND P. unfold close_props.
    assert (Ln : List.length an' = List.length an).
    { rewrite <- (map_fst_combine an ap H1), <- (map_fst_combine an' ap' H2), !map_length.
      symmetry. apply Permutation_length. exact P. }
    assert (Lp : List.length ap' = List.length ap) by congruence.
    rewrite Ln, Lp.
    replace (sort_stable name_lt (combine an' ap')) with (sort_stable name_lt (combine an ap));
      [reflexivity|].
    apply sort_perm_eq; [| | |exact P]; unfold name_lt.
    - intros x _. apply ltb_irrefl.
    - intros x y z _ _ _. apply ltb_trans.
    - intros x y Hx Hy.
      destruct (ltb_tri (fst x) (fst y)) as [T|[T|T]]; auto.
      right; left. apply (NoDup_map_inj_in fst (combine an ap)); auto.
      rewrite map_fst_combine; auto.
  Qed.
End CloseProofsB.

Print Assumptions sort_perm_eq.
Print Assumptions close_ignores_text.
Print Assumptions close_ignores_deme_desc.
Print Assumptions close_deme_order.
Print Assumptions close_mig_order.
Print Assumptions close_props_perm.
