(* C05 (a),(b): asdict_simplified never fails on a valid graph; the merge of migrations
   preserves them and yields well-formed symmetric groups. *)
From Coq Require Import Bool List String QArith Lqa Arith Lia Permutation.
From Demes Require Import Base.Num Base.Py Model.MDM Model.Codec Model.MigMat Model.Resolve
  Model.Simplify Spec.Valid Proofs.MigMatProofs Proofs.FixedPoint Proofs.SimplifyLists
  Proofs.SimplifySearch.
Import ListNotations.
Local Open Scope string_scope.
Local Open Scope list_scope.

Section SimplifyTotal.
  Context {N : NumOps} {L : NumLaws N}.

  (* ------------------------------------------------------------------ *)
  (* lookups in a valid graph *)

  Lemma lookup_fd g name :
    g_index g = index_from 0 (g_demes g) ->
    lookup g name = match fd name (g_demes g) with Some d => Ok d | None => Err KeyErr end.
  Proof.
    intro Hi. unfold lookup. rewrite Hi.
    pose proof (assoc_index_from name (g_demes g) 0) as H.
    destruct (fd name (g_demes g)) as [d|].
    - destruct H as (k & H1 & H2). rewrite H1. cbn. now rewrite H2.
    - now rewrite H.
  Qed.

  Lemma valid_names_nodup g : Valid g -> NoDup (map d_name (g_demes g)).
  Proof. intro V. exact (proj1 (valid_demes_nodup _ _ (v_demes _ V))). Qed.

  Lemma valid_prefix : forall rest earlier d,
    ValidDemes earlier rest -> In d rest ->
    exists r1 r2, rest = r1 ++ d :: r2 /\ ValidDeme (earlier ++ r1) d.
  Proof.
    induction rest as [|a rest IH]; intros earlier d V Hd; [destruct Hd|].
    destruct V as [Va Vr]. destruct Hd as [<-|Hd].
    - exists [], rest. rewrite app_nil_r. auto.
    - destruct (IH _ _ Vr Hd) as (r1 & r2 & -> & Vd).
      exists (a :: r1), r2. split; [reflexivity|]. rewrite <- app_assoc in Vd. exact Vd.
  Qed.

  Lemma valid_deme_end earlier d : ValidDeme earlier d -> exists e, d_end d = Ok e.
  Proof.
    intro V. pose proof (vd_epochs_ne _ _ V) as Hne. unfold d_end.
    destruct (rev (d_epochs d)) as [|e r] eqn:E; [|eauto].
    apply (f_equal (@rev _)) in E. rewrite rev_involutive in E. cbn in E. congruence.
  Qed.

  (* every ancestor of a deme of a valid graph is found, and is alive at the deme's start *)
  Lemma valid_anc g d a :
    Valid g -> In d (g_demes g) -> In a (d_anc d) ->
    exists ad ea, fd a (g_demes g) = Some ad /\ In ad (g_demes g) /\ d_end ad = Ok ea /\
                  nlt (d_start d) (d_start ad) = true /\ nle ea (d_start d) = true.
  Proof.
    intros V Hd Ha.
    destruct (valid_prefix _ _ _ (v_demes _ V) Hd) as (r1 & r2 & E & Vd). cbn [app] in Vd.
    destruct (vd_anc _ _ Vd a Ha) as (ad & Hin & Hn & (ea & He & A1 & A2)).
    assert (Hin' : In ad (g_demes g)).
    { rewrite E. apply in_or_app. now left. }
    exists ad, ea. repeat split; auto.
    subst a. apply fd_some; [now apply valid_names_nodup|exact Hin'].
  Qed.

  Lemma simp_deme_total g d : Valid g -> In d (g_demes g) -> exists j, simp_deme g d = Ok j.
  Proof.
    intros V Hd. unfold simp_deme.
    destruct (nisinf (d_start d)); [cbn [bind]; eauto|].
    destruct (d_anc d) as [|a [|b l]] eqn:E; try (cbn [bind]; eauto).
    destruct (valid_anc g d a V Hd) as (ad & ea & F & _ & He & _); [rewrite E; now left|].
    rewrite (lookup_fd _ _ (v_index _ V)), F. cbn [bind]. rewrite He. cbn [bind]. eauto.
  Qed.

  (* ------------------------------------------------------------------ *)
  (* strip_bounds on a valid migration *)

  Definition stripped_of (s d : deme) (es ed : num) (m : mig) : smig :=
    mkSmig (m_src m) (m_dst m) (m_rate m)
           (if neqb (m_start m) (pymin (d_start s) (d_start d)) then None else Some (m_start m))
           (if neqb (m_end m) (pymax es ed) then None else Some (m_end m)).

  Lemma strip_ok g m :
    Valid g -> ValidMig g m ->
    exists s d es ed,
      fd (m_src m) (g_demes g) = Some s /\ fd (m_dst m) (g_demes g) = Some d /\
      d_end s = Ok es /\ d_end d = Ok ed /\
      strip_bounds g m = Ok (stripped_of s d es ed m).
  Proof.
    intros V VM. destruct (vm_demes _ _ VM) as (s & d & lo & hi & Fs & Fd & Co & _).
    destruct Co as (es & ed & Es & Ed & _). unfold DEnd in *.
    exists s, d, es, ed. unfold find_deme in *. repeat split; auto.
    unfold strip_bounds. rewrite !(lookup_fd _ _ (v_index _ V)).
    unfold fd. rewrite Fs, Fd. cbn [bind]. rewrite Es, Ed. reflexivity.
  Qed.

  Lemma strip_total g : Valid g -> exists stripped, mapM (strip_bounds g) (g_migs g) = Ok stripped.
  Proof.
    intro V. apply mapM_total. intros m Hm.
    destruct (strip_ok g m V (v_migs _ V m Hm)) as (s & d & es & ed & _ & _ & _ & _ & H). eauto.
  Qed.

  Lemma stripped_refl g m sm :
    Valid g -> ValidMig g m -> strip_bounds g m = Ok sm -> smig_eqb sm sm = true.
  Proof.
    intros V VM H. destruct (strip_ok g m V VM) as (s & d & es & ed & _ & _ & _ & _ & H').
    rewrite H' in H. injection H as <-.
    pose proof (vm_order _ _ VM) as O. destruct (vm_rate _ _ VM) as [R _].
    apply lt_true in O. destruct O as (O1 & O2 & _). apply le_true in R. destruct R as (_ & R & _).
    apply smig_eqb_spec. repeat split. apply key_eqb_spec. unfold stripped_of. cbn.
    repeat split.
    - now apply eq_refl_ok.
    - destruct (neqb (m_start m) _); cbn; [reflexivity|now apply eq_refl_ok].
    - destruct (neqb (m_end m) _); cbn; [reflexivity|now apply eq_refl_ok].
  Qed.

  (* two migrations of a valid graph never agree on source, dest, start and end *)
  Definition MDiff (a b : mig) : Prop :=
    ~ (m_src a = m_src b /\ m_dst a = m_dst b /\ neqb (m_start a) (m_start b) = true /\
       neqb (m_end a) (m_end b) = true).

  Lemma valid_migs_distinct g : Valid g -> AllPairs MDiff (g_migs g).
  Proof.
    intro V. apply AllPairs_of_nth. intros i j a b Hij Hi Hj (E1 & E2 & E3 & E4).
    pose proof (vm_order _ _ (v_migs _ V a (nth_error_In _ _ Hi))) as Oa.
    pose proof (vm_order _ _ (v_migs _ V b (nth_error_In _ _ Hj))) as Ob.
    assert (ok (m_end a)) by (apply lt_true in Oa; tauto).
    apply (v_overlap _ V i j a b (m_end a) Hij Hi Hj E1 E2); [assumption| |];
      unfold Active; split; nord.
  Qed.

  Lemma onum_if_eq x y hi hi' :
    neqb hi hi' = true ->
    onum_eqb (if neqb x hi then None else Some x) (if neqb y hi' then None else Some y) = true ->
    ok x -> ok y -> neqb x y = true.
  Proof.
    intros Hh H okx oky.
    destruct (neqb x hi) eqn:E1, (neqb y hi') eqn:E2; cbn in H; try discriminate; [nord|exact H].
  Qed.

  Lemma stripped_distinct g stripped :
    Valid g -> mapM (strip_bounds g) (g_migs g) = Ok stripped -> Distinct stripped.
  Proof.
    intros V H. apply mapM_Forall2 in H.
    apply (AllPairs_Forall2 MDiff SDiff
             (fun m sm => ValidMig g m /\ strip_bounds g m = Ok sm) (g_migs g)).
    - intros a b a' b' [Va Ha] [Vb Hb] D.
      destruct (strip_ok g a V Va) as (s & d & es & ed & Fs & Fd & Es & Ed & Ha').
      destruct (strip_ok g b V Vb) as (s2 & d2 & es2 & ed2 & Fs2 & Fd2 & Es2 & Ed2 & Hb').
      rewrite Ha' in Ha. rewrite Hb' in Hb. injection Ha as <-. injection Hb as <-.
      unfold SDiff. destruct (smig_eqb _ _) eqn:E; [exfalso|reflexivity].
      apply smig_eqb_spec in E. destruct E as (E1 & E2 & E3).
      apply key_eqb_spec in E3. unfold stripped_of in *. cbn in E1, E2, E3.
      destruct E3 as (_ & K2 & K3).
      rewrite <- E1 in Fs2. rewrite <- E2 in Fd2.
      assert (s2 = s) by congruence. assert (d2 = d) by congruence. subst s2 d2.
      assert (es2 = es) by congruence. assert (ed2 = ed) by congruence. subst es2 ed2.
      pose proof (vm_order _ _ Va) as Oa. pose proof (vm_order _ _ Vb) as Ob.
      apply lt_true in Oa, Ob. destruct Oa as (Oa1 & Oa2 & _). destruct Ob as (Ob1 & Ob2 & _).
      destruct (vm_demes _ _ Va) as (s0 & d0 & lo & hi & Fs0 & Fd0 & Co & [_ W2] & [W3 _]).
      unfold find_deme in Fs0, Fd0. unfold fd in Fs, Fd.
      assert (s0 = s) by congruence. assert (d0 = d) by congruence. subst s0 d0.
      destruct Co as (es0 & ed0 & Es0 & Ed0 & -> & ->). unfold DEnd in *.
      assert (es0 = es) by congruence. assert (ed0 = ed) by congruence. subst es0 ed0.
      fold (pymin (d_start s) (d_start d)) in W2. fold (pymax es ed) in W3.
      assert (okhi : neqb (pymin (d_start s) (d_start d)) (pymin (d_start s) (d_start d)) = true).
      { apply eq_refl_ok. apply le_true in W2. tauto. }
      assert (oklo : neqb (pymax es ed) (pymax es ed) = true).
      { apply eq_refl_ok. apply le_true in W3. tauto. }
      apply D. repeat split; auto.
      + exact (onum_if_eq _ _ _ _ okhi K2 Oa2 Ob2).
      + exact (onum_if_eq _ _ _ _ oklo K3 Oa1 Ob1).
    - eapply Forall2_mono; [|exact H]. intros a b Ha _ Hab. split; [|exact Hab].
      now apply (v_migs _ V).
    - now apply valid_migs_distinct.
  Qed.

  Lemma stripped_all_refl g stripped :
    Valid g -> mapM (strip_bounds g) (g_migs g) = Ok stripped ->
    forall m, In m stripped -> smig_eqb m m = true.
  Proof.
    intros V H m Hm. apply mapM_Forall2 in H.
    destruct (Forall2_in_r' _ _ _ H m Hm) as (a & Ha & Hs).
    exact (stripped_refl g a m V (v_migs _ V a Ha) Hs).
  Qed.

  (* ------------------------------------------------------------------ *)
  (* (a), (b) *)

  Theorem simplify_migrations_total g : Valid g -> exists r, simplify_migrations g = Ok r.
  Proof.
    intro V. rewrite simplify_migrations_unfold.
    destruct (strip_total g V) as (stripped & Hs). rewrite Hs. cbn [bind].
    destruct (rate_sets_total stripped) as (r & Hr).
    - exact (stripped_distinct g stripped V Hs).
    - exact (stripped_all_refl g stripped V Hs).
    - rewrite Hr. cbn [bind]. eauto.
  Qed.

  Theorem simplify_total' g : Valid g -> exists doc, asdict_simplified g = Ok doc.
  Proof.
    intro V. unfold asdict_simplified.
    destruct (mapM_total (simp_deme g) (g_demes g)) as (demes & Hd).
    { intros d Hd. now apply simp_deme_total. }
    rewrite Hd. cbn [bind].
    destruct (g_migs g) eqn:E; [cbn [bind]; eauto|].
    destruct (simplify_migrations_total g V) as (r & Hr). rewrite Hr. cbn [bind]. eauto.
  Qed.

  Theorem simplify_migrations_spec g syms asym stripped :
    Valid g -> simplify_migrations g = Ok (syms, asym) ->
    mapM (strip_bounds g) (g_migs g) = Ok stripped ->
    PermEq stripped (flat_map SimplifySearch.expand_sym syms ++ asym) /\
    forall s, In s syms -> (2 <= List.length (sy_demes s))%nat /\ NoDup (sy_demes s).
  Proof.
    intros V H Hs. rewrite simplify_migrations_unfold, Hs in H. cbn [bind] in H.
    apply sbind_inv in H. destruct H as (r & Hr & H). injection H as ->.
    apply (rate_sets_inv stripped (syms, asym)); [|exact Hr].
    exact (stripped_all_refl g stripped V Hs).
  Qed.

End SimplifyTotal.
