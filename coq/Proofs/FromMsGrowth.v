(* C08: the growth-rate bookkeeping of from_ms's interpreter (Model/FromMs.v: step, set_growth,
   set_size, epoch_resolve) refines the ms semantics (Spec/MsSem.v: apply_ev, regrow, resize):
   event after event, for every population that has not been emptied by an -ej, the growth rate
   that the head (most recent being edited, i.e. oldest-in-time) epoch of the deme carries is
   (numerically) the ms population's alpha divided by 4*N0, or both are zero.
   Extends the relation MRel of Proofs/FromMsRefine.v (population count, emptied set, matrix). *)
From Coq Require Import Bool List String Arith Lia.
From Demes Require Import Base.Num Base.Py Model.MDM Model.MsOpt Model.FromMs Spec.MsSem
  Proofs.ResolveInv Proofs.FromMsRefine.
Import ListNotations.
Local Open Scope string_scope.
Local Open Scope list_scope.

(* ---------- the two monadic list traversals of step ---------- *)
Lemma mapiM_nth {N : NumOps} {A B} (f : nat -> A -> res B) l : forall k0 l',
  mapiM k0 f l = Ok l' ->
  List.length l' = List.length l /\
  forall k x, nth_error l k = Some x -> exists y, f (k0 + k) x = Ok y /\ nth_error l' k = Some y.
Proof.
  induction l as [|a l IH]; intros k0 l' H; cbn in H.
  - injection H as <-. split; [reflexivity|]. intros k x Hk. destruct k; discriminate.
  - mbind H y Hy. mbind H r Hr. injection H as <-.
    destruct (IH _ _ Hr) as [Hl Hn]. split; [cbn; now rewrite Hl|].
    intros k x Hk. destruct k as [|k]; cbn in Hk.
    + injection Hk as <-. exists y. rewrite Nat.add_0_r. split; auto.
    + destruct (Hn k x Hk) as (y' & Hy' & Hn'). exists y'. split; [|exact Hn'].
      replace (k0 + S k) with (S k0 + k) by lia. exact Hy'.
Qed.

Lemma updM_nth {N : NumOps} {A} (f : A -> res A) l : forall i l',
  updM i f l = Ok l' ->
  List.length l' = List.length l /\
  (forall k, k <> i -> nth_error l' k = nth_error l k) /\
  exists x y, nth_error l i = Some x /\ f x = Ok y /\ nth_error l' i = Some y.
Proof.
  induction l as [|a l IH]; intros i l' H.
  - destruct i; cbn in H; discriminate.
  - destruct i as [|i]; cbn in H.
    + mbind H y Hy. injection H as <-. split; [reflexivity|]. split.
      * intros k Hk. destruct k; [lia|reflexivity].
      * exists a, y. auto.
    + mbind H r Hr. injection H as <-.
      destruct (IH _ _ Hr) as (Hl & Hne & x0 & y0 & H1 & H2 & H3).
      split; [cbn; now rewrite Hl|]. split.
      * intros k Hk. destruct k; [reflexivity|]. cbn. apply Hne. lia.
      * exists x0, y0. cbn. auto.
Qed.

Section FromMsGrowth.
  Context {N : NumOps} {L : NumLaws N}.

  (* the growth rate of deme d's current epoch agrees with population p's alpha *)
  Definition GAgree (N0 : num) (d : bdeme) (p : mpop) : Prop :=
    match bd_epochs d with
    | e :: _ =>
        (neqb (mp_alpha p) n0 = true /\ neqb (growth_of e) n0 = true)
        \/ (exists g, pdiv (mp_alpha p) (nmul n4 N0) = Ok g /\ neqb (growth_of e) g = true)
    | [] => False
    end.

  (* every population that still has lineages: same index, growth rates agree *)
  Definition GRel (N0 : num) (s : bstate) (st : mstate) : Prop :=
    List.length (b_demes s) = b_n s /\
    forall j, j < b_n s -> memn j (b_joined s) = false ->
      exists d p, nth_error (b_demes s) j = Some d /\ nth_error (st_pops st) j = Some p /\ GAgree N0 d p.

  (* one event.  ok_ev: the event's numeric parameters are numbers (not NaN), which the option
     parser guarantees; add to OkEv whatever the proof needs of that kind and nothing else. *)
  (* ORIGINAL (kept under the name OkEv0):
       Definition OkEv (e : msev) : Prop :=
         match e with EvG _ a | Evg _ _ a => ok a | EvN _ x | Evn _ _ x _ => ok x | _ => True end.
     With it step_growth_refine is FALSE: nothing makes the converted rate a / (4*N0) a number.
     Counter-example (binary64, also NumQ): N0 = inf, e = EvG t inf, time = the end time of the
     head epochs.  ok N0, ok inf, 4*N0 = inf is not == 0 so pdiv succeeds with g = inf/inf = NaN;
     every head epoch gets growth Some NaN (NaN != anything, so set_growth always edits), the
     semantics gets alpha = inf, and GAgree asks neqb NaN NaN = true (or inf == 0).
     REPAIR: OkEv takes N0 and, for -G/-eG/-g/-eg, also says that the converted rate is a number.
     The option parser rejects infinite alpha (valid_ev); for finite alpha and a non-NaN divisor
     that is not == 0 the quotient is a number in binary64 and in NumQ, which is lemma
     OkEv_of_valid below (the abstract NumLaws have no law about ndiv, hence its first premise). *)
  Definition OkEv0 (e : msev) : Prop :=
    match e with
    | EvG _ a | Evg _ _ a => ok a
    | EvN _ x | Evn _ _ x _ => ok x
    | _ => True
    end.

  Definition OkEv (N0 : num) (e : msev) : Prop :=
    match e with
    | EvG _ a | Evg _ _ a => ok a /\ ok (ndiv a (nmul n4 N0))
    | EvN _ x | Evn _ _ x _ => ok x
    | _ => True
    end.

  (* what the parser guarantees gives OkEv, given the one arithmetic fact (true of binary64 and of
     NumQ): a finite number divided by a number that is not == 0 is a number *)
  Theorem OkEv_of_valid N0 e :
    (forall a b, ok a -> nisinf a = false -> ok b -> neqb b n0 = false -> ok (ndiv a b)) ->
    ok (nmul n4 N0) -> neqb (nmul n4 N0) n0 = false ->
    OkEv0 e -> valid_ev e = Ok tt -> OkEv N0 e.
  Proof.
    intros Hdiv Hok Hnz H0 Hv. unfold valid_ev in Hv. mraise Hv Ht.
    destruct e as [t a|t i a|t x|t i x timed|t x|t i j x|t np m ini|t i p|t i j];
      cbn in H0 |- *; auto.
    - apply raise_if_ok in Hv. split; [exact H0|]. apply Hdiv; auto.
    - apply raise_if_ok in Hv. apply orb_false_iff in Hv. destruct Hv as [_ Hv].
      split; [exact H0|]. apply Hdiv; auto.
  Qed.

  (* ---------- what GAgree looks at ---------- *)
  Definition hd_growth (d : bdeme) : option num :=
    match bd_epochs d with e :: _ => Some (growth_of e) | [] => None end.

  Lemma GAgree_ext N0 d d' p p' :
    hd_growth d' = hd_growth d -> mp_alpha p' = mp_alpha p -> GAgree N0 d p -> GAgree N0 d' p'.
  Proof.
    unfold GAgree, hd_growth. intros Hd Hp. rewrite Hp.
    destruct (bd_epochs d) as [|e r]; [intros []|].
    destruct (bd_epochs d') as [|e' r']; [discriminate|].
    injection Hd as Hd. now rewrite Hd.
  Qed.

  Lemma GAgree_zero N0 d p g :
    hd_growth d = Some g -> neqb g n0 = true -> mp_alpha p = n0 -> GAgree N0 d p.
  Proof.
    unfold GAgree, hd_growth. intros Hd Hg Hp.
    destruct (bd_epochs d) as [|e r]; [discriminate|]. injection Hd as Hd.
    left. rewrite Hp, Hd. split; [|exact Hg]. apply eq_refl_ok. apply ok_0.
  Qed.

  Lemma GAgree_rate N0 d p g g' :
    hd_growth d = Some g' -> neqb g' g = true -> pdiv (mp_alpha p) (nmul n4 N0) = Ok g ->
    GAgree N0 d p.
  Proof.
    unfold GAgree, hd_growth. intros Hd Hg Hp.
    destruct (bd_epochs d) as [|e r]; [discriminate|]. injection Hd as Hd.
    right. exists g. rewrite Hd. auto.
  Qed.

  (* ---------- epoch_resolve / set_growth / set_size on the head epoch ---------- *)
  Lemma epoch_resolve_hd d time d1 :
    epoch_resolve d time = Ok d1 ->
    exists e r e1 r1, bd_epochs d = e :: r /\ bd_epochs d1 = e1 :: r1 /\ be_growth e1 = be_growth e.
  Proof.
    unfold epoch_resolve. intro H.
    destruct (bd_epochs d) as [|e r] eqn:E; [discriminate|].
    mraise H Hc. destruct (ngt time (be_end e)).
    - mbind H x Hx. injection H as <-. cbn. eauto 8.
    - injection H as <-. rewrite E. eauto 8.
  Qed.

  Lemma edit_head_epochs f d e r :
    bd_epochs d = e :: r -> bd_epochs (edit_head f d) = f e :: r.
  Proof. unfold edit_head. intros ->. reflexivity. Qed.

  Lemma set_growth_hd time g d d' :
    ok g -> set_growth time g d = Ok d' ->
    exists g', hd_growth d' = Some g' /\ neqb g' g = true.
  Proof.
    intros Hg H. unfold set_growth in H.
    destruct (bd_epochs d) as [|e r] eqn:E; [discriminate|].
    destruct (nneq (growth_of e) g) eqn:Hne.
    - mbind H d1 Hd1. injection H as <-.
      destruct (epoch_resolve_hd _ _ _ Hd1) as (e0 & r0 & e1 & r1 & _ & E1 & _).
      exists g. unfold hd_growth. rewrite (edit_head_epochs _ _ _ _ E1).
      split; [reflexivity|]. now apply eq_refl_ok.
    - injection H as <-. exists (growth_of e). unfold hd_growth. rewrite E.
      split; [reflexivity|]. unfold nneq in Hne. now apply negb_false_iff in Hne.
  Qed.

  Lemma set_size_hd time size reset d d' :
    set_size time size reset d = Ok d' ->
    if reset then exists g', hd_growth d' = Some g' /\ neqb g' n0 = true
    else hd_growth d' = hd_growth d.
  Proof.
    intro H. unfold set_size in H.
    destruct (bd_epochs d) as [|e r] eqn:E; [discriminate|].
    destruct (nneq (growth_of e) n0 || nneq (be_esize e) size) eqn:Hne.
    - mbind H d1 Hd1. injection H as <-.
      destruct (epoch_resolve_hd _ _ _ Hd1) as (e0 & r0 & e1 & r1 & E0 & E1 & Eg).
      rewrite E in E0. injection E0 as <- <-.
      unfold hd_growth. rewrite (edit_head_epochs _ _ _ _ E1), E.
      destruct reset.
      + exists n0. split; [reflexivity|]. apply eq_refl_ok. apply ok_0.
      + unfold growth_of. cbn. now rewrite Eg.
    - injection H as <-. apply orb_false_iff in Hne. destruct Hne as [Hne _].
      unfold nneq in Hne. apply negb_false_iff in Hne.
      destruct reset; [|reflexivity].
      exists (growth_of e). unfold hd_growth. rewrite E. auto.
  Qed.

  (* ---------- frames ---------- *)
  Lemma GRel_frame N0 s s' st st' :
    b_n s' = b_n s -> b_joined s' = b_joined s -> b_demes s' = b_demes s ->
    st_pops st' = st_pops st -> GRel N0 s st -> GRel N0 s' st'.
  Proof. unfold GRel. intros -> -> -> ->. auto. Qed.

  Lemma matrix_at_fields s time :
    b_n (matrix_at s time) = b_n s /\ b_joined (matrix_at s time) = b_joined s /\
    b_demes (matrix_at s time) = b_demes s.
  Proof.
    unfold matrix_at. destruct (b_mms s); [auto|]. destruct (b_ends s); [auto|].
    destruct (ngt time n); cbn; auto.
  Qed.

  Lemma edit_matrix_fields f s :
    b_n (edit_matrix f s) = b_n s /\ b_joined (edit_matrix f s) = b_joined s /\
    b_demes (edit_matrix f s) = b_demes s.
  Proof. unfold edit_matrix. destruct (b_mms s); cbn; auto. Qed.

  Lemma edit_at_fields f s time :
    let s' := edit_matrix f (matrix_at s time) in
    b_n s' = b_n s /\ b_joined s' = b_joined s /\ b_demes s' = b_demes s.
  Proof.
    cbv zeta. destruct (edit_matrix_fields f (matrix_at s time)) as (-> & -> & ->).
    apply matrix_at_fields.
  Qed.

  Lemma alive_of_joined s st j p :
    MRel s st -> nth_error (st_pops st) j = Some p -> memn j (b_joined s) = false -> alive p = true.
  Proof.
    intros HR Hp Hm. rewrite (mr_joined _ _ HR j p Hp) in Hm. now destruct (alive p).
  Qed.

  (* ---------- one event ---------- *)
  (* ORIGINAL statement (FALSE, see the comment at OkEv):
       Theorem step_growth_refine N0 time s gs e s' gs' st st' :
         ok N0 -> OkEv e -> MRel s st -> GRel N0 s st ->
         step N0 time (s, gs) e = Ok (s', gs') -> apply_ev st e = Ok st' -> GRel N0 s' st'.
     Only change: OkEv e became OkEv N0 e. *)
  Theorem step_growth_refine N0 time s gs e s' gs' st st' :
    ok N0 -> OkEv N0 e -> MRel s st -> GRel N0 s st ->
    step N0 time (s, gs) e = Ok (s', gs') -> apply_ev st e = Ok st' ->
    GRel N0 s' st'.
  Proof.
    intros HN0 Hok HR [Hlen HG] Hs Ha.
    destruct e as [t a|t i a|t x|t i x timed|t x|t i j x|t np m ini|t i p|t i j].
    - (* EvG *)
      unfold step in Hs. unfold apply_ev in Ha.
      mbind Hs g Hg. mbind Hs ds Hds. injection Hs as <- <-. injection Ha as <-.
      destruct Hok as [_ Hokg]. pose proof (pdiv_inv _ _ _ Hg) as Eg. rewrite <- Eg in Hokg.
      destruct (mapiM_nth _ _ _ _ Hds) as [Hl Hn].
      split; cbn [with_demes b_demes b_n b_joined st_pops]; [congruence|].
      intros j Hj Mj. destruct (HG j Hj Mj) as (d & p & Hd & Hp & Hag).
      destruct (Hn j d Hd) as (d' & Hf & Hd'). cbn [Nat.add] in Hf. rewrite Mj in Hf.
      exists d', (regrow t a p). split; [exact Hd'|]. split.
      + rewrite (map_nth_error _ _ _ Hp). now rewrite (alive_of_joined s st j p HR Hp Mj).
      + destruct (set_growth_hd _ _ _ _ Hokg Hf) as (g' & Hh & Hq).
        eapply GAgree_rate; eauto.
    - (* Evg *)
      unfold step in Hs. unfold apply_ev in Ha.
      mbind Hs q Hq. mbind Hs g Hg. mbind Hs ds Hds. injection Hs as <- <-.
      mraise Ha Hc. injection Ha as <-.
      destruct Hok as [_ Hokg]. pose proof (pdiv_inv _ _ _ Hg) as Eg. rewrite <- Eg in Hokg.
      apply pid_inv in Hq. destruct Hq as (-> & Hi1 & Hi2 & Mi).
      destruct (updM_nth _ _ _ _ Hds) as (Hl & Hne & x0 & y0 & Hx0 & Hf & Hy0).
      split; cbn [with_demes b_demes b_n b_joined st_pops]; [congruence|].
      intros j Hj Mj. destruct (HG j Hj Mj) as (d & p & Hd & Hp & Hag).
      rewrite nth_error_upd.
      destruct (Nat.eqb_spec j (i - 1)) as [->|Hji].
      + rewrite Hd in Hx0. injection Hx0 as <-.
        exists y0, (regrow t a p). split; [exact Hy0|]. split; [now rewrite Hp|].
        destruct (set_growth_hd _ _ _ _ Hokg Hf) as (g' & Hh & Hq).
        eapply GAgree_rate; eauto.
      + exists d, p. rewrite (Hne j Hji). auto.
    - (* EvN *)
      unfold step in Hs. unfold apply_ev in Ha.
      mbind Hs ds Hds. injection Hs as <- <-. injection Ha as <-.
      destruct (mapiM_nth _ _ _ _ Hds) as [Hl Hn].
      split; cbn [with_demes b_demes b_n b_joined st_pops]; [congruence|].
      intros j Hj Mj. destruct (HG j Hj Mj) as (d & p & Hd & Hp & Hag).
      destruct (Hn j d Hd) as (d' & Hf & Hd'). cbn [Nat.add] in Hf. rewrite Mj in Hf.
      exists d', (resize t x false p). split; [exact Hd'|]. split.
      + rewrite (map_nth_error _ _ _ Hp). now rewrite (alive_of_joined s st j p HR Hp Mj).
      + apply set_size_hd in Hf. destruct Hf as (g' & Hh & Hq).
        eapply GAgree_zero; eauto.
    - (* Evn *)
      unfold step in Hs. unfold apply_ev in Ha.
      mbind Hs q Hq. mbind Hs ds Hds. injection Hs as <- <-.
      mraise Ha Hc. injection Ha as <-.
      apply pid_inv in Hq. destruct Hq as (-> & Hi1 & Hi2 & Mi).
      destruct (updM_nth _ _ _ _ Hds) as (Hl & Hne & x0 & y0 & Hx0 & Hf & Hy0).
      split; cbn [with_demes b_demes b_n b_joined st_pops]; [congruence|].
      intros j Hj Mj. destruct (HG j Hj Mj) as (d & p & Hd & Hp & Hag).
      rewrite nth_error_upd.
      destruct (Nat.eqb_spec j (i - 1)) as [->|Hji].
      + rewrite Hd in Hx0. injection Hx0 as <-.
        exists y0, (resize t x (negb timed) p). split; [exact Hy0|]. split; [now rewrite Hp|].
        apply set_size_hd in Hf. destruct timed.
        * destruct Hf as (g' & Hh & Hq). eapply GAgree_zero; eauto.
        * eapply GAgree_ext; [exact Hf| |exact Hag]. reflexivity.
      + exists d, p. rewrite (Hne j Hji). auto.
    - (* EvM *)
      unfold step in Hs. unfold apply_ev in Ha.
      mbind Hs v Hv. injection Hs as <- <-. injection Ha as <-.
      match goal with |- GRel _ (edit_matrix ?F _) _ =>
        destruct (edit_at_fields F s time) as (En & Ej & Ed) end.
      eapply GRel_frame; eauto. split; auto.
    - (* Evm *)
      unfold step in Hs. unfold apply_ev in Ha.
      mbind Hs pi Hpi. mbind Hs pj Hpj. mraise Hs Hij. injection Hs as <- <-.
      mraise Ha Hc. injection Ha as <-.
      match goal with |- GRel _ (edit_matrix ?F _) _ =>
        destruct (edit_at_fields F s time) as (En & Ej & Ed) end.
      eapply GRel_frame; eauto. split; auto.
    - (* Evma *)
      unfold step in Hs. unfold apply_ev in Ha.
      mraise Hs H1. mraise Hs H2. injection Hs as <- <-.
      mraise Ha H3. injection Ha as <-.
      match goal with |- GRel _ (edit_matrix ?F _) _ =>
        destruct (edit_at_fields F s time) as (En & Ej & Ed) end.
      eapply GRel_frame; eauto. split; auto.
    - (* Evs *)
      unfold step in Hs. unfold apply_ev in Ha.
      mbind Hs pp Hpp. injection Hs as <- <-.
      mraise Ha Hc. injection Ha as <-.
      pose proof (mr_n _ _ HR) as Hnp. unfold npops in Hnp.
      split; cbn [b_demes b_n b_joined st_pops].
      + rewrite app_length. cbn. lia.
      + intros j Hj Mj. destruct (Nat.lt_ge_cases j (b_n s)) as [Hlt|Hge].
        * destruct (HG j Hlt Mj) as (d & q & Hd & Hq & Hag).
          exists d, q. rewrite !nth_error_app1 by lia. auto.
        * assert (j = b_n s) as -> by lia.
          eexists. eexists. split; [|split].
          -- rewrite nth_error_app2 by lia. rewrite Hlen, Nat.sub_diag. reflexivity.
          -- rewrite nth_error_app2 by lia. rewrite <- Hnp, Nat.sub_diag. reflexivity.
          -- eapply GAgree_zero; [reflexivity| |reflexivity].
             apply eq_refl_ok. apply ok_0.
    - (* Evj *)
      unfold step in Hs. unfold apply_ev in Ha.
      mbind Hs pi Hpi. mbind Hs pj Hpj. mbind Hs ds Hds. injection Hs as <- <-.
      mraise Ha Hc. injection Ha as <-.
      apply pid_inv in Hpi. destruct Hpi as (-> & Hi1 & Hi2 & Mi).
      match goal with |- GRel _ (mkB (b_n (edit_matrix ?F _)) _ _ _ _ _) _ =>
        destruct (edit_at_fields F (with_demes s ds) time) as (En & Ej & Ed) end.
      destruct (updM_nth _ _ _ _ Hds) as (Hl & Hne & x0 & y0 & Hx0 & Hf & Hy0).
      split; cbn [b_demes b_n b_joined st_pops]; rewrite ?En, ?Ej, ?Ed;
        cbn [with_demes b_demes b_n b_joined]; [congruence|].
      intros k Hk Mk. unfold memn in Mk. cbn [existsb] in Mk. fold (memn k (b_joined s)) in Mk.
      apply orb_false_iff in Mk. destruct Mk as [Hki Mk].
      destruct (HG k Hk Mk) as (d & p & Hd & Hp & Hag).
      exists d, p. rewrite nth_error_upd, Hki.
      apply Nat.eqb_neq in Hki. rewrite (Hne k Hki). auto.
  Qed.

  (* finish_group edits only ancestry fields and pulses, never epochs *)
  Theorem finish_group_growth N0 time s gs s' st :
    GRel N0 s st -> finish_group time s gs = Ok s' -> GRel N0 s' st.
  Proof.
    intros HG H. unfold finish_group in H.
    refine (foldM_inv _ (fun x => GRel N0 x st) _ _ _ _ HG H).
    clear. intros x [[j k] p] x' Hx Hf.
    destruct (filter _ _); [injection Hf as <-; exact Hx|].
    destruct (neqb _ n0 && memn _ _).
    - mbind Hf ds Hds. injection Hf as <-.
      destruct (updM_nth _ _ _ _ Hds) as (Hl & Hne & x0 & y0 & Hx0 & Hy & Hy0).
      injection Hy as <-.
      destruct Hx as [Hlen HGx]. split; cbn [with_demes b_demes b_n b_joined]; [congruence|].
      intros i Hi Mi. destruct (HGx i Hi Mi) as (d & q & Hd & Hq & Hag).
      destruct (Nat.eq_dec i j) as [->|Hij].
      + rewrite Hd in Hx0. injection Hx0 as <-.
        eexists. exists q. split; [exact Hy0|]. split; [exact Hq|].
        eapply GAgree_ext; [| |exact Hag]; reflexivity.
      + exists d, q. rewrite (Hne i Hij). auto.
    - injection Hf as <-. eapply GRel_frame; [| | | |exact Hx]; reflexivity.
  Qed.

  (* ---------- the events of one group, the groups ---------- *)
  Lemma steps_growth N0 time evs : forall s gs st s' gs' st',
    ok N0 -> (forall e, In e evs -> SquareMa e /\ OkEv N0 e) -> MRel s st -> GRel N0 s st ->
    foldM (step N0 time) evs (s, gs) = Ok (s', gs') -> foldM apply_ev evs st = Ok st' ->
    MRel s' st' /\ GRel N0 s' st'.
  Proof.
    induction evs as [|e evs IH]; intros s gs st s' gs' st' HN0 Hev HR HG Hs Ha; cbn in Hs, Ha.
    - injection Hs as <- <-. injection Ha as <-. auto.
    - mbind Hs sg1 H1. mbind Ha st1 H2. destruct sg1 as [s1 gs1].
      destruct (Hev e (or_introl eq_refl)) as [Hsq Hok].
      eapply IH; [exact HN0| | | |exact Hs|exact Ha].
      + intros x Hx. apply Hev. now right.
      + eapply step_refine; eauto.
      + eapply step_growth_refine; eauto.
  Qed.

  Lemma run_group_growth N0 s tg st s' st' :
    ok N0 -> (forall e, In e (snd tg) -> SquareMa e /\ OkEv N0 e) -> MRel s st -> GRel N0 s st ->
    run_group N0 s tg = Ok s' -> foldM apply_ev (snd tg) st = Ok st' ->
    MRel s' st' /\ GRel N0 s' st'.
  Proof.
    destruct tg as [t evs]. cbn [snd]. intros HN0 Hev HR HG Hs Ha.
    split.
    - eapply (run_group_refine N0 s (t, evs)); eauto. intros e He. now apply Hev.
    - unfold run_group in Hs. mbind Hs r Hr. destruct r as [s1 gs1]. cbn [fst snd] in Hs.
      eapply finish_group_growth; [|exact Hs].
      eapply steps_growth; eauto.
  Qed.

  Lemma groups_growth N0 groups : forall s0 st0 s st,
    ok N0 -> (forall e, In e (List.concat (map snd groups)) -> SquareMa e /\ OkEv N0 e) ->
    MRel s0 st0 -> GRel N0 s0 st0 ->
    foldM (run_group N0) groups s0 = Ok s ->
    foldM apply_ev (List.concat (map snd groups)) st0 = Ok st ->
    MRel s st /\ GRel N0 s st.
  Proof.
    induction groups as [|tg groups IH]; intros s0 st0 s st HN0 Hev HR HG Hs Ha; cbn in Hs, Ha.
    - injection Hs as <-. injection Ha as <-. auto.
    - mbind Hs s1 H1. rewrite foldM_app in Ha. mbind Ha st1 H2.
      destruct (run_group_growth N0 s0 tg st0 s1 st1) as [HR1 HG1]; auto.
      { intros e He. apply Hev. cbn. apply in_or_app. now left. }
      eapply IH; [exact HN0| |exact HR1|exact HG1|exact Hs|exact Ha].
      intros e He. apply Hev. cbn. apply in_or_app. now right.
  Qed.

  (* any event list, grouped by equal times as from_ms does *)
  (* ORIGINAL statement: the same with OkEv e in place of OkEv N0 e (FALSE for the same reason as
     step_growth_refine: take evs = [EvG t inf], N0 = inf). *)
  Theorem run_groups_growth_refine N0 evs s0 st0 s st :
    ok N0 -> (forall e, In e evs -> SquareMa e /\ OkEv N0 e) -> MRel s0 st0 -> GRel N0 s0 st0 ->
    foldM (run_group N0) (group_by_time evs) s0 = Ok s ->
    foldM apply_ev evs st0 = Ok st ->
    GRel N0 s st.
  Proof.
    intros HN0 Hev HR HG Hs Ha.
    apply (groups_growth N0 (group_by_time evs) s0 st0 s st); auto;
      rewrite MsProofs.group_by_time_concat; auto.
  Qed.

  (* MRel and GRel together (what the induction actually carries) *)
  Theorem run_groups_both_refine N0 evs s0 st0 s st :
    ok N0 -> (forall e, In e evs -> SquareMa e /\ OkEv N0 e) -> MRel s0 st0 -> GRel N0 s0 st0 ->
    foldM (run_group N0) (group_by_time evs) s0 = Ok s ->
    foldM apply_ev evs st0 = Ok st ->
    MRel s st /\ GRel N0 s st.
  Proof.
    intros HN0 Hev HR HG Hs Ha.
    apply (groups_growth N0 (group_by_time evs) s0 st0 s st); auto;
      rewrite MsProofs.group_by_time_concat; auto.
  Qed.

  (* ---------- the initial states ---------- *)
  (* build_doc starts from  mkB n [m0] [nf0] [] demes0 []  with one epoch per deme, growth None,
     and init_state c has alpha n0 everywhere.  The time-zero options -n/-g/-G/... (c_init c) are
     NOT part of the initial state on either side: build_doc folds run_group (hence step) over
     group_by_time (c_init c ++ sort_events (c_events c)), and the semantics folds apply_ev over
     all_events c = c_init c ++ sort_events (c_events c), so run_groups_growth_refine with
     evs := all_events c covers them; nothing is duplicated here. *)
  Theorem init_growth (c : mscmd) (N0 : num) :
    let n := c_npop c in
    let demes0 := map (fun j => mkBD (deme_name (S j)) ninf None None [mkBE n0 N0 None None]) (seq 0 n) in
    forall mms ends pulses0, GRel N0 (mkB n mms ends [] demes0 pulses0) (init_state c).
  Proof.
    intros n demes0 mms ends pulses0. split; cbn [b_demes b_n b_joined].
    - subst demes0. now rewrite map_length, seq_length.
    - intros j Hj _. eexists. eexists. split; [|split].
      + subst demes0. apply map_nth_error.
        rewrite nth_error_nth' with (d := 0) by now rewrite seq_length.
        rewrite seq_nth by exact Hj. reflexivity.
      + unfold init_state. cbn [st_pops]. fold n.
        rewrite nth_error_nth' with (d := mkPop n1 n0 n0 n0 None) by now rewrite repeat_length.
        rewrite nth_repeat'; [reflexivity|exact Hj].
      + eapply GAgree_zero; [reflexivity| |reflexivity]. apply eq_refl_ok. apply ok_0.
  Qed.
End FromMsGrowth.

Print Assumptions OkEv_of_valid.
Print Assumptions step_growth_refine.
Print Assumptions finish_group_growth.
Print Assumptions run_groups_growth_refine.
Print Assumptions run_groups_both_refine.
Print Assumptions init_growth.
