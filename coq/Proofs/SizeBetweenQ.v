(* C13 — between-ness of Deme.size_at inside a LINEAR epoch, in exact rational arithmetic
   (the NumQ instance): the reported size lies between the epoch's start and end sizes, and is
   the documented interpolation.  (For exponential epochs between-ness is a statement about
   exp/log on reals and is evaluated on the implementation's answers; DESIGN.md, C13.) *)
From Coq Require Import Bool List String QArith Qabs Lqa Lia ZArith.
From Demes Require Import Base.Num Base.NumQ Base.Py Model.MDM Model.SizeAt Spec.Valid Proofs.SizeAtProofs.
Import ListNotations.
Local Open Scope string_scope.
Local Open Scope list_scope.

(* a finite value of the instance and the rational it carries *)
Definition qval (x : qx) : option Q := match x with QF a _ => Some a | _ => None end.

(* in exact rational arithmetic the final clamp of size_at is the identity on every value between
   the two sizes *)
Lemma clamp_id_Q (e : @epoch NumQ) ss i es j x k :
  e_ssize e = QF ss i -> e_esize e = QF es j ->
  ((ss <= x /\ x <= es) \/ (es <= x /\ x <= ss))%Q ->
  @clamp_size NumQ e (QF x k) = QF x k.
Proof.
  intros Ess Ees Hx. apply (@clamp_id NumQ NumQLaws); rewrite Ess, Ees; unfold pymin, pymax; cbn.
  - destruct (Qlt_bool es ss) eqn:A; [apply Qlt_bool_true in A|apply Qlt_bool_false in A];
      cbn; apply Qle_bool_iff; lra.
  - destruct (Qlt_bool ss es) eqn:A; [apply Qlt_bool_true in A|apply Qlt_bool_false in A];
      cbn; apply Qle_bool_iff; lra.
Qed.

Lemma frac_unit (s en tt : Q) : (en <= tt -> tt < s -> 0 <= (s - tt) / (s - en) <= 1)%Q.
Proof.
  intros H1 H2. split.
  - apply Qle_shift_div_l; lra.
  - apply Qle_shift_div_r; lra.
Qed.

Lemma lin_between_Q (ss es f : Q) :
  (0 <= f <= 1 -> (ss <= ss + (es - ss) * f /\ ss + (es - ss) * f <= es) \/
                  (es <= ss + (es - ss) * f /\ ss + (es - ss) * f <= ss))%Q.
Proof. intros [F0 F1]. destruct (Qlt_le_dec es ss) as [L|L]; [right|left]; split; nra. Qed.

(* common core: sizes are finite; either the "end size" branch fires, or all times are finite,
   en <= t < s, and the linear formula evaluates without error to the exact interpolation *)
Lemma size_linear_core (e : @epoch NumQ) (t : qx) :
  @ValidEpoch NumQ e -> e_sf e = "linear" -> @epoch_owns NumQ t e = true ->
  exists ss es i j, e_ssize e = QF ss i /\ e_esize e = QF es j /\
    (@size_in_epoch NumQ e t = Ok (e_esize e) \/
     exists s en tt i1 i2 i3 k, e_start e = QF s i1 /\ e_end e = QF en i2 /\ t = QF tt i3 /\
       (en <= tt)%Q /\ (tt < s)%Q /\
       @size_in_epoch NumQ e t = Ok (QF (ss + (es - ss) * ((s - tt) / (s - en)))%Q k)).
Proof.
  destruct e as [st en ss es sf self clone]. cbn [e_start e_end e_ssize e_esize e_sf].
  intros [H1 H2 H3 [H4 H4'] [H5 H5'] _ _ Hinf _ _] Hsf Hown.
  cbn [e_start e_end e_ssize e_esize e_sf] in *. subst sf.
  unfold epoch_owns, ngt, nge in Hown. cbn [e_start e_end] in Hown.
  apply andb_true_iff in Hown. destruct Hown as [Ho1 Ho2].
  destruct ss as [ss i| | |]; cbn in H4, H4'; try discriminate.
  destruct es as [es j| | |]; cbn in H5, H5'; try discriminate.
  exists ss, es, i, j. split; [reflexivity|]. split; [reflexivity|].
  set (E := {| e_start := st; e_end := en; e_ssize := QF ss i; e_esize := QF es j;
               e_sf := "linear"; e_self := self; e_clone := clone |}).
  unfold size_in_epoch. cbn [E e_start e_end e_ssize e_esize e_sf].
  destruct (@isclose0 NumQ t en) eqn:Hc; [left; cbn [orb]; f_equal; exact (clamp_esize E)|].
  simpl String.eqb. cbn [orb].
  destruct (@neqb NumQ (QF ss i) (QF es j)) eqn:He; [left; cbn [orb]; f_equal; exact (clamp_esize E)|]. right.
  destruct en as [en i2| | |]; cbn in H1, H2; try discriminate.
  destruct t as [tt i3| | |]; cbn in Ho1, Ho2; try discriminate;
    try (destruct st; discriminate).
  destruct st as [s i1| | |]; cbn in H3, Ho1, Hinf; try discriminate.
  2:{ specialize (Hinf eq_refl). cbn in He, Hinf. congruence. }
  apply Qlt_bool_true in H3, Ho1. apply Qle_bool_iff in Ho2.
  exists s, en, tt, i1, i2, i3.
  unfold pdiv. cbn [nsub NumQ qx_sub neqb qx_eqb n0].
  destruct (Qeq_bool (s - en) 0) eqn:Hz.
  { apply Qeq_bool_iff in Hz. lra. }
  cbn [bind ndiv NumQ qx_div nsub qx_sub nmul qx_mul nadd qx_add]. rewrite Hz.
  eexists. repeat (split; [reflexivity || assumption|]).
  f_equal. apply (clamp_id_Q E ss i es j); [reflexivity|reflexivity|].
  apply lin_between_Q. now apply frac_unit.
Qed.

(* in a valid linear epoch owned by t, size_at's formula evaluates, without error, to the exact
   rational  start_size + (end_size - start_size) * (start - t) / (start - end)  -- or to the end
   size when t is within the closeness tolerance of the epoch's end or the sizes are equal *)
Theorem size_linear_exact_Q (e : @epoch NumQ) (t : qx) :
  @ValidEpoch NumQ e -> e_sf e = "linear" -> @epoch_owns NumQ t e = true ->
  exists v, @size_in_epoch NumQ e t = Ok v /\
    (v = e_esize e \/
     exists s en ss es tt vv, qval (e_start e) = Some s /\ qval (e_end e) = Some en /\
       qval (e_ssize e) = Some ss /\ qval (e_esize e) = Some es /\ qval t = Some tt /\
       qval v = Some vv /\ (vv == ss + (es - ss) * ((s - tt) / (s - en)))%Q).
Proof.
  intros V Hsf Hown.
  destruct (size_linear_core e t V Hsf Hown)
    as (ss & es & i & j & Ess & Ees & [Hv | (s & en & tt & i1 & i2 & i3 & k & Es & Een & Et & _ & _ & Hv)]).
  - exists (e_esize e). split; [exact Hv | left; reflexivity].
  - eexists. split; [exact Hv|]. right.
    exists s, en, ss, es, tt. eexists.
    rewrite Es, Een, Ess, Ees, Et. cbn.
    repeat (split; [reflexivity|]). reflexivity.
Qed.

Theorem size_between_linear_Q (e : @epoch NumQ) (t v : qx) :
  @ValidEpoch NumQ e -> e_sf e = "linear" -> @epoch_owns NumQ t e = true ->
  @size_in_epoch NumQ e t = Ok v ->
  (@nle NumQ (e_ssize e) v && @nle NumQ v (e_esize e) = true) \/
  (@nle NumQ (e_esize e) v && @nle NumQ v (e_ssize e) = true).
Proof.
  intros V Hsf Hown Hsz.
  destruct (size_linear_core e t V Hsf Hown)
    as (ss & es & i & j & Ess & Ees & [Hv | (s & en & tt & i1 & i2 & i3 & k & Es & Een & Et & Hl & Hu & Hv)]);
    rewrite Hv in Hsz; injection Hsz as <-; rewrite Ess; try rewrite Ees; cbn.
  - destruct (Qlt_le_dec es ss) as [L|L]; [right|left]; apply andb_true_iff; split;
      apply Qle_bool_iff; lra.
  - destruct (frac_unit s en tt Hl Hu) as [F0 F1].
    set (f := ((s - tt) / (s - en))%Q) in *.
    destruct (Qlt_le_dec es ss) as [L|L]; [right|left]; apply andb_true_iff; split;
      apply Qle_bool_iff; nra.
Qed.

Print Assumptions size_linear_exact_Q.
Print Assumptions size_between_linear_Q.
