(* C01, migrations: every migration that resolve_migration appends is valid,
   no two of the same ordered pair overlap, and the rate check bounds the ingress. *)
From Coq Require Import Bool List String QArith Lqa Arith Lia.
From Demes Require Import Base.Num Base.Py Model.MDM Model.Codec Model.MigMat Model.Resolve
  Spec.Valid Proofs.MigMatProofs Proofs.ResolveInv.
Import ListNotations.
Local Open Scope string_scope.
Local Open Scope list_scope.

Section ResolveMigs.
  Context {N : NumOps} {L : NumLaws N}.

  Lemma time_intersection_spec g a b time lo hi :
    Idx g -> time_intersection g a b time = Ok (lo, hi) ->
    exists da db, find_deme g a = Some da /\ find_deme g b = Some db /\
      Coexist da db lo hi /\
      match time with
      | None => True
      | Some v => is_number v = true /\ Within lo hi (jval v)
      end.
  Proof.
    intros Ix H. unfold time_intersection in H.
    mbind H d1 H1. mbind H d2 H2. mbind H e1 He1. mbind H e2 He2. cbv zeta in H.
    mbind H u Ht. injection H as <- <-.
    exists d1, d2. split; [eapply lookup_find; eauto|]. split; [eapply lookup_find; eauto|].
    split.
    - exists e1, e2. unfold DEnd, pymax, pymin. auto.
    - destruct time as [v|]; [|exact Logic.I]. mraise Ht Hn. apply raise_if_ok in Ht.
      apply negb_false_iff in Hn, Ht. apply andb_true_iff in Ht. split; [exact Hn|exact Ht].
  Qed.

  Lemma Coexist_fun a b lo hi lo' hi' :
    Coexist a b lo hi -> Coexist a b lo' hi' -> lo = lo' /\ hi = hi'.
  Proof.
    intros (ea & eb & A1 & A2 & -> & ->) (ea' & eb' & B1 & B2 & -> & ->).
    unfold DEnd in *. rewrite A1 in B1. rewrite A2 in B2.
    injection B1 as <-. injection B2 as <-. auto.
  Qed.

  Lemma ValidMig_ext g g' m : g_demes g' = g_demes g -> ValidMig g m -> ValidMig g' m.
  Proof.
    intros E V. destruct V. constructor; auto.
    unfold find_deme in *. rewrite E. exact vm_demes.
  Qed.

  Definition same_demes (g g' : graph) : Prop :=
    g_demes g' = g_demes g /\ g_index g' = g_index g /\ hdr g' = hdr g.

  Lemma same_demes_refl g : same_demes g g.
  Proof. repeat split. Qed.

  Lemma same_demes_trans a b c : same_demes a b -> same_demes b c -> same_demes a c.
  Proof. intros (A1 & A2 & A3) (B1 & B2 & B3). repeat split; congruence. Qed.

  Lemma same_demes_idx g g' : same_demes g g' -> Idx g -> Idx g'.
  Proof. intros (A1 & A2 & _) I. unfold Idx in *. congruence. Qed.

  Definition MigOK (g : graph) : Prop := forall m, In m (g_migs g) -> ValidMig g m.

  Definition clashb (m o : mig) : bool :=
    String.eqb (m_src o) (m_src m) && String.eqb (m_dst o) (m_dst m)
    && nlt (m_end o) (m_start m) && nlt (m_end m) (m_start o).

  Lemma no_clash ms m :
    (forall o, In o ms -> ok (m_start o) /\ ok (m_end o)) -> ok (m_start m) -> ok (m_end m) ->
    existsb (clashb m) ms = false ->
    forall o t, In o ms -> m_src o = m_src m -> m_dst o = m_dst m -> ok t ->
      Active o t -> Active m t -> False.
  Proof.
    intros Hok Os Oe Hex o t Ho Es Ed Ot [A1 A2] [B1 B2].
    destruct (clashb m o) eqn:E.
    - assert (existsb (clashb m) ms = true) by (apply existsb_exists; eauto). congruence.
    - unfold clashb in E. rewrite Es, Ed, !String.eqb_refl in E. cbn in E.
      destruct (Hok o Ho) as [O1 O2].
      apply andb_false_iff in E. destruct E as [E|E]; nord.
  Qed.

  Lemma nth_error_snoc {A} (l : list A) x j y :
    nth_error (l ++ [x]) j = Some y -> (List.length l <= j)%nat -> j = List.length l /\ y = x.
  Proof.
    intros H Hj. rewrite nth_error_app2 in H by exact Hj.
    destruct (j - List.length l)%nat as [|k] eqn:E.
    - cbn in H. injection H as <-. split; auto. lia.
    - cbn in H. destruct k; discriminate.
  Qed.

  Lemma NoOverlap_snoc ms m :
    NoOverlap ms ->
    (forall o, In o ms -> ok (m_start o) /\ ok (m_end o)) -> ok (m_start m) -> ok (m_end m) ->
    existsb (clashb m) ms = false ->
    NoOverlap (ms ++ [m]).
  Proof.
    intros NO Hok Os Oe Hex i j a b t Hij Ha Hb Es Ed Ot Aa Ab.
    destruct (Nat.lt_ge_cases i (List.length ms)) as [Hi|Hi];
      destruct (Nat.lt_ge_cases j (List.length ms)) as [Hj|Hj].
    - rewrite nth_error_app1 in Ha, Hb by assumption. eapply NO; eauto.
    - rewrite nth_error_app1 in Ha by assumption.
      destruct (nth_error_snoc _ _ _ _ Hb Hj) as [_ ->].
      eapply (no_clash ms m Hok Os Oe Hex a t); eauto. eapply nth_error_In; eauto.
    - rewrite nth_error_app1 in Hb by assumption.
      destruct (nth_error_snoc _ _ _ _ Ha Hi) as [_ ->].
      eapply (no_clash ms m Hok Os Oe Hex b t); eauto. eapply nth_error_In; eauto.
    - destruct (nth_error_snoc _ _ _ _ Ha Hi) as [-> _].
      destruct (nth_error_snoc _ _ _ _ Hb Hj) as [-> _]. congruence.
  Qed.

  (* what the migration phase maintains, relative to the graph g0 it started from *)
  Definition MInv (g0 g : graph) : Prop :=
    same_demes g0 g /\ g_pulses g = g_pulses g0 /\ MigOK g /\ NoOverlap (g_migs g).

  Lemma add_asym_spec g0 g src dst rate start en g' :
    Idx g0 -> MInv g0 g -> add_asym g src dst rate start en = Ok g' -> MInv g0 g'.
  Proof.
    intros I0 (Sd & Hp & MO & NO) H.
    pose proof (same_demes_idx _ _ Sd I0) as Ix.
    unfold add_asym in H.
    mbind H u0 Hc. mbind H s Hs. mbind H d Hd. mbind H lh Hlh. destruct lh as [lo hi].
    cbv beta iota in H.
    mbind H stv Hstv. mbind H env Henv. mbind H s' Hs'. mbind H d' Hd'.
    mbind H st Hst. mbind H u1 Hst1. mbind H en' Hen. mbind H u2 Hen1. mbind H u3 Hen2.
    mbind H r Hr. mbind H u4 Hr1. mraise H Hdist. mraise H Hord. mraise H Hov.
    injection H as <-.
    apply str_of_spec in Hs, Hd. subst src dst.
    apply deme_name_of_spec in Hs', Hd'. destruct Hs' as [Es _], Hd' as [Ed _].
    injection Es as <-. injection Ed as <-.
    apply iof_spec in Hst, Hen, Hr.
    destruct Hst as (Ost & Est & _), Hen as (Oen & Een & _), Hr as (Or & _).
    apply negb_false_iff in Hord. unfold ngt in Hord.
    destruct (time_intersection_spec _ _ _ _ _ _ Ix Hlh) as (da & db & Fa & Fb & Co & Wst).
    assert (Within lo hi st /\ Within lo hi en') as [W1 W2].
    { destruct start as [v|]; injection Hstv as <-.
      - destruct Wst as [_ Wst]. rewrite Est in Wst.
        destruct en as [w|].
        + mbind Henv lh2 X. injection Henv as <-. destruct lh2 as [lo2 hi2].
          destruct (time_intersection_spec _ _ _ _ _ _ Ix X) as (da' & db' & Fa' & Fb' & Co' & _ & W).
          rewrite Fa in Fa'. rewrite Fb in Fb'. injection Fa' as <-. injection Fb' as <-.
          destruct (Coexist_fun _ _ _ _ _ _ Co Co') as [<- <-]. rewrite Een in W. auto.
        + injection Henv as <-. cbn in Een. subst en'. split; auto.
          destruct Wst as [X1 X2]. split; nord.
      - cbn in Est. subst st. destruct en as [w|].
        + mbind Henv lh2 X. injection Henv as <-. destruct lh2 as [lo2 hi2].
          destruct (time_intersection_spec _ _ _ _ _ _ Ix X) as (da' & db' & Fa' & Fb' & Co' & _ & W).
          rewrite Fa in Fa'. rewrite Fb in Fb'. injection Fa' as <-. injection Fb' as <-.
          destruct (Coexist_fun _ _ _ _ _ _ Co Co') as [<- <-]. rewrite Een in W.
          split; auto. destruct W as [X1 X2]. split; nord.
        + injection Henv as <-. cbn in Een. subst en'. split; split; nord. }
    set (m := mkMig s d st en' r).
    assert (ValidMig g m) as Vm.
    { constructor; cbn.
      - now apply String.eqb_neq.
      - exists da, db, lo, hi. auto.
      - exact Hord.
      - eapply finite_spec; eauto.
      - eapply non_negative_spec; eauto.
      - eapply unit_interval_spec; eauto. }
    destruct Sd as (S1 & S2 & S3).
    split; [|split; [|split]].
    - repeat split; assumption.
    - exact Hp.
    - intros x Hx. cbn in Hx. apply in_app_or in Hx. apply (ValidMig_ext g); [reflexivity|].
      destruct Hx as [Hx|[<-|[]]]; auto.
    - cbn. apply NoOverlap_snoc; auto.
      intros o Ho. pose proof (vm_order _ _ (MO o Ho)) as X. apply lt_true in X. tauto.
  Qed.

  Lemma add_sym_spec g0 g demes rate start en g' :
    Idx g0 -> MInv g0 g -> add_sym g demes rate start en = Ok g' -> MInv g0 g'.
  Proof.
    intros I0 M H. unfold add_sym in H. destruct demes; try discriminate.
    mraise H Hlen.
    eapply (foldM_inv _ (MInv g0)); [|exact M|exact H].
    intros g1 p g2 M1 X. cbv beta in X. eapply add_asym_spec; eauto.
  Qed.

  Lemma resolve_migration_spec mdef g0 g mv g' :
    Idx g0 -> MInv g0 g -> resolve_migration mdef g mv = Ok g' -> MInv g0 g'.
  Proof.
    intros I0 M H. unfold resolve_migration in H.
    mbind H kv Hkv. mbind H u Hca. mbind H rate Hrate. cbv zeta in H.
    destruct (field_nn kv mdef "demes") as [dl|];
      destruct (field_nn kv mdef "source") as [s|];
      destruct (field_nn kv mdef "dest") as [d|]; try discriminate.
    - eapply add_sym_spec; eauto.
    - eapply add_asym_spec; eauto.
  Qed.

  Lemma MInv_init g : MigOK g -> NoOverlap (g_migs g) -> MInv g g.
  Proof. intros. split; [apply same_demes_refl|]. auto. Qed.


  (* ------------------------------------------------------------------ *)
  (* the ingress bound, from _check_migration_rates *)

  Lemma MigsOK_of g : ValidDemes [] (g_demes g) -> MigOK g -> NoOverlap (g_migs g) -> MigsOK g.
  Proof.
    intros Vd MO NO. constructor; auto.
    - exact (proj1 (valid_demes_nodup _ _ Vd)).
    - intros m Hm. pose proof (MO m Hm) as VM.
      destruct (vm_demes _ _ VM) as (s & d & lo & hi & Fs & Fd & _).
      repeat split.
      + eapply find_deme_in; eauto.
      + eapply find_deme_in; eauto.
      + exact (vm_distinct _ _ VM).
      + exact (vm_order _ _ VM).
      + exact (vm_end_fin _ _ VM).
      + exact (vm_end_nonneg _ _ VM).
      + destruct (vm_rate _ _ VM) as [H _]. apply le_true in H. tauto.
  Qed.

  (* what the check gives without knowing that the sum is not NaN *)
  Definition IngressWeak (g : graph) : Prop :=
    forall d t, In d (g_demes g) -> ok t -> nle n0 t = true -> nisinf t = false ->
      let s := ingress g (d_name d) t in
      nlt n1 s = false \/ isclose0 s n1 = true.

  Lemma ingress_weak g : MigsOK g -> check_migration_rates g = Ok tt -> IngressWeak g.
  Proof.
    intros OK H d t Hd Ot Ht0 Hfin s.
    unfold check_migration_rates in H. mbind H r Hr. destruct r as [mms ets]. cbn [fst] in H.
    destruct (migmat_total g OK) as (mms' & Hm & Hlen & Hshape).
    rewrite Hm in Hr. injection Hr as <- <-.
    destruct (end_times_shape (g_migs g) (migs_hyp g OK)) as (Hne & Hsd & Hall & Hz).
    set (ets := mm_end_times (g_migs g)) in *.
    destruct (intervals_cover ets t Hne Hsd (fun e He => proj1 (Hall e He)) Hz Ot Ht0 Hfin)
      as (k & e & Hk & Hlt & Hle & _).
    pose proof (nth_error_lt _ _ _ Hk) as Hklt. rewrite <- Hlen in Hklt.
    destruct (nth_error mms' k) as [mm|] eqn:Hmm; [|apply nth_error_None in Hmm; lia].
    destruct (In_nth_error _ _ Hd) as [j Hj].
    pose proof (nth_error_In _ _ Hmm) as Hmmin.
    destruct (Hshape mm Hmmin) as [Sh1 Sh2].
    pose proof (nth_error_lt _ _ _ Hj) as Hjlt. rewrite <- Sh1 in Hjlt.
    destruct (nth_error mm j) as [row|] eqn:Hrow; [|apply nth_error_None in Hrow; lia].
    pose proof (nth_error_In _ _ Hrow) as Hrowin.
    assert (row = map (fun s => rate_at (g_migs g) (d_name s) (d_name d) t) (g_demes g)) as Erow.
    { apply (nth_ext _ _ nf0 nf0).
      - rewrite map_length. apply Sh2; auto.
      - intros i Hi. rewrite (Sh2 _ Hrowin) in Hi.
        destruct (nth_error (g_demes g) i) as [di|] eqn:Hdi; [|apply nth_error_None in Hdi; lia].
        transitivity (mget mm j i).
        + unfold mget. now rewrite (nth_error_nth _ _ [] Hrow).
        + rewrite (migmat_pointwise g mms' ets OK Hm k mm e t i j (d_name di) (d_name d)
                     Hmm Hk Ot Hlt Hle).
          * symmetry. apply nth_error_nth.
            apply (map_nth_error (fun s => rate_at (g_migs g) (d_name s) (d_name d) t) _ _ Hdi).
          * unfold deme_names. now apply map_nth_error.
          * unfold deme_names. now apply map_nth_error. }
    pose proof (forM_inv _ _ _ H mm Hmmin) as X. cbv beta in X.
    pose proof (forM_inv _ _ _ X row Hrowin) as Y. cbv beta zeta in Y.
    apply raise_if_ok in Y.
    unfold s, ingress. rewrite <- Erow.
    apply andb_false_iff in Y. destruct Y as [Y|Y]; [left; exact Y|right].
    now apply negb_false_iff in Y.
  Qed.

  Lemma rate_at_unit ms src dst t :
    (forall m, In m ms -> in_unit (m_rate m)) -> in_unit (rate_at ms src dst t).
  Proof.
    intro H. unfold rate_at.
    destruct (find _ ms) as [m|] eqn:E.
    - apply find_some in E. destruct E as [Hin _]. destruct (H m Hin) as [A B].
      assert (ok (m_rate m)) as Om by (apply le_true in A; tauto).
      destruct (float_rk _ Om) as [Of Ef]. split; nord.
    - split; nord.
  Qed.

  (* the sum of finitely many numbers of [0, 1] is a number (not NaN) *)
  Definition SumOK : Prop := forall l, (forall x, In x l -> in_unit x) -> ok (pysum l).

  Lemma ingress_ok g : SumOK -> MigOK g -> IngressWeak g -> IngressOK g.
  Proof.
    intros SO MO W d t Hd Ot Ht0 Hfin s.
    assert (ok s) as Os.
    { apply SO. intros x Hx. apply in_map_iff in Hx. destruct Hx as (sd & <- & _).
      apply rate_at_unit. intros m Hm. exact (vm_rate _ _ (MO m Hm)). }
    destruct (W d t Hd Ot Ht0 Hfin) as [X|X]; [left|right; exact X].
    fold s in X. nord.
  Qed.
End ResolveMigs.
