(* C07 / C08: structural theorems about the models of to_ms and from_ms. *)
From Coq Require Import Bool List String QArith Lqa Arith Lia Permutation.
From Demes Require Import Base.Num Base.Py Model.MDM Model.Codec Model.MigMat Model.Resolve Model.Rename
  Model.InGen Model.MsOpt Model.ToMs Model.FromMs Spec.Valid Spec.MsSem
  Proofs.ResolveInv Proofs.ResolveDemes Proofs.ResolveMigs Proofs.ResolvePulses
  Proofs.ResolveValid Proofs.RenameProofs Proofs.RenameChecked Proofs.InGenProofs.
Import ListNotations.
Local Open Scope string_scope.
Local Open Scope list_scope.

(* ---------- a generic stable insertion sort on a numeric key ---------- *)
Section GSort.
  Context {N : NumOps} {L : NumLaws N} {A : Type} (key : A -> num).

  Fixpoint ginsert (x : A) (l : list A) : list A :=
    match l with
    | [] => [x]
    | y :: l' => if nlt (key y) (key x) then y :: ginsert x l' else x :: l
    end.
  Definition gsort (l : list A) : list A := fold_right ginsert [] l.

  Fixpoint SSorted (l : list A) : Prop :=
    match l with
    | [] => True
    | a :: l' => (forall x, In x l' -> nle (key a) (key x) = true) /\ SSorted l'
    end.

  Lemma ginsert_perm x l : Permutation (ginsert x l) (x :: l).
  Proof.
    induction l as [|y l IH]; cbn; [reflexivity|].
    destruct (nlt (key y) (key x)); [|reflexivity].
    rewrite IH. apply perm_swap.
  Qed.

  Lemma gsort_perm l : Permutation (gsort l) l.
  Proof.
    induction l as [|x l IH]; [reflexivity|].
    change (gsort (x :: l)) with (ginsert x (gsort l)).
    rewrite ginsert_perm. now constructor.
  Qed.

  Lemma ginsert_sorted x l :
    ok (key x) -> (forall y, In y l -> ok (key y)) -> SSorted l -> SSorted (ginsert x l).
  Proof.
    intros Ox. induction l as [|y l IH]; intros Ol Sl; cbn.
    - split; [intros z []|exact Logic.I].
    - destruct Sl as [Hy Sl].
      assert (ok (key y)) as Oy by (apply Ol; now left).
      destruct (nlt (key y) (key x)) eqn:E.
      + split.
        * intros z Hz. apply (Permutation_in _ (ginsert_perm x l)) in Hz.
          destruct Hz as [<-|Hz]; [nord|auto].
        * apply IH; auto. intros z Hz. apply Ol. now right.
      + split; [|split; auto].
        intros z [<-|Hz]; [nord|].
        specialize (Hy z Hz). nord.
  Qed.

  Lemma gsort_sorted l : (forall y, In y l -> ok (key y)) -> SSorted (gsort l).
  Proof.
    induction l as [|x l IH]; intro Ol; [exact Logic.I|].
    change (gsort (x :: l)) with (ginsert x (gsort l)).
    apply ginsert_sorted.
    - apply Ol. now left.
    - intros y Hy. apply Ol. right. apply (Permutation_in _ (gsort_perm l)). exact Hy.
    - apply IH. intros y Hy. apply Ol. now right.
  Qed.

  Lemma ginsert_head x l :
    (forall y, In y l -> nle (key x) (key y) = true) -> ginsert x l = x :: l.
  Proof.
    destruct l as [|y l]; intro H; cbn; [reflexivity|].
    specialize (H y (or_introl eq_refl)).
    destruct (nlt (key y) (key x)) eqn:E; [|reflexivity]. exfalso. nord.
  Qed.

  Lemma gsort_id l : SSorted l -> gsort l = l.
  Proof.
    induction l as [|x l IH]; intro S; [reflexivity|].
    change (gsort (x :: l)) with (ginsert x (gsort l)).
    destruct S as [Hx S]. rewrite IH by exact S. now apply ginsert_head.
  Qed.

  Lemma SSorted_filter P l : SSorted l -> SSorted (filter P l).
  Proof.
    induction l as [|x l IH]; intro S; cbn; [exact Logic.I|].
    destruct S as [Hx S]. destruct (P x); cbn; auto.
    split; auto. intros z Hz. apply filter_In in Hz. apply Hx. tauto.
  Qed.

  Lemma ginsert_filter P x l :
    ok (key x) -> (forall y, In y l -> ok (key y)) -> SSorted l ->
    filter P (ginsert x l) = if P x then ginsert x (filter P l) else filter P l.
  Proof.
    intros Ox. induction l as [|y l IH]; intros Ol Sl.
    - cbn. destruct (P x); reflexivity.
    - destruct Sl as [Hy Sl].
      assert (ok (key y)) as Oy by (apply Ol; now left).
      assert (forall z, In z l -> ok (key z)) as Ol' by (intros z Hz; apply Ol; now right).
      cbn [ginsert]. destruct (nlt (key y) (key x)) eqn:E.
      + cbn [filter]. rewrite IH by auto.
        destruct (P y) eqn:Py, (P x) eqn:Px; cbn [ginsert]; try rewrite E; reflexivity.
      + cbn [filter]. destruct (P x) eqn:Px; [|reflexivity].
        symmetry. apply ginsert_head.
        intros z Hz. assert (In z (y :: l)) as Hz'.
        { change (In z (filter P (y :: l))) in Hz. apply filter_In in Hz. tauto. }
        destruct Hz' as [<-|Hz']; [nord|]. specialize (Hy z Hz'). nord.
  Qed.

  Lemma gsort_filter P l :
    (forall y, In y l -> ok (key y)) -> filter P (gsort l) = gsort (filter P l).
  Proof.
    induction l as [|x l IH]; intro Ol; [reflexivity|].
    change (gsort (x :: l)) with (ginsert x (gsort l)).
    rewrite ginsert_filter.
    - rewrite IH by (intros y Hy; apply Ol; now right).
      cbn [filter]. destruct (P x); reflexivity.
    - apply Ol. now left.
    - intros y Hy. apply Ol. right. apply (Permutation_in _ (gsort_perm l)). exact Hy.
    - apply gsort_sorted. intros y Hy. apply Ol. now right.
  Qed.

  (* a sorted sub-family keeps its order *)
  Lemma gsort_filter_id P l :
    (forall y, In y l -> ok (key y)) -> SSorted (filter P l) -> filter P (gsort l) = filter P l.
  Proof. intros Ol S. rewrite gsort_filter by exact Ol. now apply gsort_id. Qed.
End GSort.

Section MsProofs.
  Context {N : NumOps} {L : NumLaws N}.

  (* ---------- C08: what from_ms returns is a valid graph in generations ---------- *)
  Theorem build_graph_valid c N0 g : SumOK -> build_graph c N0 = Ok g -> Valid g.
  Proof.
    intros SO H. unfold build_graph in H. mbind H d Hd. eapply resolve_valid; eauto.
  Qed.

  Theorem from_ms_valid c N0 names g : SumOK -> from_ms c N0 names = Ok g -> Valid g.
  Proof.
    intros SO H. unfold from_ms in H. mbind H g0 Hg0.
    pose proof (build_graph_valid _ _ _ SO Hg0) as V0.
    destruct names as [l|].
    - mraise H H1. cbv zeta in H. mraise H H2. eapply rename_demes_valid; eauto.
    - injection H as <-. exact V0.
  Qed.

  Lemma fromdict_hdr doc g :
    fromdict doc = Ok g ->
    exists kv units g0, doc = JDict kv /\ assoc "time_units" kv = Some units /\
      make_graph (jdefault (assoc "description" kv) (JStr "")) units
                 (jdefault (assoc "doi" kv) (JList []))
                 (jdefault (assoc "generation_time" kv) JNull)
                 (jdefault (assoc "metadata" kv) (JDict [])) = Ok g0 /\
      hdr g = hdr g0.
  Proof.
    intro H. unfold fromdict in H.
    mbind H kv Hkv. mbind H u0 Hca. mbind H defaults Hdef. mbind H u1 Hca2.
    mbind H ddef Hddef. mbind H u2 Hcd. mbind H mdef Hmdef. mbind H u3 Hcm.
    mbind H pdef Hpdef. mbind H u4 Hcp. mbind H edef Hedef. mbind H u5 Hce.
    mbind H units Hunits. mbind H g0 Hg0. mbind H dl Hdl. mraise H Hdl0.
    mbind H g1 Hg1. mbind H ml Hml. mbind H g2 Hg2. mbind H u6 Hchk.
    mbind H pl Hpl. mbind H g3 Hg3. injection H as <-.
    destruct (make_graph_spec _ _ _ _ _ _ Hg0) as (Hh & D0 & M0 & P0 & I0).
    assert (DInv g0) as DI0.
    { unfold DInv, Idx. rewrite D0, M0, P0, I0. cbn. auto. }
    assert (DInv g1 /\ hdr g1 = hdr g0) as [(I1 & V1 & M1 & P1) Hh1].
    { eapply (foldM_inv _ (fun g => DInv g /\ hdr g = hdr g0)); [| |exact Hg1].
      - intros ga dv gb [Da Ha] X.
        destruct (resolve_deme_spec _ _ _ _ _ Da X) as [[Db Hb] Q].
        split; auto. congruence.
      - split; auto. }
    assert (MInv g1 g2) as (Sd12 & P12 & MO2 & NO2).
    { eapply (foldM_inv _ (MInv g1)); [| |exact Hg2].
      - intros ga mv gb Ma X. eapply resolve_migration_spec; eauto.
      - apply MInv_init.
        + intros m Hm. rewrite M1 in Hm. destruct Hm.
        + rewrite M1. apply NoOverlap_nil. }
    pose proof (same_demes_idx _ _ Sd12 I1) as I2.
    assert (PInv g2 g3) as (Sd23 & M23 & VP3).
    { eapply (foldM_inv _ (PInv g2)); [| |exact Hg3].
      - intros ga pv gb Pa X. eapply resolve_pulse_spec; eauto.
      - split; [apply same_demes_refl|]. split; auto.
        intros p Hp. rewrite P12, P1 in Hp. destruct Hp. }
    destruct Sd12 as (D12 & X12 & H12). destruct Sd23 as (D23 & X23 & H23).
    destruct doc; try discriminate. injection Hkv as ->.
    exists kv, units, g0. split; [reflexivity|]. split.
    { destruct (assoc "time_units" kv); [injection Hunits as ->; reflexivity|discriminate]. }
    split; [exact Hg0|]. unfold hdr in *. cbn. congruence.
  Qed.

  Lemma build_doc_shape c N0 d :
    build_doc c N0 = Ok d ->
    exists dm mg rest, d = JDict (("time_units", JStr "generations") :: ("demes", dm) :: ("migrations", mg) :: rest)
      /\ (rest = [] \/ exists ps, rest = [("pulses", ps)]).
  Proof.
    intro H. unfold build_doc in H.
    mraise H H1. mraise H H2. mbind H u3 H3. cbv zeta in H. mbind H m0 Hm0. mbind H s Hs.
    mbind H ds Hds. mbind H migs' Hmigs. mbind H kept0 Htr. injection H as <-.
    do 3 eexists. split; [cbn [app]; reflexivity|].
    destruct (b_pulses s); [left; reflexivity|right; eexists; reflexivity].
  Qed.

  Theorem build_graph_generations c N0 g :
    build_graph c N0 = Ok g -> g_units g = "generations" /\ g_gt g = n1.
  Proof.
    intro H. unfold build_graph in H. mbind H d Hd.
    destruct (build_doc_shape _ _ _ Hd) as (dm & mg & rest & -> & Hrest).
    destruct (fromdict_hdr _ _ H) as (kv & units & g0 & E & Hu & Hg0 & Hh).
    injection E as <-.
    assert (assoc "generation_time" (("time_units", JStr "generations") :: ("demes", dm) :: ("migrations", mg) :: rest) = None) as Egt.
    { destruct Hrest as [->|[ps ->]]; reflexivity. }
    rewrite Egt in Hg0. cbn in Hu. injection Hu as <-.
    unfold make_graph in Hg0. cbn [jdefault] in Hg0.
    mbind Hg0 ds Hds. mbind Hg0 un Hun. mraise Hg0 Hune. mbind Hg0 gto Hgto. mbind Hg0 dl Hdl.
    mbind Hg0 dois Hdois. mraise Hg0 Hmeta. mraise Hg0 Hgt1. cbv zeta in Hg0. mraise Hg0 Hgen.
    injection Hg0 as <-. cbn in Hun. injection Hun as <-. injection Hgto as <-.
    unfold hdr in Hh. cbn in Hh. injection Hh as -> -> _ _. auto.
  Qed.

  Lemma insert_ev_g e l : insert_ev e l = ginsert ev_time e l.
  Proof. induction l as [|f l IH]; cbn; [reflexivity|]. now rewrite IH. Qed.
  Lemma sort_events_g l : sort_events l = gsort ev_time l.
  Proof. induction l as [|e l IH]; cbn; [reflexivity|]. fold (sort_events l). now rewrite insert_ev_g, IH. Qed.
  Lemma insert_dp_g e l : insert_dp e l = ginsert dp_time e l.
  Proof. induction l as [|f l IH]; cbn; [reflexivity|]. now rewrite IH. Qed.
  Lemma sort_dp_g l : sort_dp l = gsort dp_time l.
  Proof. induction l as [|e l IH]; cbn; [reflexivity|]. fold (sort_dp l). now rewrite insert_dp_g, IH. Qed.

  Definition head_growth (d : bdeme) : option num :=
    match bd_epochs d with e :: _ => be_growth e | [] => None end.

  Lemma epoch_resolve_ne d time d' : epoch_resolve d time = Ok d' -> bd_epochs d' <> [].
  Proof.
    unfold epoch_resolve. destruct (bd_epochs d) as [|e rest] eqn:E; [discriminate|].
    intro H. mraise H H1. destruct (ngt time (be_end e)).
    - mbind H x Hx. injection H as <-. cbn. discriminate.
    - injection H as <-. rewrite E. discriminate.
  Qed.

  Lemma set_size_cases time size reset d d' :
    set_size time size reset d = Ok d' ->
    match bd_epochs d with
    | [] => False
    | e :: _ =>
        (nneq (growth_of e) n0 || nneq (be_esize e) size = false /\ d' = d) \/
        (nneq (growth_of e) n0 || nneq (be_esize e) size = true /\
         exists e' rest, bd_epochs d' = mkBE (be_end e') size (be_ssize e')
                                          (if reset then Some n0 else be_growth e') :: rest)
    end.
  Proof.
    unfold set_size. destruct (bd_epochs d) as [|e rest] eqn:E; [discriminate|].
    destruct (nneq (growth_of e) n0 || nneq (be_esize e) size) eqn:C.
    - intro H. mbind H d1 Hd1. injection H as <-. right. split; [reflexivity|].
      apply epoch_resolve_ne in Hd1. unfold edit_head.
      destruct (bd_epochs d1) as [|e1 r1]; [congruence|]. cbn. eauto.
    - intro H. injection H as <-. left. auto.
  Qed.

  Theorem en_resets_growth time size d d' :
    set_size time size true d = Ok d' -> d' = d \/ head_growth d' = Some n0.
  Proof.
    intro H. apply set_size_cases in H. destruct (bd_epochs d) as [|e rest]; [destruct H|].
    destruct H as [[_ ->]|[_ (e' & r & E)]]; [now left|right].
    unfold head_growth. rewrite E. reflexivity.
  Qed.

  Theorem en_resets_growth_unchanged_case time size d :
    set_size time size true d = Ok d ->
    match bd_epochs d with
    | e :: _ => (nneq (growth_of e) n0 || nneq (be_esize e) size = false) \/ head_growth d = Some n0
    | [] => False
    end.
  Proof.
    intro H. apply set_size_cases in H. unfold head_growth.
    destruct (bd_epochs d) as [|e rest]; [destruct H|].
    destruct H as [[C _]|[_ (e' & r & E)]]; [now left|right].
    injection E as -> _. reflexivity.
  Qed.

  Theorem group_by_time_concat l : List.concat (map snd (group_by_time l)) = l.
  Proof.
    induction l as [|e l IH]; [reflexivity|]. cbn [group_by_time].
    destruct (group_by_time l) as [|[t g] rest].
    - cbn in *. now rewrite <- IH.
    - destruct (neqb (ev_time e) t); cbn in *; now rewrite <- IH.
  Qed.

  Theorem group_by_time_same l t g :
    (forall e, In e l -> ok (ev_time e)) ->
    In (t, g) (group_by_time l) -> g <> [] /\ forall e, In e g -> neqb (ev_time e) t = true.
  Proof.
    revert t g. induction l as [|e l IH]; intros t g Ol H; [destruct H|].
    assert (ok (ev_time e)) as Oe by (apply Ol; now left).
    assert (forall x, In x l -> ok (ev_time x)) as Ol' by (intros x Hx; apply Ol; now right).
    cbn [group_by_time] in H.
    destruct (group_by_time l) as [|[t1 g1] rest] eqn:G.
    - destruct H as [H|[]]. injection H as <- <-. split; [discriminate|].
      intros x [<-|[]]. now apply eq_refl_ok.
    - destruct (neqb (ev_time e) t1) eqn:E.
      + destruct H as [H|H].
        * injection H as <- <-. split; [discriminate|].
          destruct (IH t1 g1 Ol' (or_introl eq_refl)) as [_ Hg].
          intros x [<-|Hx]; auto.
        * apply IH; auto. now right.
      + destruct H as [H|H].
        * injection H as <- <-. split; [discriminate|].
          intros x [<-|[]]. now apply eq_refl_ok.
        * apply IH; auto.
  Qed.

  Theorem sort_events_perm l : Permutation (sort_events l) l.
  Proof. rewrite sort_events_g. apply gsort_perm. Qed.

  Fixpoint TimeSorted (l : list msev) : Prop :=
    match l with
    | e :: ((f :: _) as l') => nle (ev_time e) (ev_time f) = true /\ TimeSorted l'
    | _ => True
    end.

  Lemma SSorted_TimeSorted l : SSorted ev_time l -> TimeSorted l.
  Proof.
    induction l as [|e l IH]; intro S; [exact Logic.I|].
    destruct S as [He S]. destruct l as [|f l]; [exact Logic.I|].
    split; [apply He; now left|auto].
  Qed.

  Lemma TimeSorted_SSorted l : TimeSorted l -> SSorted ev_time l.
  Proof.
    induction l as [|e l IH]; intro T; [exact Logic.I|].
    destruct l as [|f l]; [split; [intros x []|exact Logic.I]|].
    destruct T as [Hef T]. specialize (IH T). split; [|exact IH].
    destruct IH as [Hf _]. intros x [<-|Hx]; [exact Hef|].
    specialize (Hf x Hx). nord.
  Qed.

  Theorem sort_events_sorted l : (forall e, In e l -> ok (ev_time e)) -> TimeSorted (sort_events l).
  Proof. intro Ol. rewrite sort_events_g. apply SSorted_TimeSorted. now apply gsort_sorted. Qed.

  Theorem sort_events_id l : (forall e, In e l -> ok (ev_time e)) -> TimeSorted l -> sort_events l = l.
  Proof. intros _ T. rewrite sort_events_g. apply gsort_id. now apply TimeSorted_SSorted. Qed.

  (* ---------- atoms: an -es/-ej pair is one unit for the sort ---------- *)
  Inductive atom := ASingle (e : msev) | APair (t : num) (i : nat) (p : num) (i' j' : nat).
  Definition atime (a : atom) : num := match a with ASingle e => ev_time e | APair t _ _ _ _ => t end.
  Definition aflat (a : atom) : list msev :=
    match a with ASingle e => [e] | APair t i p i' j' => [Evs t i p; Evj t i' j'] end.
  Definition flat (l : list atom) : list msev := flat_map aflat l.
  Definition is_pair (a : atom) : bool := match a with APair _ _ _ _ _ => true | _ => false end.
  Definition afresh (a : atom) : nat := match a with APair _ _ _ i' _ => i' | _ => O end.
  Definition amap (f : num -> num) (a : atom) : atom :=
    match a with
    | ASingle e => ASingle (set_time e (f (ev_time e)))
    | APair t i p i' j' => APair (f t) i p i' j'
    end.

  Lemma nlt_irrefl x : nlt x x = false.
  Proof. destruct (nlt x x) eqn:E; [|reflexivity]. apply lt_true in E. destruct E as (_ & _ & E). lra. Qed.

  Lemma flat_app l1 l2 : flat (l1 ++ l2) = flat l1 ++ flat l2.
  Proof. induction l1 as [|a l1 IH]; cbn; [reflexivity|]. unfold flat in IH. now rewrite IH, app_assoc. Qed.

  Lemma flat_single l : flat (map ASingle l) = l.
  Proof. induction l as [|e l IH]; cbn; [reflexivity|]. unfold flat in IH. now rewrite IH. Qed.

  Lemma insert_ev_skip e b rest :
    nlt (atime b) (ev_time e) = true -> insert_ev e (aflat b ++ rest) = aflat b ++ insert_ev e rest.
  Proof. intro H. destruct b; cbn in *; rewrite ?H; reflexivity. Qed.

  Lemma insert_ev_stop e b rest :
    nlt (atime b) (ev_time e) = false -> insert_ev e (aflat b ++ rest) = e :: aflat b ++ rest.
  Proof. intro H. destruct b; cbn in *; rewrite ?H; reflexivity. Qed.

  Lemma insert_flat a l : flat (ginsert atime a l) = fold_right insert_ev (flat l) (aflat a).
  Proof.
    induction l as [|b l IH].
    - destruct a; cbn; [reflexivity|]. now rewrite nlt_irrefl.
    - cbn [ginsert]. destruct (nlt (atime b) (atime a)) eqn:E.
      + change (flat (b :: ginsert atime a l)) with (aflat b ++ flat (ginsert atime a l)).
        change (flat (b :: l)) with (aflat b ++ flat l). rewrite IH.
        destruct a; cbn [aflat fold_right atime] in *.
        * now rewrite insert_ev_skip.
        * rewrite insert_ev_skip by exact E. now rewrite insert_ev_skip.
      + change (flat (a :: b :: l)) with (aflat a ++ aflat b ++ flat l).
        change (flat (b :: l)) with (aflat b ++ flat l).
        destruct a; cbn [aflat fold_right atime app] in *.
        * now rewrite insert_ev_stop.
        * rewrite insert_ev_stop by exact E. cbn. now rewrite nlt_irrefl.
  Qed.

  Lemma sort_flat l : flat (gsort atime l) = sort_events (flat l).
  Proof.
    induction l as [|a l IH]; [reflexivity|].
    change (gsort atime (a :: l)) with (ginsert atime a (gsort atime l)).
    rewrite insert_flat, IH.
    change (flat (a :: l)) with (aflat a ++ flat l).
    unfold sort_events. now rewrite fold_right_app.
  Qed.

  Fixpoint WellNumbered (c : nat) (evs : list msev) : Prop :=
    match evs with
    | [] => True
    | Evs t i _ :: rest =>
        (1 <= i <= c)%nat /\
        match rest with
        | Evj t' i' j' :: rest' => i' = S c /\ (1 <= j' <= c)%nat /\ neqb t' t = true /\ WellNumbered (S c) rest'
        | _ => False
        end
    | Evj _ i j :: rest => (1 <= i <= c)%nat /\ (1 <= j <= c)%nat /\ i <> j /\ WellNumbered c rest
    | Evg _ i _ :: rest | Evn _ i _ _ :: rest => (1 <= i <= c)%nat /\ WellNumbered c rest
    | Evm _ i j _ :: rest => (1 <= i <= c)%nat /\ (1 <= j <= c)%nat /\ i <> j /\ WellNumbered c rest
    | _ :: rest => WellNumbered c rest
    end.

  Definition elocal (n : nat) (e : msev) : Prop :=
    match e with
    | Evs _ _ _ => False
    | Evj _ i j | Evm _ i j _ => (1 <= i <= n)%nat /\ (1 <= j <= n)%nat /\ i <> j
    | Evg _ i _ | Evn _ i _ _ => (1 <= i <= n)%nat
    | _ => True
    end.
  Definition alocal (n : nat) (a : atom) : Prop :=
    match a with
    | ASingle e => elocal n e
    | APair _ i _ _ j' => (1 <= i <= n)%nat /\ (1 <= j' <= n)%nat
    end.

  Lemma WN_flat n : forall l c k,
    (forall a, In a l -> alocal n a) ->
    map afresh (filter is_pair l) = seq (S c) k -> (n <= c)%nat ->
    (forall e, In e (flat l) -> ok (ev_time e)) ->
    WellNumbered c (flat l).
  Proof.
    induction l as [|a l IH]; intros c k Hl Hnum Hc Hok; [exact Logic.I|].
    assert (forall a, In a l -> alocal n a) as Hl' by (intros x Hx; apply Hl; now right).
    pose proof (Hl a (or_introl eq_refl)) as Ha.
    change (flat (a :: l)) with (aflat a ++ flat l) in *.
    destruct a as [e|t i p i' j'].
    - assert (WellNumbered c (flat l)) as W.
      { apply (IH c k); auto. intros x Hx. apply Hok. apply in_or_app. now right. }
      cbn [aflat app]. cbn in Ha. cbn [filter is_pair] in Hnum.
      destruct e; cbn in Ha |- *; try tauto; try (repeat split; try tauto; lia).
    - cbn [aflat app]. cbn in Ha. cbn [filter is_pair map afresh] in Hnum.
      destruct k as [|k]; [discriminate|]. cbn [seq] in Hnum. injection Hnum as Hi Hnum.
      cbn [WellNumbered]. split; [lia|]. split; [exact Hi|]. split; [lia|]. split.
      + apply eq_refl_ok. apply (Hok (Evs t i p)). now left.
      + apply (IH (S c) k); auto. intros x Hx. apply Hok. right. right. exact Hx.
  Qed.

  Lemma flat_amap f l : flat (map (amap f) l) = map (fun e => set_time e (f (ev_time e))) (flat l).
  Proof.
    induction l as [|a l IH]; [reflexivity|].
    change (flat (map (amap f) (a :: l))) with (aflat (amap f a) ++ flat (map (amap f) l)).
    change (flat (a :: l)) with (aflat a ++ flat l). rewrite map_app, IH.
    destruct a; reflexivity.
  Qed.
  Lemma alocal_amap n f a : alocal n a -> alocal n (amap f a).
  Proof. destruct a as [e|]; [destruct e|]; cbn; auto. Qed.
  Lemma filter_amap f l : filter is_pair (map (amap f) l) = map (amap f) (filter is_pair l).
  Proof.
    induction l as [|a l IH]; [reflexivity|]. cbn. rewrite IH. destruct a; reflexivity.
  Qed.
  Lemma afresh_amap f l : map afresh (map (amap f) l) = map afresh l.
  Proof. rewrite map_map. apply map_ext. intros []; reflexivity. Qed.
  Lemma filter_single l : filter is_pair (map ASingle l) = [].
  Proof. induction l; cbn; auto. Qed.

  (* ---------- what to_ms generates ---------- *)
  Lemma mk_n_inv t i x e : mk_n t i x = Ok e -> e = Evn (nfloat t) i (nfloat x) true.
  Proof. unfold mk_n. intro H. mraise H H1. mraise H H2. now injection H as <-. Qed.
  Lemma mk_g_inv t i x e : mk_g t i x = Ok e -> e = Evg (nfloat t) i (nfloat x).
  Proof. unfold mk_g. intro H. mraise H H1. mraise H H2. now injection H as <-. Qed.
  Lemma mk_s_inv t i x e : mk_s t i x = Ok e -> e = Evs (nfloat t) i (nfloat x).
  Proof. unfold mk_s. intro H. mraise H H1. mraise H H2. now injection H as <-. Qed.
  Lemma mk_j_inv t i j e : mk_j t i j = Ok e -> e = Evj (nfloat t) i j.
  Proof. unfold mk_j. intro H. mraise H H1. now injection H as <-. Qed.
  Lemma mk_m_inv t i j x e : mk_m t i j x = Ok e -> e = Evm (nfloat t) i j (nfloat x).
  Proof. unfold mk_m. intro H. mraise H H1. mraise H H2. now injection H as <-. Qed.

  Lemma ok_float x : ok x -> ok (nfloat x).
  Proof. intro H. now apply float_rk. Qed.

  Lemma index_of_spec k l : forall i, index_of k l = Some i -> nth_error l i = Some k.
  Proof.
    induction l as [|a l IH]; intros i H; cbn in H; [discriminate|].
    destruct (String.eqb k a) eqn:E.
    - injection H as <-. apply String.eqb_eq in E. now subst.
    - destruct (index_of k l) as [j|]; [|discriminate]. injection H as <-. cbn. now apply IH.
  Qed.

  Lemma id_of_spec names nm i :
    id_of names nm = Ok i ->
    (1 <= i <= List.length names)%nat /\ nth_error (rev names) (List.length names - i) = Some nm.
  Proof.
    unfold id_of. destruct (index_of nm (rev names)) as [j|] eqn:E; [|discriminate].
    intro H. injection H as <-. apply index_of_spec in E.
    assert (j < List.length names)%nat as Hj.
    { rewrite <- (rev_length names). apply nth_error_Some. congruence. }
    split; [lia|]. replace (List.length names - (List.length names - j))%nat with j by lia. exact E.
  Qed.

  Lemma id_of_inj names a b i : id_of names a = Ok i -> id_of names b = Ok i -> a = b.
  Proof.
    intros Ha Hb. apply id_of_spec in Ha, Hb. destruct Ha as [_ Ha], Hb as [_ Hb]. congruence.
  Qed.

  Definition szlocal (j : nat) (e : msev) : Prop :=
    match e with Evn _ i _ _ | Evg _ i _ => i = j | _ => False end.

  Lemma size_events_spec N0 n4N0 j eps : forall size growth evs,
    size_events N0 n4N0 j eps size growth = Ok evs ->
    forall e, In e evs -> szlocal j e /\ exists ep, In ep eps /\ ev_time e = nfloat (e_end ep).
  Proof.
    induction eps as [|ep eps IH]; intros size growth evs H e He; cbn in H.
    - injection H as <-. destruct He.
    - mbind H r1 Hr1. cbv zeta in H. mbind H alpha Ha. mbind H r2 Hr2. mbind H rest Hrest.
      injection H as <-. apply in_app_or in He. destruct He as [He|He]; [|apply in_app_or in He; destruct He as [He|He]].
      + destruct (nneq size (e_esize ep)).
        * mbind Hr1 x Hx. mbind Hr1 ev Hev. injection Hr1 as <-. destruct He as [<-|[]].
          apply mk_n_inv in Hev. subst ev. cbn. split; [reflexivity|]. exists ep. split; [now left|reflexivity].
        * injection Hr1 as <-. destruct He.
      + match type of Hr2 with (if ?c then _ else _) = _ => destruct c end.
        * mbind Hr2 ev Hev. injection Hr2 as <-. destruct He as [<-|[]].
          apply mk_g_inv in Hev. subst ev. cbn. split; [reflexivity|]. exists ep. split; [now left|reflexivity].
        * injection Hr2 as <-. destruct He.
      + destruct (IH _ _ _ Hrest e He) as (H1 & ep' & H2 & H3). split; [exact H1|].
        exists ep'. split; [now right|exact H3].
  Qed.

  Definition sz_step (N0 n4N0 : num) (acc : list msev * nat) (d : deme) : res (list msev * nat) :=
    evs <- size_events N0 n4N0 (snd acc) (rev (d_epochs d)) N0 n0 ;;
    Ok (fst acc ++ evs, S (snd acc)).

  Lemma sz_fold N0 n4N0 ds : forall acc acc',
    foldM (sz_step N0 n4N0) ds acc = Ok acc' ->
    exists evs, fst acc' = fst acc ++ evs /\
      forall e, In e evs ->
        (exists j, (snd acc <= j < snd acc + List.length ds)%nat /\ szlocal j e) /\
        exists d ep, In d ds /\ In ep (d_epochs d) /\ ev_time e = nfloat (e_end ep).
  Proof.
    induction ds as [|d ds IH]; intros acc acc' H; cbn in H.
    - injection H as <-. exists []. split; [now rewrite app_nil_r|]. intros e [].
    - mbind H acc1 H1. unfold sz_step in H1. mbind H1 evs1 Hevs1. injection H1 as <-.
      destruct (IH _ _ H) as (evs2 & E2 & P2). cbn [fst snd] in *.
      exists (evs1 ++ evs2). split; [now rewrite E2, app_assoc|].
      intros e He. apply in_app_or in He. destruct He as [He|He].
      + destruct (size_events_spec _ _ _ _ _ _ _ Hevs1 e He) as (Hl & ep & Hep & Ht).
        split; [exists (snd acc); split; [cbn; lia|exact Hl]|].
        exists d, ep. split; [now left|]. split; [|exact Ht]. now apply in_rev.
      + destruct (P2 e He) as ((j & Hj & Hl) & d' & ep & Hd' & Hep & Ht).
        split; [exists j; split; [cbn; lia|exact Hl]|].
        exists d', ep. split; [now right|]. auto.
  Qed.

  Definition sj_step (names : list string) (acc : list msev * nat) (x : dp) : res (list msev * nat) :=
    match x with
    | DP_deme d =>
        self <- id_of names (d_name d) ;;
        r <- ancestry_events names d self 0 (d_anc d) (snd acc) ;;
        Ok (fst acc ++ fst r, snd r)
    | DP_pulse p =>
        let nid := S (snd acc) in
        raise_if (Nat.ltb 1 (List.length (p_srcs p))) ValueErr ;;;
        dst <- id_of names (p_dst p) ;;
        p0 <- (match p_props p with x :: _ => Ok x | [] => Err IndexErr end) ;;
        s0 <- (match p_srcs p with x :: _ => Ok x | [] => Err IndexErr end) ;;
        e1 <- mk_s (p_time p) dst (nsub n1 p0) ;;
        src <- id_of names s0 ;;
        e2 <- mk_j (p_time p) nid src ;;
        Ok (fst acc ++ [e1; e2], nid)
    end.

  Lemma ancestry_spec names d self :
    id_of names (d_name d) = Ok self ->
    forall ancs k c evs c', (forall a, In a ancs -> a <> d_name d) ->
    ancestry_events names d self k ancs c = Ok (evs, c') ->
    exists B, evs = flat B /\
      (forall a, In a B -> alocal (List.length names) a /\ atime a = nfloat (d_start d)) /\
      map afresh (filter is_pair B) = seq (S c) (c' - c) /\ (c <= c')%nat.
  Proof.
    intro Hself. pose proof (id_of_spec _ _ _ Hself) as [Bself _].
    induction ancs as [|a rest IH]; intros k c evs c' Hne H.
    - cbn in H. injection H as <- <-. exists []. rewrite Nat.sub_diag. cbn.
      split; [reflexivity|]. split; [intros a []|]. split; [reflexivity|lia].
    - cbn in H. mbind H anc_id Hanc. mbind H pk Hpk. mbind H prop Hprop.
      pose proof (id_of_spec _ _ _ Hanc) as [Banc _].
      assert (self <> anc_id) as Hdiff.
      { intros <-. apply (Hne a (or_introl eq_refl)). eapply id_of_inj; eauto. }
      destruct rest as [|a2 rest2].
      + mraise H Hcl. mbind H e He. injection H as <- <-. apply mk_j_inv in He. subst e.
        exists [ASingle (Evj (nfloat (d_start d)) self anc_id)]. rewrite Nat.sub_diag. cbn.
        split; [reflexivity|]. split; [|split; [reflexivity|lia]].
        intros x [<-|[]]. cbn. auto.
      + cbv beta iota zeta in H. mbind H e1 He1. mbind H e2 He2. mbind H r Hr. injection H as <- <-.
        destruct r as [evs_r c_r]. cbn [fst snd].
        apply mk_s_inv in He1. apply mk_j_inv in He2. subst e1 e2.
        destruct (IH (S k) (S c) evs_r c_r) as (B & -> & HB & Hnum & Hle).
        { intros x Hx. apply Hne. now right. }
        { exact Hr. }
        exists (APair (nfloat (d_start d)) self (nfloat (nsub n1 prop)) (S c) anc_id :: B).
        split; [reflexivity|]. split; [|split; [|lia]].
        * intros x [<-|Hx]; [cbn; auto|]. now apply HB.
        * cbn [filter is_pair map afresh]. rewrite Hnum.
          replace (c_r - c)%nat with (S (c_r - S c)) by lia. reflexivity.
  Qed.

  Lemma sj_step_spec names x acc acc1 :
    match x with DP_deme d => forall a, In a (d_anc d) -> a <> d_name d | DP_pulse _ => True end ->
    sj_step names acc x = Ok acc1 ->
    exists B, fst acc1 = fst acc ++ flat B /\
      (forall a, In a B -> alocal (List.length names) a /\ atime a = nfloat (dp_time x)) /\
      map afresh (filter is_pair B) = seq (S (snd acc)) (snd acc1 - snd acc) /\ (snd acc <= snd acc1)%nat.
  Proof.
    intros Hx H. destruct x as [d|p]; cbn [sj_step] in H.
    - mbind H self Hself. mbind H r Hr. injection H as <-. destruct r as [evs c']. cbn [fst snd] in *.
      destruct (ancestry_spec _ _ _ Hself _ _ _ _ _ Hx Hr) as (B & -> & HB & Hnum & Hle).
      exists B. auto.
    - cbv zeta in H. mraise H H1. mbind H dst Hdst. mbind H p0 Hp0. mbind H s0 Hs0.
      mbind H e1 He1. mbind H src Hsrc. mbind H e2 He2. injection H as <-. cbn [fst snd].
      apply mk_s_inv in He1. apply mk_j_inv in He2. subst e1 e2.
      apply id_of_spec in Hdst, Hsrc. destruct Hdst as [Bd _], Hsrc as [Bs _].
      exists [APair (nfloat (p_time p)) dst (nfloat (nsub n1 p0)) (S (snd acc)) src].
      split; [reflexivity|]. split; [|split; [|lia]].
      + intros a [<-|[]]. cbn. auto.
      + replace (S (snd acc) - snd acc)%nat with 1%nat by lia. reflexivity.
  Qed.

  Lemma SSorted_app {A} (key : A -> num) l1 l2 :
    SSorted key l1 -> SSorted key l2 ->
    (forall a b, In a l1 -> In b l2 -> nle (key a) (key b) = true) -> SSorted key (l1 ++ l2).
  Proof.
    induction l1 as [|x l1 IH]; intros S1 S2 Hc; cbn; [exact S2|].
    destruct S1 as [Hx S1]. split.
    - intros y Hy. apply in_app_or in Hy. destruct Hy as [Hy|Hy]; [auto|]. apply Hc; [now left|exact Hy].
    - apply IH; auto. intros a b Ha Hb. apply Hc; [now right|exact Hb].
  Qed.

  Lemma SSorted_const {A} (key : A -> num) t l :
    ok t -> (forall a, In a l -> key a = t) -> SSorted key l.
  Proof.
    intros Ot. induction l as [|x l IH]; intro H; cbn; [exact Logic.I|].
    split.
    - intros y Hy. rewrite (H x (or_introl eq_refl)), (H y (or_intror Hy)). nord.
    - apply IH. intros a Ha. apply H. now right.
  Qed.

  Lemma sj_fold names : forall dps,
    SSorted dp_time dps ->
    (forall x, In x dps -> ok (dp_time x) /\
       match x with DP_deme d => forall a, In a (d_anc d) -> a <> d_name d | DP_pulse _ => True end) ->
    forall acc acc', foldM (sj_step names) dps acc = Ok acc' ->
    exists B, fst acc' = fst acc ++ flat B /\
      (forall a, In a B -> alocal (List.length names) a /\ ok (atime a)) /\
      map afresh (filter is_pair B) = seq (S (snd acc)) (snd acc' - snd acc) /\
      (snd acc <= snd acc')%nat /\
      (forall a, In a B -> exists x, In x dps /\ atime a = nfloat (dp_time x)) /\
      SSorted atime B.
  Proof.
    induction dps as [|x dps IH]; intros Sd Hd acc acc' H; cbn in H.
    - injection H as <-. exists []. rewrite Nat.sub_diag, app_nil_r. cbn.
      split; [reflexivity|]. split; [intros z []|]. split; [reflexivity|]. split; [lia|].
      split; [intros z []|exact Logic.I].
    - mbind H acc1 H1. destruct Sd as [Hx Sd].
      destruct (Hd x (or_introl eq_refl)) as [Ox Cx].
      destruct (sj_step_spec _ _ _ _ Cx H1) as (B1 & E1 & HB1 & N1 & L1).
      destruct (IH Sd (fun y Hy => Hd y (or_intror Hy)) _ _ H) as (B2 & E2 & HB2 & N2 & L2 & T2 & S2).
      exists (B1 ++ B2). split; [|split; [|split; [|split; [|split]]]].
      + rewrite E2, E1, flat_app. now rewrite app_assoc.
      + intros a Ha. apply in_app_or in Ha. destruct Ha as [Ha|Ha]; [|auto].
        destruct (HB1 a Ha) as [P1 P2]. split; [exact P1|]. rewrite P2. now apply ok_float.
      + rewrite filter_app, map_app, N1, N2.
        replace (snd acc' - snd acc)%nat with ((snd acc1 - snd acc) + (snd acc' - snd acc1))%nat by lia.
        rewrite seq_app. f_equal. f_equal. lia.
      + lia.
      + intros a Ha. apply in_app_or in Ha. destruct Ha as [Ha|Ha].
        * exists x. split; [now left|]. now apply HB1.
        * destruct (T2 a Ha) as (y & Hy & Ey). exists y. split; [now right|exact Ey].
      + apply SSorted_app; [|exact S2|].
        * apply (SSorted_const _ (nfloat (dp_time x))); [now apply ok_float|]. intros a Ha. now apply HB1.
        * intros a b Ha Hb. destruct (HB1 a Ha) as [_ ->]. destruct (T2 b Hb) as (y & Hy & ->).
          specialize (Hx y Hy). destruct (Hd y (or_intror Hy)) as [Oy _].
          destruct (float_rk _ Ox) as [? ?]. destruct (float_rk _ Oy) as [? ?]. nord.
  Qed.

  Lemma foldM_inv_in {A S} (f : S -> A -> res S) (P : S -> Prop) l :
    (forall s a s', In a l -> P s -> f s a = Ok s' -> P s') ->
    forall s s', P s -> foldM f l s = Ok s' -> P s'.
  Proof.
    induction l as [|a l IH]; intros Hstep s s' Hs H; cbn in H.
    - injection H as <-. exact Hs.
    - mbind H s1 H1. eapply IH; [| |exact H].
      + intros. eapply Hstep; eauto. now right.
      + eapply Hstep; eauto. now left.
  Qed.

  Definition off_step (g : graph) (names : list string) (acc : list msev) (m : mig) : res (list msev) :=
    dd <- lookup g (m_dst m) ;; sd <- lookup g (m_src m) ;;
    if negb (nisinf (m_start m)) && nneq (m_start m) (d_start dd)
       && nneq (m_start m) (d_start sd) then
      i <- id_of names (m_dst m) ;; j <- id_of names (m_src m) ;;
      e <- mk_m (m_start m) i j n0 ;; Ok (acc ++ [e])
    else Ok acc.
  Definition on_step (names : list string) (x : num) (acc : list msev) (m : mig) : res (list msev) :=
    i <- id_of names (m_dst m) ;; j <- id_of names (m_src m) ;;
    e <- mk_m (m_end m) i j (nmul x (m_rate m)) ;; Ok (acc ++ [e]).

  Definition mlocal (n : nat) (e : msev) : Prop := elocal n e /\ ok (ev_time e).

  Lemma mig_event names m i j t x :
    m_src m <> m_dst m -> ok t ->
    id_of names (m_dst m) = Ok i -> id_of names (m_src m) = Ok j ->
    mlocal (List.length names) (Evm (nfloat t) i j x).
  Proof.
    intros Hne Ot Hi Hj. split; [|cbn; now apply ok_float]. cbn.
    assert (i <> j) by (intros <-; apply Hne; eapply id_of_inj; eauto).
    apply id_of_spec in Hi, Hj. tauto.
  Qed.

  Lemma off_fold g names ms acc' :
    (forall m, In m ms -> m_src m <> m_dst m /\ ok (m_start m) /\ ok (m_end m)) ->
    foldM (off_step g names) ms [] = Ok acc' -> forall e, In e acc' -> mlocal (List.length names) e.
  Proof.
    intros Hm H.
    refine (foldM_inv_in _ (fun acc => forall e, In e acc -> mlocal (List.length names) e) ms _ [] acc' _ H).
    - intros s m s' Hin Hs X. unfold off_step in X. mbind X dd Hdd. mbind X sd Hsd.
      destruct (Hm m Hin) as (Hne & Os & Oe).
      match type of X with (if ?c then _ else _) = _ => destruct c end.
      + mbind X i Hi. mbind X j Hj. mbind X e He. injection X as <-. apply mk_m_inv in He. subst e.
        intros e He. apply in_app_or in He. destruct He as [He|[<-|[]]]; [auto|].
        eapply mig_event; eauto.
      + now injection X as <-.
    - intros e [].
  Qed.

  Lemma on_fold names x ms acc' :
    (forall m, In m ms -> m_src m <> m_dst m /\ ok (m_start m) /\ ok (m_end m)) ->
    foldM (on_step names x) ms [] = Ok acc' -> forall e, In e acc' -> mlocal (List.length names) e.
  Proof.
    intros Hm H.
    refine (foldM_inv_in _ (fun acc => forall e, In e acc -> mlocal (List.length names) e) ms _ [] acc' _ H).
    - intros s m s' Hin Hs X. unfold on_step in X.
      destruct (Hm m Hin) as (Hne & Os & Oe).
      mbind X i Hi. mbind X j Hj. mbind X e He. injection X as <-. apply mk_m_inv in He. subst e.
      intros e He. apply in_app_or in He. destruct He as [He|[<-|[]]]; [auto|].
      eapply mig_event; eauto.
    - intros e [].
  Qed.

  Lemma ValidDemes_anc_ne l : forall e d,
    ValidDemes e l -> In d l -> forall a, In a (d_anc d) -> a <> d_name d.
  Proof.
    induction l as [|x l IH]; intros e d V Hd a Ha; [destruct Hd|].
    destruct V as [Vx Vl]. destruct Hd as [<-|Hd].
    - destruct (vd_anc _ _ Vx a Ha) as (ad & Had & En & _). intros ->.
      apply (vd_fresh _ _ Vx). rewrite <- En. now apply in_map.
    - eapply IH; eauto.
  Qed.

  Lemma gt_deme g d : In d (g_demes g) -> In (d_start d) (graph_times g).
  Proof.
    intro H. unfold graph_times. apply in_or_app. left. apply in_flat_map. exists d.
    split; [exact H|]. now left.
  Qed.
  Lemma gt_epoch g d ep : In d (g_demes g) -> In ep (d_epochs d) -> In (e_end ep) (graph_times g).
  Proof.
    intros H He. unfold graph_times. apply in_or_app. left. apply in_flat_map. exists d.
    split; [exact H|]. right. apply in_flat_map. exists ep. split; [exact He|]. right. now left.
  Qed.
  Lemma gt_mig g m : In m (g_migs g) -> In (m_start m) (graph_times g) /\ In (m_end m) (graph_times g).
  Proof.
    intro H. unfold graph_times.
    split; apply in_or_app; right; apply in_or_app; left; apply in_flat_map; exists m;
      (split; [exact H|]); [now left|right; now left].
  Qed.
  Lemma gt_pulse g p : In p (g_pulses g) -> In (p_time p) (graph_times g).
  Proof.
    intro H. unfold graph_times. apply in_or_app; right; apply in_or_app; right. now apply in_map.
  Qed.

  Lemma mapM_map {A B} (F : A -> res B) (G : A -> B) l l' :
    (forall a b, F a = Ok b -> b = G a) -> mapM F l = Ok l' -> l' = map G l.
  Proof.
    intros HF H. apply mapM_inv in H. induction H as [|a b l l' Hab _ IH]; [reflexivity|].
    cbn. rewrite (HF _ _ Hab), IH. reflexivity.
  Qed.

  (* ORIGINAL STATEMENT (false as written):
       Theorem to_ms_numbering g N0 n evs :
         Valid g -> to_ms_events g N0 = Ok (n, evs) ->
         n = List.length (g_demes g) /\ WellNumbered n evs.
     Two things are not derivable from the order laws (NumLaws says nothing about ndiv):
     (a) to_ms first converts the graph to generations (every time is divided by g_gt); if a
         quotient is NaN (e.g. an instance where ninf / gt is NaN for the start time of a root deme)
         both stable sorts misplace elements, and a later -es can overtake an earlier one, which
         breaks the numbering;  validity of g says nothing about the converted graph
         (in_generations does not preserve validity, findings F12a-c).
     (b) the last step divides every time by 4*N0; with N0 = NaN (also on binary64) the result is
         Ok with NaN times, and  neqb t' t = true  fails for the -es/-ej pair although both carry
         the same time.
     Smallest repair: the times of the converted graph and the emitted times are not NaN
     (true on binary64 whenever N0 is a positive finite number and the graph is valid). *)
  Theorem to_ms_numbering g N0 n evs :
    Valid g ->
    (forall g', in_generations g = Ok g' -> forall x, In x (graph_times g') -> ok x) ->
    to_ms_events g N0 = Ok (n, evs) ->
    (forall e, In e evs -> ok (ev_time e)) ->
    n = List.length (g_demes g) /\ WellNumbered n evs.
  Proof.
    intros V Hgt H Hev. unfold to_ms_events in H. mbind H r Hr. cbv zeta in H. mbind H evs' Hevs.
    unfold to_ms_unscaled in Hr. mbind Hr g' Hg'. cbv zeta in Hr.
    mbind Hr sz Hsz. mbind Hr sj Hsj. mbind Hr off Hoff. mbind Hr on Hon.
    injection Hr as <-. cbn [fst snd] in H, Hevs. injection H as <- <-.
    specialize (Hgt g' Hg').
    destruct (ingen_spec _ _ Hg') as (_ & _ & _ & _ & _ & _ & RD & RM & RP).
    pose proof (Forall2_length' _ _ _ RD) as Hlen.
    split; [now symmetry|].
    set (names := map d_name (g_demes g')) in *.
    set (n := List.length (g_demes g')) in *.
    assert (List.length names = n) as Hn by (unfold names, n; apply map_length).
    (* facts about the converted graph *)
    assert (forall d, In d (g_demes g') -> forall a, In a (d_anc d) -> a <> d_name d) as Hanc.
    { intros d' Hd' a Ha. destruct (Forall2_in_r _ _ _ RD d' Hd') as (d & Hd & En & _ & _ & Ea & _).
      rewrite En. rewrite Ea in Ha. eapply ValidDemes_anc_ne; eauto. apply (v_demes _ V). }
    assert (forall m, In m (g_migs g') -> m_src m <> m_dst m /\ ok (m_start m) /\ ok (m_end m)) as Hmig.
    { intros m' Hm'. destruct (Forall2_in_r _ _ _ RM m' Hm') as (m & Hm & Es & Ed & _).
      rewrite Es, Ed. split; [apply (vm_distinct _ _ (v_migs _ V m Hm))|].
      destruct (gt_mig _ _ Hm'). auto. }
    (* the four groups *)
    change (foldM (sz_step N0 (nmul n4 N0)) (g_demes g') ([], 1%nat) = Ok sz) in Hsz.
    apply sz_fold in Hsz. destruct Hsz as (esz & Esz & Psz). cbn [fst snd app] in Esz, Psz.
    change (foldM (sj_step names) (sort_dp (map DP_pulse (rev (g_pulses g')) ++ map DP_deme (g_demes g')))
                  ([], n) = Ok sj) in Hsj.
    assert (forall x, In x (map DP_pulse (rev (g_pulses g')) ++ map DP_deme (g_demes g')) ->
              ok (dp_time x) /\
              match x with DP_deme d => forall a, In a (d_anc d) -> a <> d_name d | DP_pulse _ => True end)
      as Hdp.
    { intros x Hx. apply in_app_or in Hx. destruct Hx as [Hx|Hx]; apply in_map_iff in Hx;
        destruct Hx as (y & <- & Hy); cbn.
      - split; [|exact Logic.I]. apply Hgt, gt_pulse. now apply in_rev.
      - split; [apply Hgt, gt_deme; exact Hy|]. now apply Hanc. }
    rewrite sort_dp_g in Hsj.
    apply sj_fold in Hsj.
    2:{ apply gsort_sorted. intros x Hx. now apply Hdp. }
    2:{ intros x Hx. apply Hdp. apply (Permutation_in _ (gsort_perm dp_time _)). exact Hx. }
    destruct Hsj as (B & Esj & HB & Nsj & Lsj & _ & SB). cbn [fst snd app] in Esj, Nsj, Lsj.
    rewrite Hn in HB.
    change (foldM (off_step g' names) (g_migs g') [] = Ok off) in Hoff.
    pose proof (off_fold _ _ _ _ Hmig Hoff) as Poff. rewrite Hn in Poff.
    change (foldM (on_step names (nmul n4 N0)) (g_migs g') [] = Ok on) in Hon.
    pose proof (on_fold _ _ _ _ Hmig Hon) as Pon. rewrite Hn in Pon.
    (* the unsorted list as atoms *)
    set (U := map ASingle esz ++ B ++ map ASingle (off ++ on)).
    assert (fst sz ++ fst sj ++ off ++ on = flat U) as EU.
    { unfold U. rewrite !flat_app, !flat_single. congruence. }
    assert (forall a, In a U -> alocal n a /\ ok (atime a)) as HU.
    { intros a Ha. unfold U in Ha. apply in_app_or in Ha. destruct Ha as [Ha|Ha]; [|apply in_app_or in Ha; destruct Ha as [Ha|Ha]].
      - apply in_map_iff in Ha. destruct Ha as (e & <- & He).
        destruct (Psz e He) as ((j & Hj & Hl) & d & ep & Hd & Hep & Ht). cbn. split.
        + fold n in Hj. destruct e; cbn in Hl |- *; try contradiction; lia.
        + rewrite Ht. apply ok_float. eapply Hgt, gt_epoch; eauto.
      - now apply HB.
      - apply in_map_iff in Ha. destruct Ha as (e & <- & He). cbn.
        apply in_app_or in He. destruct He as [He|He]; [now apply Poff|now apply Pon]. }
    rewrite EU, <- sort_flat in Hevs.
    apply (mapM_map _ (fun e => set_time e (ndiv (ev_time e) (nmul n4 N0)))) in Hevs.
    2:{ intros a b X. mbind X t Ht. injection X as <-. apply pdiv_inv in Ht. now subst. }
    rewrite <- (flat_amap (fun t => ndiv t (nmul n4 N0))) in Hevs. subst evs'.
    apply (WN_flat n _ n (snd sj - n)).
    - intros a Ha. apply in_map_iff in Ha. destruct Ha as (a0 & <- & Ha0).
      apply alocal_amap. apply HU. apply (Permutation_in _ (gsort_perm atime _)). exact Ha0.
    - rewrite filter_amap, afresh_amap.
      rewrite gsort_filter_id.
      + unfold U. rewrite !filter_app, !filter_single, app_nil_r. exact Nsj.
      + intros a Ha. now apply HU.
      + unfold U. rewrite !filter_app, !filter_single, app_nil_r. cbn [app].
        now apply SSorted_filter.
    - lia.
    - exact Hev.
  Qed.

  (* ---------- refusals ---------- *)
  Lemma foldM_err {A S} (f : S -> A -> res S) l a :
    In a l -> (forall s, exists err, f s a = Err err) -> forall s, exists err, foldM f l s = Err err.
  Proof.
    intros Hin Hf. induction l as [|b l IH]; intro s; [destruct Hin|]. cbn.
    destruct (f s b) as [s'|er] eqn:E; cbn; [|eauto].
    destruct Hin as [->|Hin]; [|now apply IH].
    destruct (Hf s) as [er E']. congruence.
  Qed.

  Ltac step_bind :=
    match goal with
    | |- exists err, bind ?m _ = Err err => destruct m; cbn [bind]; [|eauto]
    end.

  Lemma size_events_linear N0 n4N0 j eps e :
    In e eps -> e_sf e = "linear" ->
    forall size growth, exists err, size_events N0 n4N0 j eps size growth = Err err.
  Proof.
    intros Hin Hsf. induction eps as [|a eps IH]; intros size growth; [destruct Hin|].
    cbn [size_events]. step_bind. cbv zeta.
    destruct Hin as [->|Hin].
    - unfold growth_rate. rewrite Hsf. cbn. eauto.
    - step_bind. step_bind.
      match goal with |- exists err, bind (size_events ?a ?b ?c ?d ?s ?g) _ = _ =>
        destruct (IH Hin s g) as [er ->] end.
      cbn. eauto.
  Qed.

  Lemma Forall2_in_l {A B} (R : A -> B -> Prop) l l' :
    Forall2 R l l' -> forall a, In a l -> exists b, In b l' /\ R a b.
  Proof.
    induction 1 as [|a b l l' Hab _ IH]; intros x Hx; [destruct Hx|].
    destruct Hx as [<-|Hx].
    - exists b. split; [now left|auto].
    - destruct (IH x Hx) as (b' & Hb' & Hr). exists b'. split; [now right|auto].
  Qed.

  Lemma unscaled_err g N0 :
    (exists er, to_ms_unscaled g N0 = Err er) -> exists er, to_ms_events g N0 = Err er.
  Proof. intros [er H]. unfold to_ms_events. rewrite H. cbn. eauto. Qed.

  Theorem to_ms_refuses_linear g N0 d e :
    In d (g_demes g) -> In e (d_epochs d) -> e_sf e = "linear" ->
    exists err, to_ms_events g N0 = Err err.
  Proof.
    intros Hd He Hsf. apply unscaled_err. unfold to_ms_unscaled.
    destruct (in_generations g) as [g'|er] eqn:Hg'; cbn [bind]; [|eauto]. cbv zeta.
    destruct (ingen_spec _ _ Hg') as (_ & _ & _ & _ & _ & _ & RD & _ & _).
    destruct (Forall2_in_l _ _ _ RD d Hd) as (d' & Hd' & _ & _ & _ & _ & _ & RE).
    destruct (Forall2_in_l _ _ _ RE e He) as (e' & He' & _ & _ & _ & _ & Esf & _).
    match goal with |- exists err, bind ?m _ = _ => assert (exists er, m = Err er) as [er ->] end;
      [|cbn; eauto].
    apply foldM_err with (a := d'); [exact Hd'|]. intro s.
    destruct (size_events_linear N0 (nmul n4 N0) (snd s) (rev (d_epochs d')) e') with (size := N0) (growth := n0)
      as [er ->]; [now apply -> in_rev|congruence|].
    cbn. eauto.
  Qed.

  Theorem to_ms_refuses_multisource g N0 p :
    In p (g_pulses g) -> (2 <= List.length (p_srcs p))%nat ->
    exists err, to_ms_events g N0 = Err err.
  Proof.
    intros Hp Hlen. apply unscaled_err. unfold to_ms_unscaled.
    destruct (in_generations g) as [g'|er] eqn:Hg'; cbn [bind]; [|eauto]. cbv zeta.
    destruct (ingen_spec _ _ Hg') as (_ & _ & _ & _ & _ & _ & _ & _ & RP).
    destruct (Forall2_in_l _ _ _ RP p Hp) as (p' & Hp' & Es & _).
    step_bind.
    match goal with |- exists err, bind ?m _ = _ => assert (exists er, m = Err er) as [er ->] end;
      [|cbn; eauto].
    apply foldM_err with (a := DP_pulse p').
    - rewrite sort_dp_g. apply (Permutation_in _ (Permutation_sym (gsort_perm dp_time _))).
      apply in_or_app. left. apply in_map. now apply -> in_rev.
    - intro s. cbv zeta. rewrite Es.
      assert (Nat.ltb 1 (List.length (p_srcs p)) = true) as -> by (apply Nat.ltb_lt; lia).
      cbn. eauto.
  Qed.
End MsProofs.

Print Assumptions build_graph_valid.
Print Assumptions from_ms_valid.
Print Assumptions build_graph_generations.
Print Assumptions en_resets_growth.
Print Assumptions en_resets_growth_unchanged_case.
Print Assumptions group_by_time_concat.
Print Assumptions group_by_time_same.
Print Assumptions sort_events_perm.
Print Assumptions sort_events_sorted.
Print Assumptions sort_events_id.
Print Assumptions to_ms_numbering.
Print Assumptions to_ms_refuses_linear.
Print Assumptions to_ms_refuses_multisource.
