(* C02 — the inference rules at the level of the DOCUMENT (the dictionaries handed to
   resolve_deme / resolve_migration / fromdict), not only of the builder calls
   (Proofs/ResolveRules.v): writing out the value that resolution would infer, or copying
   a default into the place that uses it, gives the same result — same graph, or the same
   error.  Every statement is an equation between two runs of the model of Graph.fromdict
   (or of the per-deme / per-migration step it folds over the document). *)
From Coq Require Import Bool List String QArith Lqa Lia Arith Permutation.
From Demes Require Import Base.Num Base.Py Model.MDM Model.Resolve Spec.Valid Proofs.ResolveInv Proofs.ResolveRules.
Import ListNotations.
Local Open Scope string_scope.
Local Open Scope list_scope.

Section DocRules.
  Context {N : NumOps} {L : NumLaws N}.

  Definition absent (k : string) (kv : list (string * jv)) : Prop := assoc k kv = None.
  Definition remove_key (k : string) (kv : list (string * jv)) : list (string * jv) :=
    filter (fun p => negb (String.eqb (fst p) k)) kv.

  (* ---------------- auxiliary: lookups ---------------- *)
  Lemma assoc_cons_eq {A} k (v : A) l : assoc k ((k, v) :: l) = Some v.
  Proof. cbn. now rewrite String.eqb_refl. Qed.
  Lemma assoc_cons_ne {A} k k' (v : A) l :
    String.eqb k k' = false -> assoc k ((k', v) :: l) = assoc k l.
  Proof. intro H. cbn. now rewrite H. Qed.

  Lemma field_cons_eq kv def k v : field ((k, v) :: kv) def k = Some v.
  Proof. unfold field. now rewrite assoc_cons_eq. Qed.
  Lemma field_cons_ne kv def k k' v :
    String.eqb k' k = false -> field ((k, v) :: kv) def k' = field kv def k'.
  Proof. intro H. unfold field. now rewrite assoc_cons_ne. Qed.
  Lemma field_nn_cons_ne kv def k k' v :
    String.eqb k' k = false -> field_nn ((k, v) :: kv) def k' = field_nn kv def k'.
  Proof. intro H. unfold field_nn. now rewrite field_cons_ne. Qed.
  Lemma field_absent kv def k : absent k kv -> absent k def -> field kv def k = None.
  Proof. unfold absent, field. intros -> ->. reflexivity. Qed.
  Lemma field_nn_absent kv def k : absent k kv -> absent k def -> field_nn kv def k = None.
  Proof. intros H1 H2. unfold field_nn. now rewrite field_absent. Qed.
  Lemma field_nn_not_null kv def k v : field_nn kv def k = Some v -> v <> JNull.
  Proof. unfold field_nn. destruct (field kv def k) as [[]|]; congruence. Qed.
  Lemma field_nn_cons_eq kv def k v : v <> JNull -> field_nn ((k, v) :: kv) def k = Some v.
  Proof. intro H. unfold field_nn. rewrite field_cons_eq. destruct v; congruence. Qed.

  (* a default copied into the dictionary that uses it changes no lookup *)
  Lemma field_copy kv def k v k' :
    absent k kv -> assoc k def = Some v -> field ((k, v) :: kv) def k' = field kv def k'.
  Proof.
    intros Ha Hd. destruct (String.eqb k' k) eqn:E.
    - apply String.eqb_eq in E. subst k'. rewrite field_cons_eq. unfold field. now rewrite Ha.
    - now apply field_cons_ne.
  Qed.
  Lemma field_nn_copy kv def k v k' :
    absent k kv -> assoc k def = Some v -> field_nn ((k, v) :: kv) def k' = field_nn kv def k'.
  Proof. intros Ha Hd. unfold field_nn. now rewrite (field_copy _ _ _ _ _ Ha Hd). Qed.

  Lemma check_allowed_cons k v kv al :
    mem k al = true -> check_allowed ((k, v) :: kv) al = check_allowed kv al.
  Proof. intro H. unfold check_allowed. cbn [forM_ fst]. rewrite H. reflexivity. Qed.

  Lemma mem_in' s l : In s l -> mem s l = true.
  Proof.
    intro H. unfold mem. apply existsb_exists. exists s. split; [exact H|apply String.eqb_refl].
  Qed.

  Ltac fsimp :=
    repeat first
      [ rewrite field_cons_eq
      | rewrite field_nn_cons_eq
          by first [discriminate | eassumption | eapply field_nn_not_null; eassumption]
      | rewrite field_cons_ne by reflexivity
      | rewrite field_nn_cons_ne by reflexivity ].

  (* ---------------- demes ---------------- *)
  Lemma resolve_deme_cons ddef edef g kv k v :
    In k ["description"; "start_time"; "ancestors"; "proportions"] ->
    (forall name,
        add_deme g name (jdefault (field kv ddef "description") (JStr ""))
                 (field_nn kv ddef "start_time") (field_nn kv ddef "ancestors")
                 (field_nn kv ddef "proportions")
        = add_deme g name (jdefault (field ((k, v) :: kv) ddef "description") (JStr ""))
                   (field_nn ((k, v) :: kv) ddef "start_time")
                   (field_nn ((k, v) :: kv) ddef "ancestors")
                   (field_nn ((k, v) :: kv) ddef "proportions")) ->
    resolve_deme ddef edef g (JDict kv) = resolve_deme ddef edef g (JDict ((k, v) :: kv)).
  Proof.
    intros Hk Hadd.
    assert (forall k', In k' ["name"; "defaults"; "epochs"] ->
                       assoc k' ((k, v) :: kv) = assoc k' kv) as Ha.
    { intros k' Hk'. apply assoc_cons_ne. cbn in Hk, Hk'.
      decompose [or] Hk; decompose [or] Hk'; subst; try contradiction; reflexivity. }
    assert (check_allowed ((k, v) :: kv) deme_fields = check_allowed kv deme_fields) as Hc.
    { apply check_allowed_cons. cbn in Hk. decompose [or] Hk; subst; try contradiction; reflexivity. }
    unfold resolve_deme, pop_object. cbn [dict_of bind].
    rewrite Hc, (Ha "name"), (Ha "defaults"), !(Ha "epochs") by (cbn; tauto).
    bext. bext. rewrite Hadd. reflexivity.
  Qed.

  Theorem doc_deme_start_root ddef edef g kv :
    absent "start_time" kv -> absent "start_time" ddef ->
    field_nn kv ddef "ancestors" = None ->
    resolve_deme ddef edef g (JDict kv)
    = resolve_deme ddef edef g (JDict (("start_time", JNum ninf) :: kv)).
  Proof.
    intros H1 H2 H3. apply resolve_deme_cons; [cbn; tauto|]. intro name. fsimp.
    rewrite (field_nn_absent _ _ _ H1 H2), H3.
    apply infer_start_root.
  Qed.

  Theorem doc_deme_start_single ddef edef g kv a ad e :
    absent "start_time" kv -> absent "start_time" ddef ->
    field_nn kv ddef "ancestors" = Some (JList [JStr a]) ->
    lookup g a = Ok ad -> d_end ad = Ok e ->
    resolve_deme ddef edef g (JDict kv)
    = resolve_deme ddef edef g (JDict (("start_time", JNum e) :: kv)).
  Proof.
    intros H1 H2 H3 H4 H5. apply resolve_deme_cons; [cbn; tauto|]. intro name. fsimp.
    rewrite (field_nn_absent _ _ _ H1 H2), H3.
    now apply (infer_start_single _ _ _ _ ad).
  Qed.

  Theorem doc_deme_props_single ddef edef g kv a :
    absent "proportions" kv -> absent "proportions" ddef ->
    field_nn kv ddef "ancestors" = Some (JList [a]) ->
    resolve_deme ddef edef g (JDict kv)
    = resolve_deme ddef edef g (JDict (("proportions", JList [JNum nf1]) :: kv)).
  Proof.
    intros H1 H2 H3. apply resolve_deme_cons; [cbn; tauto|]. intro name. fsimp.
    rewrite (field_nn_absent _ _ _ H1 H2), H3.
    apply infer_props_single.
  Qed.

  Theorem doc_deme_props_none ddef edef g kv :
    absent "proportions" kv -> absent "proportions" ddef ->
    field_nn kv ddef "ancestors" = None ->
    resolve_deme ddef edef g (JDict kv)
    = resolve_deme ddef edef g (JDict (("proportions", JList []) :: kv)).
  Proof.
    intros H1 H2 H3. apply resolve_deme_cons; [cbn; tauto|]. intro name. fsimp.
    rewrite (field_nn_absent _ _ _ H1 H2), H3.
    apply infer_props_none.
  Qed.

  Theorem doc_deme_ancestors_none ddef edef g kv :
    absent "ancestors" kv -> absent "ancestors" ddef ->
    resolve_deme ddef edef g (JDict kv)
    = resolve_deme ddef edef g (JDict (("ancestors", JList []) :: kv)).
  Proof.
    intros H1 H2. apply resolve_deme_cons; [cbn; tauto|]. intro name. fsimp.
    rewrite (field_nn_absent _ _ _ H1 H2).
    reflexivity.
  Qed.

  Theorem doc_deme_description ddef edef g kv :
    absent "description" kv -> absent "description" ddef ->
    resolve_deme ddef edef g (JDict kv)
    = resolve_deme ddef edef g (JDict (("description", JStr "") :: kv)).
  Proof.
    intros H1 H2. apply resolve_deme_cons; [cbn; tauto|]. intro name. fsimp.
    rewrite (field_absent _ _ _ H1 H2). reflexivity.
  Qed.

  (* a deme-level default copied into the deme that uses it *)
  Theorem doc_deme_default_copied ddef edef g kv k v :
    In k ["description"; "start_time"; "ancestors"; "proportions"] ->
    absent k kv -> assoc k ddef = Some v ->
    resolve_deme ddef edef g (JDict kv) = resolve_deme ddef edef g (JDict ((k, v) :: kv)).
  Proof.
    intros Hk H1 H2. apply resolve_deme_cons; [exact Hk|]. intro name.
    now rewrite (field_copy _ _ _ _ _ H1 H2), !(field_nn_copy _ _ _ _ _ H1 H2).
  Qed.

  (* ---------------- auxiliary: folds, the epoch step ---------------- *)
  Lemma foldM_ext {A S} (f : S -> A -> res S) (l l' : list A) s :
    Forall2 (fun x y => forall h, f h x = f h y) l l' -> foldM f l s = foldM f l' s.
  Proof.
    intro F. revert s. induction F as [|x y l l' Hxy _ IH]; intro s; [reflexivity|].
    cbn [foldM]. rewrite Hxy. bext. apply IH.
  Qed.

  Lemma foldM_app {A S} (f : S -> A -> res S) (a b : list A) s :
    foldM f (a ++ b) s = (s' <- foldM f a s ;; foldM f b s').
  Proof.
    revert s. induction a as [|x a IH]; intro s; [reflexivity|].
    cbn [app foldM]. destruct (f s x) as [s1|e]; cbn [bind]; [apply IH|reflexivity].
  Qed.

  Lemma forM_app {A} (f : A -> res unit) (a b : list A) :
    forM_ f (a ++ b) = (forM_ f a ;;; forM_ f b).
  Proof.
    induction a as [|x a IH]; [reflexivity|].
    cbn [app forM_]. destruct (f x) as [u|e]; cbn [bind]; [apply IH|reflexivity].
  Qed.

  Lemma Forall2_refl' {A} (R : A -> A -> Prop) l : (forall x, R x x) -> Forall2 R l l.
  Proof. intro H. induction l; constructor; auto. Qed.

  Lemma merge_nil (glob : list (string * jv)) : merge_defaults glob [] = glob.
  Proof.
    unfold merge_defaults. cbn [app assoc].
    induction glob as [|p glob IH]; [reflexivity|]. cbn [filter]. now rewrite IH.
  Qed.

  Lemma assoc_mid_ne {A} k k0 (v : A) pre post :
    String.eqb k k0 = false -> assoc k (pre ++ (k0, v) :: post) = assoc k (pre ++ post).
  Proof. intro H. rewrite !assoc_app, assoc_cons_ne by exact H. reflexivity. Qed.
  Lemma assoc_mid_eq {A} k0 (v : A) pre post :
    assoc k0 pre = None -> assoc k0 (pre ++ (k0, v) :: post) = Some v.
  Proof. intro H. now rewrite assoc_app, H, assoc_cons_eq. Qed.

  Lemma check_allowed_fst kv kv' al :
    map fst kv = map fst kv' -> check_allowed kv al = check_allowed kv' al.
  Proof.
    unfold check_allowed. revert kv'.
    induction kv as [|p kv IH]; intros [|p' kv'] H; try discriminate; [reflexivity|].
    cbn [map] in H. injection H as H1 H2. cbn [forM_]. rewrite H1. now rewrite (IH _ H2).
  Qed.
  Lemma check_allowed_mid pre post k v v' al :
    check_allowed (pre ++ (k, v) :: post) al = check_allowed (pre ++ (k, v') :: post) al.
  Proof. apply check_allowed_fst. now rewrite !map_app. Qed.

  Definition estep (edef : list (string * jv)) (nE : nat) (st : deme * nat) (ev : jv)
    : res (deme * nat) :=
    let '(d, j) := st in
    ekv <- dict_of ev ;;
    check_allowed ekv epoch_fields ;;;
    en <- (match field ekv edef "end_time" with
           | Some v => Ok v
           | None => if Nat.eqb (S j) nE then Ok (JNum n0) else Err KeyErr
           end) ;;
    d' <- add_epoch d en (field_nn ekv edef "start_size") (field_nn ekv edef "end_size")
                    (field_nn ekv edef "size_function")
                    (jdefault (field ekv edef "selfing_rate") (JNum n0))
                    (jdefault (field ekv edef "cloning_rate") (JNum n0)) ;;
    Ok (d', S j).

  Definition estep_core (nE : nat) (d : deme) (j : nat) (fe ss es sf : option jv) (sr cr : jv)
    : res (deme * nat) :=
    en <- (match fe with
           | Some v => Ok v
           | None => if Nat.eqb (S j) nE then Ok (JNum n0) else Err KeyErr
           end) ;;
    d' <- add_epoch d en ss es sf sr cr ;;
    Ok (d', S j).

  Lemma estep_dict edef nE d j ekv :
    estep edef nE (d, j) (JDict ekv)
    = (check_allowed ekv epoch_fields ;;;
       estep_core nE d j (field ekv edef "end_time") (field_nn ekv edef "start_size")
                  (field_nn ekv edef "end_size") (field_nn ekv edef "size_function")
                  (jdefault (field ekv edef "selfing_rate") (JNum n0))
                  (jdefault (field ekv edef "cloning_rate") (JNum n0))).
  Proof. reflexivity. Qed.

  Lemma estep_cons edef nE d j ekv k v :
    In k epoch_fields ->
    estep edef nE (d, j) (JDict ((k, v) :: ekv))
    = (check_allowed ekv epoch_fields ;;;
       estep_core nE d j (field ((k, v) :: ekv) edef "end_time")
                  (field_nn ((k, v) :: ekv) edef "start_size")
                  (field_nn ((k, v) :: ekv) edef "end_size")
                  (field_nn ((k, v) :: ekv) edef "size_function")
                  (jdefault (field ((k, v) :: ekv) edef "selfing_rate") (JNum n0))
                  (jdefault (field ((k, v) :: ekv) edef "cloning_rate") (JNum n0))).
  Proof. intro H. rewrite estep_dict, check_allowed_cons by now apply mem_in'. reflexivity. Qed.

  Lemma estep_idx edef nE : forall es d j d' j',
    foldM (estep edef nE) es (d, j) = Ok (d', j') -> j' = (j + List.length es)%nat.
  Proof.
    induction es as [|e es IH]; intros d j d' j' H.
    - cbn in H. injection H as _ <-. cbn. lia.
    - cbn [foldM] in H. mbind H s1 H1. destruct s1 as [d1 j1].
      apply IH in H. subst j'.
      unfold estep in H1. mbind H1 ekv X1. mbind H1 u X2. mbind H1 en X3. mbind H1 d2 X4.
      injection H1 as _ <-. cbn [List.length]. lia.
  Qed.

  Lemma add_deme_last g name desc start anc props g1 :
    add_deme g name desc start anc props = Ok g1 ->
    exists d, rev (g_demes g1) = d :: rev (g_demes g) /\ d_epochs d = [].
  Proof.
    intro H. unfold add_deme in H.
    mbind H nmk Hk. mraise H Hcont. mbind H ancl Hancl. mbind H u1 Hfa.
    cbv zeta in H.
    mbind H startv Hstart. mraise H Hisnum. mraise H Hroot. mbind H u2 Hanc.
    mbind H nm Hnm. mbind H ds Hds. mbind H st Hst. mbind H u3 Hpos.
    mbind H an Han. mraise H Hnodup. mraise H Hmem. mbind H pr Hpr.
    mraise H Hsum. mbind H u4 Hprs. mraise H Hlen. injection H as <-.
    cbn [g_demes]. rewrite rev_unit. eexists. split; reflexivity.
  Qed.

  (* ---------------- epochs (demes without deme-local defaults) ---------------- *)
  Definition with_epochs (pre post : list (string * jv)) (es : list jv) : jv :=
    JDict (pre ++ ("epochs", JList es) :: post).

  Definition dict_check (l : list jv) : res unit :=
    forM_ (fun e => raise_if (negb (is_dict e)) TypeErr) l.

  Lemma resolve_deme_epochs ddef edef g pre post es es' :
    absent "epochs" pre -> absent "defaults" pre -> absent "defaults" post ->
    List.length es = List.length es' ->
    dict_check es = dict_check es' ->
    (forall d0, d_epochs d0 = [] ->
       foldM (estep edef (List.length es)) es (d0, 0%nat)
       = foldM (estep edef (List.length es)) es' (d0, 0%nat)) ->
    resolve_deme ddef edef g (with_epochs pre post es)
    = resolve_deme ddef edef g (with_epochs pre post es').
  Proof.
    intros Hep Hd1 Hd2 Hlen Hdict Hfold.
    unfold with_epochs.
    set (kv := pre ++ ("epochs", JList es) :: post).
    set (kv' := pre ++ ("epochs", JList es') :: post).
    assert (forall k, String.eqb k "epochs" = false -> assoc k kv = assoc k kv') as A.
    { intros k Hk. unfold kv, kv'. now rewrite !assoc_mid_ne. }
    assert (assoc "epochs" kv = Some (JList es)) as E by (apply assoc_mid_eq; exact Hep).
    assert (assoc "epochs" kv' = Some (JList es')) as E' by (apply assoc_mid_eq; exact Hep).
    assert (assoc "defaults" kv' = None) as D.
    { unfold kv'. rewrite assoc_mid_ne by reflexivity. rewrite assoc_app, Hd1. exact Hd2. }
    assert (check_allowed kv deme_fields = check_allowed kv' deme_fields) as C
        by apply check_allowed_mid.
    assert (forall k, String.eqb k "epochs" = false -> field kv ddef k = field kv' ddef k) as F.
    { intros k Hk. unfold field. now rewrite (A k Hk). }
    assert (forall k, String.eqb k "epochs" = false -> field_nn kv ddef k = field_nn kv' ddef k)
      as FN.
    { intros k Hk. unfold field_nn. now rewrite (F k Hk). }
    unfold resolve_deme, pop_object. cbn [dict_of bind].
    rewrite C, (A "name"), (F "description"), (FN "start_time"), (FN "ancestors"),
      (FN "proportions"), (A "defaults") by reflexivity.
    rewrite D, !E, !E'.
    cbn [bind check_allowed forM_ assoc dict_of]. rewrite merge_nil. cbn [list_of bind].
    fold (dict_check es). fold (dict_check es'). rewrite <- Hdict.
    bext. bext. apply bind_ext'. intros g1 Hg1. bext.
    destruct (dict_check es) as [[]|e]; cbn [bind]; [|reflexivity].
    rewrite <- Hlen. bext. apply bind_ext'. intros d0 Hd0.
    destruct (add_deme_last _ _ _ _ _ _ _ Hg1) as (d & Hr & He). rewrite Hr in Hd0.
    injection Hd0 as <-.
    apply (f_equal (fun m => dj <- m ;; Ok (set_last_deme g1 (fst dj)))).
    exact (Hfold d He).
  Qed.

  Lemma dict_check_app a b : dict_check (a ++ b) = (dict_check a ;;; dict_check b).
  Proof. apply forM_app. Qed.

  Theorem doc_epoch_last_end_time ddef edef g pre post es ekv :
    absent "epochs" pre -> absent "defaults" pre -> absent "defaults" post ->
    absent "end_time" ekv -> absent "end_time" edef ->
    resolve_deme ddef edef g (with_epochs pre post (es ++ [JDict ekv]))
    = resolve_deme ddef edef g (with_epochs pre post (es ++ [JDict (("end_time", JNum n0) :: ekv)])).
  Proof.
    intros Hep Hd1 Hd2 H1 H2. apply resolve_deme_epochs; auto.
    - now rewrite !app_length.
    - now rewrite !dict_check_app.
    - intros d0 _. rewrite !foldM_app. apply bind_ext'. intros [d j] Hf.
      apply estep_idx in Hf. cbn [foldM].
      apply (f_equal (fun m => bind m (fun s' => Ok s'))).
      rewrite (estep_dict _ _ _ _ ekv), estep_cons by (cbn; tauto). fsimp.
      rewrite (field_absent _ _ _ H1 H2). unfold estep_core.
      rewrite app_length. cbn [List.length]. subst j.
      rewrite Nat.add_1_r. cbn [Nat.add]. rewrite Nat.eqb_refl. reflexivity.
  Qed.

  Lemma estep_mid_ext edef nE es1 es2 x y s :
    (forall d j, estep edef nE (d, j) x = estep edef nE (d, j) y) ->
    foldM (estep edef nE) (es1 ++ x :: es2) s = foldM (estep edef nE) (es1 ++ y :: es2) s.
  Proof.
    intro H. apply foldM_ext. apply Forall2_app; [apply Forall2_refl'; reflexivity|].
    constructor; [|apply Forall2_refl'; reflexivity]. intros [d j]. apply H.
  Qed.

  Theorem doc_epoch_rate_default ddef edef g pre post es1 es2 ekv k :
    In k ["selfing_rate"; "cloning_rate"] ->
    absent "epochs" pre -> absent "defaults" pre -> absent "defaults" post ->
    absent k ekv -> absent k edef ->
    resolve_deme ddef edef g (with_epochs pre post (es1 ++ JDict ekv :: es2))
    = resolve_deme ddef edef g (with_epochs pre post (es1 ++ JDict ((k, JNum n0) :: ekv) :: es2)).
  Proof.
    intros Hk Hep Hd1 Hd2 H1 H2. apply resolve_deme_epochs; auto.
    - now rewrite !app_length.
    - now rewrite !dict_check_app.
    - intros d0 _. apply estep_mid_ext. intros d j.
      rewrite (estep_dict _ _ _ _ ekv).
      destruct Hk as [<-|[<-|[]]]; rewrite estep_cons by (cbn; tauto); fsimp;
        rewrite (field_absent _ _ _ H1 H2); reflexivity.
  Qed.

  (* a graph-level epoch default copied into an epoch that uses it *)
  Theorem doc_epoch_default_copied ddef edef g pre post es1 es2 ekv k v :
    In k epoch_fields ->
    absent "epochs" pre -> absent "defaults" pre -> absent "defaults" post ->
    absent k ekv -> assoc k edef = Some v ->
    resolve_deme ddef edef g (with_epochs pre post (es1 ++ JDict ekv :: es2))
    = resolve_deme ddef edef g (with_epochs pre post (es1 ++ JDict ((k, v) :: ekv) :: es2)).
  Proof.
    intros Hk Hep Hd1 Hd2 H1 H2. apply resolve_deme_epochs; auto.
    - now rewrite !app_length.
    - now rewrite !dict_check_app.
    - intros d0 _. apply estep_mid_ext. intros d j.
      rewrite (estep_dict _ _ _ _ ekv), estep_cons by exact Hk.
      now rewrite !(field_copy _ _ _ _ _ H1 H2), !(field_nn_copy _ _ _ _ _ H1 H2).
  Qed.

  (* first epoch: one size given, the other omitted *)
  Theorem doc_first_epoch_end_size ddef edef g pre post es2 ekv ss :
    absent "epochs" pre -> absent "defaults" pre -> absent "defaults" post ->
    absent "end_size" ekv -> absent "end_size" edef ->
    field_nn ekv edef "start_size" = Some ss ->
    resolve_deme ddef edef g (with_epochs pre post (JDict ekv :: es2))
    = resolve_deme ddef edef g (with_epochs pre post (JDict (("end_size", ss) :: ekv) :: es2)).
  Proof.
    intros Hep Hd1 Hd2 H1 H2 H3. apply resolve_deme_epochs; auto.
    intros d0 He. cbn [foldM].
    apply (f_equal (fun m => bind m (fun s' => foldM _ es2 s'))).
    rewrite (estep_dict _ _ _ _ ekv), estep_cons by (cbn; tauto). fsimp.
    rewrite (field_nn_absent _ _ _ H1 H2), H3. unfold estep_core. bext. bext.
    rewrite infer_first_end_size by exact He. reflexivity.
  Qed.

  Theorem doc_first_epoch_start_size ddef edef g pre post es2 ekv es :
    absent "epochs" pre -> absent "defaults" pre -> absent "defaults" post ->
    absent "start_size" ekv -> absent "start_size" edef ->
    field_nn ekv edef "end_size" = Some es ->
    resolve_deme ddef edef g (with_epochs pre post (JDict ekv :: es2))
    = resolve_deme ddef edef g (with_epochs pre post (JDict (("start_size", es) :: ekv) :: es2)).
  Proof.
    intros Hep Hd1 Hd2 H1 H2 H3. apply resolve_deme_epochs; auto.
    intros d0 He. cbn [foldM].
    apply (f_equal (fun m => bind m (fun s' => foldM _ es2 s'))).
    rewrite (estep_dict _ _ _ _ ekv), estep_cons by (cbn; tauto). fsimp.
    rewrite (field_nn_absent _ _ _ H1 H2), H3. unfold estep_core. bext. bext.
    rewrite infer_first_start_size by exact He. reflexivity.
  Qed.

  (* ---------------- migrations ---------------- *)
  Theorem doc_migration_bounds mdef g kv s d lo hi :
    field_nn kv mdef "demes" = None ->
    field_nn kv mdef "source" = Some (JStr s) -> field_nn kv mdef "dest" = Some (JStr d) ->
    absent "start_time" kv -> absent "start_time" mdef ->
    absent "end_time" kv -> absent "end_time" mdef ->
    time_intersection g s d None = Ok (lo, hi) -> nle lo hi = true ->
    resolve_migration mdef g (JDict kv)
    = resolve_migration mdef g (JDict (("start_time", JNum hi) :: ("end_time", JNum lo) :: kv)).
  Proof.
    intros Hdm Hs Hd S1 S2 E1 E2 Hti Hle.
    unfold resolve_migration. cbn [dict_of bind].
    rewrite !check_allowed_cons by reflexivity. fsimp.
    rewrite Hdm, Hs, Hd, (field_nn_absent _ _ _ S1 S2), (field_nn_absent _ _ _ E1 E2).
    bext. bext. now apply infer_mig_bounds_eq.
  Qed.

  Lemma assoc_remove_ne k k0 kv :
    String.eqb k k0 = false -> assoc k (remove_key k0 kv) = assoc k kv.
  Proof.
    intro H. unfold remove_key. induction kv as [|[k' v] kv IH]; [reflexivity|].
    cbn [filter fst]. destruct (String.eqb k' k0) eqn:E; cbn [negb].
    - apply String.eqb_eq in E. subst k'. now rewrite assoc_cons_ne.
    - cbn [assoc]. now rewrite IH.
  Qed.
  Lemma assoc_remove_eq k0 kv : assoc k0 (remove_key k0 kv) = None.
  Proof.
    unfold remove_key. induction kv as [|[k' v] kv IH]; [reflexivity|].
    cbn [filter fst]. destruct (String.eqb k' k0) eqn:E; cbn [negb]; [exact IH|].
    rewrite assoc_cons_ne; [exact IH|]. now rewrite String.eqb_sym.
  Qed.
  Lemma check_allowed_remove k0 kv al :
    mem k0 al = true -> check_allowed (remove_key k0 kv) al = check_allowed kv al.
  Proof.
    intro H. unfold remove_key, check_allowed. induction kv as [|[k' v] kv IH]; [reflexivity|].
    cbn [filter fst]. destruct (String.eqb k' k0) eqn:E; cbn [negb forM_ fst].
    - apply String.eqb_eq in E. subst k'. rewrite H. exact IH.
    - now rewrite IH.
  Qed.

  (* a symmetric migration between two demes is the two asymmetric documents, in this order *)
  (* ORIGINAL STATEMENT (false):
       Theorem doc_symmetric_pair mdef g kv a b :
         assoc "demes" kv = Some (JList [a; b]) ->
         absent "source" kv -> absent "dest" kv ->
         absent "demes" mdef -> absent "source" mdef -> absent "dest" mdef ->
         resolve_migration mdef g (JDict kv)
         = (g1 <- resolve_migration mdef g (JDict (("source", a) :: ("dest", b) :: remove_key "demes" kv)) ;;
            resolve_migration mdef g1 (JDict (("source", b) :: ("dest", a) :: remove_key "demes" kv))).
     Counter-example (a = JNull): kv = [("demes", [null, "x"]); ("rate", 0)], mdef = []: the
     symmetric form reaches add_asym and fails with ValueErr (null is not a deme), whereas in
     the asymmetric document "source": null counts as "not given" (field_nn) and the run fails
     with KeyErr; see [doc_symmetric_pair_orig_false] below.  Fixed by the hypotheses
     a <> JNull, b <> JNull (true of every accepted document: deme names are strings); the
     outright equation is kept. *)
  Theorem doc_symmetric_pair mdef g kv a b :
    a <> JNull -> b <> JNull ->
    assoc "demes" kv = Some (JList [a; b]) ->
    absent "source" kv -> absent "dest" kv ->
    absent "demes" mdef -> absent "source" mdef -> absent "dest" mdef ->
    resolve_migration mdef g (JDict kv)
    = (g1 <- resolve_migration mdef g (JDict (("source", a) :: ("dest", b) :: remove_key "demes" kv)) ;;
       resolve_migration mdef g1 (JDict (("source", b) :: ("dest", a) :: remove_key "demes" kv))).
  Proof.
    intros Na Nb Hdm Hs Hd Mdm Ms Md.
    set (kv0 := remove_key "demes" kv).
    assert (forall k, String.eqb k "demes" = false -> field kv0 mdef k = field kv mdef k) as F.
    { intros k Hk. unfold field, kv0. now rewrite assoc_remove_ne. }
    assert (forall k, String.eqb k "demes" = false -> field_nn kv0 mdef k = field_nn kv mdef k)
      as FN.
    { intros k Hk. unfold field_nn. now rewrite F. }
    assert (field_nn kv0 mdef "demes" = None) as D0.
    { apply field_nn_absent; [apply assoc_remove_eq|exact Mdm]. }
    assert (field_nn kv mdef "demes" = Some (JList [a; b])) as D1.
    { unfold field_nn, field. now rewrite Hdm. }
    unfold resolve_migration. cbn [dict_of bind].
    assert (check_allowed kv0 migration_fields = check_allowed kv migration_fields) as CA
        by now apply check_allowed_remove.
    rewrite !check_allowed_cons by reflexivity. rewrite !CA. fsimp.
    rewrite D0, D1, (F "rate"), (FN "start_time"), (FN "end_time") by reflexivity.
    rewrite (field_nn_absent _ _ _ Hs Ms), (field_nn_absent _ _ _ Hd Md).
    destruct (check_allowed kv migration_fields) as [[]|e]; cbn [bind]; [|reflexivity].
    destruct (field kv mdef "rate") as [rate|]; cbn [bind]; [|reflexivity].
    unfold add_sym. change (perms2 [a; b]) with [(a, b); (b, a)].
    cbn [List.length Nat.ltb Nat.leb raise_if bind foldM fst snd].
    bext. destruct (add_asym _ b a rate _ _); reflexivity.
  Qed.

  Theorem doc_migration_default_copied mdef g kv k v :
    In k migration_fields -> absent k kv -> assoc k mdef = Some v ->
    resolve_migration mdef g (JDict kv) = resolve_migration mdef g (JDict ((k, v) :: kv)).
  Proof.
    intros Hk H1 H2. unfold resolve_migration. cbn [dict_of bind].
    rewrite check_allowed_cons by now apply mem_in'.
    now rewrite !(field_copy _ _ _ _ _ H1 H2), !(field_nn_copy _ _ _ _ _ H1 H2).
  Qed.

  (* ---------------- pulses ---------------- *)
  Theorem doc_pulse_default_copied pdef g kv k v :
    In k pulse_fields -> absent k kv -> assoc k pdef = Some v ->
    resolve_pulse pdef g (JDict kv) = resolve_pulse pdef g (JDict ((k, v) :: kv)).
  Proof.
    intros Hk H1 H2. unfold resolve_pulse. cbn [dict_of bind].
    rewrite check_allowed_cons by now apply mem_in'.
    now rewrite !(field_copy _ _ _ _ _ H1 H2).
  Qed.

  (* the ORIGINAL doc_symmetric_pair (without a <> JNull, b <> JNull) is false *)
  Lemma doc_symmetric_pair_orig_false :
    exists mdef g kv a b,
      assoc "demes" kv = Some (JList [a; b]) /\
      absent "source" kv /\ absent "dest" kv /\
      absent "demes" mdef /\ absent "source" mdef /\ absent "dest" mdef /\
      resolve_migration mdef g (JDict kv)
      <> (g1 <- resolve_migration mdef g (JDict (("source", a) :: ("dest", b) :: remove_key "demes" kv)) ;;
          resolve_migration mdef g1 (JDict (("source", b) :: ("dest", a) :: remove_key "demes" kv))).
  Proof.
    exists [], (mkGraph "" "" n1 [] JNull [] [] [] []),
      [("demes", JList [JNull; JStr "x"]); ("rate", JNum n0)], JNull, (JStr "x").
    repeat (split; [reflexivity|]). cbn. discriminate.
  Qed.

  (* ---------------- top level ---------------- *)
  Ltac asimp :=
    repeat first [ rewrite assoc_cons_eq | rewrite assoc_cons_ne by reflexivity ].

  Theorem doc_top_optional kv k v :
    In (k, v) [("description", JStr ""); ("doi", JList []); ("metadata", JDict []);
               ("migrations", JList []); ("pulses", JList []); ("defaults", JDict [])] ->
    absent k kv ->
    fromdict (JDict kv) = fromdict (JDict ((k, v) :: kv)).
  Proof.
    intros Hin Ha. unfold absent in Ha. unfold fromdict. cbn [dict_of bind].
    unfold pop_object at 1 5. unfold dict_list.
    cbn [In] in Hin. decompose [or] Hin; clear Hin; try contradiction;
      match goal with E : (_, _) = (_, _) |- _ => injection E as <- <- end;
      rewrite check_allowed_cons by reflexivity; asimp; rewrite Ha;
      cbn [jdefault dict_of list_of bind forM_]; reflexivity.
  Qed.

  Lemma make_graph_gt desc doi meta :
    make_graph desc (JStr "generations") doi JNull meta
    = make_graph desc (JStr "generations") doi (JNum n1) meta.
  Proof.
    assert (nisnan n1 = false) as O1 by exact ok_1.
    assert (nle n1 n0 = false) as P1 by nord.
    assert (nisinf n1 = false) as F1 by nord.
    unfold make_graph. bext. cbn [str_of bind int_or_float]. bext.
    unfold positive, finite. rewrite O1. cbn [bind]. rewrite P1, F1. cbn [raise_if bind].
    reflexivity.
  Qed.

  Theorem doc_top_generation_time kv :
    assoc "time_units" kv = Some (JStr "generations") -> absent "generation_time" kv ->
    fromdict (JDict kv) = fromdict (JDict (("generation_time", JNum n1) :: kv)).
  Proof.
    intros Hu Ha. unfold absent in Ha. unfold fromdict. cbn [dict_of bind].
    unfold pop_object at 1 5. unfold dict_list.
    rewrite check_allowed_cons by reflexivity. asimp. rewrite Ha, Hu.
    cbn [jdefault bind]. rewrite make_graph_gt. reflexivity.
  Qed.

  (* whole-document congruence: resolution looks at a deme only through resolve_deme, so two
     documents whose deme lists resolve step by step to the same graphs resolve to the same
     result; likewise for migrations and pulses.  (This is what lifts the theorems above to
     Graph.fromdict.) *)
  Theorem foldM_step_ext {A} (f : graph -> A -> res graph) (l l' : list A) g :
    Forall2 (fun x y => forall h, f h x = f h y) l l' -> foldM f l g = foldM f l' g.
  Proof. apply foldM_ext. Qed.

  Lemma Forall2_imp' {A B} (R R' : A -> B -> Prop) l l' :
    (forall x y, R x y -> R' x y) -> Forall2 R l l' -> Forall2 R' l l'.
  Proof. intros H F. induction F; constructor; auto. Qed.

  Lemma dict_check_ext l l' :
    Forall2 (fun x y => is_dict x = is_dict y) l l' -> dict_check l = dict_check l'.
  Proof.
    induction 1 as [|x y l l' Hxy _ IH]; [reflexivity|].
    unfold dict_check in *. cbn [forM_]. now rewrite Hxy, IH.
  Qed.

  Theorem doc_fromdict_demes_ext kv kv' dl dl' :
    (forall k, k <> "demes" -> assoc k kv = assoc k kv') ->
    map fst kv = map fst kv' ->
    assoc "demes" kv = Some (JList dl) -> assoc "demes" kv' = Some (JList dl') ->
    Forall2 (fun x y => is_dict x = is_dict y /\
                        forall ddef edef h, resolve_deme ddef edef h x = resolve_deme ddef edef h y) dl dl' ->
    fromdict (JDict kv) = fromdict (JDict kv').
  Proof.
    intros Hk Hfst Hd Hd' F.
    assert (dict_check dl = dict_check dl') as Hdc.
    { apply dict_check_ext. eapply Forall2_imp'; [|exact F]. cbv beta. tauto. }
    assert (List.length dl = List.length dl') as Hlen by exact (Forall2_length' _ _ _ F).
    unfold fromdict. cbn [dict_of bind]. rewrite (check_allowed_fst _ _ _ Hfst).
    unfold pop_object at 1 6. unfold dict_list.
    rewrite (Hk "defaults"), (Hk "time_units"), (Hk "description"), (Hk "doi"),
      (Hk "generation_time"), (Hk "metadata"), (Hk "migrations"), (Hk "pulses") by discriminate.
    rewrite Hd, Hd'. cbn [list_of bind].
    fold (dict_check dl). fold (dict_check dl'). rewrite <- Hdc.
    do 12 bext.
    destruct (dict_check dl) as [[]|e]; cbn [bind]; [|reflexivity].
    rewrite <- Hlen. bext.
    rewrite (foldM_step_ext _ dl dl'); [reflexivity|].
    eapply Forall2_imp'; [|exact F]. cbv beta. intros x y [_ Hxy] h. apply Hxy.
  Qed.
End DocRules.

Print Assumptions doc_deme_start_root.
Print Assumptions doc_deme_start_single.
Print Assumptions doc_deme_props_single.
Print Assumptions doc_deme_props_none.
Print Assumptions doc_deme_ancestors_none.
Print Assumptions doc_deme_description.
Print Assumptions doc_deme_default_copied.
Print Assumptions doc_epoch_last_end_time.
Print Assumptions doc_epoch_rate_default.
Print Assumptions doc_epoch_default_copied.
Print Assumptions doc_first_epoch_end_size.
Print Assumptions doc_first_epoch_start_size.
Print Assumptions doc_migration_bounds.
Print Assumptions doc_symmetric_pair.
Print Assumptions doc_symmetric_pair_orig_false.
Print Assumptions doc_migration_default_copied.
Print Assumptions doc_pulse_default_copied.
Print Assumptions doc_top_optional.
Print Assumptions doc_top_generation_time.
Print Assumptions foldM_step_ext.
Print Assumptions doc_fromdict_demes_ext.
