(* C11 / C01: conversion to generations preserves validity exactly when dividing the graph's times
   by the generation time behaves like division of real numbers on them. *)
From Coq Require Import Bool List String QArith Lqa Arith Lia.
From Demes Require Import Base.Num Base.Py Model.MDM Model.InGen Spec.Valid Proofs.InGenProofs Proofs.MigMatProofs.
Import ListNotations.
Local Open Scope string_scope.
Local Open Scope list_scope.

Section InGenValid.
  Context {N : NumOps} {L : NumLaws N}.

  (* what "division by gt is exact enough" means, on the times of one graph: strictly monotone
     (hence injective: two distinct times stay distinct), finite stays finite, infinity stays
     infinity, zero stays zero, positive stays positive.  On binary64 this is exactly what fails in
     the known findings F12a (not injective), F12b (overflow), F12c (underflow to 0). *)
  Record DivOK (gt : num) (times : list num) : Prop := {
    dk_ok : forall x, In x times -> ok x -> ok (ndiv x gt);
    dk_mono : forall x y, In x times -> In y times -> ok x -> ok y ->
                          rk x < rk y -> rk (ndiv x gt) < rk (ndiv y gt);
    dk_eq : forall x y, In x times -> In y times -> ok x -> ok y ->
                        rk x == rk y -> rk (ndiv x gt) == rk (ndiv y gt);
    dk_fin : forall x, In x times -> nisinf x = false -> nisinf (ndiv x gt) = false;
    dk_inf : forall x, In x times -> nisinf x = true -> nlt n0 x = true ->
                       nisinf (ndiv x gt) = true /\ nlt n0 (ndiv x gt) = true;
    dk_zero : forall x, In x times -> neqb x n0 = true -> neqb (ndiv x gt) n0 = true }.

  (* the times of a graph, plus 0 *)
  Definition all_times (g : graph) : list num := n0 :: graph_times g.

  (* ---------- generic list lemmas ---------- *)
  Lemma F2_in_l {A B} (P : A -> B -> Prop) l l' a :
    Forall2 P l l' -> In a l -> exists b, In b l' /\ P a b.
  Proof.
    induction 1 as [|x y l l' Hxy F IH]; intros Hin; [contradiction|].
    destruct Hin as [->|Hin]; [exists y; split; [left; reflexivity|assumption]|].
    destruct (IH Hin) as (b & Hb & Hp). exists b; split; [right; assumption|assumption].
  Qed.

  Lemma F2_in_r {A B} (P : A -> B -> Prop) l l' b :
    Forall2 P l l' -> In b l' -> exists a, In a l /\ P a b.
  Proof.
    induction 1 as [|x y l l' Hxy F IH]; intros Hin; [contradiction|].
    destruct Hin as [->|Hin]; [exists x; split; [left; reflexivity|assumption]|].
    destruct (IH Hin) as (a & Ha & Hp). exists a; split; [right; assumption|assumption].
  Qed.

  Lemma F2_nth_r {A B} (P : A -> B -> Prop) l l' :
    Forall2 P l l' -> forall i b, nth_error l' i = Some b ->
    exists a, nth_error l i = Some a /\ P a b.
  Proof.
    induction 1 as [|x y l l' Hxy F IH]; intros i b Hi.
    - destruct i; discriminate.
    - destruct i as [|i]; cbn in *.
      + inversion Hi; subst. exists x; split; [reflexivity|assumption].
      + apply IH; assumption.
  Qed.

  Lemma F2_rev {A B} (P : A -> B -> Prop) l l' :
    Forall2 P l l' -> Forall2 P (rev l) (rev l').
  Proof.
    induction 1 as [|x y l l' Hxy F IH]; cbn; [constructor|].
    apply Forall2_app; [assumption|]. constructor; [assumption|constructor].
  Qed.

  Lemma F2_nil_iff {A B} (P : A -> B -> Prop) l l' :
    Forall2 P l l' -> (l = [] <-> l' = []).
  Proof. intros [|]; split; intro; try reflexivity; discriminate. Qed.

  Lemma F2_map_eq {A B C} (P : A -> B -> Prop) (u : A -> C) (v : B -> C) l l' :
    Forall2 P l l' -> (forall a b, P a b -> v b = u a) -> map v l' = map u l.
  Proof.
    intros F H. induction F as [|x y l l' Hxy F IH]; cbn; [reflexivity|].
    rewrite IH, (H _ _ Hxy). reflexivity.
  Qed.

  (* the largest (by rank) element of a list satisfying a decidable property *)
  Lemma max_cand (P : num -> Prop) (C : list num) :
    (forall c, P c \/ ~ P c) ->
    (exists c, In c C /\ P c) ->
    exists e, In e C /\ P e /\ forall c, In c C -> P c -> rk c <= rk e.
  Proof.
    intros Pdec. induction C as [|x C IH]; intros (c & Hc & Pc); [contradiction|].
    assert (Hcase : (exists c, In c C /\ P c) \/ ~ (exists c, In c C /\ P c)).
    { clear IH Hc Pc c. induction C as [|y C IHC].
      - right. intros (c & [] & _).
      - destruct (Pdec y) as [Py|Ny].
        + left. exists y. split; [left; reflexivity|assumption].
        + destruct IHC as [(c & Hc & Pc)|Hn].
          * left. exists c. split; [right; assumption|assumption].
          * right. intros (c & [->|Hc] & Pc); [contradiction|].
            apply Hn. exists c. split; assumption. }
    destruct Hcase as [Hex|Hno].
    - destruct (IH Hex) as (e & He & Pe & Hmax).
      destruct (Pdec x) as [Px|Nx].
      + destruct (Qlt_le_dec (rk e) (rk x)) as [Hlt|Hle].
        * exists x. split; [left; reflexivity|]. split; [assumption|].
          intros c' [->|Hc'] Pc'; [lra|]. specialize (Hmax c' Hc' Pc'). lra.
        * exists e. split; [right; assumption|]. split; [assumption|].
          intros c' [<-|Hc'] Pc'; [assumption|]. apply Hmax; assumption.
      + exists e. split; [right; assumption|]. split; [assumption|].
        intros c' [<-|Hc'] Pc'; [contradiction|]. apply Hmax; assumption.
    - destruct Hc as [->|Hc]; [|exfalso; apply Hno; exists c; split; assumption].
      exists c. split; [left; reflexivity|]. split; [assumption|].
      intros c' [<-|Hc'] Pc'; [lra|]. exfalso. apply Hno. exists c'. split; assumption.
  Qed.

  (* ---------- the times of a valid graph ---------- *)
  Lemma valid_demes_in earlier rest d :
    ValidDemes earlier rest -> In d rest -> exists ea, ValidDeme ea d.
  Proof.
    revert earlier. induction rest as [|x rest IH]; intros earlier H Hin; [contradiction|].
    cbn in H. destruct H as [Hx Hr].
    destruct Hin as [->|Hin]; [eexists; eassumption|]. eapply IH; eassumption.
  Qed.

  Lemma in_dt_times g d x : In d (g_demes g) -> In x (deme_times d) -> In x (all_times g).
  Proof.
    intros Hd Hx. right. unfold graph_times. apply in_or_app. left.
    apply in_flat_map. exists d. split; assumption.
  Qed.

  Lemma epoch_in_dt d e :
    In e (d_epochs d) -> In (e_start e) (deme_times d) /\ In (e_end e) (deme_times d).
  Proof.
    intro He. unfold deme_times. split; right; apply in_flat_map; exists e; cbn; auto.
  Qed.

  Lemma dend_in d x : d_end d = Ok x -> exists e, In e (d_epochs d) /\ x = e_end e.
  Proof.
    unfold d_end. destruct (rev (d_epochs d)) as [|e l] eqn:E; intro H; [discriminate|].
    inversion H; subst. exists e. split; [|reflexivity].
    apply in_rev. rewrite E. left; reflexivity.
  Qed.

  Lemma in_mig_times g m :
    In m (g_migs g) -> In (m_start m) (all_times g) /\ In (m_end m) (all_times g).
  Proof.
    intro Hm. unfold all_times, graph_times.
    split; right; apply in_or_app; right; apply in_or_app; left;
      apply in_flat_map; exists m; cbn; auto.
  Qed.

  Lemma in_pulse_times g p : In p (g_pulses g) -> In (p_time p) (all_times g).
  Proof.
    intro Hp. right. unfold graph_times. apply in_or_app; right; apply in_or_app; right.
    apply in_map. assumption.
  Qed.

  Lemma times_ok g : Valid g -> forall x, In x (all_times g) -> ok x /\ nle n0 x = true.
  Proof.
    intros HV x [<-|Hx].
    - split; [apply ok_0|]. nord.
    - unfold graph_times in Hx. apply in_app_or in Hx. destruct Hx as [Hx|Hx].
      + apply in_flat_map in Hx. destruct Hx as (d & Hd & Hx).
        destruct (valid_demes_in _ _ _ (v_demes _ HV) Hd) as (ea & Vd).
        destruct Hx as [<-|Hx].
        * pose proof (vd_start _ _ Vd) as H. split; [apply lt_true in H; tauto|]. nord.
        * apply in_flat_map in Hx. destruct Hx as (e & He & Hx).
          pose proof (vd_epochs _ _ Vd e He) as Ve.
          pose proof (ve_end_nonneg _ Ve) as H1. pose proof (ve_order _ Ve) as H2.
          destruct Hx as [<-|[<-|[]]].
          -- split; [apply lt_true in H2; tauto|]. nord.
          -- split; [apply lt_true in H2; tauto|]. assumption.
      + apply in_app_or in Hx. destruct Hx as [Hx|Hx].
        * apply in_flat_map in Hx. destruct Hx as (m & Hm & Hx).
          pose proof (v_migs _ HV m Hm) as Vm.
          pose proof (vm_end_nonneg _ _ Vm) as H1. pose proof (vm_order _ _ Vm) as H2.
          destruct Hx as [<-|[<-|[]]].
          -- split; [apply lt_true in H2; tauto|]. nord.
          -- split; [apply lt_true in H2; tauto|]. assumption.
        * apply in_map_iff in Hx. destruct Hx as (p & <- & Hp).
          pose proof (vp_time _ _ (v_pulses _ HV p Hp)) as [H1 H2].
          split; [apply lt_true in H1; tauto|]. nord.
  Qed.

  (* ---------- transport of comparisons along x |-> x / gt ---------- *)
  Section G.
    Variable g : graph.
    Hypothesis HV : Valid g.
    Hypothesis HD : DivOK (g_gt g) (all_times g).

    Local Notation T := (all_times g).
    Local Notation F x := (ndiv x (g_gt g)).
    Local Notation R := (fun x y : num => y = ndiv x (g_gt g)).

    Lemma t_ok x : In x T -> ok x.
    Proof. intro H. apply (times_ok g HV x H). Qed.
    Lemma t_nonneg x : In x T -> nle n0 x = true.
    Proof. intro H. apply (times_ok g HV x H). Qed.
    Lemma t_0 : In n0 T.
    Proof. left; reflexivity. Qed.

    Lemma r_ok x : In x T -> ok (F x).
    Proof. intro Hx. apply (dk_ok _ _ HD); [assumption|apply t_ok; assumption]. Qed.

    Lemma r_lt x y : In x T -> In y T -> (rk (F x) < rk (F y) <-> rk x < rk y).
    Proof.
      intros Hx Hy. pose proof (t_ok x Hx) as Ox. pose proof (t_ok y Hy) as Oy.
      split; intro H.
      - destruct (Q_dec (rk x) (rk y)) as [[Hl|Hg]|He]; [assumption| |].
        + pose proof (dk_mono _ _ HD y x Hy Hx Oy Ox Hg). lra.
        + pose proof (dk_eq _ _ HD x y Hx Hy Ox Oy He). lra.
      - apply (dk_mono _ _ HD); assumption.
    Qed.

    Lemma r_le x y : In x T -> In y T -> (rk (F x) <= rk (F y) <-> rk x <= rk y).
    Proof.
      intros Hx Hy. destruct (r_lt y x Hy Hx) as [A B]. split; intro H.
      - destruct (Qlt_le_dec (rk y) (rk x)) as [Hl|Hle]; [apply B in Hl; lra|assumption].
      - destruct (Qlt_le_dec (rk (F y)) (rk (F x))) as [Hl|Hle]; [apply A in Hl; lra|assumption].
    Qed.

    Lemma r_eq x y : In x T -> In y T -> (rk (F x) == rk (F y) <-> rk x == rk y).
    Proof.
      intros Hx Hy. split; intro H.
      - assert (rk x <= rk y) by (apply r_le; try assumption; lra).
        assert (rk y <= rk x) by (apply r_le; try assumption; lra). lra.
      - apply (dk_eq _ _ HD); try assumption; apply t_ok; assumption.
    Qed.

    Lemma r_0 : rk (F n0) == 0.
    Proof.
      assert (H : neqb n0 n0 = true) by (apply eq_refl_ok, ok_0).
      apply (dk_zero _ _ HD _ t_0) in H. apply eq_true in H.
      destruct H as (_ & _ & H). pose proof rk_0. lra.
    Qed.

    Lemma b_lt x y : In x T -> In y T -> nlt (F x) (F y) = nlt x y.
    Proof.
      intros Hx Hy. apply eq_true_iff_eq.
      rewrite (lt_iff (F x) (F y)) by (apply r_ok; assumption).
      rewrite (lt_iff x y) by (apply t_ok; assumption).
      apply r_lt; assumption.
    Qed.

    Lemma b_le x y : In x T -> In y T -> nle (F x) (F y) = nle x y.
    Proof.
      intros Hx Hy. apply eq_true_iff_eq.
      rewrite (le_iff (F x) (F y)) by (apply r_ok; assumption).
      rewrite (le_iff x y) by (apply t_ok; assumption).
      apply r_le; assumption.
    Qed.

    Lemma b_eq x y : In x T -> In y T -> neqb (F x) (F y) = neqb x y.
    Proof.
      intros Hx Hy. apply eq_true_iff_eq.
      rewrite (eq_iff (F x) (F y)) by (apply r_ok; assumption).
      rewrite (eq_iff x y) by (apply t_ok; assumption).
      apply r_eq; assumption.
    Qed.

    Lemma b_pos x : In x T -> nlt n0 (F x) = nlt n0 x.
    Proof.
      intro Hx. rewrite <- (b_lt n0 x t_0 Hx). apply eq_true_iff_eq.
      rewrite (lt_iff n0 (F x)) by (try apply r_ok; auto using ok_0).
      rewrite (lt_iff (F n0) (F x)) by (apply r_ok; auto using t_0).
      pose proof r_0. pose proof rk_0. split; intro; lra.
    Qed.

    Lemma b_nonneg x : In x T -> nle n0 (F x) = true.
    Proof.
      intro Hx. pose proof (t_nonneg x Hx) as H. rewrite <- (b_le n0 x t_0 Hx) in H.
      apply le_true in H. destruct H as (_ & O & H).
      apply le_iff; [apply ok_0|assumption|]. pose proof r_0. pose proof rk_0. lra.
    Qed.

    Lemma b_inf x : In x T -> nisinf (F x) = nisinf x.
    Proof.
      intro Hx. pose proof (t_ok x Hx) as Ox. pose proof (t_nonneg x Hx) as Nx.
      destruct (nisinf x) eqn:E.
      - apply (dk_inf _ _ HD); [assumption|assumption|]. nord.
      - apply (dk_fin _ _ HD); assumption.
    Qed.

    (* ---------- demes ---------- *)
    Lemma in_dstart d : In d (g_demes g) -> In (d_start d) T.
    Proof. intro Hd. apply (in_dt_times g d); [assumption|left; reflexivity]. Qed.

    Lemma in_epoch d e :
      In d (g_demes g) -> In e (d_epochs d) -> In (e_start e) T /\ In (e_end e) T.
    Proof.
      intros Hd He. destruct (epoch_in_dt d e He).
      split; apply (in_dt_times g d); assumption.
    Qed.

    Lemma in_dend d x : In d (g_demes g) -> d_end d = Ok x -> In x T.
    Proof.
      intros Hd Hx. apply dend_in in Hx. destruct Hx as (e & He & ->).
      apply (in_epoch d e); assumption.
    Qed.

    Lemma dend_rel a b x : DemeRel R a b -> d_end a = Ok x -> d_end b = Ok (F x).
    Proof.
      intros (_ & _ & _ & _ & _ & HE) H. unfold d_end in *. apply F2_rev in HE.
      destruct (rev (d_epochs a)) as [|e l] eqn:Ea; [discriminate|].
      inversion HE as [|e0 e' l0 l' He Hl E1 E2]; subst. inversion H; subst.
      destruct He as (_ & He & _). rewrite He. reflexivity.
    Qed.

    Lemma epoch_transport e e' :
      In (e_start e) T -> In (e_end e) T -> EpochRel R e e' -> ValidEpoch e -> ValidEpoch e'.
    Proof.
      intros Hs He (E1 & E2 & E3 & E4 & E5 & E6 & E7) [V1 V2 V3 V4 V5 V6 V7 V8 V9 V10].
      constructor; rewrite ?E1, ?E2, ?E3, ?E4, ?E5, ?E6, ?E7; try assumption.
      - apply b_nonneg; assumption.
      - rewrite b_inf; assumption.
      - rewrite b_lt; assumption.
      - rewrite b_inf by assumption. assumption.
    Qed.

    Lemma chain_transport es es' :
      Forall2 (EpochRel R) es es' ->
      forall s, In s T -> (forall e, In e es -> In (e_start e) T /\ In (e_end e) T) ->
      Chain s es -> Chain (F s) es'.
    Proof.
      induction 1 as [|e e' es es' He F2 IH]; intros s Hs Hin Hc; cbn in *; [exact I|].
      destruct Hc as [Hc1 Hc2]. destruct (Hin e (or_introl eq_refl)) as [Is Ie].
      destruct He as (E1 & E2 & _). rewrite E1, E2. split.
      - rewrite b_eq; assumption.
      - apply IH; [assumption| |assumption]. intros x Hx. apply Hin. right; assumption.
    Qed.

    Lemma alive_transport a a' t :
      In a (g_demes g) -> In t T -> DemeRel R a a' -> Alive a t -> Alive a' (F t).
    Proof.
      intros Ha Ht HR (ea & He & H1 & H2). exists (F ea).
      pose proof (in_dend a ea Ha He) as Iea. pose proof (in_dstart a Ha) as Is.
      split; [apply (dend_rel a a' ea HR He)|].
      destruct HR as (_ & _ & E & _). rewrite E.
      rewrite b_lt, b_le by assumption. split; assumption.
    Qed.

    Lemma deme_transport earlier earlier' d d' :
      (forall a, In a earlier -> In a (g_demes g)) -> In d (g_demes g) ->
      Forall2 (DemeRel R) earlier earlier' -> DemeRel R d d' ->
      ValidDeme earlier d -> ValidDeme earlier' d'.
    Proof.
      intros Hea Hd FE HR V. pose proof HR as (E1 & E2 & E3 & E4 & E5 & E6).
      pose proof (in_dstart d Hd) as Is.
      assert (Hn : map d_name earlier' = map d_name earlier).
      { apply (F2_map_eq _ _ _ _ _ FE). intros a b Hab. apply Hab. }
      constructor; rewrite ?E1, ?E3, ?E4, ?E5, ?Hn;
        try solve [destruct V; assumption].
      - rewrite b_pos by assumption. apply V.
      - intros a Ha. destruct (vd_anc _ _ V a Ha) as (ad & Iad & Nad & Al).
        destruct (F2_in_l _ _ _ _ FE Iad) as (ad' & Iad' & Rad).
        exists ad'. split; [assumption|]. split; [destruct Rad as (-> & _); assumption|].
        apply (alive_transport ad ad'); auto.
      - rewrite b_inf by assumption. apply V.
      - intro H. apply (vd_epochs_ne _ _ V). apply (F2_nil_iff _ _ _ E6). assumption.
      - apply (chain_transport _ _ E6); [assumption| |apply V].
        intros e He. apply (in_epoch d e); assumption.
      - intros e' He'. destruct (F2_in_r _ _ _ _ E6 He') as (e & He & Re).
        destruct (in_epoch d e Hd He). apply (epoch_transport e e'); try assumption.
        apply V; assumption.
    Qed.

    Lemma demes_transport rest : forall rest' earlier earlier',
      (forall a, In a earlier -> In a (g_demes g)) -> (forall a, In a rest -> In a (g_demes g)) ->
      Forall2 (DemeRel R) earlier earlier' -> Forall2 (DemeRel R) rest rest' ->
      ValidDemes earlier rest -> ValidDemes earlier' rest'.
    Proof.
      induction rest as [|d rest IH]; intros rest' earlier earlier' H1 H2 FE FR V.
      - inversion FR; subst. exact I.
      - inversion FR as [|d0 d' r0 rest0' Hd Hr]; subst. cbn in *. destruct V as [Vd Vr].
        split.
        + apply (deme_transport earlier earlier' d d'); auto.
        + apply (IH rest0' (earlier ++ [d]) (earlier' ++ [d'])); auto.
          * intros a Ha. apply in_app_or in Ha. destruct Ha as [Ha|[<-|[]]]; auto.
          * apply Forall2_app; [assumption|]. constructor; [assumption|constructor].
    Qed.

    (* ---------- lookups and coexistence ---------- *)
    Lemma find_rel name (ds ds' : list deme) s :
      Forall2 (DemeRel R) ds ds' ->
      find (fun d => String.eqb (d_name d) name) ds = Some s ->
      exists s', find (fun d => String.eqb (d_name d) name) ds' = Some s' /\ DemeRel R s s'.
    Proof.
      induction 1 as [|d d' ds ds' Hd F2 IH]; intro H; cbn in *; [discriminate|].
      pose proof Hd as (E & _). rewrite E.
      destruct (String.eqb (d_name d) name).
      - inversion H; subst. exists d'. split; [reflexivity|assumption].
      - apply IH; assumption.
    Qed.

    Lemma coexist_transport s d s' d' lo hi :
      In s (g_demes g) -> In d (g_demes g) -> DemeRel R s s' -> DemeRel R d d' ->
      Coexist s d lo hi -> Coexist s' d' (F lo) (F hi) /\ In lo T /\ In hi T.
    Proof.
      intros Hs Hd Rs Rd (ea & eb & Ha & Hb & -> & ->).
      pose proof (in_dend s ea Hs Ha) as Iea. pose proof (in_dend d eb Hd Hb) as Ieb.
      pose proof (in_dstart s Hs) as Iss. pose proof (in_dstart d Hd) as Isd.
      split; [|split].
      - exists (F ea), (F eb).
        split; [apply (dend_rel s s' ea Rs Ha)|]. split; [apply (dend_rel d d' eb Rd Hb)|].
        destruct Rs as (_ & _ & -> & _). destruct Rd as (_ & _ & -> & _).
        rewrite !b_lt by assumption.
        split; [destruct (nlt ea eb)|destruct (nlt (d_start d) (d_start s))]; reflexivity.
      - destruct (nlt ea eb); assumption.
      - destruct (nlt (d_start d) (d_start s)); assumption.
    Qed.

    Lemma within_transport lo hi t :
      In lo T -> In hi T -> In t T -> Within lo hi t -> Within (F lo) (F hi) (F t).
    Proof. intros H1 H2 H3 [A B]. unfold Within. rewrite !b_le by assumption. auto. Qed.

    (* ---------- the converted graph ---------- *)
    Variable h : graph.
    Hypothesis HR : TimesRel R g h.

    Lemma demes_rel : Forall2 (DemeRel R) (g_demes g) (g_demes h).
    Proof. apply HR. Qed.
    Lemma migs_rel : Forall2 (MigRel R) (g_migs g) (g_migs h).
    Proof. apply HR. Qed.
    Lemma pulses_rel : Forall2 (PulseRel R) (g_pulses g) (g_pulses h).
    Proof. apply HR. Qed.

    Lemma find_deme_rel name s :
      find_deme g name = Some s ->
      exists s', find_deme h name = Some s' /\ DemeRel R s s' /\ In s (g_demes g).
    Proof.
      unfold find_deme. intro H.
      destruct (find_rel name _ _ s demes_rel H) as (s' & H1 & H2).
      exists s'. split; [assumption|]. split; [assumption|].
      apply find_some in H. tauto.
    Qed.

    Lemma mig_transport m m' : In m (g_migs g) -> MigRel R m m' -> ValidMig h m'.
    Proof.
      intros Hm (E1 & E2 & E3 & E4 & E5).
      destruct (v_migs g HV m Hm) as [V1 V2 V3 V4 V5 V6].
      destruct (in_mig_times g m Hm) as [Is Ie].
      constructor; rewrite ?E1, ?E2, ?E3, ?E4, ?E5; try assumption.
      - destruct V2 as (s & d & lo & hi & Fs & Fd & Co & W1 & W2).
        destruct (find_deme_rel _ _ Fs) as (s' & Fs' & Rs & Is').
        destruct (find_deme_rel _ _ Fd) as (d' & Fd' & Rd & Id').
        destruct (coexist_transport s d s' d' lo hi Is' Id' Rs Rd Co) as (Co' & Ilo & Ihi).
        exists s', d', (F lo), (F hi).
        split; [assumption|]. split; [assumption|]. split; [assumption|].
        split; apply within_transport; assumption.
      - rewrite b_lt; assumption.
      - rewrite b_inf; assumption.
      - apply b_nonneg; assumption.
    Qed.

    Lemma pulse_transport p p' : In p (g_pulses g) -> PulseRel R p p' -> ValidPulse h p'.
    Proof.
      intros Hp (E1 & E2 & E3 & E4).
      destruct (v_pulses g HV p Hp) as [V1 V2 V3 V4 V5 V6 V7 V8 V9].
      pose proof (in_pulse_times g p Hp) as It.
      constructor; rewrite ?E1, ?E2, ?E3, ?E4; try assumption.
      - destruct V7 as [A B]. split; [rewrite b_pos|rewrite b_inf]; assumption.
      - destruct V8 as (d & ed & Fd & De & Ne).
        destruct (find_deme_rel _ _ Fd) as (d' & Fd' & Rd & Id').
        exists d', (F ed). split; [assumption|]. split; [apply (dend_rel d d' ed Rd De)|].
        rewrite b_eq; [assumption|assumption|]. apply (in_dend d ed); assumption.
      - intros s Hs. destruct (V9 s Hs) as (sd & d & lo & hi & Fs & Fd & Co & W & Ne).
        destruct (find_deme_rel _ _ Fs) as (s' & Fs' & Rs & Is').
        destruct (find_deme_rel _ _ Fd) as (d' & Fd' & Rd & Id').
        destruct (coexist_transport sd d s' d' lo hi Is' Id' Rs Rd Co) as (Co' & Ilo & Ihi).
        exists s', d', (F lo), (F hi).
        split; [assumption|]. split; [assumption|]. split; [assumption|].
        split; [apply within_transport; assumption|].
        destruct Rs as (_ & _ & -> & _). rewrite b_eq; [assumption|assumption|].
        apply in_dstart; assumption.
    Qed.

    Lemma sorted_transport ps ps' :
      Forall2 (PulseRel R) ps ps' -> (forall p, In p ps -> In (p_time p) T) ->
      PulsesSorted ps -> PulsesSorted ps'.
    Proof.
      induction 1 as [|p p' ps ps' Hp F2 IH]; intros Hin S; [exact I|].
      inversion F2 as [|q q' qs qs' Hq F3]; subst; [exact I|].
      cbn in S. destruct S as [S1 S2]. cbn. split.
      - destruct Hp as (_ & _ & -> & _). destruct Hq as (_ & _ & -> & _).
        rewrite b_le; [assumption| |]; apply Hin; cbn; auto.
      - apply IH; [|assumption]. intros x Hx. apply Hin. right; assumption.
    Qed.

    Lemma index_rel ds ds' :
      Forall2 (DemeRel R) ds ds' -> forall i, index_from i ds' = index_from i ds.
    Proof.
      induction 1 as [|d d' ds ds' Hd F2 IH]; intro i; cbn; [reflexivity|].
      destruct Hd as (-> & _). rewrite IH. reflexivity.
    Qed.

    Lemma overlap_transport : NoOverlap (g_migs h).
    Proof.
      intros i j a' b' t' Hij Ha' Hb' Es Ed Ot' [A1 A2] [B1 B2].
      destruct (F2_nth_r _ _ _ migs_rel i a' Ha') as (a & Ha & Ra).
      destruct (F2_nth_r _ _ _ migs_rel j b' Hb') as (b & Hb & Rb).
      pose proof (nth_error_In _ _ Ha) as Ia. pose proof (nth_error_In _ _ Hb) as Ib.
      destruct (in_mig_times g a Ia) as [Isa Iea]. destruct (in_mig_times g b Ib) as [Isb Ieb].
      pose proof (vm_order _ _ (v_migs g HV a Ia)) as Oa.
      pose proof (vm_order _ _ (v_migs g HV b Ib)) as Ob.
      destruct Ra as (Ea1 & Ea2 & Ea3 & Ea4 & _). destruct Rb as (Eb1 & Eb2 & Eb3 & Eb4 & _).
      rewrite Ea3 in A1. rewrite Ea4 in A2. rewrite Eb3 in B1. rewrite Eb4 in B2.
      apply lt_true in A1, B1. apply le_true in A2, B2.
      destruct A1 as (_ & _ & A1). destruct A2 as (_ & _ & A2).
      destruct B1 as (_ & _ & B1). destruct B2 as (_ & _ & B2).
      assert (C1 : rk (m_end a) < rk (m_start b)) by (apply r_lt; try assumption; lra).
      assert (C2 : rk (m_end b) < rk (m_start a)) by (apply r_lt; try assumption; lra).
      pose proof (t_ok _ Isa). pose proof (t_ok _ Iea).
      pose proof (t_ok _ Isb). pose proof (t_ok _ Ieb).
      apply (v_overlap g HV i j a b (if nlt (m_end a) (m_end b) then m_end b else m_end a));
        try assumption; try congruence.
      - destruct (nlt (m_end a) (m_end b)); assumption.
      - split; destruct (nlt (m_end a) (m_end b)) eqn:E; nord.
      - split; destruct (nlt (m_end a) (m_end b)) eqn:E; nord.
    Qed.

    (* ---------- ingress ---------- *)
    Definition cands : list num := n0 :: flat_map (fun m => [m_start m; m_end m]) (g_migs g).

    Lemma cands_T c : In c cands -> In c T.
    Proof.
      intros [<-|Hc]; [left; reflexivity|]. right. unfold graph_times.
      apply in_or_app; right; apply in_or_app; left. assumption.
    Qed.

    Lemma cands_mig m : In m (g_migs g) -> In (m_start m) cands /\ In (m_end m) cands.
    Proof. intro Hm. split; right; apply in_flat_map; exists m; cbn; auto. Qed.

    Lemma rate_at_rel ms ms' src dst t' e :
      Forall2 (MigRel R) ms ms' ->
      (forall m m', In m ms -> MigRel R m m' -> activeb m' t' = activeb m e) ->
      rate_at ms' src dst t' = rate_at ms src dst e.
    Proof.
      unfold rate_at. induction 1 as [|m m' ms ms' Hm F2 IH]; intro Hact; cbn; [reflexivity|].
      rewrite (Hact m m' (or_introl eq_refl) Hm).
      destruct Hm as (E1 & E2 & _ & _ & E5). rewrite E1, E2.
      destruct (String.eqb (m_src m) src && String.eqb (m_dst m) dst && activeb m e).
      - rewrite E5. reflexivity.
      - apply IH. intros x x' Hx. apply Hact. right; assumption.
    Qed.

    Lemma ingress_transport : IngressOK h.
    Proof.
      intros d' t' Hd' Ot' Nt' Ft'. cbv zeta.
      destruct (max_cand (fun c => rk (F c) <= rk t') cands) as (e & He & Pe & Hmax).
      { intro c. destruct (Qlt_le_dec (rk t') (rk (F c))); [right; lra|left; assumption]. }
      { exists n0. split; [left; reflexivity|]. pose proof r_0. nord. }
      pose proof (cands_T e He) as Ie.
      assert (Fe : nisinf e = false).
      { destruct (nisinf e) eqn:E; [|reflexivity]. exfalso.
        pose proof (b_inf e Ie) as Hi. rewrite E in Hi.
        pose proof (b_nonneg e Ie) as Hn. nord. }
      assert (Hact : forall m m', In m (g_migs g) -> MigRel R m m' -> activeb m' t' = activeb m e).
      { intros m m' Hm (E1 & E2 & E3 & E4 & E5). unfold activeb. rewrite E3, E4.
        destruct (in_mig_times g m Hm) as [Is Ien]. destruct (cands_mig m Hm) as [Cs Cen].
        f_equal; apply eq_true_iff_eq.
        - rewrite (lt_iff t' (F (m_start m))) by (try apply r_ok; assumption).
          rewrite (lt_iff e (m_start m)) by (apply t_ok; assumption).
          split; intro H.
          + apply (r_lt e (m_start m) Ie Is). lra.
          + destruct (Qlt_le_dec (rk t') (rk (F (m_start m)))) as [Hl|Hle]; [assumption|].
            specialize (Hmax (m_start m) Cs Hle). lra.
        - rewrite (le_iff (F (m_end m)) t') by (try apply r_ok; assumption).
          rewrite (le_iff (m_end m) e) by (apply t_ok; assumption).
          split; intro H.
          + apply Hmax; assumption.
          + apply (r_le (m_end m) e Ien Ie) in H. lra. }
      destruct (F2_in_r _ _ _ _ demes_rel Hd') as (d & Hd & Rd).
      assert (Hing : ingress h (d_name d') t' = ingress g (d_name d) e).
      { unfold ingress. f_equal. destruct Rd as (-> & _).
        apply (F2_map_eq _ _ _ _ _ demes_rel). intros a b (-> & _).
        apply rate_at_rel; [apply migs_rel|assumption]. }
      rewrite Hing.
      apply (v_ingress g HV d e Hd (t_ok e Ie) (t_nonneg e Ie) Fe).
    Qed.

    Lemma valid_transport :
      g_units h = "generations" -> g_gt h = n1 -> Valid h.
    Proof.
      intros Hu Hgt. pose proof HR as (E1 & E2 & E3 & E4 & _).
      constructor.
      - rewrite Hu. discriminate.
      - rewrite Hgt. split; nord.
      - intros _. rewrite Hgt. apply eq_refl_ok, ok_1.
      - rewrite E2. apply (v_doi g HV).
      - rewrite E3. apply (v_meta g HV).
      - intro H. apply (v_demes_ne g HV). apply (F2_nil_iff _ _ _ demes_rel). assumption.
      - apply (demes_transport (g_demes g) (g_demes h) [] []); auto.
        + intros a [].
        + apply demes_rel.
        + apply (v_demes g HV).
      - intros m' Hm'. destruct (F2_in_r _ _ _ _ migs_rel Hm') as (m & Hm & Rm).
        apply (mig_transport m m'); assumption.
      - apply overlap_transport.
      - apply ingress_transport.
      - intros p' Hp'. destruct (F2_in_r _ _ _ _ pulses_rel Hp') as (p & Hp & Rp).
        apply (pulse_transport p p'); assumption.
      - apply (sorted_transport _ _ pulses_rel); [|apply (v_pulse_order g HV)].
        intros p Hp. apply in_pulse_times; assumption.
      - rewrite E4, (v_index g HV). symmetry. apply index_rel. apply demes_rel.
    Qed.
  End G.

  Theorem ingen_valid g h :
    Valid g -> DivOK (g_gt g) (all_times g) -> in_generations g = Ok h -> Valid h.
  Proof.
    intros HV HD H. apply ingen_spec in H. destruct H as (Hu & Hgt & HR).
    apply (valid_transport g HV HD h HR Hu Hgt).
  Qed.
End InGenValid.

Print Assumptions ingen_valid.
