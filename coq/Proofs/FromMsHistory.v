(* C08 — the HISTORY of migration matrices that from_ms accumulates (b_mms with the end times
   b_ends, oldest first) is, interval by interval, the migration matrix of the ms semantics at
   every time of that interval.  Together with Proofs/MigsFromMatrices.v (the records built from
   the history are its inverse) this says: the migration records from_ms hands to resolution carry,
   at every time, 4*N0 times... precisely the entry M[i][j] the ms semantics has in force (the
   division by 4*N0 is applied to each record afterwards).
   Times: from_ms works with  time = (4*N0) * t  for an ms time t; the statement assumes this
   scaling preserves the order of the times involved (ScaleMono), as it does in exact arithmetic
   and, for the usual magnitudes, in binary64. *)
From Coq Require Import Bool List String QArith Lqa Lia Arith.
From Demes Require Import Base.Num Base.Py Model.MDM Model.MsOpt Model.FromMs Spec.MsSem
  Proofs.ResolveInv Proofs.MsProofs Proofs.FromMsRefine.
Import ListNotations.
Local Open Scope string_scope.
Local Open Scope list_scope.

Section FromMsHistory.
  Context {N : NumOps} {L : NumLaws N}.

  (* interval i of the history is [ends[i], start_i) with start_0 = inf, start_i = ends[i-1] *)
  Definition hstart (ends : list num) (i : nat) : num :=
    match i with O => ninf | S i' => nth i' ends n0 end.

  (* the ms state in force at ms time T: every event with time <= T applied, in order (Spec/MsSem.v ms_at) *)
  Definition run_upto (evs : list msev) (T : num) (st0 : mstate) : res mstate :=
    foldM (fun s e => if nle (ev_time e) T then apply_ev s e else Ok s) evs st0.

  Definition scale (N0 t : num) : num := nmul (nmul n4 N0) t.

  (* scaling by 4*N0 preserves order and okness on the times that occur *)
  Definition ScaleMono (N0 : num) (ts : list num) : Prop :=
    (forall a, In a ts -> ok a -> ok (scale N0 a)) /\
    (forall a b, In a ts -> In b ts -> ok a -> ok b ->
       nle (scale N0 a) (scale N0 b) = nle a b /\ nlt (scale N0 a) (scale N0 b) = nlt a b /\
       neqb (scale N0 a) (scale N0 b) = neqb a b).

  (* ====================================================================================== *)
  (* Auxiliary development.
     Plan: (1) a purely structural description (GRel) of what one same-time group does to the
     history (b_mms, b_ends): nothing / edits the head in place (only when the group's scaled time
     is not later than the head's end time) / pushes one copy, stamped with the group's scaled
     time; every older matrix is only ever zero-extended by -es, which is invisible through
     [nth _ (nth _ m []) n0] (relation Same).  (2) induction over the list of groups from the
     right: for T before the last group the history entry is an (extended) entry of the
     previous history and the semantics at T ignores the last group; for T at or after the last
     group only the head qualifies and run_groups_refine (MRel) applies. *)
  Local Open Scope nat_scope.

  (* ---------- small list facts ---------- *)
  Lemma nth_error_combine {A B} (l1 : list A) : forall (l2 : list B) i x y,
    nth_error (combine l1 l2) i = Some (x, y) <-> nth_error l1 i = Some x /\ nth_error l2 i = Some y.
  Proof.
    induction l1 as [|a l1 IH]; intros l2 i x y.
    - cbn. destruct i; cbn; split; intro H; try discriminate; destruct H; discriminate.
    - destruct l2 as [|b l2].
      + cbn. destruct i; cbn; split; intro H; try discriminate; destruct H; discriminate.
      + destruct i; cbn.
        * split; [intro H; injection H as -> ->; auto | intros [H1 H2]; congruence].
        * apply IH.
  Qed.

  Lemma nth_error_tl {A} (l : list A) i : nth_error l (S i) = nth_error (tl l) i.
  Proof. destruct l; [now destruct i|reflexivity]. Qed.

  Lemma nth_repeat_all {A} (z : A) k : forall j, nth j (repeat z k) z = z.
  Proof. induction k as [|k IH]; intro j; destruct j; cbn; auto. Qed.

  Lemma nth_nil {A} (d : A) j : nth j [] d = d.
  Proof. now destruct j. Qed.

  (* ---------- matrices that read the same through nth .. n0 ---------- *)
  Definition Same (m m' : list (list num)) : Prop :=
    forall a b, nth b (nth a m' []) n0 = nth b (nth a m []) n0.

  Lemma Same_refl m : Same m m.
  Proof. intros a b. reflexivity. Qed.

  Lemma Same_trans m1 m2 m3 : Same m1 m2 -> Same m2 m3 -> Same m1 m3.
  Proof. intros H1 H2 a b. now rewrite H2, H1. Qed.

  Lemma row_snoc0 (row : list num) b : nth b (row ++ [n0]) n0 = nth b row n0.
  Proof.
    destruct (Nat.lt_ge_cases b (List.length row)) as [H|H].
    - now rewrite app_nth1.
    - rewrite app_nth2 by exact H. rewrite (nth_overflow row) by exact H.
      destruct (b - List.length row) as [|k]; [reflexivity|]. cbn. apply nth_nil.
  Qed.

  (* the zero-extension done by -es is invisible *)
  Lemma Same_ext k m : Same m (map (fun row => row ++ [n0]) m ++ [repeat n0 k]).
  Proof.
    intros a b. destruct (Nat.lt_ge_cases a (List.length m)) as [H|H].
    - rewrite app_nth1 by (rewrite map_length; exact H).
      rewrite (nth_map' _ _ a [] []) by exact H. apply row_snoc0.
    - rewrite app_nth2 by (rewrite map_length; exact H). rewrite map_length.
      rewrite (nth_overflow m) by exact H. rewrite nth_nil.
      destruct (a - List.length m) as [|j]; cbn.
      + apply nth_repeat_all.
      + destruct j; apply nth_nil.
  Qed.

  Lemma F2_refl l : Forall2 Same l l.
  Proof. induction l; constructor; auto using Same_refl. Qed.

  Lemma F2_trans l1 : forall l2 l3, Forall2 Same l1 l2 -> Forall2 Same l2 l3 -> Forall2 Same l1 l3.
  Proof.
    induction l1 as [|x l1 IH]; intros l2 l3 H1 H2; inversion H1; subst; inversion H2; subst;
      constructor; eauto using Same_trans.
  Qed.

  Lemma F2_tl l l' : Forall2 Same l l' -> Forall2 Same (tl l) (tl l').
  Proof. intro H. destruct H; cbn; [constructor|assumption]. Qed.

  Lemma F2_nth l l' : Forall2 Same l l' -> forall i y, nth_error l' i = Some y ->
    exists x, nth_error l i = Some x /\ Same x y.
  Proof.
    induction 1 as [|x y0 l l' Hxy HF IH]; intros i y Hy.
    - destruct i; discriminate.
    - destruct i as [|i]; cbn in *.
      + injection Hy as <-. eauto.
      + eauto.
  Qed.

  Lemma F2_map_ext l k : Forall2 Same l (map (fun m => map (fun row => row ++ [n0]) m ++ [repeat n0 k]) l).
  Proof. induction l; cbn; constructor; auto using Same_ext. Qed.

  (* ---------- what one same-time group does to the history ---------- *)
  Definition WF (s : bstate) : Prop :=
    List.length (b_mms s) = List.length (b_ends s) /\ b_ends s <> [].

  Definition GRel (time : num) (mm : list (list (list num))) (en : list num)
                  (mm' : list (list (list num))) (en' : list num) : Prop :=
    List.length mm' = List.length en' /\ en' <> [] /\
    ((en' = en /\ Forall2 Same mm mm')
     \/ (en' = en /\ nlt (hd n0 en) time = false /\ Forall2 Same (tl mm) (tl mm'))
     \/ (nlt (hd n0 en) time = true /\ en' = time :: en /\ Forall2 Same mm (tl mm'))).

  Lemma GRel_refl time s : WF s -> GRel time (b_mms s) (b_ends s) (b_mms s) (b_ends s).
  Proof. intros [W1 W2]. split; [exact W1|split; [exact W2|]]. left. split; [reflexivity|apply F2_refl]. Qed.

  Lemma GRel_trans time mm en mm1 en1 mm2 en2 :
    GRel time mm en mm1 en1 -> GRel time mm1 en1 mm2 en2 -> GRel time mm en mm2 en2.
  Proof.
    intros (_ & _ & H1) (L2 & N2 & H2). split; [exact L2|split; [exact N2|]].
    destruct H1 as [(E1 & F1)|[(E1 & P1 & F1)|(P1 & E1 & F1)]];
      destruct H2 as [(E2 & F2)|[(E2 & P2 & F2)|(P2 & E2 & F2)]]; subst.
    - left. split; [reflexivity|]. eapply F2_trans; eauto.
    - right; left. repeat split; auto. eapply F2_trans; [apply F2_tl; exact F1|exact F2].
    - right; right. repeat split; auto. eapply F2_trans; eauto.
    - right; left. repeat split; auto. eapply F2_trans; [exact F1|apply F2_tl; exact F2].
    - right; left. repeat split; auto. eapply F2_trans; eauto.
    - congruence.
    - right; right. repeat split; auto. eapply F2_trans; [exact F1|apply F2_tl; exact F2].
    - right; right. repeat split; auto. eapply F2_trans; eauto.
    - cbn [hd] in P2. rewrite nlt_irrefl in P2. discriminate.
  Qed.

  Lemma touch_grel f s time : WF s ->
    GRel time (b_mms s) (b_ends s)
         (b_mms (edit_matrix f (matrix_at s time))) (b_ends (edit_matrix f (matrix_at s time))).
  Proof.
    intros [W1 W2]. unfold matrix_at.
    destruct (b_mms s) as [|m rest] eqn:Em; destruct (b_ends s) as [|e ends] eqn:Ee;
      try congruence; try discriminate.
    destruct (ngt time e) eqn:Eg; unfold ngt in Eg.
    - unfold edit_matrix. cbn [b_mms b_ends b_n b_joined b_demes b_pulses].
      split; [cbn in *; lia|split; [discriminate|]].
      right; right. cbn [hd tl]. repeat split; auto. apply F2_refl.
    - unfold edit_matrix. rewrite Em. cbn [b_mms b_ends]. rewrite Ee.
      split; [cbn in *; lia|split; [discriminate|]].
      right; left. cbn [hd tl]. repeat split; auto. apply F2_refl.
  Qed.

  Lemma step_grel N0 time s gs e s' gs' :
    WF s -> step N0 time (s, gs) e = Ok (s', gs') ->
    GRel time (b_mms s) (b_ends s) (b_mms s') (b_ends s').
  Proof.
    intros W Hs.
    destruct e as [t a|t i a|t x|t i x timed|t x|t i j x|t np m ini|t i p|t i j]; unfold step in Hs.
    - mbind Hs g Hg. mbind Hs ds Hds. injection Hs as <- <-. exact (GRel_refl time s W).
    - mbind Hs p Hp. mbind Hs g Hg. mbind Hs ds Hds. injection Hs as <- <-. exact (GRel_refl time s W).
    - mbind Hs ds Hds. injection Hs as <- <-. exact (GRel_refl time s W).
    - mbind Hs p Hp. mbind Hs ds Hds. injection Hs as <- <-. exact (GRel_refl time s W).
    - mbind Hs v Hv. injection Hs as <- <-. apply touch_grel. exact W.
    - mbind Hs pi Hpi. mbind Hs pj Hpj. mraise Hs Hij. injection Hs as <- <-. apply touch_grel. exact W.
    - mraise Hs H1. mraise Hs H2. injection Hs as <- <-. apply touch_grel. exact W.
    - mbind Hs pp Hpp. injection Hs as <- <-. cbn [b_mms b_ends].
      destruct W as [W1 W2]. split; [now rewrite map_length|split; [exact W2|]].
      left. split; [reflexivity|]. exact (F2_map_ext (b_mms s) (S (b_n s))).
    - mbind Hs pi Hpi. mbind Hs pj Hpj. mbind Hs ds Hds. injection Hs as <- <-. cbn [b_mms b_ends].
      match goal with |- GRel _ _ _ (b_mms (edit_matrix ?F _)) _ =>
        exact (touch_grel F (with_demes s ds) time W) end.
  Qed.

  Lemma GRel_WF time s s' : GRel time (b_mms s) (b_ends s) (b_mms s') (b_ends s') -> WF s'.
  Proof. intros (H1 & H2 & _). split; assumption. Qed.

  Lemma steps_grel N0 time evs : forall s gs s' gs',
    WF s -> foldM (step N0 time) evs (s, gs) = Ok (s', gs') ->
    GRel time (b_mms s) (b_ends s) (b_mms s') (b_ends s').
  Proof.
    induction evs as [|e evs IH]; intros s gs s' gs' W H; cbn in H.
    - injection H as <- <-. now apply GRel_refl.
    - mbind H sg1 H1. destruct sg1 as [s1 gs1].
      pose proof (step_grel _ _ _ _ _ _ _ W H1) as G1.
      eapply GRel_trans; [exact G1|]. eapply IH; [|exact H]. eapply GRel_WF; eauto.
  Qed.

  Lemma finish_group_hist time gs : forall s s',
    finish_group time s gs = Ok s' -> b_mms s' = b_mms s /\ b_ends s' = b_ends s.
  Proof.
    intros s s' H. unfold finish_group in H.
    refine (foldM_inv _ (fun x => b_mms x = b_mms s /\ b_ends x = b_ends s) _ _ _ _ _ H); [|auto].
    clear. intros x [[j k] p] x' Hx Hf.
    destruct (filter _ _); [injection Hf as <-; exact Hx|].
    destruct (neqb _ n0 && memn _ _).
    - mbind Hf ds Hds. injection Hf as <-. exact Hx.
    - injection Hf as <-. exact Hx.
  Qed.

  Lemma run_group_grel N0 s t g s' :
    WF s -> run_group N0 s (t, g) = Ok s' ->
    GRel (scale N0 t) (b_mms s) (b_ends s) (b_mms s') (b_ends s').
  Proof.
    intros W H. unfold run_group in H. mbind H r Hr. destruct r as [s1 gs1]. cbn [fst snd] in H.
    apply finish_group_hist in H. destruct H as [Em Ee]. rewrite Em, Ee.
    eapply steps_grel; [exact W|exact Hr].
  Qed.

  (* ---------- the shape of the end times ---------- *)
  Definition StrictDec (l : list num) : Prop :=
    forall k x y, nth_error l k = Some x -> nth_error l (S k) = Some y -> nlt y x = true.

  Definition HInv (N0 : num) (gts : list num) (s : bstate) : Prop :=
    List.length (b_mms s) = List.length (b_ends s) /\
    (exists ts, b_ends s = map (scale N0) ts ++ [nf0] /\ incl ts gts) /\
    StrictDec (b_ends s).

  Lemma HInv_WF N0 gts s : HInv N0 gts s -> WF s.
  Proof.
    intros (H1 & (ts & E & _) & _). split; [exact H1|]. rewrite E. now destruct ts.
  Qed.

  Lemma HInv_step N0 gts s t s' :
    HInv N0 gts s -> GRel (scale N0 t) (b_mms s) (b_ends s) (b_mms s') (b_ends s') ->
    HInv N0 (gts ++ [t]) s'.
  Proof.
    intros (H1 & (ts & E & Hin) & SD) (G1 & G2 & G3). split; [exact G1|].
    destruct G3 as [(Ee & _)|[(Ee & _ & _)|(P & Ee & _)]]; rewrite Ee.
    - split; [|exact SD]. exists ts. split; [exact E|]. intros x Hx. apply in_or_app. left. now apply Hin.
    - split; [|exact SD]. exists ts. split; [exact E|]. intros x Hx. apply in_or_app. left. now apply Hin.
    - split.
      + exists (t :: ts). split; [rewrite E; reflexivity|].
        intros x [<-|Hx]; apply in_or_app; [right; now left|left; now apply Hin].
      + intros k x y Hx Hy. destruct k as [|k]; cbn in Hx, Hy.
        * injection Hx as <-. destruct (b_ends s) as [|e0 r]; [discriminate|].
          cbn in Hy. injection Hy as <-. exact P.
        * eapply SD; eauto.
  Qed.

  Lemma hinv_groups N0 : forall groups s0 s,
    b_ends s0 = [nf0] -> List.length (b_mms s0) = 1 ->
    foldM (run_group N0) groups s0 = Ok s -> HInv N0 (map fst groups) s.
  Proof.
    induction groups as [|[t g] gs IH] using rev_ind; intros s0 s E0 L0 H.
    - cbn in H. injection H as <-. split; [now rewrite E0, L0|split].
      + exists []. split; [exact E0|]. intros x [].
      + intros k x y _ Hy. rewrite E0 in Hy. destruct k; discriminate.
    - rewrite foldM_app in H. mbind H s1 H1. cbn [foldM] in H. mbind H s2 Hg. injection H as ->.
      rewrite map_app. cbn [map fst].
      pose proof (IH s0 s1 E0 L0 H1) as HI.
      eapply HInv_step; [exact HI|]. eapply run_group_grel; [|exact Hg]. eapply HInv_WF; eauto.
  Qed.

  (* ---------- the groups group_by_time makes of a time-sorted list ---------- *)
  Fixpoint GSorted (l : list (num * list msev)) : Prop :=
    match l with
    | [] => True
    | tg :: l' => (forall t' g', In (t', g') l' -> nlt (fst tg) t' = true) /\ GSorted l'
    end.

  Definition GOK (groups : list (num * list msev)) : Prop :=
    (forall t g, In (t, g) groups ->
       In t (map ev_time g) /\ forall e, In e g -> neqb (ev_time e) t = true) /\
    GSorted groups.

  Lemma GSorted_snoc l t g :
    GSorted (l ++ [(t, g)]) -> GSorted l /\ forall t' g', In (t', g') l -> nlt t' t = true.
  Proof.
    induction l as [|[t1 g1] l IH]; cbn [app GSorted]; intro H.
    - split; [exact Logic.I|intros ? ? []].
    - destruct H as [H1 H2]. destruct (IH H2) as [S1 S2]. split; [split; [|exact S1]|].
      + intros t' g' Hin. apply (H1 t' g'). apply in_or_app. now left.
      + intros t' g' [E|Hin].
        * injection E as <- <-. apply (H1 t g). apply in_or_app. right. now left.
        * eauto.
  Qed.

  Lemma group_time_in l : forall t g, In (t, g) (group_by_time l) -> In t (map ev_time g).
  Proof.
    induction l as [|e l IH]; intros t g H; [destruct H|].
    cbn [group_by_time] in H. destruct (group_by_time l) as [|[t1 g1] rest] eqn:G.
    - destruct H as [H|[]]. injection H as <- <-. now left.
    - destruct (neqb (ev_time e) t1).
      + destruct H as [H|H].
        * injection H as <- <-. right. apply IH. now left.
        * apply IH. now right.
      + destruct H as [H|H].
        * injection H as <- <-. now left.
        * apply IH. exact H.
  Qed.

  Lemma group_in_l l t g : In (t, g) (group_by_time l) -> forall x, In x g -> In x l.
  Proof.
    intros H x Hx. rewrite <- (group_by_time_concat l). apply in_concat. exists g. split; [|exact Hx].
    apply in_map_iff. exists (t, g). auto.
  Qed.

  Lemma group_by_time_gsorted l :
    (forall e, In e l -> ok (ev_time e)) -> TimeSorted l -> GSorted (group_by_time l).
  Proof.
    induction l as [|e l IH]; intros Ol TS; [exact Logic.I|].
    assert (SSorted ev_time (e :: l)) as SS by now apply TimeSorted_SSorted.
    destruct SS as [He SS].
    assert (TimeSorted l) as TS' by now apply SSorted_TimeSorted.
    assert (forall x, In x l -> ok (ev_time x)) as Ol' by (intros x Hx; apply Ol; now right).
    specialize (IH Ol' TS').
    cbn [group_by_time]. destruct (group_by_time l) as [|[t1 g1] rest] eqn:G.
    - cbn. split; [intros ? ? []|exact Logic.I].
    - assert (forall t' g', In (t', g') ((t1, g1) :: rest) -> nle (ev_time e) t' = true) as Hle.
      { intros t' g' Hin. rewrite <- G in Hin. pose proof (group_time_in l t' g' Hin) as Ht.
        apply in_map_iff in Ht. destruct Ht as (x & <- & Hx). apply He. eapply group_in_l; eauto. }
      destruct (neqb (ev_time e) t1) eqn:E.
      + cbn in IH |- *. exact IH.
      + cbn in IH |- *. destruct IH as [IH1 IH2]. split; [|split; auto].
        intros t' g' [Hin|Hin].
        * injection Hin as <- <-. pose proof (Hle t1 g1 (or_introl eq_refl)) as H1. nord.
        * pose proof (IH1 t' g' Hin) as H0. pose proof (Hle t1 g1 (or_introl eq_refl)) as H1. nord.
  Qed.

  Lemma group_by_time_GOK l :
    (forall e, In e l -> ok (ev_time e)) -> TimeSorted l -> GOK (group_by_time l).
  Proof.
    intros Ol TS. split; [|now apply group_by_time_gsorted].
    intros t g H. split; [now apply (group_time_in l)|]. now apply (group_by_time_same l t g Ol).
  Qed.

  (* ---------- run_upto ---------- *)
  Lemma concat_snoc (gs : list (num * list msev)) t g :
    List.concat (map snd (gs ++ [(t, g)])) = List.concat (map snd gs) ++ g.
  Proof. rewrite map_app, concat_app. cbn. now rewrite app_nil_r. Qed.

  Lemma run_upto_all evs T : forall st, (forall e, In e evs -> nle (ev_time e) T = true) ->
    run_upto evs T st = foldM apply_ev evs st.
  Proof.
    induction evs as [|e evs IH]; intros st H; [reflexivity|].
    unfold run_upto in *. cbn [foldM]. rewrite (H e) by now left.
    destruct (apply_ev st e); cbn [bind]; [|reflexivity]. apply IH. intros x Hx. apply H. now right.
  Qed.

  Lemma run_upto_none evs T : forall st, (forall e, In e evs -> nle (ev_time e) T = false) ->
    run_upto evs T st = Ok st.
  Proof.
    induction evs as [|e evs IH]; intros st H; [reflexivity|].
    unfold run_upto in *. cbn [foldM]. rewrite (H e) by now left. cbn [bind].
    apply IH. intros x Hx. apply H. now right.
  Qed.

  Lemma run_upto_app evs1 evs2 T st :
    run_upto (evs1 ++ evs2) T st = (s' <- run_upto evs1 T st ;; run_upto evs2 T s').
  Proof. apply foldM_app. Qed.

  (* ---------- the main induction ---------- *)
  Lemma hist_main N0 Lst T s0 st0 :
    ScaleMono N0 Lst -> In T Lst -> ok T ->
    MRel s0 st0 -> b_ends s0 = [nf0] -> List.length (b_mms s0) = 1 ->
    forall groups s, GOK groups -> (forall t g, In (t, g) groups -> In t Lst) ->
    (forall e, In e (List.concat (map snd groups)) -> SquareMa e) ->
    foldM (run_group N0) groups s0 = Ok s ->
    forall st i m en, run_upto (List.concat (map snd groups)) T st0 = Ok st ->
    nth_error (combine (b_mms s) (b_ends s)) i = Some (m, en) ->
    nle en (scale N0 T) = true -> nlt (scale N0 T) (hstart (b_ends s) i) = true ->
    forall a b, a < npops st -> b < npops st -> a <> b ->
      ZEq (nth b (nth a m []) n0) (sentry st a b).
  Proof.
    intros SM HT OT HR E0 L0 groups.
    induction groups as [|[t g] gs IH] using rev_ind;
      intros s GK HL HSq Hf st i m en Hu Hn Hle Hlt a b Ha Hb Hab.
    - cbn in Hf, Hu. injection Hf as <-. injection Hu as <-.
      destruct (b_mms s0) as [|m0 [|]] eqn:Em; try discriminate. rewrite E0 in Hn.
      destruct i as [|i]; cbn in Hn; [|destruct i; discriminate].
      injection Hn as <- <-.
      pose proof (mr_entries _ _ HR a b) as He. rewrite (mr_n _ _ HR) in He. specialize (He Ha Hb Hab).
      unfold bentry, cur_matrix in He. rewrite Em in He. exact He.
    - pose proof Hf as Hall.
      rewrite foldM_app in Hf. mbind Hf s1 Hf1. cbn [foldM] in Hf. mbind Hf s2 Hg. injection Hf as ->.
      destruct GK as [GK1 GK2]. apply GSorted_snoc in GK2. destruct GK2 as [GS Hlt_t].
      assert (GOK gs) as GK'.
      { split; [|exact GS]. intros t' g' Hin. apply GK1. apply in_or_app. now left. }
      assert (In (t, g) (gs ++ [(t, g)])) as Hlast by (apply in_or_app; right; now left).
      destruct (GK1 t g Hlast) as [Htin Hgt].
      assert (ok t) as Ot.
      { apply in_map_iff in Htin. destruct Htin as (x & Ex & Hx). specialize (Hgt x Hx).
        apply eq_true in Hgt. tauto. }
      assert (In t Lst) as HtL by (apply (HL t g); apply in_or_app; right; now left).
      assert (forall t' g', In (t', g') gs -> In t' Lst) as HL'.
      { intros t' g' Hin. apply (HL t' g'). apply in_or_app. now left. }
      assert (forall e, In e (List.concat (map snd gs)) -> SquareMa e) as HSq'.
      { intros e He. apply HSq. rewrite concat_snoc. apply in_or_app. now left. }
      specialize (IH s1 GK' HL' HSq' Hf1).
      pose proof (hinv_groups N0 gs s0 s1 E0 L0 Hf1) as HI1.
      pose proof (HInv_WF _ _ _ HI1) as W1.
      pose proof (run_group_grel N0 s1 t g s W1 Hg) as GR.
      pose proof (HInv_step _ _ _ _ _ HI1 GR) as HI.
      assert (forall e, In e (List.concat (map snd gs)) -> nlt (ev_time e) t = true) as Hearly.
      { intros e He. apply in_concat in He. destruct He as (g' & Hg' & He).
        apply in_map_iff in Hg'. destruct Hg' as ([t' g''] & E & Hin). cbn in E. subst g''.
        pose proof (Hlt_t t' g' Hin) as H1.
        destruct (GK1 t' g' (in_or_app _ _ _ (or_introl Hin))) as [_ H2]. specialize (H2 e He). nord. }
      rewrite concat_snoc in Hu. rewrite run_upto_app in Hu. mbind Hu st1 Hu1.
      destruct SM as [SM1 SM2].
      assert (ok (scale N0 t)) as Ost by (apply SM1; assumption).
      assert (ok (scale N0 T)) as OsT by (apply SM1; assumption).
      apply nth_error_combine in Hn. destruct Hn as [Hm Hen].
      destruct (nle t T) eqn:EtT.
      + (* T at or after the last group: only the head of the history qualifies *)
        destruct i as [|i].
        * assert (MRel s st) as HRs.
          { apply (groups_refine N0 (gs ++ [(t, g)]) s0 st0 s st HSq HR Hall).
            rewrite concat_snoc, foldM_app.
            rewrite run_upto_all in Hu1.
            2:{ intros e He. specialize (Hearly e He). nord. }
            rewrite Hu1. cbn [bind]. rewrite run_upto_all in Hu; [exact Hu|].
            intros e He. specialize (Hgt e He). nord. }
          pose proof (mr_entries _ _ HRs a b) as He. rewrite (mr_n _ _ HRs) in He.
          specialize (He Ha Hb Hab). unfold bentry, cur_matrix in He.
          destruct (b_mms s) as [|mh rest]; [discriminate|]. cbn in Hm. injection Hm as <-. exact He.
        * exfalso. destruct HI as (_ & (ts & Ee & Hincl) & _).
          cbn [hstart] in Hlt. rewrite Ee in Hlt, Hen.
          assert (i < List.length ts) as Hi.
          { assert (S i < List.length (map (scale N0) ts ++ [nf0])) as H0
              by (apply nth_error_Some; congruence).
            rewrite app_length, map_length in H0. cbn in H0. lia. }
          rewrite app_nth1 in Hlt by now rewrite map_length.
          assert (In (nth i (map (scale N0) ts) n0) (map (scale N0) ts)) as Hin
            by (apply nth_In; now rewrite map_length).
          apply in_map_iff in Hin. destruct Hin as (t' & Et' & Hin). rewrite <- Et' in Hlt.
          apply Hincl in Hin. apply in_app_or in Hin.
          assert (ok t' /\ In t' Lst /\ rk t' <= rk t)%Q as (Ot' & Ht'L & Hrk).
          { destruct Hin as [Hin|[<-|[]]].
            - apply in_map_iff in Hin. destruct Hin as ([t'' g'] & E & Hin). cbn in E. subst t''.
              pose proof (Hlt_t t' g' Hin) as H1. apply lt_true in H1. destruct H1 as (A1 & _ & A3).
              split; [exact A1|split; [eapply HL'; eauto|lra]].
            - split; [exact Ot|split; [exact HtL|lra]]. }
          destruct (SM2 T t' HT Ht'L OT Ot') as (_ & S2 & _). rewrite S2 in Hlt. nord.
      + (* T before the last group: the semantics ignores it, the history keeps the old entries *)
        rewrite run_upto_none in Hu.
        2:{ intros e He. specialize (Hgt e He). nord. }
        injection Hu as <-.
        destruct (SM2 t T HtL HT Ot OT) as (S1 & _ & _).
        assert (nle (scale N0 t) (scale N0 T) = false) as Hbefore by (rewrite S1; exact EtT).
        destruct GR as (GL & GN & [(Ee & F2)|[(Ee & Hnp & F2)|(Hp & Ee & F2)]]).
        * (* the group did not touch the matrices *)
          destruct (F2_nth _ _ F2 i m Hm) as (m1 & Hm1 & HS). rewrite (HS a b).
          rewrite Ee in Hen, Hlt.
          apply (IH st1 i m1 en Hu1); auto. apply nth_error_combine. auto.
        * (* the head was edited in place: the group's time is not after the head's end *)
          rewrite Ee in Hen, Hlt. destruct i as [|i].
          -- exfalso. destruct (b_ends s1) as [|e0 r]; [discriminate|].
             cbn in Hen, Hnp. injection Hen as ->. nord.
          -- rewrite nth_error_tl in Hm.
             destruct (F2_nth _ _ F2 i m Hm) as (m1 & Hm1 & HS). rewrite (HS a b).
             rewrite <- nth_error_tl in Hm1.
             apply (IH st1 (S i) m1 en Hu1); auto. apply nth_error_combine. auto.
        * (* a copy was pushed, stamped with the group's time *)
          rewrite Ee in Hen, Hlt. destruct i as [|i].
          -- exfalso. cbn in Hen. injection Hen as <-. congruence.
          -- rewrite nth_error_tl in Hm. cbn [nth_error] in Hen.
             destruct (F2_nth _ _ F2 i m Hm) as (m1 & Hm1 & HS). rewrite (HS a b).
             apply (IH st1 i m1 en Hu1); auto; [apply nth_error_combine; auto|].
             cbn [hstart] in Hlt. destruct i as [|i]; cbn [nth hstart] in *; [nord|exact Hlt].
  Qed.

  (* Main theorem.  evs: the time-sorted event list (c_init ++ sort_events (c_events c) in
     build_doc); s0/st0: related initial states whose history is the single initial matrix with end
     time 0.0; s: the state of from_ms after all groups.  For every entry (m, en) of the history at
     position i and every ms time T >= 0 whose scaled value lies in interval i, the entries of m
     between populations that exist at T are those of the ms semantics at T. *)
  Theorem from_ms_history N0 evs s0 st0 s T st i m en :
    (forall e, In e evs -> SquareMa e) ->
    (forall e, In e evs -> ok (ev_time e) /\ nle n0 (ev_time e) = true) -> TimeSorted evs ->
    ok T -> nle n0 T = true -> ScaleMono N0 (T :: n0 :: map ev_time evs) ->
    MRel s0 st0 -> b_ends s0 = [nf0] -> List.length (b_mms s0) = 1%nat ->
    foldM (run_group N0) (group_by_time evs) s0 = Ok s ->
    run_upto evs T st0 = Ok st ->
    nth_error (combine (b_mms s) (b_ends s)) i = Some (m, en) ->
    nle en (scale N0 T) = true -> nlt (scale N0 T) (hstart (b_ends s) i) = true ->
    forall a b, (a < npops st)%nat -> (b < npops st)%nat -> a <> b ->
      ZEq (nth b (nth a m []) n0) (sentry st a b).
  Proof.
    intros HSq Hev TS OT _ SM HR E0 L0 Hf Hu Hn Hle Hlt a b Ha Hb Hab.
    assert (forall e, In e evs -> ok (ev_time e)) as Ol by (intros e He; now apply Hev).
    apply (hist_main N0 (T :: n0 :: map ev_time evs) T s0 st0 SM (or_introl eq_refl) OT HR E0 L0
             (group_by_time evs) s (group_by_time_GOK evs Ol TS)) with (st := st) (i := i) (en := en);
      auto.
    - intros t g Hin. right. right. pose proof (group_time_in evs t g Hin) as Ht.
      apply in_map_iff in Ht. destruct Ht as (x & <- & Hx). apply in_map.
      eapply group_in_l; eauto.
    - rewrite group_by_time_concat. exact HSq.
    - rewrite group_by_time_concat. exact Hu.
  Qed.

  (* the end times of the history are strictly decreasing from the head and end with 0.0 *)
  Theorem from_ms_history_ends N0 evs s0 s :
    (forall e, In e evs -> ok (ev_time e) /\ nle n0 (ev_time e) = true) -> TimeSorted evs ->
    ScaleMono N0 (n0 :: map ev_time evs) ->
    b_ends s0 = [nf0] -> List.length (b_mms s0) = 1%nat ->
    foldM (run_group N0) (group_by_time evs) s0 = Ok s ->
    List.length (b_mms s) = List.length (b_ends s) /\
    (forall k x y, nth_error (b_ends s) k = Some x -> nth_error (b_ends s) (S k) = Some y -> nlt y x = true) /\
    last (b_ends s) n0 = nf0.
  Proof.
    intros _ _ _ E0 L0 Hf.
    destruct (hinv_groups N0 (group_by_time evs) s0 s E0 L0 Hf) as (H1 & (ts & E & _) & SD).
    split; [exact H1|split; [exact SD|]]. rewrite E. apply last_last.
  Qed.
End FromMsHistory.

Print Assumptions from_ms_history.
Print Assumptions from_ms_history_ends.
