(* C09 — graph -> ms -> graph preserves migration rates.  Composition of
   to_ms_rates / to_ms_alive (Proofs/MsRates.v: what the ms semantics holds after the events
   to_ms emits, times in generations) and from_ms_rates (Proofs/FromMsRates.v: the graph
   build_graph returns has exactly the migrations the ms semantics of the command holds).
   Contents:
   1. run_upto_scaled — the bridge: when division by 4*N0 preserves the order between the event
      times and T (DivMono), the ms semantics over the scaled events at T/(4*N0) applies exactly
      the events the semantics over the unscaled events applies at T; the two states have the same
      migration matrix and the same alive flags (SameMig).
   2. to_ms_numbering_conv, wn_run — the ms semantics ACCEPTS the emitted command up to any time
      (the events are well numbered, time-sorted, without -eM/-ema), so no "ms_at ... = Ok st"
      premise is left in the composition.
   3. ms_at_scaled (1 + 2 for the command to_ms emits) and ms_round_trip_rates (the composition).
   Every arithmetic premise is a field of the record RoundTripArith. *)
From Coq Require Import Bool List String QArith Lqa Lia Arith Permutation.
From Demes Require Import Base.Num Base.Py Model.MDM Model.InGen Model.MigMat Model.MsOpt Model.ToMs
  Model.FromMs Spec.Valid Spec.MsSem Proofs.ResolveInv Proofs.InGenProofs Proofs.MsProofs
  Proofs.MsRates Proofs.FromMsRefine Proofs.FromMsHistory Proofs.FromMsRates.
Import ListNotations.
Local Open Scope string_scope.
Local Open Scope list_scope.
Local Open Scope nat_scope.

(* ====================================================================================== *)
(* 1. The bridge: the ms semantics over the scaled events at the scaled time applies
      exactly the events the semantics over the unscaled events applies at the unscaled
      time, so both states hold the same matrix and the same alive flags.                 *)
Section Bridge.
  Context {N : NumOps} {L : NumLaws N}.

  (* an ms time: generations / (4*N0) *)
  Definition dv (N0 t : num) : num := ndiv t (nmul n4 N0).
  (* what to_ms_events does to each event of to_ms_unscaled *)
  Definition sc_ev (N0 : num) (e : msev) : msev := set_time e (dv N0 (ev_time e)).

  (* division by 4*N0 preserves okness and order on the times that occur
     (the counterpart of ScaleMono of Proofs/FromMsHistory.v) *)
  Definition DivMono (N0 : num) (ts : list num) : Prop :=
    (forall a, In a ts -> ok a -> ok (dv N0 a)) /\
    (forall a b, In a ts -> In b ts -> ok a -> ok b ->
       nle (dv N0 a) (dv N0 b) = nle a b /\ nlt (dv N0 a) (dv N0 b) = nlt a b /\
       neqb (dv N0 a) (dv N0 b) = neqb a b).

  (* same migration matrix, same populations emptied *)
  Definition SameMig (st st' : mstate) : Prop :=
    st_mig st = st_mig st' /\ map alive (st_pops st) = map alive (st_pops st').

  Lemma ev_time_set e t : ev_time (set_time e t) = t.
  Proof. destruct e; reflexivity. Qed.

  Lemma ev_time_sc N0 e : ev_time (sc_ev N0 e) = dv N0 (ev_time e).
  Proof. apply ev_time_set. Qed.

  Lemma map_upd {A B} (g : A -> B) (f : A -> A) (h : B -> B) l :
    (forall x, g (f x) = h (g x)) -> forall k, map g (upd k f l) = upd k h (map g l).
  Proof.
    intro H. induction l as [|x l IH]; intros [|k]; cbn; try reflexivity.
    - now rewrite H.
    - now rewrite IH.
  Qed.

  Lemma SameMig_npops st st' : SameMig st st' -> npops st = npops st'.
  Proof.
    intros [_ H]. unfold npops. rewrite <- (map_length alive (st_pops st)), H. apply map_length.
  Qed.

  Lemma map_alive_if (f : mpop -> mpop) l :
    (forall p, alive (f p) = alive p) ->
    map alive (map (fun p => if alive p then f p else p) l) = map alive l.
  Proof.
    intro H. rewrite map_map. apply map_ext. intro p. destruct (alive p) eqn:E; [|exact E].
    now rewrite H.
  Qed.

  (* one event: the scaled event is accepted exactly as the unscaled one, with the same effect
     on the matrix and on the alive flags *)
  Lemma apply_ev_scaled N0 st st' e s1' :
    SameMig st st' -> apply_ev st' (sc_ev N0 e) = Ok s1' ->
    exists s1, apply_ev st e = Ok s1 /\ SameMig s1 s1'.
  Proof.
    intros HS H. pose proof (SameMig_npops _ _ HS) as Hn. destruct HS as [Hm Ha].
    unfold sc_ev in H.
    destruct e as [t a|t i a|t x|t i x tm|t x|t i j x|t np m ini|t i p|t i j];
      cbn [set_time ev_time] in H; unfold apply_ev in H |- *; cbv zeta in H |- *; rewrite ?Hn.
    - injection H as <-. eexists. split; [reflexivity|]. split; cbn [st_mig st_pops]; [exact Hm|].
      rewrite !map_alive_if by reflexivity. exact Ha.
    - mraise H Hc. rewrite Hc. cbn [raise_if bind]. injection H as <-.
      eexists. split; [reflexivity|]. split; cbn [st_mig st_pops]; [exact Hm|].
      rewrite !(map_upd alive _ (fun b => b)) by reflexivity. now rewrite Ha.
    - injection H as <-. eexists. split; [reflexivity|]. split; cbn [st_mig st_pops]; [exact Hm|].
      rewrite !map_alive_if by reflexivity. exact Ha.
    - mraise H Hc. rewrite Hc. cbn [raise_if bind]. injection H as <-.
      eexists. split; [reflexivity|]. split; cbn [st_mig st_pops]; [exact Hm|].
      rewrite !(map_upd alive _ (fun b => b)) by reflexivity. now rewrite Ha.
    - injection H as <-. eexists. split; [reflexivity|]. split; cbn [st_mig st_pops]; [|exact Ha].
      now rewrite Hm.
    - mraise H Hc. rewrite Hc. cbn [raise_if bind]. injection H as <-.
      eexists. split; [reflexivity|]. split; cbn [st_mig st_pops]; [|exact Ha]. now rewrite Hm.
    - mraise H Hc. rewrite Hc. cbn [raise_if bind]. injection H as <-.
      eexists. split; [reflexivity|]. split; cbn [st_mig st_pops]; [|exact Ha]. now rewrite Hm.
    - mraise H Hc. rewrite Hc. cbn [raise_if bind]. injection H as <-.
      eexists. split; [reflexivity|]. split; cbn [st_mig st_pops].
      + now rewrite Hm.
      + rewrite !map_app, Ha. reflexivity.
    - mraise H Hc. rewrite Hc. cbn [raise_if bind]. injection H as <-.
      eexists. split; [reflexivity|]. split; cbn [st_mig st_pops]; [exact Hm|].
      rewrite !(map_upd alive _ (fun _ => false)) by reflexivity. now rewrite Ha.
  Qed.

  (* the whole run *)
  Lemma run_upto_scaled N0 T evs :
    ok T -> forall st st' s',
    DivMono N0 (T :: map ev_time evs) -> (forall e, In e evs -> ok (ev_time e)) ->
    SameMig st st' ->
    run_upto (map (sc_ev N0) evs) (dv N0 T) st' = Ok s' ->
    exists s, run_upto evs T st = Ok s /\ SameMig s s'.
  Proof.
    intros OT. unfold run_upto.
    induction evs as [|e evs IH]; intros st st' s' [DM1 DM2] Oe HS H; cbn [map foldM] in H |- *.
    - injection H as <-. eauto.
    - mbind H s1' H1. rewrite ev_time_sc in H1.
      assert (nle (dv N0 (ev_time e)) (dv N0 T) = nle (ev_time e) T) as E.
      { apply DM2; [right; now left|now left|apply Oe; now left|exact OT]. }
      rewrite E in H1.
      assert (forall a, In a (T :: map ev_time evs) -> In a (T :: map ev_time (e :: evs))) as Tl.
      { intros a [<-|Ha]; [now left|right; now right]. }
      assert (exists s1, (if nle (ev_time e) T then apply_ev st e else Ok st) = Ok s1 /\ SameMig s1 s1')
        as (s1 & E1 & HS1).
      { destruct (nle (ev_time e) T).
        - eapply apply_ev_scaled; eauto.
        - injection H1 as <-. eauto. }
      rewrite E1. cbn [bind].
      apply IH with (st' := s1'); auto.
      + split.
        * intros a Ha. apply DM1. now apply Tl.
        * intros a b Ha Hb. apply DM2; now apply Tl.
      + intros x Hx. apply Oe. now right.
  Qed.
End Bridge.

(* ====================================================================================== *)
(* 2. The ms semantics accepts the emitted command: the numbering theorem of
      Proofs/MsProofs.v (to_ms_numbering), here from the validity of the converted graph,
      and "a well-numbered time-sorted list is accepted up to any time".                  *)
Section Accept.
  Context {N : NumOps} {L : NumLaws N}.

  Lemma to_ms_events_inv g0 N0 n evs' :
    to_ms_events g0 N0 = Ok (n, evs') ->
    exists evs, to_ms_unscaled g0 N0 = Ok (n, evs) /\ evs' = map (sc_ev N0) evs.
  Proof.
    intro H. unfold to_ms_events in H. mbind H r Hr. cbv zeta in H. mbind H l Hl.
    injection H as <- <-. destruct r as [n evs]. cbn [fst snd] in *.
    exists evs. split; [exact Hr|].
    apply (mapM_map _ (sc_ev N0)) in Hl; [exact Hl|].
    intros a b X. mbind X t Ht. injection X as <-. apply pdiv_inv in Ht. now subst.
  Qed.

  (* to_ms_numbering, for the pair (g0, its conversion g) with g valid *)
  Lemma to_ms_numbering_conv g0 g N0 n evs :
    in_generations g0 = Ok g -> Valid g ->
    to_ms_unscaled g0 N0 = Ok (n, evs) ->
    (forall e, In e (map (sc_ev N0) evs) -> ok (ev_time e)) ->
    WellNumbered n (map (sc_ev N0) evs).
  Proof.
    intros Hg V H Hev. unfold to_ms_unscaled in H. rewrite Hg in H. cbn [bind] in H. cbv zeta in H.
    mbind H sz Hsz. mbind H sj Hsj. mbind H off Hoff. mbind H on Hon. injection H as <- <-.
    set (names := map d_name (g_demes g)) in *.
    set (n := List.length (g_demes g)) in *.
    assert (List.length names = n) as Hn by (unfold names, n; apply map_length).
    assert (forall d, In d (g_demes g) -> forall a, In a (d_anc d) -> a <> d_name d) as Hanc.
    { intros d Hd a Ha. eapply ValidDemes_anc_ne; eauto. apply (v_demes _ V). }
    assert (forall m, In m (g_migs g) -> m_src m <> m_dst m /\ ok (m_start m) /\ ok (m_end m)) as Hmig.
    { intros m Hm. split; [apply (vm_distinct _ _ (v_migs _ V m Hm))|]. eapply valid_mig_ok; eauto. }
    change (foldM (sz_step N0 (nmul n4 N0)) (g_demes g) ([], 1%nat) = Ok sz) in Hsz.
    apply sz_fold in Hsz. destruct Hsz as (esz & Esz & Psz). cbn [fst snd app] in Esz, Psz.
    change (foldM (sj_step names) (sort_dp (map DP_pulse (rev (g_pulses g)) ++ map DP_deme (g_demes g)))
                  ([], n) = Ok sj) in Hsj.
    assert (forall x, In x (map DP_pulse (rev (g_pulses g)) ++ map DP_deme (g_demes g)) ->
              ok (dp_time x) /\
              match x with DP_deme d => forall a, In a (d_anc d) -> a <> d_name d | DP_pulse _ => True end)
      as Hdp.
    { intros x Hx. apply in_app_or in Hx. destruct Hx as [Hx|Hx]; apply in_map_iff in Hx;
        destruct Hx as (y & <- & Hy); cbn.
      - split; [|exact Logic.I]. eapply valid_pulse_ok; eauto. now apply in_rev.
      - split; [eapply valid_deme_ok; eauto|]. now apply Hanc. }
    rewrite sort_dp_g in Hsj.
    apply sj_fold in Hsj.
    2:{ apply gsort_sorted. intros x Hx. now apply Hdp. }
    2:{ intros x Hx. apply Hdp. apply (Permutation_in _ (gsort_perm dp_time _)). exact Hx. }
    destruct Hsj as (B & Esj & HB & Nsj & Lsj & _ & SB). cbn [fst snd app] in Esj, Nsj, Lsj.
    rewrite Hn in HB.
    change (foldM (off_step g names) (g_migs g) [] = Ok off) in Hoff.
    pose proof (off_fold _ _ _ _ Hmig Hoff) as Poff. rewrite Hn in Poff.
    change (foldM (on_step names (nmul n4 N0)) (g_migs g) [] = Ok on) in Hon.
    pose proof (on_fold _ _ _ _ Hmig Hon) as Pon. rewrite Hn in Pon.
    set (U := map ASingle esz ++ B ++ map ASingle (off ++ on)).
    assert (fst sz ++ fst sj ++ off ++ on = flat U) as EU.
    { unfold U. rewrite !flat_app, !flat_single. congruence. }
    assert (forall a, In a U -> alocal n a /\ ok (atime a)) as HU.
    { intros a Ha. unfold U in Ha. apply in_app_or in Ha.
      destruct Ha as [Ha|Ha]; [|apply in_app_or in Ha; destruct Ha as [Ha|Ha]].
      - apply in_map_iff in Ha. destruct Ha as (e & <- & He).
        destruct (Psz e He) as ((j & Hj & Hl) & d & ep & Hd & Hep & Ht). cbn. split.
        + fold n in Hj. destruct e; cbn in Hl |- *; try contradiction; lia.
        + rewrite Ht. apply ok_float. destruct (valid_deme_ok _ _ V Hd) as [_ Ho]. now apply Ho.
      - now apply HB.
      - apply in_map_iff in Ha. destruct Ha as (e & <- & He). cbn.
        apply in_app_or in He. destruct He as [He|He]; [now apply Poff|now apply Pon]. }
    rewrite EU, <- sort_flat in Hev |- *.
    unfold sc_ev in Hev |- *.
    rewrite <- (flat_amap (dv N0)) in Hev |- *.
    apply (WN_flat n _ n (snd sj - n)).
    - intros a Ha. apply in_map_iff in Ha. destruct Ha as (a0 & <- & Ha0).
      apply alocal_amap. apply HU. apply (Permutation_in _ (gsort_perm atime _)). exact Ha0.
    - rewrite filter_amap, afresh_amap.
      rewrite gsort_filter_id.
      + unfold U. rewrite !filter_app, !filter_single, app_nil_r. exact Nsj.
      + intros a Ha. now apply HU.
      + unfold U. rewrite !filter_app, !filter_single, app_nil_r. cbn [app].
        now apply SSorted_filter.
    - lia.
    - exact Hev.
  Qed.

  Ltac idx_true := repeat match goal with
    | |- context [Nat.leb ?a ?b] =>
        replace (Nat.leb a b) with true by (symmetry; apply Nat.leb_le; lia)
    | |- context [Nat.eqb ?a ?b] =>
        replace (Nat.eqb a b) with false by (symmetry; apply Nat.eqb_neq; lia)
    end.

  (* a well-numbered, time-sorted list without -eM/-ema is accepted up to any time *)
  Lemma wn_run T : ok T -> forall k evs c st,
    List.length evs <= k -> WellNumbered c evs -> npops st = c ->
    SSorted ev_time evs -> (forall e, In e evs -> ok (ev_time e) /\ noM e) ->
    exists st', run_upto evs T st = Ok st'.
  Proof.
    intros OT. induction k as [|k IH]; intros evs c st Hk W Hc Srt Oe.
    - destruct evs; [|cbn in Hk; lia]. eexists; reflexivity.
    - destruct evs as [|e rest]; [eexists; reflexivity|].
      destruct Srt as [Hmin Srt].
      destruct (Oe e (or_introl eq_refl)) as [Ot HM].
      destruct (nle (ev_time e) T) eqn:E.
      2:{ exists st. apply run_upto_none. intros x [<-|Hx]; [exact E|].
          specialize (Hmin x Hx). destruct (Oe x (or_intror Hx)) as [Ox _]. nord. }
      assert (forall x, In x rest -> ok (ev_time x) /\ noM x) as Oe' by (intros x Hx; apply Oe; now right).
      assert (List.length rest <= k) as Hk' by (cbn in Hk; lia).
      unfold run_upto. cbn [foldM]. rewrite E.
      destruct e as [t a|t i a|t x|t i x tm|t x|t i j x|t np m ini|t i p|t i j];
        cbn [noM] in HM; try contradiction; unfold apply_ev; cbv zeta; rewrite ?Hc.
      + cbn [bind]. apply (IH rest c); auto. unfold npops. cbn [st_pops]. rewrite map_length. exact Hc.
      + cbn [WellNumbered] in W. destruct W as [Hi W]. idx_true. cbn [andb negb raise_if bind].
        apply (IH rest c); auto. unfold npops. cbn [st_pops]. rewrite upd_length. exact Hc.
      + cbn [bind]. apply (IH rest c); auto. unfold npops. cbn [st_pops]. rewrite map_length. exact Hc.
      + cbn [WellNumbered] in W. destruct W as [Hi W]. idx_true. cbn [andb negb raise_if bind].
        apply (IH rest c); auto. unfold npops. cbn [st_pops]. rewrite upd_length. exact Hc.
      + cbn [WellNumbered] in W. destruct W as (Hi & Hj & Hij & W). idx_true.
        cbn [andb negb orb raise_if bind]. apply (IH rest c); auto.
      + cbn [WellNumbered] in W. destruct W as [Hi W].
        destruct rest as [|[| | | | | | | |t' i' j'] rest']; try contradiction.
        destruct W as (Hi' & Hj' & Ht' & W).
        idx_true. cbn [andb negb raise_if bind foldM].
        assert (nle (ev_time (Evj t' i' j')) T = true) as E'.
        { cbn [ev_time] in *. nord. }
        rewrite E'. unfold apply_ev. cbv zeta.
        unfold npops at 1 2. cbn [st_pops]. rewrite app_length. cbn [List.length].
        fold (npops st). rewrite Hc, Nat.add_1_r. subst i'. idx_true.
        cbn [andb negb orb raise_if bind].
        apply (IH rest' (S c)).
        * cbn in Hk'. lia.
        * exact W.
        * unfold npops. cbn [st_pops]. rewrite upd_length, app_length. cbn [List.length].
          fold (npops st). lia.
        * destruct Srt as [_ Srt]. exact Srt.
        * intros x Hx. apply Oe'. now right.
      + cbn [WellNumbered] in W. destruct W as (Hi & Hj & Hij & W). idx_true.
        cbn [andb negb orb raise_if bind]. apply (IH rest c); auto.
        unfold npops. cbn [st_pops]. rewrite upd_length. exact Hc.
  Qed.
End Accept.

(* ====================================================================================== *)
(* 3. The composition                                                                     *)
Section RoundTrip.
  Context {N : NumOps} {L : NumLaws N}.

  (* every arithmetic fact the composition uses beyond the order laws of NumLaws.
     T: the time (generations) at which the graphs are compared; times: the times (generations)
     of the events of to_ms_unscaled; rates: the rates of the migrations of the source graph.
     The times to_ms emits are  t / (4*N0)  (dv N0 t), from_ms multiplies them back
     (scale N0 (dv N0 t)). *)
  Record RoundTripArith (N0 T : num) (times rates : list num) : Prop := {
    (* x * 1 = x, exactly: true for binary64 and for exact arithmetic (hypothesis of
       from_ms_rates: the initial matrix of from_ms is v * 1 off the diagonal) *)
    rt_mul_one : forall x : num, nmul x n1 = x;
    (* x / k is a number when x is and k is a non-zero count (hypothesis of from_ms_rates):
       binary64 division of two non-NaN values is NaN only for 0/0 and inf/inf; exact: trivial *)
    rt_divlaw : DivLaw;
    (* 0 / k is a zero for a positive count k (the initial entry 0/(n-1) of an -I without rate):
       binary64: 0/k = 0.0 exactly; exact arithmetic: 0 *)
    rt_zero_div : forall k, 1 <= k -> neqb (ndiv n0 (nat_num k)) n0 = true;
    (* division by 4*N0 keeps numbers numbers and preserves the order between the event times
       and T.  Exact arithmetic: division by a positive number is strictly monotone.  binary64:
       division by a positive finite number is monotone (weakly); strictness can only fail for
       two times closer than one unit in the last place after scaling, or by underflow *)
    rt_divmono : DivMono N0 (T :: times);
    (* multiplication by 4*N0 preserves okness and order on the ms times, T/(4*N0) and 0
       (hypothesis of from_ms_rates; same justification as rt_divmono) *)
    rt_scalemono : ScaleMono N0 (dv N0 T :: n0 :: map (dv N0) times);
    (* the emitted times are not negative (hypothesis of from_ms_rates): the graph's times are
       >= 0 and 4*N0 > 0; a quotient of a non-negative by a positive value is non-negative in
       binary64 and in exact arithmetic *)
    rt_times_nonneg : forall t, In t times -> nle n0 (dv N0 t) = true;
    (* the times from_ms computes back are finite (hypothesis of from_ms_rates):
       (4*N0)*(t/(4*N0)) is within rounding of the finite time t, or 0 for the initial events.
       to_ms emits no event at an infinite time (infinite start times produce no event) *)
    rt_times_fin : forall t, In t times -> nisinf (scale N0 (dv N0 t)) = false;
    (* the ms time of T and the time from_ms computes back from it are non-negative and finite
       (hypotheses of from_ms_rates): T is finite and >= 0, same reasons as above *)
    rt_T_nonneg : nle n0 (dv N0 T) = true;
    rt_sT_nonneg : nle n0 (scale N0 (dv N0 T)) = true;
    rt_sT_fin : nisinf (scale N0 (dv N0 T)) = false;
    (* the scaled rates 4*N0*m are numbers (EvOk of from_ms_rates for the -em events; to_ms emits
       no -eM / -ma / -ema): a product of two non-NaN binary64 values is NaN only for 0*inf;
       rates are in [0,1] and N0 is finite *)
    rt_rate_ok : forall r, In r rates -> ok (nmul (nmul n4 N0) r) }.

  Lemma fold_sq T i j l : forall s s',
    Sq s -> i < npops s -> j < npops s -> (forall e, In e l -> noM e) ->
    foldM (fun s e => if nle (ev_time e) T then apply_ev s e else Ok s) l s = Ok s' ->
    Sq s' /\ npops s <= npops s'.
  Proof.
    induction l as [|e l IH]; intros s s' HS Hi Hj HM H; cbn in H.
    - injection H as <-. split; [exact HS|lia].
    - mbind H s1 H1.
      assert (forall x, In x l -> noM x) as HM' by (intros x Hx; apply HM; now right).
      destruct (nle (ev_time e) T).
      + destruct (apply_ev_entry _ _ _ i j HS Hi Hj (HM e (or_introl eq_refl)) H1) as (HS1 & Hn & _).
        destruct (IH s1 s' HS1) as [A B]; auto; try lia. split; [exact A|lia].
      + injection H1 as <-. now apply IH.
  Qed.

  Lemma alive_at_map l : forall i, alive_at l i = nth i (map alive l) false.
  Proof. induction l as [|p l IH]; intros [|i]; cbn; auto. apply IH. Qed.

  (* the entry the from_ms side reads (norm_mig: void when a population is emptied) is the raw
     entry of the to_ms side when both populations are alive *)
  Lemma sentry_entry st st' i j :
    SameMig st st' -> Sq st -> i < npops st -> j < npops st -> i <> j ->
    alive_at (st_pops st) i = true -> alive_at (st_pops st) j = true ->
    sentry st' i j = entry st i j.
  Proof.
    intros [Hm Ha] [S1 S2] Hi Hj Hij Ai Aj.
    rewrite sentry_eq.
    - rewrite !alive_at_map, <- Ha, <- !alive_at_map, Ai, Aj. cbn [andb].
      unfold ent, entry. now rewrite Hm.
    - rewrite <- Hm, S1. exact Hi.
    - rewrite <- Hm. rewrite S2; [exact Hj|]. apply nth_In. rewrite S1. exact Hi.
    - exact Hij.
  Qed.

  Lemma zero_entry_zero n x :
    (forall k, 1 <= k -> neqb (ndiv n0 (nat_num k)) n0 = true) -> 2 <= n ->
    ZeroEntry n x -> neqb x n0 = true.
  Proof.
    intros HZ Hn [->|[->| ->]].
    - pose proof ok_f0. pose proof ok_0. nord.
    - destruct (float_rk n0 ok_0). pose proof ok_0. nord.
    - apply HZ. lia.
  Qed.

  Lemma TimeSorted_scaled N0 ts evs :
    DivMono N0 ts -> (forall e, In e evs -> In (ev_time e) ts /\ ok (ev_time e)) ->
    TimeSorted evs -> TimeSorted (map (sc_ev N0) evs).
  Proof.
    intros [_ DM2]. induction evs as [|e l IH]; intros Hin TS; [exact Logic.I|].
    destruct l as [|f l]; [exact Logic.I|].
    destruct TS as [Hef TS]. cbn [map]. split.
    - rewrite !ev_time_sc.
      destruct (Hin e (or_introl eq_refl)) as [I1 O1].
      destruct (Hin f (or_intror (or_introl eq_refl))) as [I2 O2].
      destruct (DM2 _ _ I1 I2 O1 O2) as [-> _]. exact Hef.
    - apply IH; [|exact TS]. intros x Hx. apply Hin. now right.
  Qed.

  (* what to_ms emits: time-sorted, times are numbers, no -eM/-ma/-ema, and the -em rates are
     numbers when the scaled rates are *)
  Lemma to_ms_events_ok g0 g N0 n evs :
    in_generations g0 = Ok g -> Valid g -> to_ms_unscaled g0 N0 = Ok (n, evs) ->
    (forall r, In r (map m_rate (g_migs g)) -> ok (nmul (nmul n4 N0) r)) ->
    n = List.length (g_demes g) /\ TimeSorted evs /\
    forall e, In e evs -> ok (ev_time e) /\ noM e /\ EvOk e.
  Proof.
    intros Hg V H HR. destruct (to_ms_shape _ _ _ _ _ Hg V H) as (Hn & A & off & on & -> & SH).
    destruct SH as (HU & HA & _ & _ & Foff & _ & Fon & _).
    split; [exact Hn|]. split.
    - apply sort_events_sorted. intros e He. now apply HU.
    - intros e He. apply (Permutation_in _ (sort_events_perm _)) in He.
      destruct (HU e He) as [O M]. split; [exact O|]. split; [exact M|].
      apply in_app_or in He. destruct He as [He|He].
      + specialize (HA e He). destruct e; cbn in *; auto; try contradiction; discriminate.
      + apply in_app_or in He. destruct He as [He|He].
        * destruct (Foff e He) as (m & a & b & _ & _ & _ & ->). cbn. apply ok_float. apply ok_0.
        * destruct (Fon e He) as (m & a & b & Hm & _ & _ & ->). cbn. apply ok_float. apply HR.
          now apply in_map.
  Qed.

  Lemma noM_sc N0 e : noM e -> noM (sc_ev N0 e) /\ SquareMa (sc_ev N0 e).
  Proof. destruct e; cbn; intro H; try contradiction; auto. Qed.
  Lemma EvOk_sc N0 e : EvOk e -> EvOk (sc_ev N0 e).
  Proof. destruct e; cbn; auto. Qed.

  (* The ms semantics accepts the command to_ms emits, at every (ms) time T/(4*N0), and the state
     it reaches holds the same matrix and alive flags as the state the semantics reaches over the
     unscaled events at T. *)
  Theorem ms_at_scaled g0 g N0 n evs T :
    in_generations g0 = Ok g -> Valid g -> to_ms_unscaled g0 N0 = Ok (n, evs) ->
    ok T -> DivMono N0 (T :: map ev_time evs) ->
    exists st st',
      ms_at (mkCmd n true n0 [] (map (sc_ev N0) evs)) (dv N0 T) = Ok st' /\
      ms_at (mkCmd n true n0 [] evs) T = Ok st /\ SameMig st st' /\ Sq st /\ n <= npops st.
  Proof.
    intros Hg V Hun OT DM.
    destruct (to_ms_shape _ _ _ _ _ Hg V Hun) as (Hn & A & off & on & E & SH).
    destruct SH as (HU & _).
    assert (forall e, In e evs -> ok (ev_time e) /\ noM e) as Hevs.
    { intros e He. rewrite E in He. apply (Permutation_in _ (sort_events_perm _)) in He. now apply HU. }
    assert (TimeSorted evs) as TS.
    { rewrite E. apply sort_events_sorted. intros e He. now apply HU. }
    clear E HU A off on.
    assert (forall e, In e evs -> ok (ev_time e)) as OU by (intros e He; now apply Hevs).
    set (evs' := map (sc_ev N0) evs).
    assert (forall e, In e evs -> In (ev_time e) (T :: map ev_time evs) /\ ok (ev_time e)) as Hin.
    { intros e He. split; [right; now apply in_map|now apply OU]. }
    assert (TimeSorted evs') as TS' by (eapply TimeSorted_scaled; eauto).
    assert (forall e, In e evs' -> ok (ev_time e) /\ noM e) as Hevs'.
    { intros e He. apply in_map_iff in He. destruct He as (e0 & <- & He0).
      rewrite ev_time_sc. split; [|apply noM_sc; now apply Hevs].
      apply (proj1 DM); [now apply Hin|now apply OU]. }
    assert (ok (dv N0 T)) as OT' by (apply (proj1 DM); [now left|exact OT]).
    set (c := mkCmd n true n0 [] evs). set (c' := mkCmd n true n0 [] evs').
    destruct (init_sq c') as [SQ0' NP0']. destruct (init_sq c) as [SQ0 NP0]. cbn [c_npop c c'] in NP0, NP0'.
    (* acceptance *)
    assert (WellNumbered n evs') as WN.
    { eapply to_ms_numbering_conv; eauto. intros e He. now apply Hevs'. }
    destruct (wn_run (dv N0 T) OT' (List.length evs') evs' n (init_state c') (le_n _) WN NP0'
                     (TimeSorted_SSorted _ TS') Hevs') as [st' Hrun'].
    (* bridge *)
    destruct (run_upto_scaled N0 T evs OT (init_state c) (init_state c') st' DM OU
                (conj eq_refl eq_refl) Hrun') as (st & Hrun & HS).
    exists st, st'. split; [|split; [|split; [exact HS|]]].
    - unfold ms_at, all_events. cbn [c_init c_events c' app].
      rewrite sort_events_id; [exact Hrun'| |exact TS']. intros e He. now apply Hevs'.
    - unfold ms_at, all_events. cbn [c_init c_events c app].
      rewrite sort_events_id; [exact Hrun|exact OU|exact TS].
    - destruct n as [|n'].
      + exfalso. apply (v_demes_ne _ V). destruct (g_demes g); [reflexivity|discriminate].
      + unfold run_upto in Hrun.
        destruct (fold_sq T 0 0 evs (init_state c) st SQ0) as [A1 A2]; auto; try lia.
        * intros e He. now apply Hevs.
        * split; [exact A1|lia].
  Qed.

  (* C09, migration rates.  g0: any graph; g: its conversion to generations, valid; (n, evs'):
     what to_ms emits for g0 and N0 ((n, evs): the same before the division of the times by 4*N0);
     h: the graph from_ms builds back from that command.  For every ordered pair of demes of g, at
     positions i <> j, and every time T >= 0 (generations) before the start of both demes, with
     T' = T/(4*N0) the corresponding ms time:
     - if g has a migration m from deme j into deme i in force at T whose scaled rate
       float(4*N0*rate) is not numerically zero, then h has exactly one migration from
       deme(j+1) into deme(i+1) in force at the time (4*N0)*T' from_ms computes back, and its rate
       is y/(4*N0) for a y numerically equal to float(4*N0*rate);
     - if the scaled rate is numerically zero (a zero-rate migration, or underflow), no migration
       of that pair is in force in h at that time: ms cannot express "a migration of rate 0";
     - if g has no migration of that pair in force at T, neither has h at that time. *)
  Theorem ms_round_trip_rates g0 g N0 n evs evs' h T i j di dj :
    in_generations g0 = Ok g -> Valid g ->
    to_ms_unscaled g0 N0 = Ok (n, evs) ->
    to_ms_events g0 N0 = Ok (n, evs') ->
    RoundTripArith N0 T (map ev_time evs) (map m_rate (g_migs g)) ->
    build_graph (mkCmd n true n0 [] evs') N0 = Ok h ->
    nth_error (g_demes g) i = Some di -> nth_error (g_demes g) j = Some dj -> i <> j ->
    ok T -> nle n0 T = true ->
    nlt T (d_start di) = true -> nlt T (d_start dj) = true ->
    let T' := dv N0 T in
    let back := gmigs_in_force h (deme_name (S j)) (deme_name (S i)) (scale N0 T') in
    match active_mig g (d_name dj) (d_name di) T with
    | Some m =>
        let x := nfloat (nmul (nmul n4 N0) (m_rate m)) in
        if neqb x n0 then back = []
        else exists m' y, back = [m'] /\ neqb y x = true /\ m_rate m' = ndiv y (nmul n4 N0)
    | None => back = []
    end.
  Proof.
    intros Hg V Hun Hev RT Hbg Hdi Hdj Hij OT HT0 HTi HTj T' back.
    destruct (to_ms_events_inv _ _ _ _ Hev) as (evs2 & Hun2 & ->).
    rewrite Hun in Hun2. injection Hun2 as <-.
    destruct RT as [Hmul DL HZ DM SM Hnn Hfin HT'0 HsT0 HsTfin HR].
    destruct (to_ms_events_ok _ _ _ _ _ Hg V Hun HR) as (Hn & TS & Hevs).
    destruct (ms_at_scaled _ _ _ _ _ T Hg V Hun OT DM) as (st & st' & Hat' & Hat & HS & SQ & Hnp).
    assert (i < n /\ j < n) as [Hi Hj] by (rewrite Hn; split; apply nth_error_Some; congruence).
    set (evs' := map (sc_ev N0) evs) in *.
    assert (forall e, In e evs -> ok (ev_time e)) as OU by (intros e He; now apply Hevs).
    assert (forall e, In e evs -> In (ev_time e) (T :: map ev_time evs) /\ ok (ev_time e)) as Hin.
    { intros e He. split; [right; now apply in_map|now apply OU]. }
    assert (TimeSorted evs') as TS' by (eapply TimeSorted_scaled; eauto).
    assert (forall e, In e evs' -> ok (ev_time e) /\ nle n0 (ev_time e) = true) as Hev'.
    { intros e He. apply in_map_iff in He. destruct He as (e0 & <- & He0). rewrite ev_time_sc.
      assert (nle n0 (dv N0 (ev_time e0)) = true) as X by (apply Hnn; now apply in_map).
      split; [apply le_true in X; tauto|exact X]. }
    assert (sort_events evs' = evs') as Sid.
    { apply sort_events_id; [|exact TS']. intros e He. now apply Hev'. }
    assert (map ev_time evs' = map (dv N0) (map ev_time evs)) as Etimes.
    { unfold evs'. rewrite !map_map. apply map_ext. intro e. apply ev_time_sc. }
    (* the to_ms side *)
    pose proof (to_ms_rates g0 g N0 n evs T st i j di dj Hg V Hun OT HT0 Hat Hdi Hdj Hij HTi HTj) as Hrate.
    destruct (to_ms_alive g0 g N0 n evs T st i di Hg V Hun OT HT0 Hat Hdi) as (pi & Hpi & Api).
    destruct (to_ms_alive g0 g N0 n evs T st j dj Hg V Hun OT HT0 Hat Hdj) as (pj & Hpj & Apj).
    assert (nle (d_start di) T = false /\ nle (d_start dj) T = false) as [Li Lj].
    { assert (ok (d_start di) /\ ok (d_start dj)) as [? ?] by (apply lt_true in HTi, HTj; tauto).
      split; nord. }
    rewrite Li, andb_false_r in Api. rewrite Lj, andb_false_r in Apj. cbn [negb] in Api, Apj.
    assert (sentry st' i j = entry st i j) as Esen.
    { apply sentry_entry; auto; try lia; unfold alive_at; [rewrite Hpi|rewrite Hpj]; assumption. }
    (* the from_ms side *)
    pose proof (SameMig_npops _ _ HS) as Enp.
    pose proof (from_ms_rates (mkCmd n true n0 [] evs') N0 h T' st' i j Hmul DL) as HF.
    cbn [c_npop c_irate c_init c_events app] in HF.
    rewrite Sid, Etimes in HF.
    specialize (HF ltac:(lia) (fun _ => ok_0)).
    assert (forall e, In e evs' -> SquareMa e /\ EvOk e) as Hsq.
    { intros e He. apply in_map_iff in He. destruct He as (e0 & <- & He0).
      destruct (Hevs e0 He0) as (_ & M & O). split; [apply noM_sc; exact M|apply EvOk_sc; exact O]. }
    specialize (HF (fun e He => proj1 (Hsq e He)) (fun e He => proj2 (Hsq e He)) Hev').
    assert (forall e, In e evs' -> nisinf (scale N0 (ev_time e)) = false) as Hfin'.
    { intros e He. apply in_map_iff in He. destruct He as (e0 & <- & He0). rewrite ev_time_sc.
      apply Hfin. now apply in_map. }
    assert (ok T') as OT' by (apply le_true in HT'0; tauto).
    specialize (HF Hfin' TS' SM OT' HT'0 HsT0 HsTfin Hbg Hat').
    specialize (HF ltac:(lia) ltac:(lia) Hij).
    fold back in HF. rewrite Esen in HF.
    destruct (active_mig g (d_name dj) (d_name di) T) as [m|].
    - cbv zeta. rewrite Hrate in HF.
      set (x := nfloat (nmul (nmul n4 N0) (m_rate m))) in *.
      destruct back as [|m' [|m2 rest]].
      + rewrite HF. reflexivity.
      + destruct HF as (y & Y1 & Y2 & Y3).
        assert (neqb x n0 = false) as ->.
        { assert (ok y /\ ok x) as [? ?] by (apply eq_true in Y1; tauto). pose proof ok_0. nord. }
        exists m', y. auto.
      + contradiction.
    - assert (neqb (entry st i j) n0 = true) as Z by (apply (zero_entry_zero n); auto; lia).
      destruct back as [|m' [|m2 rest]]; [reflexivity| |contradiction].
      exfalso. destruct HF as (y & Y1 & Y2 & _).
      assert (ok y /\ ok (entry st i j)) as [? ?] by (apply eq_true in Y1; tauto). pose proof ok_0. nord.
  Qed.
End RoundTrip.

Print Assumptions run_upto_scaled.
Print Assumptions to_ms_numbering_conv.
Print Assumptions wn_run.
Print Assumptions ms_at_scaled.
Print Assumptions ms_round_trip_rates.

