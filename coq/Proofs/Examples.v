(* Non-vacuity: a concrete, non-trivial graph over the exact-rational instance NumQ that
   satisfies the hypotheses of the property theorems, and the arithmetic hypotheses
   (SumOK, SumOne, InfUnique, ArithLaws, SumLaws) discharged for NumQ. *)
From Coq Require Import Bool List String QArith Qabs Lqa Arith Lia.
From Demes Require Import Base.Num Base.NumQ Base.Py Model.MDM Model.Codec Model.MigMat Model.Resolve
  Model.Simplify Model.IO Model.SizeAt Model.Ancestry Model.InGen Model.Rename Model.Close Model.Validb
  Spec.Valid Proofs.ValidbProofs Proofs.MigMatProofs Proofs.ResolveMigs Proofs.SumOKQ
  Proofs.SimplifyDemes Proofs.SimplifyQ Proofs.IOProofs Proofs.SizeAtProofs Proofs.AncestryProofs
  Proofs.RenameProofs Proofs.FixedPoint Proofs.SimplifyProofs Proofs.ResolveValid.
Import ListNotations.
Local Open Scope string_scope.
Local Open Scope list_scope.

(* ------------------------------------------------------------------ *)
(* TASK 1: the missing law instance.  (ArithLaws NumQ is NumQArith in Base/NumQ.v.)
   Value-equivalence on qx: equal rationals (flags ignored) or the same non-finite constructor
   (NaN ~ NaN included, which makes every operation a congruence). *)

Definition qveq (x y : qx) : Prop :=
  match x, y with
  | QF a _, QF b _ => a == b
  | QPInf, QPInf | QNInf, QNInf | QNaN, QNaN => True
  | _, _ => False
  end.

Lemma Qle_bool_compat x x' y y' : x == x' -> y == y' -> Qle_bool x y = Qle_bool x' y'.
Proof.
  intros E1 E2. destruct (Qle_bool x y) eqn:Hx; destruct (Qle_bool x' y') eqn:Hy; try reflexivity.
  - apply Qle_bool_iff in Hx. rewrite E1, E2 in Hx. apply Qle_bool_iff in Hx. congruence.
  - apply Qle_bool_iff in Hy. rewrite <- E1, <- E2 in Hy. apply Qle_bool_iff in Hy. congruence.
Qed.

Lemma qveq_refl x : qveq x x.
Proof. destruct x; cbn; auto. reflexivity. Qed.

Lemma qveq_of_eqb x y : qx_eqb x y = true -> qveq x y.
Proof. destruct x, y; cbn; try discriminate; auto. apply Qeq_bool_iff. Qed.

Lemma qveq_add x x' y y' : qveq x x' -> qveq y y' -> qveq (qx_add x y) (qx_add x' y').
Proof. destruct x, x', y, y'; cbn; try tauto. intros H1 H2. rewrite H1, H2. reflexivity. Qed.

Lemma qveq_sub x x' y y' : qveq x x' -> qveq y y' -> qveq (qx_sub x y) (qx_sub x' y').
Proof. destruct x, x', y, y'; cbn; try tauto. intros H1 H2. rewrite H1, H2. reflexivity. Qed.

Lemma qveq_abs x x' : qveq x x' -> qveq (qx_abs x) (qx_abs x').
Proof. destruct x, x'; cbn; try tauto. intros H1. rewrite H1. reflexivity. Qed.

Lemma qveq_float x x' : qveq x x' -> qveq (qx_float x) (qx_float x').
Proof. destruct x, x'; cbn; tauto. Qed.

Lemma signed_inf_compat a b : a == b -> qx_signed_inf a = qx_signed_inf b.
Proof. intro H. unfold qx_signed_inf, Qlt_bool.
  rewrite (Qle_bool_compat a b 0 0 H (Qeq_refl 0)). rewrite H. reflexivity. Qed.

Lemma qveq_mul x x' y y' : qveq x x' -> qveq y y' -> qveq (qx_mul x y) (qx_mul x' y').
Proof.
  destruct x, x', y, y'; cbn; try tauto; intros H1 H2;
    try (rewrite H1, H2; reflexivity);
    try (rewrite (signed_inf_compat _ _ H1); apply qveq_refl);
    try (rewrite (signed_inf_compat _ _ H2); apply qveq_refl).
  - rewrite (signed_inf_compat (- q) (- q0)); [apply qveq_refl | rewrite H1; reflexivity].
  - rewrite (signed_inf_compat (- q) (- q0)); [apply qveq_refl | rewrite H2; reflexivity].
Qed.

Lemma qveq_le x x' y y' : qveq x x' -> qveq y y' -> qx_le x y = qx_le x' y'.
Proof. destruct x, x', y, y'; cbn; try tauto. intros H1 H2. apply Qle_bool_compat; assumption. Qed.

Lemma qveq_eqb x x' y y' : qveq x x' -> qveq y y' -> qx_eqb x y = qx_eqb x' y'.
Proof. destruct x, x', y, y'; cbn; try tauto. intros H1 H2. rewrite H1, H2. reflexivity. Qed.

Lemma qveq_isinf x x' : qveq x x' -> qx_isinf x = qx_isinf x'.
Proof. destruct x, x'; cbn; tauto. Qed.

Lemma qveq_isnan x x' : qveq x x' -> qx_isnan x = qx_isnan x'.
Proof. destruct x, x'; cbn; tauto. Qed.

Lemma isclose_qveq a a' b r t : qveq a a' -> @isclose NumQ a b r t = @isclose NumQ a' b r t.
Proof.
  intro H. unfold isclose. cbn.
  rewrite (qveq_eqb a a' b b H (qveq_refl b)).
  rewrite (qveq_isinf a a' H).
  assert (D : qveq (qx_abs (qx_sub (qx_float b) (qx_float a))) (qx_abs (qx_sub (qx_float b) (qx_float a')))).
  { apply qveq_abs, qveq_sub; [apply qveq_refl | apply qveq_float, H]. }
  rewrite (qveq_le _ _ _ _ D (qveq_refl (qx_abs (qx_mul r (qx_float b))))).
  rewrite (qveq_le _ _ (qx_abs (qx_mul r (qx_float a))) (qx_abs (qx_mul r (qx_float a'))) D).
  2:{ apply qveq_abs, qveq_mul; [apply qveq_refl | apply qveq_float, H]. }
  rewrite (qveq_le _ _ _ _ D (qveq_refl t)).
  reflexivity.
Qed.

Lemma pysum_f_qveq l l' :
  Forall2 qveq l l' ->
  (forall x, In x l -> qx_isint x = false) -> (forall y, In y l' -> qx_isint y = false) ->
  forall f f' c c', qveq f f' -> qveq c c' ->
  qveq (@pysum_f NumQ l f c) (@pysum_f NumQ l' f' c').
Proof.
  induction 1 as [|x y l l' Hxy Hl IH]; intros I I' f f' c c' Hf Hc.
  - cbn. rewrite (qveq_eqb c c' _ _ Hc (qveq_refl _)), (qveq_isinf c c' Hc), (qveq_isnan c c' Hc).
    destruct (_ && _); auto using qveq_add.
  - cbn. rewrite (I x (or_introl eq_refl)), (I' y (or_introl eq_refl)).
    assert (T : qveq (qx_add f x) (qx_add f' y)) by auto using qveq_add.
    rewrite (qveq_le (qx_abs x) (qx_abs y) (qx_abs f) (qx_abs f')) by auto using qveq_abs.
    apply IH; auto.
    + intros z Hz; apply I; now right.
    + intros z Hz; apply I'; now right.
    + destruct (qx_le _ _); auto using qveq_add, qveq_sub.
Qed.

Lemma pysum_qveq l l' :
  Forall2 qveq l l' ->
  (forall x, In x l -> qx_isint x = false) -> (forall y, In y l' -> qx_isint y = false) ->
  qveq (@pysum NumQ l) (@pysum NumQ l').
Proof.
  intros H I I'. unfold pysum. destruct H as [|x y l l' Hxy Hl].
  - apply qveq_refl.
  - change (qveq (if qx_isint x then @pysum_i NumQ l (qx_add (QF 0 true) x)
                  else @pysum_f NumQ l (qx_add (QF 0 true) x) (QF 0 false))
                 (if qx_isint y then @pysum_i NumQ l' (qx_add (QF 0 true) y)
                  else @pysum_f NumQ l' (qx_add (QF 0 true) y) (QF 0 false))).
    rewrite (I x (or_introl eq_refl)), (I' y (or_introl eq_refl)).
    apply pysum_f_qveq; auto.
    + intros z Hz; apply I; now right.
    + intros z Hz; apply I'; now right.
    + apply qveq_add; [apply qveq_refl | assumption].
    + apply qveq_refl.
Qed.

#[export] Instance NumQSum : SumLaws NumQ NumQLaws.
Proof.
  split.
  - intros [a i| | |]; reflexivity.
  - reflexivity.
  - intros a a' b r t H. apply isclose_qveq, qveq_of_eqb, H.
  - intros l l' H I I'.
    assert (V : qveq (@pysum NumQ l) (@pysum NumQ l')).
    { apply pysum_qveq; auto. clear I I'. induction H; constructor; auto using qveq_of_eqb. }
    destruct (@pysum NumQ l), (@pysum NumQ l'); cbn in *; try tauto.
    left. apply Qeq_bool_iff, V.
Qed.

(* ------------------------------------------------------------------ *)
(* TASK 2: a document with three demes (root A with a constant and a linear epoch; B branching
   off A at time 100 with an exponential epoch (inferred); C an admixture of A and B at time 50),
   one symmetric migration A<->B with default rate and default bounds, one directional migration
   with explicit bounds, one pulse; written with omitted fields and a defaults section, as a
   human would. *)
Definition q (n d : Z) (i : bool) : qx := QF (n # Z.to_pos d) i.
Definition JI (n : Z) : @jv NumQ := JNum (q n 1 true).
Definition JF (n d : Z) : @jv NumQ := JNum (q n d false).

Definition ex_doc : @jv NumQ :=
  JDict [
    ("description", JStr "non-vacuity example");
    ("time_units", JStr "years");
    ("generation_time", JI 25);
    ("defaults", JDict [
       ("epoch", JDict [("start_size", JI 1000)]);
       ("migration", JDict [("rate", JF 1 10000)])]);
    ("demes", JList [
       JDict [("name", JStr "A");
              ("epochs", JList [
                 JDict [("end_time", JI 200)];
                 JDict [("end_time", JI 0); ("end_size", JI 2000); ("size_function", JStr "linear")]])];
       JDict [("name", JStr "B"); ("ancestors", JList [JStr "A"]); ("start_time", JI 100);
              ("epochs", JList [
                 JDict [("start_size", JI 100); ("end_size", JI 500); ("end_time", JI 0)]])];
       JDict [("name", JStr "C"); ("ancestors", JList [JStr "A"; JStr "B"]);
              ("proportions", JList [JF 3 4; JF 1 4]); ("start_time", JI 50);
              ("epochs", JList [JDict [("start_size", JF 401 2)]])]]);
    ("migrations", JList [
       JDict [("demes", JList [JStr "A"; JStr "B"])];
       JDict [("source", JStr "A"); ("dest", JStr "C"); ("rate", JF 1 1000);
              ("start_time", JI 40); ("end_time", JI 10)]]);
    ("pulses", JList [
       JDict [("sources", JList [JStr "A"]); ("dest", JStr "B"); ("time", JI 20);
              ("proportions", JList [JF 1 10])]])
  ].

(* resolution accepts it; the result is computed by vm_compute *)
Definition ex_graph : @graph NumQ :=
  Eval vm_compute in
    match fromdict ex_doc with
    | Ok g => g
    | Err _ => mkGraph "" "" n0 [] JNull [] [] [] []
    end.

Example ex_resolves : fromdict ex_doc = Ok ex_graph.
Proof. vm_compute. reflexivity. Qed.

(* the verified checker accepts it, hence it satisfies the declarative predicate *)
Example ex_validb : validb ex_graph = true.
Proof. vm_compute. reflexivity. Qed.
Theorem ex_valid : Valid ex_graph.
Proof. apply validb_sound. exact ex_validb. Qed.

(* it is non-trivial *)
Example ex_shape : List.length (g_demes ex_graph) = 3%nat /\ List.length (g_migs ex_graph) = 3%nat /\
                   List.length (g_pulses ex_graph) = 1%nat.
Proof. vm_compute. repeat split. Qed.

Example ex_names : map d_name (g_demes ex_graph) = ["A"; "B"; "C"] /\
                   map (fun d => map e_sf (d_epochs d)) (g_demes ex_graph)
                   = [["constant"; "linear"]; ["exponential"]; ["constant"]].
Proof. vm_compute. split; reflexivity. Qed.

(* ------------------------------------------------------------------ *)
(* TASK 3: the main theorems instantiate on it. *)
Theorem ex_simplify_roundtrip :
  exists doc g', asdict_simplified ex_graph = Ok doc /\ fromdict doc = Ok g' /\ GraphVEq ex_graph g'.
Proof. exact (simplify_resolves ex_graph sumone_Q sumok_Q ex_valid). Qed.

Theorem ex_fixed_point : exists g', fromdict (asdict ex_graph) = Ok g' /\ asdict g' = asdict ex_graph.
Proof.
  destruct (asdict_fixed ex_graph ex_valid) as (g' & A & _ & C).
  exists g'. split; assumption.
Qed.

Theorem ex_inf_unique : @InfUnique NumQ.
Proof. exact InfUnique_NumQ. Qed.

(* computed sanity checks on the same graph (vm_compute): size_at inside an exponential epoch is
   not computable exactly on NumQ (nexp), so use the constant and linear parts; migration
   matrices; rename with a swap *)
Example ex_size_outside : exists d, nth_error (g_demes ex_graph) 1 = Some d /\ size_at d (q 100 1 true) = Ok n0.
Proof. eexists. split; [vm_compute; reflexivity|]. vm_compute. reflexivity. Qed.

(* B (position 1) at its end time has its end size; A (position 0) halfway through its linear
   epoch [200, 0) from 1000 to 2000 has size 1500, and 1000 in the constant epoch *)
Example ex_size_boundary : exists d, nth_error (g_demes ex_graph) 1 = Some d /\
                                     size_at d (q 0 1 true) = Ok (q 500 1 true).
Proof. eexists. split; [vm_compute; reflexivity|]. vm_compute. reflexivity. Qed.
Example ex_size_linear : exists d s, nth_error (g_demes ex_graph) 0 = Some d /\
                                     size_at d (q 100 1 true) = Ok s /\ neqb s (q 1500 1 true) = true.
Proof. eexists. eexists. split; [vm_compute; reflexivity|]. split; vm_compute; reflexivity. Qed.
Example ex_size_constant : exists d, nth_error (g_demes ex_graph) 0 = Some d /\
                                     size_at d (q 300 1 true) = Ok (q 1000 1 true).
Proof. eexists. split; [vm_compute; reflexivity|]. vm_compute. reflexivity. Qed.

Example ex_matrices : exists mms ets, migration_matrices ex_graph = Ok (mms, ets) /\ (2 <= List.length ets)%nat.
Proof. eexists. eexists. split; [vm_compute; reflexivity|]. vm_compute. lia. Qed.

(* the interval boundaries are exactly the migration start/end times *)
Example ex_matrix_times : exists mms, migration_matrices ex_graph
                                      = Ok (mms, [q 100 1 true; q 40 1 true; q 10 1 true; q 0 1 true])
                                      /\ List.length mms = 4%nat.
Proof. eexists. split; vm_compute; reflexivity. Qed.

Example ex_rename_swap :
  exists h, rename_demes [("A", "B"); ("B", "A")] ex_graph = Ok h /\ lookup h "A" <> Err KeyErr.
Proof. eexists. split; [vm_compute; reflexivity|]. vm_compute. discriminate. Qed.

(* after the swap the name "A" denotes the deme that used to be "B" (start time 100) *)
Example ex_rename_swap_start :
  exists h d, rename_demes [("A", "B"); ("B", "A")] ex_graph = Ok h /\ lookup h "A" = Ok d /\
              d_start d = q 100 1 true /\ d_anc d = ["B"].
Proof. eexists. eexists. split; [vm_compute; reflexivity|]. split; [vm_compute; reflexivity|]. split; reflexivity. Qed.

Print Assumptions NumQSum.
Print Assumptions ex_resolves.
Print Assumptions ex_validb.
Print Assumptions ex_valid.
Print Assumptions ex_shape.
Print Assumptions ex_simplify_roundtrip.
Print Assumptions ex_fixed_point.
Print Assumptions ex_inf_unique.
Print Assumptions ex_size_outside.
Print Assumptions ex_matrices.
Print Assumptions ex_rename_swap.
