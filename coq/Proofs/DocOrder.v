(* C02 — the order of the keys of a mapping never matters: two documents that differ only
   in the order of keys inside any of their mappings (top level, defaults, demes, epochs,
   migrations, pulses; keys unique, as in any parsed YAML/JSON document) resolve to the same
   graph.  The value under "metadata" is user data stored in the graph as it is, so it is
   required to be literally the same. *)
From Coq Require Import Bool List String QArith Lqa Lia Arith Permutation.
From Demes Require Import Base.Num Base.Py Model.MDM Model.Resolve Spec.Valid
  Proofs.ResolveInv Proofs.ResolveRules.
Import ListNotations.
Local Open Scope string_scope.
Local Open Scope list_scope.

(* ------------------------------------------------------------------ *)
(* results / options related up to a relation on their payload; errors are all alike *)

Definition rrel {A B} (R : A -> B -> Prop) (r : res A) (r' : res B) : Prop :=
  match r, r' with Ok a, Ok b => R a b | Err _, Err _ => True | _, _ => False end.
Definition orel {A B} (R : A -> B -> Prop) (o : option A) (o' : option B) : Prop :=
  match o, o' with Some a, Some b => R a b | None, None => True | _, _ => False end.

Lemma rrel_bind {A A' B B'} (R : A -> A' -> Prop) (S : B -> B' -> Prop) m m' k k' :
  rrel R m m' -> (forall a a', R a a' -> rrel S (k a) (k' a')) ->
  rrel S (bind m k) (bind m' k').
Proof. destruct m, m'; cbn; intros H Hk; auto; contradiction. Qed.

Lemma rrel_eq_refl {A} (r : res A) : rrel eq r r.
Proof. destruct r; cbn; auto. Qed.

Lemma rrel_forcing {A} (r r' : res A) :
  (forall a, r = Ok a -> r' = r) -> (forall a, r' = Ok a -> r = r') -> rrel eq r r'.
Proof.
  destruct r as [a|e], r' as [b|e']; cbn; intros H1 H2; auto.
  - specialize (H1 a eq_refl). congruence.
  - specialize (H1 a eq_refl). discriminate.
  - specialize (H2 b eq_refl). discriminate.
Qed.

Lemma rrel_unit (r r' : res unit) : (r = Ok tt <-> r' = Ok tt) -> rrel eq r r'.
Proof.
  destruct r as [[]|e], r' as [[]|e']; cbn; intros [H1 H2]; auto.
  - specialize (H1 eq_refl); discriminate.
  - specialize (H2 eq_refl); discriminate.
Qed.

Lemma rrel_eq_ok {A} (r r' : res A) a : rrel eq r r' -> r = Ok a -> r' = Ok a.
Proof. intros H ->. destruct r'; cbn in H; [congruence|contradiction]. Qed.
Lemma rrel_eq_ok_rev {A} (r r' : res A) a : rrel eq r r' -> r' = Ok a -> r = Ok a.
Proof. intros H ->. destruct r; cbn in H; [congruence|contradiction]. Qed.

Lemma orel_inv {A B} (R : A -> B -> Prop) o o' :
  orel R o o' -> (o = None /\ o' = None) \/ exists a b, o = Some a /\ o' = Some b /\ R a b.
Proof. destruct o as [a|], o' as [b|]; cbn; intro H; try contradiction; [right|left]; eauto. Qed.

Lemma orel_req {A B} (R : A -> B -> Prop) o o' e :
  orel R o o' ->
  rrel R (match o with Some v => Ok v | None => Err e end)
         (match o' with Some v => Ok v | None => Err e end).
Proof. destruct o, o'; cbn; auto. Qed.

Lemma forM_ok_iff {A} (f : A -> res unit) l :
  forM_ f l = Ok tt <-> forall x, In x l -> f x = Ok tt.
Proof.
  induction l as [|a l IH]; cbn.
  - split; [intros _ x []|auto].
  - destruct (f a) as [[]|e] eqn:E; cbn.
    + rewrite IH. split.
      * intros H x [<-|Hx]; auto.
      * intros H x Hx. apply H. now right.
    + split; [discriminate|]. intro H. specialize (H a (or_introl eq_refl)). congruence.
Qed.

Lemma forM_rrel {A A'} (R : A -> A' -> Prop) (f : A -> res unit) (f' : A' -> res unit) l l' :
  Forall2 R l l' -> (forall a a', R a a' -> rrel eq (f a) (f' a')) ->
  rrel eq (forM_ f l) (forM_ f' l').
Proof.
  induction 1 as [|a a' l l' Ha _ IH]; intro Hf; cbn; [reflexivity|].
  apply (rrel_bind eq); [now apply Hf|]. intros _ _ _. now apply IH.
Qed.

Lemma foldM_rrel {A A' S} (R : A -> A' -> Prop) (f : S -> A -> res S) (f' : S -> A' -> res S) l l' :
  Forall2 R l l' -> (forall s a a', R a a' -> rrel eq (f s a) (f' s a')) ->
  forall s, rrel eq (foldM f l s) (foldM f' l' s).
Proof.
  induction 1 as [|a a' l l' Ha _ IH]; intros Hf s; cbn; [reflexivity|].
  apply (rrel_bind eq); [now apply Hf|]. intros s1 ? <-. now apply IH.
Qed.

Lemma foldM_ok_each {A S} (f : S -> A -> res S) l : forall s s',
  foldM f l s = Ok s' -> forall a, In a l -> exists s1 s2, f s1 a = Ok s2.
Proof.
  induction l as [|x l IH]; intros s s' H a Hin; [destruct Hin|].
  cbn in H. mbind H s1 H1. destruct Hin as [<-|Hin]; eauto.
Qed.

Lemma filter_true {A} (f : A -> bool) l : (forall x, f x = true) -> filter f l = l.
Proof. intro H. induction l as [|a l IH]; cbn; [reflexivity|]. now rewrite H, IH. Qed.

(* the bound computation is literally the same on both sides *)
Ltac rb_same := apply (rrel_bind eq); [apply rrel_eq_refl|intros ? ? <-].

Section DocOrder.
  Context {N : NumOps} {L : NumLaws N}.

  Inductive KeyOrd : jv -> jv -> Prop :=
  | KO_refl v : KeyOrd v v
  | KO_list l l' : Forall2 KeyOrd l l' -> KeyOrd (JList l) (JList l')
  | KO_dict kv kv1 kv' :
      Forall2 (fun a b => fst a = fst b /\ (fst a = "metadata" -> snd a = snd b) /\
                          KeyOrd (snd a) (snd b)) kv kv1 ->
      Permutation kv1 kv' -> NoDup (map fst kv) ->
      KeyOrd (JDict kv) (JDict kv').

  (* ---------------------------------------------------------------- *)
  (* association lists with unique keys *)

  Lemma assoc_in {A} k (l : list (string * A)) v : assoc k l = Some v -> In (k, v) l.
  Proof.
    induction l as [|[k0 v0] l IH]; cbn; [discriminate|].
    destruct (String.eqb k k0) eqn:E.
    - apply String.eqb_eq in E. subst. intro H. injection H as <-. now left.
    - intro H. right. auto.
  Qed.

  Lemma in_assoc {A} k (l : list (string * A)) v :
    NoDup (map fst l) -> In (k, v) l -> assoc k l = Some v.
  Proof.
    induction l as [|[k0 v0] l IH]; cbn; intros ND Hin; [contradiction|].
    inversion ND as [|? ? Hni ND']; subst.
    destruct Hin as [E|Hin].
    - injection E as -> ->. now rewrite String.eqb_refl.
    - destruct (String.eqb k k0) eqn:E.
      + apply String.eqb_eq in E. subst. exfalso. apply Hni.
        change k0 with (fst (k0, v)). now apply in_map.
      + auto.
  Qed.

  Lemma assoc_perm {A} k (l l' : list (string * A)) :
    NoDup (map fst l) -> Permutation l l' -> assoc k l = assoc k l'.
  Proof.
    intros ND P.
    assert (ND' : NoDup (map fst l'))
      by (eapply Permutation_NoDup; [apply Permutation_map; exact P|exact ND]).
    destruct (assoc k l) as [v|] eqn:E.
    - symmetry. apply in_assoc; auto. eapply Permutation_in; [exact P|]. now apply assoc_in.
    - destruct (assoc k l') as [v|] eqn:E'; auto.
      apply assoc_in in E'. apply Permutation_sym in P.
      eapply Permutation_in in E'; [|exact P]. apply in_assoc in E'; auto. congruence.
  Qed.

  (* ---------------------------------------------------------------- *)
  (* what KeyOrd says about two dictionaries, in the form fromdict consults them *)

  Definition KR (k : string) (a b : jv) : Prop := KeyOrd a b /\ (k = "metadata" -> a = b).
  Definition ARel (kv kv' : list (string * jv)) : Prop :=
    forall k, orel (KR k) (assoc k kv) (assoc k kv').
  Definition DictRel (kv kv' : list (string * jv)) : Prop :=
    ARel kv kv' /\
    (forall k v, In (k, v) kv -> exists v', In (k, v') kv' /\ KR k v v') /\
    (forall k v', In (k, v') kv' -> exists v, In (k, v) kv /\ KR k v v').

  Definition PR (a b : string * jv) : Prop :=
    fst a = fst b /\ (fst a = "metadata" -> snd a = snd b) /\ KeyOrd (snd a) (snd b).

  Lemma KR_refl k v : KR k v v.
  Proof. split; [constructor|auto]. Qed.

  Lemma ARel_refl kv : ARel kv kv.
  Proof. intro k. destruct (assoc k kv); cbn; auto using KR_refl. Qed.

  Lemma DictRel_refl kv : DictRel kv kv.
  Proof. split; [apply ARel_refl|]. split; intros k v H; exists v; auto using KR_refl. Qed.

  Lemma pr_arel kv kv1 : Forall2 PR kv kv1 -> ARel kv kv1.
  Proof.
    induction 1 as [|[k0 v0] [k1 v1] l l1 (Hk & Hm & Hv) _ IH]; intro k; cbn; [exact I|].
    cbn in Hk, Hm, Hv. subst k1. destruct (String.eqb k k0) eqn:E; [|apply IH].
    apply String.eqb_eq in E. subst. cbn. split; auto.
  Qed.

  Lemma pr_keys kv kv1 : Forall2 PR kv kv1 -> map fst kv = map fst kv1.
  Proof. induction 1 as [|a b l l1 (Hk & _) _ IH]; cbn; congruence. Qed.

  Lemma pr_in_l kv kv1 : Forall2 PR kv kv1 ->
    forall k v, In (k, v) kv -> exists v1, In (k, v1) kv1 /\ KR k v v1.
  Proof.
    induction 1 as [|[k0 v0] [k1 v1] l l1 (Hk & Hm & Hv) _ IH]; intros k v Hin; [destruct Hin|].
    cbn in Hk, Hm, Hv. subst k1. destruct Hin as [E|Hin].
    - injection E as <- <-. exists v1. split; [now left|split; auto].
    - destruct (IH _ _ Hin) as (v' & Hin' & HK). exists v'. split; [now right|auto].
  Qed.

  Lemma pr_in_r kv kv1 : Forall2 PR kv kv1 ->
    forall k v1, In (k, v1) kv1 -> exists v, In (k, v) kv /\ KR k v v1.
  Proof.
    induction 1 as [|[k0 v0] [k1 v1] l l1 (Hk & Hm & Hv) _ IH]; intros k v Hin; [destruct Hin|].
    cbn in Hk, Hm, Hv. subst k1. destruct Hin as [E|Hin].
    - injection E as <- <-. exists v0. split; [now left|split; auto].
    - destruct (IH _ _ Hin) as (v' & Hin' & HK). exists v'. split; [now right|auto].
  Qed.

  Lemma ko_dictrel kv kv1 kv' :
    Forall2 PR kv kv1 -> Permutation kv1 kv' -> NoDup (map fst kv) -> DictRel kv kv'.
  Proof.
    intros HF HP ND.
    assert (ND1 : NoDup (map fst kv1)) by (rewrite <- (pr_keys _ _ HF); exact ND).
    split; [|split].
    - intro k. rewrite <- (assoc_perm k _ _ ND1 HP). now apply pr_arel.
    - intros k v Hin. destruct (pr_in_l _ _ HF _ _ Hin) as (v1 & H1 & HK).
      exists v1. split; auto. eapply Permutation_in; eauto.
    - intros k v' Hin. apply Permutation_sym in HP. eapply Permutation_in in Hin; [|exact HP].
      destruct (pr_in_r _ _ HF _ _ Hin) as (v & H1 & HK). eauto.
  Qed.

  Lemma dictrel_emp kv kv' :
    DictRel kv kv' -> Nat.eqb (List.length kv) 0 = Nat.eqb (List.length kv') 0.
  Proof.
    intros (_ & H1 & H2). destruct kv as [|[k v] kv], kv' as [|[k' v'] kv']; cbn; auto.
    - destruct (H2 k' v' (or_introl eq_refl)) as (? & [] & _).
    - destruct (H1 k v (or_introl eq_refl)) as (? & [] & _).
  Qed.

  Lemma merge_emp glob loc :
    Nat.eqb (List.length (merge_defaults glob loc)) 0
    = Nat.eqb (List.length loc) 0 && Nat.eqb (List.length glob) 0.
  Proof.
    unfold merge_defaults. destruct loc as [|p loc]; cbn; [|reflexivity].
    rewrite filter_true; [reflexivity|]. intro; reflexivity.
  Qed.

  Lemma merge_assoc glob loc k :
    assoc k (merge_defaults glob loc)
    = match assoc k loc with Some v => Some v | None => assoc k glob end.
  Proof.
    destruct (assoc k loc) eqn:E; [now apply merge_local_wins|now apply merge_global_fallback].
  Qed.

  Lemma merge_arel g g' l l' :
    ARel g g' -> ARel l l' -> ARel (merge_defaults g l) (merge_defaults g' l').
  Proof.
    intros Hg Hl k. rewrite !merge_assoc.
    destruct (orel_inv _ _ _ (Hl k)) as [[-> ->]|(a & b & -> & -> & H)]; [apply Hg|exact H].
  Qed.

  (* ---------------------------------------------------------------- *)
  (* "scalar" values: on them KeyOrd is equality *)

  Definition sc1 (v : jv) : Prop := match v with JList _ | JDict _ => False | _ => True end.
  Definition sc (v : jv) : Prop :=
    match v with JDict _ => False | JList l => Forall sc1 l | _ => True end.
  Definition osc (o : option jv) : Prop := match o with Some v => sc v | None => True end.

  Lemma sc1_sc v : sc1 v -> sc v.
  Proof. destruct v; cbn; tauto. Qed.

  Lemma ko_sc1_l v v' : KeyOrd v v' -> sc1 v -> v' = v.
  Proof. intros H S. inversion H; subst; auto; cbn in S; contradiction. Qed.
  Lemma ko_sc1_r v v' : KeyOrd v v' -> sc1 v' -> v = v'.
  Proof. intros H S. inversion H; subst; auto; cbn in S; contradiction. Qed.

  Lemma ko_list_l l l' : Forall2 KeyOrd l l' -> Forall sc1 l -> l' = l.
  Proof.
    induction 1 as [|a b l l' Hab _ IH]; intro S; [reflexivity|].
    inversion S; subst. f_equal; [now apply ko_sc1_l|auto].
  Qed.
  Lemma ko_list_r l l' : Forall2 KeyOrd l l' -> Forall sc1 l' -> l = l'.
  Proof.
    induction 1 as [|a b l l' Hab _ IH]; intro S; [reflexivity|].
    inversion S; subst. f_equal; [now apply ko_sc1_r|auto].
  Qed.

  Lemma ko_sc_l v v' : KeyOrd v v' -> sc v -> v' = v.
  Proof.
    intros H S. inversion H as [|l l' HF|]; subst; auto; cbn in S; [|contradiction].
    f_equal. now apply ko_list_l.
  Qed.
  Lemma ko_sc_r v v' : KeyOrd v v' -> sc v' -> v = v'.
  Proof.
    intros H S. inversion H as [|l l' HF|]; subst; auto; cbn in S; [|contradiction].
    f_equal. now apply ko_list_r.
  Qed.

  Lemma oko_sc_l o o' : orel KeyOrd o o' -> osc o -> o' = o.
  Proof.
    destruct o, o'; cbn; try tauto. intros H S. f_equal. now apply ko_sc_l.
  Qed.
  Lemma oko_sc_r o o' : orel KeyOrd o o' -> osc o' -> o = o'.
  Proof.
    destruct o, o'; cbn; try tauto. intros H S. f_equal. now apply ko_sc_r.
  Qed.

  Lemma Forall2_ko_refl l : Forall2 KeyOrd l l.
  Proof. induction l; constructor; auto. constructor. Qed.

  (* ---------------------------------------------------------------- *)
  (* accessors on KeyOrd-related values *)

  Lemma dict_of_ko v v' : KeyOrd v v' -> rrel DictRel (dict_of v) (dict_of v').
  Proof.
    intro H. destruct H as [v|l l' HF|kv kv1 kv' HF HP ND].
    - destruct v; cbn; auto using DictRel_refl.
    - exact I.
    - cbn. eapply ko_dictrel; eauto.
  Qed.

  Lemma list_of_ko v v' : KeyOrd v v' -> rrel (Forall2 KeyOrd) (list_of v) (list_of v').
  Proof.
    intro H. destruct H as [v|l l' HF|kv kv1 kv' HF HP ND].
    - destruct v; cbn; auto using Forall2_ko_refl.
    - cbn. assumption.
    - exact I.
  Qed.

  Lemma is_dict_ko v v' : KeyOrd v v' -> is_dict v = is_dict v'.
  Proof. intro H. destruct H; reflexivity. Qed.

  Lemma pop_object_ko kv kv' k :
    ARel kv kv' -> rrel DictRel (pop_object kv k) (pop_object kv' k).
  Proof.
    intro H. unfold pop_object.
    destruct (orel_inv _ _ _ (H k)) as [[-> ->]|(a & b & -> & -> & Hab)].
    - cbn. apply DictRel_refl.
    - apply dict_of_ko, Hab.
  Qed.

  Lemma field_ko kv kv' def def' k :
    ARel kv kv' -> ARel def def' -> orel (KR k) (field kv def k) (field kv' def' k).
  Proof.
    intros H Hd. unfold field.
    destruct (orel_inv _ _ _ (H k)) as [[-> ->]|(a & b & -> & -> & Hab)]; [apply Hd|exact Hab].
  Qed.

  Lemma field_nn_ko kv kv' def def' k :
    ARel kv kv' -> ARel def def' -> orel KeyOrd (field_nn kv def k) (field_nn kv' def' k).
  Proof.
    intros H Hd. unfold field_nn.
    destruct (orel_inv _ _ _ (field_ko _ _ _ _ k H Hd)) as [[-> ->]|(a & b & -> & -> & Hab & _)];
      [exact I|].
    destruct Hab as [a|l l' HF|kv0 kv1 kv0' HF HP ND].
    - destruct a; cbn; auto; constructor.
    - cbn. now constructor.
    - cbn. econstructor; eauto.
  Qed.

  Lemma jdefault_ko k o o' d : orel (KR k) o o' -> KeyOrd (jdefault o d) (jdefault o' d).
  Proof.
    intro H. destruct (orel_inv _ _ _ H) as [[-> ->]|(a & b & -> & -> & Hab & _)]; cbn;
      [constructor|exact Hab].
  Qed.

  Lemma jdefault_meta o o' d : orel (KR "metadata") o o' -> jdefault o d = jdefault o' d.
  Proof.
    intro H. destruct (orel_inv _ _ _ H) as [[-> ->]|(a & b & -> & -> & _ & Hab)]; cbn; auto.
  Qed.

  Lemma list_dicts_ko v v' : KeyOrd v v' ->
    rrel (Forall2 KeyOrd)
      (l <- list_of v ;; forM_ (fun e => raise_if (negb (is_dict e)) TypeErr) l ;;; Ok l)
      (l <- list_of v' ;; forM_ (fun e => raise_if (negb (is_dict e)) TypeErr) l ;;; Ok l).
  Proof.
    intro H. apply (rrel_bind (Forall2 KeyOrd)); [now apply list_of_ko|]. intros l l' Hl.
    apply (rrel_bind eq).
    - eapply forM_rrel; [exact Hl|]. intros a a' Ha. rewrite (is_dict_ko _ _ Ha). apply rrel_eq_refl.
    - intros _ _ _. exact Hl.
  Qed.

  Lemma dict_list_ko kv kv' k r :
    ARel kv kv' -> rrel (Forall2 KeyOrd) (dict_list kv k r) (dict_list kv' k r).
  Proof.
    intro H. unfold dict_list.
    destruct (orel_inv _ _ _ (H k)) as [[-> ->]|(a & b & -> & -> & Hab & _)].
    - destruct r; cbn; auto.
    - now apply list_dicts_ko.
  Qed.

  Lemma check_allowed_ko kv kv' al :
    DictRel kv kv' -> rrel eq (check_allowed kv al) (check_allowed kv' al).
  Proof.
    intros (_ & H1 & H2). unfold check_allowed. apply rrel_unit. rewrite !forM_ok_iff.
    split; intros H [k v] Hin.
    - destruct (H2 _ _ Hin) as (v0 & Hin0 & _). exact (H _ Hin0).
    - destruct (H1 _ _ Hin) as (v0 & Hin0 & _). exact (H _ Hin0).
  Qed.

  Lemma forM_dict_ko (chk : string * jv -> res unit) kv kv' :
    (forall k v u, chk (k, v) = Ok u -> sc v) ->
    DictRel kv kv' -> rrel eq (forM_ chk kv) (forM_ chk kv').
  Proof.
    intros Hc (_ & H1 & H2). apply rrel_unit. rewrite !forM_ok_iff.
    split; intros H [k v] Hin.
    - destruct (H2 _ _ Hin) as (v0 & Hin0 & HK & _). pose proof (H _ Hin0) as E.
      rewrite (ko_sc_l _ _ HK (Hc _ _ _ E)). exact E.
    - destruct (H1 _ _ Hin) as (v0 & Hin0 & HK & _). pose proof (H _ Hin0) as E.
      rewrite (ko_sc_r _ _ HK (Hc _ _ _ E)). exact E.
  Qed.

  (* ---------------------------------------------------------------- *)
  (* a builder that succeeds has only looked at scalar arguments *)

  Lemma iof_sc1 v x : int_or_float v = Ok x -> sc1 v.
  Proof. now destruct v. Qed.
  Lemma str_of_sc1 v s : str_of v = Ok s -> sc1 v.
  Proof. now destruct v. Qed.
  Lemma deme_name_of_sc1 v s : deme_name_of v = Ok s -> sc1 v.
  Proof. unfold deme_name_of. intro H. mbind H s' Hs. now apply str_of_sc1 in Hs. Qed.
  Lemma is_number_sc1 v : is_number v = true -> sc1 v.
  Proof. now destruct v. Qed.
  Lemma is_str_sc1 v : is_str v = true -> sc1 v.
  Proof. now destruct v. Qed.

  Lemma mapM_sc1 {B} (f : jv -> res B) l r :
    (forall v x, f v = Ok x -> sc1 v) -> mapM f l = Ok r -> Forall sc1 l.
  Proof.
    intros Hf H. apply mapM_inv in H. induction H as [|a b l r Hab _ IH]; constructor; eauto.
  Qed.

  Lemma list_map_sc {B} (f : jv -> res B) v r :
    (forall v x, f v = Ok x -> sc1 v) -> (l <- list_of v ;; mapM f l) = Ok r -> sc v.
  Proof.
    intros Hf H. mbind H l Hl. destruct v; try discriminate. cbn in Hl. injection Hl as ->.
    cbn. eapply mapM_sc1; eauto.
  Qed.

  Lemma names_of_sc v l : names_of v = Ok l -> sc v.
  Proof. apply list_map_sc. apply deme_name_of_sc1. Qed.

  Lemma nums_with_sc chk v l : nums_with chk v = Ok l -> sc v.
  Proof.
    apply list_map_sc. intros x n H. mbind H n' Hn. now apply iof_sc1 in Hn.
  Qed.

  Lemma num_with_sc chks v u : num_with chks v = Ok u -> sc1 v.
  Proof.
    unfold num_with. intro H. mraise H Hn. apply negb_false_iff in Hn. now apply is_number_sc1.
  Qed.

  Ltac cd_split H :=
    repeat match type of H with (if ?b then _ else _) = Ok _ => destruct b end.
  Ltac cd_solve H :=
    first [ discriminate H
          | apply num_with_sc in H; now apply sc1_sc
          | apply raise_if_ok in H; apply negb_false_iff in H; apply sc1_sc; now apply is_str_sc1
          | let l := fresh "l" in let Hl := fresh "Hl" in
            mbind H l Hl;
            first [ now apply names_of_sc in Hl
                  | now apply nums_with_sc in Hl
                  | apply deme_name_of_sc1 in Hl; now apply sc1_sc ] ].

  Lemma cd_deme_sc k v u : check_default_deme (k, v) = Ok u -> sc v.
  Proof. unfold check_default_deme. intro H. cd_split H; cd_solve H. Qed.
  Lemma cd_migration_sc k v u : check_default_migration (k, v) = Ok u -> sc v.
  Proof. unfold check_default_migration. intro H. cd_split H; cd_solve H. Qed.
  Lemma cd_pulse_sc k v u : check_default_pulse (k, v) = Ok u -> sc v.
  Proof. unfold check_default_pulse. intro H. cd_split H; cd_solve H. Qed.
  Lemma cd_epoch_sc k v u : check_default_epoch (k, v) = Ok u -> sc v.
  Proof. unfold check_default_epoch. intro H. cd_split H; cd_solve H. Qed.

  Lemma make_epoch_sc start en ss es sf sr cr e :
    make_epoch start en ss es sf sr cr = Ok e ->
    sc en /\ sc ss /\ sc es /\ osc sf /\ sc sr /\ sc cr.
  Proof.
    intro H. unfold make_epoch in H.
    mbind H u0 Hnn.
    mbind H en' Hen. mbind H u1 Hen1. mbind H u2 Hen2.
    mbind H ss' Hss. mbind H u3 Hss1. mbind H u4 Hss2.
    mbind H es' Hes. mbind H u5 Hes1. mbind H u6 Hes2.
    mbind H sf' Hsf.
    mbind H sr' Hsr. mbind H u7 Hsr1.
    mbind H cr' Hcr.
    apply iof_sc1, sc1_sc in Hen, Hss, Hes, Hsr, Hcr.
    repeat split; auto.
    destruct sf as [[]|]; cbn; auto; discriminate.
  Qed.

  Lemma add_epoch_sc d en ss es sf sr cr d' :
    add_epoch d en ss es sf sr cr = Ok d' ->
    sc en /\ osc ss /\ osc es /\ osc sf /\ sc sr /\ sc cr.
  Proof.
    intro H. unfold add_epoch in H. mbind H r Hr. destruct r as [[start a] b].
    mbind H e He. apply make_epoch_sc in He. destruct He as (H1 & H2 & H3 & H4 & H5 & H6).
    destruct (rev (d_epochs d)); destruct ss, es; cbn in Hr; try discriminate;
      injection Hr as <- <- <-; cbn; auto 10.
  Qed.

  Lemma add_deme_sc g name desc start anc props g1 :
    add_deme g name desc start anc props = Ok g1 ->
    sc name /\ sc desc /\ osc start /\ osc anc /\ osc props.
  Proof.
    intro H. unfold add_deme in H.
    mbind H nmk Hk. mraise H Hcont. mbind H ancl Hancl. mbind H u1 Hfa.
    cbv zeta in H.
    mbind H startv Hstart. mraise H Hisnum. mraise H Hroot. mbind H u2 Hanc.
    mbind H nm Hnm. mbind H ds Hds. mbind H st Hst. mbind H u3 Hpos.
    mbind H an Han. mraise H Hnodup. mraise H Hmem. mbind H pr Hpr.
    apply deme_name_of_sc1, sc1_sc in Hnm. apply str_of_sc1, sc1_sc in Hds.
    repeat split; auto.
    - destruct start as [v|]; cbn; [|exact I]. injection Hstart as <-.
      apply negb_false_iff in Hisnum. now apply sc1_sc, is_number_sc1.
    - destruct anc as [v|]; cbn; [|exact I]. destruct v; try discriminate.
      cbn in Hancl. injection Hancl as ->. cbn. eapply mapM_sc1; [|exact Han].
      apply deme_name_of_sc1.
    - destruct props as [v|]; cbn; [|exact I]. eapply list_map_sc; [|exact Hpr]. apply iof_sc1.
  Qed.

  Lemma ti_sc g a b v r : time_intersection g a b (Some v) = Ok r -> sc1 v.
  Proof.
    unfold time_intersection. intro H.
    mbind H d1 H1. mbind H d2 H2. mbind H e1 He1. mbind H e2 He2. mbind H u Hu.
    mraise Hu Hn. apply negb_false_iff in Hn. now apply is_number_sc1.
  Qed.

  Lemma add_asym_sc g src dst rate start en g' :
    add_asym g src dst rate start en = Ok g' ->
    sc1 src /\ sc1 dst /\ sc1 rate /\ osc start /\ osc en.
  Proof.
    intro H. unfold add_asym in H.
    mbind H u0 Hf. mbind H s Hs. mbind H d Hd. mbind H lh Hlh. destruct lh as [lo hi].
    cbv beta iota in H.
    mbind H st Hst. mbind H en' Hen. mbind H s2 Hs2. mbind H d2 Hd2.
    mbind H st2 Hst2. mbind H u1 Hnn. mbind H en2 Hen2. mbind H u2 Hnn2. mbind H u3 Hfin.
    mbind H r Hr.
    apply str_of_sc1 in Hs, Hd. apply iof_sc1 in Hr.
    repeat split; auto.
    - destruct start as [v|]; cbn; [|exact I]. now apply ti_sc, sc1_sc in Hlh.
    - destruct en as [v|]; cbn; [|exact I]. mbind Hen u4 Hti. now apply ti_sc, sc1_sc in Hti.
  Qed.

  Lemma add_sym_sc g demes rate start en g' :
    add_sym g demes rate start en = Ok g' -> sc demes /\ sc rate /\ osc start /\ osc en.
  Proof.
    unfold add_sym. destruct demes as [| | | |l| |]; try discriminate. intro H.
    mraise H Hlen. apply Nat.ltb_ge in Hlen.
    assert (Hall : forall x, In x l -> exists y, In (x, y) (perms2 l)).
    { intros x Hx. destruct (In_nth_error _ _ Hx) as (i & Hi). destruct i as [|i].
      - destruct (nth_error l 1) as [y|] eqn:Ey.
        + exists y. apply perms2_spec. exists 0%nat, 1%nat. auto.
        + apply nth_error_None in Ey. lia.
      - destruct (nth_error l 0) as [y|] eqn:Ey.
        + exists y. apply perms2_spec. exists (S i), 0%nat. auto.
        + apply nth_error_None in Ey. lia. }
    assert (Hstep : forall x, In x l -> sc1 x /\ sc rate /\ osc start /\ osc en).
    { intros x Hx. destruct (Hall x Hx) as (y & Hxy).
      destruct (foldM_ok_each _ _ _ _ H _ Hxy) as (s1 & s2 & Hs). cbn [fst snd] in Hs.
      apply add_asym_sc in Hs. destruct Hs as (? & ? & ? & ? & ?). auto using sc1_sc. }
    destruct l as [|x l']; [cbn in Hlen; lia|].
    destruct (Hstep x (or_introl eq_refl)) as (_ & ? & ? & ?). repeat split; auto.
    cbn. apply Forall_forall. intros y Hy. apply (Hstep y Hy).
  Qed.

  Lemma add_pulse_sc g sources dest time props g' :
    add_pulse g sources dest time props = Ok g' ->
    sc sources /\ sc dest /\ sc time /\ sc props.
  Proof.
    intro H. unfold add_pulse in H.
    mbind H srcl Hsrcl. mbind H u0 Hf. mbind H d Hd. mbind H srcs Hsrcs.
    mbind H u1 Hti. mraise H Hty. mbind H dd Hdd. mbind H de Hde. mbind H t0 Ht0.
    mraise H Hne. mbind H u2 Hf2. mbind H sn Hsn. mraise H Hlen. mbind H dn Hdn.
    mbind H t Ht. mbind H u3 Hpos. mbind H u4 Hfin. mbind H pr Hpr.
    apply str_of_sc1, sc1_sc in Hd. apply iof_sc1, sc1_sc in Ht. apply nums_with_sc in Hpr.
    repeat split; auto.
    destruct sources; try discriminate. cbn in Hsrcl. injection Hsrcl as ->. cbn.
    eapply mapM_sc1; [|exact Hsrcs]. apply str_of_sc1.
  Qed.

  Lemma make_graph_sc desc units doi gt meta g :
    make_graph desc units doi gt meta = Ok g -> sc desc /\ sc units /\ sc doi /\ sc gt.
  Proof.
    intro H. unfold make_graph in H.
    mbind H ds Hds. mbind H un Hun. mraise H He. mbind H gto Hgto. mbind H dl Hdl.
    mbind H dois Hdois.
    apply str_of_sc1, sc1_sc in Hds, Hun.
    repeat split; auto.
    - destruct doi; try discriminate. cbn in Hdl. injection Hdl as ->. cbn.
      eapply mapM_sc1; [|exact Hdois]. intros v x Hv. mbind Hv s Hs. now apply str_of_sc1 in Hs.
    - destruct gt; cbn in Hgto |- *; auto; discriminate.
  Qed.

  (* ---------------------------------------------------------------- *)
  (* hence the builders do not distinguish KeyOrd-related arguments *)

  Lemma add_deme_ko g n n' d d' s s' a a' p p' :
    KeyOrd n n' -> KeyOrd d d' -> orel KeyOrd s s' -> orel KeyOrd a a' -> orel KeyOrd p p' ->
    rrel eq (add_deme g n d s a p) (add_deme g n' d' s' a' p').
  Proof.
    intros H1 H2 H3 H4 H5. apply rrel_forcing; intros g1 H;
      apply add_deme_sc in H; destruct H as (S1 & S2 & S3 & S4 & S5).
    - now rewrite (ko_sc_l _ _ H1 S1), (ko_sc_l _ _ H2 S2), (oko_sc_l _ _ H3 S3),
        (oko_sc_l _ _ H4 S4), (oko_sc_l _ _ H5 S5).
    - now rewrite (ko_sc_r _ _ H1 S1), (ko_sc_r _ _ H2 S2), (oko_sc_r _ _ H3 S3),
        (oko_sc_r _ _ H4 S4), (oko_sc_r _ _ H5 S5).
  Qed.

  Lemma add_epoch_ko d en en' ss ss' es es' sf sf' sr sr' cr cr' :
    KeyOrd en en' -> orel KeyOrd ss ss' -> orel KeyOrd es es' -> orel KeyOrd sf sf' ->
    KeyOrd sr sr' -> KeyOrd cr cr' ->
    rrel eq (add_epoch d en ss es sf sr cr) (add_epoch d en' ss' es' sf' sr' cr').
  Proof.
    intros H1 H2 H3 H4 H5 H6. apply rrel_forcing; intros g1 H;
      apply add_epoch_sc in H; destruct H as (S1 & S2 & S3 & S4 & S5 & S6).
    - now rewrite (ko_sc_l _ _ H1 S1), (oko_sc_l _ _ H2 S2), (oko_sc_l _ _ H3 S3),
        (oko_sc_l _ _ H4 S4), (ko_sc_l _ _ H5 S5), (ko_sc_l _ _ H6 S6).
    - now rewrite (ko_sc_r _ _ H1 S1), (oko_sc_r _ _ H2 S2), (oko_sc_r _ _ H3 S3),
        (oko_sc_r _ _ H4 S4), (ko_sc_r _ _ H5 S5), (ko_sc_r _ _ H6 S6).
  Qed.

  Lemma add_asym_ko g s s' d d' r r' st st' en en' :
    KeyOrd s s' -> KeyOrd d d' -> KeyOrd r r' -> orel KeyOrd st st' -> orel KeyOrd en en' ->
    rrel eq (add_asym g s d r st en) (add_asym g s' d' r' st' en').
  Proof.
    intros H1 H2 H3 H4 H5. apply rrel_forcing; intros g1 H;
      apply add_asym_sc in H; destruct H as (S1 & S2 & S3 & S4 & S5).
    - now rewrite (ko_sc1_l _ _ H1 S1), (ko_sc1_l _ _ H2 S2), (ko_sc1_l _ _ H3 S3),
        (oko_sc_l _ _ H4 S4), (oko_sc_l _ _ H5 S5).
    - now rewrite (ko_sc1_r _ _ H1 S1), (ko_sc1_r _ _ H2 S2), (ko_sc1_r _ _ H3 S3),
        (oko_sc_r _ _ H4 S4), (oko_sc_r _ _ H5 S5).
  Qed.

  Lemma add_sym_ko g d d' r r' st st' en en' :
    KeyOrd d d' -> KeyOrd r r' -> orel KeyOrd st st' -> orel KeyOrd en en' ->
    rrel eq (add_sym g d r st en) (add_sym g d' r' st' en').
  Proof.
    intros H1 H2 H3 H4. apply rrel_forcing; intros g1 H;
      apply add_sym_sc in H; destruct H as (S1 & S2 & S3 & S4).
    - now rewrite (ko_sc_l _ _ H1 S1), (ko_sc_l _ _ H2 S2), (oko_sc_l _ _ H3 S3),
        (oko_sc_l _ _ H4 S4).
    - now rewrite (ko_sc_r _ _ H1 S1), (ko_sc_r _ _ H2 S2), (oko_sc_r _ _ H3 S3),
        (oko_sc_r _ _ H4 S4).
  Qed.

  Lemma add_pulse_ko g s s' d d' t t' p p' :
    KeyOrd s s' -> KeyOrd d d' -> KeyOrd t t' -> KeyOrd p p' ->
    rrel eq (add_pulse g s d t p) (add_pulse g s' d' t' p').
  Proof.
    intros H1 H2 H3 H4. apply rrel_forcing; intros g1 H;
      apply add_pulse_sc in H; destruct H as (S1 & S2 & S3 & S4).
    - now rewrite (ko_sc_l _ _ H1 S1), (ko_sc_l _ _ H2 S2), (ko_sc_l _ _ H3 S3),
        (ko_sc_l _ _ H4 S4).
    - now rewrite (ko_sc_r _ _ H1 S1), (ko_sc_r _ _ H2 S2), (ko_sc_r _ _ H3 S3),
        (ko_sc_r _ _ H4 S4).
  Qed.

  Lemma make_graph_ko a a' b b' c c' d d' m :
    KeyOrd a a' -> KeyOrd b b' -> KeyOrd c c' -> KeyOrd d d' ->
    rrel eq (make_graph a b c d m) (make_graph a' b' c' d' m).
  Proof.
    intros H1 H2 H3 H4. apply rrel_forcing; intros g1 H;
      apply make_graph_sc in H; destruct H as (S1 & S2 & S3 & S4).
    - now rewrite (ko_sc_l _ _ H1 S1), (ko_sc_l _ _ H2 S2), (ko_sc_l _ _ H3 S3),
        (ko_sc_l _ _ H4 S4).
    - now rewrite (ko_sc_r _ _ H1 S1), (ko_sc_r _ _ H2 S2), (ko_sc_r _ _ H3 S3),
        (ko_sc_r _ _ H4 S4).
  Qed.
  (* ---------------------------------------------------------------- *)
  (* the three item resolvers, then fromdict *)

  Ltac rb_check Hkv := apply (rrel_bind eq); [now apply check_allowed_ko|intros _ _ _].

  Lemma resolve_deme_ko ddef ddef' edef edef' g v v' :
    ARel ddef ddef' -> DictRel edef edef' -> KeyOrd v v' ->
    rrel eq (resolve_deme ddef edef g v) (resolve_deme ddef' edef' g v').
  Proof.
    intros Hd He Hv. unfold resolve_deme.
    apply (rrel_bind DictRel); [now apply dict_of_ko|]. intros kv kv' Hkv.
    pose proof (proj1 Hkv) as Hkva.
    apply (rrel_bind KeyOrd).
    { eapply orel_req. destruct (orel_inv _ _ _ (Hkva "name")) as [[-> ->]|(a & b & -> & -> & Hab & _)];
        cbn; auto. }
    intros name name' Hname.
    rb_check Hkv.
    apply (rrel_bind eq).
    { apply add_deme_ko; auto.
      - eapply jdefault_ko. now apply field_ko.
      - now apply field_nn_ko.
      - now apply field_nn_ko.
      - now apply field_nn_ko. }
    intros g1 ? <-.
    apply (rrel_bind DictRel); [now apply pop_object_ko|]. intros loc loc' Hloc.
    rb_check Hloc.
    apply (rrel_bind DictRel); [apply pop_object_ko, Hloc|]. intros le le' Hle.
    apply (rrel_bind eq); [apply forM_dict_ko; [apply cd_epoch_sc|exact Hle]|]. intros _ _ _.
    cbv zeta.
    assert (Hm : ARel (merge_defaults edef le) (merge_defaults edef' le'))
      by (apply merge_arel; [apply He|apply Hle]).
    assert (Hb : Nat.eqb (List.length (merge_defaults edef le)) 0
                 = Nat.eqb (List.length (merge_defaults edef' le')) 0)
      by (rewrite !merge_emp, (dictrel_emp _ _ He), (dictrel_emp _ _ Hle); reflexivity).
    rewrite Hb.
    pose proof (Hkva "epochs") as Hep.
    assert (Hc : match assoc "epochs" kv with None => true | _ => false end
                 = match assoc "epochs" kv' with None => true | _ => false end)
      by (destruct (orel_inv _ _ _ Hep) as [[-> ->]|(a & b & -> & -> & _)]; reflexivity).
    rewrite Hc. clear Hb Hc.
    apply (rrel_bind eq); [apply rrel_eq_refl|]. intros _ _ _.
    apply (rrel_bind (Forall2 KeyOrd)).
    { destruct (orel_inv _ _ _ Hep) as [[-> ->]|(a & b & -> & -> & Hab & _)].
      - cbn. repeat constructor.
      - now apply list_dicts_ko. }
    intros eps eps' Heps.
    rewrite <- (Forall2_length' _ _ _ Heps).
    apply (rrel_bind eq); [apply rrel_eq_refl|]. intros _ _ _.
    rb_same.
    apply (rrel_bind eq); [|intros ? ? <-; reflexivity].
    apply foldM_rrel with (R := KeyOrd); [exact Heps|].
    intros [d j] ev ev' Hev.
    apply (rrel_bind DictRel); [now apply dict_of_ko|]. intros ekv ekv' Hekv.
    rb_check Hekv.
    apply (rrel_bind KeyOrd).
    { destruct (orel_inv _ _ _ (field_ko _ _ _ _ "end_time" (proj1 Hekv) Hm))
        as [[-> ->]|(x & y & -> & -> & Hxy & _)]; [|exact Hxy].
      destruct (Nat.eqb (S j) (List.length eps)); cbn; auto. constructor. }
    intros en en' Hen.
    apply (rrel_bind eq); [|intros ? ? <-; reflexivity].
    apply add_epoch_ko; auto; try (now apply field_nn_ko; [apply Hekv|]);
      (eapply jdefault_ko; apply field_ko; [apply Hekv|exact Hm]).
  Qed.

  Lemma resolve_migration_ko mdef mdef' g v v' :
    ARel mdef mdef' -> KeyOrd v v' ->
    rrel eq (resolve_migration mdef g v) (resolve_migration mdef' g v').
  Proof.
    intros Hd Hv. unfold resolve_migration.
    apply (rrel_bind DictRel); [now apply dict_of_ko|]. intros kv kv' Hkv.
    pose proof (proj1 Hkv) as Hkva.
    rb_check Hkv.
    apply (rrel_bind KeyOrd).
    { destruct (orel_inv _ _ _ (field_ko _ _ _ _ "rate" Hkva Hd))
        as [[-> ->]|(x & y & -> & -> & Hxy & _)]; [exact I|exact Hxy]. }
    intros rate rate' Hrate. cbv zeta.
    pose proof (field_nn_ko _ _ _ _ "start_time" Hkva Hd) as Hst.
    pose proof (field_nn_ko _ _ _ _ "end_time" Hkva Hd) as Hen.
    destruct (orel_inv _ _ _ (field_nn_ko _ _ _ _ "demes" Hkva Hd))
      as [[-> ->]|(x1 & y1 & -> & -> & H1)];
    destruct (orel_inv _ _ _ (field_nn_ko _ _ _ _ "source" Hkva Hd))
      as [[-> ->]|(x2 & y2 & -> & -> & H2)]; try exact I;
    destruct (orel_inv _ _ _ (field_nn_ko _ _ _ _ "dest" Hkva Hd))
      as [[-> ->]|(x3 & y3 & -> & -> & H3)]; try exact I.
    - now apply add_asym_ko.
    - now apply add_sym_ko.
  Qed.

  Lemma resolve_pulse_ko pdef pdef' g v v' :
    ARel pdef pdef' -> KeyOrd v v' ->
    rrel eq (resolve_pulse pdef g v) (resolve_pulse pdef' g v').
  Proof.
    intros Hd Hv. unfold resolve_pulse.
    apply (rrel_bind DictRel); [now apply dict_of_ko|]. intros kv kv' Hkv.
    pose proof (proj1 Hkv) as Hkva.
    rb_check Hkv.
    assert (Hf : forall k, rrel KeyOrd
                   (match field kv pdef k with Some v => Ok v | None => Err KeyErr end)
                   (match field kv' pdef' k with Some v => Ok v | None => Err KeyErr end)).
    { intro k. destruct (orel_inv _ _ _ (field_ko _ _ _ _ k Hkva Hd))
        as [[-> ->]|(x & y & -> & -> & Hxy & _)]; [exact I|exact Hxy]. }
    apply (rrel_bind KeyOrd); [apply Hf|]. intros so so' Hso.
    apply (rrel_bind KeyOrd); [apply Hf|]. intros de de' Hde.
    apply (rrel_bind KeyOrd); [apply Hf|]. intros ti ti' Hti.
    apply (rrel_bind KeyOrd); [apply Hf|]. intros pr pr' Hpr.
    now apply add_pulse_ko.
  Qed.

  Lemma fromdict_ko d d' : KeyOrd d d' -> rrel eq (fromdict d) (fromdict d').
  Proof.
    intro Hv. unfold fromdict.
    apply (rrel_bind DictRel); [now apply dict_of_ko|]. intros kv kv' Hkv.
    pose proof (proj1 Hkv) as Hkva.
    rb_check Hkv.
    apply (rrel_bind DictRel); [now apply pop_object_ko|]. intros df df' Hdf.
    rb_check Hdf.
    apply (rrel_bind DictRel); [apply pop_object_ko, Hdf|]. intros ddef ddef' Hddef.
    apply (rrel_bind eq); [apply forM_dict_ko; [apply cd_deme_sc|exact Hddef]|]. intros _ _ _.
    apply (rrel_bind DictRel); [apply pop_object_ko, Hdf|]. intros mdef mdef' Hmdef.
    apply (rrel_bind eq); [apply forM_dict_ko; [apply cd_migration_sc|exact Hmdef]|]. intros _ _ _.
    apply (rrel_bind DictRel); [apply pop_object_ko, Hdf|]. intros pdef pdef' Hpdef.
    apply (rrel_bind eq); [apply forM_dict_ko; [apply cd_pulse_sc|exact Hpdef]|]. intros _ _ _.
    apply (rrel_bind DictRel); [apply pop_object_ko, Hdf|]. intros edef edef' Hedef.
    apply (rrel_bind eq); [apply forM_dict_ko; [apply cd_epoch_sc|exact Hedef]|]. intros _ _ _.
    apply (rrel_bind KeyOrd).
    { destruct (orel_inv _ _ _ (Hkva "time_units")) as [[-> ->]|(x & y & -> & -> & Hxy & _)];
        [exact I|exact Hxy]. }
    intros units units' Hunits.
    rewrite (jdefault_meta _ _ (JDict []) (Hkva "metadata")).
    apply (rrel_bind eq).
    { apply make_graph_ko; auto; eapply jdefault_ko; apply Hkva. }
    intros g0 ? <-.
    apply (rrel_bind (Forall2 KeyOrd)); [now apply dict_list_ko|]. intros dl dl' Hdl.
    rewrite <- (Forall2_length' _ _ _ Hdl).
    apply (rrel_bind eq); [apply rrel_eq_refl|]. intros _ _ _.
    apply (rrel_bind eq).
    { apply foldM_rrel with (R := KeyOrd); [exact Hdl|]. intros s a a' Ha.
      apply resolve_deme_ko; auto. apply Hddef. }
    intros g1 ? <-.
    apply (rrel_bind (Forall2 KeyOrd)); [now apply dict_list_ko|]. intros ml ml' Hml.
    apply (rrel_bind eq).
    { apply foldM_rrel with (R := KeyOrd); [exact Hml|]. intros s a a' Ha.
      apply resolve_migration_ko; auto. apply Hmdef. }
    intros g2 ? <-.
    apply (rrel_bind eq); [apply rrel_eq_refl|]. intros _ _ _.
    apply (rrel_bind (Forall2 KeyOrd)); [now apply dict_list_ko|]. intros pl pl' Hpl.
    apply (rrel_bind eq).
    { apply foldM_rrel with (R := KeyOrd); [exact Hpl|]. intros s a a' Ha.
      apply resolve_pulse_ko; auto. apply Hpdef. }
    intros g3 ? <-. reflexivity.
  Qed.

  Theorem fromdict_key_order d d' g : KeyOrd d d' -> fromdict d = Ok g -> fromdict d' = Ok g.
  Proof. intros H. apply rrel_eq_ok. now apply fromdict_ko. Qed.

  (* and in the other direction acceptance is preserved too (KeyOrd is not symmetric as
     defined, so this is a separate statement) *)
  Theorem fromdict_key_order_rev d d' g : KeyOrd d d' -> fromdict d' = Ok g -> fromdict d = Ok g.
  Proof. intros H. apply rrel_eq_ok_rev. now apply fromdict_ko. Qed.
End DocOrder.

Print Assumptions fromdict_key_order.
Print Assumptions fromdict_key_order_rev.
