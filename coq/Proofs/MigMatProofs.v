(* C12: migration matrices agree pointwise with the graph's migrations. *)
From Coq Require Import Bool List String QArith Lqa Arith Lia.
From Demes Require Import Base.Num Base.Py Model.MDM Model.MigMat Spec.Valid.
Import ListNotations.
Local Open Scope string_scope.
Local Open Scope list_scope.

Section MigMatProofs.
  Context {N : NumOps} {L : NumLaws N}.

  (* adjacent elements strictly decrease *)
  Definition StrictDesc (l : list num) : Prop :=
    forall i a b, nth_error l i = Some a -> nth_error l (S i) = Some b -> nlt b a = true.

  (* interval k of the partition is (ival_start ets k, nth k ets]; the first starts at inf *)
  Definition ival_start (ets : list num) (k : nat) : num :=
    match k with O => ninf | S k' => nth k' ets ninf end.

  (* what migration_matrices needs from validity *)
  Record MigsOK (g : graph) : Prop := {
    mk_names : NoDup (deme_names g);
    mk_migs : forall m, In m (g_migs g) ->
        In (m_src m) (deme_names g) /\ In (m_dst m) (deme_names g) /\ m_src m <> m_dst m /\
        nlt (m_end m) (m_start m) = true /\ nisinf (m_end m) = false /\ nle n0 (m_end m) = true /\
        ok (m_rate m);
    mk_overlap : NoOverlap (g_migs g) }.

  (* ------------------------------------------------------------------ *)
  (* generic list facts *)

  Lemma find_app {A} (f : A -> bool) l1 l2 :
    find f (l1 ++ l2) = match find f l1 with Some x => Some x | None => find f l2 end.
  Proof. induction l1 as [|a l1 IH]; cbn; [reflexivity|]. destruct (f a); auto. Qed.

  Lemma find_ext_in {A} (f h : A -> bool) l :
    (forall x, In x l -> f x = h x) -> find f l = find h l.
  Proof.
    induction l as [|a l IH]; intro H; [reflexivity|]. cbn.
    rewrite <- (H a (or_introl eq_refl)). destruct (f a); [reflexivity|].
    apply IH. intros x Hx. apply H. now right.
  Qed.

  Lemma find_none_all {A} (f : A -> bool) l :
    (forall x, In x l -> f x = false) -> find f l = None.
  Proof.
    induction l as [|a l IH]; intro H; [reflexivity|]. cbn.
    rewrite (H a (or_introl eq_refl)). apply IH. intros x Hx. apply H. now right.
  Qed.

  Lemma nth_error_nth_some {A} (l : list A) k d :
    (k < List.length l)%nat -> nth_error l k = Some (nth k l d).
  Proof. intro H. now apply nth_error_nth'. Qed.

  Lemma nth_error_lt {A} (l : list A) k x : nth_error l k = Some x -> (k < List.length l)%nat.
  Proof. intro H. apply nth_error_Some. congruence. Qed.

  (* ------------------------------------------------------------------ *)
  (* valid_migs_ok *)

  Lemma valid_demes_nodup earlier rest :
    ValidDemes earlier rest ->
    NoDup (map d_name rest) /\ forall x, In x (map d_name rest) -> ~ In x (map d_name earlier).
  Proof.
    revert earlier. induction rest as [|d rest IH]; intros earlier H.
    - split; [constructor|]. intros x [].
    - cbn [ValidDemes] in H. destruct H as [Hd Hr].
      destruct (IH _ Hr) as [ND Hdis]. split.
      + cbn. constructor; [|exact ND].
        intro Hin. apply (Hdis _ Hin). rewrite map_app. apply in_or_app. right. now left.
      + intros x Hx Hin. cbn in Hx. destruct Hx as [<-|Hx].
        * exact (vd_fresh _ _ Hd Hin).
        * apply (Hdis _ Hx). rewrite map_app. apply in_or_app. now left.
  Qed.

  Lemma find_deme_in g name d : find_deme g name = Some d -> In name (deme_names g).
  Proof.
    unfold find_deme, deme_names. intro H. apply find_some in H. destruct H as [Hin He].
    apply String.eqb_eq in He. subst name. now apply in_map.
  Qed.

  Theorem valid_migs_ok g : Valid g -> MigsOK g.
  Proof.
    intro V. constructor.
    - exact (proj1 (valid_demes_nodup _ _ (v_demes _ V))).
    - intros m Hm. pose proof (v_migs _ V m Hm) as VM.
      destruct (vm_demes _ _ VM) as (s & d & lo & hi & Fs & Fd & _).
      repeat split.
      + eapply find_deme_in; eauto.
      + eapply find_deme_in; eauto.
      + exact (vm_distinct _ _ VM).
      + exact (vm_order _ _ VM).
      + exact (vm_end_fin _ _ VM).
      + exact (vm_end_nonneg _ _ VM).
      + destruct (vm_rate _ _ VM) as [H _]. apply le_true in H. tauto.
    - exact (v_overlap _ V).
  Qed.

  (* ------------------------------------------------------------------ *)
  (* strictly descending lists *)

  Fixpoint SD (l : list num) : Prop :=
    match l with
    | [] => True
    | x :: l' => ok x /\ (forall y, In y l' -> nlt y x = true) /\ SD l'
    end.

  Lemma SD_ok l : SD l -> forall x, In x l -> ok x.
  Proof.
    induction l as [|a l IH]; intros H x Hx; [destruct Hx|].
    destruct H as (Ha & _ & Hl). destruct Hx as [<-|Hx]; auto.
  Qed.

  Lemma SD_nth l : SD l -> forall i j a b, (i < j)%nat ->
    nth_error l i = Some a -> nth_error l j = Some b -> nlt b a = true.
  Proof.
    induction l as [|x l IH]; intros H i j a b Hij Ha Hb.
    - destruct i; discriminate.
    - destruct H as (Hx & Hall & Hsd). destruct j as [|j]; [lia|]. destruct i as [|i].
      + cbn in Ha, Hb. injection Ha as <-. apply Hall. eapply nth_error_In; eauto.
      + cbn in Ha, Hb. apply (IH Hsd i j a b); auto. lia.
  Qed.

  Lemma SD_nth_le l : SD l -> forall i j a b, (i <= j)%nat ->
    nth_error l i = Some a -> nth_error l j = Some b -> ok a /\ ok b /\ rk b <= rk a.
  Proof.
    intros H i j a b Hij Ha Hb.
    assert (ok a) as Oa by (eapply SD_ok; eauto using nth_error_In).
    assert (ok b) as Ob by (eapply SD_ok; eauto using nth_error_In).
    destruct (Nat.eq_dec i j) as [->|Hne].
    - assert (a = b) by congruence. subst. repeat split; auto. lra.
    - assert (nlt b a = true) as Hlt by (eapply (SD_nth l H i j); eauto; lia).
      repeat split; auto. nord.
  Qed.

  Lemma SD_StrictDesc l : SD l -> StrictDesc l.
  Proof. intros H i a b Ha Hb. eapply (SD_nth l H i (S i)); eauto. Qed.

  Lemma StrictDesc_tl x l : StrictDesc (x :: l) -> StrictDesc l.
  Proof. intros H i a b Ha Hb. apply (H (S i)); assumption. Qed.

  Lemma StrictDesc_SD l : StrictDesc l -> (forall e, In e l -> ok e) -> SD l.
  Proof.
    induction l as [|x l IH]; intros H Hok; [exact I|].
    assert (SD l) as Hsd.
    { apply IH; [eapply StrictDesc_tl; eauto|]. intros e He. apply Hok. now right. }
    cbn. repeat split; auto.
    - apply Hok. now left.
    - destruct l as [|y0 l]; intros y Hy; [destruct Hy|].
      assert (nlt y0 x = true) as H0 by (apply (H 0%nat); reflexivity).
      destruct Hy as [<-|Hy]; [exact H0|].
      destruct Hsd as (_ & Hall & _). pose proof (Hall y Hy) as H1. nord.
  Qed.

  Lemma SD_app_last l x :
    SD l -> ok x -> (forall y, In y l -> nlt x y = true) -> SD (l ++ [x]).
  Proof.
    induction l as [|a l IH]; intros H Hx Hall; cbn.
    - repeat split; auto; intros ? [].
    - destruct H as (Ha & Hal & Hl). repeat split; auto.
      + intros y Hy. apply in_app_or in Hy. destruct Hy as [Hy|[<-|[]]]; auto.
        apply Hall. now left.
      + apply IH; auto. intros y Hy. apply Hall. now right.
  Qed.

  Lemma last_opt_none {A} (l : list A) : last_opt l = None -> l = [].
  Proof.
    induction l as [|a l IH]; [reflexivity|]. cbn. destruct l as [|b l]; [discriminate|].
    intro H. specialize (IH H). discriminate.
  Qed.

  Lemma last_opt_app {A} (l : list A) x : last_opt (l ++ [x]) = Some x.
  Proof.
    induction l as [|a l IH]; [reflexivity|]. cbn [app last_opt].
    destruct (l ++ [x]) eqn:E; [destruct l; discriminate|]. exact IH.
  Qed.

  Lemma last_opt_in {A} (l : list A) z : last_opt l = Some z -> In z l.
  Proof.
    induction l as [|a l IH]; [discriminate|]. cbn. destruct l as [|b l].
    - intro H. injection H as <-. now left.
    - intro H. right. apply IH. exact H.
  Qed.

  Lemma SD_last_le l z : SD l -> last_opt l = Some z ->
    forall y, In y l -> ok y /\ ok z /\ rk z <= rk y.
  Proof.
    induction l as [|a l IH]; intros H Hl y Hy; [destruct Hy|].
    destruct H as (Ha & Hal & Hsd). cbn in Hl. destruct l as [|b l].
    - injection Hl as <-. destruct Hy as [<-|[]]. repeat split; auto. lra.
    - destruct Hy as [<-|Hy].
      + pose proof (Hal z (last_opt_in _ _ Hl)) as H1.
        repeat split; auto; nord; auto.
      + apply IH; auto.
  Qed.

  (* ------------------------------------------------------------------ *)
  (* insert_desc, uniq_desc *)

  Lemma insert_in x l z : In z (insert_desc x l) -> z = x \/ In z l.
  Proof.
    induction l as [|y l IH]; cbn.
    - intros [<-|[]]. now left.
    - destruct (neqb x y); [auto|]. destruct (nlt y x).
      + intros [<-|H]; auto.
      + intros [<-|H]; [right; now left|]. destruct (IH H); auto.
  Qed.

  Lemma insert_keep x l z : In z l -> In z (insert_desc x l).
  Proof.
    induction l as [|y l IH]; cbn; [intros []|].
    intro H. destruct (neqb x y); [exact H|]. destruct (nlt y x); [now right|].
    destruct H as [<-|H]; [now left|right; auto].
  Qed.

  Lemma insert_has x l : ok x -> exists z, In z (insert_desc x l) /\ neqb x z = true.
  Proof.
    intro Hx. induction l as [|y l IH]; cbn.
    - exists x. split; [now left|]. now apply eq_refl_ok.
    - destruct (neqb x y) eqn:E; [exists y; split; [now left|exact E]|].
      destruct (nlt y x).
      + exists x. split; [now left|]. now apply eq_refl_ok.
      + destruct IH as (z & Hz & He). exists z. split; [now right|exact He].
  Qed.

  Lemma insert_SD x l : ok x -> SD l -> SD (insert_desc x l).
  Proof.
    intro Hx. induction l as [|y l IH]; intro H; cbn.
    - repeat split; auto; intros ? [].
    - destruct H as (Hy & Hall & Hsd).
      destruct (neqb x y) eqn:E; [cbn; auto|].
      destruct (nlt y x) eqn:E2.
      + cbn. repeat split; auto. intros z [<-|Hz]; [exact E2|].
        pose proof (Hall z Hz) as H1. nord.
      + cbn. repeat split; auto. intros z Hz. apply insert_in in Hz.
        destruct Hz as [->|Hz]; [nord|auto].
  Qed.

  Lemma fold_insert xs : forall acc,
    (forall x, In x xs -> ok x) -> SD acc ->
    let r := fold_left (fun acc x => insert_desc x acc) xs acc in
    SD r /\ (forall z, In z r -> In z acc \/ In z xs) /\ (forall z, In z acc -> In z r) /\
    (forall x, In x xs -> exists z, In z r /\ neqb x z = true).
  Proof.
    induction xs as [|a xs IH]; intros acc Hok Hsd; cbn.
    - repeat split; auto; intros ? [].
    - assert (ok a) as Ha by (apply Hok; now left).
      destruct (IH (insert_desc a acc)) as (R1 & R2 & R3 & R4).
      { intros x Hx. apply Hok. now right. }
      { now apply insert_SD. }
      repeat split; auto.
      + intros z Hz. destruct (R2 z Hz) as [H|H]; [|right; now right].
        apply insert_in in H. destruct H as [->|H]; [right; now left|now left].
      + intros z Hz. apply R3. now apply insert_keep.
      + intros x [<-|Hx]; [|auto].
        destruct (insert_has a acc Ha) as (z & Hz & He). exists z. split; auto.
  Qed.

  (* everything the later proofs need to know about the end times *)
  Lemma ets_facts ms :
    (forall m, In m ms -> nlt (m_end m) (m_start m) = true /\ nle n0 (m_end m) = true) ->
    let ets := mm_end_times ms in
    SD ets /\ ets <> [] /\
    (forall e, In e ets -> nisinf e = false /\ nle n0 e = true) /\
    (exists z, last_opt ets = Some z /\ neqb z n0 = true) /\
    (forall m, In m ms ->
       (exists z, In z ets /\ neqb (m_end m) z = true) /\
       (neqb (m_start m) ninf = true \/ exists z, In z ets /\ neqb (m_start m) z = true)).
  Proof.
    intro H. unfold mm_end_times.
    set (fin := filter (fun x => negb (neqb x ninf)) (map m_start ms ++ map m_end ms)).
    assert (forall x, In x fin -> ok x /\ nle n0 x = true /\ neqb x ninf = false) as Hfin.
    { intros x Hx. unfold fin in Hx. apply filter_In in Hx. destruct Hx as [Hx Hf].
      apply negb_true_iff in Hf.
      apply in_app_or in Hx. destruct Hx as [Hx|Hx]; apply in_map_iff in Hx;
        destruct Hx as (m & <- & Hm); destruct (H m Hm) as [H1 H2].
      - assert (ok (m_start m)) by (apply lt_true in H1; tauto).
        repeat split; auto. nord.
      - assert (ok (m_end m)) by (apply lt_true in H1; tauto).
        repeat split; auto. }
    destruct (fold_insert fin []) as (R1 & R2 & _ & R4).
    { intros x Hx. apply Hfin. exact Hx. } { exact I. }
    fold (uniq_desc fin) in R1, R2, R4.
    assert (forall e, In e (uniq_desc fin) -> nisinf e = false /\ nle n0 e = true) as Hr.
    { intros e He. destruct (R2 e He) as [[]|He']. destruct (Hfin e He') as (A & B & C).
      split; [nord|exact B]. }
    assert (forall m, In m ms ->
       (exists z, In z (uniq_desc fin) /\ neqb (m_end m) z = true) /\
       (neqb (m_start m) ninf = true \/
        exists z, In z (uniq_desc fin) /\ neqb (m_start m) z = true)) as Hm.
    { intros m Hm. destruct (H m Hm) as [H1 H2]. split.
      - apply R4. unfold fin. apply filter_In. split.
        + apply in_or_app. right. now apply in_map.
        + apply negb_true_iff. assert (ok (m_end m)) by (apply lt_true in H1; tauto). nord.
      - destruct (neqb (m_start m) ninf) eqn:E; [now left|right].
        apply R4. unfold fin. apply filter_In. split.
        + apply in_or_app. left. now apply in_map.
        + now rewrite E. }
    assert (nisinf n0 = false) as Hi0 by nord.
    assert (nle n0 n0 = true) as Hl0 by nord.
    destruct (last_opt (uniq_desc fin)) as [z|] eqn:El.
    - destruct (neqb z n0) eqn:Ez; cbn [negb].
      + split; [exact R1|]. split; [intro E; rewrite E in El; discriminate|].
        split; [exact Hr|]. split; [exists z; auto|]. exact Hm.
      + assert (SD (uniq_desc fin ++ [n0])) as Hsd.
        { apply SD_app_last; auto with nan. intros y Hy.
          destruct (SD_last_le _ _ R1 El y Hy) as (Oy & Oz & Hle).
          destruct (Hr z (last_opt_in _ _ El)) as [_ Hz]. nord. }
        split; [exact Hsd|]. split; [intro E; destruct (uniq_desc fin); discriminate|].
        split. { intros e He. apply in_app_or in He. destruct He as [He|[<-|[]]]; auto. }
        split. { exists n0. split; [apply last_opt_app|nord]. }
        intros m Hm0. destruct (Hm m Hm0) as [(z1 & Hz1 & He1) Hs]. split.
        * exists z1. split; auto. apply in_or_app. now left.
        * destruct Hs as [Hs|(z2 & Hz2 & He2)]; [now left|right].
          exists z2. split; auto. apply in_or_app; now left.
    - apply last_opt_none in El. rewrite El in Hm.
      split; [cbn; repeat split; auto with nan; intros ? []|]. split; [discriminate|].
      split. { intros e [<-|[]]. auto. }
      split. { exists n0. split; [reflexivity|nord]. }
      intros m Hm0. destruct (Hm m Hm0) as [(z' & [] & _) _].
  Qed.

  (* 1. the end times: at least one, strictly decreasing, finishing at 0 *)
  Theorem end_times_shape ms :
    (forall m, In m ms -> nlt (m_end m) (m_start m) = true /\ nle n0 (m_end m) = true) ->
    let ets := mm_end_times ms in
    ets <> [] /\ StrictDesc ets /\ (forall e, In e ets -> ok e /\ nisinf e = false /\ nle n0 e = true) /\
    exists z, last_opt ets = Some z /\ neqb z n0 = true.
  Proof.
    intros H ets. destruct (ets_facts ms H) as (F1 & F2 & F3 & F4 & _). fold ets in F1, F2, F3, F4.
    repeat split; auto.
    - now apply SD_StrictDesc.
    - eapply SD_ok; eauto.
    - apply F3; auto.
    - apply F3; auto.
  Qed.

  (* ------------------------------------------------------------------ *)
  (* intervals *)

  Definition ivs (start : num) (ets : list num) (k : nat) : num :=
    match k with O => start | S k' => nth k' ets ninf end.

  Lemma ivs_cons start x l k : ivs start (x :: l) (S k) = ivs x l k.
  Proof. destruct k; reflexivity. Qed.

  Lemma cover_exists t : ok t -> forall l start,
    nlt t start = true -> (forall e, In e l -> ok e) ->
    (exists z, last_opt l = Some z /\ nle z t = true) ->
    exists k e, nth_error l k = Some e /\ nlt t (ivs start l k) = true /\ nle e t = true.
  Proof.
    intro Ht. induction l as [|x l IH]; intros start Hs Hok (z & Hz & Hzt); [discriminate|].
    assert (ok x) as Hx by (apply Hok; now left).
    destruct (nle x t) eqn:E.
    - exists 0%nat, x. repeat split; auto.
    - destruct l as [|y l]. { cbn in Hz. injection Hz as <-. congruence. }
      destruct (IH x) as (k & e & H1 & H2 & H3).
      + nord.
      + intros e He. apply Hok. now right.
      + exists z. split; auto.
      + exists (S k), e. rewrite ivs_cons. repeat split; auto.
  Qed.

  Lemma cover_uniq ets t k k' e e' :
    SD ets -> (k < k')%nat -> nth_error ets k = Some e -> nth_error ets k' = Some e' ->
    nle e t = true -> nlt t (ival_start ets k') = true -> False.
  Proof.
    intros S Hlt He He' H1 H2. destruct k' as [|k'']; [lia|]. cbn [ival_start] in H2.
    pose proof (nth_error_lt _ _ _ He') as Hl.
    assert (nth_error ets k'' = Some (nth k'' ets ninf)) as Hn
      by (apply nth_error_nth_some; lia).
    destruct (SD_nth_le ets S k k'' _ _ ltac:(lia) He Hn) as (O1 & O2 & Hle).
    nord.
  Qed.

  (* 2. the intervals partition [0, inf): every finite time t >= 0 lies in exactly one *)
  Theorem intervals_cover ets t :
    ets <> [] -> StrictDesc ets -> (forall e, In e ets -> ok e) ->
    (exists z, last_opt ets = Some z /\ neqb z n0 = true) ->
    ok t -> nle n0 t = true -> nisinf t = false ->
    exists k e, nth_error ets k = Some e /\ nlt t (ival_start ets k) = true /\ nle e t = true /\
      forall k' e', nth_error ets k' = Some e' -> nlt t (ival_start ets k') = true -> nle e' t = true -> k' = k.
  Proof.
    intros Hne Hsd Hok (z & Hz & Hz0) Ht Ht0 Hfin.
    assert (SD ets) as S by (apply StrictDesc_SD; auto).
    destruct (cover_exists t Ht ets ninf) as (k & e & H1 & H2 & H3); auto.
    { nord. }
    { exists z. split; auto. nord. }
    exists k, e. repeat split; auto.
    intros k' e' H1' H2' H3'.
    destruct (lt_eq_lt_dec k' k) as [[Hlt|Heq]|Hlt]; auto; exfalso.
    - eapply (cover_uniq ets t k' k); eauto.
    - eapply (cover_uniq ets t k k'); eauto.
  Qed.

  (* no member of a strictly descending list lies strictly between neighbours *)
  Lemma SD_gap l : SD l -> forall k a b p x,
    nth_error l k = Some a -> nth_error l (S k) = Some b -> nth_error l p = Some x ->
    ok a /\ ok b /\ ok x /\ (rk x < rk a <-> rk x <= rk b).
  Proof.
    intros S k a b p x Ha Hb Hx.
    assert (ok a) as Oa by (eapply SD_ok; eauto using nth_error_In).
    assert (ok b) as Ob by (eapply SD_ok; eauto using nth_error_In).
    assert (ok x) as Ox by (eapply SD_ok; eauto using nth_error_In).
    repeat split; auto.
    - intro H. destruct (le_lt_dec p k) as [Hle|Hlt].
      + destruct (SD_nth_le l S p k x a Hle Hx Ha) as (_ & _ & H1). lra.
      + destruct (SD_nth_le l S (Datatypes.S k) p b x Hlt Hb Hx) as (_ & _ & H1). lra.
    - intro H. destruct (le_lt_dec p k) as [Hle|Hlt].
      + pose proof (SD_nth l S p (Datatypes.S k) x b ltac:(lia) Hx Hb) as H1. nord.
      + destruct (SD_nth_le l S (Datatypes.S k) p b x Hlt Hb Hx) as (_ & _ & H1).
        pose proof (SD_nth l S k (Datatypes.S k) a b ltac:(lia) Ha Hb) as H2. nord.
  Qed.

  Definition Member (l : list num) (y : num) : Prop :=
    exists p x, nth_error l p = Some x /\ neqb y x = true.

  Lemma gap_member l y k a b :
    SD l -> Member l y -> nth_error l k = Some a -> nth_error l (S k) = Some b ->
    ok y /\ ok a /\ ok b /\ (rk y < rk a -> rk y <= rk b).
  Proof.
    intros S (p & x & Hx & E) Ha Hb.
    destruct (SD_gap l S k a b p x Ha Hb Hx) as (Oa & Ob & Ox & G).
    apply eq_true in E. destruct E as (Oy & _ & E).
    repeat split; auto. intro H. rewrite E in *. tauto.
  Qed.

  Definition cov (m : mig) (st et : num) : bool :=
    negb (nle st (m_end m)) && nlt et (m_start m).

  Lemma cov_activeb l m k a b :
    SD l -> Member l (m_start m) -> Member l (m_end m) ->
    nth_error l k = Some a -> nth_error l (S k) = Some b ->
    cov m a b = activeb m b.
  Proof.
    intros S Ms Me Ha Hb.
    destruct (gap_member l _ k a b S Me Ha Hb) as (Oe & Oa & Ob & Ge).
    pose proof (SD_nth l S k (Datatypes.S k) a b ltac:(lia) Ha Hb) as Hba.
    unfold cov, activeb. rewrite andb_comm. f_equal.
    destruct (nle a (m_end m)) eqn:E1; destruct (nle (m_end m) b) eqn:E2; cbn; auto; exfalso.
    - nord.
    - apply le_false in E1; auto. apply le_false in E2; auto. lra.
  Qed.

  Lemma activeb_interval l m k a b t :
    SD l -> Member l (m_start m) -> Member l (m_end m) ->
    nth_error l k = Some a -> nth_error l (S k) = Some b ->
    ok t -> nle b t = true -> nlt t a = true ->
    activeb m t = activeb m b.
  Proof.
    intros S Ms Me Ha Hb Ot H1 H2.
    destruct (gap_member l _ k a b S Me Ha Hb) as (Oe & Oa & Ob & Ge).
    destruct (gap_member l _ k a b S Ms Ha Hb) as (Os & _ & _ & Gs).
    apply le_true in H1. destruct H1 as (_ & _ & H1).
    apply lt_true in H2. destruct H2 as (_ & _ & H2).
    unfold activeb. f_equal.
    - destruct (nlt t (m_start m)) eqn:E1; destruct (nlt b (m_start m)) eqn:E2; auto; exfalso.
      + apply lt_true in E1. apply lt_false in E2; auto. lra.
      + apply lt_false in E1; auto. apply lt_true in E2. lra.
    - destruct (nle (m_end m) t) eqn:E1; destruct (nle (m_end m) b) eqn:E2; auto; exfalso.
      + apply le_true in E1. apply le_false in E2; auto. lra.
      + apply le_false in E1; auto. apply le_true in E2. lra.
  Qed.

  Lemma ival_nth ets k e :
    nth_error ets k = Some e ->
    nth_error (ninf :: ets) k = Some (ival_start ets k) /\
    nth_error (ninf :: ets) (S k) = Some e.
  Proof.
    intro H. split; [|exact H]. destruct k as [|k]; [reflexivity|]. cbn.
    apply nth_error_nth_some. apply nth_error_lt in H. lia.
  Qed.

  (* ------------------------------------------------------------------ *)
  (* set_nth, mget, mset *)

  Lemma set_nth_length {A} i (x : A) l : List.length (set_nth i x l) = List.length l.
  Proof. revert i. induction l as [|y l IH]; intros [|i]; cbn; auto. Qed.

  Lemma nth_set_nth_eq {A} i (x : A) l d0 :
    (i < List.length l)%nat -> nth i (set_nth i x l) d0 = x.
  Proof.
    revert i. induction l as [|y l IH]; intros [|i] H; cbn in *; try lia; auto.
    apply IH. lia.
  Qed.

  Lemma nth_set_nth_neq {A} i j (x : A) l d0 : i <> j -> nth j (set_nth i x l) d0 = nth j l d0.
  Proof.
    revert i j. induction l as [|y l IH]; intros [|i] [|j] H; cbn; auto; try congruence.
  Qed.

  Lemma set_nth_in {A} i (x : A) l y :
    In y (set_nth i x l) -> (y = x /\ (i < List.length l)%nat) \/ In y l.
  Proof.
    revert i. induction l as [|z l IH]; intros [|i]; cbn; auto.
    - intros [<-|H]; [left; split; auto; lia|auto].
    - intros [<-|H]; auto. destruct (IH i H) as [[-> Hl]|H']; [left; split; auto; lia|auto].
  Qed.

  Definition Shape (n : nat) (mm : matrix) : Prop :=
    List.length mm = n /\ forall row, In row mm -> List.length row = n.

  Lemma shape_row n mm d : Shape n mm -> (d < n)%nat -> List.length (nth d mm []) = n.
  Proof. intros [H1 H2] Hd. apply H2. apply nth_In. lia. Qed.

  Lemma mset_shape n mm d s x : Shape n mm -> Shape n (mset mm d s x).
  Proof.
    intros [H1 H2]. unfold mset. split; [now rewrite set_nth_length|].
    intros row Hr. apply set_nth_in in Hr. destruct Hr as [[-> Hl]|Hr]; auto.
    rewrite set_nth_length. apply H2. now apply nth_In.
  Qed.

  Lemma mget_mset_eq n mm d s x :
    Shape n mm -> (d < n)%nat -> (s < n)%nat -> mget (mset mm d s x) d s = x.
  Proof.
    intros Sh Hd Hs. unfold mget, mset.
    rewrite nth_set_nth_eq by (destruct Sh; lia).
    apply nth_set_nth_eq. rewrite (shape_row n); auto.
  Qed.

  Lemma mget_mset_neq n mm d s x j i :
    Shape n mm -> (d < n)%nat -> (j <> d \/ i <> s) ->
    mget (mset mm d s x) j i = mget mm j i.
  Proof.
    intros Sh Hd Hne. unfold mget, mset.
    destruct (Nat.eq_dec j d) as [->|Hjd].
    - rewrite nth_set_nth_eq by (destruct Sh; lia).
      apply nth_set_nth_neq. destruct Hne; congruence.
    - rewrite nth_set_nth_neq by congruence. reflexivity.
  Qed.

  Lemma mget_zero n j i : mget (zero_matrix n) j i = nf0.
  Proof.
    unfold mget, zero_matrix.
    destruct (nth_in_or_default j (repeat (repeat nf0 n) n) []) as [H|H].
    - apply repeat_spec in H. rewrite H.
      destruct (nth_in_or_default i (repeat nf0 n) nf0) as [H'|H']; auto.
      now apply repeat_spec in H'.
    - rewrite H. now destruct i.
  Qed.

  Lemma zero_shape n : Shape n (zero_matrix n).
  Proof.
    unfold zero_matrix. split; [apply repeat_length|].
    intros row H. apply repeat_spec in H. subst. apply repeat_length.
  Qed.

  (* ------------------------------------------------------------------ *)
  (* deme_id *)

  Lemma index_of_nth l : NoDup l -> forall p x, nth_error l p = Some x -> index_of x l = Some p.
  Proof.
    induction l as [|y l IH]; intros ND p x Hp; [destruct p; discriminate|].
    inversion ND as [|? ? Hnin ND']; subst. destruct p as [|p]; cbn in *.
    - injection Hp as ->. now rewrite String.eqb_refl.
    - destruct (String.eqb x y) eqn:E.
      + apply String.eqb_eq in E. subst. exfalso. apply Hnin. eapply nth_error_In; eauto.
      + rewrite (IH ND' p x Hp). reflexivity.
  Qed.

  Lemma nth_error_rev {A} (l : list A) i x :
    nth_error l i = Some x -> nth_error (rev l) (List.length l - 1 - i) = Some x.
  Proof.
    intro H. pose proof (nth_error_lt _ _ _ H) as Hlt.
    rewrite (nth_error_nth_some (rev l) _ x) by (rewrite rev_length; lia).
    rewrite rev_nth by lia. f_equal.
    replace (List.length l - S (List.length l - 1 - i))%nat with i by lia.
    now apply nth_error_nth.
  Qed.

  Lemma deme_id_ok g i si :
    NoDup (deme_names g) -> nth_error (deme_names g) i = Some si -> deme_id g si = Ok i.
  Proof.
    intros ND H. unfold deme_id. pose proof (nth_error_lt _ _ _ H) as Hlt.
    rewrite (index_of_nth (rev (deme_names g)) (NoDup_rev ND) _ _ (nth_error_rev _ _ _ H)).
    f_equal. unfold deme_names in *. rewrite map_length in *. lia.
  Qed.

  Lemma names_inj g i j x :
    NoDup (deme_names g) -> nth_error (deme_names g) i = Some x ->
    nth_error (deme_names g) j = Some x -> i = j.
  Proof.
    intros ND Hi Hj. pose proof (deme_id_ok g i x ND Hi). pose proof (deme_id_ok g j x ND Hj).
    congruence.
  Qed.

  (* ------------------------------------------------------------------ *)
  (* sweep *)

  Fixpoint sweep_pure (m : mig) (s d : nat) (start : num) (ets : list num)
           (mms : list matrix) : list matrix :=
    match ets, mms with
    | et :: ets', mm :: mms' =>
        (if cov m start et then mset mm d s (nfloat (m_rate m)) else mm)
          :: sweep_pure m s d et ets' mms'
    | _, _ => mms
    end.

  Lemma sweep_pure_length m s d ets : forall mms start,
    List.length (sweep_pure m s d start ets mms) = List.length mms.
  Proof.
    induction ets as [|et ets IH]; intros [|mm mms] start; cbn; auto.
  Qed.

  Lemma sweep_pure_nth m s d ets : forall mms start k mm e,
    nth_error mms k = Some mm -> nth_error ets k = Some e ->
    nth_error (sweep_pure m s d start ets mms) k =
      Some (if cov m (ivs start ets k) e then mset mm d s (nfloat (m_rate m)) else mm).
  Proof.
    induction ets as [|et ets IH]; intros [|mm0 mms] start k mm e Hm He;
      try (destruct k; discriminate).
    destruct k as [|k]; cbn in Hm, He.
    - injection Hm as <-. injection He as <-. reflexivity.
    - cbn [sweep_pure nth_error]. rewrite ivs_cons. apply IH; auto.
  Qed.

  Lemma sweep_pure_break m s d ets : forall mms start,
    nle start (m_end m) = true -> SD (start :: ets) ->
    sweep_pure m s d start ets mms = mms.
  Proof.
    induction ets as [|et ets IH]; intros [|mm mms] start H S; cbn; auto.
    unfold cov. rewrite H. cbn. f_equal.
    destruct S as (Os & Hall & S'). apply IH; auto.
    pose proof (Hall et (or_introl eq_refl)) as H1. nord.
  Qed.

  Lemma sweep_eq m s d ets : forall mms start,
    SD (start :: ets) -> ok (m_end m) ->
    (forall k mm e, nth_error mms k = Some mm -> nth_error ets k = Some e ->
       cov m (ivs start ets k) e = true -> ngt (mget mm d s) n0 = false) ->
    sweep m s d start ets mms = Ok (sweep_pure m s d start ets mms).
  Proof.
    induction ets as [|et ets IH]; intros [|mm mms] start S Oe Hno; try reflexivity.
    cbn [sweep]. destruct (nle start (m_end m)) eqn:E.
    - now rewrite sweep_pure_break.
    - cbn [sweep_pure]. unfold cov at 1. rewrite E. cbn [negb andb].
      assert (sweep m s d et ets mms = Ok (sweep_pure m s d et ets mms)) as ->.
      { apply IH; auto. { destruct S as (_ & _ & S'). exact S'. }
        intros k mm' e Hm He Hc. apply (Hno (Datatypes.S k) mm' e); auto; now rewrite ivs_cons. }
      destruct (nlt et (m_start m)) eqn:E2; [|reflexivity].
      rewrite (Hno 0%nat mm et eq_refl eq_refl).
      + reflexivity.
      + cbn [ivs]. unfold cov. now rewrite E, E2.
  Qed.

  (* ------------------------------------------------------------------ *)
  (* the fold over the migrations *)

  Lemma migs_hyp g : MigsOK g ->
    forall m, In m (g_migs g) -> nlt (m_end m) (m_start m) = true /\ nle n0 (m_end m) = true.
  Proof. intros OK m Hm. destruct (mk_migs g OK m Hm) as (_ & _ & _ & A & _ & B & _). auto. Qed.

  (* the end times, with inf in front, as one strictly descending list that has
     (a value equal to) every migration's start and end time as a member *)
  Lemma ets_ctx g : MigsOK g ->
    let ets := mm_end_times (g_migs g) in
    SD (ninf :: ets) /\
    forall m, In m (g_migs g) -> Member (ninf :: ets) (m_start m) /\ Member (ninf :: ets) (m_end m).
  Proof.
    intros OK ets.
    destruct (ets_facts (g_migs g) (migs_hyp g OK)) as (F1 & F2 & F3 & F4 & F5).
    fold ets in F1, F2, F3, F4, F5. split.
    - cbn. repeat split; auto with nan. intros y Hy.
      destruct (F3 y Hy) as [A B]. assert (ok y) by (eapply SD_ok; eauto). nord.
    - intros m Hm. destruct (F5 m Hm) as [(z & Hz & Ez) Hs]. split.
      + destruct Hs as [Hs|(z' & Hz' & Ez')].
        * exists 0%nat, ninf. split; auto.
        * destruct (In_nth_error _ _ Hz') as [p Hp]. exists (S p), z'. split; auto.
      + destruct (In_nth_error _ _ Hz) as [p Hp]. exists (S p), z. split; auto.
  Qed.

  Definition Inv (g : graph) (ets : list num) (pre : list mig) (mms : list matrix) : Prop :=
    List.length mms = List.length ets /\
    (forall mm, In mm mms -> Shape (List.length (g_demes g)) mm) /\
    (forall k mm e i j si dj, nth_error mms k = Some mm -> nth_error ets k = Some e ->
       nth_error (deme_names g) i = Some si -> nth_error (deme_names g) j = Some dj ->
       mget mm j i = rate_at pre si dj e).

  Lemma inv_init g ets :
    Inv g ets [] (repeat (zero_matrix (List.length (g_demes g))) (List.length ets)).
  Proof.
    split; [apply repeat_length|]. split.
    - intros mm H. apply repeat_spec in H. subst. apply zero_shape.
    - intros k mm e i j si dj Hk _ _ _. apply nth_error_In in Hk. apply repeat_spec in Hk.
      subst. rewrite mget_zero. reflexivity.
  Qed.

  (* by NoOverlap, no earlier migration of the same ordered pair is active
     where m is active *)
  Lemma no_prior g pre m rest e :
    MigsOK g -> g_migs g = pre ++ m :: rest -> ok e -> activeb m e = true ->
    find (fun a => String.eqb (m_src a) (m_src m) && String.eqb (m_dst a) (m_dst m)
                   && activeb a e) pre = None.
  Proof.
    intros OK E Oe Hact. apply find_none_all. intros a Ha.
    destruct (String.eqb (m_src a) (m_src m) && String.eqb (m_dst a) (m_dst m) && activeb a e)
      eqn:P; [exfalso|reflexivity].
    apply andb_true_iff in P. destruct P as [P Pa]. apply andb_true_iff in P.
    destruct P as [Ps Pd]. apply String.eqb_eq in Ps. apply String.eqb_eq in Pd.
    destruct (In_nth_error _ _ Ha) as [i0 Hi0].
    pose proof (nth_error_lt _ _ _ Hi0) as Hlt.
    apply (mk_overlap g OK i0 (List.length pre) a m e); auto.
    - lia.
    - rewrite E, nth_error_app1; auto.
    - rewrite E, nth_error_app2 by lia. now rewrite Nat.sub_diag.
    - unfold activeb in Pa. apply andb_true_iff in Pa. exact Pa.
    - unfold activeb in Hact. apply andb_true_iff in Hact. exact Hact.
  Qed.

  Lemma step g pre m rest mms :
    MigsOK g -> g_migs g = pre ++ m :: rest ->
    let ets := mm_end_times (g_migs g) in
    Inv g ets pre mms ->
    exists s d, deme_id g (m_src m) = Ok s /\ deme_id g (m_dst m) = Ok d /\
      sweep m s d ninf ets mms = Ok (sweep_pure m s d ninf ets mms) /\
      Inv g ets (pre ++ [m]) (sweep_pure m s d ninf ets mms).
  Proof.
    intros OK E ets (I1 & I2 & I3).
    assert (In m (g_migs g)) as Hm by (rewrite E; apply in_or_app; right; now left).
    destruct (mk_migs g OK m Hm) as (Hsrc & Hdst & Hne & Hord & Hfin & Hnn & Hrate).
    destruct (In_nth_error _ _ Hsrc) as [s Hs]. destruct (In_nth_error _ _ Hdst) as [d Hd].
    pose proof (mk_names g OK) as ND.
    destruct (ets_ctx g OK) as [S Mem]. fold ets in S, Mem.
    destruct (Mem m Hm) as [Ms Me].
    assert (forall k e, nth_error ets k = Some e ->
              ok e /\ cov m (ivs ninf ets k) e = activeb m e) as Hcov.
    { intros k e He. destruct (ival_nth ets k e He) as [A B]. split.
      - eapply SD_ok; [exact S|]. eapply nth_error_In; eauto.
      - apply (cov_activeb (ninf :: ets) m k); auto. }
    assert (ok (m_end m)) as Oe by (apply lt_true in Hord; tauto).
    pose proof (nth_error_lt _ _ _ Hs) as Hsn. pose proof (nth_error_lt _ _ _ Hd) as Hdn.
    unfold deme_names in Hsn, Hdn. rewrite map_length in Hsn, Hdn.
    exists s, d. split; [now apply deme_id_ok|]. split; [now apply deme_id_ok|]. split.
    - apply sweep_eq; auto. intros k mm e Hk He Hc.
      destruct (Hcov k e He) as [Ok_e Hc']. rewrite Hc' in Hc.
      rewrite (I3 k mm e s d _ _ Hk He Hs Hd). unfold rate_at.
      rewrite (no_prior g pre m rest e OK E Ok_e Hc). unfold ngt. nord.
    - split; [rewrite sweep_pure_length; exact I1|]. split.
      + intros mm' Hin. destruct (In_nth_error _ _ Hin) as [k Hk].
        pose proof (nth_error_lt _ _ _ Hk) as Hlt. rewrite sweep_pure_length in Hlt.
        destruct (nth_error mms k) as [mm|] eqn:Hmm; [|apply nth_error_None in Hmm; lia].
        destruct (nth_error ets k) as [e|] eqn:He; [|apply nth_error_None in He; lia].
        rewrite (sweep_pure_nth m s d ets mms ninf k mm e Hmm He) in Hk. injection Hk as <-.
        pose proof (I2 mm (nth_error_In _ _ Hmm)) as Sh.
        destruct (cov m (ivs ninf ets k) e); auto. now apply mset_shape.
      + intros k mm' e i j si dj Hk He Hi Hj.
        pose proof (nth_error_lt _ _ _ Hk) as Hlt. rewrite sweep_pure_length in Hlt.
        destruct (nth_error mms k) as [mm|] eqn:Hmm; [|apply nth_error_None in Hmm; lia].
        rewrite (sweep_pure_nth m s d ets mms ninf k mm e Hmm He) in Hk. injection Hk as <-.
        destruct (Hcov k e He) as [Ok_e Hc]. rewrite Hc.
        pose proof (I2 mm (nth_error_In _ _ Hmm)) as Sh.
        pose proof (I3 k mm e i j si dj Hmm He Hi Hj) as Hold.
        unfold rate_at. rewrite find_app. cbn [find].
        destruct (String.eqb (m_src m) si && String.eqb (m_dst m) dj && activeb m e) eqn:P.
        * apply andb_true_iff in P. destruct P as [P Pa]. apply andb_true_iff in P.
          destruct P as [Ps Pd]. apply String.eqb_eq in Ps. apply String.eqb_eq in Pd.
          subst si dj. rewrite Pa.
          rewrite (no_prior g pre m rest e OK E Ok_e Pa).
          assert (i = s) by (eapply names_inj; eauto).
          assert (j = d) by (eapply names_inj; eauto). subst i j.
          now apply (mget_mset_eq (List.length (g_demes g))).
        * assert (mget (if activeb m e then mset mm d s (nfloat (m_rate m)) else mm) j i
                  = mget mm j i) as ->.
          { destruct (activeb m e) eqn:Pa; [|reflexivity].
            apply (mget_mset_neq (List.length (g_demes g))); auto.
            destruct (Nat.eq_dec j d) as [->|]; [|now left].
            destruct (Nat.eq_dec i s) as [->|]; [|now right]. exfalso.
            assert (si = m_src m) by congruence. assert (dj = m_dst m) by congruence.
            subst si dj. rewrite !String.eqb_refl in P. discriminate. }
          rewrite Hold. unfold rate_at.
          destruct (find _ pre); reflexivity.
  Qed.

  Lemma foldM_inv g : MigsOK g ->
    let ets := mm_end_times (g_migs g) in
    forall rest pre mms, g_migs g = pre ++ rest -> Inv g ets pre mms ->
    exists mms',
      foldM (fun mms m => s <- deme_id g (m_src m) ;; d <- deme_id g (m_dst m) ;;
                          sweep m s d ninf ets mms) rest mms = Ok mms' /\
      Inv g ets (g_migs g) mms'.
  Proof.
    intros OK ets. induction rest as [|m rest IH]; intros pre mms E I.
    - exists mms. split; [reflexivity|]. rewrite E, app_nil_r. exact I.
    - destruct (step g pre m rest mms OK E I) as (s & d & Hs & Hd & Hsw & I').
      fold ets in Hsw, I'. cbn [foldM]. rewrite Hs, Hd. cbn [bind]. rewrite Hsw. cbn [bind].
      apply (IH (pre ++ [m])); auto. rewrite <- app_assoc. exact E.
  Qed.

  Lemma migmat_run g : MigsOK g ->
    exists mms, migration_matrices g = Ok (mms, mm_end_times (g_migs g)) /\
      Inv g (mm_end_times (g_migs g)) (g_migs g) mms.
  Proof.
    intro OK.
    destruct (foldM_inv g OK (g_migs g) [] _ eq_refl (inv_init g _)) as (mms & F & I).
    exists mms. split; auto. unfold migration_matrices. cbv zeta. rewrite F. reflexivity.
  Qed.

  Lemma migmat_inv g mms ets : MigsOK g -> migration_matrices g = Ok (mms, ets) ->
    ets = mm_end_times (g_migs g) /\ Inv g ets (g_migs g) mms.
  Proof.
    intros OK H. destruct (migmat_run g OK) as (mms' & F & I).
    rewrite F in H. injection H as <- <-. auto.
  Qed.

  (* 3. it never raises on a valid graph, and has the right shape *)
  Theorem migmat_total g :
    MigsOK g ->
    exists mms, migration_matrices g = Ok (mms, mm_end_times (g_migs g)) /\
      List.length mms = List.length (mm_end_times (g_migs g)) /\
      forall mm, In mm mms ->
        List.length mm = List.length (g_demes g) /\
        forall row, In row mm -> List.length row = List.length (g_demes g).
  Proof.
    intro OK. destruct (migmat_run g OK) as (mms & F & I1 & I2 & _).
    exists mms. repeat split; auto; apply (I2 mm); auto.
  Qed.

  (* 4. pointwise agreement: in the matrix of the interval that contains t, entry
        (row dest j, column source i) is the rate of the migration i -> j in force at t, else 0.0 *)
  Theorem migmat_pointwise g mms ets :
    MigsOK g -> migration_matrices g = Ok (mms, ets) ->
    forall k mm e t i j si dj,
      nth_error mms k = Some mm -> nth_error ets k = Some e -> ok t ->
      nlt t (ival_start ets k) = true -> nle e t = true ->
      nth_error (deme_names g) i = Some si -> nth_error (deme_names g) j = Some dj ->
      mget mm j i = rate_at (g_migs g) si dj t.
  Proof.
    intros OK H k mm e t i j si dj Hk He Ot H1 H2 Hi Hj.
    destruct (migmat_inv g mms ets OK H) as [-> (_ & _ & I3)].
    rewrite (I3 k mm e i j si dj Hk He Hi Hj).
    destruct (ets_ctx g OK) as [S Mem].
    destruct (ival_nth _ k e He) as [A B].
    unfold rate_at.
    rewrite (find_ext_in
      (fun m => String.eqb (m_src m) si && String.eqb (m_dst m) dj && activeb m t)
      (fun m => String.eqb (m_src m) si && String.eqb (m_dst m) dj && activeb m e)); auto.
    intros m Hm. destruct (Mem m Hm) as [Ms Me]. f_equal.
    exact (activeb_interval _ m k _ e t S Ms Me A B Ot H2 H1).
  Qed.

  (* 5. hence every row sum is the ingress at the interval's end time, and the
        ingress bound of validity bounds every row; _check_migration_rates passes *)
  Theorem migmat_rows g mms ets :
    MigsOK g -> IngressOK g -> migration_matrices g = Ok (mms, ets) ->
    forall mm row, In mm mms -> In row mm ->
      nle (pysum row) n1 = true \/ isclose0 (pysum row) n1 = true.
  Proof.
    intros OK IO H mm row Hmm Hrow.
    destruct (migmat_inv _ _ _ OK H) as [-> (I1 & I2 & I3)].
    set (ets := mm_end_times (g_migs g)) in *.
    destruct (In_nth_error _ _ Hmm) as [k Hk].
    destruct (In_nth_error _ _ Hrow) as [j Hj].
    destruct (I2 mm Hmm) as [Sh1 Sh2].
    pose proof (nth_error_lt _ _ _ Hk) as Hklt. rewrite I1 in Hklt.
    pose proof (nth_error_lt _ _ _ Hj) as Hjlt. rewrite Sh1 in Hjlt.
    destruct (nth_error ets k) as [e|] eqn:He; [|apply nth_error_None in He; lia].
    destruct (nth_error (g_demes g) j) as [dj|] eqn:Hd; [|apply nth_error_None in Hd; lia].
    assert (row = map (fun s => rate_at (g_migs g) (d_name s) (d_name dj) e) (g_demes g)) as ->.
    { apply (nth_ext _ _ nf0 nf0).
      - rewrite map_length. apply Sh2; auto.
      - intros i Hi. rewrite (Sh2 _ Hrow) in Hi.
        destruct (nth_error (g_demes g) i) as [di|] eqn:Hdi; [|apply nth_error_None in Hdi; lia].
        transitivity (mget mm j i).
        + unfold mget. now rewrite (nth_error_nth _ _ [] Hj).
        + rewrite (I3 k mm e i j (d_name di) (d_name dj) Hk He).
          * symmetry. apply nth_error_nth.
            apply (map_nth_error (fun s => rate_at (g_migs g) (d_name s) (d_name dj) e) _ _ Hdi).
          * unfold deme_names. now apply map_nth_error.
          * unfold deme_names. now apply map_nth_error. }
    fold (ingress g (d_name dj) e).
    destruct (ets_facts (g_migs g) (migs_hyp g OK)) as (F1 & _ & F3 & _).
    fold ets in F1, F3. pose proof (nth_error_In _ _ He) as Hin.
    apply IO.
    - eapply nth_error_In; eauto.
    - eapply SD_ok; eauto.
    - apply F3; auto.
    - apply F3; auto.
  Qed.

  Lemma forM_ok {A} (f : A -> res unit) l :
    (forall x, In x l -> f x = Ok tt) -> forM_ f l = Ok tt.
  Proof.
    induction l as [|a l IH]; intro H; [reflexivity|]. cbn.
    rewrite (H a (or_introl eq_refl)). cbn. apply IH. intros x Hx. apply H. now right.
  Qed.

  Theorem check_rates_ok g :
    MigsOK g -> IngressOK g -> check_migration_rates g = Ok tt.
  Proof.
    intros OK IO. unfold check_migration_rates.
    destruct (migmat_total g OK) as (mms & H & _). rewrite H. cbn [bind fst].
    apply forM_ok. intros mm Hmm. apply forM_ok. intros row Hrow.
    assert (ngt (pysum row) n1 && negb (isclose0 (pysum row) n1) = false) as ->; [|reflexivity].
    apply andb_false_iff.
    destruct (migmat_rows g mms _ OK IO H mm row Hmm Hrow) as [R|R].
    - left. unfold ngt. nord.
    - right. now rewrite R.
  Qed.
End MigMatProofs.

Print Assumptions valid_migs_ok.
Print Assumptions end_times_shape.
Print Assumptions intervals_cover.
Print Assumptions migmat_total.
Print Assumptions migmat_pointwise.
Print Assumptions migmat_rows.
Print Assumptions check_rates_ok.
