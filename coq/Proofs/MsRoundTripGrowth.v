(* C09, growth rates — graph -> ms -> from_ms's interpreter preserves GROWTH RATES.
   Composition of to_ms_growth (Proofs/MsGrowth.v: the alpha the ms semantics holds for population
   i at time T, after the events to_ms emits, is numerically growth_rate (4*N0) e for the epoch e
   owning T) and run_groups_both_refine (Proofs/FromMsGrowth.v: the growth carried by the head
   epoch of from_ms's interpreter is numerically alpha / (4*N0), or both are zero).

   The statement is on a PREFIX of the emitted events (all events with ms time <= T/(4*N0)), not
   on the graph build_graph finally returns: the final graph stores start/end SIZES of epochs, the
   growth rates that the interpreter tracks are consumed when the next size/growth event closes the
   epoch (epoch_resolve computes the start size with an exponential), so "the growth rate in force
   at T" is a fact about the interpreter state after exactly the events up to T.  build_doc_init
   ties the initial interpreter state used here (init_bstate) to the one build_doc starts from.

   Contents:
   1. run_upto_filter / ms_at_prefix: ms_at c T is the plain fold of apply_ev over the events with
      time <= T (no sortedness needed).
   2. SameGA, run_upto_ga: the bridge of Proofs/MsRoundTrip.v for growth rates: dividing all times
      by 4*N0 does not change the alpha and the alive flag of any population.
   3. init_bstate, build_doc_init, init_bstate_rel.
   4. ms_round_trip_growth_sem (semantics side, shares st' with) ms_round_trip_growth_interp
      (interpreter side), and the composition ms_round_trip_growth; ms_round_trip_growth_arith is
      the same under the record RoundTripArith.
   5. A computed example over NumQ. *)
From Coq Require Import Bool List String QArith Lqa Lia Arith Permutation.
From Demes Require Import Base.Num Base.Py Model.MDM Model.InGen Model.MigMat Model.MsOpt Model.ToMs
  Model.FromMs Spec.Valid Spec.MsSem Proofs.ResolveInv Proofs.InGenProofs Proofs.MsProofs
  Proofs.MsRates Proofs.MsGrowth Proofs.FromMsRefine Proofs.FromMsHistory Proofs.FromMsRates
  Proofs.FromMsGrowth Proofs.MsRoundTrip.
Import ListNotations.
Local Open Scope string_scope.
Local Open Scope list_scope.
Local Open Scope nat_scope.

(* ====================================================================================== *)
(* 1. ms_at is the fold over the prefix                                                   *)
Section Prefix.
  Context {N : NumOps}.

  Lemma run_upto_filter evs T : forall st,
    run_upto evs T st = foldM apply_ev (filter (leT T) evs) st.
  Proof.
    induction evs as [|e evs IH]; intro st; [reflexivity|].
    unfold run_upto in *. cbn [foldM filter]. unfold leT at 1.
    destruct (nle (ev_time e) T); cbn [foldM].
    - destruct (apply_ev st e); cbn [bind]; [apply IH|reflexivity].
    - cbn [bind]. apply IH.
  Qed.

  (* the state in force at T is the result of applying, in order, exactly the events with
     time <= T *)
  Theorem ms_at_prefix c T :
    ms_at c T = foldM apply_ev (filter (leT T) (all_events c)) (init_state c).
  Proof. unfold ms_at. apply (run_upto_filter (all_events c) T). Qed.
End Prefix.

(* ====================================================================================== *)
(* 2. The bridge for growth rates                                                         *)
Section BridgeGA.
  Context {N : NumOps} {L : NumLaws N}.

  Definition ga (p : mpop) : num * bool := (mp_alpha p, alive p).
  (* same growth rates, same populations emptied *)
  Definition SameGA (st st' : mstate) : Prop := map ga (st_pops st) = map ga (st_pops st').

  Lemma map_conj {A B} (g : A -> B) (f : A -> A) (h : B -> B) l :
    (forall x, g (f x) = h (g x)) -> map g (map f l) = map h (map g l).
  Proof. intro H. rewrite !map_map. apply map_ext. intro x. apply H. Qed.

  Lemma apply_ev_ga N0 st st' e s1 s1' :
    SameGA st st' -> apply_ev st e = Ok s1 -> apply_ev st' (sc_ev N0 e) = Ok s1' -> SameGA s1 s1'.
  Proof.
    unfold SameGA. intros HS H H'. unfold sc_ev in H'.
    destruct e as [t a|t i a|t x|t i x tm|t x|t i j x|t np m ini|t i p|t i j];
      cbn [set_time ev_time] in H'; unfold apply_ev in H, H'; cbv zeta in H, H'.
    - injection H as <-. injection H' as <-. cbn [st_pops].
      rewrite !(map_conj ga _ (fun y => if snd y then (a, true) else y)), HS; [reflexivity| |];
        intros [sz al t0 b [jn|]]; reflexivity.
    - mraise H Hc. mraise H' Hc'. injection H as <-. injection H' as <-. cbn [st_pops].
      rewrite !(map_upd ga _ (fun y => (a, snd y))), HS; [reflexivity| |];
        intros [sz al t0 b [jn|]]; reflexivity.
    - injection H as <-. injection H' as <-. cbn [st_pops].
      rewrite !(map_conj ga _ (fun y => if snd y then (n0, true) else y)), HS; [reflexivity| |];
        intros [sz al t0 b [jn|]]; reflexivity.
    - mraise H Hc. mraise H' Hc'. injection H as <-. injection H' as <-. cbn [st_pops].
      rewrite !(map_upd ga _ (fun y => (if negb tm then fst y else n0, snd y))), HS; [reflexivity| |];
        intros [sz al t0 b [jn|]]; destruct tm; reflexivity.
    - injection H as <-. injection H' as <-. exact HS.
    - mraise H Hc. mraise H' Hc'. injection H as <-. injection H' as <-. exact HS.
    - mraise H Hc. mraise H' Hc'. injection H as <-. injection H' as <-. exact HS.
    - mraise H Hc. mraise H' Hc'. injection H as <-. injection H' as <-. cbn [st_pops].
      rewrite !map_app, HS. reflexivity.
    - mraise H Hc. mraise H' Hc'. injection H as <-. injection H' as <-. cbn [st_pops].
      rewrite !(map_upd ga _ (fun y => (fst y, false))), HS; [reflexivity| |];
        intros [sz al t0 b [jn|]]; reflexivity.
  Qed.

  Lemma run_upto_ga N0 T evs :
    ok T -> forall st st' s s',
    DivMono N0 (T :: map ev_time evs) -> (forall e, In e evs -> ok (ev_time e)) ->
    SameGA st st' ->
    run_upto evs T st = Ok s ->
    run_upto (map (sc_ev N0) evs) (dv N0 T) st' = Ok s' ->
    SameGA s s'.
  Proof.
    intros OT. unfold run_upto.
    induction evs as [|e evs IH]; intros st st' s s' [DM1 DM2] Oe HS H H'; cbn [map foldM] in H, H'.
    - injection H as <-. injection H' as <-. exact HS.
    - mbind H s1 H1. mbind H' s1' H1'. rewrite ev_time_sc in H1'.
      assert (nle (dv N0 (ev_time e)) (dv N0 T) = nle (ev_time e) T) as E.
      { apply DM2; [right; now left|now left|apply Oe; now left|exact OT]. }
      rewrite E in H1'.
      assert (forall a, In a (T :: map ev_time evs) -> In a (T :: map ev_time (e :: evs))) as Tl.
      { intros a [<-|Ha]; [now left|right; now right]. }
      apply (IH s1 s1' s s'); auto.
      + split.
        * intros a Ha. apply DM1. now apply Tl.
        * intros a b Ha Hb. apply DM2; now apply Tl.
      + intros x Hx. apply Oe. now right.
      + destruct (nle (ev_time e) T).
        * eapply apply_ev_ga; eauto.
        * injection H1 as <-. injection H1' as <-. exact HS.
  Qed.

  Lemma SameGA_nth st st' i p :
    SameGA st st' -> nth_error (st_pops st) i = Some p ->
    exists p', nth_error (st_pops st') i = Some p' /\ mp_alpha p' = mp_alpha p /\ alive p' = alive p.
  Proof.
    unfold SameGA. intros HS Hp.
    apply (f_equal (fun l => nth_error l i)) in HS. rewrite !nth_error_map, Hp in HS. cbn in HS.
    destruct (nth_error (st_pops st') i) as [p'|]; [|discriminate]. cbn in HS.
    exists p'. split; [reflexivity|]. unfold ga in HS. split; congruence.
  Qed.
End BridgeGA.

(* ====================================================================================== *)
(* 3. The interpreter state build_doc starts from                                         *)
Section Init.
  Context {N : NumOps} {L : NumLaws N}.

  Definition init_bstate (c : mscmd) (N0 : num) : res bstate :=
    let n := c_npop c in
    m0 <- (if Nat.ltb 1 n then
             v <- pdiv (c_irate c) (nat_num (n - 1)) ;;
             Ok (mapi 0 (fun k (_ : unit) => mapi 0 (fun j (_ : unit) =>
                     nmul v (if Nat.eqb j k then n0 else n1)) (repeat tt n)) (repeat tt n))
           else Ok [[nf0]]) ;;
    Ok (mkB n [m0] [nf0] []
            (map (fun j => mkBD (deme_name (S j)) ninf None None [mkBE n0 N0 None None]) (seq 0 n)) []).

  (* build_doc (hence build_graph, from_ms) runs the grouped events from init_bstate *)
  Lemma build_doc_init c N0 d :
    build_doc c N0 = Ok d ->
    1 <= c_npop c /\
    exists s0 s, init_bstate c N0 = Ok s0 /\
      foldM (run_group N0) (group_by_time (all_events c)) s0 = Ok s.
  Proof.
    intro Hdoc. unfold build_doc in Hdoc.
    mraise Hdoc H1. mraise Hdoc H2. mbind Hdoc u3 H3. cbv zeta in Hdoc. mbind Hdoc m0 Hm0.
    mbind Hdoc s Hs. clear Hdoc.
    split.
    - apply Nat.eqb_neq in H1. lia.
    - eexists. exists s. split; [|exact Hs].
      unfold init_bstate. cbv zeta. rewrite Hm0. reflexivity.
  Qed.

  Lemma init_bstate_rel c N0 s0 :
    (forall x : num, nmul x n1 = x) -> 1 <= c_npop c ->
    init_bstate c N0 = Ok s0 ->
    MRel s0 (init_state c) /\ FromMsGrowth.GRel N0 s0 (init_state c).
  Proof.
    intros Hmul Hn H. unfold init_bstate in H. cbv zeta in H. mbind H m0 Hm0. injection H as <-.
    split; [|apply (init_growth c N0)].
    destruct (Nat.ltb 1 (c_npop c)) eqn:E1.
    - mbind Hm0 v Hv. injection Hm0 as Em0.
      pose proof (init_refine c v Hmul Hn (fun _ => Hv)) as HR. cbv zeta in HR.
      rewrite E1 in HR. rewrite <- Em0. apply HR.
    - injection Hm0 as Em0.
      assert (Nat.ltb 1 (c_npop c) = true -> pdiv (c_irate c) (nat_num (c_npop c - 1)) = Ok n0) as Hv
        by (intro X; congruence).
      pose proof (init_refine c n0 Hmul Hn Hv) as HR. cbv zeta in HR.
      rewrite E1 in HR. rewrite <- Em0. apply HR.
  Qed.
End Init.

(* ====================================================================================== *)
(* 4. The composition                                                                     *)
Section RoundTripGrowth.
  Context {N : NumOps} {L : NumLaws N}.

  Lemma OkEv_sc N0 e : OkEv N0 e -> OkEv N0 (sc_ev N0 e).
  Proof. destruct e; cbn; auto. Qed.

  (* what both halves need about the emitted events *)
  Lemma emitted_facts g0 g N0 n evs T :
    in_generations g0 = Ok g -> Valid g -> to_ms_unscaled g0 N0 = Ok (n, evs) ->
    DivMono N0 (T :: map ev_time evs) ->
    n = List.length (g_demes g) /\
    (forall e, In e evs -> ok (ev_time e) /\ noM e) /\ TimeSorted evs /\
    (forall e, In e (map (sc_ev N0) evs) -> ok (ev_time e) /\ noM e) /\
    TimeSorted (map (sc_ev N0) evs).
  Proof.
    intros Hg V Hun DM.
    destruct (to_ms_shape _ _ _ _ _ Hg V Hun) as (Hn & A & off & on & E & SH).
    destruct SH as (HU & _).
    assert (forall e, In e evs -> ok (ev_time e) /\ noM e) as Hevs.
    { intros e He. rewrite E in He. apply (Permutation_in _ (sort_events_perm _)) in He. now apply HU. }
    assert (TimeSorted evs) as TS.
    { rewrite E. apply sort_events_sorted. intros e He. now apply HU. }
    assert (forall e, In e evs -> In (ev_time e) (T :: map ev_time evs) /\ ok (ev_time e)) as Hin.
    { intros e He. split; [right; now apply in_map|now apply Hevs]. }
    split; [exact Hn|]. split; [exact Hevs|]. split; [exact TS|]. split.
    - intros e He. apply in_map_iff in He. destruct He as (e0 & <- & He0).
      rewrite ev_time_sc. split; [|apply noM_sc; now apply Hevs].
      apply (proj1 DM); [now apply Hin|now apply Hevs].
    - eapply TimeSorted_scaled; eauto.
  Qed.

  (* (a) the semantics side: after the events of the emitted command with ms time <= T/(4*N0),
     applied in order, population i is alive and its alpha is numerically growth_rate (4*N0) e *)
  Theorem ms_round_trip_growth_sem g0 g N0 n evs evs' T i di k e alpha :
    in_generations g0 = Ok g -> Valid g ->
    to_ms_unscaled g0 N0 = Ok (n, evs) ->
    to_ms_events g0 N0 = Ok (n, evs') ->
    DivMono N0 (T :: map ev_time evs) ->
    ok T -> nle n0 T = true ->
    nth_error (g_demes g) i = Some di -> nlt T (d_start di) = true ->
    nth_error (d_epochs di) k = Some e -> nlt T (e_start e) = true -> nle (e_end e) T = true ->
    growth_rate (nmul n4 N0) e = Ok alpha ->
    let c' := mkCmd n true n0 [] evs' in
    exists st' p' r,
      ms_at c' (dv N0 T) = Ok st' /\
      foldM apply_ev (filter (leT (dv N0 T)) evs') (init_state c') = Ok st' /\
      nth_error (st_pops st') i = Some p' /\ alive p' = true /\
      (mp_alpha p' = nfloat r \/ (mp_alpha p' = n0 /\ r = n0)) /\ SameRate r alpha.
  Proof.
    intros Hg V Hun Hev DM OT HT0 Hdi HTd Hk HTs HTe Ha c'.
    destruct (to_ms_events_inv _ _ _ _ Hev) as (evs2 & Hun2 & E').
    rewrite Hun in Hun2. injection Hun2 as <-. subst evs'.
    destruct (emitted_facts _ _ _ _ _ T Hg V Hun DM) as (Hn & Hevs & TS & Hevs' & TS').
    destruct (ms_at_scaled _ _ _ _ _ T Hg V Hun OT DM) as (st & st' & Hat' & Hat & _ & _ & _).
    assert (forall e, In e evs -> ok (ev_time e)) as OU by (intros x Hx; now apply Hevs).
    assert (forall e, In e (map (sc_ev N0) evs) -> ok (ev_time e)) as OU' by (intros x Hx; now apply Hevs').
    pose proof Hat as Hrun. pose proof Hat' as Hrun'.
    unfold ms_at, all_events in Hrun, Hrun'. cbn [c_init c_events app] in Hrun, Hrun'.
    rewrite sort_events_id in Hrun by assumption. rewrite sort_events_id in Hrun' by assumption.
    assert (SameGA st st') as HGA.
    { eapply (run_upto_ga N0 T evs OT); [exact DM|exact OU| |exact Hrun|exact Hrun'].
      unfold SameGA. reflexivity. }
    destruct (to_ms_growth _ _ _ _ _ _ _ _ _ _ _ _ Hg V Hun OT HT0 Hat Hdi HTd Hk HTs HTe Ha)
      as (p & r & Hp & Hal & SR).
    destruct (to_ms_alive _ _ _ _ _ _ _ _ _ Hg V Hun OT HT0 Hat Hdi) as (p2 & Hp2 & Ap).
    rewrite Hp in Hp2. injection Hp2 as <-.
    assert (nle (d_start di) T = false) as Li.
    { assert (ok (d_start di)) by (apply lt_true in HTd; tauto). nord. }
    rewrite Li, andb_false_r in Ap. cbn [negb] in Ap.
    destruct (SameGA_nth _ _ _ _ HGA Hp) as (p' & Hp' & Eal & Eav).
    exists st', p', r. split; [exact Hat'|]. split.
    - rewrite <- run_upto_filter. exact Hrun'.
    - split; [exact Hp'|]. split; [congruence|]. rewrite Eal. split; [exact Hal|exact SR].
  Qed.

  (* the growth rate that the head epoch of deme d carries is numerically a/(4*N0), or both are
     numerically zero (GAgree of Proofs/FromMsGrowth.v, on the number a) *)
  Definition HeadGrowth (N0 : num) (d : bdeme) (a : num) : Prop :=
    exists ep rest, bd_epochs d = ep :: rest /\
      ((neqb a n0 = true /\ neqb (growth_of ep) n0 = true) \/
       (exists gq, pdiv a (nmul n4 N0) = Ok gq /\ neqb (growth_of ep) gq = true)).

  (* (b) the interpreter side: from_ms's interpreter, run from build_doc's initial state over the
     same prefix, holds for every population alive in st' a head epoch whose growth rate agrees
     with the population's alpha *)
  Theorem ms_round_trip_growth_interp g0 g N0 n evs evs' T s0 s st' i p' :
    in_generations g0 = Ok g -> Valid g ->
    to_ms_unscaled g0 N0 = Ok (n, evs) ->
    to_ms_events g0 N0 = Ok (n, evs') ->
    (forall x : num, nmul x n1 = x) -> ok N0 ->
    DivMono N0 (T :: map ev_time evs) ->
    (forall e, In e evs -> OkEv N0 e) ->
    let c' := mkCmd n true n0 [] evs' in
    init_bstate c' N0 = Ok s0 ->
    foldM (run_group N0) (group_by_time (filter (leT (dv N0 T)) evs')) s0 = Ok s ->
    foldM apply_ev (filter (leT (dv N0 T)) evs') (init_state c') = Ok st' ->
    nth_error (st_pops st') i = Some p' -> alive p' = true ->
    exists d, nth_error (b_demes s) i = Some d /\ HeadGrowth N0 d (mp_alpha p').
  Proof.
    intros Hg V Hun Hev Hmul ON0 DM HOk c' Hs0 Hs Hst Hp' Ap'.
    destruct (to_ms_events_inv _ _ _ _ Hev) as (evs2 & Hun2 & E').
    rewrite Hun in Hun2. injection Hun2 as <-. subst evs'.
    destruct (emitted_facts _ _ _ _ _ T Hg V Hun DM) as (Hn & Hevs & TS & Hevs' & TS').
    assert (1 <= n) as Hn1.
    { destruct n as [|n']; [|lia]. exfalso. apply (v_demes_ne _ V).
      destruct (g_demes g); [reflexivity|discriminate]. }
    destruct (init_bstate_rel c' N0 s0 Hmul Hn1 Hs0) as [HR0 HG0].
    destruct (run_groups_both_refine N0 (filter (leT (dv N0 T)) (map (sc_ev N0) evs)) s0 (init_state c') s st' ON0)
      as [HR HG]; auto.
    { intros x Hx. apply filter_In in Hx. destruct Hx as [Hx _].
      apply in_map_iff in Hx. destruct Hx as (x0 & <- & Hx0). split.
      - apply noM_sc. now apply Hevs.
      - apply OkEv_sc. now apply HOk. }
    destruct HG as [Hlen HG].
    assert (i < b_n s) as Hi.
    { rewrite (mr_n _ _ HR). unfold npops. apply nth_error_Some. congruence. }
    assert (memn i (b_joined s) = false) as Mi.
    { rewrite (mr_joined _ _ HR i p' Hp'), Ap'. reflexivity. }
    destruct (HG i Hi Mi) as (d & q & Hd & Hq & Hag).
    rewrite Hp' in Hq. injection Hq as <-.
    exists d. split; [exact Hd|].
    unfold GAgree in Hag. unfold HeadGrowth.
    destruct (bd_epochs d) as [|ep rest]; [contradiction|].
    exists ep, rest. split; [reflexivity|exact Hag].
  Qed.

  (* The composition.  g0: any graph; g: its conversion to generations, valid; (n, evs'): what
     to_ms emits for g0 and N0; T: a time (generations) in the lifetime of deme i, owned by the
     epoch e of that deme; alpha: the growth rate to_ms computes for e (ms units).  Run from_ms's
     interpreter from build_doc's initial state over the emitted events with ms time <= T/(4*N0):
     the head epoch of deme i carries a growth rate (per generation) that is numerically
     a/(4*N0), where a is float(r) for an r that is alpha or compares equal to alpha — or the
     head epoch's rate and a are both numerically zero. *)
  Theorem ms_round_trip_growth g0 g N0 n evs evs' T i di k e alpha s0 s :
    in_generations g0 = Ok g -> Valid g ->
    to_ms_unscaled g0 N0 = Ok (n, evs) ->
    to_ms_events g0 N0 = Ok (n, evs') ->
    (forall x : num, nmul x n1 = x) -> ok N0 ->
    DivMono N0 (T :: map ev_time evs) ->
    (forall e, In e evs -> OkEv N0 e) ->
    ok T -> nle n0 T = true ->
    nth_error (g_demes g) i = Some di -> nlt T (d_start di) = true ->
    nth_error (d_epochs di) k = Some e -> nlt T (e_start e) = true -> nle (e_end e) T = true ->
    growth_rate (nmul n4 N0) e = Ok alpha ->
    init_bstate (mkCmd n true n0 [] evs') N0 = Ok s0 ->
    foldM (run_group N0) (group_by_time (filter (leT (dv N0 T)) evs')) s0 = Ok s ->
    exists d a r, nth_error (b_demes s) i = Some d /\
      (a = nfloat r \/ (a = n0 /\ r = n0)) /\ SameRate r alpha /\
      HeadGrowth N0 d a.
  Proof.
    intros Hg V Hun Hev Hmul ON0 DM HOk OT HT0 Hdi HTd Hk HTs HTe Ha Hs0 Hs.
    destruct (ms_round_trip_growth_sem _ _ _ _ _ _ _ _ _ _ _ _ Hg V Hun Hev DM OT HT0 Hdi HTd Hk HTs HTe Ha)
      as (st' & p' & r & _ & Hst & Hp' & Ap' & Hal & SR).
    destruct (ms_round_trip_growth_interp _ _ _ _ _ _ T s0 s st' i p' Hg V Hun Hev Hmul ON0 DM HOk Hs0 Hs Hst Hp' Ap')
      as (d & Hd & HH).
    exists d, (mp_alpha p'), r. auto.
  Qed.

  (* the same under the arithmetic record of ms_round_trip_rates *)
  Corollary ms_round_trip_growth_arith g0 g N0 n evs evs' T i di k e alpha s0 s :
    in_generations g0 = Ok g -> Valid g ->
    to_ms_unscaled g0 N0 = Ok (n, evs) ->
    to_ms_events g0 N0 = Ok (n, evs') ->
    RoundTripArith N0 T (map ev_time evs) (map m_rate (g_migs g)) -> ok N0 ->
    (forall e, In e evs -> OkEv N0 e) ->
    ok T -> nle n0 T = true ->
    nth_error (g_demes g) i = Some di -> nlt T (d_start di) = true ->
    nth_error (d_epochs di) k = Some e -> nlt T (e_start e) = true -> nle (e_end e) T = true ->
    growth_rate (nmul n4 N0) e = Ok alpha ->
    init_bstate (mkCmd n true n0 [] evs') N0 = Ok s0 ->
    foldM (run_group N0) (group_by_time (filter (leT (dv N0 T)) evs')) s0 = Ok s ->
    exists d a r, nth_error (b_demes s) i = Some d /\
      (a = nfloat r \/ (a = n0 /\ r = n0)) /\ SameRate r alpha /\
      HeadGrowth N0 d a.
  Proof.
    intros Hg V Hun Hev RT. destruct RT as [Hmul _ _ DM _ _ _ _ _ _ _].
    intros ON0 HOk. eapply ms_round_trip_growth; eauto.
  Qed.
  (* PARTIAL (towards deriving the hypothesis "OkEv N0 e for the emitted events" from to_ms): the
     payload of every -en / -eg that size_events emits.  The -eg rates are float(alpha) for the
     growth rate alpha of an epoch, and mk_g has checked that alpha is not infinite; the -en sizes
     are float(end_size / N0).  Missing for the derivation: (1) that every -en/-eg of
     to_ms_unscaled comes from the size_events of some deme (to_ms_sizes gives it per deme),
     (2) arithmetic: "nisinf alpha = false" does not give "ok alpha" (NaN is not infinite; over
     NumQ log gives NaN), and ok (float(alpha) / (4*N0)), ok (end_size / N0) are facts about
     ndiv that the abstract NumLaws do not contain. *)
  Lemma size_events_payload_partial N0 n4N0 j eps : forall size growth evs,
    size_events N0 n4N0 j eps size growth = Ok evs ->
    forall e, In e evs ->
      match e with
      | Evg _ _ a => exists ep al, In ep eps /\ growth_rate n4N0 ep = Ok al /\
                                   nisinf al = false /\ a = nfloat al
      | Evn _ _ x _ => exists ep, In ep eps /\ x = nfloat (ndiv (e_esize ep) N0)
      | _ => False
      end.
  Proof.
    induction eps as [|ep eps IH]; intros size growth evs H e He; cbn in H.
    - injection H as <-. destruct He.
    - mbind H r1 Hr1. cbv zeta in H. mbind H alpha Ha. mbind H r2 Hr2. mbind H rest Hrest.
      injection H as <-. apply in_app_or in He.
      destruct He as [He|He]; [|apply in_app_or in He; destruct He as [He|He]].
      + destruct (nneq size (e_esize ep)).
        * mbind Hr1 x Hx. mbind Hr1 ev Hev. injection Hr1 as <-. destruct He as [<-|[]].
          apply mk_n_inv in Hev. subst ev. apply InGenProofs.pdiv_inv in Hx. subst x.
          exists ep. split; [now left|reflexivity].
        * injection Hr1 as <-. destruct He.
      + match type of Hr2 with (if ?c then _ else _) = _ => destruct c end.
        * mbind Hr2 ev Hev. injection Hr2 as <-. destruct He as [<-|[]].
          pose proof (mk_g_inv _ _ _ _ Hev) as E. subst ev.
          unfold mk_g in Hev. mraise Hev X1. mraise Hev X2.
          exists ep, alpha. split; [now left|]. auto.
        * injection Hr2 as <-. destruct He.
      + specialize (IH _ _ _ Hrest e He). destruct e; try contradiction.
        * destruct IH as (ep' & al & H1 & H2). exists ep', al. split; [now right|exact H2].
        * destruct IH as (ep' & H1 & H2). exists ep'. split; [now right|exact H2].
  Qed.
End RoundTripGrowth.

Print Assumptions ms_at_prefix.
Print Assumptions run_upto_ga.
Print Assumptions build_doc_init.
Print Assumptions ms_round_trip_growth_sem.
Print Assumptions ms_round_trip_growth_interp.
Print Assumptions ms_round_trip_growth.
Print Assumptions ms_round_trip_growth_arith.
Print Assumptions size_events_payload_partial.

(* ====================================================================================== *)
(* 5. A computed instance over NumQ: the graph ex2_g of Proofs/Examples2.v (demes A, B from 100,
      C from 50; sizes 1000, 500, 200), N0 = 100, T = 60 generations, deme B (index 1).
      NOTE: over NumQ log and exp are only defined at 1 and 0 (Base/NumQ.v: qx_log q = NaN for
      q <> 1), so to_ms emits "-eg t i NaN" for every epoch whose size really changes and the
      hypothesis OkEv fails there: NumQ has no instance with a non-zero growth rate.  The instance
      below exercises the "-en resets the growth rate" path: both rates are zero.            *)
From Demes Require Import Base.NumQ Proofs.Examples Proofs.Examples2 Proofs.RoundTripQ.

Definition exg_evs' : list (@msev NumQ) :=
  Eval vm_compute in match to_ms_events ex2_g ex2_N0 with Ok r => snd r | Err _ => [] end.
Example exg_to_ms_events : to_ms_events ex2_g ex2_N0 = Ok (ex2_n, exg_evs').
Proof. vm_cast_no_check (@eq_refl _ (Ok (ex2_n, exg_evs'))). Qed.

Definition exg_T : qx := q 60 1 true.
Definition exg_cmd : @mscmd NumQ := mkCmd ex2_n true n0 [] exg_evs'.
Definition exg_s0 : @bstate NumQ :=
  Eval vm_compute in match init_bstate exg_cmd ex2_N0 with Ok s => s | Err _ => mkB 0 [] [] [] [] [] end.
Example exg_init : init_bstate exg_cmd ex2_N0 = Ok exg_s0.
Proof. vm_cast_no_check (@eq_refl _ (Ok exg_s0)). Qed.
Definition exg_prefix : list (@msev NumQ) :=
  Eval vm_compute in filter (leT (dv ex2_N0 exg_T)) exg_evs'.
Definition exg_s : @bstate NumQ :=
  Eval vm_compute in match foldM (run_group ex2_N0) (group_by_time exg_prefix) exg_s0 with
                     | Ok s => s | Err _ => mkB 0 [] [] [] [] [] end.
Example exg_run :
  foldM (run_group ex2_N0) (group_by_time (filter (leT (dv ex2_N0 exg_T)) exg_evs')) exg_s0 = Ok exg_s.
Proof. vm_cast_no_check (@eq_refl _ (Ok exg_s)). Qed.

(* 13 of the 15 events are at or before T = 60: the three -en at 0, the migration and pulse events
   up to 40 and the -es/-ej of C's admixture at 50; left out: the -em at 80 and B's -ej at 100 *)
Example exg_prefix_len : List.length exg_evs' = 15 /\ List.length exg_prefix = 13.
Proof. vm_compute. split; reflexivity. Qed.

Example exg_okev : forall e, In e ex2_evs -> OkEv ex2_N0 e.
Proof. apply Forall_forall. vm_compute. repeat constructor. Qed.

Definition exg_eB : @epoch NumQ :=
  Eval vm_compute in nth 0 (d_epochs ex2_dB) (mkEpoch n0 n0 n0 n0 "" n0 n0).

(* the conclusion, by the theorem *)
Example exg_round_trip_growth :
  exists d a r, nth_error (b_demes exg_s) 1 = Some d /\
    (a = nfloat r \/ (a = n0 /\ r = n0)) /\ SameRate r n0 /\ HeadGrowth ex2_N0 d a.
Proof.
  refine (@ms_round_trip_growth_arith NumQ NumQLaws ex2_g ex2_gg ex2_N0 ex2_n ex2_evs exg_evs' exg_T
            1 ex2_dB 0 exg_eB n0 exg_s0 exg_s ex2_ingen ex2_gg_valid ex2_to_ms exg_to_ms_events
            _ eq_refl exg_okev eq_refl eq_refl eq_refl eq_refl eq_refl eq_refl eq_refl eq_refl exg_init exg_run).
  apply (round_trip_arith_valid_Q ex2_g ex2_gg 100 true exg_T ex2_n ex2_evs);
    [reflexivity | exists 60%Q, true; split; [reflexivity|discriminate]
     | exact ex2_ingen | exact ex2_gg_valid | exact ex2_to_ms].
Qed.

(* and read off the computed state: the head epoch of deme_2 (= B) has growth rate None/0 *)
Example exg_head :
  match nth_error (b_demes exg_s) 1 with
  | Some d => match bd_epochs d with ep :: _ => neqb (growth_of ep) n0 = true | [] => False end
  | None => False
  end.
Proof. vm_compute. reflexivity. Qed.
