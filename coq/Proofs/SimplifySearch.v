(* C05 support: the subset search of asdict_simplified (merging directional migrations
   into symmetric groups) terminates within its fuel, never misses in list.remove, and
   preserves the multiset of migrations. *)
From Coq Require Import Bool List String QArith Lqa Arith Lia Permutation.
From Demes Require Import Base.Num Base.Py Model.MDM Model.Codec Model.MigMat Model.Resolve
  Model.Simplify Proofs.SimplifyLists.
Import ListNotations.
Local Open Scope string_scope.
Local Open Scope list_scope.

Section SimplifySearch.
  Context {N : NumOps} {L : NumLaws N}.

  (* ------------------------------------------------------------------ *)
  (* smig_eqb = true is a partial equivalence *)

  Lemma neqb_sym x y : neqb x y = true -> neqb y x = true.
  Proof. intro H. nord. Qed.
  Lemma neqb_trans x y z : neqb x y = true -> neqb y z = true -> neqb x z = true.
  Proof. intros H1 H2. nord. Qed.

  Lemma onum_sym a b : onum_eqb a b = true -> onum_eqb b a = true.
  Proof. destruct a, b; cbn; auto using neqb_sym. Qed.
  Lemma onum_trans a b c : onum_eqb a b = true -> onum_eqb b c = true -> onum_eqb a c = true.
  Proof. destruct a, b, c; cbn; try discriminate; eauto using neqb_trans. Qed.

  Lemma key_eqb_spec (a b : key) :
    key_eqb a b = true <->
    neqb (fst (fst a)) (fst (fst b)) = true /\ onum_eqb (snd (fst a)) (snd (fst b)) = true /\
    onum_eqb (snd a) (snd b) = true.
  Proof.
    destruct a as [[r1 s1] e1], b as [[r2 s2] e2]. cbn. rewrite !andb_true_iff. tauto.
  Qed.

  Lemma key_sym a b : key_eqb a b = true -> key_eqb b a = true.
  Proof.
    rewrite !key_eqb_spec. intros (H1 & H2 & H3).
    repeat split; [apply neqb_sym|apply onum_sym|apply onum_sym]; assumption.
  Qed.
  Lemma key_trans a b c : key_eqb a b = true -> key_eqb b c = true -> key_eqb a c = true.
  Proof.
    rewrite !key_eqb_spec. intros (H1 & H2 & H3) (G1 & G2 & G3).
    repeat split; [eapply neqb_trans|eapply onum_trans|eapply onum_trans]; eassumption.
  Qed.

  Lemma smig_eqb_spec a b :
    smig_eqb a b = true <->
    sm_src a = sm_src b /\ sm_dst a = sm_dst b /\ key_eqb (key_of a) (key_of b) = true.
  Proof. unfold smig_eqb. rewrite !andb_true_iff, !String.eqb_eq. tauto. Qed.

  Lemma smig_sym a b : smig_eqb a b = true -> smig_eqb b a = true.
  Proof. rewrite !smig_eqb_spec. intros (H1 & H2 & H3). auto using key_sym. Qed.
  Lemma smig_trans a b c : smig_eqb a b = true -> smig_eqb b c = true -> smig_eqb a c = true.
  Proof.
    rewrite !smig_eqb_spec. intros (H1 & H2 & H3) (G1 & G2 & G3).
    repeat split; try congruence. eauto using key_trans.
  Qed.
  Lemma smig_false_sym a b : smig_eqb a b = false -> smig_eqb b a = false.
  Proof.
    intro H. destruct (smig_eqb b a) eqn:E; [|reflexivity].
    apply smig_sym in E. congruence.
  Qed.

  Definition SVEq (a b : smig) : Prop := smig_eqb a b = true.
  Definition SDiff (a b : smig) : Prop := smig_eqb a b = false.
  Definition Distinct := AllPairs SDiff.

  Lemma SDiff_sym a b : SDiff a b -> SDiff b a.
  Proof. exact (smig_false_sym a b). Qed.

  Lemma Distinct_veq l l' : Forall2 SVEq l l' -> Distinct l -> Distinct l'.
  Proof.
    apply AllPairs_Forall2. unfold SVEq, SDiff. intros a b a' b' Ha Hb Hab.
    destruct (smig_eqb a' b') eqn:E; [|reflexivity].
    assert (smig_eqb a b = true); [|congruence].
    apply smig_trans with a'; [exact Ha|]. apply smig_trans with b'; [exact E|].
    now apply smig_sym.
  Qed.

  (* the directional entry that a pair of a rate set stands for *)
  Definition mk (k : key) (p : string * string) : smig :=
    mkSmig (fst p) (snd p) (fst (fst k)) (snd (fst k)) (snd k).

  Lemma mk_inj k k' p q : smig_eqb (mk k p) (mk k' q) = true -> p = q.
  Proof.
    rewrite smig_eqb_spec. cbn. intros (H1 & H2 & _). destruct p, q; cbn in *; congruence.
  Qed.

  Definition expand_sym (s : symmig) : list smig :=
    map (fun p => mkSmig (fst p) (snd p) (sy_rate s) (sy_start s) (sy_end s)) (perms2 (sy_demes s)).

  (* multiset equality up to smig_eqb *)
  Definition PermEq (l1 l2 : list smig) : Prop :=
    exists l, Permutation l l2 /\ Forall2 SVEq l1 l.

  Lemma PermEq_step base X Y Z :
    PermEq base X -> Permutation X Y -> Forall2 SVEq Y Z -> PermEq base Z.
  Proof.
    intros (l0 & P0 & F0) PXY FYZ.
    assert (P1 : Permutation Y l0).
    { apply Permutation_sym. apply Permutation_trans with X; assumption. }
    destruct (Permutation_Forall2 P1 FYZ) as (l2 & P2 & F2).
    exists l2. split; [now apply Permutation_sym|].
    eapply Forall2_trans; [|exact F0|exact F2]. intros a b c. apply smig_trans.
  Qed.

  (* ------------------------------------------------------------------ *)
  (* the inner loop of try_set *)

  Definition rm_step (k : key) (s : sstate) (p : string * string) : res sstate :=
    let '(r, ks, ke) := k in
    a <- remove_first smig_eqb (mkSmig (fst p) (snd p) r ks ke) (st_asym s) ;;
    ps <- remove_first pair_eqb p (st_pairs s) ;;
    Ok (mkS (st_sym s) a ps).

  Lemma try_set_unfold k s c ds :
    try_set k (s, c) ds =
    if forallb (fun p => mem_pair p (st_pairs s)) (perms2 ds) then
      s' <- foldM (rm_step k) (perms2 ds) s ;;
      Ok (mkS (st_sym s' ++ [mkSym ds (fst (fst k)) (snd (fst k)) (snd k)]) (st_asym s') (st_pairs s'),
          true)
    else Ok (s, c).
  Proof.
    unfold try_set, rm_step. destruct k as [[r ks] ke]. cbn [fst snd]. reflexivity.
  Qed.

  Lemma rm_step_unfold k s p :
    rm_step k s p =
    (a <- remove_first smig_eqb (mk k p) (st_asym s) ;;
     ps <- remove_first pair_eqb p (st_pairs s) ;;
     Ok (mkS (st_sym s) a ps)).
  Proof. unfold rm_step, mk. destruct k as [[r ks] ke]. reflexivity. Qed.

  (* invariant A (for totality): the pending pairs of the current key and the targets [T]
     of the later rate sets are pairwise different entries, each still present in asym *)
  Definition targets_of (k : key) (pairs : list (string * string)) (T : list smig) : list smig :=
    map (mk k) pairs ++ T.

  Definition InvA (k : key) (T : list smig) (s : sstate) : Prop :=
    Distinct (targets_of k (st_pairs s) T) /\
    forall y, In y (targets_of k (st_pairs s) T) ->
              exists a, In a (st_asym s) /\ smig_eqb a y = true.

  Lemma rm_step_total k T s p :
    InvA k T s -> In p (st_pairs s) ->
    exists s', rm_step k s p = Ok s' /\ InvA k T s' /\ st_sym s' = st_sym s /\
               (forall q, In q (st_pairs s) -> q <> p -> In q (st_pairs s')) /\
               S (List.length (st_pairs s')) = List.length (st_pairs s).
  Proof.
    intros [D W] Hp. rewrite rm_step_unfold.
    destruct (W (mk k p)) as (a & Ha & Hap).
    { unfold targets_of. apply in_or_app. left. now apply in_map. }
    destruct (remove_first_total smig_eqb (mk k p) (st_asym s)) as (as' & Has'); [eauto|].
    destruct (remove_first_total pair_eqb p (st_pairs s)) as (ps' & Hps').
    { exists p. split; [exact Hp|]. now apply pair_eqb_eq. }
    rewrite Has'. cbn [bind]. rewrite Hps'. cbn [bind].
    eexists. split; [reflexivity|].
    destruct (remove_first_split _ _ _ _ Hps') as (l1 & p' & l2 & E1 & E2 & Ep).
    apply pair_eqb_eq in Ep. subst p'.
    unfold InvA. cbn [st_sym st_asym st_pairs].
    assert (DM : Distinct (targets_of k ps' T) /\
                 forall y, In y (targets_of k ps' T) -> SDiff (mk k p) y).
    { unfold targets_of in *. rewrite E1 in D. rewrite E2.
      rewrite map_app in *. cbn [map] in D. rewrite <- app_assoc in *. cbn [app] in D.
      exact (AllPairs_mid SDiff SDiff_sym _ _ _ D). }
    destruct DM as [D' Dp].
    repeat split.
    - exact D'.
    - intros y Hy. destruct (W y) as (b & Hb & Hby).
      { unfold targets_of in *. rewrite E1. rewrite E2 in Hy. rewrite map_app in *.
        apply in_app_or in Hy. apply in_or_app. destruct Hy as [Hy|Hy]; [left|now right].
        apply in_app_or in Hy. apply in_or_app. cbn. tauto. }
      exists b. split; [|exact Hby].
      apply (remove_first_keeps _ _ _ _ _ Has' Hb).
      destruct (smig_eqb b (mk k p)) eqn:E; [|reflexivity].
      specialize (Dp y Hy). unfold SDiff in Dp.
      assert (smig_eqb (mk k p) y = true); [|congruence].
      apply smig_trans with b; [now apply smig_sym|exact Hby].
    - intros q Hq Hne. rewrite E1 in Hq. rewrite E2. apply in_app_or in Hq. apply in_or_app.
      destruct Hq as [Hq|[Hq|Hq]]; auto. congruence.
    - rewrite E1, E2, !app_length. cbn. lia.
  Qed.

  Lemma rm_fold_total k T : forall perms s,
    NoDup perms -> (forall q, In q perms -> In q (st_pairs s)) -> InvA k T s ->
    exists s', foldM (rm_step k) perms s = Ok s' /\ InvA k T s' /\ st_sym s' = st_sym s /\
               (List.length (st_pairs s') + List.length perms = List.length (st_pairs s))%nat.
  Proof.
    induction perms as [|p perms IH]; intros s ND Hin I.
    - exists s. cbn. split; [reflexivity|]. split; [exact I|]. split; [reflexivity|lia].
    - inversion ND as [|? ? Hp ND']; subst.
      destruct (rm_step_total k T s p I (Hin p (or_introl eq_refl)))
        as (s1 & H1 & I1 & S1 & K1 & L1).
      destruct (IH s1 ND') as (s2 & H2 & I2 & S2 & L2); [|exact I1|].
      { intros q Hq. apply K1; [apply Hin; now right|]. intros ->. contradiction. }
      exists s2. cbn [foldM]. rewrite H1. cbn [bind].
      split; [exact H2|]. split; [exact I2|]. split; [congruence|].
      cbn [List.length]. lia.
  Qed.

  Lemma try_set_total k T s c ds :
    NoDup ds -> (2 <= List.length ds)%nat -> InvA k T s ->
    exists s' c', try_set k (s, c) ds = Ok (s', c') /\ InvA k T s' /\
      (List.length (st_pairs s') <= List.length (st_pairs s))%nat /\
      (c' = true -> c = true \/ (List.length (st_pairs s') < List.length (st_pairs s))%nat).
  Proof.
    intros ND Len I. rewrite try_set_unfold.
    destruct (forallb _ (perms2 ds)) eqn:E.
    - destruct (rm_fold_total k T (perms2 ds) s) as (s' & H & I' & S' & L'); auto.
      { now apply perms2_nodup. }
      { intros q Hq. rewrite forallb_forall in E. apply mem_pair_in. now apply E. }
      rewrite H. cbn [bind]. eexists _, _. split; [reflexivity|].
      pose proof (perms2_nonempty ds Len) as NE.
      assert (1 <= List.length (perms2 ds))%nat by (destruct (perms2 ds); [congruence|cbn; lia]).
      cbn [st_pairs st_asym]. repeat split.
      + exact (proj1 I').
      + exact (proj2 I').
      + lia.
      + intros _. right. lia.
    - exists s, c. repeat split; auto. exact (proj1 I). exact (proj2 I).
  Qed.

  Lemma search_total k T : forall fuel all i s,
    NoDup all -> (i + List.length (st_pairs s) < fuel)%nat -> InvA k T s ->
    exists s', search fuel k all i s = Ok s' /\ InvA k T s'.
  Proof.
    induction fuel as [|fuel IH]; intros all i s ND Hf I; [lia|].
    cbn [search].
    destruct (Nat.leb 2 (List.length all) && Nat.leb 2 i) eqn:C; [|eauto].
    apply andb_true_iff in C. destruct C as [C1 C2]. apply Nat.leb_le in C1, C2.
    destruct (foldM_total_in (try_set k)
                (fun sc => InvA k T (fst sc) /\
                           (List.length (st_pairs (fst sc)) <= List.length (st_pairs s))%nat /\
                           (snd sc = true ->
                            (List.length (st_pairs (fst sc)) < List.length (st_pairs s))%nat))
                (combinations all i)) with (s := (s, false)) as ([s' c'] & H & I' & L1 & L2).
    - intros [s1 c1] ds Hds (I1 & K1 & K2). cbn [fst snd] in *.
      destruct (combinations_spec _ _ _ Hds) as (G1 & _ & G3).
      destruct (try_set_total k T s1 c1 ds (G3 ND) ltac:(lia) I1) as (s2 & c2 & H2 & I2 & M1 & M2).
      exists (s2, c2). split; [exact H2|]. cbn [fst snd].
      split; [exact I2|]. split; [lia|].
      intro Hc. destruct (M2 Hc) as [Hc1|Hlt]; [specialize (K2 Hc1)|]; lia.
    - cbn [fst snd]. split; [exact I|]. split; [lia|discriminate].
    - cbn [fst snd] in *. rewrite H. cbn [bind]. destruct c'.
      + apply IH; auto.
        * apply collapse_nodup.
        * specialize (L2 eq_refl). lia.
      + apply IH; auto. lia.
  Qed.

  (* ------------------------------------------------------------------ *)
  (* invariant B (soundness of the merge), by inversion *)

  Section Base.
    Context (base : list smig).

    Definition InvB (s : sstate) : Prop :=
      PermEq base (flat_map expand_sym (st_sym s) ++ st_asym s) /\
      forall sy, In sy (st_sym s) -> (2 <= List.length (sy_demes sy))%nat /\ NoDup (sy_demes sy).

    Lemma rm_fold_inv k : forall perms s s',
      foldM (rm_step k) perms s = Ok s' ->
      st_sym s' = st_sym s /\
      exists removed, Forall2 (fun a p => smig_eqb a (mk k p) = true) removed perms /\
                      Permutation (st_asym s) (removed ++ st_asym s').
    Proof.
      induction perms as [|p perms IH]; intros s s' H; cbn [foldM] in H.
      - injection H as <-. split; [reflexivity|]. exists []. split; [constructor|reflexivity].
      - apply sbind_inv in H. destruct H as (s1 & H1 & H).
        rewrite rm_step_unfold in H1.
        apply sbind_inv in H1. destruct H1 as (as1 & Ha & H1).
        apply sbind_inv in H1. destruct H1 as (ps1 & Hp & H1). injection H1 as <-.
        destruct (IH _ _ H) as (S' & removed & F & P). cbn [st_sym st_asym] in *.
        split; [exact S'|].
        destruct (remove_first_split _ _ _ _ Ha) as (l1 & a & l2 & E1 & E2 & Ea).
        exists (a :: removed). split; [constructor; assumption|].
        rewrite E1. cbn [app]. apply Permutation_sym. apply Permutation_cons_app.
        apply Permutation_sym. rewrite <- E2. exact P.
    Qed.

    Lemma try_set_inv k s c ds s' c' :
      try_set k (s, c) ds = Ok (s', c') ->
      (2 <= List.length ds)%nat -> NoDup ds -> InvB s -> InvB s'.
    Proof.
      rewrite try_set_unfold. intros H Len ND [B1 B2].
      destruct (forallb _ (perms2 ds)).
      - apply sbind_inv in H. destruct H as (s1 & H1 & H). injection H as <- <-.
        destruct (rm_fold_inv _ _ _ _ H1) as (S1 & removed & F & P).
        split; cbn [st_sym st_asym].
        + rewrite S1, flat_map_app. cbn [flat_map]. rewrite app_nil_r, <- app_assoc.
          eapply PermEq_step; [exact B1| |].
          * apply Permutation_app_head. exact P.
          * apply Forall2_app.
            { apply Forall2_refl_in. intros a Ha.
              destruct B1 as (l0 & P0 & F0).
              assert (Ha' : In a l0).
              { apply Permutation_in with (flat_map expand_sym (st_sym s) ++ st_asym s).
                - now apply Permutation_sym.
                - apply in_or_app. now left. }
              destruct (Forall2_in_r' _ _ _ F0 a Ha') as (b & _ & Hb).
              unfold SVEq in *. apply smig_trans with b; [now apply smig_sym|exact Hb]. }
            apply Forall2_app.
            { unfold expand_sym. cbn [sy_demes sy_rate sy_start sy_end].
              apply Forall2_map_r. eapply Forall2_mono; [|exact F]. intros a p _ _ Hap. exact Hap. }
            { apply Forall2_refl_in. intros a Ha.
              destruct B1 as (l0 & P0 & F0).
              assert (Ha' : In a l0).
              { apply Permutation_in with (flat_map expand_sym (st_sym s) ++ st_asym s).
                - now apply Permutation_sym.
                - apply in_or_app. right.
                  apply Permutation_in with (removed ++ st_asym s1); [now apply Permutation_sym|].
                  apply in_or_app. now right. }
              destruct (Forall2_in_r' _ _ _ F0 a Ha') as (b & _ & Hb).
              unfold SVEq in *. apply smig_trans with b; [now apply smig_sym|exact Hb]. }
        + rewrite S1. intros sy Hsy. apply in_app_or in Hsy. destruct Hsy as [Hsy|[<-|[]]]; auto.
      - injection H as <- <-. split; assumption.
    Qed.

    Lemma search_inv k : forall fuel all i s s',
      search fuel k all i s = Ok s' -> NoDup all -> InvB s -> InvB s'.
    Proof.
      induction fuel as [|fuel IH]; intros all i s s' H ND B; [discriminate|].
      cbn [search] in H.
      destruct (Nat.leb 2 (List.length all) && Nat.leb 2 i) eqn:C.
      2:{ injection H as <-. exact B. }
      apply andb_true_iff in C. destruct C as [C1 C2]. apply Nat.leb_le in C1, C2.
      apply sbind_inv in H. destruct H as ([s1 c1] & H1 & H).
      assert (B1 : InvB s1).
      { apply (foldM_inv_in (try_set k) (fun sc => InvB (fst sc)) (combinations all i))
          with (s := (s, false)) (s' := (s1, c1)); auto.
        intros [sa ca] ds [sb cb] Hds Ba Hts. cbn [fst] in *.
        destruct (combinations_spec _ _ _ Hds) as (G1 & _ & G3).
        eapply try_set_inv; eauto. lia. }
      destruct c1.
      - eapply IH; [exact H| |exact B1]. apply collapse_nodup.
      - eapply IH; [exact H|exact ND|exact B1].
    Qed.
  End Base.

  (* ------------------------------------------------------------------ *)
  (* rate sets *)

  Definition rate_sets_of (stripped : list smig) : list (key * list (string * string)) :=
    fold_left (fun rs m => add_rate_set (key_of m) (sm_src m, sm_dst m) rs) stripped [].

  Definition targets (rs : list (key * list (string * string))) : list smig :=
    flat_map (fun kp => map (mk (fst kp)) (snd kp)) rs.

  Lemma mk_key_of m : mk (key_of m) (sm_src m, sm_dst m) = m.
  Proof. destruct m; reflexivity. Qed.

  Lemma targets_add m rs :
    smig_eqb m m = true ->
    exists m', smig_eqb m' m = true /\
      Permutation (targets (add_rate_set (key_of m) (sm_src m, sm_dst m) rs)) (targets rs ++ [m']).
  Proof.
    intro Hrefl. induction rs as [|[k' ps] rs IH]; cbn [add_rate_set].
    - exists m. split; [exact Hrefl|].
      cbn [targets flat_map fst snd map app]. rewrite mk_key_of. reflexivity.
    - destruct (key_eqb k' (key_of m)) eqn:E.
      + exists (mk k' (sm_src m, sm_dst m)). split.
        * apply smig_eqb_spec. cbn. repeat split; auto.
          destruct k' as [[r1 s1] e1]. exact E.
        * cbn [targets flat_map fst snd]. rewrite map_app. cbn [map].
          rewrite <- !app_assoc. apply Permutation_app_head. cbn [app].
          apply Permutation_cons_append.
      + destruct IH as (m' & Hm' & P). exists m'. split; [exact Hm'|].
        cbn [targets flat_map fst snd]. rewrite <- app_assoc.
        apply Permutation_app_head. exact P.
  Qed.

  Lemma targets_fold : forall l rs,
    (forall m, In m l -> smig_eqb m m = true) ->
    exists l', Forall2 SVEq l' l /\
      Permutation (targets (fold_left (fun rs m => add_rate_set (key_of m) (sm_src m, sm_dst m) rs)
                                      l rs))
                  (targets rs ++ l').
  Proof.
    induction l as [|m l IH]; intros rs Hr.
    - exists []. split; [constructor|]. cbn. now rewrite app_nil_r.
    - cbn [fold_left].
      destruct (targets_add m rs (Hr m (or_introl eq_refl))) as (m' & Hm' & P1).
      destruct (IH (add_rate_set (key_of m) (sm_src m, sm_dst m) rs)) as (l' & F & P2).
      { intros x Hx. apply Hr. now right. }
      exists (m' :: l'). split; [constructor; assumption|].
      eapply Permutation_trans; [exact P2|].
      eapply Permutation_trans; [apply Permutation_app_tail; exact P1|].
      rewrite <- app_assoc. reflexivity.
  Qed.

  (* ------------------------------------------------------------------ *)
  (* the loop over rate sets *)

  Definition outer_step (sa : list symmig * list smig) (kp : key * list (string * string))
    : res (list symmig * list smig) :=
    let '(k, pairs) := kp in
    if Nat.eqb (List.length pairs) 1 then Ok sa
    else
      let all := collapse pairs in
      s <- search (List.length all + List.length pairs + 1) k all (List.length all)
                  (mkS (fst sa) (snd sa) pairs) ;;
      Ok (st_sym s, st_asym s).

  Lemma outer_total : forall rs sa,
    Distinct (targets rs) ->
    (forall y, In y (targets rs) -> exists a, In a (snd sa) /\ smig_eqb a y = true) ->
    exists r, foldM outer_step rs sa = Ok r.
  Proof.
    induction rs as [|[k pairs] rs IH]; intros sa D W.
    - exists sa. reflexivity.
    - cbn [foldM outer_step]. cbn [targets flat_map fst snd] in D, W.
      fold (targets rs) in D, W.
      destruct (Nat.eqb (List.length pairs) 1).
      + cbn [bind]. apply IH.
        * exact (AllPairs_app_r _ _ _ D).
        * intros y Hy. apply W. apply in_or_app. now right.
      + destruct (search_total k (targets rs)
                    (List.length (collapse pairs) + List.length pairs + 1)
                    (collapse pairs) (List.length (collapse pairs))
                    (mkS (fst sa) (snd sa) pairs)) as (s' & H & D' & W').
        * apply collapse_nodup.
        * cbn [st_pairs]. lia.
        * split; cbn [st_pairs st_asym]; assumption.
        * rewrite H. cbn [bind]. apply IH; cbn [snd].
          -- exact (AllPairs_app_r _ _ _ D').
          -- intros y Hy. apply W'. unfold targets_of. apply in_or_app. now right.
  Qed.

  Lemma outer_inv base : forall rs sa r,
    foldM outer_step rs sa = Ok r ->
    InvB base (mkS (fst sa) (snd sa) []) -> InvB base (mkS (fst r) (snd r) []).
  Proof.
    induction rs as [|[k pairs] rs IH]; intros sa r H B; cbn [foldM] in H.
    - injection H as <-. exact B.
    - apply sbind_inv in H. destruct H as (sa1 & H1 & H). apply (IH _ _ H). clear IH H.
      cbn [outer_step] in H1. destruct (Nat.eqb (List.length pairs) 1).
      + injection H1 as <-. exact B.
      + apply sbind_inv in H1. destruct H1 as (s & Hs & H1). injection H1 as <-. cbn [fst snd].
        apply (search_inv base) in Hs; [exact Hs|apply collapse_nodup|exact B].
  Qed.

  Lemma rate_sets_total stripped :
    Distinct stripped -> (forall m, In m stripped -> smig_eqb m m = true) ->
    exists r, foldM outer_step (rate_sets_of stripped) ([], stripped) = Ok r.
  Proof.
    intros D Hr. unfold rate_sets_of.
    destruct (targets_fold stripped [] Hr) as (l' & F & P). cbn [targets flat_map app] in P.
    apply outer_total.
    - apply (AllPairs_perm SDiff SDiff_sym l'); [now apply Permutation_sym|].
      apply (Distinct_veq stripped); [|exact D].
      eapply Forall2_sym; [|exact F]. intros a b. apply smig_sym.
    - intros y Hy. cbn [snd].
      assert (Hy' : In y l') by (eapply Permutation_in; eauto).
      destruct (Forall2_in_l _ _ _ F y Hy') as (b & Hb & Hyb).
      exists b. split; [exact Hb|]. now apply smig_sym.
  Qed.

  Lemma rate_sets_inv stripped r :
    (forall m, In m stripped -> smig_eqb m m = true) ->
    foldM outer_step (rate_sets_of stripped) ([], stripped) = Ok r ->
    PermEq stripped (flat_map expand_sym (fst r) ++ snd r) /\
    forall sy, In sy (fst r) -> (2 <= List.length (sy_demes sy))%nat /\ NoDup (sy_demes sy).
  Proof.
    intros Hr H. apply (outer_inv stripped) in H; [exact H|].
    split; cbn [st_sym st_asym flat_map app fst snd].
    - exists stripped. split; [reflexivity|]. now apply Forall2_refl_in.
    - intros sy [].
  Qed.

  Lemma simplify_migrations_unfold g :
    simplify_migrations g =
    (stripped <- mapM (strip_bounds g) (g_migs g) ;;
     r <- foldM outer_step (rate_sets_of stripped) ([], stripped) ;; Ok r).
  Proof. reflexivity. Qed.
End SimplifySearch.
