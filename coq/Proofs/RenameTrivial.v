(* C15, "some or all demes": a name map that does not move any name (in particular the
   empty map, or a map sending names to themselves) leaves every deme, migration and
   pulse exactly as it was; only the name index is rebuilt. *)
From Coq Require Import Bool List String.
From Demes Require Import Base.Num Base.Py Model.MDM Model.Rename Spec.Valid.
Import ListNotations.
Local Open Scope string_scope.
Local Open Scope list_scope.

Section RenameTrivial.
  Context {N : NumOps}.

  Definition FixesAll (names : namemap) : Prop := forall a, rn names a = a.

  Lemma map_rn_id names l : FixesAll names -> map (rn names) l = l.
  Proof.
    intros H. induction l as [|a l IH]; cbn [map]; [reflexivity|]. rewrite H, IH. reflexivity.
  Qed.

  Lemma deme_rename_id names d : FixesAll names -> deme_rename names d = d.
  Proof.
    intros H. destruct d. unfold deme_rename. cbn. rewrite H, (map_rn_id names _ H). reflexivity.
  Qed.

  Lemma mig_rename_id names m : FixesAll names -> mig_rename names m = m.
  Proof. intros H. destruct m. unfold mig_rename. cbn. rewrite !H. reflexivity. Qed.

  Lemma pulse_rename_id names p : FixesAll names -> pulse_rename names p = p.
  Proof.
    intros H. destruct p. unfold pulse_rename. cbn. rewrite H, (map_rn_id names _ H). reflexivity.
  Qed.

  Lemma map_id_ext {A} (f : A -> A) l : (forall x, f x = x) -> map f l = l.
  Proof. intros H. induction l as [|x l IH]; cbn [map]; [reflexivity|]. rewrite H, IH. reflexivity. Qed.

  Theorem rename_trivial names g :
    FixesAll names ->
    let h := rename_core names g in
    g_demes h = g_demes g /\ g_migs h = g_migs g /\ g_pulses h = g_pulses g /\
    g_desc h = g_desc g /\ g_units h = g_units g /\ g_gt h = g_gt g /\
    g_doi h = g_doi g /\ g_meta h = g_meta g /\
    g_index h = build_index 0 (g_demes g) [].
  Proof.
    intros H. cbn.
    rewrite (map_id_ext _ (g_demes g) (fun d => deme_rename_id names d H)).
    rewrite (map_id_ext _ (g_migs g) (fun m => mig_rename_id names m H)).
    rewrite (map_id_ext _ (g_pulses g) (fun p => pulse_rename_id names p H)).
    repeat split; reflexivity.
  Qed.

  Theorem fixes_all_empty : FixesAll [].
  Proof. intros a. reflexivity. Qed.

  Theorem fixes_all_self names : (forall a b, In (a, b) names -> a = b) -> FixesAll names.
  Proof.
    intros H a. unfold rn. destruct (assoc a names) as [b|] eqn:E; [|reflexivity].
    symmetry. apply H. clear H. induction names as [|[k v] names IH]; cbn in E; [discriminate|].
    destruct (String.eqb_spec a k) as [Ek|Ek].
    - inversion E; subst. left. reflexivity.
    - right. apply IH. exact E.
  Qed.
  (* the map is applied once, simultaneously: in the chain A -> B, B -> C deme A becomes B
     (not C) and B becomes C; in a swap each takes the other's name; an unmentioned name stays *)
  Theorem rn_simultaneous names a b :
    NoDup (map fst names) -> In (a, b) names -> rn names a = b.
  Proof.
    unfold rn. induction names as [|[k v] names IH]; cbn; intros Hnd Hin; [tauto|].
    inversion Hnd as [|? ? Hni Hnd']; subst.
    destruct Hin as [E|Hin].
    - inversion E; subst. rewrite String.eqb_refl. reflexivity.
    - destruct (String.eqb_spec a k) as [Ek|Ek].
      + exfalso. subst k. apply Hni. apply in_map_iff. exists (a, b). split; [reflexivity|exact Hin].
      + apply IH; assumption.
  Qed.

  Theorem rn_untouched names a : ~ In a (map fst names) -> rn names a = a.
  Proof.
    unfold rn. induction names as [|[k v] names IH]; cbn; intros Hn; [reflexivity|].
    destruct (String.eqb_spec a k) as [Ek|Ek].
    - exfalso. apply Hn. left. symmetry. exact Ek.
    - apply IH. intro X. apply Hn. right. exact X.
  Qed.

  Example rn_chain_and_swap :
    map (rn [("A", "B"); ("B", "C")]) ["A"; "B"; "C"; "D"] = ["B"; "C"; "C"; "D"] /\
    map (rn [("A", "B"); ("B", "A")]) ["A"; "B"; "D"] = ["B"; "A"; "D"].
  Proof. split; reflexivity. Qed.
End RenameTrivial.

Print Assumptions rename_trivial.
Print Assumptions fixes_all_empty.
Print Assumptions fixes_all_self.
Print Assumptions rn_simultaneous.
Print Assumptions rn_untouched.
