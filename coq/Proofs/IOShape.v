(* C16 support: documents the null walker covers completely ("no list is an element of a list"),
   nulls at visible positions, and the transport of that shape through _unstringify_infinities. *)
From Coq Require Import Bool List String Arith Lia.
From Demes Require Import Base.Num Base.Py Model.MDM Model.Codec Model.MigMat Model.Resolve
  Model.Simplify Model.IO Spec.Valid Proofs.MigMatProofs Proofs.FixedPoint Proofs.IOProofs
  Proofs.ResolveInv.
Import ListNotations.
Local Open Scope string_scope.
Local Open Scope list_scope.

Local Arguments String.eqb : simpl never.

Section IOShape.
  Context {N : NumOps}.

  (* ------------------------------------------------------------------ *)
  (* walkable values: no list is an element of a list, through the entries of dictionaries that
     a lookup can see (an entry shadowed by an earlier equal key is invisible to fromdict) *)
  Inductive Wk : jv -> Prop :=
  | Wk_scalar v : is_list v = false -> is_dict v = false -> Wk v
  | Wk_list l : (forall e, In e l -> is_list e = false) -> (forall e, In e l -> Wk e) -> Wk (JList l)
  | Wk_dict kv : (forall k w, assoc k kv = Some w -> Wk w) -> Wk (JDict kv).

  (* a null reachable through list elements and visible dictionary entries *)
  Inductive HasNullV : jv -> Prop :=
  | HV_here : HasNullV JNull
  | HV_list l v : In v l -> HasNullV v -> HasNullV (JList l)
  | HV_dict kv k v : assoc k kv = Some v -> HasNullV v -> HasNullV (JDict kv).

  (* the test _no_null_values applies to each value of a dictionary *)
  Definition chk (fuel : nat) (v : jv) : bool :=
    match v with
    | JDict _ => no_nulls fuel v
    | JList l => forallb (fun e => match e with
                                   | JDict _ => no_nulls fuel e
                                   | JNull => false
                                   | _ => true end) l
    | JNull => false
    | _ => true
    end.

  Lemma no_nulls_S fuel kv :
    no_nulls (S fuel) (JDict kv) = forallb (fun p => chk fuel (snd p)) kv.
  Proof. reflexivity. Qed.

  Lemma chk_in_false fuel kv k v : In (k, v) kv -> chk fuel v = false ->
    no_nulls (S fuel) (JDict kv) = false.
  Proof. intros Hin Hc. rewrite no_nulls_S. exact (forallb_false_in _ _ _ Hin Hc). Qed.

  (* on a walkable value the walker finds every visible null *)
  Lemma walker_complete v : HasNullV v -> Wk v ->
    forall fuel, (jdepth v <= fuel)%nat -> chk fuel v = false.
  Proof.
    induction 1 as [|l v Hin Hv IH|kv k v Ha Hv IH]; intros W fuel Hf.
    - reflexivity.
    - inversion W as [? Hl _| ? Hnl Hwk|]; subst; [discriminate Hl|].
      cbn [chk]. apply (forallb_false_in _ _ v Hin).
      pose proof (jdepth_list l v Hin) as Hd.
      destruct v as [ | | | |l'|kv'| ]; try reflexivity; try (inversion Hv; fail).
      + specialize (Hnl _ Hin). discriminate Hnl.
      + apply (IH (Hwk _ Hin) fuel). lia.
    - inversion W as [? _ Hd| |? Hwk]; subst; [discriminate Hd|].
      pose proof (assoc_in _ _ _ Ha) as Hin. pose proof (jdepth_dict kv _ Hin) as Hd. cbn [snd] in Hd.
      destruct fuel as [|fuel]; [pose proof (jdepth_pos v); lia|].
      cbn [chk]. apply (chk_in_false fuel kv k v Hin).
      apply IH; [|lia]. exact (Hwk k v Ha).
  Qed.
  (* ------------------------------------------------------------------ *)
  (* _unstringify_infinities only replaces string values by numbers: walkability is reflected *)
  Definition Tr (kv kv' : list (string * jv)) : Prop :=
    forall k v, assoc k kv = Some v -> exists v', assoc k kv' = Some v' /\ (Wk v' -> Wk v).

  Lemma Tr_refl kv : Tr kv kv.
  Proof. intros k v H. exists v. auto. Qed.

  Lemma Tr_trans a b c : Tr a b -> Tr b c -> Tr a c.
  Proof.
    intros H1 H2 k v H. destruct (H1 k v H) as (v1 & A1 & W1). destruct (H2 k v1 A1) as (v2 & A2 & W2).
    exists v2. auto.
  Qed.

  Lemma Tr_wk kv kv' : Tr kv kv' -> Wk (JDict kv') -> Wk (JDict kv).
  Proof.
    intros T W. inversion W as [? _ Hd| |? Hwk]; subst; [discriminate Hd|].
    apply Wk_dict. intros k w Hk. destruct (T k w Hk) as (w' & A & Hw). apply Hw. exact (Hwk k w' A).
  Qed.

  Lemma Tr_replace k w w' kv : assoc k kv = Some w -> (Wk w' -> Wk w) -> Tr kv (dict_replace k w' kv).
  Proof.
    intros Ha Hw k0 v Hk0. destruct (string_dec k k0) as [<-|Hne].
    - exists w'. split; [exact (assoc_dr_same _ _ _ _ Ha)|]. rewrite Ha in Hk0. now injection Hk0 as <-.
    - exists v. split; [|auto]. now rewrite (assoc_dr_other _ _ _ _ Hne).
  Qed.

  Lemma wk_str s : Wk (JStr s).
  Proof. now apply Wk_scalar. Qed.

  Lemma us_start_wk e e' : unstringify_start e = Ok e' -> Wk e' -> Wk e.
  Proof.
    destruct e as [ | | | | |kv| ]; try discriminate. unfold unstringify_start.
    destruct (assoc "start_time" kv) as [[ | | |s| | | ]|] eqn:E; intros [= <-]; auto.
    destruct (String.eqb s INFINITY_STR); auto.
    apply Tr_wk. apply (Tr_replace _ (JStr s)); [exact E|]. intros _. apply wk_str.
  Qed.

  Lemma us_start_dict e e' : unstringify_start e = Ok e' -> is_list e = false.
  Proof. destruct e; try discriminate; reflexivity. Qed.

  Lemma mapM_in_ok {A B} (f : A -> res B) l l' : mapM f l = Ok l' ->
    forall x, In x l -> exists y, f x = Ok y /\ In y l'.
  Proof.
    revert l'. induction l as [|a l IH]; intros l' H x Hx; [destruct Hx|].
    cbn in H. mbind H b Hb. mbind H bs Hbs. injection H as <-. destruct Hx as [<-|Hx].
    - exists b. split; [exact Hb|now left].
    - destruct (IH bs Hbs x Hx) as (y & Hy & Hin). exists y. split; [exact Hy|now right].
  Qed.

  Lemma mapM_us_wk l l' : mapM unstringify_start l = Ok l' -> Wk (JList l') -> Wk (JList l).
  Proof.
    intros H W. inversion W as [? Hl _| ? Hnl Hwk|]; subst; [discriminate Hl|].
    apply Wk_list; intros e He; destruct (mapM_in_ok _ _ _ H e He) as (e' & Hu & Hin).
    - exact (us_start_dict _ _ Hu).
    - exact (us_start_wk _ _ Hu (Hwk _ Hin)).
  Qed.

  Lemma map_field_Tr k r kv kv' : map_field k r unstringify_start kv = Ok kv' -> Tr kv kv'.
  Proof.
    unfold map_field. destruct (assoc k kv) as [[ | | | |l| | ]|] eqn:E; try discriminate.
    - intro H. mbind H l' Hl. injection H as <-. apply (Tr_replace _ (JList l)); [exact E|].
      exact (mapM_us_wk _ _ Hl).
    - destruct r; [discriminate|]. intros [= <-]. apply Tr_refl.
  Qed.

  Lemma us_opt_Tr k dv dv' :
    (match assoc k dv with
     | Some m => m' <- unstringify_start m ;; Ok (dict_replace k m' dv)
     | None => Ok dv end) = Ok dv' -> Tr dv dv'.
  Proof.
    destruct (assoc k dv) as [m|] eqn:E; [|intros [= <-]; apply Tr_refl].
    intro H. mbind H m' Hm. injection H as <-. apply (Tr_replace _ m); [exact E|].
    exact (us_start_wk _ _ Hm).
  Qed.

  Lemma unstringify_Tr kv d : unstringify_infinities (JDict kv) = Ok d ->
    exists kv', d = JDict kv' /\ Tr kv kv'.
  Proof.
    unfold unstringify_infinities. intro H.
    mbind H kv1 H1. mbind H kv2 H2. mbind H kv3 H3. injection H as <-.
    exists kv3. split; [reflexivity|].
    apply map_field_Tr in H1, H2. apply (Tr_trans _ _ _ H1). apply (Tr_trans _ _ _ H2).
    destruct (assoc "defaults" kv2) as [[ | | | | |dv| ]|] eqn:E; try discriminate;
      try (injection H3 as <-; apply Tr_refl).
    mbind H3 dv1 D1. mbind H3 dv2 D2. injection H3 as <-.
    apply (Tr_replace _ (JDict dv)); [exact E|]. apply Tr_wk.
    apply us_opt_Tr in D1, D2. exact (Tr_trans _ _ _ D1 D2).
  Qed.
End IOShape.

Print Assumptions walker_complete.
Print Assumptions unstringify_Tr.
