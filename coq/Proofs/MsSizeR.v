(* The ms population that to_ms anchors at the end of an exponential (or constant) epoch -- size
   end_size/N0 at ms time end_time/(4 N0), growth rate growth_rate (4 N0) e -- has, at every time of
   the epoch (ends included), exactly the deme's ideal size, in exact REAL arithmetic (NumR).
   Uses the standard library Reals. *)
From Coq Require Import Bool List String Reals Lra.
From Demes Require Import Base.Num Base.NumR Base.Py Model.MDM Model.SizeAt Model.MsOpt Model.ToMs
  Spec.Valid Spec.MsSem Proofs.SizeBetweenR.
Import ListNotations.
Local Open Scope string_scope.
Local Open Scope list_scope.
Local Open Scope R_scope.

(* the numbers behind the hypotheses: everything is a finite real, en <= tt <= s, en < s *)
Lemma ms_shape (e : @epoch NumR) (N0 t : rx) :
  @ValidEpoch NumR e -> @nisinf NumR (e_start e) = false ->
  @epoch_owns NumR t e = true \/ t = e_start e ->
  @pos_fin NumR N0 ->
  exists s en ss es tt nn i1 i2 i3 i4 i5 i6,
    e_start e = RF s i1 /\ e_end e = RF en i2 /\ e_ssize e = RF ss i3 /\ e_esize e = RF es i4 /\
    t = RF tt i5 /\ N0 = RF nn i6 /\
    0 < ss /\ 0 < es /\ 0 < nn /\ en < s /\ en <= tt /\ tt <= s.
Proof.
  destruct e as [st en ss es sf self clone]. cbn [e_start e_end e_ssize e_esize e_sf].
  intros [H1 H2 H3 [H4 H4'] [H5 H5'] _ _ _ _ _] Hfin Hown [Hn Hn'].
  cbn [e_start e_end e_ssize e_esize e_sf] in *.
  destruct ss as [ss i3| | |]; cbn in H4, H4'; try discriminate.
  destruct es as [es i4| | |]; cbn in H5, H5'; try discriminate.
  destruct en as [en i2| | |]; cbn in H1, H2; try discriminate.
  destruct N0 as [nn i6| | |]; cbn in Hn, Hn'; try discriminate.
  destruct st as [s i1| | |]; cbn in H3, Hfin; try discriminate.
  apply Rlt_bool_true in H3, H4, H5, Hn.
  assert (Ht : exists tt i5, t = RF tt i5 /\ en <= tt /\ tt <= s).
  { destruct Hown as [Hown | ->].
    - unfold epoch_owns, ngt, nge in Hown. cbn [e_start e_end] in Hown.
      apply andb_true_iff in Hown. destruct Hown as [Ho1 Ho2].
      destruct t as [tt i5| | |]; cbn in Ho1, Ho2; try discriminate.
      apply Rlt_bool_true in Ho1. apply Rle_bool_true in Ho2.
      exists tt, i5. repeat split; [assumption | lra].
    - exists s, i1. repeat split; lra. }
  destruct Ht as (tt & i5 & -> & Hl & Hu).
  exists s, en, ss, es, tt, nn, i1, i2, i3, i4, i5, i6.
  repeat (split; [reflexivity || assumption|]). assumption.
Qed.

Lemma ln_ratio_opp (ss es : R) : 0 < ss -> 0 < es -> ln (ss / es) = - ln (es / ss).
Proof.
  intros Hs He.
  replace (ss / es) with (/ (es / ss)) by (field; lra).
  apply ln_Rinv. apply ratio_pos; assumption.
Qed.

Lemma ln_ratio_nz (ss es : R) : 0 < ss -> 0 < es -> es <> ss -> ln (ss / es) <> 0.
Proof.
  intros Hs He Hne.
  destruct (ln_ratio_sign es ss He Hs) as (Lp & Ln & _).
  destruct (Rtotal_order es ss) as [C|[C|C]];
    [specialize (Lp C); lra | contradiction | specialize (Ln C); lra].
Qed.

(* the value get_growth_rate computes *)
Definition alpha_R (ss es s en nn : R) : R := (0 - ln (ss / es)) / ((s - en) / (4 * nn)).

Lemma growth_rate_val (e : @epoch NumR) (s en ss es nn : R) i1 i2 i3 i4 i6 :
  e_start e = RF s i1 -> e_end e = RF en i2 -> e_ssize e = RF ss i3 -> e_esize e = RF es i4 ->
  (e_sf e = "exponential" \/ e_sf e = "constant") ->
  0 < ss -> 0 < es -> 0 < nn -> en < s ->
  (es = ss /\ @growth_rate NumR (@nmul NumR (@n4 NumR) (RF nn i6)) e = Ok (RF 0 true)) \/
  (es <> ss /\ @growth_rate NumR (@nmul NumR (@n4 NumR) (RF nn i6)) e = Ok (RF (alpha_R ss es s en nn) false)).
Proof.
  intros Es Een Ess Ees Hsf Hss Hes Hnn Hd.
  unfold growth_rate. rewrite Es, Een, Ess, Ees.
  assert (G : raise_if (negb (String.eqb (e_sf e) "constant" || String.eqb (e_sf e) "exponential")) ValueErr = Ok tt).
  { destruct Hsf as [-> | ->]; reflexivity. }
  rewrite G. cbn [bind]. unfold nneq. cbn [neqb NumR rx_eqb].
  destruct (Req_bool es ss) eqn:Q.
  - left. apply Req_bool_true in Q. split; [assumption | reflexivity].
  - right. apply Req_bool_false in Q. split; [assumption|].
    cbn [negb]. unfold pdiv, nneg.
    cbn [neqb NumR rx_eqb rx_sub rx_mul nsub nmul n0 n4 ndiv rx_div bind].
    rewrite (Req_bool_intro_false (4 * nn) 0) by lra.
    rewrite (Req_bool_intro_false es 0) by lra.
    cbn [bind]. unfold plog. cbn [nisnan NumR rx_isnan nle rx_le n0 nlog rx_log].
    pose proof (ratio_pos es ss Hes Hss) as Hq.
    replace (Rle_bool (ss / es) 0) with false
      by (symmetry; destruct (Rle_bool (ss / es) 0) eqn:Q'; [apply Rle_bool_true in Q'; lra | reflexivity]).
    rewrite (Rlt_bool_intro 0 (ss / es)) by assumption.
    cbn [bind rx_sub nsub NumR neqb rx_eqb ndiv rx_div].
    assert (Hdt : (s - en) / (4 * nn) <> 0).
    { apply Rgt_not_eq. apply Rdiv_lt_0_compat; lra. }
    rewrite (Req_bool_intro_false _ 0 Hdt). cbn [bind]. reflexivity.
Qed.

(* get_growth_rate does not fail on a valid exponential / constant epoch with finite start *)
Theorem growth_rate_ok_R (e : @epoch NumR) (N0 : rx) :
  @ValidEpoch NumR e -> (e_sf e = "exponential" \/ e_sf e = "constant") ->
  @nisinf NumR (e_start e) = false -> @pos_fin NumR N0 ->
  exists alpha, @growth_rate NumR (@nmul NumR (@n4 NumR) N0) e = Ok alpha.
Proof.
  intros V Hsf Hfin HN.
  destruct (ms_shape e N0 (e_start e) V Hfin (or_intror eq_refl) HN)
    as (s & en & ss & es & tt & nn & i1 & i2 & i3 & i4 & i5 & i6 &
        Es & Een & Ess & Ees & _ & -> & Hss & Hes & Hnn & Hd & _ & _).
  destruct (growth_rate_val e s en ss es nn i1 i2 i3 i4 i6 Es Een Ess Ees Hsf Hss Hes Hnn Hd)
    as [[_ H] | [_ H]]; eauto.
Qed.

(* the real identity behind the theorem *)
Lemma ms_curve_identity (ss es s en tt nn : R) :
  0 < ss -> 0 < es -> 0 < nn -> en < s ->
  nn * (es / nn * exp ((0 - alpha_R ss es s en nn) * (tt / (4 * nn) - en / (4 * nn))))
  = ideal_exp ss es s en tt.
Proof.
  intros Hss Hes Hnn Hd. unfold alpha_R, ideal_exp.
  rewrite (ln_ratio_opp ss es Hss Hes).
  set (L := ln (es / ss)).
  replace ((0 - (0 - - L) / ((s - en) / (4 * nn))) * (tt / (4 * nn) - en / (4 * nn)))
    with (- L + L * ((s - tt) / (s - en))) by (field; lra).
  rewrite exp_plus, exp_Ropp.
  pose proof (exp_ln_ratio ss es Hss Hes) as EL. fold L in EL.
  pose proof (exp_pos L) as EP.
  rewrite <- EL. field. lra.
Qed.

Theorem ms_size_exp_R (e : @epoch NumR) (N0 t alpha x tm am : rx) :
  @ValidEpoch NumR e -> (e_sf e = "exponential" \/ e_sf e = "constant") ->
  @nisinf NumR (e_start e) = false ->
  @epoch_owns NumR t e = true \/ t = e_start e ->
  @pos_fin NumR N0 ->
  @growth_rate NumR (@nmul NumR (@n4 NumR) N0) e = Ok alpha ->
  @pdiv NumR (e_esize e) N0 = Ok x ->
  @pdiv NumR t (@nmul NumR (@n4 NumR) N0) = Ok tm ->
  @pdiv NumR (e_end e) (@nmul NumR (@n4 NumR) N0) = Ok am ->
  exists s en ss es tt w, rval (e_start e) = Some s /\ rval (e_end e) = Some en /\
     rval (e_ssize e) = Some ss /\ rval (e_esize e) = Some es /\ rval t = Some tt /\
     rval (@nmul NumR N0 (@ms_size_of NumR (@mkPop NumR x alpha am (@n0 NumR) None) tm)) = Some w /\
     w = ideal_exp ss es s en tt.
Proof.
  intros V Hsf Hfin Hown HN Hg Hx Htm Ham.
  destruct (ms_shape e N0 t V Hfin Hown HN)
    as (s & en & ss & es & tt & nn & i1 & i2 & i3 & i4 & i5 & i6 &
        Es & Een & Ess & Ees & -> & -> & Hss & Hes & Hnn & Hd & Hl & Hu).
  exists s, en, ss, es, tt.
  rewrite Es, Een, Ess, Ees in *. cbn [rval].
  unfold pdiv in Hx, Htm, Ham.
  cbn [neqb NumR rx_eqb rx_mul nmul n0 n4 ndiv rx_div] in Hx, Htm, Ham.
  rewrite (Req_bool_intro_false (4 * nn) 0) in Htm, Ham by lra.
  rewrite (Req_bool_intro_false nn 0) in Hx by lra.
  injection Hx as <-. injection Htm as <-. injection Ham as <-.
  destruct (growth_rate_val e s en ss es nn i1 i2 i3 i4 i6 Es Een Ess Ees Hsf Hss Hes Hnn Hd)
    as [[Heq H] | [Hne H]]; rewrite H in Hg; injection Hg as <-.
  - (* equal sizes: alpha = 0, constant population *)
    unfold ms_size_of. cbn [mp_alpha mp_size neqb NumR rx_eqb n0].
    rewrite (Req_bool_intro 0 0 eq_refl). cbn [nmul rx_mul rval].
    eexists. repeat (split; [reflexivity|]).
    subst es. unfold ideal_exp.
    replace (ss / ss) with 1 by (field; lra).
    rewrite ln_1, Rmult_0_l, exp_0. field. lra.
  - unfold ms_size_of. cbn [mp_alpha mp_size mp_t neqb NumR rx_eqb n0].
    assert (Ha : alpha_R ss es s en nn <> 0).
    { unfold alpha_R. pose proof (ln_ratio_nz ss es Hss Hes Hne) as Hz.
      intro E. apply Hz.
      assert (Hdt : 0 < (s - en) / (4 * nn)) by (apply Rdiv_lt_0_compat; lra).
      apply (f_equal (fun z => z * ((s - en) / (4 * nn)))) in E.
      unfold Rdiv at 1 in E. rewrite Rmult_assoc, Rinv_l, Rmult_0_l in E; lra. }
    rewrite (Req_bool_intro_false _ 0 Ha).
    cbn [nmul nsub nexp rx_mul rx_sub rx_exp rval n0].
    eexists. repeat (split; [reflexivity|]).
    apply ms_curve_identity; assumption.
Qed.

Print Assumptions growth_rate_ok_R.
Print Assumptions ms_size_exp_R.
