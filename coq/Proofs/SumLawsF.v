(* SumLawsF: "summation and closeness are functions of the values" for IEEE binary64
   (instance NumF over Coq's primitive floats): the instance  NumFSum : SumLaws NumF NumFLaws,
   and the theorems that need it instantiated at NumF with no arithmetic hypothesis left.
   Route: [veqB x y] (Leibniz-equal, or both zeros of either sign; Flocq's BinarySingleNaN has a
   single NaN, and Prim2B is injective, so NaN = NaN is Leibniz) is a congruence for
   Bplus, Bminus, Bmult, Babs, the comparisons and is_nan / is_infinity; transported to
   primitive floats through the *_equiv lemmas of Flocq.IEEE754.PrimFloat; then induction
   over the Neumaier loop pysum_f.  All four fields of SumLaws hold for NumF. *)
From Coq Require Import QArith Bool ZArith List String.
From Coq Require Import Floats.
From Flocq Require Import Core IEEE754.BinarySingleNaN.
From Flocq Require IEEE754.PrimFloat.
From Demes Require Import Base.Num Base.NumF Base.Py Model.MDM Model.Codec Model.MigMat
  Model.Resolve Model.Simplify Model.IO Spec.Valid
  Proofs.MigMatProofs Proofs.FixedPoint Proofs.IOProofs Proofs.ResolveMigs
  Proofs.SimplifyDemes Proofs.SimplifyProofs Proofs.IOShape Proofs.IOMore Proofs.NumFArith.
Import ListNotations.
Local Open Scope list_scope.

Local Existing Instance FP.Hprec.
Local Existing Instance FP.Hmax.

Local Notation bf := (binary_float prec emax).

(* ---------- value equality on binary_float ---------- *)

Definition veqB (x y : bf) : Prop :=
  x = y \/ exists s s', x = B754_zero s /\ y = B754_zero s'.

Lemma veqB_refl x : veqB x x.
Proof. left; reflexivity. Qed.

Lemma veqB_zero s s' : veqB (B754_zero s) (B754_zero s').
Proof. right; eauto. Qed.

Ltac veq_cases Hx Hy :=
  let s := fresh "s" in let s' := fresh "s'" in
  let t := fresh "t" in let t' := fresh "t'" in
  destruct Hx as [->|(s & s' & -> & ->)]; destruct Hy as [->|(t & t' & -> & ->)].

Ltac veq_done :=
  solve [ apply veqB_refl | apply veqB_zero | reflexivity ].

Lemma veqB_plus x x' y y' : veqB x x' -> veqB y y' ->
  veqB (Bplus mode_NE x y) (Bplus mode_NE x' y').
Proof.
  intros Hx Hy. veq_cases Hx Hy.
  - veq_done.
  - destruct x' as [sx|sx| |sx mx ex Bx]; try destruct sx; destruct t, t'; simpl; veq_done.
  - destruct y' as [sy|sy| |sy my ey By]; try destruct sy; destruct s, s'; simpl; veq_done.
  - destruct s, s', t, t'; simpl; veq_done.
Qed.

Lemma veqB_opp x x' : veqB x x' -> veqB (Bopp x) (Bopp x').
Proof.
  intros [->|(s & s' & -> & ->)]; [apply veqB_refl|apply veqB_zero].
Qed.

Lemma veqB_minus x x' y y' : veqB x x' -> veqB y y' ->
  veqB (Bminus mode_NE x y) (Bminus mode_NE x' y').
Proof.
  intros Hx Hy. veq_cases Hx Hy.
  - veq_done.
  - destruct x' as [sx|sx| |sx mx ex Bx]; try destruct sx; destruct t, t'; simpl; veq_done.
  - destruct y' as [sy|sy| |sy my ey By]; try destruct sy; destruct s, s'; simpl; veq_done.
  - destruct s, s', t, t'; simpl; veq_done.
Qed.

Lemma veqB_mult x x' y y' : veqB x x' -> veqB y y' ->
  veqB (Bmult mode_NE x y) (Bmult mode_NE x' y').
Proof.
  intros Hx Hy. veq_cases Hx Hy.
  - veq_done.
  - destruct x' as [sx|sx| |sx mx ex Bx]; simpl; veq_done.
  - destruct y' as [sy|sy| |sy my ey By]; simpl; veq_done.
  - simpl; veq_done.
Qed.

Lemma veqB_abs x x' : veqB x x' -> veqB (Babs x) (Babs x').
Proof.
  intros [->|(s & s' & -> & ->)]; [apply veqB_refl|apply veqB_zero].
Qed.

Lemma veqB_is_nan x x' : veqB x x' -> is_nan x = is_nan x'.
Proof. intros [->|(s & s' & -> & ->)]; reflexivity. Qed.

Definition is_infB (x : bf) : bool :=
  match x with B754_infinity _ => true | _ => false end.

Lemma veqB_is_inf x x' : veqB x x' -> is_infB x = is_infB x'.
Proof. intros [->|(s & s' & -> & ->)]; reflexivity. Qed.

Lemma veqB_compare x x' y y' : veqB x x' -> veqB y y' ->
  Bcompare x y = Bcompare x' y'.
Proof.
  intros Hx Hy. veq_cases Hx Hy.
  - reflexivity.
  - destruct x' as [sx|sx| |sx mx ex Bx]; try destruct sx; reflexivity.
  - destruct y' as [sy|sy| |sy my ey By]; try destruct sy; reflexivity.
  - reflexivity.
Qed.

Lemma veqB_eqb x x' y y' : veqB x x' -> veqB y y' -> Beqb x y = Beqb x' y'.
Proof.
  intros Hx Hy. change (Beqb x y) with (SFeqb (B2SF x) (B2SF y)).
  change (Beqb x' y') with (SFeqb (B2SF x') (B2SF y')). unfold SFeqb.
  fold (Bcompare x y) (Bcompare x' y'). rewrite (veqB_compare x x' y y' Hx Hy). reflexivity.
Qed.

Lemma veqB_ltb x x' y y' : veqB x x' -> veqB y y' -> Bltb x y = Bltb x' y'.
Proof.
  intros Hx Hy. change (Bltb x y) with (SFltb (B2SF x) (B2SF y)).
  change (Bltb x' y') with (SFltb (B2SF x') (B2SF y')). unfold SFltb.
  fold (Bcompare x y) (Bcompare x' y'). rewrite (veqB_compare x x' y y' Hx Hy). reflexivity.
Qed.

Lemma veqB_leb x x' y y' : veqB x x' -> veqB y y' -> Bleb x y = Bleb x' y'.
Proof.
  intros Hx Hy. change (Bleb x y) with (SFleb (B2SF x) (B2SF y)).
  change (Bleb x' y') with (SFleb (B2SF x') (B2SF y')). unfold SFleb.
  fold (Bcompare x y) (Bcompare x' y'). rewrite (veqB_compare x x' y y' Hx Hy). reflexivity.
Qed.

(* Python == on floats: true exactly on value-equal non-NaN floats *)
Lemma Beqb_veqB x y : Beqb x y = true -> veqB x y.
Proof.
  destruct x as [sx|sx| |sx mx ex Bx], y as [sy|sy| |sy my ey By];
    try (intros _; apply veqB_zero);
    try (intro H; discriminate H);
    try (destruct sx; intro H; discriminate H);
    try (destruct sy; intro H; discriminate H);
    try (destruct sx, sy; intro H; discriminate H).
  - destruct sx, sy; intro H; try discriminate H; apply veqB_refl.
  - intro H. left. apply B2SF_inj. simpl.
    unfold Beqb, SFeqb, SFcompare in H. simpl in H.
    destruct sx, sy; try discriminate H;
      destruct (Z.compare ex ey) eqn:E; try discriminate H;
      apply Z.compare_eq in E; subst ey;
      destruct (Pos.compare_cont Eq mx my) eqn:P; try discriminate H;
      apply Pos.compare_eq in P; subst my; reflexivity.
Qed.

Lemma veqB_Beqb x y : veqB x y -> is_nan x = false -> Beqb x y = true.
Proof.
  intros [->|(s & s' & -> & ->)] Nn.
  - rewrite Beqb_refl, Nn. reflexivity.
  - reflexivity.
Qed.

(* ---------- transport to primitive floats ---------- *)

Definition veq (x y : PrimFloat.float) : Prop := veqB (FP.Prim2B x) (FP.Prim2B y).

Lemma veq_refl x : veq x x.
Proof. apply veqB_refl. Qed.

Lemma veq_add x x' y y' : veq x x' -> veq y y' -> veq (PrimFloat.add x y) (PrimFloat.add x' y').
Proof. unfold veq. rewrite !FP.add_equiv. apply veqB_plus. Qed.

Lemma veq_sub x x' y y' : veq x x' -> veq y y' -> veq (PrimFloat.sub x y) (PrimFloat.sub x' y').
Proof. unfold veq. rewrite !FP.sub_equiv. apply veqB_minus. Qed.

Lemma veq_mul x x' y y' : veq x x' -> veq y y' -> veq (PrimFloat.mul x y) (PrimFloat.mul x' y').
Proof. unfold veq. rewrite !FP.mul_equiv. apply veqB_mult. Qed.

Lemma veq_abs x x' : veq x x' -> veq (PrimFloat.abs x) (PrimFloat.abs x').
Proof. unfold veq. rewrite !FP.abs_equiv. apply veqB_abs. Qed.

Lemma veq_eqb x x' y y' : veq x x' -> veq y y' -> PrimFloat.eqb x y = PrimFloat.eqb x' y'.
Proof. unfold veq. rewrite !FP.eqb_equiv. apply veqB_eqb. Qed.

Lemma veq_ltb x x' y y' : veq x x' -> veq y y' -> PrimFloat.ltb x y = PrimFloat.ltb x' y'.
Proof. unfold veq. rewrite !FP.ltb_equiv. apply veqB_ltb. Qed.

Lemma veq_leb x x' y y' : veq x x' -> veq y y' -> PrimFloat.leb x y = PrimFloat.leb x' y'.
Proof. unfold veq. rewrite !FP.leb_equiv. apply veqB_leb. Qed.

Lemma veq_is_nan x x' : veq x x' -> PrimFloat.is_nan x = PrimFloat.is_nan x'.
Proof. unfold veq. rewrite !FP.is_nan_equiv. apply veqB_is_nan. Qed.

Lemma veq_is_inf x x' : veq x x' -> PrimFloat.is_infinity x = PrimFloat.is_infinity x'.
Proof. unfold veq. rewrite !FP.is_infinity_equiv. apply veqB_is_inf. Qed.

Lemma eqb_veq x y : PrimFloat.eqb x y = true -> veq x y.
Proof. rewrite FP.eqb_equiv. apply Beqb_veqB. Qed.

(* value-equal floats are == in Python, or both NaN *)
Lemma veq_out x y : veq x y ->
  PrimFloat.eqb x y = true \/ (PrimFloat.is_nan x = true /\ PrimFloat.is_nan y = true).
Proof.
  intro H. destruct (PrimFloat.is_nan x) eqn:E.
  - right. split; [reflexivity|]. rewrite <- (veq_is_nan x y H). exact E.
  - left. rewrite FP.eqb_equiv. apply veqB_Beqb; [exact H|].
    rewrite <- FP.is_nan_equiv. exact E.
Qed.

(* the two zeros are value-equal and not Leibniz-equal: veq is strictly coarser than = *)
Example veq_zeros : veq PrimFloat.zero PrimFloat.neg_zero /\ PrimFloat.zero <> PrimFloat.neg_zero.
Proof.
  split.
  - apply eqb_veq. vm_compute. reflexivity.
  - intro E. apply (f_equal (fun z => PrimFloat.div PrimFloat.one z)) in E.
    apply (f_equal (fun z => PrimFloat.ltb PrimFloat.zero z)) in E. revert E.
    vm_compute. discriminate.
Qed.

(* ---------- isclose ---------- *)

Lemma isclose_veq_F (a a' b b' r t : @num NumF) :
  veq a a' -> veq b b' -> @isclose NumF a b r t = @isclose NumF a' b' r t.
Proof.
  intros Ha Hb. unfold isclose. cbn [num neqb nisinf nabs nsub nmul nle nfloat NumF].
  rewrite (veq_eqb a a' b b' Ha Hb), (veq_is_inf a a' Ha), (veq_is_inf b b' Hb).
  assert (D : veq (PrimFloat.abs (PrimFloat.sub b a)) (PrimFloat.abs (PrimFloat.sub b' a')))
    by (apply veq_abs, veq_sub; assumption).
  rewrite (veq_leb _ _ _ _ D (veq_abs _ _ (veq_mul r r b b' (veq_refl r) Hb))).
  rewrite (veq_leb _ _ _ _ D (veq_abs _ _ (veq_mul r r a a' (veq_refl r) Ha))).
  rewrite (veq_leb _ _ _ _ D (veq_refl t)).
  reflexivity.
Qed.

(* ---------- builtin sum (Neumaier loop) ---------- *)

Lemma pysum_f_veq l l' : Forall2 veq l l' -> forall f f' c c',
  veq f f' -> veq c c' -> veq (@pysum_f NumF l f c) (@pysum_f NumF l' f' c').
Proof.
  induction 1 as [|x x' l l' Hx Hl IH]; intros f f' c c' Hf Hc.
  - cbn [pysum_f neqb nisinf nisnan nadd nf0 NumF].
    rewrite (veq_eqb c c' _ _ Hc (veq_refl PrimFloat.zero)), (veq_is_inf c c' Hc),
      (veq_is_nan c c' Hc).
    destruct (_ && _); [apply veq_add; assumption|exact Hf].
  - cbn [pysum_f nisint nle nabs nadd nsub NumF].
    assert (Ht : veq (PrimFloat.add f x) (PrimFloat.add f' x')) by (apply veq_add; assumption).
    rewrite (veq_leb _ _ _ _ (veq_abs x x' Hx) (veq_abs f f' Hf)).
    apply IH; [exact Ht|].
    destruct (PrimFloat.leb _ _).
    + apply veq_add; [exact Hc|]. apply veq_add; [|exact Hx]. apply veq_sub; assumption.
    + apply veq_add; [exact Hc|]. apply veq_add; [|exact Hf]. apply veq_sub; assumption.
Qed.

Lemma pysum_veq l l' : Forall2 veq l l' -> veq (@pysum NumF l) (@pysum NumF l').
Proof.
  intros H. unfold pysum. destruct H as [|x x' l l' Hx Hl].
  - apply veq_refl.
  - cbn [pysum_i nisint nadd n0 nf0 NumF].
    apply pysum_f_veq; [exact Hl| |apply veq_refl].
    apply veq_add; [apply veq_refl|exact Hx].
Qed.

(* ---------- the instance ---------- *)

Lemma float_notint_F : forall x : @num NumF, nisint (nfloat x) = false.
Proof. reflexivity. Qed.

Lemma f0_notint_F : @nisint NumF nf0 = false.
Proof. reflexivity. Qed.

Lemma isclose_veq_NumF : forall a a' b r t : @num NumF,
  neqb a a' = true -> @isclose NumF a b r t = @isclose NumF a' b r t.
Proof.
  intros a a' b r t H. apply isclose_veq_F; [apply eqb_veq, H|apply veq_refl].
Qed.

Lemma sum_float_veq_F : forall l l' : list (@num NumF),
  Forall2 (fun x y => neqb x y = true) l l' ->
  neqb (pysum l) (pysum l') = true \/ (nisnan (pysum l) = true /\ nisnan (pysum l') = true).
Proof.
  intros l l' H. apply veq_out, pysum_veq.
  induction H as [|x y l l' Hxy Hl IH]; constructor; [apply eqb_veq, Hxy|exact IH].
Qed.

#[export] Instance NumFSum : SumLaws NumF NumFLaws.
Proof.
  split.
  - exact float_notint_F.
  - exact f0_notint_F.
  - exact isclose_veq_NumF.
  - intros l l' H _ _. apply sum_float_veq_F, H.
Qed.

(* ---------- theorems about binary64 that need SumLaws ---------- *)
Local Open Scope string_scope.

(* C05: simplification of a valid binary64 graph never fails *)
Theorem simplify_total_F :
  forall g : @graph NumF, @Valid NumF g -> exists doc, @asdict_simplified NumF g = Ok doc.
Proof. exact (@simplify_total NumF NumFLaws). Qed.

(* C05: the simplified form resolves back to a value-equal graph *)
Theorem simplify_resolves_F :
  forall g : @graph NumF, @Valid NumF g ->
    exists doc g', @asdict_simplified NumF g = Ok doc /\ @fromdict NumF doc = Ok g' /\
                   @GraphVEq NumF g g'.
Proof.
  intros g. exact (@simplify_resolves NumF NumFLaws NumFSum g sumone_F sumok_F).
Qed.

(* C04: dump (simplified) then load gives a value-equal graph, YAML and JSON *)
Theorem roundtrip_simplified_F :
  forall (g : @graph NumF) (json : bool), @Valid NumF g ->
    exists d g', @dump_pre NumF json true g = Ok d /\ @load_post NumF d = Ok g' /\
                 @GraphVEq NumF g g'.
Proof.
  intros g json.
  exact (@roundtrip_simplified NumF NumFLaws NumFSum g json sumone_F sumok_F
           (fun _ => infunique_F)).
Qed.

(* Non-vacuity of the congruence: +0.0 + -0.0 and -0.0 + -0.0 are zeros of different
   sign, still value-equal; isclose does not see the sign of zero. *)
Example add_zero_signs :
  PrimFloat.add PrimFloat.zero PrimFloat.neg_zero = PrimFloat.zero /\
  PrimFloat.add PrimFloat.neg_zero PrimFloat.neg_zero = PrimFloat.neg_zero /\
  veq (PrimFloat.add PrimFloat.zero PrimFloat.neg_zero)
      (PrimFloat.add PrimFloat.neg_zero PrimFloat.neg_zero).
Proof.
  split; [vm_compute; reflexivity|]. split; [vm_compute; reflexivity|].
  apply veq_add; apply eqb_veq; vm_compute; reflexivity.
Qed.

Print Assumptions NumFSum.
Print Assumptions simplify_total_F.
Print Assumptions simplify_resolves_F.
Print Assumptions roundtrip_simplified_F.
