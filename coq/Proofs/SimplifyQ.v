(* Non-vacuity of the arithmetic hypothesis SumOne of simplify_resolves (C05): it holds for
   the exact-rational instance NumQ.  (The other hypothesis, SumOK, is proved for NumQ in
   Proofs/SumOKQ.v.) *)
From Coq Require Import QArith Bool List.
From Demes Require Import Base.Num Base.NumQ Base.Py Proofs.SimplifyDemes.
Import ListNotations.

Theorem sumone_Q : @SumOne NumQ.
Proof. vm_compute. reflexivity. Qed.

Print Assumptions sumone_Q.
