(* C07 — lineage movements: in exact rational arithmetic (NumQ) the backwards lineage-movement
   matrix that the ms semantics (Spec/MsSem.v ms_moves) computes at an event time b for the
   command demes.to_ms emits is, on the populations of the demes, the matrix of the graph
   (Spec/SemEquiv.v gmoves): pulses at b in reverse listing order, then the ancestry of the
   demes that start at b; the populations created by -es are emptied at once.
   Main statements: to_ms_moves_at / to_ms_moves (end of Part G), full generality: any number of
   pulses and deme starts coinciding at b, demes with any number of ancestors.  Hypotheses: the
   converted graph is Valid, b is a finite number, ms_moves succeeds, and ExactProps (the
   proportions of a deme with ancestors add up to exactly 1: gmoves uses the proportions as they
   are, to_ms renormalises by the partial sums, so with a sum only close to 1 the two matrices
   differ by that factor; this is also needed for a single ancestor with a proportion like
   1 - 1e-10, which validity accepts).  Nothing is needed about N0 beyond to_ms_unscaled
   succeeding.  Non-vacuity: example mv_moves at the end. *)
From Coq Require Import Bool List String QArith Qabs Lqa Lia Arith Permutation.
From Demes Require Import Base.Num Base.NumQ Base.Py Model.MDM Model.InGen Model.MigMat Model.MsOpt
  Model.ToMs Spec.Valid Spec.MsSem Spec.SemEquiv Proofs.MigMatProofs Proofs.ResolveInv
  Proofs.InGenProofs Proofs.MsProofs Proofs.MsRates Proofs.MsGrowth Proofs.SplitChain.
Import ListNotations.
Local Open Scope string_scope.
Local Open Scope list_scope.
Local Open Scope nat_scope.

(* ================= Part A: exact arithmetic on finite values of NumQ ================= *)

Definition qv (x : qx) : Q := match x with QF q _ => q | _ => 0%Q end.
Definition fin (x : qx) : Prop := match x with QF _ _ => True | _ => False end.

Lemma fin_add x y : fin x -> fin y -> fin (qx_add x y).
Proof. destruct x, y; cbn; tauto. Qed.
Lemma fin_sub x y : fin x -> fin y -> fin (qx_sub x y).
Proof. destruct x, y; cbn; tauto. Qed.
Lemma fin_mul x y : fin x -> fin y -> fin (qx_mul x y).
Proof. destruct x, y; cbn; tauto. Qed.
Lemma fin_float x : fin x -> fin (qx_float x).
Proof. destruct x; cbn; tauto. Qed.
Lemma qv_add x y : fin x -> fin y -> qv (qx_add x y) = (qv x + qv y)%Q.
Proof. destruct x, y; cbn; tauto. Qed.
Lemma qv_sub x y : fin x -> fin y -> qv (qx_sub x y) = (qv x - qv y)%Q.
Proof. destruct x, y; cbn; tauto. Qed.
Lemma qv_mul x y : fin x -> fin y -> qv (qx_mul x y) = (qv x * qv y)%Q.
Proof. destruct x, y; cbn; tauto. Qed.
Lemma qv_float x : qv (qx_float x) = qv x.
Proof. destruct x; reflexivity. Qed.
Lemma fin_div x y : fin x -> fin y -> ~ (qv y == 0)%Q -> fin (qx_div x y) /\ qv (qx_div x y) = (qv x / qv y)%Q.
Proof.
  destruct x as [a i| | |], y as [c j| | |]; cbn; try tauto. intros _ _ H.
  destruct (Qeq_bool c 0) eqn:E; [apply Qeq_bool_iff in E; contradiction|]. cbn. auto.
Qed.

Lemma eqb_float_l t c : qx_eqb (qx_float t) c = qx_eqb t c.
Proof. destruct t; reflexivity. Qed.
Lemma lt_float_l t c : qx_lt (qx_float t) c = qx_lt t c.
Proof. destruct t; reflexivity. Qed.

Lemma fin_eqb x y : fin x -> fin y -> (qv x == qv y)%Q -> qx_eqb x y = true.
Proof. destruct x, y; cbn; try tauto. intros _ _ H. now apply Qeq_bool_iff. Qed.

(* builtin sum() of finite values is their exact sum *)
Lemma pysum_f_exact l : forall f c,
  (forall x, In x l -> fin x) -> fin f -> fin c ->
  fin (@pysum_f NumQ l f c) /\ (qv (@pysum_f NumQ l f c) == qv f + qv c + qsum (map qv l))%Q.
Proof.
  induction l as [|a l IH]; intros f c Hl Hf Hc.
  - cbn [pysum_f map]. rewrite qsum_nil.
    cbn [neqb nisinf nisnan nf0 NumQ]. destruct (negb (qx_eqb c (QF 0 false)) && negb (qx_isinf c) && negb (qx_isnan c)) eqn:E.
    + split; [now apply fin_add|]. cbn [nadd NumQ]. rewrite qv_add by assumption. lra.
    + split; [exact Hf|].
      destruct c as [q i| | |]; cbn in Hc; try contradiction. cbn in E.
      rewrite !andb_true_r in E. apply negb_false_iff in E. apply Qeq_bool_iff in E. cbn. lra.
  - assert (fin a) as Ha by (apply Hl; now left).
    assert (forall x, In x l -> fin x) as Hl' by (intros; apply Hl; now right).
    cbn [pysum_f map]. rewrite qsum_cons. cbn [nisint nadd nsub nle nabs NumQ].
    destruct (qx_isint a).
    + destruct (IH (qx_add f a) c Hl' (fin_add _ _ Hf Ha) Hc) as [F E]. split; [exact F|].
      rewrite E, qv_add by assumption. lra.
    + destruct (qx_le (qx_abs a) (qx_abs f)).
      * destruct (IH (qx_add f a) (qx_add c (qx_add (qx_sub f (qx_add f a)) a)) Hl') as [F E];
          auto using fin_add, fin_sub.
        split; [exact F|]. rewrite E.
        rewrite !qv_add, qv_sub, qv_add by auto using fin_add, fin_sub. lra.
      * destruct (IH (qx_add f a) (qx_add c (qx_add (qx_sub a (qx_add f a)) f)) Hl') as [F E];
          auto using fin_add, fin_sub.
        split; [exact F|]. rewrite E.
        rewrite !qv_add, qv_sub, qv_add by auto using fin_add, fin_sub. lra.
Qed.

Lemma pysum_i_exact l : forall acc,
  (forall x, In x l -> fin x) -> fin acc ->
  fin (@pysum_i NumQ l acc) /\ (qv (@pysum_i NumQ l acc) == qv acc + qsum (map qv l))%Q.
Proof.
  induction l as [|a l IH]; intros acc Hl Hacc.
  - cbn [pysum_i map]. rewrite qsum_nil. split; [exact Hacc|lra].
  - assert (fin a) as Ha by (apply Hl; now left).
    assert (forall x, In x l -> fin x) as Hl' by (intros; apply Hl; now right).
    cbn [pysum_i map]. rewrite qsum_cons. cbn [nisint nadd NumQ nf0].
    destruct (qx_isint a).
    + destruct (IH (qx_add acc a) Hl' (fin_add _ _ Hacc Ha)) as [F E]. split; [exact F|].
      rewrite E, qv_add by assumption. lra.
    + destruct (pysum_f_exact l (qx_add acc a) (QF 0 false) Hl' (fin_add _ _ Hacc Ha) Logic.I) as [F E].
      split; [exact F|]. rewrite E, qv_add by assumption. cbn [qv]. lra.
Qed.

Lemma pysum_exact l : (forall x, In x l -> fin x) ->
  fin (@pysum NumQ l) /\ (qv (@pysum NumQ l) == qsum (map qv l))%Q.
Proof.
  intro Hl. destruct (pysum_i_exact l (QF 0 true) Hl Logic.I) as [F E]. split; [exact F|].
  unfold pysum. cbn [n0 NumQ]. rewrite E. cbn [qv]. lra.
Qed.

(* ================= Part B: list facts ================= *)

Lemma filter_const {A} (f : A -> bool) v l :
  (forall e, In e l -> f e = v) -> filter f l = if v then l else [].
Proof.
  induction l as [|x l IH]; intro H; [destruct v; reflexivity|].
  cbn [filter]. rewrite (H x (or_introl eq_refl)), IH by (intros; apply H; now right).
  destruct v; reflexivity.
Qed.

Lemma filter_map_comm {A B} (f : B -> bool) (h : A -> B) l :
  filter f (map h l) = map h (filter (fun x => f (h x)) l).
Proof. induction l as [|x l IH]; [reflexivity|]. cbn. rewrite IH. destruct (f (h x)); reflexivity. Qed.

Lemma fold_left_if_filter {A S} (c : A -> bool) (F : A -> S -> S) l : forall s,
  fold_left (fun P x => if c x then F x P else P) l s = fold_left (fun P x => F x P) (filter c l) s.
Proof. induction l as [|x l IH]; intro s; [reflexivity|]. cbn. destruct (c x); cbn; apply IH. Qed.

Lemma fold_left_map_rows {A R} (f : A -> R -> R) l : forall P,
  fold_left (fun P x => map (f x) P) l P = map (fun row => fold_left (fun r x => f x r) l row) P.
Proof.
  induction l as [|x l IH]; intro P; cbn.
  - symmetry. apply map_id.
  - rewrite IH, map_map. reflexivity.
Qed.

Lemma fold_left_map_l {A B S} (f : S -> B -> S) (h : A -> B) l : forall s,
  fold_left f (map h l) s = fold_left (fun s x => f s (h x)) l s.
Proof. induction l as [|x l IH]; intro s; [reflexivity|]. cbn. apply IH. Qed.

Lemma index_of_In k l : In k l -> exists i, index_of k l = Some i.
Proof.
  induction l as [|a l IH]; intro H; [destruct H|]. cbn.
  destruct (String.eqb k a) eqn:E; [eauto|].
  destruct H as [->|H]; [rewrite String.eqb_refl in E; discriminate|].
  destruct (IH H) as [i ->]. cbn. eauto.
Qed.

Lemma NoDup_map_on {A B} (f : A -> B) l :
  NoDup l -> (forall x y, In x l -> In y l -> f x = f y -> x = y) -> NoDup (map f l).
Proof.
  induction 1 as [|a l Ha _ IH]; intro Hinj; cbn; constructor.
  - intro Hin. apply in_map_iff in Hin. destruct Hin as (y & Ey & Hy).
    assert (y = a) by (apply Hinj; [now right|now left|exact Ey]). subst. contradiction.
  - apply IH. intros x y Hx Hy. apply Hinj; now right.
Qed.

(* ================= Part C: the -es/-ej group of to_ms, as a function ================= *)

(* position of a name in the deme list, as in Spec/SemEquiv.v gmoves *)
Definition gidx (g : @graph NumQ) (nm : string) : nat :=
  match index_of nm (map d_name (g_demes g)) with Some i => i | None => List.length (g_demes g) end.

Lemma gidx_nth g nm k :
  NoDup (map d_name (g_demes g)) -> nth_error (map d_name (g_demes g)) k = Some nm -> gidx g nm = k.
Proof.
  intros ND Hk. unfold gidx.
  destruct (index_of_In nm (map d_name (g_demes g)) (nth_error_In _ _ Hk)) as [i Hi]. rewrite Hi.
  apply index_of_spec in Hi.
  apply (proj1 (NoDup_nth_error _) ND); [apply nth_error_Some; congruence|congruence].
Qed.

Lemma id_of_gidx g nm a :
  NoDup (map d_name (g_demes g)) -> id_of (map d_name (g_demes g)) nm = Ok a ->
  a = S (gidx g nm) /\ gidx g nm < List.length (g_demes g).
Proof.
  intros ND H. apply id_of_nth in H. destruct H as (k & -> & Hk).
  rewrite (gidx_nth g nm k ND Hk). split; [reflexivity|].
  rewrite <- (map_length d_name). apply nth_error_Some. congruence.
Qed.

Lemma gidx_inj g a a' :
  gidx g a < List.length (g_demes g) -> gidx g a = gidx g a' -> a = a'.
Proof.
  unfold gidx. intros H E.
  destruct (index_of a (map d_name (g_demes g))) as [i|] eqn:Ei; [|lia].
  destruct (index_of a' (map d_name (g_demes g))) as [i'|] eqn:Ei'.
  - subst i'. apply index_of_spec in Ei, Ei'. congruence.
  - subst i. lia.
Qed.

Definition pulse_evs (g : @graph NumQ) (c : nat) (p : pulse) : list msev :=
  match p_srcs p, p_props p with
  | s0 :: _, p0 :: _ =>
      [Evs (nfloat (p_time p)) (S (gidx g (p_dst p))) (nfloat (nsub n1 p0));
       Evj (nfloat (p_time p)) (S c) (S (gidx g s0))]
  | _, _ => []
  end.
Definition deme_evs (g : @graph NumQ) (c : nat) (d : deme) : list msev :=
  split_events (d_start d) (S (gidx g (d_name d))) c (map (fun a => S (gidx g a)) (d_anc d)) (d_props d).
Definition dp_evs (g : @graph NumQ) (c : nat) (x : dp) : list msev :=
  match x with DP_pulse p => pulse_evs g c p | DP_deme d => deme_evs g c d end.
Definition dp_w (x : @dp NumQ) : nat :=
  match x with DP_pulse _ => 1 | DP_deme d => List.length (d_anc d) - 1 end.
Fixpoint sj_evs (g : @graph NumQ) (c : nat) (dps : list dp) : list msev :=
  match dps with [] => [] | x :: r => dp_evs g c x ++ sj_evs g (c + dp_w x) r end.

Definition dp_shape (x : @dp NumQ) : Prop :=
  match x with
  | DP_pulse p => p_srcs p <> [] /\ p_props p <> []
  | DP_deme d => List.length (d_props d) = List.length (d_anc d)
  end.

Lemma sj_step_evs g acc x acc1 :
  NoDup (map d_name (g_demes g)) -> dp_shape x ->
  sj_step (map d_name (g_demes g)) acc x = Ok acc1 ->
  fst acc1 = fst acc ++ dp_evs g (snd acc) x /\ snd acc1 = snd acc + dp_w x /\
  match x with
  | DP_pulse p => exists s0, p_srcs p = [s0] /\ gidx g (p_dst p) < List.length (g_demes g) /\
                             gidx g s0 < List.length (g_demes g)
  | DP_deme d => gidx g (d_name d) < List.length (g_demes g) /\
                 Forall (fun a => gidx g a < List.length (g_demes g)) (d_anc d)
  end.
Proof.
  intros ND Hsh H. destruct x as [d|p]; cbn [sj_step] in H.
  - mbind H self Hself. mbind H r Hr. injection H as <-. destruct r as [evs c']. cbn [fst snd] in *.
    destruct (id_of_gidx _ _ _ ND Hself) as [-> Hlt].
    apply ancestry_events_chain in Hr; [|exact Hsh].
    destruct Hr as (ids & Hids & -> & ->).
    pose proof (mapM_inv _ _ _ Hids) as F2.
    assert (ids = map (fun a => S (gidx g a)) (d_anc d)) as ->.
    { eapply mapM_map; [|exact Hids]. intros a b Hab. now destruct (id_of_gidx _ _ _ ND Hab). }
    split; [reflexivity|]. split; [reflexivity|]. split; [exact Hlt|].
    apply Forall_forall. intros a Ha.
    clear - F2 Ha ND. induction F2 as [|a0 b0 l l' Hab _ IH]; [destruct Ha|].
    destruct Ha as [->|Ha]; [now destruct (id_of_gidx _ _ _ ND Hab)|auto].
  - cbv zeta in H. mraise H Hc. mbind H dst Hdst. mbind H p0 Hp0. mbind H s0 Hs0.
    mbind H e1 He1. mbind H src Hsrc. mbind H e2 He2. injection H as <-. cbn [fst snd].
    apply MsProofs.mk_s_inv in He1. apply MsProofs.mk_j_inv in He2. subst e1 e2.
    destruct (id_of_gidx _ _ _ ND Hdst) as [-> Hd]. destruct (id_of_gidx _ _ _ ND Hsrc) as [-> Hs].
    unfold dp_evs, pulse_evs, dp_w.
    destruct (p_srcs p) as [|s0' [|s1 rest]] eqn:Es; try discriminate.
    destruct (p_props p) as [|p0' pr]; try discriminate.
    injection Hp0 as ->. injection Hs0 as ->.
    split; [reflexivity|]. split; [lia|]. exists s0. auto.
Qed.

Lemma sj_fold_evs g dps : forall acc acc',
  NoDup (map d_name (g_demes g)) -> (forall x, In x dps -> dp_shape x) ->
  foldM (sj_step (map d_name (g_demes g))) dps acc = Ok acc' ->
  fst acc' = fst acc ++ sj_evs g (snd acc) dps /\
  forall x, In x dps ->
    match x with
    | DP_pulse p => exists s0, p_srcs p = [s0] /\ gidx g (p_dst p) < List.length (g_demes g) /\
                               gidx g s0 < List.length (g_demes g)
    | DP_deme d => gidx g (d_name d) < List.length (g_demes g) /\
                   Forall (fun a => gidx g a < List.length (g_demes g)) (d_anc d)
    end.
Proof.
  induction dps as [|x dps IH]; intros acc acc' ND Hsh H; cbn in H.
  - injection H as <-. cbn. rewrite app_nil_r. split; [reflexivity|]. intros x [].
  - mbind H acc1 H1.
    destruct (sj_step_evs g acc x acc1 ND (Hsh x (or_introl eq_refl)) H1) as (E1 & C1 & G1).
    destruct (IH _ _ ND (fun y Hy => Hsh y (or_intror Hy)) H) as (E2 & G2).
    split.
    + rewrite E2, E1, C1. cbn [sj_evs]. now rewrite app_assoc.
    + intros y [<-|Hy]; [exact G1|exact (G2 y Hy)].
Qed.

Definition isS (e : @msev NumQ) : bool := match e with Evs _ _ _ => true | _ => false end.
Definition isSJ (e : @msev NumQ) : bool := match e with Evs _ _ _ | Evj _ _ _ => true | _ => false end.

Lemma split_events_in (t : @num NumQ) self : forall ids n props e,
  In e (split_events t self n ids props) -> ev_time e = nfloat t /\ isSJ e = true.
Proof.
  induction ids as [|a ids IH]; intros n props e He; [destruct He|].
  destruct ids as [|b ids].
  - rewrite split_events_one in He. destruct He as [<-|[]]. auto.
  - destruct props as [|p props]; [destruct He|].
    rewrite split_events_cons2 in He. destruct He as [<-|[<-|He]]; auto. eapply IH; eauto.
Qed.

Lemma split_events_countS (t : @num NumQ) self : forall ids n props,
  List.length props = List.length ids ->
  List.length (filter isS (split_events t self n ids props)) = List.length ids - 1.
Proof.
  induction ids as [|a ids IH]; intros n props Hl; [reflexivity|].
  destruct ids as [|b ids].
  - rewrite split_events_one. reflexivity.
  - destruct props as [|p props]; [discriminate|].
    rewrite split_events_cons2. cbn [filter isS List.length].
    rewrite IH by (cbn in Hl |- *; lia). cbn [List.length]. lia.
Qed.

Lemma dp_evs_in g c x e : In e (dp_evs g c x) -> ev_time e = nfloat (dp_time x) /\ isSJ e = true.
Proof.
  destruct x as [d|p]; cbn [dp_evs dp_time].
  - unfold deme_evs. apply split_events_in.
  - unfold pulse_evs. destruct (p_srcs p); [intros []|]. destruct (p_props p); [intros []|].
    intros [<-|[<-|[]]]; auto.
Qed.

Lemma dp_evs_countS g c x : dp_shape x -> List.length (filter isS (dp_evs g c x)) = dp_w x.
Proof.
  destruct x as [d|p]; cbn [dp_evs dp_shape dp_w].
  - intro Hl. unfold deme_evs. rewrite split_events_countS by (now rewrite map_length).
    now rewrite map_length.
  - intros [H1 H2]. unfold pulse_evs. destruct (p_srcs p); [congruence|]. destruct (p_props p); [congruence|].
    reflexivity.
Qed.

Lemma sj_evs_in g : forall dps c e, In e (sj_evs g c dps) ->
  exists x, In x dps /\ ev_time e = nfloat (dp_time x) /\ isSJ e = true.
Proof.
  induction dps as [|x dps IH]; intros c e He; [destruct He|].
  cbn [sj_evs] in He. apply in_app_or in He. destruct He as [He|He].
  - exists x. split; [now left|]. eapply dp_evs_in; eauto.
  - destruct (IH _ _ He) as (y & Hy & R). exists y. split; [now right|exact R].
Qed.

(* the two time tests of Spec/MsSem.v ms_moves with same := numerical equality *)
Definition atb (b : @num NumQ) (e : @msev NumQ) : bool := neqb (ev_time e) b.
Definition ltb (b : @num NumQ) (e : @msev NumQ) : bool := nlt (ev_time e) b && negb (neqb (ev_time e) b).
Definition dp_atb (b : @num NumQ) (x : @dp NumQ) : bool := neqb (dp_time x) b.

Lemma dp_evs_atb g c x b e : In e (dp_evs g c x) -> atb b e = dp_atb b x.
Proof.
  intro He. unfold atb, dp_atb. destruct (dp_evs_in _ _ _ _ He) as [-> _]. cbn [neqb nfloat NumQ].
  apply eqb_float_l.
Qed.
Lemma dp_evs_ltb g c x b e : In e (dp_evs g c x) ->
  ltb b e = nlt (dp_time x) b && negb (neqb (dp_time x) b).
Proof.
  intro He. unfold ltb. destruct (dp_evs_in _ _ _ _ He) as [-> _]. cbn [neqb nlt nfloat NumQ].
  now rewrite eqb_float_l, lt_float_l.
Qed.

Lemma sj_noS_ge g b : forall dps c,
  (forall x, In x dps -> nlt (dp_time x) b = false) ->
  filter (fun e => ltb b e && isS e) (sj_evs g c dps) = [].
Proof.
  intros dps c H. apply filter_nil. intros e He.
  revert c He. induction dps as [|x dps IH]; intros c He; [destruct He|].
  cbn [sj_evs] in He. apply in_app_or in He. destruct He as [He|He].
  - rewrite (dp_evs_ltb _ _ _ _ _ He), (H x (or_introl eq_refl)). reflexivity.
  - eapply IH; eauto. intros y Hy. apply H. now right.
Qed.

Lemma sj_none_gt g b : forall dps c,
  (forall x, In x dps -> dp_atb b x = false) ->
  filter (atb b) (sj_evs g c dps) = [] /\ filter (dp_atb b) dps = [].
Proof.
  intros dps c H. split; [|now apply filter_nil].
  apply filter_nil. intros e He.
  revert c He. induction dps as [|x dps IH]; intros c He; [destruct He|].
  cbn [sj_evs] in He. apply in_app_or in He. destruct He as [He|He].
  - rewrite (dp_evs_atb _ _ _ _ _ He). apply H. now left.
  - eapply IH; eauto. intros y Hy. apply H. now right.
Qed.

(* the events at time b are those of the elements at time b, numbered from the count reached
   after the elements before b (the sort puts them first) *)
Lemma sj_at_b g (b : @num NumQ) : ok b -> forall dps c,
  SSorted dp_time dps -> (forall x, In x dps -> ok (dp_time x)) -> (forall x, In x dps -> dp_shape x) ->
  filter (atb b) (sj_evs g c dps) =
  sj_evs g (c + List.length (filter (fun e => ltb b e && isS e) (sj_evs g c dps))) (filter (dp_atb b) dps).
Proof.
  intros Ob. induction dps as [|x dps IH]; intros c Sd Od Hsh; [reflexivity|].
  destruct Sd as [Hx Sd].
  assert (ok (dp_time x)) as Ox by (apply Od; now left).
  assert (forall y, In y dps -> ok (dp_time y)) as Od' by (intros; apply Od; now right).
  assert (forall y, In y dps -> dp_shape y) as Hsh' by (intros; apply Hsh; now right).
  cbn [sj_evs]. rewrite !filter_app, app_length.
  rewrite (filter_const (atb b) (dp_atb b x)) by (intros e He; eapply dp_evs_atb; eauto).
  cbn [filter]. destruct (dp_atb b x) eqn:Eb0; pose proof Eb0 as Eb; unfold dp_atb in Eb.
  - (* at b: nothing before b from here on *)
    rewrite (filter_nil _ (dp_evs g c x)).
    2:{ intros e He. rewrite (dp_evs_ltb _ _ _ _ _ He), Eb. cbn. now rewrite andb_false_r. }
    rewrite (sj_noS_ge g b dps).
    2:{ intros y Hy. specialize (Hx y Hy). specialize (Od' y Hy). nord. }
    cbn [List.length Nat.add]. rewrite Nat.add_0_r. cbn [sj_evs]. f_equal.
    rewrite IH by assumption. rewrite (sj_noS_ge g b dps).
    2:{ intros y Hy. specialize (Hx y Hy). specialize (Od' y Hy). nord. }
    cbn [List.length]. now rewrite Nat.add_0_r.
  - destruct (nlt (dp_time x) b) eqn:Elt.
    + (* before b *)
      rewrite (filter_ext_in (fun e => ltb b e && isS e) isS (dp_evs g c x)).
      2:{ intros e He. now rewrite (dp_evs_ltb _ _ _ _ _ He), Elt, Eb. }
      rewrite dp_evs_countS by (apply Hsh; now left).
      cbn [app]. rewrite IH by assumption. f_equal. lia.
    + (* after b *)
      destruct (sj_none_gt g b dps (c + dp_w x)) as [E1 E2].
      { intros y Hy. specialize (Hx y Hy). specialize (Od' y Hy). unfold dp_atb. nord. }
      rewrite E1, E2. reflexivity.
Qed.

(* ================= Part D: the emitted list, seen from time b ================= *)

Definition the_dps (g : @graph NumQ) : list dp :=
  sort_dp (map DP_pulse (rev (g_pulses g)) ++ map DP_deme (g_demes g)).

Lemma the_dps_in g x :
  In x (the_dps g) <-> In x (map DP_pulse (rev (g_pulses g)) ++ map DP_deme (g_demes g)).
Proof.
  unfold the_dps. rewrite sort_dp_g. split; intro Hx.
  - apply (Permutation_in _ (gsort_perm dp_time _)). exact Hx.
  - apply (Permutation_in _ (Permutation_sym (gsort_perm dp_time _))). exact Hx.
Qed.

Lemma the_dps_ok g x : Valid g -> In x (the_dps g) -> ok (dp_time x).
Proof.
  intros V Hx. apply the_dps_in in Hx. apply in_app_or in Hx.
  destruct Hx as [Hx|Hx]; apply in_map_iff in Hx; destruct Hx as (y & <- & Hy); cbn.
  - eapply valid_pulse_ok; eauto. now apply in_rev.
  - eapply valid_deme_ok; eauto.
Qed.

Lemma the_dps_shape g x : Valid g -> In x (the_dps g) -> dp_shape x.
Proof.
  intros V Hx. apply the_dps_in in Hx. apply in_app_or in Hx.
  destruct Hx as [Hx|Hx]; apply in_map_iff in Hx; destruct Hx as (y & <- & Hy); cbn.
  - apply in_rev in Hy. pose proof (v_pulses _ V y Hy) as VP.
    split; [exact (vp_srcs_ne _ _ VP)|].
    pose proof (vp_props_len _ _ VP) as Hl. pose proof (vp_srcs_ne _ _ VP) as Hne.
    destruct (p_srcs y); [congruence|]. destruct (p_props y); [discriminate|discriminate].
  - destruct (ValidDemes_in _ _ _ (v_demes _ V) Hy) as [e' Vd]. exact (vd_props_len _ _ Vd).
Qed.

Lemma the_dps_sorted g : Valid g -> SSorted dp_time (the_dps g).
Proof.
  intro V. unfold the_dps. rewrite sort_dp_g. apply gsort_sorted.
  intros y Hy. apply (the_dps_ok g y V). now apply the_dps_in.
Qed.

Definition names_ok (g : @graph NumQ) (x : @dp NumQ) : Prop :=
  match x with
  | DP_pulse p => exists s0, p_srcs p = [s0] /\ gidx g (p_dst p) < List.length (g_demes g) /\
                             gidx g s0 < List.length (g_demes g)
  | DP_deme d => gidx g (d_name d) < List.length (g_demes g) /\
                 Forall (fun a => gidx g a < List.length (g_demes g)) (d_anc d)
  end.

Lemma gsort_length {A} (key : A -> @num NumQ) l : List.length (gsort key l) = List.length l.
Proof. apply Permutation_length, gsort_perm. Qed.

Lemma to_ms_sj g0 g N0 n evs (b : @num NumQ) :
  in_generations g0 = Ok g -> Valid g -> to_ms_unscaled g0 N0 = Ok (n, evs) -> ok b ->
  n = List.length (g_demes g) /\
  sort_events evs = evs /\
  filter (fun e => atb b e && isSJ e) evs = filter (atb b) (sj_evs g n (the_dps g)) /\
  List.length (filter (fun e => ltb b e && isS e) evs) =
    List.length (filter (fun e => ltb b e && isS e) (sj_evs g n (the_dps g))) /\
  (forall x, In x (the_dps g) -> names_ok g x).
Proof.
  intros Hg V H Ob. unfold to_ms_unscaled in H. rewrite Hg in H. cbn [bind] in H. cbv zeta in H.
  mbind H sz Hsz. mbind H sj Hsj. mbind H off Hoff. mbind H on Hon.
  injection H as <- <-. split; [reflexivity|].
  set (names := map d_name (g_demes g)) in *.
  set (n := List.length (g_demes g)) in *.
  change (foldM (sz_step N0 (nmul n4 N0)) (g_demes g) ([], 1) = Ok sz) in Hsz.
  apply sz_fold in Hsz. destruct Hsz as (esz & Esz & Psz). cbn [fst snd app] in Esz, Psz.
  fold (the_dps g) in Hsj.
  change (foldM (sj_step names) (the_dps g) ([], n) = Ok sj) in Hsj.
  pose proof (proj1 (valid_demes_nodup _ _ (v_demes _ V))) as ND. fold names in ND.
  apply (sj_fold_evs g) in Hsj; [|exact ND|intros x Hx; now apply (the_dps_shape g)].
  destruct Hsj as (Esj & Gsj). cbn [fst snd app] in Esj.
  change (foldM (off_step g names) (g_migs g) [] = Ok off) in Hoff.
  apply off_fold_spec in Hoff. destruct Hoff as (Foff & _ & _).
  change (foldM (on_step names (nmul n4 N0)) (g_migs g) [] = Ok on) in Hon.
  apply on_fold_spec in Hon. destruct Hon as (Fon & _ & _).
  set (sjl := sj_evs g n (the_dps g)) in *.
  set (U := fst sz ++ fst sj ++ off ++ on).
  assert (forall e, In e U -> ok (ev_time e)) as OU.
  { intros e He. unfold U in He.
    apply in_app_or in He. destruct He as [He|He]; [|apply in_app_or in He; destruct He as [He|He]].
    - rewrite Esz in He. destruct (Psz e He) as (_ & d & ep & Hd & Hep & Ht).
      rewrite Ht. apply ok_float. destruct (valid_deme_ok _ _ V Hd) as [_ Ho]. now apply Ho.
    - rewrite Esj in He. destruct (sj_evs_in _ _ _ _ He) as (x & Hx & -> & _).
      apply ok_float. now apply (the_dps_ok g).
    - apply in_app_or in He. destruct He as [He|He].
      + destruct (Foff e He) as [[]|(m & a & b' & Hm & _ & _ & ->)]. cbn [ev_time].
        apply ok_float. eapply valid_mig_ok; eauto.
      + destruct (Fon e He) as [[]|(m & a & b' & Hm & _ & _ & ->)]. cbn [ev_time].
        apply ok_float. eapply valid_mig_ok; eauto. }
  assert (forall f : msev -> bool, (forall e, f e = true -> isSJ e = true) -> filter f U = filter f sjl) as FU.
  { intros f Hf. unfold U. rewrite !filter_app, Esj.
    assert (forall e, isSJ e = false -> f e = false) as Hf'.
    { intros e He. destruct (f e) eqn:E; [|reflexivity]. apply Hf in E. congruence. }
    rewrite (filter_nil f (fst sz)).
    2:{ intros e He. apply Hf'. rewrite Esz in He. destruct (Psz e He) as ((j & _ & Hl) & _).
        destruct e; cbn in Hl |- *; auto; contradiction. }
    rewrite (filter_nil f off).
    2:{ intros e He. apply Hf'. destruct (Foff e He) as [[]|(m & a & b' & _ & _ & _ & ->)]. reflexivity. }
    rewrite (filter_nil f on).
    2:{ intros e He. apply Hf'. destruct (Fon e He) as [[]|(m & a & b' & _ & _ & _ & ->)]. reflexivity. }
    now rewrite app_nil_r. }
  split; [|split; [|split]].
  - apply sort_events_id.
    + intros e He. apply OU. apply (Permutation_in _ (sort_events_perm U)). exact He.
    + now apply sort_events_sorted.
  - fold U. rewrite sort_events_g, gsort_filter by exact OU.
    rewrite FU by (intros e He; apply andb_true_iff in He; tauto).
    rewrite (filter_ext_in (fun e => atb b e && isSJ e) (atb b) sjl).
    2:{ intros e He. destruct (sj_evs_in _ _ _ _ He) as (_ & _ & _ & ->). apply andb_true_r. }
    apply gsort_id. apply (SSorted_eqkeys ev_time b); [exact Ob|].
    intros y Hy. apply filter_In in Hy. apply Hy.
  - fold U. rewrite sort_events_g, gsort_filter by exact OU. rewrite gsort_length.
    rewrite FU; [reflexivity|].
    intros e He. apply andb_true_iff in He. destruct e; cbn in *; try tauto; destruct He; discriminate.
  - exact Gsj.
Qed.

(* ================= Part E: ms_moves and gmoves, row by row ================= *)

Definition sameq : @num NumQ -> @num NumQ -> bool := fun x y => neqb x y.
Definition mrow (rn : list (@num NumQ) * nat) (e : @msev NumQ) : list (@num NumQ) * nat := move_row e rn.
Definition act (b : @num NumQ) (e : @msev NumQ) : bool := atb b e && isSJ e.

Lemma apply_ev_npops (s : @mstate NumQ) e s' :
  apply_ev s e = Ok s' -> npops s' = npops s + (if isS e then 1 else 0).
Proof.
  intro H. unfold apply_ev in H.
  destruct e as [t a|t a al|t x|t a x tm|t x|t a b x|t np m ini|t a p|t a b]; cbn [isS].
  - injection H as <-. unfold npops. cbn. rewrite map_length. lia.
  - mraise H Hc. injection H as <-. unfold npops. cbn. rewrite MsRates.upd_length. lia.
  - injection H as <-. unfold npops. cbn. rewrite map_length. lia.
  - mraise H Hc. injection H as <-. unfold npops. cbn. rewrite MsRates.upd_length. lia.
  - injection H as <-. unfold npops. cbn. lia.
  - mraise H Hc. injection H as <-. unfold npops. cbn. lia.
  - mraise H Hc. injection H as <-. unfold npops. cbn. lia.
  - mraise H Hc. injection H as <-. unfold npops. cbn. rewrite app_length. cbn. lia.
  - mraise H Hc. injection H as <-. unfold npops. cbn. rewrite MsRates.upd_length. lia.
Qed.

Lemma before_npops (cond : @msev NumQ -> bool) l : forall s s',
  foldM (fun s e => if cond e then apply_ev s e else Ok s) l s = Ok s' ->
  npops s' = npops s + List.length (filter (fun e => cond e && isS e) l).
Proof.
  induction l as [|e l IH]; intros s s' H; cbn in H.
  - injection H as <-. cbn. lia.
  - mbind H s1 H1. cbn [filter]. apply IH in H. rewrite H.
    destruct (cond e); cbn [andb].
    + apply apply_ev_npops in H1. rewrite H1. destruct (isS e); cbn [List.length]; lia.
    + injection H1 as <-. lia.
Qed.

Lemma move_row_snd (e : @msev NumQ) row c : snd (move_row e (row, c)) = snd (move_row e ([], c)).
Proof. destruct e; reflexivity. Qed.

Lemma moves_nonact b acc e : act b e = false -> moves_step sameq b acc e = Ok acc.
Proof.
  unfold act, atb, moves_step, sameq. destruct acc as [P c]. intro H.
  destruct (neqb (ev_time e) b); [|reflexivity]. destruct e; cbn in H; try discriminate; reflexivity.
Qed.

Lemma moves_filter b l : forall acc,
  foldM (moves_step sameq b) l acc = foldM (moves_step sameq b) (filter (act b) l) acc.
Proof.
  induction l as [|e l IH]; intro acc; [reflexivity|]. cbn [foldM filter].
  destruct (act b e) eqn:E.
  - cbn [foldM]. destruct (moves_step sameq b acc e); cbn [bind]; [apply IH|reflexivity].
  - rewrite (moves_nonact b acc e E). cbn [bind]. apply IH.
Qed.

Lemma moves_step_act b P c e acc1 :
  act b e = true -> moves_step sameq b (P, c) e = Ok acc1 ->
  acc1 = (map (fun row => fst (move_row e (row, c))) P, snd (move_row e ([], c))).
Proof.
  unfold act, atb, moves_step, sameq. intros Ha H. apply andb_true_iff in Ha. destruct Ha as [Ht Hs].
  rewrite Ht in H. destruct e; cbn in Hs; try discriminate.
  - mraise H Hc. now injection H as <-.
  - mraise H Hc. now injection H as <-.
Qed.

Lemma moves_rows b l : forall P c r,
  (forall e, In e l -> act b e = true) ->
  foldM (moves_step sameq b) l (P, c) = Ok r ->
  fst r = map (fun row => fst (fold_left mrow l (row, c))) P.
Proof.
  induction l as [|e l IH]; intros P c r Hact H; cbn in H.
  - injection H as <-. cbn. symmetry. apply map_id.
  - mbind H acc1 H1. apply moves_step_act in H1; [|apply Hact; now left]. subst acc1.
    apply IH in H; [|intros; apply Hact; now right]. rewrite H, map_map.
    apply map_ext. intro row. cbn [fold_left]. unfold mrow at 3.
    rewrite <- (move_row_snd e row c). now rewrite <- surjective_pairing.
Qed.

Lemma ms_moves_rows n evs (b : @num NumQ) (Pm : list (list (@num NumQ))) :
  sort_events evs = evs ->
  ms_moves (fun x y => neqb x y) (mkCmd n true n0 [] evs) b = Ok Pm ->
  let c0 := n + List.length (filter (fun e => ltb b e && isS e) evs) in
  forall i, i < c0 ->
    exists row0, List.length row0 = c0 /\
      (forall j, j < c0 -> nth j row0 nf0 = if Nat.eqb i j then nf1 else nf0) /\
      nth i Pm [] = fst (fold_left mrow (filter (act b) evs) (row0, c0)).
Proof.
  intros Hs H c0 i Hi. change (fun x y : num => neqb x y) with sameq in H.
  rewrite ms_moves_unfold in H. unfold all_events in H. cbn [c_init c_events app] in H. rewrite Hs in H.
  mbind H before Hb. cbv zeta in H. mbind H r Hr. destruct r as [P' c']. cbn [fst] in H. injection H as <-.
  apply (before_npops (fun e => nlt (ev_time e) b && negb (sameq (ev_time e) b))) in Hb.
  destruct (init_sq (mkCmd n true n0 [] evs)) as [_ NP0]. cbn [c_npop] in NP0. rewrite NP0 in Hb.
  change (npops before = c0) in Hb.
  rewrite moves_filter in Hr. apply moves_rows in Hr.
  2:{ intros e He. apply filter_In in He. apply He. }
  cbn [fst] in Hr. rewrite Hr, Hb. unfold npops in Hb.
  set (pops := st_pops before) in *.
  rewrite (nth_map_lt _ _ []) by (rewrite mapi_length; lia).
  rewrite (nth_mapi _ _ (nth 0 pops (mkPop n0 n0 n0 n0 None))) by lia. cbn [Nat.add].
  eexists. split; [|split; [|reflexivity]].
  - rewrite mapi_length. exact Hb.
  - intros j Hj. rewrite (nth_mapi _ _ (nth 0 pops (mkPop n0 n0 n0 n0 None))) by lia. reflexivity.
Qed.

(* graph side *)
Definition g_pulse_row (g : @graph NumQ) (p : pulse) (row : list (@num NumQ)) : list (@num NumQ) :=
  let d := gidx g (p_dst p) in
  let x := nth d row nf0 in
  let row1 := fold_left (fun r sp => upd (gidx g (fst sp)) (fun y => nadd y (nmul (snd sp) x)) r)
                        (combine (p_srcs p) (p_props p)) row in
  upd d (fun _ => nmul (nsub n1 (pysum (p_props p))) x) row1.
Definition g_deme_row (g : @graph NumQ) (dk : deme) (row : list (@num NumQ)) : list (@num NumQ) :=
  let k := gidx g (d_name dk) in
  let x := nth k row nf0 in
  let row1 := fold_left (fun r ap => upd (gidx g (fst ap)) (fun y => nadd y (nmul (snd ap) x)) r)
                        (combine (d_anc dk) (d_props dk)) row in
  upd k (fun _ => nf0) row1.
Definition g_row (g : @graph NumQ) (x : dp) (row : list (@num NumQ)) : list (@num NumQ) :=
  match x with DP_pulse p => g_pulse_row g p row | DP_deme d => g_deme_row g d row end.

Definition dps_at (g : @graph NumQ) (b : @num NumQ) : list dp :=
  map DP_pulse (filter (fun p => neqb (p_time p) b) (rev (g_pulses g))) ++
  map DP_deme (filter (fun d => neqb (d_start d) b) (g_demes g)).

Lemma gmoves_rows g (b : @num NumQ) :
  gmoves (fun x y => neqb x y) g b =
  map (fun row => fold_left (fun r x => g_row g x r) (dps_at g b) row)
      (mapi 0 (fun i (_ : deme) => mapi 0 (fun j (_ : deme) => if Nat.eqb i j then nf1 else nf0) (g_demes g))
            (g_demes g)).
Proof.
  set (ident := mapi 0 _ (g_demes g)).
  transitivity
    (fold_left (fun P dk => if neqb (d_start dk) b then map (g_deme_row g dk) P else P) (g_demes g)
       (fold_left (fun P p => if neqb (p_time p) b then map (g_pulse_row g p) P else P) (rev (g_pulses g)) ident)).
  { reflexivity. }
  rewrite (fold_left_if_filter (fun d => neqb (d_start d) b) (fun dk P => map (g_deme_row g dk) P)).
  rewrite (fold_left_if_filter (fun p => neqb (p_time p) b) (fun p P => map (g_pulse_row g p) P)).
  rewrite (fold_left_map_rows (g_deme_row g)), (fold_left_map_rows (g_pulse_row g)), map_map.
  apply map_ext. intro row. unfold dps_at. rewrite fold_left_app, !fold_left_map_l. reflexivity.
Qed.

(* the elements at time b of the sorted pulse/deme list are the pulses at b in reverse listing
   order followed by the demes at b in listing order *)
Lemma dps_at_sorted g (b : @num NumQ) : Valid g -> ok b -> filter (dp_atb b) (the_dps g) = dps_at g b.
Proof.
  intros V Ob. unfold the_dps. rewrite sort_dp_g, gsort_filter.
  2:{ intros y Hy. apply (the_dps_ok g y V). now apply the_dps_in. }
  rewrite gsort_id.
  - rewrite filter_app, !filter_map_comm. reflexivity.
  - apply (SSorted_eqkeys dp_time b); [exact Ob|]. intros y Hy. apply filter_In in Hy. apply Hy.
Qed.

(* ================= Part F: one row, one element at time b ================= *)

Lemma nth_upd_gen {A} (f : A -> A) d l : forall k j,
  nth j (upd k f l) d = if Nat.eqb j k && Nat.ltb k (List.length l) then f (nth j l d) else nth j l d.
Proof.
  induction l as [|x l IH]; intros [|k] [|j]; cbn [upd nth List.length]; try reflexivity.
  - cbn. now rewrite andb_false_r.
  - rewrite IH. reflexivity.
Qed.

Lemma nth_app_one {A} (l : list A) y d j :
  nth j (l ++ [y]) d = if Nat.ltb j (List.length l) then nth j l d
                       else if Nat.eqb j (List.length l) then y else d.
Proof.
  destruct (Nat.ltb_spec j (List.length l)) as [H|H].
  - now apply app_nth1.
  - rewrite app_nth2 by lia. destruct (Nat.eqb_spec j (List.length l)) as [->|Hn].
    + now rewrite Nat.sub_diag.
    + destruct (j - List.length l) as [|[|k]] eqn:E; try lia; reflexivity.
Qed.

Lemma Forall_upd {A} (P : A -> Prop) (f : A -> A) l : forall k,
  Forall P l -> (forall x, P x -> P (f x)) -> Forall P (upd k f l).
Proof.
  induction l as [|x l IH]; intros [|k] H Hf; cbn; auto; inversion H; subst; constructor; auto.
Qed.

Lemma fin_nth l j : Forall fin l -> fin (nth j l (QF 0 false)).
Proof.
  intro H. destruct (Nat.lt_ge_cases j (List.length l)) as [Hj|Hj].
  - eapply Forall_forall; [exact H|]. now apply nth_In.
  - rewrite nth_overflow by exact Hj. exact Logic.I.
Qed.

(* the ms row [mr] (c populations) and the graph row [gr] (D demes) agree: numerically equal on the
   demes, zero on every population created by an -es *)
Definition RInv (D c : nat) (mr gr : list qx) : Prop :=
  List.length gr = D /\ List.length mr = c /\ D <= c /\ Forall fin mr /\ Forall fin gr /\
  (forall j, j < D -> (qv (nth j mr (QF 0 false)) == qv (nth j gr (QF 0 false)))%Q) /\
  (forall j, D <= j -> (qv (nth j mr (QF 0 false)) == 0)%Q).

Lemma pysum_one (p0 : qx) : fin p0 -> fin (@pysum NumQ [p0]) /\ (qv (@pysum NumQ [p0]) == qv p0)%Q.
Proof.
  intro F. destruct (pysum_exact [p0]) as [F1 E1].
  - intros x [<-|[]]. exact F.
  - split; [exact F1|]. rewrite E1. cbn [map]. rewrite qsum_cons, qsum_nil. lra.
Qed.

Ltac nat_cases :=
  repeat match goal with
  | |- context [Nat.eqb ?a ?b] => destruct (Nat.eqb_spec a b); try lia
  | |- context [Nat.ltb ?a ?b] => destruct (Nat.ltb_spec a b); try lia
  end; cbn [andb].

Lemma pulse_step g D c mr gr p s0 p0 :
  D = List.length (g_demes g) -> RInv D c mr gr ->
  p_srcs p = [s0] -> p_props p = [p0] -> fin p0 ->
  gidx g (p_dst p) < D -> gidx g s0 < D -> gidx g s0 <> gidx g (p_dst p) ->
  RInv D (S c) (fst (fold_left mrow (pulse_evs g c p) (mr, c))) (g_pulse_row g p gr) /\
  snd (fold_left mrow (pulse_evs g c p) (mr, c)) = S c.
Proof.
  intros HD (Lg & Lm & Hc & Fm & Fg & Hlo & Hhi) Es Ep F0 Hd Hs Hne.
  unfold pulse_evs, g_pulse_row. rewrite Es, Ep. cbn [combine fold_left fst snd mrow move_row].
  set (id := gidx g (p_dst p)) in *. set (is := gidx g s0) in *.
  replace (S id - 1) with id by lia. replace (S is - 1) with is by lia. replace (S c - 1) with c by lia.
  cbn [nfloat nsub nmul nadd n1 nf0 num NumQ] in *.
  set (q := qx_float (qx_sub (QF 1 true) p0)).
  assert (fin q /\ qv q = (1 - qv p0)%Q) as [Fq Eq].
  { unfold q. destruct p0; cbn in F0 |- *; try contradiction. auto. }
  match goal with |- context [@nth ?T id mr ?d] => set (x := @nth T id mr d) end.
  match goal with |- context [@nth ?T id gr ?d] => set (xg := @nth T id gr d) end.
  assert (fin x) as Fx by (apply fin_nth; exact Fm).
  assert (fin xg) as Fxg by (apply fin_nth; exact Fg).
  assert (qv x == qv xg)%Q as Exx by (apply Hlo; exact Hd).
  destruct (pysum_one p0 F0) as [Fs Esum].
  match goal with |- context [upd id ?f mr ++ ?l] => set (mr1 := upd id f mr ++ l) end.
  assert (List.length mr1 = S c) as L1.
  { unfold mr1. rewrite app_length, MsRates.upd_length. cbn. lia. }
  assert (nth c mr1 (QF 0 false) = qx_mul (qx_sub (QF 1 true) q) x) as Ec.
  { unfold mr1. rewrite nth_app_one, MsRates.upd_length. nat_cases. reflexivity. }
  rewrite Ec.
  set (y := qx_mul (qx_sub (QF 1 true) q) x).
  assert (fin y /\ qv y = ((1 - qv q) * qv x)%Q) as [Fy Ey].
  { unfold y. split; [apply fin_mul; [apply fin_sub|]; auto; exact Logic.I|].
    rewrite qv_mul, qv_sub; auto; try exact Logic.I. apply fin_sub; auto. exact Logic.I. }
  assert (forall j, nth j (upd c (fun _ => QF 0 false) (upd is (fun y0 => qx_add y0 y) mr1)) (QF 0 false) =
                    if Nat.eqb j c then QF 0 false
                    else if Nat.eqb j is then qx_add (nth is mr (QF 0 false)) y
                    else if Nat.eqb j id then qx_mul q x
                    else nth j mr (QF 0 false)) as Nm.
  { intro j. rewrite !nth_upd_gen, !MsRates.upd_length, L1. unfold mr1.
    rewrite nth_app_one, MsRates.upd_length, nth_upd_gen.
    destruct (Nat.eqb_spec j c) as [->|Hjc].
    - nat_cases. reflexivity.
    - destruct (Nat.eqb_spec j is) as [->|Hjs]; nat_cases; try reflexivity.
      rewrite nth_overflow by lia. reflexivity. }
  assert (forall j, nth j (upd id (fun _ => qx_mul (qx_sub (QF 1 true) (@pysum NumQ [p0])) xg)
                               (upd is (fun y0 => qx_add y0 (qx_mul p0 xg)) gr)) (QF 0 false) =
                    if Nat.eqb j id then qx_mul (qx_sub (QF 1 true) (@pysum NumQ [p0])) xg
                    else if Nat.eqb j is then qx_add (nth is gr (QF 0 false)) (qx_mul p0 xg)
                    else nth j gr (QF 0 false)) as Ng.
  { intro j. rewrite !nth_upd_gen, !MsRates.upd_length.
    destruct (Nat.eqb_spec j id) as [->|Hjd]; [nat_cases; reflexivity|].
    destruct (Nat.eqb_spec j is) as [->|Hjs]; nat_cases; reflexivity. }
  split; [|reflexivity].
  split; [now rewrite !MsRates.upd_length|]. split; [now rewrite !MsRates.upd_length|].
  split; [lia|].
  split.
  { apply Forall_upd; [|intros; exact Logic.I]. apply Forall_upd; [|intros; now apply fin_add].
    unfold mr1. apply Forall_app. split; [|constructor; [exact Fy|constructor]].
    apply Forall_upd; [exact Fm|]. intros. now apply fin_mul. }
  split.
  { apply Forall_upd; [|intros; apply fin_mul; [apply fin_sub; [exact Logic.I|exact Fs]|exact Fxg]].
    apply Forall_upd; [exact Fg|]. intros. apply fin_add; [assumption|now apply fin_mul]. }
  split.
  - intros j Hj. rewrite Nm, Ng.
    destruct (Nat.eqb_spec j c) as [->|Hjc]; [lia|].
    destruct (Nat.eqb_spec j is) as [->|Hjs].
    + destruct (Nat.eqb_spec is id) as [E|_]; [contradiction|].
      rewrite !qv_add, qv_mul by (auto using fin_nth, fin_mul). rewrite Ey, Eq, (Hlo is Hs), Exx. ring.
    + destruct (Nat.eqb_spec j id) as [->|Hjd].
      * rewrite (qv_mul q x Fq Fx), (qv_mul _ xg (fin_sub (QF 1 true) _ Logic.I Fs) Fxg).
        rewrite (qv_sub (QF 1 true) _ Logic.I Fs). rewrite Eq, Esum, Exx. cbn [qv]. ring.
      * now apply Hlo.
  - intros j Hj. rewrite Nm.
    destruct (Nat.eqb_spec j c) as [->|Hjc]; [reflexivity|].
    destruct (Nat.eqb_spec j is) as [->|Hjs]; [lia|].
    destruct (Nat.eqb_spec j id) as [->|Hjd]; [lia|]. now apply Hhi.
Qed.

(* ---------- the split chain of a deme: from rows of NumQ values to rows of rationals ---------- *)

Definition conv (e : @msev NumQ) : nat * nat * option Q :=
  match e with
  | Evs _ i p => (i, 0, Some (qv p))
  | Evj _ i j => (i, j, None)
  | _ => (0, 0, None)
  end.
Definition ev_fin (e : @msev NumQ) : Prop :=
  match e with Evs _ _ p => fin p | Evj _ _ _ => True | _ => False end.

Lemma map_upd {A B} (h : A -> B) (f : A -> A) (f' : B -> B) l : forall k,
  (forall x, In x l -> h (f x) = f' (h x)) -> map h (upd k f l) = upd k f' (map h l).
Proof.
  induction l as [|x l IH]; intros [|k] H; cbn; try reflexivity.
  - now rewrite (H x (or_introl eq_refl)).
  - rewrite IH; [reflexivity|]. intros y Hy. apply H. now right.
Qed.

Lemma qv_nth (l : list qx) j : nth j (map qv l) 0%Q = qv (nth j l (QF 0 false)).
Proof. change 0%Q with (qv (QF 0 false)). apply map_nth. Qed.

Lemma move_row_conv (e : @msev NumQ) (mr : list qx) c :
  ev_fin e -> Forall fin mr ->
  map qv (fst (move_row e (mr, c))) = fst (move_row_Q (conv e) (map qv mr, c)) /\
  snd (move_row e (mr, c)) = snd (move_row_Q (conv e) (map qv mr, c)) /\
  Forall fin (fst (move_row e (mr, c))).
Proof.
  intros He Fm. destruct e as [| | | | | | |t i p|t i j]; cbn in He; try contradiction.
  - cbn [move_row conv move_row_Q fst snd nmul nsub n1 nf0 num NumQ]. rewrite qv_nth.
    set (x := nth (i - 1) mr (QF 0 false)).
    assert (fin x) as Fx by (apply fin_nth; exact Fm).
    split; [|split; [reflexivity|]].
    + rewrite map_app. cbn [map]. unfold qupd.
      rewrite (map_upd qv _ (fun _ => (qv p * qv x)%Q)) by (intros; now apply qv_mul).
      rewrite qv_mul, qv_sub; auto; try exact Logic.I. apply fin_sub; auto. exact Logic.I.
    + apply Forall_app. split.
      * apply Forall_upd; [exact Fm|]. intros. now apply fin_mul.
      * constructor; [|constructor]. apply fin_mul; [apply fin_sub; [exact Logic.I|exact He]|exact Fx].
  - cbn [move_row conv move_row_Q fst snd nadd nf0 num NumQ]. rewrite qv_nth.
    set (x := nth (i - 1) mr (QF 0 false)).
    assert (fin x) as Fx by (apply fin_nth; exact Fm).
    split; [|split; [reflexivity|]].
    + unfold qupd.
      rewrite (map_upd qv _ (fun _ => 0%Q)) by reflexivity.
      rewrite (map_upd qv _ (fun y => (y + qv x)%Q)); [reflexivity|].
      intros y Hy. apply qv_add; [|exact Fx]. eapply Forall_forall; eauto.
    + apply Forall_upd; [|intros; exact Logic.I]. apply Forall_upd; [exact Fm|]. intros. now apply fin_add.
Qed.

Lemma fold_conv (es : list (@msev NumQ)) : forall (mr : list qx) c,
  Forall ev_fin es -> Forall fin mr ->
  map qv (fst (fold_left mrow es (mr, c))) =
    fst (fold_left (fun rn e => move_row_Q e rn) (map conv es) (map qv mr, c)) /\
  snd (fold_left mrow es (mr, c)) =
    snd (fold_left (fun rn e => move_row_Q e rn) (map conv es) (map qv mr, c)) /\
  Forall fin (fst (fold_left mrow es (mr, c))).
Proof.
  induction es as [|e es IH]; intros mr c He Fm.
  - cbn. auto.
  - inversion He as [|? ? He1 He2]; subst.
    destruct (move_row_conv e mr c He1 Fm) as (E1 & E2 & F1).
    cbn [fold_left map]. unfold mrow at 2 4 6.
    destruct (move_row e (mr, c)) as [mr1 c1]. cbn [fst snd] in *.
    destruct (move_row_Q (conv e) (map qv mr, c)) as [rq1 cq1]. cbn [fst snd] in *. subst rq1 cq1.
    apply IH; assumption.
Qed.

(* congruence of the rational rule for numerically equal rows and proportions *)
Definition evQeq (e e' : nat * nat * option Q) : Prop :=
  fst e = fst e' /\
  match snd e, snd e' with
  | Some q, Some q' => (q == q')%Q
  | None, None => True
  | _, _ => False
  end.

Lemma F2_nth l l' : Forall2 Qeq l l' -> forall k, (nth k l 0 == nth k l' 0)%Q.
Proof.
  induction 1 as [|a b l l' Hab _ IH]; intros [|k]; cbn; try reflexivity; auto.
Qed.

Lemma F2_upd (f f' : Q -> Q) l l' : Forall2 Qeq l l' ->
  (forall x y, (x == y)%Q -> (f x == f' y)%Q) -> forall k, Forall2 Qeq (qupd k f l) (qupd k f' l').
Proof.
  intros H Hf. induction H as [|a b l l' Hab H IH]; intros [|k]; cbn; constructor; auto.
Qed.

Lemma F2_refl l : Forall2 Qeq l l.
Proof. induction l; constructor; auto. reflexivity. Qed.

Lemma move_row_Q_cong e e' r r' n :
  Forall2 Qeq r r' -> evQeq e e' ->
  Forall2 Qeq (fst (move_row_Q e (r, n))) (fst (move_row_Q e' (r', n))) /\
  snd (move_row_Q e (r, n)) = snd (move_row_Q e' (r', n)).
Proof.
  intros Hr [E1 E2]. destruct e as [[i j] o], e' as [[i' j'] o']. cbn [fst snd] in *.
  injection E1 as <- <-.
  pose proof (F2_nth _ _ Hr (i - 1)) as Hx.
  destruct o as [q|], o' as [q'|]; try contradiction; cbn [move_row_Q fst snd].
  - split; [|reflexivity]. apply Forall2_app.
    + apply F2_upd; [exact Hr|]. intros. now rewrite E2, Hx.
    + constructor; [|constructor]. now rewrite E2, Hx.
  - split; [|reflexivity]. apply F2_upd.
    + apply F2_upd; [exact Hr|]. intros x y Hxy. now rewrite Hxy, Hx.
    + intros. reflexivity.
Qed.

Lemma fold_Q_cong es es' : Forall2 evQeq es es' -> forall r r' n, Forall2 Qeq r r' ->
  Forall2 Qeq (fst (fold_left (fun rn e => move_row_Q e rn) es (r, n)))
              (fst (fold_left (fun rn e => move_row_Q e rn) es' (r', n))) /\
  snd (fold_left (fun rn e => move_row_Q e rn) es (r, n)) =
  snd (fold_left (fun rn e => move_row_Q e rn) es' (r', n)).
Proof.
  induction 1 as [|e e' es es' He _ IH]; intros r r' n Hr.
  - cbn. auto.
  - cbn [fold_left]. destruct (move_row_Q_cong e e' r r' n Hr He) as [H1 H2].
    destruct (move_row_Q e (r, n)) as [r1 n1]. destruct (move_row_Q e' (r', n)) as [r1' n1'].
    cbn [fst snd] in *. subst n1'. now apply IH.
Qed.

Lemma props_sum_pos (props : list qx) :
  Forall (fun p => fin p /\ (0 < qv p)%Q) props -> props <> [] ->
  fin (@pysum NumQ props) /\ (qv (@pysum NumQ props) == qsum (map qv props))%Q /\
  (0 < qsum (map qv props))%Q.
Proof.
  intros HF Hne. destruct (pysum_exact props) as [F E].
  { intros x Hx. eapply Forall_forall in HF; [|exact Hx]. tauto. }
  split; [exact F|]. split; [exact E|]. apply qsum_pos.
  - apply Forall_map. eapply Forall_impl; [|exact HF]. cbv beta. tauto.
  - destruct props; [congruence|discriminate].
Qed.

Lemma split_conv (t : @num NumQ) self : forall ids c (props : list (@num NumQ)),
  Forall (fun p => fin p /\ (0 < qv p)%Q) props -> List.length ids = List.length props ->
  Forall2 evQeq (map conv (split_events t self c ids props)) (split_events_Q self c ids (map qv props)) /\
  Forall ev_fin (split_events t self c ids props).
Proof.
  induction ids as [|a ids IH]; intros c props HF Hl.
  - cbn. split; constructor.
  - destruct ids as [|b ids].
    + rewrite split_events_one, split_events_Q_one. cbn. split.
      * constructor; [|constructor]. split; [reflexivity|exact Logic.I].
      * constructor; [exact Logic.I|constructor].
    + destruct props as [|p props]; [discriminate|].
      rewrite split_events_cons2. cbn [map]. rewrite split_events_Q_cons2.
      destruct (props_sum_pos (p :: props) HF) as (FS & ES & PS); [discriminate|].
      inversion HF as [|? ? [Fp Pp] HF']; subst.
      destruct (IH (S c) props HF') as [R1 R2]; [cbn in Hl |- *; lia|].
      cbn [nfloat nsub ndiv n1 num NumQ] in *.
      destruct (fin_div p (@pysum NumQ (p :: props)) Fp FS) as [Fd Ed].
      { rewrite ES. lra. }
      assert (fin (qx_float (qx_sub (QF 1 true) (qx_div p (@pysum NumQ (p :: props)))))) as Fq.
      { apply fin_float, fin_sub; [exact Logic.I|exact Fd]. }
      split.
      * cbn [map conv]. constructor; [|constructor; [|exact R1]].
        -- split; [reflexivity|]. cbn [snd].
           rewrite qv_float, qv_sub, Ed by (auto; exact Logic.I). cbn [qv].
           change (qsum (qv p :: map qv props)) with (qsum (map qv (p :: props))).
           rewrite ES. reflexivity.
        -- split; [reflexivity|exact Logic.I].
      * constructor; [exact Fq|]. constructor; [exact Logic.I|exact R2].
Qed.

(* split_chain_moves (Proofs/SplitChain.v), transported to rows of finite NumQ values *)
Lemma chain_qx (t : @num NumQ) self c ids (props : list (@num NumQ)) (mr : list (@num NumQ)) :
  List.length mr = c -> List.length ids = List.length props -> ids <> [] ->
  Forall (fun p => fin p /\ (0 < qv p)%Q) props -> NoDup ids -> ~ In self ids ->
  1 <= self <= c -> Forall (fun a => 1 <= a <= c) ids -> Forall fin mr ->
  let r := fold_left mrow (split_events t self c ids props) (mr, c) in
  snd r = c + (List.length ids - 1) /\ List.length (fst r) = snd r /\ Forall fin (fst r) /\
  (qv (nth (self - 1) (fst r) (QF 0 false)) == 0)%Q /\
  (forall k a p, nth_error ids k = Some a -> nth_error props k = Some p ->
     (qv (nth (a - 1) (fst r) (QF 0 false)) ==
      qv (nth (a - 1) mr (QF 0 false)) + qv (nth (self - 1) mr (QF 0 false)) * (qv p / qsum (map qv props)))%Q) /\
  (forall m, c < m <= snd r -> (qv (nth (m - 1) (fst r) (QF 0 false)) == 0)%Q) /\
  (forall m, 1 <= m <= c -> m <> self -> ~ In m ids ->
     (qv (nth (m - 1) (fst r) (QF 0 false)) == qv (nth (m - 1) mr (QF 0 false)))%Q).
Proof.
  intros Lm Hl Hne HF ND Hself Hs Hids Fm r.
  destruct (split_conv t self ids c props HF Hl) as [R1 R2].
  set (Rq := fold_left (fun rn e => move_row_Q e rn) (map conv (split_events t self c ids props)) (map qv mr, c)).
  assert (map qv (fst r) = fst Rq /\ snd r = snd Rq /\ Forall fin (fst r)) as (E1 & E2 & F1)
    by exact (fold_conv _ mr c R2 Fm).
  pose proof (split_chain_moves self c ids (map qv props) (map qv mr)) as SC.
  set (Rq' := fold_left (fun rn e => move_row_Q e rn) (split_events_Q self c ids (map qv props)) (map qv mr, c)) in *.
  assert (Forall2 Qeq (fst Rq) (fst Rq') /\ snd Rq = snd Rq') as [C1 C2]
    by exact (fold_Q_cong _ _ R1 (map qv mr) (map qv mr) c (F2_refl _)).
  rewrite <- E1 in C1. rewrite <- E2 in C2.
  assert (Forall (fun p => (0 < p)%Q) (map qv props)) as HFq.
  { apply Forall_map. eapply Forall_impl; [|exact HF]. cbv beta. tauto. }
  destruct Rq' as [rq nq].
  cbn [fst snd] in C1, C2.
  destruct SC as (Hn & Hlr & Hs0 & Hanc & Hnew & Hoth); try assumption.
  { now rewrite map_length. }
  { now rewrite map_length. }
  assert (forall j, (qv (nth j (fst r) (QF 0 false)) == nth j rq 0)%Q) as T.
  { intro j. rewrite <- qv_nth. apply F2_nth. exact C1. }
  split; [congruence|]. split.
  { rewrite C2, <- Hlr, <- (Forall2_length' _ _ _ C1). now rewrite map_length. }
  split; [exact F1|]. split; [now rewrite T|]. split.
  { intros k a p Hk1 Hk2. rewrite T.
    rewrite (Hanc k a (qv p) Hk1) by (now apply map_nth_error). now rewrite !qv_nth. }
  split.
  { intros m Hm. rewrite T. apply Hnew. lia. }
  intros m Hm1 Hm2 Hm3. rewrite T, (Hoth m Hm1 Hm2 Hm3). now rewrite qv_nth.
Qed.

(* graph side: the ancestors of a deme receive their shares *)
Lemma g_anc_fold g (x : @num NumQ) : forall (ancs : list string) (props row : list (@num NumQ)),
  List.length props = List.length ancs -> fin x -> Forall fin row -> Forall fin props ->
  Forall (fun a => gidx g a < List.length row) ancs -> NoDup (map (gidx g) ancs) ->
  let row1 := fold_left (fun r ap => upd (gidx g (fst ap)) (fun y => nadd y (nmul (snd ap) x)) r)
                        (combine ancs props) row in
  Forall fin row1 /\ List.length row1 = List.length row /\
  (forall m a p, nth_error ancs m = Some a -> nth_error props m = Some p ->
     (qv (nth (gidx g a) row1 (QF 0 false)) == qv (nth (gidx g a) row (QF 0 false)) + qv p * qv x)%Q) /\
  (forall j, ~ In j (map (gidx g) ancs) -> nth j row1 (QF 0 false) = nth j row (QF 0 false)).
Proof.
  induction ancs as [|a ancs IH]; intros props row Hl Fx Fr Fp Hb ND row1.
  - subst row1. cbn. split; [exact Fr|]. split; [reflexivity|]. split; [|reflexivity].
    intros [|m] a p H; discriminate.
  - destruct props as [|p props]; [discriminate|].
    inversion Fp as [|? ? Fp0 Fp']; subst. inversion Hb as [|? ? Hb0 Hb']; subst.
    cbn [map] in ND. inversion ND as [|? ? Hnin ND']; subst.
    cbn [combine fold_left fst snd] in row1.
    set (rowa := upd (gidx g a) (fun y => nadd y (nmul p x)) row) in *.
    assert (List.length rowa = List.length row) as La by (unfold rowa; apply MsRates.upd_length).
    assert (Forall fin rowa) as Fa.
    { unfold rowa. apply Forall_upd; [exact Fr|]. intros y Fy. cbn [nadd nmul NumQ].
      apply fin_add; [exact Fy|now apply fin_mul]. }
    destruct (IH props rowa) as (F1 & L1 & A1 & O1);
      [cbn in Hl; now injection Hl|exact Fx|exact Fa|exact Fp'|rewrite La; exact Hb'|exact ND'|].
    fold row1 in F1, L1, A1, O1.
    assert (forall j, nth j rowa (QF 0 false) =
                      if Nat.eqb j (gidx g a) then qx_add (nth j row (QF 0 false)) (qx_mul p x)
                      else nth j row (QF 0 false)) as Na.
    { intro j. unfold rowa. rewrite nth_upd_gen. cbn [nadd nmul NumQ].
      destruct (Nat.eqb_spec j (gidx g a)) as [->|Hj]; [|reflexivity].
      destruct (Nat.ltb_spec (gidx g a) (List.length row)); [reflexivity|lia]. }
    split; [exact F1|]. split; [congruence|]. split.
    + intros [|m] a' p' H1 H2; cbn [nth_error] in H1, H2.
      * injection H1 as <-. injection H2 as <-. rewrite (O1 _ Hnin), Na, Nat.eqb_refl.
        rewrite qv_add, qv_mul; auto using fin_nth, fin_mul. reflexivity.
      * rewrite (A1 m a' p' H1 H2), Na.
        destruct (Nat.eqb_spec (gidx g a') (gidx g a)) as [E|_]; [|reflexivity].
        exfalso. apply Hnin. rewrite <- E. apply in_map. eapply nth_error_In; eauto.
    + intros j Hj. cbn [map] in Hj. rewrite O1 by (intro; apply Hj; now right). rewrite Na.
      destruct (Nat.eqb_spec j (gidx g a)) as [->|_]; [|reflexivity]. exfalso. apply Hj. now left.
Qed.

Definition deme_good (g : @graph NumQ) (d : @deme NumQ) : Prop :=
  let D := List.length (g_demes g) in
  List.length (d_props d) = List.length (d_anc d) /\ d_anc d <> [] /\
  NoDup (map (gidx g) (d_anc d)) /\ ~ In (gidx g (d_name d)) (map (gidx g) (d_anc d)) /\
  gidx g (d_name d) < D /\ Forall (fun a => gidx g a < D) (d_anc d) /\
  Forall (fun p => fin p /\ (0 < qv p)%Q) (d_props d) /\
  (qsum (map qv (d_props d)) == 1)%Q.

Lemma deme_step g D c (mr gr : list (@num NumQ)) d :
  D = List.length (g_demes g) -> RInv D c mr gr -> deme_good g d ->
  RInv D (c + (List.length (d_anc d) - 1)) (fst (fold_left mrow (deme_evs g c d) (mr, c))) (g_deme_row g d gr) /\
  snd (fold_left mrow (deme_evs g c d) (mr, c)) = c + (List.length (d_anc d) - 1).
Proof.
  intros HD (Lg & Lm & Hc & Fm & Fg & Hlo & Hhi) (Hl & Hne & ND & Hnin & Hk & Hb & HF & Hsum).
  rewrite <- HD in *. unfold deme_evs.
  set (k := gidx g (d_name d)) in *.
  set (ids := map (fun a => S (gidx g a)) (d_anc d)).
  assert (List.length ids = List.length (d_anc d)) as Lids by (unfold ids; apply map_length).
  assert (forall m, In m ids <-> exists a, In a (d_anc d) /\ m = S (gidx g a)) as Iids.
  { intro m. unfold ids. rewrite in_map_iff. split; intros (a & H1 & H2); exists a; auto. }
  destruct (chain_qx (d_start d) (S k) c ids (d_props d) mr) as (R1 & R2 & R3 & R4 & R5 & R6 & R7); auto.
  { congruence. }
  { unfold ids. destruct (d_anc d); [congruence|discriminate]. }
  { unfold ids. rewrite <- (map_map (gidx g) S). apply FinFun.Injective_map_NoDup; [|exact ND].
    intros u v E. now injection E. }
  { intro Hin. apply Iids in Hin. destruct Hin as (a & Ha & E). injection E as E.
    apply Hnin. rewrite E. now apply in_map. }
  { lia. }
  { apply Forall_forall. intros m Hm. apply Iids in Hm. destruct Hm as (a & Ha & ->).
    eapply Forall_forall in Hb; [|exact Ha]. lia. }
  set (r := fold_left mrow (split_events (d_start d) (S k) c ids (d_props d)) (mr, c)) in *.
  replace (S k - 1) with k in * by lia.
  (* graph side *)
  unfold g_deme_row. fold k.
  set (xg := nth k gr nf0).
  assert (fin xg) as Fxg by (apply fin_nth; exact Fg).
  destruct (g_anc_fold g xg (d_anc d) (d_props d) gr) as (G1 & G2 & G3 & G4);
    [exact Hl|exact Fxg|exact Fg|eapply Forall_impl; [|exact HF]; cbv beta; tauto
    |cbn [num NumQ]; rewrite Lg; exact Hb|exact ND|].
  set (row1 := fold_left _ (combine (d_anc d) (d_props d)) gr) in *.
  assert (forall j, nth j (upd k (fun _ => nf0) row1) (QF 0 false) =
                    if Nat.eqb j k then QF 0 false else nth j row1 (QF 0 false)) as Ng.
  { intro j. rewrite nth_upd_gen. destruct (Nat.eqb_spec j k) as [->|_]; [|reflexivity].
    cbn [num NumQ] in *.
    destruct (Nat.ltb_spec k (List.length row1)); [reflexivity|lia]. }
  cbn [num NumQ] in *.
  split; [|rewrite R1; lia].
  split; [rewrite MsRates.upd_length; congruence|].
  split; [rewrite R2, R1; lia|]. split; [lia|]. split; [exact R3|].
  split; [apply Forall_upd; [exact G1|intros; exact Logic.I]|].
  split.
  - intros j Hj. rewrite Ng.
    destruct (Nat.eqb_spec j k) as [->|Hjk]; [exact R4|].
    destruct (in_dec Nat.eq_dec (S j) ids) as [Hin|Hnin'].
    + destruct (In_nth_error _ _ Hin) as [m Hm].
      assert (exists a, nth_error (d_anc d) m = Some a /\ gidx g a = j) as (a & Ha & Ea).
      { unfold ids in Hm. rewrite nth_error_map in Hm.
        destruct (nth_error (d_anc d) m) as [a|]; [|discriminate]. injection Hm as E. eauto. }
      assert (exists p, nth_error (d_props d) m = Some p) as [p Hp].
      { destruct (nth_error (d_props d) m) eqn:E; [eauto|]. apply nth_error_None in E.
        assert (m < List.length (d_anc d)) by (apply nth_error_Some; congruence).
        cbn [num NumQ] in *. lia. }
      replace j with (S j - 1) at 1 by lia. rewrite (R5 m (S j) p Hm Hp).
      replace (S j - 1) with j by lia.
      rewrite <- Ea, (G3 m a p Ha Hp), Ea. rewrite (Hlo j Hj), (Hlo k Hk), Hsum. unfold xg. cbn [nf0 NumQ]. field.
    + replace j with (S j - 1) at 1 by lia. rewrite (R7 (S j)); [|lia|lia|exact Hnin'].
      replace (S j - 1) with j by lia. rewrite G4; [now apply Hlo|].
      intro Hin. apply Hnin'. apply Iids. apply in_map_iff in Hin. destruct Hin as (a & Ea & Ha).
      exists a. split; [exact Ha|congruence].
  - intros j Hj.
    destruct (Nat.lt_ge_cases j c) as [Hjc|Hjc].
    + replace j with (S j - 1) by lia. rewrite (R7 (S j)); [|lia|lia|].
      * replace (S j - 1) with j by lia. now apply Hhi.
      * intro Hin. apply Iids in Hin. destruct Hin as (a & Ha & E).
        eapply Forall_forall in Hb; [|exact Ha]. lia.
    + destruct (Nat.lt_ge_cases j (snd r)) as [Hjr|Hjr].
      * replace j with (S j - 1) by lia. apply R6. lia.
      * rewrite nth_overflow by lia. reflexivity.
Qed.

(* ================= Part G: all the elements at time b, and the theorem ================= *)

Definition dp_good (g : @graph NumQ) (x : @dp NumQ) : Prop :=
  match x with
  | DP_pulse p => exists s0 p0, p_srcs p = [s0] /\ p_props p = [p0] /\ fin p0 /\
                    gidx g (p_dst p) < List.length (g_demes g) /\ gidx g s0 < List.length (g_demes g) /\
                    gidx g s0 <> gidx g (p_dst p)
  | DP_deme d => deme_good g d
  end.

Lemma steps_at_b g D : D = List.length (g_demes g) -> forall l c (mr gr : list (@num NumQ)),
  (forall x, In x l -> dp_good g x) -> RInv D c mr gr ->
  exists c', RInv D c' (fst (fold_left mrow (sj_evs g c l) (mr, c))) (fold_left (fun r x => g_row g x r) l gr).
Proof.
  intro HD. induction l as [|x l IH]; intros c mr gr Hg HI.
  - cbn. eauto.
  - cbn [sj_evs fold_left]. rewrite fold_left_app.
    assert (RInv D (c + dp_w x) (fst (fold_left mrow (dp_evs g c x) (mr, c))) (g_row g x gr) /\
            snd (fold_left mrow (dp_evs g c x) (mr, c)) = c + dp_w x) as [HI1 Hc1].
    { specialize (Hg x (or_introl eq_refl)). destruct x as [d|p]; cbn [dp_good dp_evs g_row dp_w] in *.
      - now apply deme_step.
      - destruct Hg as (s0 & p0 & Es & Ep & F0 & Hd & Hs & Hne).
        replace (c + 1) with (S c) by lia. subst D. eapply pulse_step; eauto. }
    destruct (fold_left mrow (dp_evs g c x) (mr, c)) as [mr1 c1]. cbn [fst snd] in *. subst c1.
    apply IH; [|exact HI1]. intros y Hy. apply Hg. now right.
Qed.

(* every deme with ancestors has proportions whose exact sum is 1.  gmoves hands the fraction p_k of
   the deme's lineages to ancestor k as it stands, to_ms renormalises (ancestor k receives
   p_k / (p_1 + ... + p_m), the last -ej moves whatever is left); validity only asks for a sum
   close to 1 (math.isclose), and then the two differ by exactly that factor — also for a deme
   with one ancestor and a proportion like 1 - 1e-10. *)
Definition ExactProps (g : @graph NumQ) : Prop :=
  forall d, In d (g_demes g) -> d_anc d <> [] -> (qsum (map qv (d_props d)) == 1)%Q.
(* only the demes that start at b matter *)
Definition ExactPropsAt (g : @graph NumQ) (b : @num NumQ) : Prop :=
  forall d, In d (g_demes g) -> neqb (d_start d) b = true -> d_anc d <> [] ->
    (qsum (map qv (d_props d)) == 1)%Q.

Lemma unit_lo_fin (p : @num NumQ) : in_unit_lo p -> fin p /\ (0 < qv p)%Q.
Proof.
  intros [H1 H2]. destruct p as [q i| | |]; cbn in H1, H2; try discriminate.
  split; [exact Logic.I|]. apply Qlt_bool_true. exact H1.
Qed.

Lemma dp_good_of g (b : @num NumQ) x :
  Valid g -> ExactPropsAt g b -> ok b -> nisinf b = false ->
  In x (the_dps g) -> names_ok g x -> dp_atb b x = true -> dp_good g x.
Proof.
  intros V EP Ob Fb Hx Hn Hb. apply the_dps_in in Hx. apply in_app_or in Hx.
  destruct Hx as [Hx|Hx]; apply in_map_iff in Hx; destruct Hx as (y & <- & Hy); cbn [dp_good].
  - apply in_rev in Hy. pose proof (v_pulses _ V y Hy) as VP.
    destruct Hn as (s0 & Es & Hd & Hs). 
    pose proof (vp_props_len _ _ VP) as Hl. rewrite Es in Hl.
    destruct (p_props y) as [|p0 [|p1 rest]] eqn:Ep; try discriminate.
    exists s0, p0. split; [exact Es|]. split; [reflexivity|].
    split; [apply unit_lo_fin; apply (vp_props _ _ VP); rewrite Ep; now left|].
    split; [exact Hd|]. split; [exact Hs|].
    intro E. apply (gidx_inj g _ _ Hs) in E. apply (vp_not_dest _ _ VP). rewrite Es, E. now left.
  - destruct (ValidDemes_in _ _ _ (v_demes _ V) Hy) as [e' Vd].
    destruct Hn as [Hk Hanc]. unfold dp_atb in Hb. cbn [dp_time] in Hb.
    assert (d_anc y <> []) as Hne.
    { intro E. apply (vd_root _ _ Vd) in E. nord. }
    assert (forall a, In a (d_anc y) -> gidx g a < List.length (g_demes g)) as Hanc'
      by (apply Forall_forall; exact Hanc).
    split; [exact (vd_props_len _ _ Vd)|]. split; [exact Hne|]. split.
    { apply NoDup_map_on; [exact (vd_anc_nodup _ _ Vd)|].
      intros u v Hu Hv E. eapply gidx_inj; eauto. }
    split.
    { intro Hin. apply in_map_iff in Hin. destruct Hin as (a & E & Ha).
      apply (gidx_inj g _ _ (Hanc' a Ha)) in E.
      eapply ValidDemes_anc_ne; [exact (v_demes _ V)|exact Hy|exact Ha|exact E]. }
    split; [exact Hk|]. split; [exact Hanc|]. split.
    { apply Forall_forall. intros p Hp. apply unit_lo_fin. now apply (vd_props _ _ Vd). }
    apply EP; [exact Hy|exact Hb|exact Hne].
Qed.

(* In exact arithmetic, for the command to_ms emits (times in generations, before the final
   division by 4*N0) and any finite time b: the lineage-movement matrix of the ms semantics at b,
   restricted to the populations of the demes, is numerically the matrix of the graph — whatever
   pulses and deme starts coincide at b — and in those rows every population created by an -es
   (before b or at b) holds nothing. *)
Theorem to_ms_moves_at g0 g N0 n evs (b : @num NumQ) (Pm : list (list (@num NumQ))) :
  in_generations g0 = Ok g -> Valid g -> ExactPropsAt g b ->
  to_ms_unscaled g0 N0 = Ok (n, evs) ->
  ok b -> nisinf b = false ->
  ms_moves (fun x y => neqb x y) (mkCmd n true n0 [] evs) b = Ok Pm ->
  n = List.length (g_demes g) /\
  forall i, i < List.length (g_demes g) ->
    (forall j, j < List.length (g_demes g) ->
       qx_eqb (nth j (nth i Pm []) nf0) (nth j (nth i (gmoves (fun x y => neqb x y) g b) []) nf0) = true) /\
    (forall j, List.length (g_demes g) <= j -> j < List.length (nth i Pm []) ->
       qx_eqb (nth j (nth i Pm []) nf0) nf0 = true).
Proof.
  intros Hg V EP Hms Ob Fb HPm.
  destruct (to_ms_sj g0 g N0 n evs b Hg V Hms Ob) as (Hn & Hsort & Hact & Hcnt & Hnames).
  split; [exact Hn|]. intros i Hi.
  set (D := List.length (g_demes g)) in *.
  pose proof (ms_moves_rows n evs b Pm Hsort HPm) as HR. cbv zeta in HR.
  set (c0 := n + List.length (filter (fun e => ltb b e && isS e) evs)) in *.
  destruct (HR i) as (row0 & L0 & N0' & ER); [lia|]. clear HR.
  assert (filter (act b) evs = sj_evs g c0 (dps_at g b)) as Eacts.
  { unfold act. rewrite Hact.
    rewrite (sj_at_b g b Ob (the_dps g) n (the_dps_sorted g V)
               (fun x Hx => the_dps_ok g x V Hx) (fun x Hx => the_dps_shape g x V Hx)).
    rewrite <- Hcnt. fold c0. now rewrite dps_at_sorted. }
  rewrite Eacts in ER.
  rewrite gmoves_rows.
  rewrite (nth_map_lt _ _ []) by (rewrite mapi_length; exact Hi).
  rewrite (nth_mapi _ _ (nth 0 (g_demes g) (mkDeme "" "" n0 [] [] []))) by exact Hi. cbn [Nat.add].
  set (grow0 := mapi 0 (fun j (_ : deme) => if Nat.eqb i j then nf1 else nf0) (g_demes g)).
  assert (RInv D c0 row0 grow0) as HI.
  { assert (forall j, j < D -> nth j grow0 nf0 = if Nat.eqb i j then nf1 else nf0) as NG.
    { intros j Hj. unfold grow0.
      now rewrite (nth_mapi _ _ (nth 0 (g_demes g) (mkDeme "" "" n0 [] [] []))) by exact Hj. }
    split; [unfold grow0; now rewrite mapi_length|]. split; [exact L0|]. split; [lia|].
    split.
    { apply Forall_nth. intros j d Hj.
      assert (j < c0) as Hj' by (cbn [num NumQ] in *; lia).
      rewrite (nth_indep _ d (@nf0 NumQ) Hj), N0' by exact Hj'.
      destruct (Nat.eqb i j); exact Logic.I. }
    split.
    { apply Forall_nth. intros j d Hj.
      assert (j < D) as Hj' by (unfold grow0 in Hj; now rewrite mapi_length in Hj).
      rewrite (nth_indep _ d (@nf0 NumQ) Hj), NG by exact Hj'. destruct (Nat.eqb i j); exact Logic.I. }
    split.
    - intros j Hj. change (QF 0 false) with (@nf0 NumQ). rewrite N0', NG by lia. reflexivity.
    - intros j Hj. destruct (Nat.lt_ge_cases j c0) as [Hjc|Hjc].
      + change (QF 0 false) with (@nf0 NumQ). rewrite N0' by exact Hjc.
        destruct (Nat.eqb_spec i j); [lia|reflexivity].
      + rewrite nth_overflow by (cbn [num NumQ] in *; lia). reflexivity. }
  destruct (steps_at_b g D eq_refl (dps_at g b) c0 row0 grow0) as (c' & HI'); [|exact HI|].
  { intros x Hx. rewrite <- (dps_at_sorted g b V Ob) in Hx. apply filter_In in Hx. destruct Hx as [Hx Hb].
    apply (dp_good_of g b x V EP Ob Fb Hx (Hnames x Hx) Hb). }
  rewrite <- ER in HI'.
  destruct HI' as (Lg & Lm & Hc & Fm & Fg & Hlo & Hhi).
  split.
  - intros j Hj. apply fin_eqb; [apply fin_nth; exact Fm|apply fin_nth; exact Fg|now apply Hlo].
  - intros j Hj1 Hj2. apply fin_eqb; [apply fin_nth; exact Fm|exact Logic.I|now apply Hhi].
Qed.

Theorem to_ms_moves g0 g N0 n evs (b : @num NumQ) (Pm : list (list (@num NumQ))) :
  in_generations g0 = Ok g -> Valid g -> ExactProps g ->
  to_ms_unscaled g0 N0 = Ok (n, evs) ->
  ok b -> nisinf b = false ->
  ms_moves (fun x y => neqb x y) (mkCmd n true n0 [] evs) b = Ok Pm ->
  n = List.length (g_demes g) /\
  forall i, i < List.length (g_demes g) ->
    (forall j, j < List.length (g_demes g) ->
       qx_eqb (nth j (nth i Pm []) nf0) (nth j (nth i (gmoves (fun x y => neqb x y) g b) []) nf0) = true) /\
    (forall j, List.length (g_demes g) <= j -> j < List.length (nth i Pm []) ->
       qx_eqb (nth j (nth i Pm []) nf0) nf0 = true).
Proof.
  intros Hg V EP. apply to_ms_moves_at; auto. intros d Hd _ Hne. now apply EP.
Qed.

Print Assumptions to_ms_moves_at.
Print Assumptions to_ms_moves.

Print Assumptions to_ms_moves_at.
Print Assumptions to_ms_moves.
