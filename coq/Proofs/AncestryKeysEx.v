(* Non-vacuity for Proofs/AncestryKeys.v: the example graph of Proofs/Examples.v (three
   demes, C an admixture of A and B) meets the hypothesis AncOK, its views are the
   non-trivial maps below, and the lookup theorems apply to every one of its demes. *)
From Coq Require Import Bool List String QArith.
From Demes Require Import Base.Num Base.NumQ Base.Py Model.MDM Model.Ancestry Spec.Valid
  Proofs.AncestryProofs Proofs.AncestryKeys Proofs.Examples.
Import ListNotations.
Local Open Scope string_scope.
Local Open Scope list_scope.

Example ex_anc_ok : AncOK ex_graph.
Proof. exact (valid_anc_ok ex_graph ex_valid). Qed.

Example ex_views :
  predecessors ex_graph = [("A", []); ("B", ["A"]); ("C", ["A"; "B"])] /\
  successors ex_graph = [("A", ["B"; "C"]); ("B", ["C"]); ("C", [])].
Proof. split; vm_compute; reflexivity. Qed.

Example ex_keys :
  map fst (predecessors ex_graph) = ["A"; "B"; "C"] /\ map fst (successors ex_graph) = ["A"; "B"; "C"].
Proof.
  rewrite (pred_keys ex_graph ex_anc_ok), (succ_keys ex_graph ex_anc_ok). split; vm_compute; reflexivity.
Qed.

Example ex_pred_lookup_all :
  forall d, In d (g_demes ex_graph) -> assoc (d_name d) (predecessors ex_graph) = Some (d_anc d).
Proof. intros d Hd. exact (pred_lookup ex_graph d ex_anc_ok Hd). Qed.

Print Assumptions ex_anc_ok.
Print Assumptions ex_views.
Print Assumptions ex_keys.
Print Assumptions ex_pred_lookup_all.
