(* Model-side counterparts of the whole function bodies that xlate/pyxlate.py translates from the current
   source (coq/Gen/SrcFuns.v, tied in coq/Gen/FunTie.v), where the model has no function of that name because
   it inlines the code: the attrs post-init checks of Epoch, AsymmetricMigration and Pulse.  The lemmas show that the
   model's builders run exactly these checks on the record they return.  Also the loop combinators the translator
   emits (forM2_ for `for x, y in zip(xs, ys)`) with the lemmas the tie tactic uses to bring loops of assertions to
   the forallb / forall2b form of Model/Close.v, and extensionality of the loop combinators (a respelt loop body). *)
From Coq Require Import Bool List String Arith.
From Demes Require Import Base.Num Base.Py Model.MDM Model.Close Model.Resolve Model.Rename Model.Ancestry Spec.Valid Proofs.ResolveInv.
Import ListNotations.
Local Open Scope string_scope.
Local Open Scope list_scope.

(* xs[0] *)
Definition phead {A} (l : list A) : res A :=
  match l with x :: _ => Ok x | [] => Err IndexErr end.

(* xs[-1] *)
Definition plast {A} (l : list A) : res A := phead (rev l).

(* for x, y in zip(xs, ys): body      (zip stops at the shorter list) *)
Fixpoint forM2_ {A B} (f : A -> B -> res unit) (l1 : list A) (l2 : list B) : res unit :=
  match l1, l2 with
  | x :: l1', y :: l2' => f x y ;;; forM2_ f l1' l2'
  | _, _ => Ok tt
  end.

(* a loop whose body is one assertion fails exactly when the assertion fails on some element *)
Lemma forM_assert {A} (c : A -> bool) l :
  forM_ (fun x => if c x then Ok tt else Err AssertErr) l = if forallb c l then Ok tt else Err AssertErr.
Proof.
  induction l as [|a l IH]; cbn; [reflexivity|].
  destruct (c a); cbn; [exact IH|reflexivity].
Qed.

Lemma forM2_assert {A B} (c : A -> B -> bool) l1 l2 :
  forM2_ (fun x y => if c x y then Ok tt else Err AssertErr) l1 l2
  = if forall2b c l1 l2 then Ok tt else Err AssertErr.
Proof.
  revert l2. induction l1 as [|a l1 IH]; intros [|b l2]; cbn; try reflexivity.
  destruct (c a b); cbn; [apply IH|reflexivity].
Qed.

(* respelt loop bodies *)
Lemma forall2b_ext {A B} (f g : A -> B -> bool) l1 l2 :
  (forall x y, f x y = g x y) -> forall2b f l1 l2 = forall2b g l1 l2.
Proof.
  intro E. revert l2. induction l1 as [|a l1 IH]; intros [|b l2]; cbn; try reflexivity.
  rewrite E, IH. reflexivity.
Qed.

Lemma forallb_ext_all {A} (f g : A -> bool) l : (forall x, f x = g x) -> forallb f l = forallb g l.
Proof. intro E. induction l as [|a l IH]; cbn; [reflexivity|]. rewrite E, IH. reflexivity. Qed.

Lemma forM_ext_all {A} (f g : A -> res unit) l : (forall x, f x = g x) -> forM_ f l = forM_ g l.
Proof. intro E. induction l as [|a l IH]; cbn; [reflexivity|]. rewrite E, IH. reflexivity. Qed.

Lemma forM2_ext_all {A B} (f g : A -> B -> res unit) l1 l2 :
  (forall x y, f x y = g x y) -> forM2_ f l1 l2 = forM2_ g l1 l2.
Proof.
  intro E. revert l2. induction l1 as [|a l1 IH]; intros [|b l2]; cbn; try reflexivity.
  rewrite E, IH. reflexivity.
Qed.

Lemma forM_all_ok {A} (f : A -> res unit) l : (forall x, In x l -> f x = Ok tt) -> forM_ f l = Ok tt.
Proof.
  induction l as [|a l IH]; intro H; cbn; [reflexivity|].
  rewrite (H a (or_introl eq_refl)). cbn. apply IH. intros x Hx. apply H. now right.
Qed.

(* `k in d` on a Python dict modelled as an insertion-ordered association list (Model/MDM.v assoc: first binding wins;
   a dict has unique keys, so the list stands for the dict's items in insertion order) *)
Definition mem_key {A} (k : string) (d : list (string * A)) : bool :=
  match assoc k d with Some _ => true | None => false end.

(* `d[k] if k in d else x`, which the translator spells `match assoc k d with Some v => v | None => x end`, is this *)
Lemma mem_key_assoc {A} k (d : list (string * A)) (x : A) :
  match assoc k d with Some v => v | None => x end
  = if mem_key k d then match assoc k d with Some v => v | None => x end else x.
Proof. unfold mem_key. destruct (assoc k d); reflexivity. Qed.

(* an update loop whose body raises nothing is a map *)
Lemma mapM_pure {A B} (f : A -> B) l : mapM (fun x => Ok (f x)) l = Ok (map f l).
Proof. induction l as [|a l IH]; cbn; [reflexivity|]. rewrite IH. reflexivity. Qed.

(* a statement that returns None, followed by falling off the end of the loop body *)
Lemma bind_unit_ret (m : res unit) : (m ;;; Ok tt) = m.
Proof. destruct m as [[]|e]; reflexivity. Qed.

(* valid_deme_name(self, attribute, value) (demes/demes.py), which the model inlines where it validates a name
   (Model/Resolve.v deme_name_of, Model/Rename.v rename_demes) *)
Definition valid_deme_name (value : string) : res unit := raise_if (negb (is_identifier value)) ValueErr.

(* ---- accumulation into a local dict of lists (Graph.successors / Graph.predecessors) ----
   `d[k].append(x)` raises KeyError when k is not a key of d, where the model's append_to (Model/Ancestry.v) returns d
   unchanged: the translator spells the statement dict_append, which keeps the KeyError, and the tie has to prove the
   key present (it is, because of a preceding setdefault) before it can pass to append_to. *)
Definition dict_append (k x : string) (d : ndict) : res ndict :=
  if mem_key k d then Ok (append_to k x d) else Err KeyErr.

Lemma dict_append_ok k x d : mem_key k d = true -> dict_append k x d = Ok (append_to k x d).
Proof. intro H. unfold dict_append. rewrite H. reflexivity. Qed.

Lemma mem_key_app {A} k (d1 d2 : list (string * A)) : mem_key k (d1 ++ d2) = mem_key k d1 || mem_key k d2.
Proof.
  unfold mem_key. induction d1 as [|[k' v] d1 IH]; cbn; [destruct (assoc k d2); reflexivity|].
  destruct (String.eqb k k'); [reflexivity|exact IH].
Qed.

Lemma mem_key_setdefault k (d : ndict) : mem_key k (setdefault k d) = true.
Proof.
  unfold setdefault. destruct (assoc k d) eqn:E; [unfold mem_key; rewrite E; reflexivity|].
  rewrite mem_key_app. unfold mem_key at 2. cbn. rewrite String.eqb_refl. apply orb_true_r.
Qed.

Lemma mem_key_setdefault_mono k k' (d : ndict) : mem_key k d = true -> mem_key k (setdefault k' d) = true.
Proof.
  intro H. unfold setdefault. destruct (assoc k' d); [exact H|]. rewrite mem_key_app, H. reflexivity.
Qed.

Lemma mem_key_append_to k k' x (d : ndict) : mem_key k d = true -> mem_key k (append_to k' x d) = true.
Proof.
  unfold mem_key. induction d as [|[k'' v] d IH]; cbn; [auto|].
  destruct (String.eqb k' k''); cbn; destruct (String.eqb k k''); auto.
Qed.

(* x <- m ;; return x *)
Lemma bind_ret {A} (m : res A) : (v <- m ;; Ok v) = m.
Proof. destruct m; reflexivity. Qed.

(* a loop threading a state whose body raises nothing, as long as an invariant of the state holds, is a left fold *)
Lemma foldM_inv {A S} (P : S -> Prop) (f : S -> A -> res S) (g : S -> A -> S) :
  (forall s x, P s -> f s x = Ok (g s x) /\ P (g s x)) ->
  forall l s, P s -> foldM f l s = Ok (fold_left g l s).
Proof.
  intro H. induction l as [|a l IH]; intros s Hs; cbn; [reflexivity|].
  destruct (H s a Hs) as [E Hs']. rewrite E. cbn. apply IH. exact Hs'.
Qed.

Lemma foldM_pure {A S} (f : S -> A -> res S) (g : S -> A -> S) :
  (forall s x, f s x = Ok (g s x)) -> forall l s, foldM f l s = Ok (fold_left g l s).
Proof. intros H l s. apply (foldM_inv (fun _ => True)); [intros; split; [apply H|exact I]|exact I]. Qed.

Section FunSites.
  Context {N : NumOps}.

  Lemma deme_name_of_valid v : deme_name_of v = (s <- str_of v ;; valid_deme_name s ;;; Ok s).
  Proof. reflexivity. Qed.

  (* the model of Graph.rename_demes validates the names with the same validator, deme by deme *)
  Lemma rename_demes_valid names g :
    rename_demes names g =
      (forM_ (fun d => valid_deme_name (d_name d)) (g_demes (rename_core names g)) ;;;
       raise_if (negb (Nat.eqb (List.length (g_index (rename_core names g))) (List.length (g_demes (rename_core names g))))) ValueErr ;;;
       Ok (rename_core names g)).
  Proof. reflexivity. Qed.

  (* Epoch.__attrs_post_init__ *)
  Definition epoch_post_init (e : epoch) : res unit :=
    if nle (e_start e) (e_end e) then Err ValueErr
    else if nisinf (e_start e) && nneq (e_ssize e) (e_esize e) then Err ValueErr
    else if String.eqb (e_sf e) "constant" && nneq (e_ssize e) (e_esize e) then Err ValueErr
    else Ok tt.

  (* AsymmetricMigration.__attrs_post_init__ *)
  Definition mig_post_init (m : mig) : res unit :=
    if String.eqb (m_src m) (m_dst m) then Err ValueErr
    else if negb (ngt (m_start m) (m_end m)) then Err ValueErr
    else Ok tt.

  (* Pulse.__attrs_post_init__, in the code's own order; xs.count(x) is count_occ *)
  Definition pulse_post_init (p : pulse) : res unit :=
    forM_ (fun source =>
             if String.eqb source (p_dst p) then Err ValueErr
             else if negb (Nat.eqb (count_occ string_dec (p_srcs p) source) 1) then Err ValueErr
             else Ok tt) (p_srcs p) ;;;
    if negb (Nat.eqb (List.length (p_srcs p)) (List.length (p_props p))) then Err ValueErr
    else if ngt (pysum (p_props p)) n1 then Err ValueErr
    else Ok tt.

  (* every epoch the model builds has passed the post-init checks, and conversely an epoch whose fields pass the
     field validators is built exactly when the post-init checks pass *)
  Lemma make_epoch_post_init start en ss es sf sr cr e :
    make_epoch start en ss es sf sr cr = Ok e -> epoch_post_init e = Ok tt.
  Proof.
    intro H. unfold make_epoch in H.
    mbind H u0 Hnn.
    mbind H en' Hen. mbind H u1 Hen1. mbind H u2 Hen2.
    mbind H ss' Hss. mbind H u3 Hss1. mbind H u4 Hss2.
    mbind H es' Hes. mbind H u5 Hes1. mbind H u6 Hes2.
    mbind H sf' Hsf.
    mbind H sr' Hsr. mbind H u7 Hsr1.
    mbind H cr' Hcr. mbind H u8 Hcr1.
    mraise H Hord. mraise H Hinf. mraise H Hconst.
    injection H as <-. unfold epoch_post_init; cbn.
    rewrite Hord, Hinf, Hconst. reflexivity.
  Qed.

  Lemma make_epoch_rejected_by_post_init start en ss es sf sr cr en' ss' es' sf' sr' cr' :
    non_negative start = Ok tt ->
    int_or_float en = Ok en' -> non_negative en' = Ok tt -> finite en' = Ok tt ->
    int_or_float ss = Ok ss' -> positive ss' = Ok tt -> finite ss' = Ok tt ->
    int_or_float es = Ok es' -> positive es' = Ok tt -> finite es' = Ok tt ->
    (match sf with
     | None => Ok (if neqb ss' es' then "constant" else "exponential")
     | Some (JStr s) => raise_if (negb (mem s size_functions)) ValueErr ;;; Ok s
     | Some _ => Err ValueErr
     end) = Ok sf' ->
    int_or_float sr = Ok sr' -> unit_interval sr' = Ok tt ->
    int_or_float cr = Ok cr' -> unit_interval cr' = Ok tt ->
    make_epoch start en ss es sf sr cr =
      (epoch_post_init (mkEpoch start en' ss' es' sf' sr' cr') ;;; Ok (mkEpoch start en' ss' es' sf' sr' cr')).
  Proof.
    intros H0 H1 H2 H3 H4 H5 H6 H7 H8 H9 H10 H11 H12 H13 H14.
    unfold make_epoch.
    rewrite H0; cbn [bind]. rewrite H1; cbn [bind]. rewrite H2, H3; cbn [bind].
    rewrite H4; cbn [bind]. rewrite H5, H6; cbn [bind]. rewrite H7; cbn [bind]. rewrite H8, H9; cbn [bind].
    rewrite H10; cbn [bind]. rewrite H11; cbn [bind]. rewrite H12; cbn [bind]. rewrite H13; cbn [bind].
    rewrite H14; cbn [bind].
    unfold epoch_post_init, raise_if; cbn.
    destruct (nle start en'); [reflexivity|].
    destruct (nisinf start && nneq ss' es'); [reflexivity|].
    destruct (String.eqb sf' "constant" && nneq ss' es'); reflexivity.
  Qed.

  (* every migration the model appends has passed the post-init checks *)
  Lemma add_asym_post_init g src dst rate start en g' :
    add_asym g src dst rate start en = Ok g' ->
    exists m, g_migs g' = g_migs g ++ [m] /\ mig_post_init m = Ok tt.
  Proof.
    intro H. unfold add_asym in H.
    mbind H u0 Hc. mbind H s Hs. mbind H d Hd. mbind H lh Hlh. destruct lh as [lo hi].
    cbv beta iota in H.
    mbind H stv Hstv. mbind H env Henv. mbind H s' Hs'. mbind H d' Hd'.
    mbind H st Hst. mbind H u1 Hst1. mbind H en' Hen. mbind H u2 Hen1. mbind H u3 Hen2.
    mbind H r Hr. mbind H u4 Hr1. mraise H Hdist. mraise H Hord. mraise H Hov.
    injection H as <-. cbn.
    eexists; split; [reflexivity|]. unfold mig_post_init; cbn. rewrite Hdist, Hord. reflexivity.
  Qed.

  (* every pulse the model appends has passed the post-init checks.  The model makes the two per-source checks in
     aggregate form (dest not among the sources; the sources without duplicates), the code makes them source by
     source (source == dest; sources.count(source) != 1): the first implies the second *)
  Lemma add_pulse_post_init g sources dest time props g' :
    add_pulse g sources dest time props = Ok g' ->
    exists p, g_pulses g' = g_pulses g ++ [p] /\ pulse_post_init p = Ok tt.
  Proof.
    intro H. unfold add_pulse in H.
    mbind H srcl Hsrcl. mbind H u0 Hc. mbind H d Hd. mbind H srcs Hsrcs.
    mbind H u1 Hti. mraise H Htn. mbind H dd Hdd. mbind H de' Hde. mbind H t0 Ht0.
    mraise H Hneq. mbind H u2 Hsts. mbind H sn Hsn. mraise H Hsn0. mbind H dn Hdn.
    mbind H t Ht. mbind H u3 Hpos. mbind H u4 Hfin. mbind H prs Hprs.
    mraise H Hmem. mraise H Hnd. mraise H Hlen. mraise H Hsum. injection H as <-. cbn.
    eexists; split; [reflexivity|]. unfold pulse_post_init; cbn [p_srcs p_dst p_props].
    rewrite forM_all_ok.
    - cbn [bind]. rewrite Hlen, Hsum. reflexivity.
    - intros s Hs.
      assert (String.eqb s dn = false) as ->.
      { destruct (String.eqb s dn) eqn:E; [|reflexivity]. apply String.eqb_eq in E. subst s.
        exfalso. exact (mem_not_in _ _ Hmem Hs). }
      apply negb_false_iff in Hnd. apply nodupb_spec in Hnd.
      rewrite (proj1 (NoDup_count_occ' string_dec sn) Hnd s Hs). reflexivity.
  Qed.
End FunSites.
