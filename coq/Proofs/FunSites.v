(* Model-side counterparts of the whole function bodies that xlate/pyxlate.py translates from the current
   source (coq/Gen/SrcFuns.v, tied in coq/Gen/FunTie.v), where the model has no function of that name because
   it inlines the code: the attrs post-init checks of Epoch and AsymmetricMigration.  The lemmas show that the
   model's builders run exactly these checks on the record they return. *)
From Coq Require Import Bool List String.
From Demes Require Import Base.Num Base.Py Model.MDM Model.Resolve Proofs.ResolveInv.
Import ListNotations.
Local Open Scope string_scope.
Local Open Scope list_scope.

(* xs[0] *)
Definition phead {A} (l : list A) : res A :=
  match l with x :: _ => Ok x | [] => Err IndexErr end.

(* xs[-1] *)
Definition plast {A} (l : list A) : res A := phead (rev l).

Section FunSites.
  Context {N : NumOps}.

  (* Epoch.__attrs_post_init__ *)
  Definition epoch_post_init (e : epoch) : res unit :=
    if nle (e_start e) (e_end e) then Err ValueErr
    else if nisinf (e_start e) && nneq (e_ssize e) (e_esize e) then Err ValueErr
    else if String.eqb (e_sf e) "constant" && nneq (e_ssize e) (e_esize e) then Err ValueErr
    else Ok tt.

  (* AsymmetricMigration.__attrs_post_init__ *)
  Definition mig_post_init (m : mig) : res unit :=
    if String.eqb (m_src m) (m_dst m) then Err ValueErr
    else if negb (ngt (m_start m) (m_end m)) then Err ValueErr
    else Ok tt.

  (* every epoch the model builds has passed the post-init checks, and conversely an epoch whose fields pass the
     field validators is built exactly when the post-init checks pass *)
  Lemma make_epoch_post_init start en ss es sf sr cr e :
    make_epoch start en ss es sf sr cr = Ok e -> epoch_post_init e = Ok tt.
  Proof.
    intro H. unfold make_epoch in H.
    mbind H u0 Hnn.
    mbind H en' Hen. mbind H u1 Hen1. mbind H u2 Hen2.
    mbind H ss' Hss. mbind H u3 Hss1. mbind H u4 Hss2.
    mbind H es' Hes. mbind H u5 Hes1. mbind H u6 Hes2.
    mbind H sf' Hsf.
    mbind H sr' Hsr. mbind H u7 Hsr1.
    mbind H cr' Hcr. mbind H u8 Hcr1.
    mraise H Hord. mraise H Hinf. mraise H Hconst.
    injection H as <-. unfold epoch_post_init; cbn.
    rewrite Hord, Hinf, Hconst. reflexivity.
  Qed.

  Lemma make_epoch_rejected_by_post_init start en ss es sf sr cr en' ss' es' sf' sr' cr' :
    non_negative start = Ok tt ->
    int_or_float en = Ok en' -> non_negative en' = Ok tt -> finite en' = Ok tt ->
    int_or_float ss = Ok ss' -> positive ss' = Ok tt -> finite ss' = Ok tt ->
    int_or_float es = Ok es' -> positive es' = Ok tt -> finite es' = Ok tt ->
    (match sf with
     | None => Ok (if neqb ss' es' then "constant" else "exponential")
     | Some (JStr s) => raise_if (negb (mem s size_functions)) ValueErr ;;; Ok s
     | Some _ => Err ValueErr
     end) = Ok sf' ->
    int_or_float sr = Ok sr' -> unit_interval sr' = Ok tt ->
    int_or_float cr = Ok cr' -> unit_interval cr' = Ok tt ->
    make_epoch start en ss es sf sr cr =
      (epoch_post_init (mkEpoch start en' ss' es' sf' sr' cr') ;;; Ok (mkEpoch start en' ss' es' sf' sr' cr')).
  Proof.
    intros H0 H1 H2 H3 H4 H5 H6 H7 H8 H9 H10 H11 H12 H13 H14.
    unfold make_epoch.
    rewrite H0; cbn [bind]. rewrite H1; cbn [bind]. rewrite H2, H3; cbn [bind].
    rewrite H4; cbn [bind]. rewrite H5, H6; cbn [bind]. rewrite H7; cbn [bind]. rewrite H8, H9; cbn [bind].
    rewrite H10; cbn [bind]. rewrite H11; cbn [bind]. rewrite H12; cbn [bind]. rewrite H13; cbn [bind].
    rewrite H14; cbn [bind].
    unfold epoch_post_init, raise_if; cbn.
    destruct (nle start en'); [reflexivity|].
    destruct (nisinf start && nneq ss' es'); [reflexivity|].
    destruct (String.eqb sf' "constant" && nneq ss' es'); reflexivity.
  Qed.

  (* every migration the model appends has passed the post-init checks *)
  Lemma add_asym_post_init g src dst rate start en g' :
    add_asym g src dst rate start en = Ok g' ->
    exists m, g_migs g' = g_migs g ++ [m] /\ mig_post_init m = Ok tt.
  Proof.
    intro H. unfold add_asym in H.
    mbind H u0 Hc. mbind H s Hs. mbind H d Hd. mbind H lh Hlh. destruct lh as [lo hi].
    cbv beta iota in H.
    mbind H stv Hstv. mbind H env Henv. mbind H s' Hs'. mbind H d' Hd'.
    mbind H st Hst. mbind H u1 Hst1. mbind H en' Hen. mbind H u2 Hen1. mbind H u3 Hen2.
    mbind H r Hr. mbind H u4 Hr1. mraise H Hdist. mraise H Hord. mraise H Hov.
    injection H as <-. cbn.
    eexists; split; [reflexivity|]. unfold mig_post_init; cbn. rewrite Hdist, Hord. reflexivity.
  Qed.
End FunSites.
