(* DivOk for IEEE binary64 (instance NumF): x / y for x finite (not NaN, not +-inf) and y not NaN
   and not == 0 (y may be +-inf: the quotient is then a signed zero) is never NaN; and the
   instantiation of OkEv_of_valid (Proofs/FromMsGrowth.v) at NumF.  In NumF a num is just a
   primitive float (nisint is constantly false, n0 = nf0 = 0.0), so no int-embedding case. *)
From Coq Require Import QArith Qabs Lqa Bool ZArith Reals Qreals List.
From Coq Require Import Floats.
From Flocq Require Import Core IEEE754.BinarySingleNaN.
From Flocq Require IEEE754.PrimFloat.
From Demes Require Import Base.Num Base.NumQ Base.NumF Base.Py Model.MsOpt Model.FromMs Spec.MsSem.
From Demes Require Import Proofs.NumFArith Proofs.FromMsGrowth Proofs.DivOkQ.

Local Existing Instance FP.Hprec.
Local Existing Instance FP.Hmax.

Local Notation bf := (binary_float prec emax).

(* a finite float divided by a non-NaN float that is not == 0 is not NaN *)
Lemma Bdiv_fin_not_nan (x y : bf) :
  is_nan x = false -> match x with B754_infinity _ => true | _ => false end = false ->
  is_nan y = false -> Beqb y (B754_zero false) = false ->
  is_nan (Bdiv mode_NE x y) = false.
Proof.
  intros Nx Ix Ny Zy.
  destruct (is_finite y) eqn:Fy.
  - apply Bdiv_not_nan; assumption.
  - destruct y as [sy|sy| |sy my ey Hy]; try discriminate Fy; try discriminate Ny.
    destruct x as [sx|sx| |sx mx ex Hx]; try discriminate Nx; try discriminate Ix; reflexivity.
Qed.

Theorem divok_F : @DivOk NumF.
Proof.
  intros a b Ha Ia Hb Zb. unfold ok in *.
  cbn [num nisnan nisinf ndiv neqb n0 NumF] in *.
  rewrite FP.is_nan_equiv in *. rewrite FP.div_equiv.
  rewrite FP.is_infinity_equiv in Ia.
  rewrite FP.eqb_equiv, FP.zero_equiv, FP.Prim2B_B2Prim in Zb.
  apply Bdiv_fin_not_nan; assumption.
Qed.

Theorem OkEv_of_valid_F : forall (N0 : @num NumF) e,
  ok (nmul n4 N0) -> neqb (nmul n4 N0) n0 = false ->
  OkEv0 e -> valid_ev e = Ok tt -> OkEv N0 e.
Proof.
  intros N0 e. apply OkEv_of_valid. exact divok_F.
Qed.

(* Non-vacuity / boundary cases, evaluated: finite / inf is a signed zero, overflow to inf is a
   number, and the hypotheses are needed (inf / inf is NaN; 0 / -0.0 is NaN). *)
Example divok_F_ex1 : ok (ndiv (1.5)%float (nmul n4 1000%float)).
Proof. apply divok_F; vm_compute; reflexivity. Qed.
Example divok_F_ex_inf : ndiv (1.5)%float (PrimFloat.neg_infinity) = (-0)%float.
Proof. vm_compute. reflexivity. Qed.
Example divok_F_ex_ovf : nisinf (ndiv (0x1p1000)%float (0x1p-1000)%float) = true
                         /\ nisnan (ndiv (0x1p1000)%float (0x1p-1000)%float) = false.
Proof. vm_compute. split; reflexivity. Qed.
Example divok_F_needs_fin : nisnan (ndiv (ninf : @num NumF) ninf) = true.
Proof. vm_compute. reflexivity. Qed.
Example divok_F_needs_nz : nisnan (ndiv (n0 : @num NumF) (-0)%float) = true.
Proof. vm_compute. reflexivity. Qed.

Print Assumptions divok_F.
Print Assumptions OkEv_of_valid_F.
