(* C13: Deme.size_at agrees with the epoch size functions at every time. *)
From Coq Require Import Bool List String QArith Lqa.
From Demes Require Import Base.Num Base.Py Model.MDM Model.SizeAt Spec.Valid.
Import ListNotations.
Local Open Scope string_scope.
Local Open Scope list_scope.

Section SizeAtProofs.
  Context {N : NumOps} {L : NumLaws N}.

  (* --- the final clamp  min(max(N, lo), hi)  of size_at --- *)
  Lemma nlt_irrefl x : nlt x x = false.
  Proof. destruct (nlt x x) eqn:E; [|reflexivity]. apply lt_true in E. destruct E as (_ & _ & E). lra. Qed.

  (* the end size passes through the clamp unchanged, whatever the numbers are *)
  Lemma clamp_esize e : clamp_size e (e_esize e) = e_esize e.
  Proof.
    unfold clamp_size, pymin, pymax.
    destruct (nlt (e_esize e) (e_ssize e)) eqn:A; destruct (nlt (e_ssize e) (e_esize e)) eqn:B;
      rewrite ?nlt_irrefl, ?A, ?B, ?nlt_irrefl; reflexivity.
  Qed.

  (* a value inside the range of the two sizes passes through the clamp unchanged *)
  Lemma clamp_id e x :
    nle (pymin (e_ssize e) (e_esize e)) x = true -> nle x (pymax (e_ssize e) (e_esize e)) = true ->
    clamp_size e x = x.
  Proof.
    intros H1 H2. unfold clamp_size.
    set (lo := pymin (e_ssize e) (e_esize e)) in *. set (hi := pymax (e_ssize e) (e_esize e)) in *.
    assert (nlt x lo = false) as A by nord.
    unfold pymax at 1. rewrite A. unfold pymin.
    assert (nlt hi x = false) as -> by nord. reflexivity.
  Qed.

  Definition EpochsOK (es : list epoch) : Prop := forall e, In e es -> ValidEpoch e.

  Lemma epochs_ok_tl e es : EpochsOK (e :: es) -> EpochsOK es.
  Proof. intros H x Hx. apply H. now right. Qed.

  (* Every epoch of a chain starting at s starts no later than s. *)
  Lemma chain_start_le s es :
    ok s -> Chain s es -> EpochsOK es ->
    forall e, In e es -> rk (e_start e) <= rk s /\ rk (e_end e) < rk s.
  Proof.
    revert s. induction es as [|e0 es IH]; intros s Hs Hc Hv e He; [destruct He|].
    cbn [Chain] in Hc. destruct Hc as [H0 Hc].
    pose proof (Hv e0 (or_introl eq_refl)) as V0.
    pose proof (ve_order _ V0) as Ho.
    destruct He as [<-|He].
    - nord.
    - assert (ok (e_end e0)) as Hoke by (apply lt_true in Ho; tauto).
      destruct (IH (e_end e0) Hoke Hc (epochs_ok_tl _ _ Hv) e He) as [A B].
      nord.
  Qed.

  Lemma find_none {A} (f : A -> bool) l :
    (forall x, In x l -> f x = false) -> find f l = None.
  Proof.
    induction l as [|a l IH]; intro H; [reflexivity|]. cbn.
    rewrite (H a (or_introl eq_refl)). apply IH. intros x Hx. apply H. now right.
  Qed.

  (* the epoch that owns t is found, whatever its position *)
  Lemma find_owner s es t e :
    ok s -> ok t -> Chain s es -> EpochsOK es ->
    In e es -> epoch_owns t e = true -> find (epoch_owns t) es = Some e.
  Proof.
    revert s. induction es as [|e0 es IH]; intros s Hs Ht Hc Hv He Ho; [destruct He|].
    cbn [Chain] in Hc. destruct Hc as [H0 Hc]. cbn [find].
    destruct He as [<-|He].
    - now rewrite Ho.
    - pose proof (Hv e0 (or_introl eq_refl)) as V0.
      pose proof (ve_order _ V0) as Hord.
      assert (ok (e_end e0)) as Hoke by (apply lt_true in Hord; tauto).
      destruct (chain_start_le _ _ Hoke Hc (epochs_ok_tl _ _ Hv) e He) as [A B].
      assert (epoch_owns t e0 = false) as ->.
      { unfold epoch_owns in *. apply andb_true_iff in Ho. destruct Ho as [O1 O2].
        apply andb_false_iff. right. nord. }
      apply (IH (e_end e0)); auto. eapply epochs_ok_tl; eauto.
  Qed.

  Lemma owner_unique s es t e1 e2 :
    ok s -> ok t -> Chain s es -> EpochsOK es ->
    In e1 es -> In e2 es -> epoch_owns t e1 = true -> epoch_owns t e2 = true -> e1 = e2.
  Proof.
    intros Hs Ht Hc Hv H1 H2 O1 O2.
    pose proof (find_owner _ _ _ _ Hs Ht Hc Hv H1 O1) as F1.
    pose proof (find_owner _ _ _ _ Hs Ht Hc Hv H2 O2) as F2. congruence.
  Qed.

  Definition last_end (es : list epoch) : res num :=
    match rev es with e :: _ => Ok (e_end e) | [] => Err IndexErr end.

  Lemma last_end_cons e0 e1 es : last_end (e0 :: e1 :: es) = last_end (e1 :: es).
  Proof.
    unfold last_end. cbn [rev]. destruct (rev es) as [|a l]; reflexivity.
  Qed.

  (* every epoch of a chain ends no earlier than the last one *)
  Lemma chain_end_ge s es x :
    Chain s es -> EpochsOK es ->
    last_end es = Ok x ->
    forall e, In e es -> rk x <= rk (e_end e).
  Proof.
    revert s. induction es as [|e0 es IH]; intros s Hc Hv Hx e He; [destruct He|].
    cbn [Chain] in Hc. destruct Hc as [H0 Hc].
    destruct es as [|e1 es'].
    - cbn in Hx. inversion Hx; subst. destruct He as [<-|[]]. lra.
    - assert (last_end (e1 :: es') = Ok x) as Hx' by (now rewrite <- last_end_cons with (e0:=e0)).
      pose proof (IH _ Hc (epochs_ok_tl _ _ Hv) Hx') as IH'.
      destruct He as [<-|He]; [|now apply IH'].
      pose proof (IH' e1 (or_introl eq_refl)) as A.
      cbn [Chain] in Hc. destruct Hc as [H1 _].
      pose proof (Hv e1 (or_intror (or_introl eq_refl))) as V1.
      pose proof (ve_order _ V1). nord.
  Qed.

  (* there is an owner for every time inside the lifetime *)
  Lemma owner_exists s es x t :
    ok s -> ok t -> es <> [] -> Chain s es -> EpochsOK es ->
    last_end es = Ok x ->
    rk t < rk s -> rk x <= rk t ->
    exists e, In e es /\ epoch_owns t e = true.
  Proof.
    revert s. induction es as [|e0 es IH]; intros s Hs Ht Hne Hc Hv Hx Hlt Hge; [congruence|].
    cbn [Chain] in Hc. destruct Hc as [H0 Hc].
    pose proof (Hv e0 (or_introl eq_refl)) as V0.
    pose proof (ve_order _ V0) as Hord.
    destruct (nle (e_end e0) t) eqn:E.
    - exists e0. split; [now left|]. unfold epoch_owns. apply andb_true_iff. split; nord.
    - destruct es as [|e1 es'].
      + cbn in Hx. inversion Hx; subst. exfalso.
        assert (ok (e_end e0)) by (apply lt_true in Hord; tauto). nord.
      + assert (last_end (e1 :: es') = Ok x) as Hx' by (now rewrite <- last_end_cons with (e0:=e0)).
        assert (ok (e_end e0)) as Hoke by (apply lt_true in Hord; tauto).
        assert (rk t < rk (e_end e0)) as Hlt' by nord.
        destruct (IH (e_end e0) Hoke Ht ltac:(discriminate) Hc (epochs_ok_tl _ _ Hv) Hx' Hlt' Hge)
          as (e & He & Ho).
        exists e. split; [now right|exact Ho].
  Qed.

  (* --- the deme-local part of validity that size_at depends on --- *)
  Record DemeOK (d : deme) : Prop := {
    dk_start : nlt n0 (d_start d) = true;
    dk_ne : d_epochs d <> [];
    dk_chain : Chain (d_start d) (d_epochs d);
    dk_epochs : EpochsOK (d_epochs d) }.

  Lemma valid_deme_ok earlier d : ValidDeme earlier d -> DemeOK d.
  Proof. intros []; constructor; assumption. Qed.

  Lemma ok_start d : DemeOK d -> ok (d_start d).
  Proof. intros [H _ _ _]. apply lt_true in H. tauto. Qed.

  (* 1. outside the lifetime, on the old side: start is exclusive *)
  Theorem size_before_start d t :
    DemeOK d -> ok t -> nle (d_start d) t = true ->
    (nisinf t && nisinf (d_start d) = false) ->
    size_at d t = Ok n0.
  Proof.
    intros D Ht Hle Hinf. unfold size_at. rewrite Hinf.
    rewrite find_none; [reflexivity|].
    intros e He. pose proof (ok_start _ D) as Hs.
    destruct (chain_start_le _ _ Hs (dk_chain _ D) (dk_epochs _ D) e He) as [A _].
    unfold epoch_owns. apply andb_false_iff. left.
    pose proof (ve_order _ (dk_epochs _ D e He)) as Ho. nord.
  Qed.

  (* 2. outside the lifetime, on the young side: end is inclusive *)
  Theorem size_after_end d t x :
    DemeOK d -> nle n0 t = true -> d_end d = Ok x -> nlt t x = true ->
    size_at d t = Ok n0.
  Proof.
    intros D Ht0 Hx Hlt. unfold size_at.
    assert (ok t) as Ht by (apply lt_true in Hlt; tauto).
    assert (nisinf t = false) as ->.
    { pose proof (rk_range x). nord. }
    cbn [andb].
    rewrite find_none; [reflexivity|].
    intros e He. unfold d_end in Hx.
    pose proof (chain_end_ge _ _ _ (dk_chain _ D) (dk_epochs _ D) Hx e He) as A.
    unfold epoch_owns. apply andb_false_iff. right.
    pose proof (ve_order _ (dk_epochs _ D e He)) as Ho. nord.
  Qed.

  Lemma d_end_last d : d_end d = last_end (d_epochs d).
  Proof. reflexivity. Qed.

  Lemma not_both_inf d t x :
    DemeOK d -> d_end d = Ok x -> ok t -> In x (map e_end (d_epochs d)) ->
    True.
  Proof. trivial. Qed.

  (* 3. at each epoch end the size is that epoch's end size (end inclusive:
        the epoch that ends at t owns t, not the one that starts there) *)
  Theorem size_at_epoch_end d e t :
    DemeOK d -> In e (d_epochs d) -> neqb t (e_end e) = true ->
    size_at d t = Ok (e_esize e).
  Proof.
    intros D He Heq. unfold size_at.
    pose proof (dk_epochs _ D e He) as V.
    pose proof (ve_order _ V) as Ho. pose proof (ve_end_fin _ V) as Hf.
    assert (ok t) as Ht by (apply eq_true in Heq; tauto).
    assert (nisinf t = false) as -> by nord.
    cbn [andb].
    assert (epoch_owns t e = true) as Hown.
    { unfold epoch_owns. apply andb_true_iff. split; nord. }
    rewrite (find_owner _ _ _ _ (ok_start _ D) Ht (dk_chain _ D) (dk_epochs _ D) He Hown).
    unfold size_in_epoch, isclose0, isclose. rewrite Heq. cbn [orb]. now rewrite clamp_esize.
  Qed.

  (* 4. inside the lifetime exactly one epoch owns t and the size is that
        epoch's documented interpolation *)
  Theorem size_inside d t x :
    DemeOK d -> nle n0 t = true -> d_end d = Ok x ->
    nlt t (d_start d) = true -> nle x t = true ->
    exists e, In e (d_epochs d) /\ epoch_owns t e = true /\
      (forall e', In e' (d_epochs d) -> epoch_owns t e' = true -> e' = e) /\
      size_at d t = size_in_epoch e t.
  Proof.
    intros D Ht0 Hx Hlt Hge.
    assert (ok t) as Ht by (apply lt_true in Hlt; tauto).
    pose proof (ok_start _ D) as Hs.
    destruct (owner_exists (d_start d) (d_epochs d) x t Hs Ht (dk_ne _ D) (dk_chain _ D)
                (dk_epochs _ D) Hx) as (e & He & Ho); [nord | nord |].
    exists e. repeat split; auto.
    - intros e' He' Ho'.
      exact (owner_unique _ _ _ _ _ Hs Ht (dk_chain _ D) (dk_epochs _ D) He' He Ho' Ho).
    - unfold size_at.
      assert (nisinf t && nisinf (d_start d) = false) as ->.
      { apply andb_false_iff. left. pose proof (rk_range (d_start d)). nord. }
      now rewrite (find_owner _ _ _ _ Hs Ht (dk_chain _ D) (dk_epochs _ D) He Ho).
  Qed.

  (* 5. infinitely far back a deme with infinite start reports its first
        epoch's (constant) size *)
  Theorem size_at_inf d t :
    DemeOK d -> nisinf t = true -> nisinf (d_start d) = true ->
    exists e es, d_epochs d = e :: es /\ size_at d t = Ok (e_ssize e) /\
                 neqb (e_ssize e) (e_esize e) = true.
  Proof.
    intros D Ht Hs. unfold size_at. rewrite Ht, Hs. cbn [andb].
    pose proof (dk_ne _ D) as Hne. pose proof (dk_chain _ D) as Hc.
    destruct (d_epochs d) as [|e es] eqn:E; [congruence|].
    exists e, es. repeat split.
    cbn [Chain] in Hc. destruct Hc as [H0 _].
    assert (In e (d_epochs d)) as He by (rewrite E; now left).
    pose proof (dk_epochs _ D e He) as V. apply (ve_inf _ V). nord.
  Qed.

  (* 6. the interpolation, spelled out per size function *)
  Theorem size_formula_const e t :
    e_sf e = "constant" -> size_in_epoch e t = Ok (e_esize e).
  Proof. intro H. unfold size_in_epoch. rewrite H. cbn. rewrite orb_true_r. now rewrite clamp_esize. Qed.

  Theorem size_formula_equal e t :
    neqb (e_ssize e) (e_esize e) = true -> size_in_epoch e t = Ok (e_esize e).
  Proof. intro H. unfold size_in_epoch. rewrite H. rewrite orb_true_r. now rewrite clamp_esize. Qed.

  Theorem size_formula_exp e t :
    e_sf e = "exponential" -> isclose0 t (e_end e) = false ->
    neqb (e_ssize e) (e_esize e) = false ->
    size_in_epoch e t =
      (dt <- pdiv (nsub (e_start e) t) (nsub (e_start e) (e_end e)) ;;
       q <- pdiv (e_esize e) (e_ssize e) ;;
       r <- plog q ;;
       x <- pexp (nmul r dt) ;;
       Ok (clamp_size e (nmul (e_ssize e) x))).
  Proof. intros H Hc Hn. unfold size_in_epoch. rewrite H, Hc, Hn. reflexivity. Qed.

  Theorem size_formula_lin e t :
    e_sf e = "linear" -> isclose0 t (e_end e) = false ->
    neqb (e_ssize e) (e_esize e) = false ->
    size_in_epoch e t =
      (dt <- pdiv (nsub (e_start e) t) (nsub (e_start e) (e_end e)) ;;
       Ok (clamp_size e (nadd (e_ssize e) (nmul (nsub (e_esize e) (e_ssize e)) dt)))).
  Proof. intros H Hc Hn. unfold size_in_epoch. rewrite H, Hc, Hn. reflexivity. Qed.

  (* 7. between-ness, the part that needs no arithmetic: whenever the two
        sizes of the epoch are equal (constant epochs in particular) and at
        every epoch end, the reported size equals an end point.  For the
        interior of exponential / linear epochs with different sizes
        between-ness is a statement about real arithmetic (DESIGN.md, C13). *)
  Theorem size_between_equal e t v :
    ValidEpoch e -> (e_sf e = "constant" \/ neqb (e_ssize e) (e_esize e) = true) ->
    size_in_epoch e t = Ok v ->
    neqb v (e_esize e) = true /\ neqb (e_ssize e) v = true.
  Proof.
    intros V H Hs.
    assert (neqb (e_ssize e) (e_esize e) = true) as He
      by (destruct H as [H|H]; [exact (ve_const _ V H)|exact H]).
    rewrite (size_formula_equal _ _ He) in Hs. inversion Hs; subst.
    destruct (ve_esize _ V). split; nord.
  Qed.
End SizeAtProofs.
