(* C15: renaming demes yields an isomorphic, fully usable graph. *)
From Coq Require Import Bool List String QArith Lqa Arith Lia.
From Demes Require Import Base.Num Base.Py Model.MDM Model.Rename Spec.Valid.
Import ListNotations.
Local Open Scope string_scope.
Local Open Scope list_scope.

Section RenameProofs.
  Context {N : NumOps} {L : NumLaws N}.

  Definition names_of (g : graph) : list string := map d_name (g_demes g).

  (* the renaming is injective on the graph's deme names and yields identifiers *)
  Record GoodMap (names : namemap) (g : graph) : Prop := {
    gm_inj : forall a b, In a (names_of g) -> In b (names_of g) ->
                         rn names a = rn names b -> a = b;
    gm_ident : forall a, In a (names_of g) -> is_identifier (rn names a) = true }.

  (* 1. every name field carries its new name, nothing else changes (by computation) *)
  Theorem rename_fields names g :
    let h := rename_core names g in
    g_demes h = map (deme_rename names) (g_demes g) /\
    g_migs h = map (mig_rename names) (g_migs g) /\
    g_pulses h = map (pulse_rename names) (g_pulses g) /\
    g_desc h = g_desc g /\ g_units h = g_units g /\ g_gt h = g_gt g /\
    g_doi h = g_doi g /\ g_meta h = g_meta g.
  Proof. simpl. repeat split; reflexivity. Qed.

  (* ---------------------------------------------------------------- *)
  (* Generic list / string facts *)

  Definition InjOn (f : string -> string) (S : list string) : Prop :=
    forall a b, In a S -> In b S -> f a = f b -> a = b.

  Lemma InjOn_incl f S S' : InjOn f S -> incl S' S -> InjOn f S'.
  Proof. intros Hi Hs a b Ha Hb. apply Hi; apply Hs; assumption. Qed.

  Lemma eqb_inj f S a b :
    InjOn f S -> In a S -> In b S -> String.eqb (f a) (f b) = String.eqb a b.
  Proof.
    intros Hi Ha Hb. destruct (String.eqb_spec a b) as [E|E].
    - subst. apply String.eqb_refl.
    - apply String.eqb_neq. intro H. apply E. apply Hi; assumption.
  Qed.

  Lemma NoDup_map_inj f (l : list string) : InjOn f l -> NoDup l -> NoDup (map f l).
  Proof.
    induction l as [|a l IH]; simpl; intros Hi Hn.
    - constructor.
    - inversion Hn as [|x l' Hnin Hnd]; subst. constructor.
      + intro Hin. apply in_map_iff in Hin. destruct Hin as (b & Hb & Hbin).
        assert (E : b = a) by (apply Hi; simpl; auto).
        subst b. contradiction.
      + apply IH; [|assumption]. intros x y Hx Hy. apply Hi; simpl; auto.
  Qed.

  Lemma not_in_map_inj f S (l : list string) a :
    InjOn f S -> incl l S -> In a S -> ~ In a l -> ~ In (f a) (map f l).
  Proof.
    intros Hi Hl Ha Hn Hin. apply in_map_iff in Hin. destruct Hin as (b & Hb & Hbin).
    assert (E : b = a) by (apply Hi; auto).
    subst b. contradiction.
  Qed.

  (* ---------------------------------------------------------------- *)
  (* (a) the index built by dict insertion is the declarative one *)

  Lemma assoc_app {A} k (l1 l2 : list (string * A)) :
    assoc k (l1 ++ l2) = match assoc k l1 with Some v => Some v | None => assoc k l2 end.
  Proof.
    induction l1 as [|[k' v'] l1 IH]; simpl; [reflexivity|].
    destruct (String.eqb k k'); [reflexivity|apply IH].
  Qed.

  Lemma dict_set_absent {A} k (v : A) d : assoc k d = None -> dict_set k v d = d ++ [(k, v)].
  Proof.
    induction d as [|[k' v'] d IH]; simpl; intro H; [reflexivity|].
    destruct (String.eqb k k'); [discriminate|]. f_equal. apply IH, H.
  Qed.

  Lemma build_index_gen ds : forall i acc,
    NoDup (map d_name ds) ->
    (forall d, In d ds -> assoc (d_name d) acc = None) ->
    build_index i ds acc = acc ++ index_from i ds.
  Proof.
    induction ds as [|d ds IH]; simpl; intros i acc Hn Hacc.
    - rewrite app_nil_r. reflexivity.
    - inversion Hn as [|x l' Hnin Hnd]; subst.
      rewrite dict_set_absent by (apply Hacc; auto).
      rewrite IH.
      + rewrite <- app_assoc. reflexivity.
      + assumption.
      + intros d' Hd'. rewrite assoc_app. rewrite Hacc by auto. simpl.
        destruct (String.eqb_spec (d_name d') (d_name d)) as [E|E]; [|reflexivity].
        exfalso. apply Hnin. rewrite <- E. apply in_map. assumption.
  Qed.

  Lemma build_index_spec ds :
    NoDup (map d_name ds) -> build_index 0 ds [] = index_from 0 ds.
  Proof.
    intro Hn. rewrite build_index_gen; auto.
  Qed.

  Lemma assoc_index_from ds : forall k d,
    NoDup (map d_name ds) -> In d ds ->
    exists i, assoc (d_name d) (index_from k ds) = Some (k + i)%nat /\ nth_error ds i = Some d.
  Proof.
    induction ds as [|d0 ds IH]; simpl; intros k d Hn Hin; [contradiction|].
    inversion Hn as [|x l' Hnin Hnd]; subst.
    destruct (String.eqb_spec (d_name d) (d_name d0)) as [E|E].
    - destruct Hin as [Hin|Hin].
      + subst. exists 0%nat. split; [f_equal; lia|reflexivity].
      + exfalso. apply Hnin. rewrite <- E. apply in_map. assumption.
    - destruct Hin as [Hin|Hin]; [subst; congruence|].
      destruct (IH (S k) d Hnd Hin) as (i & Ha & Hnth).
      exists (S i). split; [rewrite Ha; f_equal; lia|exact Hnth].
  Qed.

  Lemma assoc_index_from_none ds : forall k x,
    ~ In x (map d_name ds) -> assoc x (index_from k ds) = None.
  Proof.
    induction ds as [|d0 ds IH]; simpl; intros k x Hn; [reflexivity|].
    destruct (String.eqb_spec x (d_name d0)) as [E|E].
    - exfalso. apply Hn. left. congruence.
    - apply IH. intro H. apply Hn. right. exact H.
  Qed.

  (* ---------------------------------------------------------------- *)
  (* Names occurring in a valid graph are deme names *)

  Lemma ValidDemes_names r : forall e,
    ValidDemes e r ->
    NoDup (map d_name r) /\
    (forall d, In d r -> ~ In (d_name d) (map d_name e)) /\
    (forall d a, In d r -> In a (d_anc d) -> In a (map d_name (e ++ r))).
  Proof.
    induction r as [|d r IH]; simpl; intros e H.
    - split; [constructor|]. split; intros; contradiction.
    - destruct H as [Hd Hr]. destruct (IH _ Hr) as (Hnd & Hfresh & Hanc).
      split; [|split].
      + constructor; [|assumption]. intro Hin. apply in_map_iff in Hin.
        destruct Hin as (d' & Hn & Hd'). apply (Hfresh d' Hd').
        rewrite map_app, in_app_iff. right. simpl. left. congruence.
      + intros d' [Hd'|Hd'].
        * subst. apply (vd_fresh _ _ Hd).
        * intro Hin. apply (Hfresh d' Hd'). rewrite map_app, in_app_iff. left. exact Hin.
      + intros d' a [Hd'|Hd'] Ha.
        * subst d'. destruct (vd_anc _ _ Hd a Ha) as (ad & Hin & Hn & _).
          rewrite map_app, in_app_iff. left. rewrite <- Hn. apply in_map. exact Hin.
        * specialize (Hanc d' a Hd' Ha). rewrite <- app_assoc in Hanc. exact Hanc.
  Qed.

  Lemma valid_nodup g : Valid g -> NoDup (names_of g).
  Proof. intro V. apply (ValidDemes_names _ _ (v_demes _ V)). Qed.

  Lemma valid_anc_names g d a :
    Valid g -> In d (g_demes g) -> In a (d_anc d) -> In a (names_of g).
  Proof.
    intros V Hd Ha.
    destruct (ValidDemes_names _ _ (v_demes _ V)) as (_ & _ & H).
    exact (H d a Hd Ha).
  Qed.

  Lemma find_deme_in g a s : find_deme g a = Some s -> In s (g_demes g) /\ d_name s = a.
  Proof.
    unfold find_deme. intro H. apply find_some in H. destruct H as [Hin He].
    split; [assumption|]. apply String.eqb_eq. exact He.
  Qed.

  Lemma find_deme_name g a s : find_deme g a = Some s -> In a (names_of g).
  Proof.
    intro H. apply find_deme_in in H. destruct H as [Hin <-]. apply in_map. exact Hin.
  Qed.

  Lemma validmig_names g m : ValidMig g m -> In (m_src m) (names_of g) /\ In (m_dst m) (names_of g).
  Proof.
    intro V. destruct (vm_demes _ _ V) as (s & d & lo & hi & Hs & Hd & _).
    split; eapply find_deme_name; eassumption.
  Qed.

  Lemma validpulse_names g p :
    ValidPulse g p -> In (p_dst p) (names_of g) /\ incl (p_srcs p) (names_of g).
  Proof.
    intro V. split.
    - destruct (vp_dest _ _ V) as (d & ed & Hd & _). eapply find_deme_name; eassumption.
    - intros s Hs. destruct (vp_sources _ _ V s Hs) as (sd & d & lo & hi & Hsd & _).
      eapply find_deme_name; eassumption.
  Qed.

  (* ---------------------------------------------------------------- *)
  (* (b) demes *)

  Lemma ValidDeme_rename names S e d :
    InjOn (rn names) S -> (forall a, In a S -> is_identifier (rn names a) = true) ->
    incl (map d_name e) S -> In (d_name d) S ->
    ValidDeme e d -> ValidDeme (map (deme_rename names) e) (deme_rename names d).
  Proof.
    intros Hi Hid He Hd [H1 H2 H3 H4 H5 H6 H7 H8 H9 H10 H11 H12].
    assert (Hanc : incl (d_anc d) S).
    { intros a Ha. destruct (H5 a Ha) as (ad & Hin & Hn & _). apply He.
      rewrite <- Hn. apply in_map. exact Hin. }
    constructor; simpl.
    - apply Hid, Hd.
    - rewrite map_map. simpl. rewrite <- map_map.
      eapply not_in_map_inj; eauto.
    - exact H3.
    - apply NoDup_map_inj; [|exact H4]. eapply InjOn_incl; eauto.
    - intros a Ha. apply in_map_iff in Ha. destruct Ha as (a0 & Ea & Ha0).
      destruct (H5 a0 Ha0) as (ad & Hin & Hn & Hal).
      exists (deme_rename names ad). split; [apply in_map; exact Hin|].
      split; [simpl; congruence|exact Hal].
    - rewrite <- H6. split; intro H.
      + apply map_eq_nil in H. exact H.
      + rewrite H. reflexivity.
    - rewrite map_length. exact H7.
    - exact H8.
    - exact H9.
    - exact H10.
    - exact H11.
    - exact H12.
  Qed.

  Lemma ValidDemes_rename names S r : forall e,
    InjOn (rn names) S -> (forall a, In a S -> is_identifier (rn names a) = true) ->
    incl (map d_name (e ++ r)) S ->
    ValidDemes e r -> ValidDemes (map (deme_rename names) e) (map (deme_rename names) r).
  Proof.
    induction r as [|d r IH]; simpl; intros e Hi Hid Hs H; [exact I|].
    destruct H as [Hd Hr]. split.
    - eapply ValidDeme_rename; eauto.
      + intros x Hx. apply Hs. rewrite map_app, in_app_iff. left. exact Hx.
      + apply Hs. rewrite map_app, in_app_iff. right. simpl. left. reflexivity.
    - change [deme_rename names d] with (map (deme_rename names) [d]).
      rewrite <- map_app.
      apply IH; [exact Hi|exact Hid| |exact Hr]. rewrite <- app_assoc. simpl. exact Hs.
  Qed.

  Lemma names_rename names g :
    names_of (rename_core names g) = map (rn names) (names_of g).
  Proof. unfold names_of. simpl. rewrite !map_map. reflexivity. Qed.

  Lemma find_rename names S ds a :
    InjOn (rn names) S -> incl (map d_name ds) S -> In a S ->
    find (fun d => String.eqb (d_name d) (rn names a)) (map (deme_rename names) ds)
    = option_map (deme_rename names) (find (fun d => String.eqb (d_name d) a) ds).
  Proof.
    intros Hi Hs Ha. induction ds as [|d ds IH]; simpl; [reflexivity|].
    rewrite (eqb_inj _ S) by (auto; apply Hs; simpl; auto).
    destruct (String.eqb (d_name d) a); [reflexivity|].
    apply IH. intros x Hx. apply Hs. simpl. right. exact Hx.
  Qed.

  Lemma find_deme_rename names g a s :
    InjOn (rn names) (names_of g) -> find_deme g a = Some s ->
    find_deme (rename_core names g) (rn names a) = Some (deme_rename names s).
  Proof.
    intros Hi H. unfold find_deme. simpl.
    rewrite (find_rename names (names_of g)).
    - unfold find_deme in H. rewrite H. reflexivity.
    - exact Hi.
    - apply incl_refl.
    - eapply find_deme_name; eassumption.
  Qed.

  (* ---------------------------------------------------------------- *)
  (* migrations *)

  Lemma ValidMig_rename names g m :
    InjOn (rn names) (names_of g) -> ValidMig g m ->
    ValidMig (rename_core names g) (mig_rename names m).
  Proof.
    intros Hi V. destruct (validmig_names _ _ V) as [Hs Hd].
    destruct V as [H1 H2 H3 H4 H5 H6]. constructor; simpl.
    - intro E. apply H1. apply Hi; assumption.
    - destruct H2 as (s & d & lo & hi & Fs & Fd & Hco & Hw1 & Hw2).
      exists (deme_rename names s), (deme_rename names d), lo, hi.
      split; [apply find_deme_rename; assumption|].
      split; [apply find_deme_rename; assumption|].
      split; [exact Hco|]. split; assumption.
    - exact H3.
    - exact H4.
    - exact H5.
    - exact H6.
  Qed.

  Definition MigNames (S : list string) (ms : list mig) : Prop :=
    forall m, In m ms -> In (m_src m) S /\ In (m_dst m) S.

  Lemma NoOverlap_rename names S ms :
    InjOn (rn names) S -> MigNames S ms ->
    NoOverlap ms -> NoOverlap (map (mig_rename names) ms).
  Proof.
    intros Hi Hn H i j a b t Hij Ha Hb Es Ed Ht Aa Ab.
    rewrite nth_error_map in Ha, Hb.
    destruct (nth_error ms i) as [a0|] eqn:Ea; [|discriminate].
    destruct (nth_error ms j) as [b0|] eqn:Eb; [|discriminate].
    simpl in Ha, Hb. inversion Ha; subst a. inversion Hb; subst b. simpl in Es, Ed.
    destruct (Hn a0 (nth_error_In _ _ Ea)) as [Sa Da].
    destruct (Hn b0 (nth_error_In _ _ Eb)) as [Sb Db].
    apply (H i j a0 b0 t Hij Ea Eb); auto.
  Qed.

  (* (c) rates and ingress *)
  Lemma rate_at_rename names S ms a b t :
    InjOn (rn names) S -> MigNames S ms -> In a S -> In b S ->
    rate_at (map (mig_rename names) ms) (rn names a) (rn names b) t = rate_at ms a b t.
  Proof.
    intros Hi Hn Ha Hb. unfold rate_at.
    induction ms as [|m ms IH]; simpl; [reflexivity|].
    destruct (Hn m (or_introl eq_refl)) as [Sm Dm].
    rewrite (eqb_inj _ S) by auto. rewrite (eqb_inj _ S) by auto.
    change (activeb (mig_rename names m) t) with (activeb m t).
    destruct (String.eqb (m_src m) a && String.eqb (m_dst m) b && activeb m t); [reflexivity|].
    apply IH. intros m' Hm'. apply Hn. right. exact Hm'.
  Qed.

  Lemma ingress_rename names g b t :
    InjOn (rn names) (names_of g) -> MigNames (names_of g) (g_migs g) ->
    In b (names_of g) ->
    ingress (rename_core names g) (rn names b) t = ingress g b t.
  Proof.
    intros Hi Hn Hb. unfold ingress. simpl. rewrite map_map. f_equal.
    apply map_ext_in. intros s Hs. simpl.
    apply (rate_at_rename names (names_of g)); auto.
    unfold names_of. apply in_map. exact Hs.
  Qed.

  Lemma IngressOK_rename names g :
    InjOn (rn names) (names_of g) -> MigNames (names_of g) (g_migs g) ->
    IngressOK g -> IngressOK (rename_core names g).
  Proof.
    intros Hi Hn H d t Hd Ht Ht0. simpl in Hd. apply in_map_iff in Hd.
    destruct Hd as (d0 & Ed & Hd0). subst d. simpl.
    rewrite ingress_rename by (auto; unfold names_of; apply in_map; exact Hd0).
    apply (H d0 t Hd0 Ht Ht0).
  Qed.

  (* ---------------------------------------------------------------- *)
  (* pulses *)

  Lemma ValidPulse_rename names g p :
    InjOn (rn names) (names_of g) -> ValidPulse g p ->
    ValidPulse (rename_core names g) (pulse_rename names p).
  Proof.
    intros Hi V. destruct (validpulse_names _ _ V) as [Hd Hs].
    destruct V as [H1 H2 H3 H4 H5 H6 H7 H8 H9]. constructor; simpl.
    - intro E. apply map_eq_nil in E. contradiction.
    - apply NoDup_map_inj; [|exact H2]. eapply InjOn_incl; eauto.
    - eapply not_in_map_inj; eauto.
    - rewrite map_length. exact H4.
    - exact H5.
    - exact H6.
    - exact H7.
    - destruct H8 as (d & ed & Fd & He & Hne).
      exists (deme_rename names d), ed.
      split; [apply find_deme_rename; assumption|]. split; [exact He|exact Hne].
    - intros s' Hs'. apply in_map_iff in Hs'. destruct Hs' as (s & Es & Hin). subst s'.
      destruct (H9 s Hin) as (sd & d & lo & hi & Fs & Fd & Hco & Hw & Hne).
      exists (deme_rename names sd), (deme_rename names d), lo, hi.
      split; [apply find_deme_rename; assumption|].
      split; [apply find_deme_rename; assumption|].
      split; [exact Hco|]. split; [exact Hw|exact Hne].
  Qed.

  Lemma PulsesSorted_rename names ps :
    PulsesSorted ps -> PulsesSorted (map (pulse_rename names) ps).
  Proof.
    induction ps as [|p ps IH]; simpl; [auto|].
    destruct ps as [|q ps]; simpl; [auto|].
    intros [H1 H2]. split; [exact H1|]. apply IH. exact H2.
  Qed.

  (* ---------------------------------------------------------------- *)

  Lemma good_inj names g : GoodMap names g -> InjOn (rn names) (names_of g).
  Proof. intros G a b. apply (gm_inj _ _ G). Qed.

  Lemma valid_mignames g : Valid g -> MigNames (names_of g) (g_migs g).
  Proof. intros V m Hm. apply validmig_names. apply (v_migs _ V). exact Hm. Qed.

  Lemma rename_nodup names g :
    Valid g -> GoodMap names g -> NoDup (map d_name (map (deme_rename names) (g_demes g))).
  Proof.
    intros V G. rewrite map_map. simpl. rewrite <- map_map.
    apply NoDup_map_inj; [apply good_inj; exact G|apply valid_nodup; exact V].
  Qed.

  Lemma rename_index names g :
    Valid g -> GoodMap names g ->
    g_index (rename_core names g) = index_from 0 (map (deme_rename names) (g_demes g)).
  Proof.
    intros V G. simpl. apply build_index_spec. apply rename_nodup; assumption.
  Qed.

  (* 2. the result is a valid graph (in particular its name index mirrors its deme list) *)
  Theorem rename_valid names g : Valid g -> GoodMap names g -> Valid (rename_core names g).
  Proof.
    intros V G. pose proof (good_inj _ _ G) as Hi.
    constructor.
    - exact (v_units _ V).
    - exact (v_gt _ V).
    - exact (v_gen _ V).
    - exact (v_doi _ V).
    - exact (v_meta _ V).
    - simpl. intro E. apply map_eq_nil in E. exact (v_demes_ne _ V E).
    - simpl. apply (ValidDemes_rename names (names_of g) (g_demes g) []).
      + exact Hi.
      + apply (gm_ident _ _ G).
      + simpl. apply incl_refl.
      + exact (v_demes _ V).
    - simpl. intros m Hm. apply in_map_iff in Hm. destruct Hm as (m0 & Em & Hm0). subst m.
      apply ValidMig_rename; [exact Hi|]. apply (v_migs _ V). exact Hm0.
    - simpl. eapply NoOverlap_rename; [exact Hi|apply valid_mignames; exact V|].
      exact (v_overlap _ V).
    - apply IngressOK_rename; [exact Hi|apply valid_mignames; exact V|exact (v_ingress _ V)].
    - simpl. intros p Hp. apply in_map_iff in Hp. destruct Hp as (p0 & Ep & Hp0). subst p.
      apply ValidPulse_rename; [exact Hi|]. apply (v_pulses _ V). exact Hp0.
    - simpl. apply PulsesSorted_rename. exact (v_pulse_order _ V).
    - apply rename_index; assumption.
  Qed.

  (* 3. lookup and membership by each new name give the right deme; names no longer used fail *)
  Theorem rename_lookup names g d :
    Valid g -> GoodMap names g -> In d (g_demes g) ->
    lookup (rename_core names g) (rn names (d_name d)) = Ok (deme_rename names d) /\
    contains (rename_core names g) (rn names (d_name d)) = true.
  Proof.
    intros V G Hd. unfold lookup, contains. rewrite rename_index by assumption.
    destruct (assoc_index_from (map (deme_rename names) (g_demes g)) 0 (deme_rename names d))
      as (i & Ha & Hn).
    - apply rename_nodup; assumption.
    - apply in_map. exact Hd.
    - simpl in Ha. rewrite Ha. simpl. rewrite Hn. split; reflexivity.
  Qed.

  Theorem rename_lookup_absent names g x :
    Valid g -> GoodMap names g -> ~ In x (map (rn names) (names_of g)) ->
    lookup (rename_core names g) x = Err KeyErr /\ contains (rename_core names g) x = false.
  Proof.
    intros V G Hx. unfold lookup, contains. rewrite rename_index by assumption.
    rewrite assoc_index_from_none; [split; reflexivity|].
    intro H. apply Hx. rewrite <- names_rename. exact H.
  Qed.

  (* 4. renaming back with any map that inverts the renaming on the graph's names restores the graph *)
  Lemma map_id_in {A} (f : A -> A) l : (forall a, In a l -> f a = a) -> map f l = l.
  Proof.
    intro H. rewrite <- (map_id l) at 2. apply map_ext_in. exact H.
  Qed.

  Theorem rename_back names inv g :
    Valid g -> GoodMap names g ->
    (forall a, In a (names_of g) -> rn inv (rn names a) = a) ->
    rename_core inv (rename_core names g) = g.
  Proof.
    intros V G Hinv.
    assert (Ed : map (deme_rename inv) (map (deme_rename names) (g_demes g)) = g_demes g).
    { rewrite map_map. apply map_id_in. intros d Hd.
      destruct d as [n de st anc pr ep]. unfold deme_rename. simpl. f_equal.
      - apply Hinv. unfold names_of. apply (in_map d_name) in Hd. exact Hd.
      - rewrite map_map. apply map_id_in. intros a Ha. apply Hinv.
        eapply valid_anc_names; eauto. }
    assert (Em : map (mig_rename inv) (map (mig_rename names) (g_migs g)) = g_migs g).
    { rewrite map_map. apply map_id_in. intros m Hm.
      destruct (validmig_names _ _ (v_migs _ V m Hm)) as [Hs Hd].
      destruct m as [s d st en r]. unfold mig_rename. simpl in *. f_equal; apply Hinv; assumption. }
    assert (Ep : map (pulse_rename inv) (map (pulse_rename names) (g_pulses g)) = g_pulses g).
    { rewrite map_map. apply map_id_in. intros p Hp.
      destruct (validpulse_names _ _ (v_pulses _ V p Hp)) as [Hd Hs].
      destruct p as [ss d t pr]. unfold pulse_rename. simpl in *. f_equal.
      - rewrite map_map. apply map_id_in. intros a Ha. apply Hinv, Hs, Ha.
      - apply Hinv, Hd. }
    unfold rename_core at 1. simpl. rewrite Ed, Em, Ep.
    rewrite build_index_spec by (apply valid_nodup; exact V).
    rewrite <- (v_index _ V). destruct g; reflexivity.
  Qed.
End RenameProofs.

Print Assumptions rename_fields.
Print Assumptions rename_valid.
Print Assumptions rename_lookup.
Print Assumptions rename_lookup_absent.
Print Assumptions rename_back.
