(* C14, the clause "both maps have an entry for every deme": the key lists of the
   predecessor and successor views are exactly the deme names, in deme order, so
   every deme has one entry (and, the names being unique, only one) in each, and
   lookup by any deme's name succeeds in both.  Corollaries of pred_spec / succ_spec. *)
From Coq Require Import Bool List String QArith.
From Demes Require Import Base.Num Base.Py Model.MDM Model.Ancestry Spec.Valid Proofs.AncestryProofs.
Import ListNotations.
Local Open Scope string_scope.
Local Open Scope list_scope.

Section AncestryKeys.
  Context {N : NumOps} {L : NumLaws N}.

  Theorem pred_keys g : AncOK g -> map fst (predecessors g) = map d_name (g_demes g).
  Proof.
    intros Hg. rewrite (pred_spec g Hg), map_map. apply map_ext. intros d. reflexivity.
  Qed.

  Theorem succ_keys g : AncOK g -> map fst (successors g) = map d_name (g_demes g).
  Proof.
    intros Hg. rewrite (succ_spec g Hg), map_map. apply map_ext. intros d. reflexivity.
  Qed.

  Theorem views_entry_for_every_deme g d :
    AncOK g -> In d (g_demes g) ->
    (exists ps, assoc (d_name d) (predecessors g) = Some ps) /\
    (exists cs, assoc (d_name d) (successors g) = Some cs).
  Proof.
    intros Hg Hd.
    assert (In (d_name d) (map d_name (g_demes g))) as Hn by (apply in_map; exact Hd).
    split.
    - destruct (assoc (d_name d) (predecessors g)) as [ps|] eqn:E; [exists ps; reflexivity|].
      exfalso. apply (proj1 (assoc_none_keys _ _)) in E. apply E. rewrite (pred_keys g Hg). exact Hn.
    - destruct (assoc (d_name d) (successors g)) as [cs|] eqn:E; [exists cs; reflexivity|].
      exfalso. apply (proj1 (assoc_none_keys _ _)) in E. apply E. rewrite (succ_keys g Hg). exact Hn.
  Qed.

  Theorem views_no_foreign_entry g k :
    AncOK g ->
    (assoc k (predecessors g) <> None \/ assoc k (successors g) <> None) ->
    exists d, In d (g_demes g) /\ d_name d = k.
  Proof.
    intros Hg [H|H].
    - assert (In k (map fst (predecessors g))) as Hk.
      { destruct (in_dec string_dec k (map fst (predecessors g))) as [i|n]; [exact i|].
        exfalso. apply H. apply assoc_none_keys. exact n. }
      rewrite (pred_keys g Hg) in Hk. apply in_map_iff in Hk. destruct Hk as [d [E I]]. exists d. split; assumption.
    - assert (In k (map fst (successors g))) as Hk.
      { destruct (in_dec string_dec k (map fst (successors g))) as [i|n]; [exact i|].
        exfalso. apply H. apply assoc_none_keys. exact n. }
      rewrite (succ_keys g Hg) in Hk. apply in_map_iff in Hk. destruct Hk as [d [E I]]. exists d. split; assumption.
  Qed.
  (* exactly one entry per deme: the keys of both maps are duplicate-free *)
  Theorem views_keys_nodup g :
    AncOK g -> NoDup (map fst (predecessors g)) /\ NoDup (map fst (successors g)).
  Proof.
    intros Hg. rewrite (pred_keys g Hg), (succ_keys g Hg).
    split; exact (ab_nodup [] (g_demes g) (ak_order g Hg)).
  Qed.
  (* lookup form: predecessors[d.name] is d's ancestor list in order; successors[a.name]
     is the list of demes that name a as an ancestor, in deme order *)
  Theorem pred_lookup g d :
    AncOK g -> In d (g_demes g) -> assoc (d_name d) (predecessors g) = Some (d_anc d).
  Proof.
    intros Hg Hd. apply in_assoc; [exact (proj1 (views_keys_nodup g Hg))|].
    rewrite (pred_spec g Hg). apply in_map_iff. exists d. split; [reflexivity|exact Hd].
  Qed.

  Theorem succ_lookup g a :
    AncOK g -> In a (g_demes g) ->
    assoc (d_name a) (successors g) =
      Some (map d_name (filter (fun c => existsb (String.eqb (d_name a)) (d_anc c)) (g_demes g))).
  Proof.
    intros Hg Ha. apply in_assoc; [exact (proj2 (views_keys_nodup g Hg))|].
    rewrite (succ_spec g Hg). apply in_map_iff. exists a. split; [reflexivity|exact Ha].
  Qed.
End AncestryKeys.

Print Assumptions pred_keys.
Print Assumptions succ_keys.
Print Assumptions views_entry_for_every_deme.
Print Assumptions views_no_foreign_entry.
Print Assumptions views_keys_nodup.
Print Assumptions pred_lookup.
Print Assumptions succ_lookup.
