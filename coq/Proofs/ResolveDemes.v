(* C01, demes: every deme that resolve_deme appends is valid. *)
From Coq Require Import Bool List String QArith Lqa Arith Lia.
From Demes Require Import Base.Num Base.Py Model.MDM Model.Codec Model.MigMat Model.Resolve
  Spec.Valid Proofs.MigMatProofs Proofs.ResolveInv.
Import ListNotations.
Local Open Scope string_scope.
Local Open Scope list_scope.

Section ResolveDemes.
  Context {N : NumOps} {L : NumLaws N}.

  Lemma make_epoch_spec start en ss es sf sr cr e :
    ok start -> make_epoch start en ss es sf sr cr = Ok e ->
    ValidEpoch e /\ e_start e = start.
  Proof.
    intros Hs H. unfold make_epoch in H.
    mbind H u0 Hnn.
    mbind H en' Hen. mbind H u1 Hen1. mbind H u2 Hen2.
    mbind H ss' Hss. mbind H u3 Hss1. mbind H u4 Hss2.
    mbind H es' Hes. mbind H u5 Hes1. mbind H u6 Hes2.
    mbind H sf' Hsf.
    mbind H sr' Hsr. mbind H u7 Hsr1.
    mbind H cr' Hcr. mbind H u8 Hcr1.
    mraise H Hord. mraise H Hinf. mraise H Hconst.
    injection H as <-.
    apply iof_spec in Hen, Hss, Hes, Hsr, Hcr.
    destruct Hen as (Oen & _), Hss as (Oss & _), Hes as (Oes & _).
    split; [|reflexivity]. constructor; cbn.
    - eapply non_negative_spec; eauto.
    - eapply finite_spec; eauto.
    - nord.
    - split; [eapply positive_spec|eapply finite_spec]; eauto.
    - split; [eapply positive_spec|eapply finite_spec]; eauto.
    - destruct sf as [v|].
      + destruct v; try discriminate. mraise Hsf Hm. injection Hsf as <-.
        apply negb_false_iff in Hm. exact (mem_in _ _ Hm).
      + injection Hsf as <-. destruct (neqb ss' es'); cbn; auto.
    - intro E. rewrite E in Hconst. cbn in Hconst.
      unfold nneq in Hconst. now apply negb_false_iff in Hconst.
    - intro E. rewrite E in Hinf. cbn in Hinf.
      unfold nneq in Hinf. now apply negb_false_iff in Hinf.
    - eapply unit_interval_spec; eauto.
    - eapply unit_interval_spec; eauto.
  Qed.

  Definition EInv (d : deme) : Prop :=
    ok (d_start d) /\ Chain (d_start d) (d_epochs d) /\
    forall e, In e (d_epochs d) -> ValidEpoch e.

  Definition same_core (d d' : deme) : Prop :=
    d_name d' = d_name d /\ d_desc d' = d_desc d /\ d_start d' = d_start d /\
    d_anc d' = d_anc d /\ d_props d' = d_props d.

  Lemma same_core_refl d : same_core d d.
  Proof. repeat split. Qed.

  Lemma same_core_trans a b c : same_core a b -> same_core b c -> same_core a c.
  Proof.
    intros (A1 & A2 & A3 & A4 & A5) (B1 & B2 & B3 & B4 & B5).
    repeat split; congruence.
  Qed.

  Lemma add_epoch_spec d en ss es sf sr cr d' :
    EInv d -> add_epoch d en ss es sf sr cr = Ok d' ->
    same_core d d' /\ EInv d' /\ d_epochs d' <> [].
  Proof.
    intros (Os & Hc & Hv) H. unfold add_epoch in H.
    mbind H r Hr. destruct r as [[start a] b]. cbv beta iota in H.
    mbind H e He. injection H as <-. cbn.
    assert (start = lastend (d_start d) (d_epochs d) /\ ok start) as [Es Ost].
    { destruct (rev (d_epochs d)) as [|p r] eqn:E.
      - assert (d_epochs d = []) as E0.
        { apply (f_equal (@rev _)) in E. rewrite rev_involutive in E. exact E. }
        rewrite E0. cbn. destruct ss, es; try discriminate; injection Hr as <- _ _; auto.
      - injection Hr as <- _ _. rewrite (lastend_rev _ _ _ _ E). split; auto.
        assert (In p (d_epochs d)) as Hin. { apply in_rev. rewrite E. now left. }
        pose proof (ve_end_nonneg _ (Hv p Hin)) as X. apply le_true in X. tauto. }
    destruct (make_epoch_spec _ _ _ _ _ _ _ _ Ost He) as [Ve Ee].
    split; [repeat split|]. split.
    - split; [exact Os|]. split.
      + apply Chain_app; auto. cbn. rewrite Ee, <- Es. now apply eq_refl_ok.
      + intros x Hx. apply in_app_or in Hx. destruct Hx as [Hx|[<-|[]]]; auto.
    - destruct (d_epochs d); discriminate.
  Qed.

  Lemma add_deme_spec g name desc start anc props g1 :
    Idx g -> add_deme g name desc start anc props = Ok g1 ->
    exists d, g_demes g1 = g_demes g ++ [d] /\
      g_index g1 = g_index g ++ [(d_name d, List.length (g_demes g))] /\
      g_migs g1 = g_migs g /\ g_pulses g1 = g_pulses g /\ hdr g1 = hdr g /\
      d_epochs d = [] /\ ok (d_start d) /\
      forall d', same_core d d' -> d_epochs d' <> [] -> Chain (d_start d') (d_epochs d') ->
        (forall e, In e (d_epochs d') -> ValidEpoch e) -> ValidDeme (g_demes g) d'.
  Proof.
    intros I H. unfold add_deme in H.
    mbind H nmk Hk. mraise H Hcont. mbind H ancl Hancl. mbind H u1 Hfa.
    cbv zeta in H.
    mbind H startv Hstart. mraise H Hisnum. mraise H Hroot. mbind H u2 Hanc.
    mbind H nm Hnm. mbind H ds Hds. mbind H st Hst. mbind H u3 Hpos.
    mbind H an Han. mraise H Hnodup. mraise H Hmem. mbind H pr Hpr.
    mraise H Hsum. mbind H u4 Hprs. mraise H Hlen. injection H as <-.
    apply deme_name_of_spec in Hnm. destruct Hnm as [-> Hid].
    injection Hk as <-.
    apply mapM_names in Han. destruct Han as [-> Hanid].
    rewrite map_unstr in *. rewrite map_length in *.
    apply iof_spec in Hst. destruct Hst as (Ost & Est & _).
    fold (jval startv) in Hroot, Hanc. rewrite Est in Hroot, Hanc.
    pose proof (positive_spec _ _ Ost Hpos) as Hpos'.
    assert (forall a, In a an -> exists ad, In ad (g_demes g) /\ d_name ad = a /\ Alive ad st)
      as Hancs.
    { intros a Ha. pose proof (forM_inv _ _ _ Hanc a Ha) as X. cbv beta in X.
      mbind X ad Had. mbind X e He. apply raise_if_ok in X.
      apply negb_false_iff in X. apply andb_true_iff in X. destruct X as [X1 X2].
      apply (lookup_find _ _ _ I) in Had. apply find_deme_spec in Had. destruct Had as [A1 A2].
      exists ad. repeat split; auto. exists e. repeat split; auto. }
    exists (mkDeme nm ds st an pr []). cbn.
    do 7 (split; [reflexivity || assumption|]).
    intros d' (E1 & E2 & E3 & E4 & E5) Hne Hch Hve. cbn in *.
    constructor; rewrite ?E1, ?E3, ?E4, ?E5; auto.
    - exact (contains_false g nm I Hcont).
    - apply nodupb_spec. now apply negb_false_iff in Hnodup.
    - split.
      + intros ->. cbn in Hroot. now apply negb_false_iff in Hroot.
      + intro Hinf. destruct an as [|a an']; [reflexivity|exfalso].
        destruct (Hancs a (or_introl eq_refl)) as (ad & _ & _ & ea & _ & X & _).
        nord.
    - apply negb_false_iff in Hlen. apply Nat.eqb_eq in Hlen. auto.
    - intros p Hp. pose proof (forM_inv _ _ _ Hprs p Hp) as X. cbv beta in X.
      mbind X u5 X1. mbind Hpr l Hl. apply mapM_inv in Hpr.
      destruct (Forall2_in_r _ _ _ Hpr p Hp) as (v & _ & Hv). apply iof_spec in Hv.
      destruct Hv as (Op & _). apply unit_interval_spec in X1. destruct X1 as [Y1 Y2].
      split; auto. eapply positive_spec; eauto.
    - intro Hn. destruct pr as [|p pr']; [congruence|]. cbn in Hsum.
      now apply negb_false_iff in Hsum.
    - rewrite <- E3. exact Hch.
  Qed.

  Definition DInv (g : graph) : Prop :=
    Idx g /\ ValidDemes [] (g_demes g) /\ g_migs g = [] /\ g_pulses g = [].

  Lemma resolve_deme_spec ddef edef g dv g' :
    DInv g -> resolve_deme ddef edef g dv = Ok g' ->
    (DInv g' /\ hdr g' = hdr g) /\ g_demes g' <> [].
  Proof.
    intros (I & Vd & Hm & Hp) H. unfold resolve_deme in H.
    mbind H kv Hkv. mbind H name Hname. mbind H u1 Hca. mbind H g1 Hg1.
    mbind H loc Hloc. mbind H u2 Hca2. mbind H lep Hlep. mbind H u3 Hcde.
    cbv zeta in H. mraise H Hx. mbind H epochs Hep. mraise H Hne.
    mbind H d0 Hd0. mbind H dj Hdj. injection H as <-.
    destruct (add_deme_spec _ _ _ _ _ _ _ I Hg1)
      as (d & G1 & G2 & G3 & G4 & G5 & De & Ds & Hvalid).
    rewrite G1, rev_last_cons in Hd0. injection Hd0 as <-.
    assert (epochs <> []) as Hne'.
    { intros ->. discriminate. }
    assert ((same_core d (fst dj) /\ EInv (fst dj)) /\ d_epochs (fst dj) <> [])
      as [[Sc (_ & Hc & Hv)] Hq].
    { eapply (foldM_inv_ne _
        (fun st : deme * nat => same_core d (fst st) /\ EInv (fst st))
        (fun st : deme * nat => d_epochs (fst st) <> [])); [|exact Hne'| |exact Hdj].
      - intros [d1 j] ev [d2 j2] [S1 E1] X. cbn [fst] in *.
        mbind X ekv Hekv. mbind X u4 Hca3. mbind X en Hen. mbind X d3 Hd3.
        injection X as <- _.
        destruct (add_epoch_spec _ _ _ _ _ _ _ _ E1 Hd3) as (S2 & E2 & Q2).
        split; [split|]; auto. eapply same_core_trans; eauto.
      - cbn [fst]. split; [apply same_core_refl|]. split; auto. rewrite De. cbn.
        split; auto. intros e []. }
    pose proof (Hvalid _ Sc Hq Hc Hv) as Vdj.
    destruct Sc as (N1 & _).
    assert (g_demes (set_last_deme g1 (fst dj)) = g_demes g ++ [fst dj]) as Ed.
    { cbn. rewrite G1, removelast_last. reflexivity. }
    split; [split; [repeat split|]|].
    - unfold Idx. rewrite Ed. cbn [set_last_deme g_index]. rewrite G2, index_from_app, N1.
      rewrite <- I. reflexivity.
    - rewrite Ed. apply ValidDemes_app; auto.
    - cbn. congruence.
    - cbn. congruence.
    - rewrite <- G5. reflexivity.
    - rewrite Ed. destruct (g_demes g); discriminate.
  Qed.
End ResolveDemes.
