(* Non-vacuity, part 2: concrete inputs (over the exact-rational instance NumQ) on which the
   hypotheses of the theorems of Proofs/MsRates.v, Proofs/DocRules.v and Proofs/DocOrder.v
   hold, and what their conclusions say there. *)
From Coq Require Import Bool List String QArith Qabs Lqa Arith Lia Permutation.
From Demes Require Import Base.Num Base.NumQ Base.Py Model.MDM Model.Codec Model.MigMat Model.Resolve
  Model.InGen Model.MsOpt Model.ToMs Model.Validb Spec.Valid Spec.MsSem
  Proofs.ValidbProofs Proofs.MsRates Proofs.DocRules Proofs.DocOrder Proofs.Examples.
Import ListNotations.
Local Open Scope string_scope.
Local Open Scope list_scope.

(* ================================================================== *)
(* PART 1: Proofs/MsRates.v *)

(* Three demes in generations: root A; B branching off A at 100; C an admixture of A and B at 50.
   For the ordered pair A -> B two migrations with adjacent intervals, (80, 40] at rate 1/1000
   and (40, 10] at rate 1/500 (the first ends exactly when the second starts); for the pair
   B -> C one migration (30, 10]; one pulse A -> B at 20. *)
Definition ex2_doc : @jv NumQ :=
  JDict [
    ("time_units", JStr "generations");
    ("demes", JList [
       JDict [("name", JStr "A");
              ("epochs", JList [JDict [("start_size", JI 1000); ("end_time", JI 0)]])];
       JDict [("name", JStr "B"); ("ancestors", JList [JStr "A"]); ("start_time", JI 100);
              ("epochs", JList [JDict [("start_size", JI 500); ("end_time", JI 0)]])];
       JDict [("name", JStr "C"); ("ancestors", JList [JStr "A"; JStr "B"]);
              ("proportions", JList [JF 3 4; JF 1 4]); ("start_time", JI 50);
              ("epochs", JList [JDict [("start_size", JI 200); ("end_time", JI 0)]])]]);
    ("migrations", JList [
       JDict [("source", JStr "A"); ("dest", JStr "B"); ("rate", JF 1 1000);
              ("start_time", JI 80); ("end_time", JI 40)];
       JDict [("source", JStr "A"); ("dest", JStr "B"); ("rate", JF 1 500);
              ("start_time", JI 40); ("end_time", JI 10)];
       JDict [("source", JStr "B"); ("dest", JStr "C"); ("rate", JF 1 2000);
              ("start_time", JI 30); ("end_time", JI 10)]]);
    ("pulses", JList [
       JDict [("sources", JList [JStr "A"]); ("dest", JStr "B"); ("time", JI 20);
              ("proportions", JList [JF 1 10])]])
  ].

Definition ex2_dummy : @graph NumQ := mkGraph "" "" n0 [] JNull [] [] [] [].

Definition ex2_g : @graph NumQ :=
  Eval vm_compute in match fromdict ex2_doc with Ok g => g | Err _ => ex2_dummy end.

Example ex2_resolves : fromdict ex2_doc = Ok ex2_g.
Proof. vm_compute. reflexivity. Qed.


Example ex2_validb : validb ex2_g = true.
Proof. vm_compute. reflexivity. Qed.
Theorem ex2_valid : Valid ex2_g.
Proof. apply validb_sound. exact ex2_validb. Qed.

Definition ex2_gg : @graph NumQ :=
  Eval vm_compute in match in_generations ex2_g with Ok g => g | Err _ => ex2_dummy end.
Example ex2_ingen : in_generations ex2_g = Ok ex2_gg.
Proof. vm_compute. reflexivity. Qed.
Example ex2_gg_validb : validb ex2_gg = true.
Proof. vm_compute. reflexivity. Qed.
Theorem ex2_gg_valid : Valid ex2_gg.
Proof. apply validb_sound. exact ex2_gg_validb. Qed.

Definition ex2_N0 : qx := q 100 1 true.
Definition ex2_ms : nat * list (@msev NumQ) :=
  Eval vm_compute in match to_ms_unscaled ex2_g ex2_N0 with Ok r => r | Err _ => (0%nat, []) end.
Definition ex2_n : nat := Eval vm_compute in fst ex2_ms.
Definition ex2_evs : list (@msev NumQ) := Eval vm_compute in snd ex2_ms.
Example ex2_to_ms : to_ms_unscaled ex2_g ex2_N0 = Ok (ex2_n, ex2_evs).
Proof. vm_compute. reflexivity. Qed.

(* the event list is non-trivial: 3 initial populations, 15 events, among them the two -em of
   the shared boundary at time 40 (switch-off of the second migration, then switch-on of the
   first one, in this order) and the -es/-ej of the pulse (20) and of the admixture (50) *)
Example ex2_ms_shape : ex2_n = 3%nat /\ List.length ex2_evs = 15%nat /\
  filter (fun e => neqb (ev_time e) (q 40 1 true)) ex2_evs
  = [Evm (q 40 1 false) 2 1 (nfloat n0);
     Evm (q 40 1 false) 2 1 (nfloat (nmul (nmul n4 ex2_N0) (q 1 1000 false)))].
Proof. vm_compute. repeat split. Qed.

Definition ex2_dA : @deme NumQ := Eval vm_compute in nth 0 (g_demes ex2_gg) (mkDeme "" "" n0 [] [] []).
Definition ex2_dB : @deme NumQ := Eval vm_compute in nth 1 (g_demes ex2_gg) (mkDeme "" "" n0 [] [] []).
Definition ex2_dC : @deme NumQ := Eval vm_compute in nth 2 (g_demes ex2_gg) (mkDeme "" "" n0 [] [] []).
Definition ex2_m1 : @mig NumQ := mkMig "A" "B" (q 80 1 false) (q 40 1 false) (q 1 1000 false).
Definition ex2_m2 : @mig NumQ := mkMig "A" "B" (q 40 1 false) (q 10 1 false) (q 1 500 false).
Definition ex2_m3 : @mig NumQ := mkMig "B" "C" (q 30 1 false) (q 10 1 false) (q 1 2000 false).
Example ex2_gg_migs : g_migs ex2_gg = [ex2_m1; ex2_m2; ex2_m3].
Proof. reflexivity. Qed.
Example ex2_adjacent : m_src ex2_m1 = m_src ex2_m2 /\ m_dst ex2_m1 = m_dst ex2_m2 /\
                       m_end ex2_m1 = m_start ex2_m2 /\ neqb (m_rate ex2_m1) (m_rate ex2_m2) = false.
Proof. repeat split. Qed.

Definition ex2_cmd : @mscmd NumQ := mkCmd ex2_n true n0 [] ex2_evs.
Definition ex2_state (T : qx) : @mstate NumQ :=
  match ms_at ex2_cmd T with Ok s => s | Err _ => mkSt [] [] end.

(* the hypotheses of to_ms_rates that depend on the time and on the pair (i = destination,
   j = source); the first three (in_generations, Valid, to_ms_unscaled) are ex2_ingen,
   ex2_gg_valid, ex2_to_ms *)
Definition ex2_hyps (T : qx) (st : @mstate NumQ) (i j : nat) (di dj : @deme NumQ) : Prop :=
  ok T /\ nle n0 T = true /\ ms_at (mkCmd ex2_n true n0 [] ex2_evs) T = Ok st /\
  nth_error (g_demes ex2_gg) i = Some di /\ nth_error (g_demes ex2_gg) j = Some dj /\ i <> j /\
  nlt T (d_start di) = true /\ nlt T (d_start dj) = true.

Ltac ex2_hyps_tac :=
  unfold ex2_hyps; repeat (apply conj); try (vm_compute; reflexivity); try discriminate.

Lemma ex2_rates T st i j di dj :
  ex2_hyps T st i j di dj ->
  match active_mig ex2_gg (d_name dj) (d_name di) T with
  | Some m => entry st i j = nfloat (nmul (nmul n4 ex2_N0) (m_rate m))
  | None => ZeroEntry ex2_n (entry st i j)
  end.
Proof.
  intros (H1 & H2 & H3 & H4 & H5 & H6 & H7 & H8).
  exact (to_ms_rates ex2_g ex2_gg ex2_N0 ex2_n ex2_evs T st i j di dj
           ex2_ingen ex2_gg_valid ex2_to_ms H1 H2 H3 H4 H5 H6 H7 H8).
Qed.

(* --- T = 60: inside the first interval (80, 40] --- *)
Definition ex2_T60 : qx := q 60 1 true.
Definition ex2_st60 : @mstate NumQ := Eval vm_compute in ex2_state ex2_T60.
Example ex2_hyps_T60 : ex2_hyps ex2_T60 ex2_st60 1 0 ex2_dB ex2_dA.
Proof. ex2_hyps_tac. Qed.
Example ex2_active_T60 : active_mig ex2_gg (d_name ex2_dA) (d_name ex2_dB) ex2_T60 = Some ex2_m1.
Proof. vm_compute. reflexivity. Qed.
Example ex2_rates_T60 :
  entry ex2_st60 1 0 = nfloat (nmul (nmul n4 ex2_N0) (q 1 1000 false)).
Proof. pose proof (ex2_rates _ _ _ _ _ _ ex2_hyps_T60) as H. rewrite ex2_active_T60 in H. exact H. Qed.
Example ex2_value_T60 : neqb (entry ex2_st60 1 0) (q 2 5 false) = true.
Proof. vm_compute. reflexivity. Qed.

(* --- T = 40: exactly the shared boundary; the first migration (end inclusive) is in force --- *)
Definition ex2_T40 : qx := q 40 1 true.
Definition ex2_st40 : @mstate NumQ := Eval vm_compute in ex2_state ex2_T40.
Example ex2_hyps_T40 : ex2_hyps ex2_T40 ex2_st40 1 0 ex2_dB ex2_dA.
Proof. ex2_hyps_tac. Qed.
Example ex2_active_T40 : active_mig ex2_gg (d_name ex2_dA) (d_name ex2_dB) ex2_T40 = Some ex2_m1.
Proof. vm_compute. reflexivity. Qed.
Example ex2_rates_T40 :
  entry ex2_st40 1 0 = nfloat (nmul (nmul n4 ex2_N0) (q 1 1000 false)).
Proof. pose proof (ex2_rates _ _ _ _ _ _ ex2_hyps_T40) as H. rewrite ex2_active_T40 in H. exact H. Qed.
Example ex2_value_T40 : neqb (entry ex2_st40 1 0) (q 2 5 false) = true.
Proof. vm_compute. reflexivity. Qed.

(* --- T = 20: inside the second interval (40, 10] --- *)
Definition ex2_T20 : qx := q 20 1 true.
Definition ex2_st20 : @mstate NumQ := Eval vm_compute in ex2_state ex2_T20.
Example ex2_hyps_T20 : ex2_hyps ex2_T20 ex2_st20 1 0 ex2_dB ex2_dA.
Proof. ex2_hyps_tac. Qed.
Example ex2_active_T20 : active_mig ex2_gg (d_name ex2_dA) (d_name ex2_dB) ex2_T20 = Some ex2_m2.
Proof. vm_compute. reflexivity. Qed.
Example ex2_rates_T20 :
  entry ex2_st20 1 0 = nfloat (nmul (nmul n4 ex2_N0) (q 1 500 false)).
Proof. pose proof (ex2_rates _ _ _ _ _ _ ex2_hyps_T20) as H. rewrite ex2_active_T20 in H. exact H. Qed.
Example ex2_value_T20 : neqb (entry ex2_st20 1 0) (q 4 5 false) = true.
Proof. vm_compute. reflexivity. Qed.

(* the other pair, B -> C (i = 2, j = 1), at the same time *)
Example ex2_hyps_T20_BC : ex2_hyps ex2_T20 ex2_st20 2 1 ex2_dC ex2_dB.
Proof. ex2_hyps_tac. Qed.
Example ex2_active_T20_BC : active_mig ex2_gg (d_name ex2_dB) (d_name ex2_dC) ex2_T20 = Some ex2_m3.
Proof. vm_compute. reflexivity. Qed.
Example ex2_rates_T20_BC :
  entry ex2_st20 2 1 = nfloat (nmul (nmul n4 ex2_N0) (q 1 2000 false)).
Proof. pose proof (ex2_rates _ _ _ _ _ _ ex2_hyps_T20_BC) as H. rewrite ex2_active_T20_BC in H. exact H. Qed.
Example ex2_value_T20_BC : neqb (entry ex2_st20 2 1) (q 1 5 false) = true.
Proof. vm_compute. reflexivity. Qed.

(* --- T = 90: older than both (after both, backwards in time): no migration in force --- *)
Definition ex2_T90 : qx := q 90 1 true.
Definition ex2_st90 : @mstate NumQ := Eval vm_compute in ex2_state ex2_T90.
Example ex2_hyps_T90 : ex2_hyps ex2_T90 ex2_st90 1 0 ex2_dB ex2_dA.
Proof. ex2_hyps_tac. Qed.
Example ex2_active_T90 : active_mig ex2_gg (d_name ex2_dA) (d_name ex2_dB) ex2_T90 = None.
Proof. vm_compute. reflexivity. Qed.
Example ex2_rates_T90 : ZeroEntry ex2_n (entry ex2_st90 1 0).
Proof. pose proof (ex2_rates _ _ _ _ _ _ ex2_hyps_T90) as H. rewrite ex2_active_T90 in H. exact H. Qed.
(* here it is the float(0) of the switch-off event at 80 *)
Example ex2_value_T90 : entry ex2_st90 1 0 = nfloat n0.
Proof. vm_compute. reflexivity. Qed.

(* --- T = 5: more recent than both: no migration in force, the entry is the initial one --- *)
Definition ex2_T5 : qx := q 5 1 true.
Definition ex2_st5 : @mstate NumQ := Eval vm_compute in ex2_state ex2_T5.
Example ex2_hyps_T5 : ex2_hyps ex2_T5 ex2_st5 1 0 ex2_dB ex2_dA.
Proof. ex2_hyps_tac. Qed.
Example ex2_active_T5 : active_mig ex2_gg (d_name ex2_dA) (d_name ex2_dB) ex2_T5 = None.
Proof. vm_compute. reflexivity. Qed.
Example ex2_rates_T5 : ZeroEntry ex2_n (entry ex2_st5 1 0).
Proof. pose proof (ex2_rates _ _ _ _ _ _ ex2_hyps_T5) as H. rewrite ex2_active_T5 in H. exact H. Qed.
Example ex2_value_T5 : neqb (entry ex2_st5 1 0) nf0 = true.
Proof. vm_compute. reflexivity. Qed.

(* a pair without any migration (B -> A: i = 0, j = 1) inside the first interval *)
Example ex2_hyps_T60_BA : ex2_hyps ex2_T60 ex2_st60 0 1 ex2_dA ex2_dB.
Proof. ex2_hyps_tac. Qed.
Example ex2_rates_T60_BA : ZeroEntry ex2_n (entry ex2_st60 0 1).
Proof. exact (ex2_rates _ _ _ _ _ _ ex2_hyps_T60_BA). Qed.

(* to_ms_alive on C (index 2; ancestors A and B; start time 50) *)
Lemma ex2_alive T st i di :
  ok T -> nle n0 T = true -> ms_at (mkCmd ex2_n true n0 [] ex2_evs) T = Ok st ->
  nth_error (g_demes ex2_gg) i = Some di ->
  exists p, nth_error (st_pops st) i = Some p /\
    alive p = negb (match d_anc di with [] => false | _ => true end && nle (d_start di) T).
Proof.
  exact (to_ms_alive ex2_g ex2_gg ex2_N0 ex2_n ex2_evs T st i di ex2_ingen ex2_gg_valid ex2_to_ms).
Qed.

Example ex2_alive_hyps_T60 :
  ok ex2_T60 /\ nle n0 ex2_T60 = true /\ ms_at (mkCmd ex2_n true n0 [] ex2_evs) ex2_T60 = Ok ex2_st60 /\
  nth_error (g_demes ex2_gg) 2 = Some ex2_dC.
Proof. repeat (apply conj); vm_compute; reflexivity. Qed.
(* at 60 >= 50 the population of C has been emptied by its -ej *)
Example ex2_alive_T60 : exists p, nth_error (st_pops ex2_st60) 2 = Some p /\ alive p = false.
Proof.
  destruct ex2_alive_hyps_T60 as (H1 & H2 & H3 & H4).
  destruct (ex2_alive _ _ _ _ H1 H2 H3 H4) as (p & Hp & Ha).
  exists p. split; [exact Hp|]. rewrite Ha. vm_compute. reflexivity.
Qed.

Example ex2_alive_hyps_T20 :
  ok ex2_T20 /\ nle n0 ex2_T20 = true /\ ms_at (mkCmd ex2_n true n0 [] ex2_evs) ex2_T20 = Ok ex2_st20 /\
  nth_error (g_demes ex2_gg) 2 = Some ex2_dC.
Proof. repeat (apply conj); vm_compute; reflexivity. Qed.
(* at 20 < 50 it still holds lineages *)
Example ex2_alive_T20 : exists p, nth_error (st_pops ex2_st20) 2 = Some p /\ alive p = true.
Proof.
  destruct ex2_alive_hyps_T20 as (H1 & H2 & H3 & H4).
  destruct (ex2_alive _ _ _ _ H1 H2 H3 H4) as (p & Hp & Ha).
  exists p. split; [exact Hp|]. rewrite Ha. vm_compute. reflexivity.
Qed.

(* the root A (no ancestors) is never emptied, even at a time older than every event *)
Example ex2_alive_hyps_T90_A :
  ok ex2_T90 /\ nle n0 ex2_T90 = true /\ ms_at (mkCmd ex2_n true n0 [] ex2_evs) ex2_T90 = Ok ex2_st90 /\
  nth_error (g_demes ex2_gg) 0 = Some ex2_dA.
Proof. repeat (apply conj); vm_compute; reflexivity. Qed.
Example ex2_alive_T90_A : exists p, nth_error (st_pops ex2_st90) 0 = Some p /\ alive p = true.
Proof.
  destruct ex2_alive_hyps_T90_A as (H1 & H2 & H3 & H4).
  destruct (ex2_alive _ _ _ _ H1 H2 H3 H4) as (p & Hp & Ha).
  exists p. split; [exact Hp|]. rewrite Ha. vm_compute. reflexivity.
Qed.

(* ================================================================== *)
(* PART 2: Proofs/DocRules.v.  Every theorem there is an equation between two runs of a
   resolution step; each example below checks the hypotheses of one theorem on a concrete
   document and shows that both runs succeed (with the same graph, by the theorem). *)

Lemma ex2_both_ok {A} (x y : res A) a : x = y -> x = Ok a -> x = Ok a /\ y = Ok a.
Proof. intros E H. split; [exact H|]. rewrite <- E. exact H. Qed.

Lemma ex2_both_ok3 {A} (x y : res A) a (P : Prop) :
  x = y -> x = Ok a -> P -> x = Ok a /\ y = Ok a /\ P.
Proof. intros E H p. split; [exact H|]. split; [rewrite <- E; exact H|exact p]. Qed.

Ltac ex2_hyp := repeat (apply conj); try reflexivity; try (vm_compute; reflexivity).

Definition ex2_nodef : list (string * @jv NumQ) := [].

(* the empty graph of a document in generations *)
Definition ex2_g0 : @graph NumQ :=
  Eval vm_compute in
    match make_graph (JStr "") (JStr "generations") (JList []) JNull (JDict []) with
    | Ok g => g | Err _ => ex2_dummy end.
Example ex2_g0_ok : make_graph (JStr "") (JStr "generations") (JList []) JNull (JDict []) = Ok ex2_g0.
Proof. vm_compute. reflexivity. Qed.

(* A: a root that ends at 50; B: descends from A (start time and proportions left to
   resolution); R: a second root alive until 0 *)
Definition ex2_kvA : list (string * @jv NumQ) :=
  [("name", JStr "A"); ("epochs", JList [JDict [("start_size", JI 1000); ("end_time", JI 50)]])].
Definition ex2_kvB : list (string * @jv NumQ) :=
  [("name", JStr "B"); ("ancestors", JList [JStr "A"]); ("epochs", JList [JDict [("start_size", JI 500)]])].
Definition ex2_kvR : list (string * @jv NumQ) :=
  [("name", JStr "R"); ("epochs", JList [JDict [("start_size", JI 300); ("end_time", JI 0)]])].

Definition ex2_step (g : @graph NumQ) (kv : list (string * @jv NumQ)) : @graph NumQ :=
  match resolve_deme ex2_nodef ex2_nodef g (JDict kv) with Ok g' => g' | Err _ => ex2_dummy end.
Definition ex2_gA : @graph NumQ := Eval vm_compute in ex2_step ex2_g0 ex2_kvA.
Definition ex2_gAB : @graph NumQ := Eval vm_compute in ex2_step ex2_gA ex2_kvB.
Definition ex2_gABR : @graph NumQ := Eval vm_compute in ex2_step ex2_gAB ex2_kvR.
Example ex2_prefix_graphs :
  resolve_deme ex2_nodef ex2_nodef ex2_g0 (JDict ex2_kvA) = Ok ex2_gA /\
  resolve_deme ex2_nodef ex2_nodef ex2_gA (JDict ex2_kvB) = Ok ex2_gAB /\
  resolve_deme ex2_nodef ex2_nodef ex2_gAB (JDict ex2_kvR) = Ok ex2_gABR /\
  map d_name (g_demes ex2_gABR) = ["A"; "B"; "R"] /\
  map d_start (g_demes ex2_gABR) = [ninf; q 50 1 true; ninf].
Proof. ex2_hyp. Qed.

(* ---- demes ---- *)
Example ex2_doc_deme_start_root :
  (absent "start_time" ex2_kvA /\ absent "start_time" ex2_nodef /\
   field_nn ex2_kvA ex2_nodef "ancestors" = None) /\
  exists g', resolve_deme ex2_nodef ex2_nodef ex2_g0 (JDict ex2_kvA) = Ok g' /\
             resolve_deme ex2_nodef ex2_nodef ex2_g0 (JDict (("start_time", JNum ninf) :: ex2_kvA)) = Ok g'.
Proof.
  assert (H : absent "start_time" ex2_kvA /\ absent "start_time" ex2_nodef /\
              field_nn ex2_kvA ex2_nodef "ancestors" = None) by ex2_hyp.
  split; [exact H|]. destruct H as (H1 & H2 & H3). eexists. apply ex2_both_ok.
  - exact (doc_deme_start_root _ _ _ _ H1 H2 H3).
  - vm_compute. reflexivity.
Qed.

Definition ex2_adA : @deme NumQ := Eval vm_compute in nth 0 (g_demes ex2_gA) (mkDeme "" "" n0 [] [] []).

Example ex2_doc_deme_start_single :
  (absent "start_time" ex2_kvB /\ absent "start_time" ex2_nodef /\
   field_nn ex2_kvB ex2_nodef "ancestors" = Some (JList [JStr "A"]) /\
   lookup ex2_gA "A" = Ok ex2_adA /\ d_end ex2_adA = Ok (q 50 1 true)) /\
  exists g', resolve_deme ex2_nodef ex2_nodef ex2_gA (JDict ex2_kvB) = Ok g' /\
             resolve_deme ex2_nodef ex2_nodef ex2_gA (JDict (("start_time", JNum (q 50 1 true)) :: ex2_kvB)) = Ok g'.
Proof.
  assert (H : absent "start_time" ex2_kvB /\ absent "start_time" ex2_nodef /\
              field_nn ex2_kvB ex2_nodef "ancestors" = Some (JList [JStr "A"]) /\
              lookup ex2_gA "A" = Ok ex2_adA /\ d_end ex2_adA = Ok (q 50 1 true)) by ex2_hyp.
  split; [exact H|]. destruct H as (H1 & H2 & H3 & H4 & H5). eexists. apply ex2_both_ok.
  - exact (doc_deme_start_single _ _ _ _ _ _ _ H1 H2 H3 H4 H5).
  - vm_compute. reflexivity.
Qed.

Example ex2_doc_deme_props_single :
  (absent "proportions" ex2_kvB /\ absent "proportions" ex2_nodef /\
   field_nn ex2_kvB ex2_nodef "ancestors" = Some (JList [JStr "A"])) /\
  exists g', resolve_deme ex2_nodef ex2_nodef ex2_gA (JDict ex2_kvB) = Ok g' /\
             resolve_deme ex2_nodef ex2_nodef ex2_gA (JDict (("proportions", JList [JNum nf1]) :: ex2_kvB)) = Ok g'.
Proof.
  assert (H : absent "proportions" ex2_kvB /\ absent "proportions" ex2_nodef /\
              field_nn ex2_kvB ex2_nodef "ancestors" = Some (JList [JStr "A"])) by ex2_hyp.
  split; [exact H|]. destruct H as (H1 & H2 & H3). eexists. apply ex2_both_ok.
  - exact (doc_deme_props_single _ _ _ _ _ H1 H2 H3).
  - vm_compute. reflexivity.
Qed.

Example ex2_doc_deme_props_none :
  (absent "proportions" ex2_kvA /\ absent "proportions" ex2_nodef /\
   field_nn ex2_kvA ex2_nodef "ancestors" = None) /\
  exists g', resolve_deme ex2_nodef ex2_nodef ex2_g0 (JDict ex2_kvA) = Ok g' /\
             resolve_deme ex2_nodef ex2_nodef ex2_g0 (JDict (("proportions", JList []) :: ex2_kvA)) = Ok g'.
Proof.
  assert (H : absent "proportions" ex2_kvA /\ absent "proportions" ex2_nodef /\
              field_nn ex2_kvA ex2_nodef "ancestors" = None) by ex2_hyp.
  split; [exact H|]. destruct H as (H1 & H2 & H3). eexists. apply ex2_both_ok.
  - exact (doc_deme_props_none _ _ _ _ H1 H2 H3).
  - vm_compute. reflexivity.
Qed.

Example ex2_doc_deme_ancestors_none :
  (absent "ancestors" ex2_kvA /\ absent "ancestors" ex2_nodef) /\
  exists g', resolve_deme ex2_nodef ex2_nodef ex2_g0 (JDict ex2_kvA) = Ok g' /\
             resolve_deme ex2_nodef ex2_nodef ex2_g0 (JDict (("ancestors", JList []) :: ex2_kvA)) = Ok g'.
Proof.
  assert (H : absent "ancestors" ex2_kvA /\ absent "ancestors" ex2_nodef) by ex2_hyp.
  split; [exact H|]. destruct H as (H1 & H2). eexists. apply ex2_both_ok.
  - exact (doc_deme_ancestors_none _ _ _ _ H1 H2).
  - vm_compute. reflexivity.
Qed.

Example ex2_doc_deme_description :
  (absent "description" ex2_kvA /\ absent "description" ex2_nodef) /\
  exists g', resolve_deme ex2_nodef ex2_nodef ex2_g0 (JDict ex2_kvA) = Ok g' /\
             resolve_deme ex2_nodef ex2_nodef ex2_g0 (JDict (("description", JStr "") :: ex2_kvA)) = Ok g'.
Proof.
  assert (H : absent "description" ex2_kvA /\ absent "description" ex2_nodef) by ex2_hyp.
  split; [exact H|]. destruct H as (H1 & H2). eexists. apply ex2_both_ok.
  - exact (doc_deme_description _ _ _ _ H1 H2).
  - vm_compute. reflexivity.
Qed.

(* deme defaults giving the ancestors; a deme that does not name its ancestors *)
Definition ex2_ddef : list (string * @jv NumQ) :=
  [("description", JStr "from the defaults"); ("ancestors", JList [JStr "A"])].
Definition ex2_kvB0 : list (string * @jv NumQ) :=
  [("name", JStr "B"); ("epochs", JList [JDict [("start_size", JI 500)]])].

Example ex2_doc_deme_default_copied :
  (In "ancestors" ["description"; "start_time"; "ancestors"; "proportions"] /\
   absent "ancestors" ex2_kvB0 /\ assoc "ancestors" ex2_ddef = Some (JList [JStr "A"])) /\
  exists g', resolve_deme ex2_ddef ex2_nodef ex2_gA (JDict ex2_kvB0) = Ok g' /\
             resolve_deme ex2_ddef ex2_nodef ex2_gA
               (JDict (("ancestors", JList [JStr "A"]) :: ex2_kvB0)) = Ok g' /\
             map d_anc (g_demes g') = [[]; ["A"]].
Proof.
  assert (H : In "ancestors" ["description"; "start_time"; "ancestors"; "proportions"] /\
              absent "ancestors" ex2_kvB0 /\ assoc "ancestors" ex2_ddef = Some (JList [JStr "A"])).
  { split; [cbn; tauto|]. ex2_hyp. }
  split; [exact H|]. destruct H as (H1 & H2 & H3). eexists.
  apply ex2_both_ok3.
  - exact (doc_deme_default_copied _ _ _ _ _ _ H1 H2 H3).
  - vm_compute. reflexivity.
  - reflexivity.
Qed.

(* ---- epochs: a root deme S written as  pre ++ ("epochs", ...) :: post ---- *)
Definition ex2_pre : list (string * @jv NumQ) := [("name", JStr "S")].
Definition ex2_post : list (string * @jv NumQ) := [("description", JStr "a root deme")].
Definition ex2_e1 : @jv NumQ := JDict [("start_size", JI 300); ("end_time", JI 100)].
Definition ex2_ekv2 : list (string * @jv NumQ) := [("start_size", JI 400); ("end_time", JI 50)].
Definition ex2_e3 : @jv NumQ := JDict [("end_time", JI 0)].

Example ex2_doc_epoch_last_end_time :
  (absent "epochs" ex2_pre /\ absent "defaults" ex2_pre /\ absent "defaults" ex2_post /\
   absent "end_time" [("start_size", JI 400)] /\ absent "end_time" ex2_nodef) /\
  exists g', resolve_deme ex2_nodef ex2_nodef ex2_g0
               (with_epochs ex2_pre ex2_post ([ex2_e1] ++ [JDict [("start_size", JI 400)]])) = Ok g' /\
             resolve_deme ex2_nodef ex2_nodef ex2_g0
               (with_epochs ex2_pre ex2_post
                  ([ex2_e1] ++ [JDict (("end_time", JNum n0) :: [("start_size", JI 400)])])) = Ok g'.
Proof.
  assert (H : absent "epochs" ex2_pre /\ absent "defaults" ex2_pre /\ absent "defaults" ex2_post /\
              absent "end_time" [("start_size", JI 400)] /\ absent "end_time" ex2_nodef) by ex2_hyp.
  split; [exact H|]. destruct H as (H1 & H2 & H3 & H4 & H5). eexists. apply ex2_both_ok.
  - exact (doc_epoch_last_end_time _ _ _ _ _ _ _ H1 H2 H3 H4 H5).
  - vm_compute. reflexivity.
Qed.

Example ex2_doc_epoch_rate_default :
  (In "selfing_rate" ["selfing_rate"; "cloning_rate"] /\
   absent "epochs" ex2_pre /\ absent "defaults" ex2_pre /\ absent "defaults" ex2_post /\
   absent "selfing_rate" ex2_ekv2 /\ absent "selfing_rate" ex2_nodef) /\
  exists g', resolve_deme ex2_nodef ex2_nodef ex2_g0
               (with_epochs ex2_pre ex2_post ([ex2_e1] ++ JDict ex2_ekv2 :: [ex2_e3])) = Ok g' /\
             resolve_deme ex2_nodef ex2_nodef ex2_g0
               (with_epochs ex2_pre ex2_post
                  ([ex2_e1] ++ JDict (("selfing_rate", JNum n0) :: ex2_ekv2) :: [ex2_e3])) = Ok g'.
Proof.
  assert (H : In "selfing_rate" ["selfing_rate"; "cloning_rate"] /\
              absent "epochs" ex2_pre /\ absent "defaults" ex2_pre /\ absent "defaults" ex2_post /\
              absent "selfing_rate" ex2_ekv2 /\ absent "selfing_rate" ex2_nodef).
  { split; [cbn; tauto|]. ex2_hyp. }
  split; [exact H|]. destruct H as (H1 & H2 & H3 & H4 & H5 & H6). eexists. apply ex2_both_ok.
  - exact (doc_epoch_rate_default _ _ _ _ _ _ _ _ _ H1 H2 H3 H4 H5 H6).
  - vm_compute. reflexivity.
Qed.

Definition ex2_edef : list (string * @jv NumQ) := [("selfing_rate", JF 1 10)].

Example ex2_doc_epoch_default_copied :
  (In "selfing_rate" epoch_fields /\
   absent "epochs" ex2_pre /\ absent "defaults" ex2_pre /\ absent "defaults" ex2_post /\
   absent "selfing_rate" ex2_ekv2 /\ assoc "selfing_rate" ex2_edef = Some (JF 1 10)) /\
  exists g', resolve_deme ex2_nodef ex2_edef ex2_g0
               (with_epochs ex2_pre ex2_post ([ex2_e1] ++ JDict ex2_ekv2 :: [ex2_e3])) = Ok g' /\
             resolve_deme ex2_nodef ex2_edef ex2_g0
               (with_epochs ex2_pre ex2_post
                  ([ex2_e1] ++ JDict (("selfing_rate", JF 1 10) :: ex2_ekv2) :: [ex2_e3])) = Ok g'.
Proof.
  assert (H : In "selfing_rate" epoch_fields /\
              absent "epochs" ex2_pre /\ absent "defaults" ex2_pre /\ absent "defaults" ex2_post /\
              absent "selfing_rate" ex2_ekv2 /\ assoc "selfing_rate" ex2_edef = Some (JF 1 10)).
  { split; [cbn; tauto|]. ex2_hyp. }
  split; [exact H|]. destruct H as (H1 & H2 & H3 & H4 & H5 & H6). eexists. apply ex2_both_ok.
  - exact (doc_epoch_default_copied _ _ _ _ _ _ _ _ _ _ H1 H2 H3 H4 H5 H6).
  - vm_compute. reflexivity.
Qed.

Definition ex2_ekv1s : list (string * @jv NumQ) := [("start_size", JI 300); ("end_time", JI 100)].
Definition ex2_ekv1e : list (string * @jv NumQ) := [("end_size", JI 300); ("end_time", JI 100)].

Example ex2_doc_first_epoch_end_size :
  (absent "epochs" ex2_pre /\ absent "defaults" ex2_pre /\ absent "defaults" ex2_post /\
   absent "end_size" ex2_ekv1s /\ absent "end_size" ex2_nodef /\
   field_nn ex2_ekv1s ex2_nodef "start_size" = Some (JI 300)) /\
  exists g', resolve_deme ex2_nodef ex2_nodef ex2_g0
               (with_epochs ex2_pre ex2_post (JDict ex2_ekv1s :: [JDict ex2_ekv2; ex2_e3])) = Ok g' /\
             resolve_deme ex2_nodef ex2_nodef ex2_g0
               (with_epochs ex2_pre ex2_post
                  (JDict (("end_size", JI 300) :: ex2_ekv1s) :: [JDict ex2_ekv2; ex2_e3])) = Ok g'.
Proof.
  assert (H : absent "epochs" ex2_pre /\ absent "defaults" ex2_pre /\ absent "defaults" ex2_post /\
              absent "end_size" ex2_ekv1s /\ absent "end_size" ex2_nodef /\
              field_nn ex2_ekv1s ex2_nodef "start_size" = Some (JI 300)) by ex2_hyp.
  split; [exact H|]. destruct H as (H1 & H2 & H3 & H4 & H5 & H6). eexists. apply ex2_both_ok.
  - exact (doc_first_epoch_end_size _ _ _ _ _ _ _ _ H1 H2 H3 H4 H5 H6).
  - vm_compute. reflexivity.
Qed.

Example ex2_doc_first_epoch_start_size :
  (absent "epochs" ex2_pre /\ absent "defaults" ex2_pre /\ absent "defaults" ex2_post /\
   absent "start_size" ex2_ekv1e /\ absent "start_size" ex2_nodef /\
   field_nn ex2_ekv1e ex2_nodef "end_size" = Some (JI 300)) /\
  exists g', resolve_deme ex2_nodef ex2_nodef ex2_g0
               (with_epochs ex2_pre ex2_post (JDict ex2_ekv1e :: [JDict ex2_ekv2; ex2_e3])) = Ok g' /\
             resolve_deme ex2_nodef ex2_nodef ex2_g0
               (with_epochs ex2_pre ex2_post
                  (JDict (("start_size", JI 300) :: ex2_ekv1e) :: [JDict ex2_ekv2; ex2_e3])) = Ok g'.
Proof.
  assert (H : absent "epochs" ex2_pre /\ absent "defaults" ex2_pre /\ absent "defaults" ex2_post /\
              absent "start_size" ex2_ekv1e /\ absent "start_size" ex2_nodef /\
              field_nn ex2_ekv1e ex2_nodef "end_size" = Some (JI 300)) by ex2_hyp.
  split; [exact H|]. destruct H as (H1 & H2 & H3 & H4 & H5 & H6). eexists. apply ex2_both_ok.
  - exact (doc_first_epoch_start_size _ _ _ _ _ _ _ _ H1 H2 H3 H4 H5 H6).
  - vm_compute. reflexivity.
Qed.

(* ---- migrations and pulses, on the graph of A, B, R (B and R coexist on [0, 50)) ---- *)
Definition ex2_kvm : list (string * @jv NumQ) :=
  [("source", JStr "B"); ("dest", JStr "R"); ("rate", JF 1 1000)].

Example ex2_doc_migration_bounds :
  (field_nn ex2_kvm ex2_nodef "demes" = None /\
   field_nn ex2_kvm ex2_nodef "source" = Some (JStr "B") /\
   field_nn ex2_kvm ex2_nodef "dest" = Some (JStr "R") /\
   absent "start_time" ex2_kvm /\ absent "start_time" ex2_nodef /\
   absent "end_time" ex2_kvm /\ absent "end_time" ex2_nodef /\
   time_intersection ex2_gABR "B" "R" None = Ok (q 0 1 true, q 50 1 true) /\
   nle (q 0 1 true) (q 50 1 true) = true) /\
  exists g', resolve_migration ex2_nodef ex2_gABR (JDict ex2_kvm) = Ok g' /\
             resolve_migration ex2_nodef ex2_gABR
               (JDict (("start_time", JNum (q 50 1 true)) :: ("end_time", JNum (q 0 1 true)) :: ex2_kvm)) = Ok g' /\
             List.length (g_migs g') = 1%nat.
Proof.
  assert (H : field_nn ex2_kvm ex2_nodef "demes" = None /\
              field_nn ex2_kvm ex2_nodef "source" = Some (JStr "B") /\
              field_nn ex2_kvm ex2_nodef "dest" = Some (JStr "R") /\
              absent "start_time" ex2_kvm /\ absent "start_time" ex2_nodef /\
              absent "end_time" ex2_kvm /\ absent "end_time" ex2_nodef /\
              time_intersection ex2_gABR "B" "R" None = Ok (q 0 1 true, q 50 1 true) /\
              nle (q 0 1 true) (q 50 1 true) = true) by ex2_hyp.
  split; [exact H|]. destruct H as (H1 & H2 & H3 & H4 & H5 & H6 & H7 & H8 & H9). eexists.
  apply ex2_both_ok3.
  - exact (doc_migration_bounds _ _ _ _ _ _ _ H1 H2 H3 H4 H5 H6 H7 H8 H9).
  - vm_compute. reflexivity.
  - reflexivity.
Qed.

Definition ex2_kvsym : list (string * @jv NumQ) :=
  [("demes", JList [JStr "B"; JStr "R"]); ("rate", JF 1 1000)].

Example ex2_doc_symmetric_pair :
  (JStr "B" <> @JNull NumQ /\ JStr "R" <> @JNull NumQ /\
   assoc "demes" ex2_kvsym = Some (JList [JStr "B"; JStr "R"]) /\
   absent "source" ex2_kvsym /\ absent "dest" ex2_kvsym /\
   absent "demes" ex2_nodef /\ absent "source" ex2_nodef /\ absent "dest" ex2_nodef) /\
  exists g', resolve_migration ex2_nodef ex2_gABR (JDict ex2_kvsym) = Ok g' /\
             (g1 <- resolve_migration ex2_nodef ex2_gABR
                      (JDict (("source", JStr "B") :: ("dest", JStr "R") :: remove_key "demes" ex2_kvsym)) ;;
              resolve_migration ex2_nodef g1
                (JDict (("source", JStr "R") :: ("dest", JStr "B") :: remove_key "demes" ex2_kvsym))) = Ok g' /\
             map (fun m => (m_src m, m_dst m)) (g_migs g') = [("B", "R"); ("R", "B")].
Proof.
  assert (H : JStr "B" <> @JNull NumQ /\ JStr "R" <> @JNull NumQ /\
              assoc "demes" ex2_kvsym = Some (JList [JStr "B"; JStr "R"]) /\
              absent "source" ex2_kvsym /\ absent "dest" ex2_kvsym /\
              absent "demes" ex2_nodef /\ absent "source" ex2_nodef /\ absent "dest" ex2_nodef).
  { split; [discriminate|]. split; [discriminate|]. ex2_hyp. }
  split; [exact H|]. destruct H as (H1 & H2 & H3 & H4 & H5 & H6 & H7 & H8). eexists.
  apply ex2_both_ok3.
  - exact (doc_symmetric_pair _ _ _ _ _ H1 H2 H3 H4 H5 H6 H7 H8).
  - vm_compute. reflexivity.
  - reflexivity.
Qed.

Definition ex2_mdef : list (string * @jv NumQ) := [("rate", JF 1 1000)].
Definition ex2_kvm0 : list (string * @jv NumQ) := [("source", JStr "B"); ("dest", JStr "R")].

Example ex2_doc_migration_default_copied :
  (In "rate" migration_fields /\ absent "rate" ex2_kvm0 /\ assoc "rate" ex2_mdef = Some (JF 1 1000)) /\
  exists g', resolve_migration ex2_mdef ex2_gABR (JDict ex2_kvm0) = Ok g' /\
             resolve_migration ex2_mdef ex2_gABR (JDict (("rate", JF 1 1000) :: ex2_kvm0)) = Ok g'.
Proof.
  assert (H : In "rate" migration_fields /\ absent "rate" ex2_kvm0 /\
              assoc "rate" ex2_mdef = Some (JF 1 1000)).
  { split; [cbn; tauto|]. ex2_hyp. }
  split; [exact H|]. destruct H as (H1 & H2 & H3). eexists. apply ex2_both_ok.
  - exact (doc_migration_default_copied _ _ _ _ _ H1 H2 H3).
  - vm_compute. reflexivity.
Qed.

Definition ex2_pdef : list (string * @jv NumQ) := [("proportions", JList [JF 1 10])].
Definition ex2_kvp : list (string * @jv NumQ) :=
  [("sources", JList [JStr "R"]); ("dest", JStr "B"); ("time", JI 20)].

Example ex2_doc_pulse_default_copied :
  (In "proportions" pulse_fields /\ absent "proportions" ex2_kvp /\
   assoc "proportions" ex2_pdef = Some (JList [JF 1 10])) /\
  exists g', resolve_pulse ex2_pdef ex2_gABR (JDict ex2_kvp) = Ok g' /\
             resolve_pulse ex2_pdef ex2_gABR (JDict (("proportions", JList [JF 1 10]) :: ex2_kvp)) = Ok g' /\
             List.length (g_pulses g') = 1%nat.
Proof.
  assert (H : In "proportions" pulse_fields /\ absent "proportions" ex2_kvp /\
              assoc "proportions" ex2_pdef = Some (JList [JF 1 10])).
  { split; [cbn; tauto|]. ex2_hyp. }
  split; [exact H|]. destruct H as (H1 & H2 & H3). eexists.
  apply ex2_both_ok3.
  - exact (doc_pulse_default_copied _ _ _ _ _ H1 H2 H3).
  - vm_compute. reflexivity.
  - reflexivity.
Qed.

(* ---- top level ---- *)
Definition ex2_top : list (string * @jv NumQ) :=
  [("time_units", JStr "generations");
   ("demes", JList [JDict ex2_kvA; JDict ex2_kvB; JDict ex2_kvR])].

Example ex2_doc_top_optional :
  (In ("migrations", @JList NumQ [])
      [("description", JStr ""); ("doi", JList []); ("metadata", JDict []);
       ("migrations", JList []); ("pulses", JList []); ("defaults", JDict [])] /\
   absent "migrations" ex2_top) /\
  exists g', fromdict (JDict ex2_top) = Ok g' /\
             fromdict (JDict (("migrations", JList []) :: ex2_top)) = Ok g'.
Proof.
  assert (H : In ("migrations", @JList NumQ [])
                 [("description", JStr ""); ("doi", JList []); ("metadata", JDict []);
                  ("migrations", JList []); ("pulses", JList []); ("defaults", JDict [])] /\
              absent "migrations" ex2_top).
  { split; [cbn; tauto|reflexivity]. }
  split; [exact H|]. destruct H as (H1 & H2). eexists. apply ex2_both_ok.
  - exact (doc_top_optional _ _ _ H1 H2).
  - vm_compute. reflexivity.
Qed.

Example ex2_doc_top_generation_time :
  (assoc "time_units" ex2_top = Some (JStr "generations") /\ absent "generation_time" ex2_top) /\
  exists g', fromdict (JDict ex2_top) = Ok g' /\
             fromdict (JDict (("generation_time", JNum n1) :: ex2_top)) = Ok g'.
Proof.
  assert (H : assoc "time_units" ex2_top = Some (JStr "generations") /\
              absent "generation_time" ex2_top) by ex2_hyp.
  split; [exact H|]. destruct H as (H1 & H2). eexists. apply ex2_both_ok.
  - exact (doc_top_generation_time _ H1 H2).
  - vm_compute. reflexivity.
Qed.

(* whole-document congruence.  Its hypothesis quantifies over every default and every graph, so
   the two deme documents must agree whatever the graph-level defaults are: here a deme with
   deme-local epoch defaults, and the same deme with the local default for end_time copied
   into its last epoch (a local default overrides any graph-level one). *)
Definition ex2_loc : @jv NumQ := JDict [("epoch", JDict [("end_time", JI 0); ("start_size", JI 700)])].
Definition ex2_dL : @jv NumQ :=
  JDict [("name", JStr "L"); ("defaults", ex2_loc); ("epochs", JList [JDict []])].
Definition ex2_dL' : @jv NumQ :=
  JDict [("name", JStr "L"); ("defaults", ex2_loc); ("epochs", JList [JDict [("end_time", JI 0)]])].
Definition ex2_topL : list (string * @jv NumQ) :=
  [("time_units", JStr "generations"); ("demes", JList [ex2_dL; JDict ex2_kvR])].
Definition ex2_topL' : list (string * @jv NumQ) :=
  [("time_units", JStr "generations"); ("demes", JList [ex2_dL'; JDict ex2_kvR])].

Lemma ex2_dL_same ddef edef h : resolve_deme ddef edef h ex2_dL = resolve_deme ddef edef h ex2_dL'.
Proof. reflexivity. Qed.

Example ex2_doc_fromdict_demes_ext :
  ((forall k, k <> "demes" -> assoc k ex2_topL = assoc k ex2_topL') /\
   map fst ex2_topL = map fst ex2_topL' /\
   assoc "demes" ex2_topL = Some (JList [ex2_dL; JDict ex2_kvR]) /\
   assoc "demes" ex2_topL' = Some (JList [ex2_dL'; JDict ex2_kvR]) /\
   Forall2 (fun x y => is_dict x = is_dict y /\
                       forall ddef edef h, resolve_deme ddef edef h x = resolve_deme ddef edef h y)
           [ex2_dL; JDict ex2_kvR] [ex2_dL'; JDict ex2_kvR]) /\
  ex2_topL <> ex2_topL' /\
  exists g', fromdict (JDict ex2_topL) = Ok g' /\ fromdict (JDict ex2_topL') = Ok g'.
Proof.
  assert (H : (forall k, k <> "demes" -> assoc k ex2_topL = assoc k ex2_topL') /\
              map fst ex2_topL = map fst ex2_topL' /\
              assoc "demes" ex2_topL = Some (JList [ex2_dL; JDict ex2_kvR]) /\
              assoc "demes" ex2_topL' = Some (JList [ex2_dL'; JDict ex2_kvR]) /\
              Forall2 (fun x y => is_dict x = is_dict y /\
                         forall ddef edef h, resolve_deme ddef edef h x = resolve_deme ddef edef h y)
                      [ex2_dL; JDict ex2_kvR] [ex2_dL'; JDict ex2_kvR]).
  { split; [|split; [reflexivity|split; [reflexivity|split; [reflexivity|]]]].
    - intros k Hk. unfold ex2_topL, ex2_topL'. cbn [assoc].
      destruct (String.eqb k "time_units"); [reflexivity|].
      destruct (String.eqb k "demes") eqn:E; [|reflexivity].
      apply String.eqb_eq in E. contradiction.
    - constructor; [split; [reflexivity|exact ex2_dL_same]|].
      constructor; [split; [reflexivity|reflexivity]|]. constructor. }
  split; [exact H|]. destruct H as (H1 & H2 & H3 & H4 & H5).
  split; [unfold ex2_topL, ex2_topL', ex2_dL, ex2_dL'; intro X; discriminate X|].
  eexists. apply ex2_both_ok.
  - exact (doc_fromdict_demes_ext _ _ _ _ H1 H2 H3 H4 H5).
  - vm_compute. reflexivity.
Qed.

(* ================================================================== *)
(* PART 3: Proofs/DocOrder.v.  Two documents that differ only in the order of keys: at top
   level (reversed), inside the defaults and inside the epoch defaults (swapped), inside both
   demes (swapped / rotated) and inside an epoch (swapped). *)

Definition ex2_o_ep : list (string * @jv NumQ) := [("start_size", JI 2000); ("end_time", JI 0)].
Definition ex2_o_ep' : list (string * @jv NumQ) := [("end_time", JI 0); ("start_size", JI 2000)].
Definition ex2_o_epsA : @jv NumQ := JList [JDict [("end_time", JI 50)]; JDict ex2_o_ep].
Definition ex2_o_epsA' : @jv NumQ := JList [JDict [("end_time", JI 50)]; JDict ex2_o_ep'].
Definition ex2_o_epsB : @jv NumQ := JList [JDict [("start_size", JI 500); ("end_time", JI 0)]].

Definition ex2_o_dA : list (string * @jv NumQ) := [("name", JStr "A"); ("epochs", ex2_o_epsA)].
Definition ex2_o_dA1 : list (string * @jv NumQ) := [("name", JStr "A"); ("epochs", ex2_o_epsA')].
Definition ex2_o_dA' : list (string * @jv NumQ) := [("epochs", ex2_o_epsA'); ("name", JStr "A")].
Definition ex2_o_dB : list (string * @jv NumQ) :=
  [("name", JStr "B"); ("ancestors", JList [JStr "A"]); ("start_time", JI 100); ("epochs", ex2_o_epsB)].
Definition ex2_o_dB' : list (string * @jv NumQ) :=
  [("start_time", JI 100); ("epochs", ex2_o_epsB); ("name", JStr "B"); ("ancestors", JList [JStr "A"])].

Definition ex2_o_edef : list (string * @jv NumQ) := [("start_size", JI 1000); ("selfing_rate", JF 1 10)].
Definition ex2_o_edef' : list (string * @jv NumQ) := [("selfing_rate", JF 1 10); ("start_size", JI 1000)].
Definition ex2_o_mdef : @jv NumQ := JDict [("rate", JF 1 1000)].
Definition ex2_o_def : list (string * @jv NumQ) := [("epoch", JDict ex2_o_edef); ("migration", ex2_o_mdef)].
Definition ex2_o_def1 : list (string * @jv NumQ) := [("epoch", JDict ex2_o_edef'); ("migration", ex2_o_mdef)].
Definition ex2_o_def' : list (string * @jv NumQ) := [("migration", ex2_o_mdef); ("epoch", JDict ex2_o_edef')].
Definition ex2_o_migs : @jv NumQ := JList [JDict [("demes", JList [JStr "A"; JStr "B"])]].

Definition ex2_o_kv : list (string * @jv NumQ) :=
  [("time_units", JStr "generations");
   ("defaults", JDict ex2_o_def);
   ("demes", JList [JDict ex2_o_dA; JDict ex2_o_dB]);
   ("migrations", ex2_o_migs)].
(* the same keys in the same order, values replaced by their reordered versions *)
Definition ex2_o_kv1 : list (string * @jv NumQ) :=
  [("time_units", JStr "generations");
   ("defaults", JDict ex2_o_def');
   ("demes", JList [JDict ex2_o_dA'; JDict ex2_o_dB']);
   ("migrations", ex2_o_migs)].
Definition ex2_o_kv' : list (string * @jv NumQ) :=
  [("migrations", ex2_o_migs);
   ("demes", JList [JDict ex2_o_dA'; JDict ex2_o_dB']);
   ("defaults", JDict ex2_o_def');
   ("time_units", JStr "generations")].

Definition ex2_d : @jv NumQ := JDict ex2_o_kv.
Definition ex2_d' : @jv NumQ := JDict ex2_o_kv'.

Ltac ex2_nodup := repeat (apply NoDup_cons; [cbn; intuition discriminate|]); apply NoDup_nil.
(* an entry whose value is unchanged / whose value is related by H *)
Ltac ex2_same := split; [reflexivity|split; [intros _; reflexivity|apply KO_refl]].
Ltac ex2_rel H :=
  split; [reflexivity|split; [let X := fresh "X" in intro X; cbn in X; discriminate X|exact H]].

Lemma ex2_Forall2_same (kv : list (string * @jv NumQ)) :
  Forall2 (fun a b => fst a = fst b /\ (fst a = "metadata" -> snd a = snd b) /\ KeyOrd (snd a) (snd b)) kv kv.
Proof. induction kv as [|a kv IH]; constructor; [ex2_same|exact IH]. Qed.

(* a pure permutation of the keys of one mapping *)
Lemma ex2_ko_perm (kv kv' : list (string * @jv NumQ)) :
  Permutation kv kv' -> NoDup (map fst kv) -> KeyOrd (JDict kv) (JDict kv').
Proof. intros P ND. exact (KO_dict kv kv kv' (ex2_Forall2_same kv) P ND). Qed.

Lemma ex2_ko_ep : KeyOrd (JDict ex2_o_ep) (JDict ex2_o_ep').
Proof. apply ex2_ko_perm; [apply perm_swap|ex2_nodup]. Qed.

Lemma ex2_ko_epsA : KeyOrd ex2_o_epsA ex2_o_epsA'.
Proof. apply KO_list. constructor; [apply KO_refl|]. constructor; [exact ex2_ko_ep|]. constructor. Qed.

Lemma ex2_ko_dA : KeyOrd (JDict ex2_o_dA) (JDict ex2_o_dA').
Proof.
  apply (KO_dict ex2_o_dA ex2_o_dA1 ex2_o_dA').
  - constructor; [ex2_same|]. constructor; [ex2_rel ex2_ko_epsA|]. constructor.
  - apply perm_swap.
  - ex2_nodup.
Qed.

Lemma ex2_ko_dB : KeyOrd (JDict ex2_o_dB) (JDict ex2_o_dB').
Proof.
  apply ex2_ko_perm; [|ex2_nodup].
  exact (Permutation_app_comm [("name", JStr "B"); ("ancestors", JList [JStr "A"])]
                              [("start_time", JI 100); ("epochs", ex2_o_epsB)]).
Qed.

Lemma ex2_ko_demes :
  KeyOrd (JList [JDict ex2_o_dA; JDict ex2_o_dB]) (JList [JDict ex2_o_dA'; JDict ex2_o_dB']).
Proof. apply KO_list. constructor; [exact ex2_ko_dA|]. constructor; [exact ex2_ko_dB|]. constructor. Qed.

Lemma ex2_ko_edef : KeyOrd (JDict ex2_o_edef) (JDict ex2_o_edef').
Proof. apply ex2_ko_perm; [apply perm_swap|ex2_nodup]. Qed.

Lemma ex2_ko_def : KeyOrd (JDict ex2_o_def) (JDict ex2_o_def').
Proof.
  apply (KO_dict ex2_o_def ex2_o_def1 ex2_o_def').
  - constructor; [ex2_rel ex2_ko_edef|]. constructor; [ex2_same|]. constructor.
  - apply perm_swap.
  - ex2_nodup.
Qed.

Lemma ex2_key_ord : KeyOrd ex2_d ex2_d'.
Proof.
  apply (KO_dict ex2_o_kv ex2_o_kv1 ex2_o_kv').
  - constructor; [ex2_same|]. constructor; [ex2_rel ex2_ko_def|].
    constructor; [ex2_rel ex2_ko_demes|]. constructor; [ex2_same|]. constructor.
  - exact (Permutation_rev ex2_o_kv1).
  - ex2_nodup.
Qed.

Definition ex2_og : @graph NumQ :=
  Eval vm_compute in match fromdict ex2_d with Ok g => g | Err _ => ex2_dummy end.

Example ex2_d_resolves : fromdict ex2_d = Ok ex2_og.
Proof. vm_compute. reflexivity. Qed.

(* the conclusion of fromdict_key_order on this pair, by the theorem *)
Example ex2_fromdict_key_order : fromdict ex2_d' = Ok ex2_og.
Proof. exact (fromdict_key_order ex2_d ex2_d' ex2_og ex2_key_ord ex2_d_resolves). Qed.

(* and independently by computation *)
Example ex2_d'_resolves : fromdict ex2_d' = Ok ex2_og.
Proof. vm_compute. reflexivity. Qed.

Example ex2_d_differ : ex2_d <> ex2_d'.
Proof. unfold ex2_d, ex2_d', ex2_o_kv, ex2_o_kv'. intro X. discriminate X. Qed.

(* the common graph is non-trivial: two demes (three epochs, defaults applied), a symmetric
   migration resolved into two *)
Example ex2_og_shape :
  map d_name (g_demes ex2_og) = ["A"; "B"] /\
  map (fun d => map e_ssize (d_epochs d)) (g_demes ex2_og)
  = [[q 1000 1 true; q 2000 1 true]; [q 500 1 true]] /\
  map (fun d => map e_self (d_epochs d)) (g_demes ex2_og)
  = [[q 1 10 false; q 1 10 false]; [q 1 10 false]] /\
  map (fun m => (m_src m, m_dst m, m_rate m)) (g_migs ex2_og)
  = [("A", "B", q 1 1000 false); ("B", "A", q 1 1000 false)].
Proof. repeat split. Qed.

Print Assumptions ex2_resolves.
Print Assumptions ex2_gg_valid.
Print Assumptions ex2_rates_T60.
Print Assumptions ex2_rates_T40.
Print Assumptions ex2_rates_T20.
Print Assumptions ex2_rates_T90.
Print Assumptions ex2_rates_T5.
Print Assumptions ex2_alive_T60.
Print Assumptions ex2_alive_T20.
Print Assumptions ex2_doc_deme_start_single.
Print Assumptions ex2_doc_epoch_default_copied.
Print Assumptions ex2_doc_migration_bounds.
Print Assumptions ex2_doc_symmetric_pair.
Print Assumptions ex2_doc_fromdict_demes_ext.
Print Assumptions ex2_key_ord.
Print Assumptions ex2_fromdict_key_order.
