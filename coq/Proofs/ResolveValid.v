(* C01 (core): every graph that resolution returns is a valid fully-resolved model. *)
From Coq Require Import Bool List String QArith Lqa Arith Lia.
From Demes Require Import Base.Num Base.Py Model.MDM Model.Codec Model.MigMat Model.Resolve
  Spec.Valid Proofs.MigMatProofs
  Proofs.ResolveInv Proofs.ResolveDemes Proofs.ResolveMigs Proofs.ResolvePulses.
Import ListNotations.
Local Open Scope string_scope.
Local Open Scope list_scope.

Section ResolveValid.
  Context {N : NumOps} {L : NumLaws N}.

  Definition HdrOK (g : graph) : Prop :=
    g_units g <> "" /\ pos_fin (g_gt g) /\
    (g_units g = "generations" -> neqb (g_gt g) n1 = true) /\
    (forall s, In s (g_doi g) -> s <> "") /\ is_mapping (g_meta g) = true.

  Lemma HdrOK_ext g g' : hdr g' = hdr g -> HdrOK g -> HdrOK g'.
  Proof. unfold hdr, HdrOK. intro E. injection E as -> -> -> ->. auto. Qed.

  Lemma gto_spec (gt : jv) gto :
    (match gt with
     | JNull => Ok None
     | v => x <- int_or_float v ;; positive x ;;; finite x ;;; Ok (Some x)
     end) = Ok gto ->
    match gto with Some x => pos_fin x | None => True end.
  Proof.
    intro H. destruct gto as [y|]; [|exact Logic.I].
    destruct gt; try discriminate;
      (mbind H xx Hx; mbind H u1 H1; mbind H u2 H2; injection H as <-;
       apply iof_spec in Hx; destruct Hx as (Ox & _);
       split; [eapply positive_spec|eapply finite_spec]; eauto).
  Qed.

  Lemma make_graph_spec desc units doi gt meta g :
    make_graph desc units doi gt meta = Ok g ->
    HdrOK g /\ g_demes g = [] /\ g_migs g = [] /\ g_pulses g = [] /\ g_index g = [].
  Proof.
    unfold make_graph. intro H.
    mbind H ds Hds. mbind H un Hun. mraise H Hune. mbind H gto Hgto. mbind H dl Hdl.
    mbind H dois Hdois. mraise H Hmeta. mraise H Hgt1. cbv zeta in H. mraise H Hgen.
    injection H as <-. cbn. split; [|auto]. unfold HdrOK; cbn.
    apply gto_spec in Hgto.
    split; [now apply String.eqb_neq|]. split; [|split; [|split]].
    - destruct gto; [exact Hgto|apply pos_fin_1].
    - intro E. rewrite E in Hgen. cbn in Hgen. unfold nneq in Hgen.
      now apply negb_false_iff in Hgen.
    - intros s Hs. apply mapM_inv in Hdois.
      destruct (Forall2_in_r _ _ _ Hdois s Hs) as (v & _ & X). cbv beta in X.
      mbind X s' Hs'. mraise X Hne. injection X as <-. now apply String.eqb_neq.
    - apply negb_false_iff in Hmeta. destruct meta; auto.
  Qed.

  Lemma IngressWeak_ext g g' :
    g_demes g' = g_demes g -> g_migs g' = g_migs g -> IngressWeak g -> IngressWeak g'.
  Proof.
    intros E1 E2 W d t Hd Ot H0 Hf. unfold ingress. rewrite E1, E2. rewrite E1 in Hd.
    exact (W d t Hd Ot H0 Hf).
  Qed.

  Lemma NoOverlap_nil : NoOverlap [].
  Proof. intros i j a b t _ Ha. destruct i; discriminate. Qed.

  (* everything except the "<= 1" half of the ingress bound follows from the
     order laws alone; that half is kept in the form the check establishes *)
  Lemma fromdict_spec doc g :
    fromdict doc = Ok g -> (IngressOK g -> Valid g) /\ IngressWeak g /\ MigOK g.
  Proof.
    intro H. unfold fromdict in H.
    mbind H kv Hkv. mbind H u0 Hca. mbind H defaults Hdef. mbind H u1 Hca2.
    mbind H ddef Hddef. mbind H u2 Hcd. mbind H mdef Hmdef. mbind H u3 Hcm.
    mbind H pdef Hpdef. mbind H u4 Hcp. mbind H edef Hedef. mbind H u5 Hce.
    mbind H units Hunits. mbind H g0 Hg0. mbind H dl Hdl. mraise H Hdl0.
    mbind H g1 Hg1. mbind H ml Hml. mbind H g2 Hg2. mbind H u6 Hchk.
    mbind H pl Hpl. mbind H g3 Hg3. injection H as <-.
    destruct (make_graph_spec _ _ _ _ _ _ Hg0) as (Hh & D0 & M0 & P0 & I0).
    assert (DInv g0) as DI0.
    { unfold DInv, Idx. rewrite D0, M0, P0, I0. cbn. auto. }
    assert (dl <> []) as Hdlne by (intros ->; discriminate).
    assert ((DInv g1 /\ hdr g1 = hdr g0) /\ g_demes g1 <> [])
      as [[(I1 & V1 & M1 & P1) Hh1] Hne1].
    { eapply (foldM_inv_ne _ (fun g => DInv g /\ hdr g = hdr g0)
                (fun g => g_demes g <> [])); [|exact Hdlne| |exact Hg1].
      - intros ga dv gb [Da Ha] X.
        destruct (resolve_deme_spec _ _ _ _ _ Da X) as [[Db Hb] Q].
        split; [split|]; auto. congruence.
      - split; auto. }
    assert (MInv g1 g2) as (Sd12 & P12 & MO2 & NO2).
    { eapply (foldM_inv _ (MInv g1)); [| |exact Hg2].
      - intros ga mv gb Ma X. eapply resolve_migration_spec; eauto.
      - apply MInv_init.
        + intros m Hm. rewrite M1 in Hm. destruct Hm.
        + rewrite M1. apply NoOverlap_nil. }
    pose proof (same_demes_idx _ _ Sd12 I1) as I2.
    destruct Sd12 as (D12 & X12 & H12).
    assert (ValidDemes [] (g_demes g2)) as V2 by (rewrite D12; exact V1).
    pose proof (MigsOK_of g2 V2 MO2 NO2) as OK2.
    destruct u6. pose proof (ingress_weak g2 OK2 Hchk) as W2.
    assert (PInv g2 g3) as (Sd23 & M23 & VP3).
    { eapply (foldM_inv _ (PInv g2)); [| |exact Hg3].
      - intros ga pv gb Pa X. eapply resolve_pulse_spec; eauto.
      - split; [apply same_demes_refl|]. split; auto.
        intros p Hp. rewrite P12, P1 in Hp. destruct Hp. }
    destruct Sd23 as (D23 & X23 & H23).
    assert (HdrOK g3) as (U1 & U2 & U3 & U4 & U5).
    { apply (HdrOK_ext g0); [congruence|exact Hh]. }
    set (gf := mkGraph _ _ _ _ _ _ _ _ _).
    assert (MigOK gf) as MOf.
    { intros m Hm. cbn in Hm. rewrite M23 in Hm. apply (ValidMig_ext g2); [exact D23|].
      now apply MO2. }
    split; [|split].
    - intro IO. constructor; cbn; auto.
      + rewrite D23, D12. exact Hne1.
      + rewrite D23. exact V2.
      + rewrite M23. exact NO2.
      + intros p Hp. apply (proj1 (sort_pulses_in _ _)) in Hp. apply (ValidPulse_ext g2); [exact D23|].
        now apply VP3.
      + apply sort_pulses_sorted. intros q Hq.
        destruct (vp_time _ _ (VP3 q Hq)) as [X _]. apply lt_true in X. tauto.
      + unfold Idx in I2. congruence.
    - apply (IngressWeak_ext g2); auto.
    - exact MOf.
  Qed.

  (* ORIGINAL STATEMENT (not provable from the order laws NumLaws alone):
       Theorem resolve_valid doc g : fromdict doc = Ok g -> Valid g.
     Reason: _check_migration_rates rejects a row sum s only if  s > 1 and not isclose(s, 1).
     If s were NaN the check passes (every comparison with NaN is false), whereas
     IngressOK demands  nle s n1 = true \/ isclose0 s n1 = true.  NumLaws says nothing
     about nadd, so  ok (pysum row)  cannot be derived.  The statement is therefore
     given with the explicit arithmetic hypothesis SumOK (Proofs/ResolveMigs.v):
       forall l, (forall x, In x l -> in_unit x) -> ok (pysum l)
     "a sum of numbers of [0, 1] is not NaN" (true for binary64 and for NumQ).
     Without it, fromdict_spec above gives every clause of Valid except that the
     ingress bound reads  nlt n1 s = false \/ isclose0 s n1 = true. *)
  Theorem resolve_valid doc g : SumOK -> fromdict doc = Ok g -> Valid g.
  Proof.
    intros SO H. destruct (fromdict_spec doc g H) as (V & W & MO).
    apply V. apply ingress_ok; auto.
  Qed.

  (* the unconditional form: Valid up to the NaN case of the ingress sum *)
  Theorem resolve_valid_weak doc g :
    fromdict doc = Ok g -> (IngressOK g -> Valid g) /\ IngressWeak g.
  Proof. intro H. destruct (fromdict_spec doc g H) as (V & W & _). auto. Qed.
End ResolveValid.

Print Assumptions resolve_valid.
Print Assumptions resolve_valid_weak.
