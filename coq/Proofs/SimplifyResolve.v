(* C05 (c), migrations and pulses: resolving the simplified migration entries rebuilds
   value-equal migrations (as a permutation), and the rate check passes again. *)
From Coq Require Import Bool List String QArith Lqa Arith Lia Permutation.
From Demes Require Import Base.Num Base.Py Model.MDM Model.Codec Model.MigMat Model.Resolve
  Model.Simplify Spec.Valid Proofs.MigMatProofs Proofs.FixedPoint Proofs.SimplifyLists
  Proofs.SimplifySearch Proofs.SimplifyTotal Proofs.SimplifyDemes.
Import ListNotations.
Local Open Scope string_scope.
Local Open Scope list_scope.

Section SimplifyResolve.
  Context {N : NumOps} {L : NumLaws N}.

  (* the graph under reconstruction: header h, rebuilt demes of g, migrations, pulses *)
  Definition G2 (h g : graph) (ms : list mig) (ps : list pulse) : graph :=
    GR h (map (sdeme g) (g_demes g)) ms ps.

  Definition MigVEq0 (a b : mig) : Prop :=
    m_src a = m_src b /\ m_dst a = m_dst b /\ Veq (m_start a) (m_start b) /\
    Veq (m_end a) (m_end b) /\ Veq (m_rate a) (m_rate b).

  Lemma pymin_veq a a' b b' :
    neqb a a' = true -> neqb b b' = true -> neqb (pymin a b) (pymin a' b') = true.
  Proof.
    intros H1 H2. unfold pymin.
    assert (ok a /\ ok a' /\ ok b /\ ok b') as (?&?&?&?).
    { apply eq_true in H1, H2. tauto. }
    destruct (nlt b a) eqn:E1, (nlt b' a') eqn:E2; nord.
  Qed.

  Definition shi (g : graph) (a b : deme) : num := pymin (sstart g a) (sstart g b).

  Lemma shi_veq g a b :
    Valid g -> In a (g_demes g) -> In b (g_demes g) ->
    neqb (pymin (d_start a) (d_start b)) (shi g a b) = true.
  Proof. intros V Ha Hb. apply pymin_veq; now apply sstart_veq. Qed.

  Lemma ti_none h g ms ps n1' n2' a b ea eb :
    fd n1' (g_demes g) = Some a -> fd n2' (g_demes g) = Some b ->
    d_end a = Ok ea -> d_end b = Ok eb ->
    time_intersection (G2 h g ms ps) n1' n2' None = Ok (pymax ea eb, shi g a b).
  Proof.
    intros Fa Fb Ea Eb. unfold time_intersection, G2.
    rewrite !lookup_GR, !fd_sdeme, Fa, Fb. cbn [option_map bind].
    rewrite !d_end_sdeme, Ea, Eb. reflexivity.
  Qed.

  Lemma ti_some h g ms ps n1' n2' a b ea eb t :
    fd n1' (g_demes g) = Some a -> fd n2' (g_demes g) = Some b ->
    d_end a = Ok ea -> d_end b = Ok eb ->
    nle (pymax ea eb) t = true -> nle t (shi g a b) = true ->
    time_intersection (G2 h g ms ps) n1' n2' (Some (JNum t)) = Ok (pymax ea eb, shi g a b).
  Proof.
    intros Fa Fb Ea Eb W1 W2. unfold time_intersection, G2.
    rewrite !lookup_GR, !fd_sdeme, Fa, Fb. cbn [option_map bind].
    rewrite !d_end_sdeme, Ea, Eb. cbn [bind is_number negb raise_if sdeme d_start].
    fold (shi g a b). rewrite W1, W2. reflexivity.
  Qed.

  Lemma bound_cases x b b' o :
    neqb b b' = true -> onum_eqb (if neqb x b then None else Some x) o = true -> ok x ->
    neqb x (match o with Some y => y | None => b' end) = true.
  Proof.
    intros Hb H okx. destruct o as [y|], (neqb x b) eqn:E; cbn in H; try discriminate; nord.
  Qed.

  Definition asym_add (g' : graph) (sm : smig) : res graph :=
    add_asym g' (JStr (sm_src sm)) (JStr (sm_dst sm)) (JNum (sm_rate sm))
             (option_map JNum (sm_start sm)) (option_map JNum (sm_end sm)).

  Definition Corr (g : graph) (m : mig) (sm : smig) : Prop :=
    exists s0, strip_bounds g m = Ok s0 /\ smig_eqb s0 sm = true.

  Lemma asym_add_ok h g pre m sm :
    Valid g -> ValidMig g m -> Corr g m sm ->
    (forall o, In o pre -> m_src o = m_src m -> m_dst o = m_dst m ->
               nlt (m_end o) (m_start m) = true -> nlt (m_end m) (m_start o) = true -> False) ->
    exists m', asym_add (G2 h g pre []) sm = Ok (G2 h g (pre ++ [m']) []) /\ MigVEq0 m m'.
  Proof.
    intros V VM (s0 & Hs0 & Hq) NO.
    assert (ID : forall a, In a (g_demes g) -> is_identifier (d_name a) = true)
      by (exact (valid_demes_ident _ _ (v_demes _ V))).
    destruct (strip_ok g m V VM) as (s & d & es & ed & Fs & Fd & Es & Ed & Hs).
    rewrite Hs in Hs0. injection Hs0 as <-.
    apply smig_eqb_spec in Hq. destruct Hq as (Q1 & Q2 & Q3).
    apply key_eqb_spec in Q3. unfold stripped_of in Q1, Q2, Q3.
    cbn [sm_src sm_dst key_of sm_rate sm_start sm_end fst snd] in Q1, Q2, Q3.
    destruct Q3 as (Q3 & Q4 & Q5).
    destruct VM as [M1 M2 M3 M4 M5 [M6 M6']].
    destruct M2 as (s' & d' & lo & hi & Fs' & Fd' & Co & [Ws1 Ws2] & [We1 We2]).
    unfold find_deme in Fs', Fd'. unfold fd in Fs, Fd.
    assert (s' = s) by congruence. assert (d' = d) by congruence. subst s' d'.
    destruct Co as (es' & ed' & Es' & Ed' & Elo & Ehi). unfold DEnd in *.
    assert (es' = es) by congruence. assert (ed' = ed) by congruence. subst es' ed'.
    fold (pymax es ed) in Elo. fold (pymin (d_start s) (d_start d)) in Ehi. subst lo hi.
    fold (fd (m_src m) (g_demes g)) in Fs. fold (fd (m_dst m) (g_demes g)) in Fd.
    assert (Hs_in : In s (g_demes g)) by (apply fd_in in Fs; tauto).
    assert (Hd_in : In d (g_demes g)) by (apply fd_in in Fd; tauto).
    pose proof (shi_veq g s d V Hs_in Hd_in) as HV.
    set (lo := pymax es ed) in *. set (hi := pymin (d_start s) (d_start d)) in *.
    set (hi' := shi g s d) in *.
    assert (okst : ok (m_start m)) by (apply lt_true in M3; tauto).
    assert (oken : ok (m_end m)) by (apply lt_true in M3; tauto).
    assert (oklo : neqb lo lo = true) by (apply eq_refl_ok; apply le_true in We1; tauto).
    set (st' := match sm_start sm with Some y => y | None => hi' end).
    set (en' := match sm_end sm with Some y => y | None => lo end).
    assert (B1 : neqb (m_start m) st' = true) by exact (bound_cases _ _ _ _ HV Q4 okst).
    assert (B2 : neqb (m_end m) en' = true) by exact (bound_cases _ _ _ _ oklo Q5 oken).
    assert (okst' : ok st') by (apply eq_true in B1; tauto).
    assert (oken' : ok en') by (apply eq_true in B2; tauto).
    assert (okr : ok (sm_rate sm)) by (apply eq_true in Q3; tauto).
    assert (Is : is_identifier (sm_src sm) = true).
    { rewrite <- Q1. apply fd_in in Fs. destruct Fs as [F1 <-]. now apply ID. }
    assert (Id : is_identifier (sm_dst sm) = true).
    { rewrite <- Q2. apply fd_in in Fd. destruct Fd as [F1 <-]. now apply ID. }
    rewrite Q1 in Fs. rewrite Q2 in Fd.
    assert (T1 : time_intersection (G2 h g pre []) (sm_src sm) (sm_dst sm)
                   (option_map JNum (sm_start sm)) = Ok (lo, hi')).
    { unfold st' in *. destruct (sm_start sm) as [y|]; cbn [option_map].
      - apply (ti_some h g pre [] _ _ s d es ed y Fs Fd Es Ed); fold lo; fold hi'; nord.
      - exact (ti_none h g pre [] _ _ s d es ed Fs Fd Es Ed). }
    assert (T2 : (match option_map JNum (sm_start sm) with
                  | None => Ok (JNum hi') | Some v => Ok v end) = Ok (JNum st')).
    { unfold st'. destruct (sm_start sm); reflexivity. }
    assert (T3 : (match option_map JNum (sm_end sm) with
                  | None => Ok (JNum lo)
                  | Some v => time_intersection (G2 h g pre []) (sm_src sm) (sm_dst sm) (Some v) ;;; Ok v
                  end) = Ok (JNum en')).
    { unfold en' in *. destruct (sm_end sm) as [y|]; cbn [option_map]; [|reflexivity].
      rewrite (ti_some h g pre [] _ _ s d es ed y Fs Fd Es Ed); [reflexivity| |];
        fold lo; fold hi'; nord. }
    exists (mkMig (sm_src sm) (sm_dst sm) st' en' (sm_rate sm)). split.
    2:{ unfold MigVEq0, Veq. cbn. auto. }
    assert (E1 : nlt st' n0 = false) by nord.
    assert (E2 : nlt en' n0 = false) by nord.
    assert (E3 : nisinf en' = false) by nord.
    assert (E4 : nle n0 (sm_rate sm) = true) by nord.
    assert (E5 : nle (sm_rate sm) n1 = true) by nord.
    assert (E6 : nlt en' st' = true) by nord.
    unfold asym_add, add_asym. cbn [forM_].
    unfold G2 at 1 2. rewrite !contains_GR, !fd_sdeme, Fs, Fd.
    cbn [option_map negb raise_if bind str_of].
    fold (G2 h g pre []). rewrite T1. cbn [bind]. rewrite T2. cbn [bind]. rewrite T3. cbn [bind].
    unfold deme_name_of. cbn [str_of bind]. rewrite Is, Id. cbn [negb raise_if bind].
    unfold non_negative, finite, unit_interval.
    rewrite (iof_num st') by assumption. cbn [bind]. rewrite E1. cbn [raise_if bind].
    rewrite (iof_num en') by assumption. cbn [bind]. rewrite E2, E3. cbn [raise_if bind].
    rewrite (iof_num (sm_rate sm)) by assumption. cbn [bind]. rewrite E4, E5.
    cbn [andb negb raise_if bind].
    rewrite (proj2 (String.eqb_neq (sm_src sm) (sm_dst sm))) by congruence. cbn [raise_if bind].
    unfold ngt. rewrite E6. cbn [negb raise_if bind].
    eapply sbind_ok.
    { apply raise_if_false. unfold G2. cbn [GR g_migs].
      destruct (existsb _ pre) eqn:E; [|reflexivity]. exfalso.
      apply existsb_exists in E. destruct E as (o & Ho & Hc).
      apply andb_true_iff in Hc. destruct Hc as [Hc C4].
      apply andb_true_iff in Hc. destruct Hc as [Hc C3].
      apply andb_true_iff in Hc. destruct Hc as [C1 C2].
      apply String.eqb_eq in C1, C2.
      apply (NO o Ho); [congruence|congruence| |]; nord. }
    reflexivity.
  Qed.

  (* ------------------------------------------------------------------ *)
  (* pairwise compatibility of migrations (what add_asym checks) *)

  Definition POK (a b : mig) : Prop :=
    m_src a = m_src b -> m_dst a = m_dst b ->
    nlt (m_end a) (m_start b) = true -> nlt (m_end b) (m_start a) = true -> False.

  Lemma POK_sym a b : POK a b -> POK b a.
  Proof. unfold POK. intros H E1 E2 H1 H2. apply H; auto. Qed.

  Lemma valid_migs_pok g : Valid g -> AllPairs POK (g_migs g).
  Proof.
    intro V. apply AllPairs_of_nth. intros i j a b Hij Hi Hj E1 E2 C1 C2.
    pose proof (vm_order _ _ (v_migs _ V a (nth_error_In _ _ Hi))) as Oa.
    pose proof (vm_order _ _ (v_migs _ V b (nth_error_In _ _ Hj))) as Ob.
    assert (ok (m_end a)) by (apply lt_true in Oa; tauto).
    assert (ok (m_end b)) by (apply lt_true in Ob; tauto).
    set (t := if nlt (m_end a) (m_end b) then m_end b else m_end a).
    apply (v_overlap _ V i j a b t Hij Hi Hj E1 E2).
    - unfold t. destruct (nlt (m_end a) (m_end b)); assumption.
    - unfold Active, t. destruct (nlt (m_end a) (m_end b)) eqn:E; split; try assumption; nord.
    - unfold Active, t. destruct (nlt (m_end a) (m_end b)) eqn:E; split; try assumption; nord.
  Qed.

  Lemma migs_fold' h g : Valid g -> forall Ls ml pre mpre,
    Forall2 (Corr g) ml Ls -> Forall2 MigVEq0 mpre pre ->
    AllPairs POK (mpre ++ ml) -> (forall m, In m ml -> ValidMig g m) ->
    exists post, foldM asym_add Ls (G2 h g pre []) = Ok (G2 h g (pre ++ post) []) /\
                 Forall2 MigVEq0 ml post.
  Proof.
    intro V. induction Ls as [|sm Ls IH]; intros ml pre mpre FC FP AP VM.
    - inversion FC; subst. exists []. cbn. rewrite app_nil_r. split; [reflexivity|constructor].
    - inversion FC as [|m ? ml' ? Hc FC']; subst.
      destruct (AllPairs_mid POK POK_sym _ _ _ AP) as [AP' Hm].
      destruct (asym_add_ok h g pre m sm V (VM m (or_introl eq_refl)) Hc) as (m' & Hadd & Hveq).
      { intros o Ho E1 E2 C1 C2.
        destruct (Forall2_in_r' _ _ _ FP o Ho) as (mo & Hmo & (V1 & V2 & V3 & V4 & _)).
        unfold Veq in *.
        apply (Hm mo); [apply in_or_app; now left|congruence|congruence| |]; nord. }
      destruct (IH ml' (pre ++ [m']) (mpre ++ [m])) as (post & Hf & Hp).
      + exact FC'.
      + apply Forall2_app; [exact FP|]. constructor; [exact Hveq|constructor].
      + rewrite <- app_assoc. exact AP.
      + intros x Hx. apply VM. now right.
      + exists (m' :: post). cbn [foldM]. rewrite Hadd. cbn [bind]. rewrite Hf.
        rewrite <- app_assoc. split; [reflexivity|]. constructor; assumption.
  Qed.

  (* ------------------------------------------------------------------ *)
  (* the dictionary entries *)

  Lemma foldM_app {A S} (f : S -> A -> res S) l1 l2 s :
    foldM f (l1 ++ l2) s = (s' <- foldM f l1 s ;; foldM f l2 s').
  Proof.
    revert s. induction l1 as [|a l1 IH]; intro s; cbn; [reflexivity|].
    destruct (f s a); cbn; [apply IH|reflexivity].
  Qed.

  Lemma foldM_map {A B S} (f : S -> B -> res S) (h : A -> B) l s :
    foldM f (map h l) s = foldM (fun s a => f s (h a)) l s.
  Proof.
    revert s. induction l as [|a l IH]; intro s; cbn; [reflexivity|].
    destruct (f s (h a)); cbn; [apply IH|reflexivity].
  Qed.

  Lemma resolve_smig g' sm : resolve_migration [] g' (jv_of_smig sm) = asym_add g' sm.
  Proof.
    unfold resolve_migration, jv_of_smig, asym_add.
    destruct sm as [s d r [x|] [y|]]; reflexivity.
  Qed.

  Lemma resolve_sym g' sy :
    (2 <= List.length (sy_demes sy))%nat ->
    resolve_migration [] g' (jv_of_sym sy) = foldM asym_add (expand_sym sy) g'.
  Proof.
    intro Hl. unfold expand_sym. rewrite foldM_map.
    assert (E : resolve_migration [] g' (jv_of_sym sy)
                = add_sym g' (jstrs (sy_demes sy)) (JNum (sy_rate sy))
                          (option_map JNum (sy_start sy)) (option_map JNum (sy_end sy))).
    { unfold resolve_migration, jv_of_sym. destruct sy as [ds r [x|] [y|]]; reflexivity. }
    rewrite E. unfold add_sym, jstrs. rewrite map_length.
    assert (Nat.ltb (List.length (sy_demes sy)) 2 = false) as -> by (apply Nat.ltb_ge; lia).
    cbn [raise_if bind]. rewrite perms2_map, foldM_map. reflexivity.
  Qed.

  Lemma resolve_entries g' : forall syms asym,
    (forall sy, In sy syms -> (2 <= List.length (sy_demes sy))%nat) ->
    foldM (resolve_migration []) (map jv_of_sym syms ++ map jv_of_smig asym) g'
    = foldM asym_add (flat_map expand_sym syms ++ asym) g'.
  Proof.
    intros syms asym. revert g'. induction syms as [|sy syms IH]; intros g' Hl.
    - cbn [map flat_map app]. rewrite foldM_map.
      revert g'. induction asym as [|a asym IHa]; intro g'; cbn [foldM]; [reflexivity|].
      rewrite resolve_smig. destruct (asym_add g' a); cbn [bind]; [apply IHa|reflexivity].
    - cbn [map flat_map app foldM]. rewrite <- app_assoc, foldM_app.
      rewrite (resolve_sym g' sy (Hl sy (or_introl eq_refl))).
      destruct (foldM asym_add (expand_sym sy) g'); cbn [bind]; [|reflexivity].
      apply IH. intros x Hx. apply Hl. now right.
  Qed.

  (* ------------------------------------------------------------------ *)
  (* all migration entries *)

  Lemma migs_resolve h g syms asym :
    Valid g -> simplify_migrations g = Ok (syms, asym) ->
    exists post ml,
      foldM (resolve_migration []) (map jv_of_sym syms ++ map jv_of_smig asym) (G2 h g [] [])
      = Ok (G2 h g post []) /\
      Permutation (g_migs g) ml /\ Forall2 MigVEq0 ml post.
  Proof.
    intros V H. destruct (strip_total g V) as (stripped & Hs).
    destruct (simplify_migrations_spec g syms asym stripped V H Hs) as [(l & Pl & Fl) WF].
    rewrite resolve_entries by (intros sy Hsy; exact (proj1 (WF sy Hsy))).
    pose proof (mapM_Forall2 _ _ _ Hs) as FS.
    assert (FC : Forall2 (fun sm m => Corr g m sm) l (g_migs g)).
    { apply Forall2_sym with (R := fun m sm => Corr g m sm); [auto|].
      eapply Forall2_trans; [|exact FS|exact Fl].
      intros m s0 sm H1 H2. exists s0. split; assumption. }
    destruct (Permutation_Forall2 Pl FC) as (ml & Pm & Fm).
    assert (Fm' : Forall2 (Corr g) ml (flat_map expand_sym syms ++ asym)).
    { eapply Forall2_sym; [|exact Fm]. auto. }
    destruct (migs_fold' h g V _ ml [] [] Fm' (Forall2_nil _)) as (post & Hf & Hp).
    - cbn [app]. exact (AllPairs_perm POK POK_sym _ _ Pm (valid_migs_pok g V)).
    - intros m Hm. apply (v_migs _ V). eapply Permutation_in; [apply Permutation_sym; exact Pm|exact Hm].
    - exists post, ml. cbn [app] in Hf. auto.
  Qed.

  (* ------------------------------------------------------------------ *)
  (* pulses *)

  Lemma add_pulse_ok' h g ms pre p :
    Valid g -> ValidPulse g p ->
    add_pulse (G2 h g ms pre) (jstrs (p_srcs p)) (JStr (p_dst p))
              (JNum (p_time p)) (jnums (p_props p))
    = Ok (G2 h g ms (pre ++ [p])).
  Proof.
    intros V [P1 P2 P3 P4 P5 P6 [P7 P7'] P8 P9].
    assert (ID : forall a, In a (g_demes g) -> is_identifier (d_name a) = true)
      by (exact (valid_demes_ident _ _ (v_demes _ V))).
    destruct P8 as (dd & ed & Fd & Ed & Nd).
    unfold find_deme in *. fold (fd (p_dst p) (g_demes g)) in *.
    destruct p as [srcs dst t props]. cbn [p_srcs p_dst p_time p_props] in *.
    assert (okt : ok t) by (apply lt_true in P7; tauto).
    assert (FS : forall s, In s srcs -> exists sd d es ed',
                   fd s (g_demes g) = Some sd /\ fd dst (g_demes g) = Some d /\
                   d_end sd = Ok es /\ d_end d = Ok ed' /\
                   nle (pymax es ed') t = true /\ nle t (shi g sd d) = true /\
                   neqb t (sstart g sd) = false).
    { intros s Hs. destruct (P9 s Hs) as (sd & d & lo & hi & F1 & F2 & Co & [W1 W2] & Ne).
      fold (fd s (g_demes g)) in F1.
      destruct Co as (es & ed' & Es & Ed' & -> & ->). unfold DEnd in *.
      exists sd, d, es, ed'. repeat split; auto.
      - pose proof (shi_veq g sd d V (proj1 (fd_in _ _ _ F1)) (proj1 (fd_in _ _ _ F2))) as HV.
        fold (pymin (d_start sd) (d_start d)) in W2. nord.
      - pose proof (sstart_veq g sd V (proj1 (fd_in _ _ _ F1))) as SV.
        assert (ok (d_start sd)) by (apply eq_true in SV; tauto).
        assert (ok (sstart g sd)) by (apply eq_true in SV; tauto). nord. }
    assert (IS : forall s, In s srcs -> is_identifier s = true).
    { intros s Hs. destruct (FS s Hs) as (sd & _ & _ & _ & F & _). apply fd_in in F.
      destruct F as [F1 <-]. now apply ID. }
    assert (Id : is_identifier dst = true).
    { apply fd_in in Fd. destruct Fd as [F1 <-]. now apply ID. }
    unfold add_pulse. cbn [jstrs list_of bind].
    eapply sbind_ok.
    { apply forM_app_ok.
      - apply forM_map_ok. intros s Hs. destruct (FS s Hs) as (sd & _ & _ & _ & F & _).
        unfold G2. rewrite contains_GR, fd_sdeme, F. reflexivity.
      - cbn [forM_]. unfold G2. rewrite contains_GR, fd_sdeme, Fd. reflexivity. }
    cbn [str_of bind].
    eapply sbind_ok.
    { apply (mapM_map_ok str_of JStr (fun x => x)). reflexivity. }
    rewrite map_id.
    eapply sbind_ok.
    { apply forM_ok. intros s Hs.
      destruct (FS s Hs) as (sd & d & es & ed' & F1 & F2 & E1 & E2 & W1 & W2 & _).
      rewrite (ti_some h g ms pre _ _ sd d es ed' t F1 F2 E1 E2 W1 W2). reflexivity. }
    cbn [is_number negb andb raise_if bind].
    unfold G2 at 1. rewrite lookup_GR, fd_sdeme, Fd. cbn [option_map bind].
    rewrite d_end_sdeme. unfold DEnd in Ed. rewrite Ed. cbn [bind]. rewrite Nd.
    cbn [raise_if bind].
    eapply sbind_ok.
    { apply forM_ok. intros s Hs. destruct (FS s Hs) as (sd & _ & _ & _ & F1 & _ & _ & _ & _ & _ & Ne).
      unfold G2. rewrite lookup_GR, fd_sdeme, F1. cbn [option_map bind sdeme d_start]. now rewrite Ne. }
    eapply sbind_ok.
    { apply (mapM_map_ok deme_name_of JStr (fun x => x)). intros s Hs.
      unfold deme_name_of. cbn [str_of bind]. now rewrite (IS s Hs). }
    rewrite map_id.
    eapply sbind_ok.
    { apply raise_if_false. destruct srcs; [congruence|reflexivity]. }
    unfold deme_name_of. cbn [str_of bind]. rewrite Id. cbn [negb raise_if bind].
    rewrite (iof_num _ okt). cbn [bind]. unfold positive, finite.
    assert (E1 : nle t n0 = false) by nord. rewrite E1, P7'. cbn [raise_if bind].
    eapply sbind_ok.
    { unfold nums_with. cbn [jnums list_of bind].
      apply (mapM_map_ok _ JNum (fun x => x)). intros x Hx. destruct (P5 x Hx) as [X1 X2].
      assert (ok x) by (apply lt_true in X1; tauto).
      rewrite iof_num by assumption. cbn [bind]. unfold unit_interval_lo. now rewrite X1, X2. }
    rewrite map_id.
    rewrite (mem_false _ _ P3), (nodupb_true _ P2), <- P4, Nat.eqb_refl. unfold ngt. rewrite P6.
    reflexivity.
  Qed.

  Lemma resolve_pulse_ok' h g ms pre p :
    Valid g -> ValidPulse g p ->
    resolve_pulse [] (G2 h g ms pre) (jv_of_pulse p) = Ok (G2 h g ms (pre ++ [p])).
  Proof.
    intros V VP. unfold resolve_pulse, jv_of_pulse.
    eapply sbind_ok; [reflexivity|].
    eapply sbind_ok; [reflexivity|].
    eapply sbind_ok; [reflexivity|].
    eapply sbind_ok; [reflexivity|].
    eapply sbind_ok; [reflexivity|].
    eapply sbind_ok; [reflexivity|].
    exact (add_pulse_ok' h g ms pre p V VP).
  Qed.

  Lemma pulses_fold' h g ms : Valid g -> forall rest pre,
    (forall x, In x rest -> ValidPulse g x) ->
    foldM (resolve_pulse []) (map jv_of_pulse rest) (G2 h g ms pre)
    = Ok (G2 h g ms (pre ++ rest)).
  Proof.
    intro V. induction rest as [|p rest IH]; intros pre VP.
    - cbn. now rewrite app_nil_r.
    - cbn [map foldM]. rewrite (resolve_pulse_ok' h g ms pre p V (VP p (or_introl eq_refl))).
      cbn [bind]. rewrite IH; [now rewrite <- app_assoc|].
      intros x Hx. apply VP. now right.
  Qed.
End SimplifyResolve.
