(* C16 support: every document accepted by Graph.fromdict is walkable outside its top-level
   metadata: each visible value is type-checked by resolution, so no list is an element of a list. *)
From Coq Require Import Bool List String Arith Lia.
From Demes Require Import Base.Num Base.Py Model.MDM Model.Codec Model.MigMat Model.Resolve
  Model.IO Spec.Valid Proofs.MigMatProofs Proofs.FixedPoint Proofs.IOProofs Proofs.ResolveInv
  Proofs.ResolveRules Proofs.IOShape.
Import ListNotations.
Local Open Scope string_scope.
Local Open Scope list_scope.

Local Arguments String.eqb : simpl never.

Section IOShapeResolve.
  Context {N : NumOps}.

  Definition scalar (v : jv) : Prop := is_list v = false /\ is_dict v = false.

  Lemma wk_scalar v : scalar v -> Wk v.
  Proof. intros [H1 H2]. now apply Wk_scalar. Qed.

  Lemma sc_is_str v : is_str v = true -> scalar v.
  Proof. destruct v; try discriminate; split; reflexivity. Qed.
  Lemma sc_is_number v : is_number v = true -> scalar v.
  Proof. destruct v; try discriminate; split; reflexivity. Qed.
  Lemma sc_str_of v s : str_of v = Ok s -> scalar v.
  Proof. destruct v; try discriminate; split; reflexivity. Qed.
  Lemma sc_iof v x : int_or_float v = Ok x -> scalar v.
  Proof. destruct v; try discriminate; split; reflexivity. Qed.
  Lemma sc_deme_name_of v s : deme_name_of v = Ok s -> scalar v.
  Proof. unfold deme_name_of. intro H. mbind H s' Hs. exact (sc_str_of _ _ Hs). Qed.

  Lemma wk_null : Wk JNull.
  Proof. now apply Wk_scalar. Qed.
  Lemma wk_is_str v : is_str v = true -> Wk v.
  Proof. intro H. apply wk_scalar. now apply sc_is_str. Qed.
  Lemma wk_is_number v : is_number v = true -> Wk v.
  Proof. intro H. apply wk_scalar. now apply sc_is_number. Qed.
  Lemma wk_str_of v s : str_of v = Ok s -> Wk v.
  Proof. intro H. apply wk_scalar. exact (sc_str_of _ _ H). Qed.
  Lemma wk_iof v x : int_or_float v = Ok x -> Wk v.
  Proof. intro H. apply wk_scalar. exact (sc_iof _ _ H). Qed.
  Lemma wk_deme_name_of v s : deme_name_of v = Ok s -> Wk v.
  Proof. intro H. apply wk_scalar. exact (sc_deme_name_of _ _ H). Qed.

  Lemma wk_mapM {B} (f : jv -> res B) l l' :
    (forall x y, f x = Ok y -> scalar x) -> mapM f l = Ok l' -> Wk (JList l).
  Proof.
    intros Hf H. apply Wk_list; intros e He; destruct (mapM_in_ok _ _ _ H e He) as (y & Hy & _);
      destruct (Hf _ _ Hy) as [H1 H2]; [exact H1|now apply Wk_scalar].
  Qed.

  Lemma wk_scalars l : (forall e, In e l -> scalar e) -> Wk (JList l).
  Proof.
    intro H. apply Wk_list; intros e He; destruct (H e He) as [H1 H2]; [exact H1|now apply Wk_scalar].
  Qed.

  Lemma wk_names_of v l : names_of v = Ok l -> Wk v.
  Proof.
    unfold names_of. intro H. mbind H jl Hjl. apply list_of_spec in Hjl. subst v.
    exact (wk_mapM _ _ _ sc_deme_name_of H).
  Qed.

  Lemma wk_nums_with c v l : nums_with c v = Ok l -> Wk v.
  Proof.
    unfold nums_with. intro H. mbind H jl Hjl. apply list_of_spec in Hjl. subst v.
    refine (wk_mapM _ _ _ _ H). intros x y Hx. mbind Hx n Hn. exact (sc_iof _ _ Hn).
  Qed.

  Lemma wk_num_with cs v u : num_with cs v = Ok u -> Wk v.
  Proof.
    unfold num_with. intro H. mraise H Hn. apply negb_false_iff in Hn. now apply wk_is_number.
  Qed.

  Ltac wk_fin H :=
    first
      [ discriminate H
      | exact (wk_num_with _ _ _ H) | exact (wk_names_of _ _ H) | exact (wk_nums_with _ _ _ H)
      | exact (wk_deme_name_of _ _ H) | exact (wk_str_of _ _ H) | exact (wk_iof _ _ H)
      | (apply raise_if_ok in H; apply negb_false_iff in H;
         first [exact (wk_is_str _ H) | exact (wk_is_number _ H)])
      | (apply bind_ok in H; let a := fresh "a" in let H' := fresh "H" in
         destruct H as (a & H' & _); wk_fin H') ].

  Ltac eqb_cases k H :=
    repeat match type of H with
           | (if String.eqb k ?s then _ else _) = _ => destruct (String.eqb k s)
           end.

  Lemma check_default_deme_wk k v u : check_default_deme (k, v) = Ok u -> Wk v.
  Proof. unfold check_default_deme. intro H. eqb_cases k H; wk_fin H. Qed.
  Lemma check_default_migration_wk k v u : check_default_migration (k, v) = Ok u -> Wk v.
  Proof. unfold check_default_migration. intro H. eqb_cases k H; wk_fin H. Qed.
  Lemma check_default_pulse_wk k v u : check_default_pulse (k, v) = Ok u -> Wk v.
  Proof. unfold check_default_pulse. intro H. eqb_cases k H; wk_fin H. Qed.
  Lemma check_default_epoch_wk k v u : check_default_epoch (k, v) = Ok u -> Wk v.
  Proof. unfold check_default_epoch. intro H. eqb_cases k H; wk_fin H. Qed.

  Lemma forM_check_wk (c : string * jv -> res unit) kv u :
    (forall k v u, c (k, v) = Ok u -> Wk v) -> forM_ c kv = Ok u -> Wk (JDict kv).
  Proof.
    intros Hc H. apply Wk_dict. intros k w Hk. apply assoc_in in Hk.
    exact (Hc k w tt (forM_inv _ _ _ H _ Hk)).
  Qed.

  Lemma check_allowed_in kv allowed u k w :
    check_allowed kv allowed = Ok u -> assoc k kv = Some w -> In k allowed.
  Proof.
    unfold check_allowed. intros H Hk. apply assoc_in in Hk.
    pose proof (forM_inv _ _ _ H _ Hk) as X. cbv beta in X. apply raise_if_ok in X.
    apply negb_false_iff in X. exact (mem_in _ _ X).
  Qed.

  Lemma pop_object_wk kv k d w :
    pop_object kv k = Ok d -> assoc k kv = Some w -> w = JDict d.
  Proof. unfold pop_object. intros H Hk. rewrite Hk in H. destruct w; try discriminate. now injection H as <-. Qed.

  Lemma field_nn_explicit kv d k w :
    assoc k kv = Some w -> w = JNull \/ field_nn kv d k = Some w.
  Proof.
    intro H. unfold field_nn. rewrite (field_explicit kv d k w H). destruct w; auto.
  Qed.

  Lemma foldM_each {A S} (f : S -> A -> res S) l : forall s s',
    foldM f l s = Ok s' -> forall a, In a l -> exists s1 s2, f s1 a = Ok s2.
  Proof.
    induction l as [|x l IH]; intros s s' H a Ha; [destruct Ha|].
    cbn in H. mbind H s1 H1. destruct Ha as [<-|Ha]; [eauto|]. eapply IH; eauto.
  Qed.
  (* ------------------------------------------------------------------ *)
  (* demes and epochs *)
  Lemma make_epoch_wk start en ss es sf sr cr e :
    make_epoch start en ss es sf sr cr = Ok e ->
    Wk en /\ Wk ss /\ Wk es /\ Wk sr /\ Wk cr /\ (forall v, sf = Some v -> Wk v).
  Proof.
    intro H. unfold make_epoch in H.
    mbind H u0 Hnn.
    mbind H en' Hen. mbind H u1 Hen1. mbind H u2 Hen2.
    mbind H ss' Hss. mbind H u3 Hss1. mbind H u4 Hss2.
    mbind H es' Hes. mbind H u5 Hes1. mbind H u6 Hes2.
    mbind H sf' Hsf.
    mbind H sr' Hsr. mbind H u7 Hsr1.
    mbind H cr' Hcr. mbind H u8 Hcr1.
    repeat split; try (eapply wk_iof; eassumption).
    intros v ->. destruct v; try discriminate. apply wk_str.
  Qed.

  Lemma add_epoch_wk d en ss es sf sr cr d' :
    add_epoch d en ss es sf sr cr = Ok d' ->
    Wk en /\ (forall v, ss = Some v -> Wk v) /\ (forall v, es = Some v -> Wk v) /\
    (forall v, sf = Some v -> Wk v) /\ Wk sr /\ Wk cr.
  Proof.
    intro H. unfold add_epoch in H.
    mbind H r Hr. destruct r as [[start a] b]. cbv beta iota in H.
    mbind H e He. apply make_epoch_wk in He. destruct He as (W1 & W2 & W3 & W4 & W5 & W6).
    repeat split; auto.
    - intros v ->. destruct (rev (d_epochs d)); [destruct es|]; injection Hr as _ <- _; exact W2.
    - intros v ->. destruct (rev (d_epochs d)); [destruct ss|]; injection Hr as _ _ <-; exact W3.
  Qed.

  Lemma add_deme_wk g name desc start anc props g1 :
    add_deme g name desc start anc props = Ok g1 ->
    Wk name /\ Wk desc /\ (forall v, start = Some v -> Wk v) /\ (forall v, anc = Some v -> Wk v) /\
    (forall v, props = Some v -> Wk v).
  Proof.
    intro H. unfold add_deme in H.
    mbind H nmk Hk. mraise H Hcont. mbind H ancl Hancl. mbind H u1 Hfa.
    cbv zeta in H.
    mbind H startv Hstart. mraise H Hisnum. mraise H Hroot. mbind H u2 Hanc.
    mbind H nm Hnm. mbind H ds Hds. mbind H st Hst. mbind H u3 Hpos.
    mbind H an Han. mraise H Hnodup. mraise H Hmem. mbind H pr Hpr.
    split; [exact (wk_deme_name_of _ _ Hnm)|]. split; [exact (wk_str_of _ _ Hds)|].
    split; [|split].
    - intros v ->. injection Hstart as <-. apply negb_false_iff in Hisnum. now apply wk_is_number.
    - intros v ->. apply list_of_spec in Hancl. subst v. exact (wk_mapM _ _ _ sc_deme_name_of Han).
    - intros v ->. mbind Hpr l Hl. apply list_of_spec in Hl. subst v. exact (wk_mapM _ _ _ sc_iof Hpr).
  Qed.

  Lemma In_cases7 (k a b c d e f g : string) :
    In k [a; b; c; d; e; f; g] -> k = a \/ k = b \/ k = c \/ k = d \/ k = e \/ k = f \/ k = g.
  Proof. cbn. intuition congruence. Qed.

  Lemma resolve_deme_wk ddef edef g dv g' : resolve_deme ddef edef g dv = Ok g' -> Wk dv.
  Proof.
    intro H. unfold resolve_deme in H.
    mbind H kv Hkv. mbind H name Hname. mbind H u1 Hca. mbind H g1 Hg1.
    mbind H loc Hloc. mbind H u2 Hca2. mbind H lep Hlep. mbind H u3 Hcde.
    cbv zeta in H. mraise H Hx. mbind H epochs Hep. mraise H Hne.
    mbind H d0 Hd0. mbind H dj Hdj.
    destruct dv; try discriminate. injection Hkv as ->.
    apply add_deme_wk in Hg1. destruct Hg1 as (Wn & Wd & Ws & Wa & Wp).
    apply Wk_dict. intros k w Hk.
    pose proof (check_allowed_in _ _ _ _ _ Hca Hk) as Hin. unfold deme_fields in Hin.
    apply In_cases7 in Hin.
    destruct Hin as [->|[->|[->|[->|[->|[->| ->]]]]]].
    - rewrite (field_explicit _ ddef _ _ Hk) in Wd. exact Wd.
    - destruct (field_nn_explicit kv ddef _ _ Hk) as [->|E]; [apply wk_null|auto].
    - destruct (field_nn_explicit kv ddef _ _ Hk) as [->|E]; [apply wk_null|auto].
    - destruct (field_nn_explicit kv ddef _ _ Hk) as [->|E]; [apply wk_null|auto].
    - rewrite Hk in Hname. now injection Hname as <-.
    - rewrite (pop_object_wk _ _ _ _ Hloc Hk). apply Wk_dict. intros k' w' Hk'.
      pose proof (check_allowed_in _ _ _ _ _ Hca2 Hk') as Hin. destruct Hin as [<-|[]].
      rewrite (pop_object_wk _ _ _ _ Hlep Hk').
      exact (forM_check_wk _ _ _ check_default_epoch_wk Hcde).
    - rewrite Hk in Hep. mbind Hep l Hl. mbind Hep u4 Hd. injection Hep as <-.
      apply list_of_spec in Hl. subst w.
      apply Wk_list; intros e He.
      + pose proof (forM_inv _ _ _ Hd e He) as X. cbv beta in X. apply raise_if_ok in X.
        apply negb_false_iff in X. destruct e; try discriminate; reflexivity.
      + destruct (foldM_each _ _ _ _ Hdj e He) as ([d j] & s2 & X). cbv beta iota in X.
        mbind X ekv Hekv. mbind X u5 Hca3. mbind X en Hen. mbind X d3 Hd3.
        destruct e; try discriminate. injection Hekv as ->.
        apply add_epoch_wk in Hd3. destruct Hd3 as (E1 & E2 & E3 & E4 & E5 & E6).
        apply Wk_dict. intros k' w' Hk'.
        pose proof (check_allowed_in _ _ _ _ _ Hca3 Hk') as Hin. unfold epoch_fields in Hin.
        cbn [In] in Hin.
        destruct Hin as [<-|[<-|[<-|[<-|[<-|[<-|[]]]]]]].
        * rewrite (field_explicit _ _ _ _ Hk') in Hen. now injection Hen as <-.
        * destruct (field_nn_explicit ekv (merge_defaults edef lep) _ _ Hk') as [->|E]; [apply wk_null|auto].
        * destruct (field_nn_explicit ekv (merge_defaults edef lep) _ _ Hk') as [->|E]; [apply wk_null|auto].
        * destruct (field_nn_explicit ekv (merge_defaults edef lep) _ _ Hk') as [->|E]; [apply wk_null|auto].
        * rewrite (field_explicit _ _ _ _ Hk') in E6. exact E6.
        * rewrite (field_explicit _ _ _ _ Hk') in E5. exact E5.
  Qed.
  (* ------------------------------------------------------------------ *)
  (* migrations *)
  Lemma time_intersection_wk g a b v lh : time_intersection g a b (Some v) = Ok lh -> Wk v.
  Proof.
    unfold time_intersection. intro H.
    mbind H d1 H1. mbind H d2 H2. mbind H e1 H3. mbind H e2 H4. mbind H u H5.
    mraise H5 Hn. apply negb_false_iff in Hn. now apply wk_is_number.
  Qed.

  Lemma add_asym_wk g src dst rate start en g' :
    add_asym g src dst rate start en = Ok g' ->
    Wk src /\ Wk dst /\ Wk rate /\ (forall v, start = Some v -> Wk v) /\ (forall v, en = Some v -> Wk v).
  Proof.
    intro H. unfold add_asym in H.
    mbind H u0 Hc. mbind H s Hs. mbind H d Hd. mbind H lh Hlh. destruct lh as [lo hi].
    cbv beta iota in H.
    mbind H stv Hstv. mbind H env Henv. mbind H s' Hs'. mbind H d' Hd'.
    mbind H st Hst. mbind H u1 Hst1. mbind H en' Hen. mbind H u2 Hen1. mbind H u3 Hen2.
    mbind H r Hr.
    split; [exact (wk_str_of _ _ Hs)|]. split; [exact (wk_str_of _ _ Hd)|].
    split; [exact (wk_iof _ _ Hr)|]. split.
    - intros v ->. exact (time_intersection_wk _ _ _ _ _ Hlh).
    - intros v ->. mbind Henv lh2 X. exact (time_intersection_wk _ _ _ _ _ X).
  Qed.

  Lemma perms2_fst {A} (l : list A) x : (2 <= List.length l)%nat -> In x l ->
    exists y, In (x, y) (perms2 l).
  Proof.
    intros Hlen Hx. destruct (In_nth_error _ _ Hx) as (i & Hi).
    assert (exists j y, j <> i /\ nth_error l j = Some y) as (j & y & Hne & Hj).
    { destruct i as [|i].
      - destruct l as [|a [|b l]]; cbn in Hlen; try lia. exists 1%nat, b. split; [lia|reflexivity].
      - destruct l as [|a l]; [discriminate|]. exists 0%nat, a. split; [lia|reflexivity]. }
    exists y. apply perms2_spec. exists i, j. auto.
  Qed.

  Lemma add_sym_wk g demes rate start en g' :
    add_sym g demes rate start en = Ok g' ->
    Wk demes /\ Wk rate /\ (forall v, start = Some v -> Wk v) /\ (forall v, en = Some v -> Wk v).
  Proof.
    intro H. unfold add_sym in H. destruct demes as [ | | | |l| | ]; try discriminate.
    mraise H Hlen. apply Nat.ltb_ge in Hlen.
    assert (forall x, In x l -> exists y ga gb, add_asym ga x y rate start en = Ok gb) as Hall.
    { intros x Hx. destruct (perms2_fst l x Hlen Hx) as (y & Hy).
      destruct (foldM_each _ _ _ _ H _ Hy) as (ga & gb & X). cbn [fst snd] in X. eauto. }
    destruct l as [|x0 l0]; [cbn in Hlen; lia|].
    destruct (Hall x0 (or_introl eq_refl)) as (y0 & ga & gb & X0).
    apply add_asym_wk in X0. destruct X0 as (_ & _ & Wr & Ws & We).
    split; [|auto]. apply wk_scalars. intros e He.
    destruct (Hall e He) as (y & ga' & gb' & X). unfold add_asym in X.
    mbind X u0 Hc. mbind X s Hs. exact (sc_str_of _ _ Hs).
  Qed.

  Lemma In_cases6 (k a b c d e f : string) :
    In k [a; b; c; d; e; f] -> k = a \/ k = b \/ k = c \/ k = d \/ k = e \/ k = f.
  Proof. cbn. intuition congruence. Qed.

  Lemma resolve_migration_wk mdef g mv g' : resolve_migration mdef g mv = Ok g' -> Wk mv.
  Proof.
    intro H. unfold resolve_migration in H.
    mbind H kv Hkv. mbind H u Hca. mbind H rate Hrate. cbv zeta in H.
    destruct mv; try discriminate. injection Hkv as ->.
    assert (exists dl s d,
      field_nn kv mdef "demes" = dl /\ field_nn kv mdef "source" = s /\ field_nn kv mdef "dest" = d /\
      (forall v, dl = Some v -> Wk v) /\ (forall v, s = Some v -> Wk v) /\ (forall v, d = Some v -> Wk v) /\
      Wk rate /\ (forall v, field_nn kv mdef "start_time" = Some v -> Wk v) /\
      (forall v, field_nn kv mdef "end_time" = Some v -> Wk v))
      as (dl & s & d & E1 & E2 & E3 & W1 & W2 & W3 & W4 & W5 & W6).
    { destruct (field_nn kv mdef "demes") as [dl|];
        destruct (field_nn kv mdef "source") as [s|];
        destruct (field_nn kv mdef "dest") as [d|]; try discriminate.
      - apply add_sym_wk in H. destruct H as (A1 & A2 & A3 & A4).
        exists (Some dl), None, None. repeat split; auto; try discriminate. now intros v [= <-].
      - apply add_asym_wk in H. destruct H as (A1 & A2 & A3 & A4 & A5).
        exists None, (Some s), (Some d). repeat split; auto; try discriminate; now intros v [= <-]. }
    apply Wk_dict. intros k w Hk.
    pose proof (check_allowed_in _ _ _ _ _ Hca Hk) as Hin. unfold migration_fields in Hin.
    apply In_cases6 in Hin.
    destruct Hin as [->|[->|[->|[->|[->| ->]]]]].
    - destruct (field_nn_explicit kv mdef _ _ Hk) as [->|E]; [apply wk_null|]. apply W1. congruence.
    - destruct (field_nn_explicit kv mdef _ _ Hk) as [->|E]; [apply wk_null|]. apply W2. congruence.
    - destruct (field_nn_explicit kv mdef _ _ Hk) as [->|E]; [apply wk_null|]. apply W3. congruence.
    - destruct (field_nn_explicit kv mdef _ _ Hk) as [->|E]; [apply wk_null|auto].
    - destruct (field_nn_explicit kv mdef _ _ Hk) as [->|E]; [apply wk_null|auto].
    - rewrite (field_explicit _ _ _ _ Hk) in Hrate. now injection Hrate as <-.
  Qed.

  (* ------------------------------------------------------------------ *)
  (* pulses *)
  Lemma add_pulse_wk g so de ti pr g' :
    add_pulse g so de ti pr = Ok g' -> Wk so /\ Wk de /\ Wk ti /\ Wk pr.
  Proof.
    intro H. unfold add_pulse in H.
    mbind H srcl Hsrcl. mbind H u0 Hc. mbind H d Hd. mbind H srcs Hsrcs.
    mbind H u1 Hti. mraise H Htn. mbind H dd Hdd. mbind H de' Hde. mbind H t0 Ht0.
    mraise H Hneq. mbind H u2 Hsts. mbind H sn Hsn. mraise H Hsn0. mbind H dn Hdn.
    mbind H t Ht. mbind H u3 Hpos. mbind H u4 Hfin. mbind H prs Hprs.
    apply list_of_spec in Hsrcl. subst so.
    split; [exact (wk_mapM _ _ _ sc_str_of Hsrcs)|]. split; [exact (wk_str_of _ _ Hd)|].
    split; [exact (wk_iof _ _ Ht)|exact (wk_nums_with _ _ _ Hprs)].
  Qed.

  Lemma resolve_pulse_wk pdef g pv g' : resolve_pulse pdef g pv = Ok g' -> Wk pv.
  Proof.
    intro H. unfold resolve_pulse in H.
    mbind H kv Hkv. mbind H u Hca. mbind H so Hso. mbind H de Hde. mbind H ti Hti.
    mbind H pr Hpr. destruct pv; try discriminate. injection Hkv as ->.
    apply add_pulse_wk in H. destruct H as (W1 & W2 & W3 & W4).
    apply Wk_dict. intros k w Hk.
    pose proof (check_allowed_in _ _ _ _ _ Hca Hk) as Hin. unfold pulse_fields in Hin. cbn [In] in Hin.
    destruct Hin as [<-|[<-|[<-|[<-|[]]]]].
    - rewrite (field_explicit _ _ _ _ Hk) in Hso. now injection Hso as <-.
    - rewrite (field_explicit _ _ _ _ Hk) in Hde. now injection Hde as <-.
    - rewrite (field_explicit _ _ _ _ Hk) in Hti. now injection Hti as <-.
    - rewrite (field_explicit _ _ _ _ Hk) in Hpr. now injection Hpr as <-.
  Qed.

  (* ------------------------------------------------------------------ *)
  (* the top level *)
  Lemma make_graph_wk desc units doi gt meta g :
    make_graph desc units doi gt meta = Ok g -> Wk desc /\ Wk units /\ Wk doi /\ Wk gt.
  Proof.
    unfold make_graph. intro H.
    mbind H ds Hds. mbind H un Hun. mraise H Hune. mbind H gto Hgto. mbind H dl Hdl.
    mbind H dois Hdois.
    split; [exact (wk_str_of _ _ Hds)|]. split; [exact (wk_str_of _ _ Hun)|]. split.
    - apply list_of_spec in Hdl. subst doi. refine (wk_mapM _ _ _ _ Hdois).
      intros x y Hx. mbind Hx s Hs. exact (sc_str_of _ _ Hs).
    - destruct gt; try (apply wk_null); mbind Hgto gx Hgx; exact (wk_iof _ _ Hgx).
  Qed.

  Lemma dict_list_wk kv k r l (f : graph -> jv -> res graph) g g' w :
    (forall ga v gb, f ga v = Ok gb -> Wk v) ->
    dict_list kv k r = Ok l -> foldM f l g = Ok g' -> assoc k kv = Some w -> Wk w.
  Proof.
    intros Hf Hl Hg Hk. unfold dict_list in Hl. rewrite Hk in Hl.
    mbind Hl l0 Hl0. mbind Hl u Hd. injection Hl as <-. apply list_of_spec in Hl0. subst w.
    apply Wk_list; intros e He.
    - pose proof (forM_inv _ _ _ Hd e He) as X. cbv beta in X. apply raise_if_ok in X.
      apply negb_false_iff in X. destruct e; try discriminate; reflexivity.
    - destruct (foldM_each _ _ _ _ Hg e He) as (ga & gb & X). exact (Hf _ _ _ X).
  Qed.

  Lemma In_cases9 (k a b c d e f g h i : string) :
    In k [a; b; c; d; e; f; g; h; i] ->
    k = a \/ k = b \/ k = c \/ k = d \/ k = e \/ k = f \/ k = g \/ k = h \/ k = i.
  Proof. cbn. intuition congruence. Qed.

  (* every visible top-level value of an accepted document, except metadata, is walkable *)
  Theorem fromdict_walkable kv g k w :
    fromdict (JDict kv) = Ok g -> assoc k kv = Some w -> k <> "metadata" -> Wk w.
  Proof.
    intros H Hk Hmeta. unfold fromdict in H.
    mbind H kv0 Hkv. injection Hkv as <-.
    mbind H u0 Hca. mbind H defaults Hdef. mbind H u1 Hca2.
    mbind H ddef Hddef. mbind H u2 Hcd. mbind H mdef Hmdef. mbind H u3 Hcm.
    mbind H pdef Hpdef. mbind H u4 Hcp. mbind H edef Hedef. mbind H u5 Hce.
    mbind H units Hunits. mbind H g0 Hg0. mbind H dl Hdl. mraise H Hdl0.
    mbind H g1 Hg1. mbind H ml Hml. mbind H g2 Hg2. mbind H u6 Hchk.
    mbind H pl Hpl. mbind H g3 Hg3.
    apply make_graph_wk in Hg0. destruct Hg0 as (Wd & Wu & Wdoi & Wgt).
    pose proof (check_allowed_in _ _ _ _ _ Hca Hk) as Hin. unfold toplevel_fields in Hin.
    apply In_cases9 in Hin.
    destruct Hin as [->|[->|[->|[->|[->|[->|[->|[->| ->]]]]]]]].
    - rewrite Hk in Wd. exact Wd.
    - rewrite Hk in Hunits. now injection Hunits as <-.
    - rewrite Hk in Wgt. exact Wgt.
    - rewrite (pop_object_wk _ _ _ _ Hdef Hk). apply Wk_dict. intros k' w' Hk'.
      pose proof (check_allowed_in _ _ _ _ _ Hca2 Hk') as Hin. cbn [In] in Hin.
      destruct Hin as [<-|[<-|[<-|[<-|[]]]]].
      + rewrite (pop_object_wk _ _ _ _ Hddef Hk'). exact (forM_check_wk _ _ _ check_default_deme_wk Hcd).
      + rewrite (pop_object_wk _ _ _ _ Hmdef Hk'). exact (forM_check_wk _ _ _ check_default_migration_wk Hcm).
      + rewrite (pop_object_wk _ _ _ _ Hpdef Hk'). exact (forM_check_wk _ _ _ check_default_pulse_wk Hcp).
      + rewrite (pop_object_wk _ _ _ _ Hedef Hk'). exact (forM_check_wk _ _ _ check_default_epoch_wk Hce).
    - rewrite Hk in Wdoi. exact Wdoi.
    - congruence.
    - exact (dict_list_wk _ _ _ _ _ _ _ _ (resolve_deme_wk ddef edef) Hdl Hg1 Hk).
    - exact (dict_list_wk _ _ _ _ _ _ _ _ (resolve_migration_wk mdef) Hml Hg2 Hk).
    - exact (dict_list_wk _ _ _ _ _ _ _ _ (resolve_pulse_wk pdef) Hpl Hg3 Hk).
  Qed.
End IOShapeResolve.

Print Assumptions fromdict_walkable.
