(* C01 (checker): a boolean validator that decides the declarative predicate Valid. *)
From Coq Require Import Bool List String QArith Lqa Arith Lia.
From Demes Require Import Base.Num Base.Py Model.MDM Model.MigMat Spec.Valid Model.Validb
  Proofs.MigMatProofs.
Import ListNotations.
Local Open Scope string_scope.
Local Open Scope list_scope.

Section ValidbProofs.
  Context {N : NumOps} {L : NumLaws N}.

  (* ------------------------------------------------------------------ *)
  (* small reflections *)

  Lemma memb_iff s l : memb s l = true <-> In s l.
  Proof.
    unfold memb. rewrite existsb_exists. split.
    - intros (x & Hin & He). apply String.eqb_eq in He. now subst x.
    - intro Hin. exists s. split; [exact Hin|apply String.eqb_refl].
  Qed.

  Lemma memb_false s l : memb s l = false <-> ~ In s l.
  Proof.
    rewrite <- memb_iff. destruct (memb s l); split; intro H; congruence.
  Qed.

  Lemma nodupb_iff l : nodupb l = true <-> NoDup l.
  Proof.
    induction l as [|x l IH]; cbn [nodupb].
    - split; [constructor|reflexivity].
    - rewrite andb_true_iff, negb_true_iff, memb_false, IH. split.
      + intros [A B]. now constructor.
      + intro H. inversion H; subst. now split.
  Qed.

  Lemma pos_finb_iff x : pos_finb x = true <-> pos_fin x.
  Proof. unfold pos_finb, pos_fin. now rewrite andb_true_iff, negb_true_iff. Qed.

  Lemma in_unitb_iff x : in_unitb x = true <-> in_unit x.
  Proof. unfold in_unitb, in_unit. now rewrite andb_true_iff. Qed.

  Lemma in_unit_lob_iff x : in_unit_lob x = true <-> in_unit_lo x.
  Proof. unfold in_unit_lob, in_unit_lo. now rewrite andb_true_iff. Qed.

  Lemma withinb_iff lo hi t : withinb lo hi t = true <-> Within lo hi t.
  Proof. unfold withinb, Within. now rewrite andb_true_iff. Qed.

  Lemma is_nil_iff {A} (l : list A) : is_nil l = true <-> l = [].
  Proof. destruct l; cbn; split; congruence. Qed.

  Lemma is_nil_false {A} (l : list A) : is_nil l = false <-> l <> [].
  Proof. destruct l; cbn; split; congruence. Qed.

  Lemma forallb_iff {A} (f : A -> bool) (P : A -> Prop) l :
    (forall x, In x l -> (f x = true <-> P x)) ->
    (forallb f l = true <-> forall x, In x l -> P x).
  Proof.
    intro H. rewrite forallb_forall. split; intros G x Hx; apply (H x Hx); auto.
  Qed.

  (* ------------------------------------------------------------------ *)
  (* epochs and demes *)

  Lemma valid_epochb_iff e : valid_epochb e = true <-> ValidEpoch e.
  Proof.
    unfold valid_epochb. repeat rewrite andb_true_iff.
    rewrite !negb_true_iff, !pos_finb_iff, !in_unitb_iff, memb_iff.
    split.
    - intros (((((((((A & B) & C) & D) & E) & F) & G) & H) & I) & J).
      constructor; auto.
      + intro Hc. rewrite Hc in G. exact G.
      + intro Hi. rewrite Hi in H. exact H.
    - intros [A B C D E F G H I J].
      assert ((if String.eqb (e_sf e) "constant" then neqb (e_ssize e) (e_esize e) else true)
              = true) as G'
        by (destruct (String.eqb_spec (e_sf e) "constant"); auto).
      assert ((if nisinf (e_start e) then neqb (e_ssize e) (e_esize e) else true) = true) as H'
        by (destruct (nisinf (e_start e)); auto).
      tauto.
  Qed.

  Lemma chainb_iff es : forall s, chainb s es = true <-> Chain s es.
  Proof.
    induction es as [|e es IH]; intro s; cbn [chainb Chain].
    - tauto.
    - now rewrite andb_true_iff, IH.
  Qed.

  Lemma aliveb_iff a t : aliveb a t = true <-> Alive a t.
  Proof.
    unfold aliveb, Alive, DEnd. split.
    - destruct (d_end a) as [ea|]; [|intro H; discriminate H].
      intro H. apply andb_true_iff in H. exists ea. tauto.
    - intros (ea & -> & H1 & H2). now rewrite H1, H2.
  Qed.

  Lemma valid_demeb_iff earlier d : valid_demeb earlier d = true <-> ValidDeme earlier d.
  Proof.
    unfold valid_demeb. repeat rewrite andb_true_iff. split.
    - intros (((((((((((A & B) & C) & D) & E) & F) & G) & H) & I) & J) & K) & M).
      constructor.
      + exact A.
      + apply negb_true_iff in B. now apply memb_false.
      + exact C.
      + now apply nodupb_iff.
      + intros a Ha. rewrite forallb_forall in E. specialize (E a Ha).
        apply existsb_exists in E. destruct E as (ad & Hin & Hb).
        apply andb_true_iff in Hb. destruct Hb as [Hn Hal].
        exists ad. split; [exact Hin|]. split; [now apply String.eqb_eq|now apply aliveb_iff].
      + apply eqb_prop in F. rewrite <- F. symmetry. apply is_nil_iff.
      + now apply Nat.eqb_eq.
      + intros p Hp. rewrite forallb_forall in H. apply in_unit_lob_iff. auto.
      + intro Hne. apply is_nil_false in Hne. rewrite Hne in I. exact I.
      + apply negb_true_iff in J. now apply is_nil_false.
      + now apply chainb_iff.
      + intros e He. rewrite forallb_forall in M. apply valid_epochb_iff; auto.
    - intros [A B C D E F G H I J K M]. repeat split.
      + exact A.
      + apply negb_true_iff. now apply memb_false.
      + exact C.
      + now apply nodupb_iff.
      + apply forallb_forall. intros a Ha. destruct (E a Ha) as (ad & Hin & Hn & Hal).
        apply existsb_exists. exists ad. split; [exact Hin|].
        apply andb_true_iff. split; [now apply String.eqb_eq|now apply aliveb_iff].
      + apply eqb_true_iff.
        destruct (nisinf (d_start d)) eqn:Ei.
        * apply is_nil_iff. now apply F.
        * destruct (is_nil (d_anc d)) eqn:En; [|reflexivity].
          apply is_nil_iff in En. apply F in En. congruence.
      + now apply Nat.eqb_eq.
      + apply forallb_forall. intros p Hp. apply in_unit_lob_iff. auto.
      + destruct (is_nil (d_props d)) eqn:En; [reflexivity|].
        apply I. now apply is_nil_false.
      + apply negb_true_iff. now apply is_nil_false.
      + now apply chainb_iff.
      + apply forallb_forall. intros e He. apply valid_epochb_iff; auto.
  Qed.

  Lemma valid_demesb_iff rest : forall earlier,
    valid_demesb earlier rest = true <-> ValidDemes earlier rest.
  Proof.
    induction rest as [|d rest IH]; intro earlier; cbn [valid_demesb ValidDemes].
    - tauto.
    - now rewrite andb_true_iff, valid_demeb_iff, IH.
  Qed.

  (* ------------------------------------------------------------------ *)
  (* migrations *)

  Lemma coexistb_iff a b f :
    coexistb a b f = true <-> exists lo hi, Coexist a b lo hi /\ f lo hi = true.
  Proof.
    unfold coexistb, Coexist, DEnd. split.
    - destruct (d_end a) as [ea|]; [|intro H; discriminate H].
      destruct (d_end b) as [eb|]; [|intro H; discriminate H].
      intro H. eexists; eexists. split; [|exact H].
      exists ea, eb. split; [reflexivity|]. split; [reflexivity|]. split; reflexivity.
    - intros (lo & hi & (ea & eb & Ha & Hb & Hlo & Hhi) & H). subst lo hi.
      rewrite Ha, Hb. exact H.
  Qed.

  Lemma valid_migb_iff g m : valid_migb g m = true <-> ValidMig g m.
  Proof.
    unfold valid_migb. repeat rewrite andb_true_iff. split.
    - intros (((((A & B) & C) & D) & E) & F). constructor.
      + apply negb_true_iff in A. now apply String.eqb_neq in A.
      + destruct (find_deme g (m_src m)) as [s|]; [|discriminate B].
        destruct (find_deme g (m_dst m)) as [d|]; [|discriminate B].
        apply coexistb_iff in B. destruct B as (lo & hi & Hc & Hw).
        apply andb_true_iff in Hw. destruct Hw as [W1 W2].
        apply withinb_iff in W1. apply withinb_iff in W2.
        exists s, d, lo, hi. auto.
      + exact C.
      + now apply negb_true_iff in D.
      + exact E.
      + now apply in_unitb_iff.
    - intros [A B C D E F]. repeat split.
      + apply negb_true_iff. now apply String.eqb_neq.
      + destruct B as (s & d & lo & hi & Fs & Fd & Hc & W1 & W2).
        rewrite Fs, Fd. apply coexistb_iff. exists lo, hi. split; [exact Hc|].
        apply andb_true_iff. split; now apply withinb_iff.
      + exact C.
      + now apply negb_true_iff.
      + exact E.
      + now apply in_unitb_iff.
  Qed.

  (* ------------------------------------------------------------------ *)
  (* overlap *)

  Lemma no_overlapb_nth ms : no_overlapb ms = true ->
    forall i j a b, (i < j)%nat -> nth_error ms i = Some a -> nth_error ms j = Some b ->
      overlapb a b = false.
  Proof.
    induction ms as [|x ms IH]; intros H i j a b Hlt Ha Hb.
    - destruct i; discriminate Ha.
    - cbn [no_overlapb] in H. apply andb_true_iff in H. destruct H as [H1 H2].
      destruct j as [|j]; [lia|]. cbn [nth_error] in Hb. destruct i as [|i].
      + cbn [nth_error] in Ha. injection Ha as <-. rewrite forallb_forall in H1.
        apply nth_error_In in Hb. apply H1 in Hb. now apply negb_true_iff in Hb.
      + cbn [nth_error] in Ha. apply (IH H2 i j); auto. lia.
  Qed.

  Lemma no_overlapb_of_nth ms :
    (forall i j a b, (i < j)%nat -> nth_error ms i = Some a -> nth_error ms j = Some b ->
       overlapb a b = false) ->
    no_overlapb ms = true.
  Proof.
    induction ms as [|x ms IH]; intro H; [reflexivity|].
    cbn [no_overlapb]. apply andb_true_iff. split.
    - apply forallb_forall. intros b Hb. apply negb_true_iff.
      destruct (In_nth_error _ _ Hb) as [j Hj].
      apply (H 0%nat (S j) x b); [lia|reflexivity|exact Hj].
    - apply IH. intros i j a b Hlt Ha Hb. apply (H (S i) (S j) a b); auto. lia.
  Qed.

  Lemma active_overlapb a b t :
    m_src a = m_src b -> m_dst a = m_dst b -> Active a t -> Active b t -> overlapb a b = true.
  Proof.
    intros Hs Hd [A1 A2] [B1 B2]. unfold overlapb. rewrite Hs, Hd, !String.eqb_refl.
    cbn [andb]. apply andb_true_iff. split; nord.
  Qed.

  Lemma no_overlapb_sound ms : no_overlapb ms = true -> NoOverlap ms.
  Proof.
    intros H i j a b t Hne Ha Hb Hs Hd Ot Aa Ab.
    pose proof (no_overlapb_nth ms H) as P.
    destruct (lt_eq_lt_dec i j) as [[Hlt|Heq]|Hlt]; [|contradiction|].
    - pose proof (P i j a b Hlt Ha Hb) as F.
      rewrite (active_overlapb a b t Hs Hd Aa Ab) in F. discriminate F.
    - pose proof (P j i b a Hlt Hb Ha) as F.
      rewrite (active_overlapb b a t (eq_sym Hs) (eq_sym Hd) Ab Aa) in F. discriminate F.
  Qed.

  Lemma no_overlapb_complete ms :
    (forall m, In m ms -> nlt (m_end m) (m_start m) = true) ->
    NoOverlap ms -> no_overlapb ms = true.
  Proof.
    intros Hord NO. apply no_overlapb_of_nth. intros i j a b Hlt Ha Hb.
    destruct (overlapb a b) eqn:E; [exfalso|reflexivity].
    unfold overlapb in E. repeat rewrite andb_true_iff in E.
    destruct E as (((E1 & E2) & E3) & E4).
    apply String.eqb_eq in E1. apply String.eqb_eq in E2.
    pose proof (Hord a (nth_error_In _ _ Ha)) as Oa.
    pose proof (Hord b (nth_error_In _ _ Hb)) as Ob.
    assert (ok (m_end a)) as Ka by (apply lt_true in Oa; tauto).
    assert (ok (m_end b)) as Kb by (apply lt_true in Ob; tauto).
    assert (i <> j) as Hne by lia.
    destruct (nlt (m_end a) (m_end b)) eqn:C.
    - apply (NO i j a b (m_end b) Hne Ha Hb E1 E2 Kb); split; nord.
    - apply (NO i j a b (m_end a) Hne Ha Hb E1 E2 Ka); split; nord.
  Qed.

  (* ------------------------------------------------------------------ *)
  (* ingress *)

  Lemma migs_ok_of g :
    ValidDemes [] (g_demes g) -> (forall m, In m (g_migs g) -> ValidMig g m) ->
    NoOverlap (g_migs g) -> MigsOK g.
  Proof.
    intros VD VMs NO. constructor.
    - exact (proj1 (valid_demes_nodup _ _ VD)).
    - intros m Hm. pose proof (VMs m Hm) as VM.
      destruct (vm_demes _ _ VM) as (s & d & lo & hi & Fs & Fd & _).
      split; [eapply find_deme_in; eauto|].
      split; [eapply find_deme_in; eauto|].
      split; [exact (vm_distinct _ _ VM)|].
      split; [exact (vm_order _ _ VM)|].
      split; [exact (vm_end_fin _ _ VM)|].
      split; [exact (vm_end_nonneg _ _ VM)|].
      destruct (vm_rate _ _ VM) as [H _]. apply le_true in H. tauto.
    - exact NO.
  Qed.

  Lemma ingressb_complete g : MigsOK g -> IngressOK g -> ingressb g = true.
  Proof.
    intros OK IO. unfold ingressb.
    destruct (migmat_total g OK) as (mms & H & _). rewrite H. cbn [fst].
    apply forallb_forall. intros mm Hmm. apply forallb_forall. intros row Hrow.
    unfold row_okb. apply orb_true_iff.
    exact (migmat_rows g mms _ OK IO H mm row Hmm Hrow).
  Qed.

  Lemma ingressb_sound g : MigsOK g -> ingressb g = true -> IngressOK g.
  Proof.
    intros OK HB d t Hd Ot Ht0 Hfin. cbv zeta.
    destruct (migmat_total g OK) as (mms & H & Hlen & Hshape).
    unfold ingressb in HB. rewrite H in HB. cbn [fst] in HB.
    set (ets := mm_end_times (g_migs g)) in *.
    assert (forall m, In m (g_migs g) ->
              nlt (m_end m) (m_start m) = true /\ nle n0 (m_end m) = true) as Hm.
    { intros m Hin. destruct (mk_migs g OK m Hin) as (_ & _ & _ & A & _ & B & _). now split. }
    destruct (end_times_shape (g_migs g) Hm) as (Ene & Esd & Eok & Elast). fold ets in Ene, Esd, Eok, Elast.
    destruct (intervals_cover ets t Ene Esd (fun e He => proj1 (Eok e He)) Elast Ot Ht0 Hfin)
      as (k & e & Hk & T1 & T2 & _).
    pose proof (nth_error_lt _ _ _ Hk) as Hklt. rewrite <- Hlen in Hklt.
    destruct (nth_error mms k) as [mm|] eqn:Hmm; [|apply nth_error_None in Hmm; lia].
    pose proof (nth_error_In _ _ Hmm) as Imm.
    destruct (Hshape mm Imm) as [Sh1 Sh2].
    destruct (In_nth_error _ _ Hd) as [j Hj].
    pose proof (nth_error_lt _ _ _ Hj) as Hjlt. rewrite <- Sh1 in Hjlt.
    destruct (nth_error mm j) as [row|] eqn:Hrow; [|apply nth_error_None in Hrow; lia].
    pose proof (nth_error_In _ _ Hrow) as Irow.
    assert (row = map (fun s => rate_at (g_migs g) (d_name s) (d_name d) t) (g_demes g)) as Er.
    { apply (nth_ext _ _ nf0 nf0).
      - rewrite map_length. apply Sh2; auto.
      - intros i Hi. rewrite (Sh2 _ Irow) in Hi.
        destruct (nth_error (g_demes g) i) as [di|] eqn:Hdi; [|apply nth_error_None in Hdi; lia].
        transitivity (mget mm j i).
        + unfold mget. now rewrite (nth_error_nth _ _ [] Hrow).
        + rewrite (migmat_pointwise g mms ets OK H k mm e t i j (d_name di) (d_name d)
                     Hmm Hk Ot T1 T2).
          * symmetry. apply nth_error_nth.
            apply (map_nth_error (fun s => rate_at (g_migs g) (d_name s) (d_name d) t) _ _ Hdi).
          * unfold deme_names. now apply map_nth_error.
          * unfold deme_names. now apply map_nth_error. }
    rewrite forallb_forall in HB. specialize (HB mm Imm).
    rewrite forallb_forall in HB. specialize (HB row Irow).
    unfold row_okb in HB. apply orb_true_iff in HB.
    unfold ingress. rewrite <- Er. exact HB.
  Qed.

  (* ------------------------------------------------------------------ *)
  (* pulses *)

  Lemma valid_pulseb_iff g p : valid_pulseb g p = true <-> ValidPulse g p.
  Proof.
    unfold valid_pulseb. repeat rewrite andb_true_iff. split.
    - intros (((((((A & B) & C) & D) & E) & F) & G) & H).
      destruct (find_deme g (p_dst p)) as [d|] eqn:Fd; [|discriminate H].
      apply andb_true_iff in H. destruct H as [H1 H2].
      constructor.
      + apply negb_true_iff in A. now apply is_nil_false.
      + now apply nodupb_iff.
      + apply negb_true_iff in C. now apply memb_false.
      + now apply Nat.eqb_eq.
      + intros x Hx. rewrite forallb_forall in E. apply in_unit_lob_iff. auto.
      + now apply negb_true_iff.
      + now apply pos_finb_iff.
      + destruct (d_end d) as [ed|] eqn:Ed; [|discriminate H1].
        exists d, ed. split; [exact Fd|]. split; [exact Ed|]. now apply negb_true_iff.
      + intros s Hs. rewrite forallb_forall in H2. specialize (H2 s Hs).
        destruct (find_deme g s) as [sd|] eqn:Fs; [|discriminate H2].
        apply andb_true_iff in H2. destruct H2 as [H3 H4].
        apply coexistb_iff in H3. destruct H3 as (lo & hi & Hc & Hw).
        apply withinb_iff in Hw. apply negb_true_iff in H4.
        exists sd, d, lo, hi. auto.
    - intros [A B C D E F G H I].
      destruct H as (d & ed & Fd & Ed & Hne). unfold DEnd in Ed.
      rewrite Fd, Ed. repeat split.
      + apply negb_true_iff. now apply is_nil_false.
      + now apply nodupb_iff.
      + apply negb_true_iff. now apply memb_false.
      + now apply Nat.eqb_eq.
      + apply forallb_forall. intros x Hx. apply in_unit_lob_iff. auto.
      + now apply negb_true_iff.
      + now apply pos_finb_iff.
      + apply andb_true_iff. split; [now apply negb_true_iff|].
        apply forallb_forall. intros s Hs.
        destruct (I s Hs) as (sd & d' & lo & hi & Fs & Fd' & Hc & Hw & Hn).
        rewrite Fd in Fd'. injection Fd' as <-. rewrite Fs.
        apply andb_true_iff. split; [|now apply negb_true_iff].
        apply coexistb_iff. exists lo, hi. split; [exact Hc|now apply withinb_iff].
  Qed.

  Lemma pulses_sortedb_iff ps : pulses_sortedb ps = true <-> PulsesSorted ps.
  Proof.
    induction ps as [|p ps IH]; [cbn; tauto|].
    destruct ps as [|q ps]; [cbn; tauto|].
    change (pulses_sortedb (p :: q :: ps))
      with (nle (p_time q) (p_time p) && pulses_sortedb (q :: ps)).
    change (PulsesSorted (p :: q :: ps))
      with (nle (p_time q) (p_time p) = true /\ PulsesSorted (q :: ps)).
    now rewrite andb_true_iff, IH.
  Qed.

  Lemma index_eqb_iff l1 : forall l2, index_eqb l1 l2 = true <-> l1 = l2.
  Proof.
    induction l1 as [|[s1 i1] l1 IH]; intros [|[s2 i2] l2]; cbn [index_eqb];
      try (split; intro H; [discriminate H|congruence]).
    - tauto.
    - repeat rewrite andb_true_iff. rewrite String.eqb_eq, Nat.eqb_eq, IH. split.
      + intros [[-> ->] ->]. reflexivity.
      + intro H. injection H as -> -> ->. auto.
  Qed.

  (* ------------------------------------------------------------------ *)
  (* main theorems *)

  Theorem validb_sound g : validb g = true -> Valid g.
  Proof.
    unfold validb. repeat rewrite andb_true_iff.
    intros ((((((((((((A & B) & C) & D) & E) & F) & G) & H) & I) & J) & K) & M) & O).
    apply valid_demesb_iff in G.
    assert (forall m, In m (g_migs g) -> ValidMig g m) as VMs.
    { intros m Hm. rewrite forallb_forall in H. apply valid_migb_iff; auto. }
    apply no_overlapb_sound in I.
    pose proof (migs_ok_of g G VMs I) as OK.
    constructor.
    - apply negb_true_iff in A. now apply String.eqb_neq in A.
    - now apply pos_finb_iff.
    - intro Hu. rewrite Hu in C. exact C.
    - intros s Hs. rewrite forallb_forall in D. specialize (D s Hs).
      apply negb_true_iff in D. now apply String.eqb_neq in D.
    - exact E.
    - apply negb_true_iff in F. now apply is_nil_false.
    - exact G.
    - exact VMs.
    - exact I.
    - now apply ingressb_sound.
    - intros p Hp. rewrite forallb_forall in K. apply valid_pulseb_iff; auto.
    - now apply pulses_sortedb_iff.
    - now apply index_eqb_iff.
  Qed.

  Theorem validb_complete g : Valid g -> validb g = true.
  Proof.
    intro V. pose proof (valid_migs_ok g V) as OK.
    destruct V as [A B C D E F G H I J K M O].
    unfold validb. repeat rewrite andb_true_iff. repeat split.
    - apply negb_true_iff. now apply String.eqb_neq.
    - now apply pos_finb_iff.
    - destruct (String.eqb_spec (g_units g) "generations"); auto.
    - apply forallb_forall. intros s Hs. apply negb_true_iff. apply String.eqb_neq. auto.
    - exact E.
    - apply negb_true_iff. now apply is_nil_false.
    - now apply valid_demesb_iff.
    - apply forallb_forall. intros m Hm. apply valid_migb_iff; auto.
    - apply no_overlapb_complete; [|exact I].
      intros m Hm. exact (vm_order _ _ (H m Hm)).
    - now apply ingressb_complete.
    - apply forallb_forall. intros p Hp. apply valid_pulseb_iff; auto.
    - now apply pulses_sortedb_iff.
    - now apply index_eqb_iff.
  Qed.

  Theorem validb_spec g : validb g = true <-> Valid g.
  Proof. split; [apply validb_sound | apply validb_complete]. Qed.
End ValidbProofs.

Print Assumptions validb_sound.
Print Assumptions validb_complete.
Print Assumptions validb_spec.
