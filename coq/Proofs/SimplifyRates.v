(* C05 (c), rates: the migration-rate check passes on the re-resolved graph, whose
   migrations are a permutation of value-equal copies of the original ones. *)
From Coq Require Import Bool List String QArith Lqa Arith Lia Permutation.
From Demes Require Import Base.Num Base.Py Model.MDM Model.Codec Model.MigMat Model.Resolve
  Model.Simplify Spec.Valid Proofs.MigMatProofs Proofs.FixedPoint Proofs.SimplifyLists
  Proofs.SimplifySearch Proofs.SimplifyTotal Proofs.SimplifyDemes Proofs.SimplifyResolve
  Proofs.ResolveMigs.
Import ListNotations.
Local Open Scope string_scope.
Local Open Scope list_scope.

Section SimplifyRates.
  Context {N : NumOps} {L : NumLaws N} {SL : SumLaws N L}.

  Definition NOV (a b : mig) : Prop :=
    m_src a = m_src b -> m_dst a = m_dst b -> forall t, ok t -> Active a t -> Active b t -> False.

  Lemma NOV_sym a b : NOV a b -> NOV b a.
  Proof. unfold NOV. intros H E1 E2 t Ht A1 A2. apply (H (eq_sym E1) (eq_sym E2) t); auto. Qed.

  Lemma active_veq a b t : MigVEq0 a b -> ok t -> Active a t -> Active b t.
  Proof.
    intros (_ & _ & V1 & V2 & _) Ht [A1 A2]. unfold Veq in *. split; nord.
  Qed.

  Lemma activeb_veq a b t : MigVEq0 a b -> ok t -> activeb a t = activeb b t.
  Proof.
    intros (_ & _ & V1 & V2 & _) Ht. unfold Veq, activeb in *.
    assert (ok (m_start a) /\ ok (m_start b) /\ ok (m_end a) /\ ok (m_end b)) as (?&?&?&?).
    { apply eq_true in V1, V2. tauto. }
    f_equal.
    - destruct (nlt t (m_start a)) eqn:E1, (nlt t (m_start b)) eqn:E2; try reflexivity; exfalso; nord.
    - destruct (nle (m_end a) t) eqn:E1, (nle (m_end b) t) eqn:E2; try reflexivity; exfalso; nord.
  Qed.

  Lemma MigVEq0_sym a b : MigVEq0 a b -> MigVEq0 b a.
  Proof.
    intros (E1 & E2 & V1 & V2 & V3). unfold MigVEq0, Veq in *.
    repeat split; auto using neqb_sym.
  Qed.

  Section Transfer.
    Context (g : graph) (post ml : list mig) (V : Valid g)
            (Pm : Permutation (g_migs g) ml) (Fm : Forall2 MigVEq0 ml post).

    Lemma post_back m' : In m' post -> exists m, In m (g_migs g) /\ MigVEq0 m m'.
    Proof.
      intro H. destruct (Forall2_in_r' _ _ _ Fm m' H) as (m & Hm & Hv).
      exists m. split; [|exact Hv]. eapply Permutation_in; [apply Permutation_sym; exact Pm|exact Hm].
    Qed.

    Lemma post_fwd m : In m (g_migs g) -> exists m', In m' post /\ MigVEq0 m m'.
    Proof.
      intro H. apply (Permutation_in _ Pm) in H. exact (Forall2_in_l _ _ _ Fm m H).
    Qed.

    Lemma valid_nov : AllPairs NOV (g_migs g).
    Proof.
      apply AllPairs_of_nth. intros i j a b Hij Hi Hj E1 E2 t Ht A1 A2.
      exact (v_overlap _ V i j a b t Hij Hi Hj E1 E2 Ht A1 A2).
    Qed.

    Lemma post_nooverlap : NoOverlap post.
    Proof.
      assert (AP : AllPairs NOV post).
      { apply (AllPairs_Forall2 NOV NOV MigVEq0 ml post); [|exact Fm|].
        - intros a b a' b' Ha Hb Hab E1 E2 t Ht A1 A2.
          pose proof Ha as (Sa & Da & _). pose proof Hb as (Sb & Db & _).
          apply (Hab ltac:(congruence) ltac:(congruence) t Ht).
          + exact (active_veq a' a t (MigVEq0_sym _ _ Ha) Ht A1).
          + exact (active_veq b' b t (MigVEq0_sym _ _ Hb) Ht A2).
        - exact (AllPairs_perm NOV NOV_sym _ _ Pm valid_nov). }
      intros i j a b t Hij Hi Hj E1 E2 Ht A1 A2.
      exact (AllPairs_nth NOV NOV_sym post AP i j a b Hij Hi Hj E1 E2 t Ht A1 A2).
    Qed.

    Lemma post_migs_ok h : MigsOK (G2 h g post []).
    Proof.
      destruct (valid_migs_ok g V) as [K1 K2 K3]. constructor.
      - unfold deme_names, G2 in *. cbn [GR g_demes]. now rewrite sdeme_names.
      - unfold deme_names, G2 in *. cbn [GR g_demes g_migs]. rewrite sdeme_names.
        intros m' Hm'. destruct (post_back m' Hm') as (m & Hm & (E1 & E2 & V1 & V2 & V3)).
        destruct (K2 m Hm) as (A1 & A2 & A3 & A4 & A5 & A6 & A7). unfold Veq in *.
        assert (ok (m_rate m')) by (apply eq_true in V3; tauto).
        rewrite <- E1, <- E2. repeat split; auto; nord.
      - exact post_nooverlap.
    Qed.

    Definition sel (src dst : string) (t : num) (m : mig) : bool :=
      String.eqb (m_src m) src && String.eqb (m_dst m) dst && activeb m t.

    Lemma sel_veq src dst t a b : MigVEq0 a b -> ok t -> sel src dst t a = sel src dst t b.
    Proof.
      intros Hv Ht. unfold sel. rewrite (activeb_veq a b t Hv Ht).
      destruct Hv as (-> & -> & _). reflexivity.
    Qed.

    Lemma sel_active src dst t m : sel src dst t m = true ->
      m_src m = src /\ m_dst m = dst /\ Active m t.
    Proof.
      unfold sel, activeb, Active. rewrite !andb_true_iff, !String.eqb_eq. tauto.
    Qed.

    Lemma rate_at_veq src dst t : ok t ->
      neqb (rate_at (g_migs g) src dst t) (rate_at post src dst t) = true /\
      nisint (rate_at (g_migs g) src dst t) = false /\ nisint (rate_at post src dst t) = false.
    Proof.
      intro Ht. unfold rate_at. fold (sel src dst t).
      assert (NI : forall o : option mig,
                 nisint (match o with Some m => nfloat (m_rate m) | None => nf0 end) = false).
      { intros [m|]; [apply float_notint|apply f0_notint]. }
      split; [|split; apply NI].
      destruct (find (sel src dst t) (g_migs g)) as [m|] eqn:F1.
      - apply find_some in F1. destruct F1 as [Hm Sm].
        destruct (post_fwd m Hm) as (m' & Hm' & Hv).
        destruct (find (sel src dst t) post) as [m2|] eqn:F2.
        + apply find_some in F2. destruct F2 as [Hm2 Sm2].
          destruct (post_back m2 Hm2) as (m0 & Hm0 & Hv0).
          assert (Sm0 : sel src dst t m0 = true) by (rewrite (sel_veq _ _ _ m0 m2 Hv0 Ht); exact Sm2).
          assert (m = m0).
          { destruct (AllPairs_In NOV NOV_sym _ valid_nov m m0 Hm Hm0) as [E|Hn]; [exact E|exfalso].
            apply sel_active in Sm, Sm0. destruct Sm as (S1 & S2 & S3), Sm0 as (T1 & T2 & T3).
            apply (Hn ltac:(congruence) ltac:(congruence) t Ht S3 T3). }
          subst m0. destruct Hv0 as (_ & _ & _ & _ & Hr). unfold Veq in Hr.
          assert (okr : ok (m_rate m) /\ ok (m_rate m2)) by (apply eq_true in Hr; tauto).
          destruct okr as [ok1 ok2].
          destruct (float_rk _ ok1) as [F1 F1']. destruct (float_rk _ ok2) as [F2 F2'].
          apply eq_iff; auto. apply eq_true in Hr. destruct Hr as (_ & _ & Hr). lra.
        + exfalso. pose proof (find_none _ _ F2 m' Hm') as Hn.
          rewrite <- (sel_veq _ _ _ m m' Hv Ht) in Hn. congruence.
      - destruct (find (sel src dst t) post) as [m2|] eqn:F2.
        + exfalso. apply find_some in F2. destruct F2 as [Hm2 Sm2].
          destruct (post_back m2 Hm2) as (m0 & Hm0 & Hv0).
          pose proof (find_none _ _ F1 m0 Hm0) as Hn.
          rewrite (sel_veq _ _ _ m0 m2 Hv0 Ht) in Hn. congruence.
        + apply eq_refl_ok. apply ok_f0.
    Qed.

    (* SumOK (Proofs/ResolveMigs.v: a sum of numbers of [0,1] is not NaN) excludes the case
       where both ingress sums are NaN, about which isclose_veq says nothing *)
    Lemma post_ingress_ok h : SumOK -> IngressOK (G2 h g post []).
    Proof.
      intros SO d' t Hd' okt T1 T2. unfold G2 in Hd'. cbn [GR g_demes] in Hd'.
      apply in_map_iff in Hd'. destruct Hd' as (d & <- & Hd).
      pose proof (v_ingress _ V d t Hd okt T1 T2) as IO. cbn zeta in IO |- *.
      unfold ingress in *. unfold G2. cbn [GR g_demes g_migs sdeme d_name]. rewrite map_map.
      cbn [sdeme d_name].
      set (l := map (fun s => rate_at (g_migs g) (d_name s) (d_name d) t) (g_demes g)) in *.
      set (l' := map (fun s => rate_at post (d_name s) (d_name d) t) (g_demes g)).
      assert (F : Forall2 (fun x y => neqb x y = true) l l').
      { unfold l, l'.
        assert (G : forall ds, Forall2 (fun x y => neqb x y = true)
                      (map (fun s => rate_at (g_migs g) (d_name s) (d_name d) t) ds)
                      (map (fun s => rate_at post (d_name s) (d_name d) t) ds)).
        { induction ds as [|a ds IH]; cbn [map]; constructor; [|exact IH].
          exact (proj1 (rate_at_veq (d_name a) (d_name d) t okt)). }
        apply G. }
      destruct (sum_float_veq l l' F) as [Hs|[N1 N2]].
      - intros x Hx. unfold l in Hx. apply in_map_iff in Hx. destruct Hx as (a & <- & _).
        exact (proj1 (proj2 (rate_at_veq (d_name a) (d_name d) t okt))).
      - intros x Hx. unfold l' in Hx. apply in_map_iff in Hx. destruct Hx as (a & <- & _).
        exact (proj2 (proj2 (rate_at_veq (d_name a) (d_name d) t okt))).
      - destruct IO as [IO|IO]; [left; nord|right].
        unfold isclose0 in *. rewrite <- (isclose_veq _ _ _ _ _ Hs). exact IO.
      - exfalso. assert (Hok : ok (pysum l)); [|unfold ok in Hok; congruence].
        apply SO. intros x Hx. unfold l in Hx. apply in_map_iff in Hx. destruct Hx as (a & <- & _).
        apply rate_at_unit. intros m Hm. exact (vm_rate _ _ (v_migs _ V m Hm)).
    Qed.

    Lemma post_rates_ok h : SumOK -> check_migration_rates (G2 h g post []) = Ok tt.
    Proof.
      intro NF. apply check_rates_ok; [apply post_migs_ok|now apply post_ingress_ok].
    Qed.
  End Transfer.
End SimplifyRates.
