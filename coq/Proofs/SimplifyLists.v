(* C05 support: generic list facts (pairwise relations, remove_first, combinations,
   perms2, collapse, monadic folds) used by the proofs about asdict_simplified. *)
From Coq Require Import Bool List String Arith Lia Permutation.
From Demes Require Import Base.Num Base.Py Model.MDM Model.Codec Model.MigMat Model.Resolve
  Model.Simplify.
Import ListNotations.
Local Open Scope string_scope.
Local Open Scope list_scope.

(* ------------------------------------------------------------------ *)
(* monadic folds *)

Lemma sbind_inv {A B} (m : res A) (k : A -> res B) y :
  bind m k = Ok y -> exists a, m = Ok a /\ k a = Ok y.
Proof. destruct m; cbn; intro H; [eauto|discriminate]. Qed.

Lemma sbind_ok {A B} (m : res A) a (k : A -> res B) r : m = Ok a -> k a = r -> bind m k = r.
Proof. intros -> <-. reflexivity. Qed.

Lemma foldM_total_in {A S} (f : S -> A -> res S) (P : S -> Prop) l :
  (forall s a, In a l -> P s -> exists s', f s a = Ok s' /\ P s') ->
  forall s, P s -> exists s', foldM f l s = Ok s' /\ P s'.
Proof.
  induction l as [|a l IH]; intros Hstep s Hs.
  - exists s. split; [reflexivity|exact Hs].
  - cbn. destruct (Hstep s a (or_introl eq_refl) Hs) as (s1 & H1 & P1).
    rewrite H1. cbn. apply IH; [|exact P1].
    intros s2 b Hb. apply Hstep. now right.
Qed.

Lemma foldM_inv_in {A S} (f : S -> A -> res S) (P : S -> Prop) l :
  (forall s a s', In a l -> P s -> f s a = Ok s' -> P s') ->
  forall s s', P s -> foldM f l s = Ok s' -> P s'.
Proof.
  induction l as [|a l IH]; intros Hstep s s' Hs H; cbn in H.
  - injection H as <-. exact Hs.
  - apply sbind_inv in H. destruct H as (s1 & H1 & H).
    apply (IH (fun s2 b s3 Hb => Hstep s2 b s3 (or_intror Hb)) s1 s'); [|exact H].
    exact (Hstep s a s1 (or_introl eq_refl) Hs H1).
Qed.

Lemma mapM_total {A B} (f : A -> res B) l :
  (forall a, In a l -> exists b, f a = Ok b) -> exists l', mapM f l = Ok l'.
Proof.
  induction l as [|a l IH]; intro H.
  - exists []. reflexivity.
  - destruct (H a (or_introl eq_refl)) as (b & Hb).
    destruct IH as (l' & Hl'); [intros x Hx; apply H; now right|].
    exists (b :: l'). cbn. rewrite Hb. cbn. rewrite Hl'. reflexivity.
Qed.

Lemma mapM_Forall2 {A B} (f : A -> res B) l : forall l',
  mapM f l = Ok l' -> Forall2 (fun a b => f a = Ok b) l l'.
Proof.
  induction l as [|a l IH]; intros l' H; cbn in H.
  - injection H as <-. constructor.
  - apply sbind_inv in H. destruct H as (b & Hb & H).
    apply sbind_inv in H. destruct H as (bs & Hbs & H). injection H as <-.
    constructor; auto.
Qed.

(* ------------------------------------------------------------------ *)
(* pairwise relations over the elements at distinct positions *)

Section AllPairs.
  Context {A : Type} (R : A -> A -> Prop).

  Inductive AllPairs : list A -> Prop :=
  | AP_nil : AllPairs []
  | AP_cons x l : (forall y, In y l -> R x y) -> AllPairs l -> AllPairs (x :: l).

  Context (Rsym : forall a b, R a b -> R b a).

  Lemma AllPairs_perm l l' : Permutation l l' -> AllPairs l -> AllPairs l'.
  Proof.
    induction 1 as [|x l l' HP IH|x y l|l l' l'' _ IH1 _ IH2]; intro H.
    - exact H.
    - inversion H as [|? ? Hx Hl]; subst. constructor.
      + intros y Hy. apply Hx. apply Permutation_in with l'; [now apply Permutation_sym|exact Hy].
      + now apply IH.
    - inversion H as [|? ? Hy Hl]; subst. inversion Hl as [|? ? Hx Hl']; subst.
      constructor.
      + intros z [<-|Hz]; [apply Rsym; apply Hy; now left|now apply Hx].
      + constructor; [|exact Hl']. intros z Hz. apply Hy. now right.
    - auto.
  Qed.

  Lemma AllPairs_app_r l1 l2 : AllPairs (l1 ++ l2) -> AllPairs l2.
  Proof.
    induction l1 as [|a l1 IH]; cbn; intro H; [exact H|].
    inversion H; subst. auto.
  Qed.

  Lemma AllPairs_mid l1 x l2 :
    AllPairs (l1 ++ x :: l2) -> AllPairs (l1 ++ l2) /\ forall y, In y (l1 ++ l2) -> R x y.
  Proof.
    intro H. apply (AllPairs_perm _ (x :: l1 ++ l2)) in H.
    - inversion H; subst. auto.
    - apply Permutation_sym. apply Permutation_middle.
  Qed.

  Lemma AllPairs_In l : AllPairs l -> forall a b, In a l -> In b l -> a = b \/ R a b.
  Proof.
    induction 1 as [|x l Hx Hl IH]; intros a b Ha Hb; [destruct Ha|].
    destruct Ha as [<-|Ha], Hb as [<-|Hb]; auto.
  Qed.

  Lemma AllPairs_of_nth l :
    (forall i j a b, i <> j -> nth_error l i = Some a -> nth_error l j = Some b -> R a b) ->
    AllPairs l.
  Proof.
    induction l as [|x l IH]; intro H; constructor.
    - intros y Hy. destruct (In_nth_error _ _ Hy) as (j & Hj).
      apply (H 0%nat (S j)); [lia|reflexivity|exact Hj].
    - apply IH. intros i j a b Hij Hi Hj. apply (H (S i) (S j)); [lia|exact Hi|exact Hj].
  Qed.

  Lemma AllPairs_nth l : AllPairs l ->
    forall i j a b, i <> j -> nth_error l i = Some a -> nth_error l j = Some b -> R a b.
  Proof.
    induction 1 as [|x l Hx Hl IH]; intros i j a b Hij Hi Hj.
    - destruct i; discriminate.
    - destruct i as [|i], j as [|j]; cbn in Hi, Hj.
      + lia.
      + injection Hi as <-. apply Hx. eapply nth_error_In; eauto.
      + injection Hj as <-. apply Rsym. apply Hx. eapply nth_error_In; eauto.
      + apply (IH i j); auto.
  Qed.
End AllPairs.

Lemma AllPairs_Forall2 {A B} (R : A -> A -> Prop) (R' : B -> B -> Prop) (Q : A -> B -> Prop) l l' :
  (forall a b a' b', Q a a' -> Q b b' -> R a b -> R' a' b') ->
  Forall2 Q l l' -> AllPairs R l -> AllPairs R' l'.
Proof.
  intros HQ F. induction F as [|a a' l l' Ha F IH]; intro H; [constructor|].
  inversion H as [|? ? Hx Hl]; subst. constructor; [|auto].
  intros y' Hy'. clear IH H Hl.
  induction F as [|b b' l l' Hb F IH]; [destruct Hy'|].
  destruct Hy' as [<-|Hy'].
  - apply (HQ a b); auto. apply Hx. now left.
  - apply IH; auto. intros y Hy. apply Hx. now right.
Qed.

Lemma Forall2_in_l {A B} (R : A -> B -> Prop) l l' :
  Forall2 R l l' -> forall a, In a l -> exists b, In b l' /\ R a b.
Proof.
  induction 1 as [|a b l l' Hab _ IH]; intros x Hx; [destruct Hx|].
  destruct Hx as [<-|Hx].
  - exists b. split; [now left|auto].
  - destruct (IH x Hx) as (b' & Hb' & Hr). exists b'. split; [now right|auto].
Qed.

Lemma Forall2_in_r' {A B} (R : A -> B -> Prop) l l' :
  Forall2 R l l' -> forall b, In b l' -> exists a, In a l /\ R a b.
Proof.
  induction 1 as [|a b l l' Hab _ IH]; intros x Hx; [destruct Hx|].
  destruct Hx as [<-|Hx].
  - exists a. split; [now left|auto].
  - destruct (IH x Hx) as (a' & Ha' & Hr). exists a'. split; [now right|auto].
Qed.

Lemma Forall2_trans {A B C} (R : A -> B -> Prop) (S : B -> C -> Prop) (T : A -> C -> Prop) l1 l2 :
  (forall a b c, R a b -> S b c -> T a c) ->
  Forall2 R l1 l2 -> forall l3, Forall2 S l2 l3 -> Forall2 T l1 l3.
Proof.
  intros H F. induction F; intros l3 G; inversion G; subst; constructor; eauto.
Qed.

Lemma Forall2_sym {A B} (R : A -> B -> Prop) (S : B -> A -> Prop) l1 l2 :
  (forall a b, R a b -> S b a) -> Forall2 R l1 l2 -> Forall2 S l2 l1.
Proof. intros H F. induction F; constructor; auto. Qed.

Lemma Forall2_refl_in {A} (R : A -> A -> Prop) l : (forall a, In a l -> R a a) -> Forall2 R l l.
Proof.
  induction l as [|a l IH]; intro H; constructor.
  - apply H. now left.
  - apply IH. intros x Hx. apply H. now right.
Qed.

Lemma Forall2_map_r {A B C} (R : A -> C -> Prop) (f : B -> C) l l' :
  Forall2 (fun a b => R a (f b)) l l' -> Forall2 R l (map f l').
Proof. induction 1; cbn; constructor; auto. Qed.

Lemma Forall2_map_l {A B C} (R : C -> B -> Prop) (f : A -> C) l l' :
  Forall2 (fun a b => R (f a) b) l l' -> Forall2 R (map f l) l'.
Proof. induction 1; cbn; constructor; auto. Qed.

Lemma Forall2_mono {A B} (R S : A -> B -> Prop) l l' :
  (forall a b, In a l -> In b l' -> R a b -> S a b) -> Forall2 R l l' -> Forall2 S l l'.
Proof.
  intros H F. induction F as [|a b l l' Hab F IH]; constructor.
  - apply H; [now left|now left|exact Hab].
  - apply IH. intros x y Hx Hy. apply H; now right.
Qed.

(* ------------------------------------------------------------------ *)
(* remove_first *)

Lemma remove_first_split {A} (eqb : A -> A -> bool) x l l' :
  remove_first eqb x l = Ok l' ->
  exists l1 a l2, l = l1 ++ a :: l2 /\ l' = l1 ++ l2 /\ eqb a x = true.
Proof.
  revert l'. induction l as [|y l IH]; intros l' H; cbn in H; [discriminate|].
  destruct (eqb y x) eqn:E.
  - injection H as <-. exists [], y, l. auto.
  - apply sbind_inv in H. destruct H as (r & Hr & H). injection H as <-.
    destruct (IH r Hr) as (l1 & a & l2 & -> & -> & Ha).
    exists (y :: l1), a, l2. auto.
Qed.

Lemma remove_first_total {A} (eqb : A -> A -> bool) x l :
  (exists a, In a l /\ eqb a x = true) -> exists l', remove_first eqb x l = Ok l'.
Proof.
  induction l as [|y l IH]; intros (a & Ha & He); [destruct Ha|]. cbn.
  destruct (eqb y x) eqn:E; [eauto|].
  destruct Ha as [<-|Ha]; [congruence|].
  destruct IH as (l' & Hl'); [eauto|]. rewrite Hl'. cbn. eauto.
Qed.

Lemma remove_first_keeps {A} (eqb : A -> A -> bool) x l l' b :
  remove_first eqb x l = Ok l' -> In b l -> eqb b x = false -> In b l'.
Proof.
  intros H Hb He. destruct (remove_first_split _ _ _ _ H) as (l1 & a & l2 & -> & -> & Ha).
  apply in_app_or in Hb. apply in_or_app. destruct Hb as [Hb|[<-|Hb]]; auto. congruence.
Qed.

(* ------------------------------------------------------------------ *)
(* strings: mem, pair_eqb, mem_pair *)

Lemma smem_in s l : mem s l = true -> In s l.
Proof.
  unfold mem. intro H. apply existsb_exists in H. destruct H as (x & Hx & He).
  apply String.eqb_eq in He. now subst.
Qed.

Lemma smem_not_in s l : mem s l = false -> ~ In s l.
Proof.
  unfold mem. intros H Hin. assert (existsb (String.eqb s) l = true); [|congruence].
  apply existsb_exists. exists s. split; [exact Hin|apply String.eqb_refl].
Qed.

Lemma pair_eqb_eq p q : pair_eqb p q = true <-> p = q.
Proof.
  unfold pair_eqb. destruct p as [a b], q as [c d]. cbn. rewrite andb_true_iff, !String.eqb_eq.
  split; [intros [-> ->]; reflexivity|intro H; injection H; auto].
Qed.

Lemma mem_pair_in p l : mem_pair p l = true -> In p l.
Proof.
  unfold mem_pair. intro H. apply existsb_exists in H. destruct H as (q & Hq & He).
  apply pair_eqb_eq in He. now subst.
Qed.

(* ------------------------------------------------------------------ *)
(* collapse, combinations *)

Lemma collapse_nodup pairs : NoDup (collapse pairs).
Proof.
  unfold collapse.
  assert (G : forall acc, NoDup acc ->
            NoDup (fold_left (fun acc p =>
                 let acc := if mem (fst p) acc then acc else acc ++ [fst p] in
                 if mem (snd p) acc then acc else acc ++ [snd p]) pairs acc)).
  { induction pairs as [|p pairs IH]; intros acc ND; cbn; [exact ND|].
    apply IH.
    assert (ND1 : NoDup (if mem (fst p) acc then acc else acc ++ [fst p])).
    { destruct (mem (fst p) acc) eqn:E; [exact ND|].
      apply smem_not_in in E. apply Permutation_NoDup with (fst p :: acc).
      - apply Permutation_cons_append.
      - now constructor. }
    set (acc1 := if mem (fst p) acc then acc else acc ++ [fst p]) in *.
    destruct (mem (snd p) acc1) eqn:E; [exact ND1|].
    apply smem_not_in in E. apply Permutation_NoDup with (snd p :: acc1).
    - apply Permutation_cons_append.
    - now constructor. }
  apply G. constructor.
Qed.

Lemma combinations_spec {A} (l : list A) : forall k c,
  In c (combinations l k) ->
  List.length c = k /\ (forall x, In x c -> In x l) /\ (NoDup l -> NoDup c).
Proof.
  induction l as [|x l IH]; intros k c H.
  - destruct k; cbn in H; [|destruct H]. destruct H as [<-|[]].
    repeat split; [intros ? []|constructor].
  - destruct k as [|k]; cbn in H.
    + destruct H as [<-|[]]. repeat split; [intros ? []|constructor].
    + apply in_app_or in H. destruct H as [H|H].
      * apply in_map_iff in H. destruct H as (c' & <- & Hc').
        destruct (IH _ _ Hc') as (I1 & I2 & I3). repeat split.
        -- cbn. now rewrite I1.
        -- intros y [<-|Hy]; [now left|right; auto].
        -- intro ND. inversion ND; subst. constructor; auto.
      * destruct (IH _ _ H) as (I1 & I2 & I3). repeat split; auto.
        -- intros y Hy. right. auto.
        -- intro ND. inversion ND; subst. auto.
Qed.

(* ------------------------------------------------------------------ *)
(* perms2 *)

Lemma remove_nth_in {A} (l : list A) : forall i y, In y (remove_nth i l) -> In y l.
Proof.
  induction l as [|x l IH]; intros i y H; [destruct i; destruct H|].
  destruct i as [|i]; cbn in H; [now right|].
  destruct H as [<-|H]; [now left|right; eauto].
Qed.

Lemma remove_nth_nodup {A} (l : list A) : forall i, NoDup l -> NoDup (remove_nth i l).
Proof.
  induction l as [|x l IH]; intros i ND; [destruct i; constructor|].
  inversion ND; subst. destruct i as [|i]; cbn; [assumption|].
  constructor; [|auto]. intro H. apply remove_nth_in in H. contradiction.
Qed.

Lemma remove_nth_not_in {A} (l : list A) : forall i x,
  NoDup l -> nth_error l i = Some x -> ~ In x (remove_nth i l).
Proof.
  induction l as [|a l IH]; intros i x ND Hi; [destruct i; discriminate|].
  inversion ND; subst. destruct i as [|i]; cbn in *.
  - injection Hi as <-. assumption.
  - intros [->|H].
    + apply nth_error_In in Hi. contradiction.
    + exact (IH i x ltac:(assumption) Hi H).
Qed.

Lemma perms2_in {A} (l : list A) x y :
  In (x, y) (perms2 l) ->
  exists i, nth_error l i = Some x /\ In y (remove_nth i l).
Proof.
  unfold perms2. intro H. apply in_flat_map in H. destruct H as (i & Hi & H).
  destruct (nth_error l i) as [x'|] eqn:E; [|destruct H].
  apply in_map_iff in H. destruct H as (y' & He & Hy'). injection He as -> ->.
  exists i. auto.
Qed.

Lemma perms2_spec {A} (l : list A) x y :
  In (x, y) (perms2 l) -> In x l /\ In y l /\ (NoDup l -> x <> y).
Proof.
  intro H. destruct (perms2_in _ _ _ H) as (i & Hi & Hy). repeat split.
  - eapply nth_error_In; eauto.
  - eapply remove_nth_in; eauto.
  - intros ND ->. exact (remove_nth_not_in _ _ _ ND Hi Hy).
Qed.

Lemma NoDup_flat_map {A B} (f : A -> list B) l :
  NoDup l -> (forall x, In x l -> NoDup (f x)) ->
  (forall x y z, In x l -> In y l -> In z (f x) -> In z (f y) -> x = y) ->
  NoDup (flat_map f l).
Proof.
  induction 1 as [|a l Ha ND IH]; intros H1 H2; cbn; [constructor|].
  assert (G : forall l1 l2 : list B, NoDup l1 -> NoDup l2 ->
              (forall z, In z l1 -> ~ In z l2) -> NoDup (l1 ++ l2)).
  { induction l1 as [|b l1 IHl]; intros l2 N1 N2 D; cbn; [exact N2|].
    inversion N1; subst. constructor.
    - intro Hin. apply in_app_or in Hin. destruct Hin as [Hin|Hin]; [contradiction|].
      apply (D b); [now left|exact Hin].
    - apply IHl; auto. intros z Hz. apply D. now right. }
  apply G.
  - apply H1. now left.
  - apply IH.
    + intros x Hx. apply H1. now right.
    + intros x y z Hx Hy. apply H2; now right.
  - intros z Hz Hin. apply in_flat_map in Hin. destruct Hin as (x & Hx & Hzx).
    assert (a = x) by (apply (H2 a x z); auto; [now left|now right]). subst. contradiction.
Qed.

Lemma perms2_nodup {A} (l : list A) : NoDup l -> NoDup (perms2 l).
Proof.
  intro ND. unfold perms2. apply NoDup_flat_map.
  - apply seq_NoDup.
  - intros i _. destruct (nth_error l i) as [x|]; [|constructor].
    assert (NR : NoDup (remove_nth i l)) by now apply remove_nth_nodup.
    induction NR as [|y r Hy NR IH]; cbn; constructor; [|exact IH].
    intro Hin. apply in_map_iff in Hin. destruct Hin as (y' & He & Hy'). injection He as ->.
    contradiction.
  - intros i j z _ _ Hi Hj.
    destruct (nth_error l i) as [x|] eqn:Ei; [|destruct Hi].
    destruct (nth_error l j) as [x'|] eqn:Ej; [|destruct Hj].
    apply in_map_iff in Hi. destruct Hi as (y & <- & _).
    apply in_map_iff in Hj. destruct Hj as (y' & He & _). injection He as -> _.
    apply (proj1 (NoDup_nth_error l) ND).
    + apply nth_error_Some. congruence.
    + congruence.
Qed.

Lemma perms2_nonempty {A} (l : list A) : (2 <= List.length l)%nat -> perms2 l <> [].
Proof.
  destruct l as [|x [|y l]]; cbn; try lia. intros _. discriminate.
Qed.

Lemma remove_nth_map {A B} (f : A -> B) (l : list A) : forall i,
  remove_nth i (map f l) = map f (remove_nth i l).
Proof.
  induction l as [|x l IH]; intro i; [destruct i; reflexivity|].
  destruct i as [|i]; cbn; [reflexivity|]. now rewrite IH.
Qed.

Lemma perms2_map {A B} (f : A -> B) (l : list A) :
  perms2 (map f l) = map (fun p => (f (fst p), f (snd p))) (perms2 l).
Proof.
  unfold perms2. rewrite map_length.
  induction (seq 0 (List.length l)) as [|i s IH]; cbn; [reflexivity|].
  rewrite map_app, IH. f_equal.
  rewrite nth_error_map. destruct (nth_error l i) as [x|]; cbn; [|reflexivity].
  rewrite remove_nth_map, !map_map. reflexivity.
Qed.
